import UvModel.DriverUtil
import UvModel.Tpool
import Std.Data.HashMap
/-! line-protocol driver modes for C08 (thread pool); other side: harness/c08_sched.c

`tpool`      lockstep: `cfg n L` then one action per line; prints events, lock trace and the
             abstract state after every action (`skip` when the action is not enabled)
`tpoolgen`   schedule generator: `cfg n L maxItems` then `r <cat> <num> <c>` lines; picks the
             (num mod k)-th enabled action of the category and prints it as a schedule line
`tpoolgraph` `cfg n L maxItems maxCancels kinds spur`: prints every transition of the reachable
             state graph (`e src dst action`), for exhaustive small-scope schedules -/
namespace Drivers.C08
open UvModel.DriverUtil UvModel.Tpool

def lst (xs : List String) : String := if xs.isEmpty then "-" else ",".intercalate xs

def entS : Ent → String
  | .item i => toString i
  | .marker => "M"

def wphS : WPhase → String
  | .start => "start" | .waiting => "wait" | .woken => "woken"
  | .got _ _ => "got" | .inwork i _ => s!"inwork:{i}" | .posted _ => "posted"

def kindS : Kind → String | .cpu => "c" | .fast => "f" | .slow => "s"
def workS : Work → String | .fn => "f" | .null => "n" | .cancelled => "c"
def b01 (b : Bool) : String := if b then "1" else "0"

def loopS (l : Nat) (ls : LoopSt) : String :=
  let ph := match ls.cmid with
    | some _ => "cmid"
    | none => match ls.phase with | .top => "top" | .drained => "drained" | .incb => "incb"
  s!"L{l}={ph}:q={lst (ls.q.map toString)}:a{b01 ls.async}:r{ls.reqs}"

def itemS (i : Nat) (it : Item) : String :=
  s!"{i}/L{it.loop}/{kindS it.kind}/{b01 it.linked}/{workS it.work}/{it.starts}/{b01 it.returned}/{it.dones}/{it.status}"

def dump (s : State) : String :=
  s!"wq={lst (s.wq.map entS)} sq={lst (s.sq.map toString)} sr={s.slowRun} idle={s.idle} " ++
  s!"W={lst ((List.range s.n).map fun t => wphS (s.workers t))} " ++
  " ".intercalate ((List.range s.nLoops).map fun l => loopS l (s.loops l)) ++
  s!" I={lst ((List.range s.nItems).map fun i => itemS i (s.items i))}"

def evS (evs : List Ev) : String :=
  let e := evs.filterMap fun
    | .ws i => some s!"ws:{i}" | .we i => some s!"we:{i}" | .dn i st => some s!"dn:{i}:{st}"
    | .ret v => some s!"ret:{v}" | .lk _ => none
  let l := evs.filterMap fun | .lk s => some s | _ => none
  s!"ev={lst e} lk={lst l}"

def parseKind : String → Option Kind
  | "c" => some .cpu | "f" => some .fast | "s" => some .slow | _ => none

def parseAct : List String → Option Act
  | ["sub", l, k, c] => (parseKind k).map fun k => .sub (nat! l) k (nat! c)
  | ["can", l, i] => some (.can (nat! l) (nat! i))
  | ["go", l] => some (.go (nat! l))
  | ["drn", l] => some (.drn (nat! l))
  | ["wk", t, c] => some (.wk (nat! t) (nat! c))
  | ["wake", t] => some (.wake (nat! t))
  | _ => none

def actS : Act → String
  | .sub l k c => s!"sub {l} {kindS k} {c}" | .can l i => s!"can {l} {i}" | .go l => s!"go {l}"
  | .drn l => s!"drn {l}" | .wk t c => s!"wk {t} {c}" | .wake t => s!"wake {t}"

def tpoolStep (s : State) : List String → State × List String
  | ["cfg", n, l] => let s := State.init (nat! n) (nat! l); (s, [s!"ev=- lk=- | {dump s}"])
  | "fin" :: _ => (s, [])
  | [] => (s, [])
  | ws =>
    match parseAct ws with
    | none => (s, ["bad-op"])
    | some a =>
      match step s a with
      | none => (s, ["skip"])
      | some (s', evs) => (s', [s!"{evS evs} | {dump s'}"])

/-! ### enabled actions (signal choice 0; callers vary it) -/

def enabledCat (s : State) (maxItems : Nat) (kinds : List Kind) (cat : String) : List Act :=
  let ls := List.range s.nLoops
  let ok (a : Act) : Bool := (step s a).isSome
  let subs := if s.nItems < maxItems then
      (ls.flatMap fun l => kinds.map fun k => Act.sub l k 0).filter ok else []
  let cans := (ls.flatMap fun l => (List.range s.nItems).map fun i => Act.can l i).filter ok
  let loopA := (ls.flatMap fun l =>
      [Act.go l] ++ (if (s.loops l).async then [Act.drn l] else [])).filter ok
  let wks := ((List.range s.n).map fun t => Act.wk t 0).filter ok
  let wakes := ((List.range s.n).map fun t => Act.wake t).filter ok
  match cat with
  | "sub" => subs | "can" => cans | "loop" => loopA | "wk" => wks | "wake" => wakes
  | "nospur" => subs ++ cans ++ loopA ++ wks
  | _ => subs ++ cans ++ loopA ++ wks ++ wakes

def withC : Act → Nat → Act
  | .sub l k _, c => .sub l k c
  | .wk t _, c => .wk t c
  | a, _ => a

structure GenSt where
  s : State := State.init 1 1
  maxItems : Nat := 0

def genStep (g : GenSt) : List String → GenSt × List String
  | ["cfg", n, l, m] => ({ s := State.init (nat! n) (nat! l), maxItems := nat! m }, [s!"cfg {n} {l}"])
  | ["r", cat, num, c] =>
    let all := [Kind.cpu, .fast, .slow]
    let xs := enabledCat g.s g.maxItems all cat
    let xs := if xs.isEmpty then enabledCat g.s g.maxItems all "any" else xs
    match xs[nat! num % xs.length]? with
    | none => (g, [])
    | some a =>
      let a := withC a (nat! c)
      match step g.s a with
      | some (s', _) => ({ g with s := s' }, [actS a])
      | none => (g, [])
  | [] => (g, [])
  | _ => (g, ["bad-op"])

/-! ### exhaustive graph -/

def key (s : State) (cancels : Nat) : String :=
  dump s ++ " lq=" ++ " ".intercalate ((List.range s.nLoops).map fun l =>
    lst ((s.loops l).lq.map toString) ++ (match (s.loops l).cmid with
      | some (i, ok) => s!"/{i}{b01 ok}" | none => "")) ++ s!" c{cancels}"

partial def bfs (maxItems maxCancels : Nat) (kinds : List Kind) (spur : Bool)
    (out : IO.FS.Stream) (ids : Std.HashMap String Nat) (todo : List (State × Nat × Nat))
    (next : List (State × Nat × Nat)) : IO Nat := do
  match todo with
  | [] => if next.isEmpty then return ids.size else bfs maxItems maxCancels kinds spur out ids next.reverse []
  | (s, cn, sid) :: rest =>
    let acts := enabledCat s maxItems kinds (if spur then "any" else "nospur")
    let nw := max 1 (waiters s).length
    let mut ids := ids
    let mut next := next
    for a0 in acts do
      let isCan := match a0 with | .can _ _ => true | _ => false
      if isCan && cn ≥ maxCancels then continue
      let cs := match a0 with | .sub _ _ _ => List.range nw | .wk _ _ => List.range nw | _ => [0]
      let mut seen : List Nat := []
      for c in cs do
        let a := withC a0 c
        match step s a with
        | none => pure ()
        | some (s', _) =>
          let cn' := if isCan then cn + 1 else cn
          let k := key s' cn'
          let (did, ids') := match ids[k]? with
            | some d => (d, ids)
            | none => (ids.size, ids.insert k ids.size)
          if ids'.size > ids.size then next := (s', cn', did) :: next
          ids := ids'
          if !seen.contains did then
            seen := did :: seen
            out.putStrLn s!"e {sid} {did} {actS a}"
    bfs maxItems maxCancels kinds spur out ids rest next

def graphMain : IO Unit := do
  let stdin ← IO.getStdin
  let out ← IO.getStdout
  let line ← stdin.getLine
  match words line with
  | ["cfg", n, l, m, mc, ks, spur] =>
    let kinds := ks.toList.filterMap fun ch => parseKind ch.toString
    let s := State.init (nat! n) (nat! l)
    let ids : Std.HashMap String Nat := Std.HashMap.emptyWithCapacity 1024 |>.insert (key s 0) 0
    let cnt ← bfs (nat! m) (nat! mc) kinds (spur == "1") out ids [(s, 0, 0)] []
    out.putStrLn s!"states {cnt}"
    out.flush
  | _ => out.putStrLn "bad-op"; out.flush

/-- (mode name, action).  `uvdriver <mode>` runs the action (normally `runLines init step`). -/
def modes : List (String × IO Unit) :=
  [("tpool", runLines (State.init 1 1) tpoolStep),
   ("tpoolgen", runLines ({} : GenSt) genStep),
   ("tpoolgraph", graphMain)]

end Drivers.C08
