import UvModel.DriverUtil
import UvModel.IoWatch
/-! line-protocol driver for C14 (`uvdriver iowatch`); the other side is harness/c14_sim.c -/
namespace Drivers.C14
open UvModel.DriverUtil UvModel.IoWatch

structure DS where
  s : St := {}
  script : List ((Nat × Nat) × List Op) := []
  flushed : Nat := 0

def ctlName : CtlOp → String
  | .add => "ADD" | .mod => "MOD" | .del => "DEL"

def renderOp : Op → String
  | .openfd fd k => s!"openfd {fd} {k}"
  | .closefd fd => s!"closefd {fd}"
  | .dupfd fd => s!"dupfd {fd}"
  | .closedup d => s!"closedup {d}"
  | .peer w fd => s!"peer {w} {fd}"
  | .pinit fd => s!"pinit {fd}"
  | .pstart id u => s!"pstart {id} {u.toNat}"
  | .pstop id => s!"pstop {id}"
  | .pclose id => s!"pclose {id}"
  | .ioinit fd => s!"ioinit {fd}"
  | .iostart id m => s!"iostart {id} {m.toNat}"
  | .iostop id m => s!"iostop {id} {m.toNat}"
  | .ioclose id => s!"ioclose {id}"
  | .iofeed id => s!"iofeed {id}"

def parseOp : List String → Option Op
  | ["openfd", fd, k] => some (.openfd (nat! fd) (nat! k))
  | ["closefd", fd] => some (.closefd (nat! fd))
  | ["dupfd", fd] => some (.dupfd (nat! fd))
  | ["closedup", d] => some (.closedup (nat! d))
  | ["peer", w, fd] => some (.peer (nat! w) (nat! fd))
  | ["pinit", fd] => some (.pinit (nat! fd))
  | ["pstart", id, u] => some (.pstart (nat! id) (UvEv.ofNat (nat! u)))
  | ["pstop", id] => some (.pstop (nat! id))
  | ["pclose", id] => some (.pclose (nat! id))
  | ["ioinit", fd] => some (.ioinit (nat! fd))
  | ["iostart", id, m] => some (.iostart (nat! id) (Mask.ofNat (nat! m)))
  | ["iostop", id, m] => some (.iostop (nat! id) (Mask.ofNat (nat! m)))
  | ["ioclose", id] => some (.ioclose (nat! id))
  | ["iofeed", id] => some (.iofeed (nat! id))
  | _ => none

/-- split a word list at ";" -/
def splitSemi (ws : List String) : List (List String) :=
  (ws.foldr (fun w acc => if w = ";" then [] :: acc else
      match acc with
      | [] => [[w]]
      | a :: r => (w :: a) :: r) [[]]).filter (· ≠ [])

def parseEntry (w : String) : List (Option Nat × Mask) :=
  let (body, rep) := match w.splitOn "*" with
    | [b, n] => (b, nat! n)
    | _ => (w, 1)
  match body.splitOn ":" with
  | [fd, m] => List.replicate rep (if fd = "-1" then none else some (nat! fd), Mask.ofNat (nat! m))
  | _ => []

def parseBatches (ws : List String) : List Batch :=
  let groups := ws.foldr (fun w acc => if w = "|" then [] :: acc else
      match acc with
      | [] => [[w]]
      | a :: r => (w :: a) :: r) [[]]
  groups.map fun g => (g.map parseEntry).flatten

def rle : List (Option Nat × Mask) → List ((Option Nat × Mask) × Nat)
  | [] => []
  | e :: r =>
    match rle r with
    | (e', n) :: t => if e' = e then (e', n + 1) :: t else (e, 1) :: (e', n) :: t
    | [] => [(e, 1)]

def renderBatch (b : Batch) : String :=
  String.join ((rle b).map fun ((fd, m), n) =>
    let f := match fd with | some f => toString f | none => "-1"
    s!" {f}:{m.toNat}" ++ (if n > 1 then s!"*{n}" else ""))

def idList (l : List Nat) : String := ",".intercalate (l.map toString)

def renderEv : Ev → String
  | .op o => "op " ++ renderOp o
  | .ret r => s!"ret {r}"
  | .refused => "refused"
  | .newId id => s!"new {id}"
  | .ctl op fd m r => s!"env epoll_ctl {ctlName op} {fd} {m.toNat} -> {r}"
  | .cbPoll id st ev => s!"cb poll {id} {st} {ev.toNat}"
  | .cbIo id ev => s!"cb io {id} {ev.toNat}"
  | .cbClose id => s!"cb close {id}"
  | .block t0 it =>
    s!"env pwait block={if t0 then 0 else 1} interest" ++ String.join (it.map fun (fd, m) => s!" {fd}:{m.toNat}")
  | .batch b => "env poll ->" ++ renderBatch b
  | .obs nfds nw wq ws =>
    s!"obs nfds={nfds} nw={nw} wq={idList wq} ws=" ++
      ",".intercalate (ws.map fun (id, pe, ev, act) => s!"{id}:{pe.toNat}:{ev.toNat}:{if act then 1 else 0}")
  | .abort => "abort"

/-- render and drop the log accumulated since the last flush -/
def flush (d : DS) : DS × List String :=
  let out := d.s.log.reverse.map renderEv
  ({ d with s := { d.s with log := [] } }, out)

def getArg (ws : List String) (key : String) : Nat :=
  match ws.filterMap (fun w => match w.splitOn "=" with | [k, v] => if k = key then some (nat! v) else none | _ => none) with
  | v :: _ => v
  | [] => 0

def step (d : DS) : List String → DS × List String
  | [] => (d, [])
  | "cfg" :: args =>
    let ring := getArg args "ring"; let internal := getArg args "internal"; let nw := getArg args "nw"
    let multi := getArg args "multi"
    ({ s := { ring := ring == 1, internal := internal, multi := multi == 1, watchers := List.replicate nw none }, script := [] },
     [s!"cfg ring={ring} internal={internal} nw={nw} multi={multi}"])
  | "on" :: id :: occ :: rest =>
    match (splitSemi rest).mapM parseOp with
    | some ops => ({ d with script := ((nat! id, nat! occ), ops) :: d.script }, [])
    | none => (d, ["bad-op"])
  | "run" :: "S" :: rest =>
    if d.s.aborted then (d, ["aborted"]) else
    let sc : Script := fun id k => ((d.script.find? (·.1 = (id, k))).map (·.2)).getD []
    let (d, out) := flush { d with s := run sc d.s (parseBatches rest) }
    (d, "op run" :: out)
  | ws =>
    match parseOp ws with
    | some o =>
      if d.s.aborted then (d, ["aborted"]) else
      flush { d with s := execOp d.s o }
    | none => (d, ["bad-op"])

def modes : List (String × IO Unit) := [("iowatch", runLines ({} : DS) step)]

end Drivers.C14
