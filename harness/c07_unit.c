/* C07 unit correspondence: the real uv__server_io / uv_accept / uv__stream_queue_fd /
 * uv__stream_recv_cmsg / uv__stream_close / uv_pipe_pending_count of the working tree, driven
 * with *fake* descriptors (1000+id; close() and accept4() interposed), so that queue contents,
 * return values, the POLLIN bit and every close are observable.  Same line protocol as
 * `uvdriver accept` (lean/Drivers/C07.lean):
 *   init L|I <ipc>            new stream: Listening / connected (IPC receive side)
 *   io ok <id> | io err <e> | io trick <e> <final> <reopen> <shed ids..>     uv__server_io
 *   ioend                     return from connection_cb
 *   accept S|T|B|U|X <e>      uv_accept into pipe / tcp / busy pipe / udp / non-stream client
 *   recv <failAt|-> <ids..>   uv__stream_recv_cmsg with one SCM_RIGHTS cmsg (k-th allocation fails)
 *   close                     uv_close
 * after every op:  r=<ret> acc=<id|-> q=<size>/<off>:<ids> pollin=<b> pc=<n> spare=<b> cl=<ids closed> [got=<id>] */
#include <sys/syscall.h>
#include <stdarg.h>
#define FAKE 1000
static int closed_log[8192], nclosed;
/* every uv__close() made by stream.c goes through here (uv__close ends in a raw syscall, so it
 * cannot be interposed at link level) */
#define uv__close c07_close
#include "unix/stream.c"
#undef uv__close
int uv__close(int fd);
int c07_close(int fd) {
  if (fd >= FAKE) { if (nclosed < 8192) closed_log[nclosed++] = fd - FAKE; return 0; }
  return uv__close(fd);
}

static int acc_script[128], acc_n, acc_i;   /* >=0: id, <0: -errno */
int accept4(int s, struct sockaddr* a, socklen_t* l, int flags) {
  int v;
  if (acc_i >= acc_n) { errno = EAGAIN; return -1; }
  v = acc_script[acc_i++];
  if (v >= 0) return FAKE + v;
  errno = -v; return -1;
}

static int fail_open_root;
int open(const char* path, int flags, ...) {
  mode_t mode = 0;
  if (flags & O_CREAT) { va_list ap; va_start(ap, flags); mode = va_arg(ap, int); va_end(ap); }
  if (fail_open_root && strcmp(path, "/") == 0) { errno = EMFILE; return -1; }
  return syscall(SYS_openat, AT_FDCWD, path, flags, mode);
}

static int alloc_watch, alloc_count, alloc_fail_at;
static void* my_malloc(size_t n) {
  if (alloc_watch && alloc_count++ == alloc_fail_at) return NULL;
  return malloc(n);
}
static void* my_realloc(void* p, size_t n) {
  if (alloc_watch && alloc_count++ == alloc_fail_at) return NULL;
  return realloc(p, n);
}
static void* my_calloc(size_t a, size_t b) { return calloc(a, b); }
static void my_free(void* p) { free(p); }

static uv_loop_t* loop;
static uv_pipe_t* srv;
static int role_listen, in_cb, srv_closed;

static void free_cb(uv_handle_t* h) { free(h); }

static int got = -1;   /* descriptor the last uv_accept put into the client */
static void show(int r) {
  int i;
  printf("r=%d acc=", r);
  if (srv->accepted_fd == -1) printf("-"); else printf("%d", srv->accepted_fd - FAKE);
  if (srv->queued_fds == NULL) printf(" q=-");
  else {
    uv__stream_queued_fds_t* q = srv->queued_fds;
    printf(" q=%u/%u:", q->size, q->offset);
    for (i = 0; i < (int) q->offset; i++) printf("%s%d", i ? "," : "", q->fds[i] - FAKE);
  }
  printf(" pollin=%d pc=%d spare=%d cl=", srv_closed ? 0 : !!uv__io_active(&srv->io_watcher, POLLIN),
         uv_pipe_pending_count(srv), loop->emfile_fd != -1);
  for (i = 0; i < nclosed; i++) printf("%s%d", i ? "," : "", closed_log[i]);
  if (got >= 0) printf(" got=%d", got - FAKE);
  printf("\n");
  nclosed = 0; got = -1;
}

static int do_line(char* line);

static void conn_cb(uv_stream_t* s, int status) {
  char line[4096];
  in_cb = 1;
  show(0);
  while (fgets(line, sizeof line, stdin)) {
    if (do_line(line)) break;       /* ioend */
  }
  in_cb = 0;
}

static int do_accept(char kind) {
  int r;
  if (kind == 'U') {
    uv_udp_t* c = malloc(sizeof *c);
    uv_udp_init(loop, c);
    r = uv_accept((uv_stream_t*) srv, (uv_stream_t*) c);
    if (r == 0) got = c->io_watcher.fd;
    c->io_watcher.fd = -1;
    uv_close((uv_handle_t*) c, free_cb);
  } else if (kind == 'X') {
    uv_timer_t* c = malloc(sizeof *c);
    uv_timer_init(loop, c);
    r = uv_accept((uv_stream_t*) srv, (uv_stream_t*) c);
    uv_close((uv_handle_t*) c, free_cb);
  } else if (kind == 'T') {
    uv_tcp_t* c = malloc(sizeof *c);
    uv_tcp_init(loop, c);
    r = uv_accept((uv_stream_t*) srv, (uv_stream_t*) c);
    if (r == 0) got = c->io_watcher.fd;
    c->io_watcher.fd = -1;
    uv_close((uv_handle_t*) c, free_cb);
  } else {
    uv_pipe_t* c = malloc(sizeof *c);
    uv_pipe_init(loop, c, 0);
    if (kind == 'B') c->io_watcher.fd = 900;     /* already open on something else → UV_EBUSY */
    r = uv_accept((uv_stream_t*) srv, (uv_stream_t*) c);
    if (r == 0) got = c->io_watcher.fd;
    c->io_watcher.fd = -1;
    uv_close((uv_handle_t*) c, free_cb);
  }
  return r;
}

static void dispose(void) {
  if (srv != NULL) {
    if (!srv_closed) uv_close((uv_handle_t*) srv, free_cb);
    srv = NULL;
  }
  uv_run(loop, UV_RUN_NOWAIT);
  nclosed = 0;
}

/* returns 1 on `ioend` inside the callback */
static int do_line(char* line) {
  char* w[160]; int n = 0, i;
  for (char* t = strtok(line, " \n"); t && n < 160; t = strtok(NULL, " \n")) w[n++] = t;
  if (n == 0) return 0;
  if (!strcmp(w[0], "init") && n == 3 && !in_cb) {
    int fd;
    dispose();
    if (loop->emfile_fd == -1) { int e = uv__open_cloexec("/", O_RDONLY); if (e >= 0) loop->emfile_fd = e; }
    srv = malloc(sizeof *srv);
    uv_pipe_init(loop, srv, atoi(w[2]));
    fd = socket(AF_UNIX, SOCK_STREAM, 0);
    uv__stream_open((uv_stream_t*) srv, fd, UV_HANDLE_READABLE | UV_HANDLE_WRITABLE);
    role_listen = w[1][0] == 'L'; srv_closed = 0;
    if (role_listen) {          /* what uv__pipe_listen does after listen(2) */
      srv->connection_cb = conn_cb;
      srv->io_watcher.cb = uv__server_io;
      uv__io_start(loop, &srv->io_watcher, POLLIN);
    }
    show(0);
  } else if (srv == NULL) {
    printf("bad-op\n");
  } else if (!strcmp(w[0], "io") && n >= 3) {
    acc_n = acc_i = 0; fail_open_root = 0;
    if (!strcmp(w[1], "ok")) acc_script[acc_n++] = atoi(w[2]);
    else if (!strcmp(w[1], "err")) acc_script[acc_n++] = atoi(w[2]);        /* negative uv errno == -errno on linux */
    else if (!strcmp(w[1], "trick") && n >= 5) {
      acc_script[acc_n++] = atoi(w[2]);
      for (i = 5; i < n; i++) acc_script[acc_n++] = atoi(w[i]);
      acc_script[acc_n++] = atoi(w[3]);
      fail_open_root = !atoi(w[4]);
    } else { printf("bad-op\n"); return 0; }
    if (role_listen && !srv_closed && !in_cb && uv__io_active(&srv->io_watcher, POLLIN)) {
      uv__server_io(loop, &srv->io_watcher, POLLIN);   /* conn_cb prints the post-accept state and consumes lines up to ioend */
    }
    fail_open_root = 0;
    show(0);   /* state after uv__server_io returned (= after ioend), or unchanged when the event is impossible */
  } else if (!strcmp(w[0], "ioend") && n == 1) {
    if (in_cb) return 1;
    show(0);
  } else if (!strcmp(w[0], "accept") && n == 3) {
    show(do_accept(w[1][0]));
  } else if (!strcmp(w[0], "recv") && n >= 2) {
    union { struct cmsghdr h; char buf[CMSG_SPACE(sizeof(int) * 160)]; } c;
    struct msghdr msg; int fds[160]; int k = n - 2, r = 0;
    if (!role_listen && !srv_closed) {
      memset(&msg, 0, sizeof msg); memset(&c, 0, sizeof c);
      for (i = 0; i < k; i++) fds[i] = FAKE + atoi(w[2 + i]);
      msg.msg_control = c.buf; msg.msg_controllen = CMSG_SPACE(sizeof(int) * k);
      c.h.cmsg_level = SOL_SOCKET; c.h.cmsg_type = SCM_RIGHTS; c.h.cmsg_len = CMSG_LEN(sizeof(int) * k);
      memcpy(CMSG_DATA(&c.h), fds, sizeof(int) * k);
      alloc_count = 0; alloc_fail_at = w[1][0] == '-' ? -1 : atoi(w[1]); alloc_watch = 1;
      r = uv__stream_recv_cmsg((uv_stream_t*) srv, &msg);
      alloc_watch = 0;
    }
    show(r);
  } else if (!strcmp(w[0], "close") && n == 1) {
    if (!srv_closed) { uv_close((uv_handle_t*) srv, free_cb); srv_closed = 1; }
    show(0);
  } else printf("bad-op\n");
  return 0;
}

int main(void) {
  char line[4096];
  setvbuf(stdout, NULL, _IOLBF, 0);
  uv_replace_allocator(my_malloc, my_realloc, my_calloc, my_free);
  loop = uv_default_loop();
  while (fgets(line, sizeof line, stdin)) do_line(line);
  dispose();
  uv_loop_close(loop);
  uv_library_shutdown();
  return 0;
}
