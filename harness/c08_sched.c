/* C08 — the real src/threadpool.c under the serialising scheduler.
 *
 * stdin: `cfg n L` (re)starts a pool of n workers and L loop threads, then one action per
 * line (`sub l k c`, `can l i`, `go l`, `drn l`, `wk t c`, `wake t`), `fin` = run everything
 * to quiescence (monitor only).  After every action one line: events, lock trace and the
 * abstract state — identical to `uvdriver tpool` on the same input.
 */
#include <stdarg.h>
#include "uv-common.h"
#include "unix/internal.h"
#include "c08_sched.h"  /* found next to this file */

static void c08_mutex_lock(uv_mutex_t* m);
static void c08_mutex_unlock(uv_mutex_t* m);
static int c08_mutex_init(uv_mutex_t* m);
static void c08_mutex_destroy(uv_mutex_t* m);
static int c08_cond_init(uv_cond_t* c);
static void c08_cond_destroy(uv_cond_t* c);
static void c08_cond_wait(uv_cond_t* c, uv_mutex_t* m);
static void c08_cond_signal(uv_cond_t* c);
static int c08_thread_create_ex(uv_thread_t* tid, const uv_thread_options_t* p, void (*entry)(void*), void* arg);
static int c08_thread_join(uv_thread_t* tid);
static int c08_sem_init(uv_sem_t* s, unsigned v);
static void c08_sem_post(uv_sem_t* s);
static void c08_sem_wait(uv_sem_t* s);
static void c08_sem_destroy(uv_sem_t* s);
static void c08_once(uv_once_t* g, void (*cb)(void));
static int c08_async_send(uv_async_t* a);

#define uv_mutex_lock c08_mutex_lock
#define uv_mutex_unlock c08_mutex_unlock
#define uv_mutex_init c08_mutex_init
#define uv_mutex_destroy c08_mutex_destroy
#define uv_cond_init c08_cond_init
#define uv_cond_destroy c08_cond_destroy
#define uv_cond_wait c08_cond_wait
#define uv_cond_signal c08_cond_signal
#define uv_thread_create_ex c08_thread_create_ex
#define uv_thread_join c08_thread_join
#define uv_thread_setname(x) ((void) 0)
#define uv_sem_init c08_sem_init
#define uv_sem_post c08_sem_post
#define uv_sem_wait c08_sem_wait
#define uv_sem_destroy c08_sem_destroy
#define uv_once c08_once
#define uv_async_send c08_async_send
#define pthread_atfork(a, b, c) 0

/* monitor: a node that is already linked into one of the pool's queues must not be inserted again
 * (marker queued twice / request queued twice = queue corruption) */
static const char* c08_node_linked(struct uv__queue* q);
static void c08_queue_insert_tail(struct uv__queue* h, struct uv__queue* q) {
  const char* where;
  if (h->next == NULL || h->prev == NULL) {
    printf("MON uninit-pool-use insert into a queue that was never initialised (pool used before/while it is set up)\n");
    fflush(stdout);
    _exit(3);
  }
  where = c08_node_linked(q);
  if (where != NULL) {
    printf("MON queue-double-insert node already linked in %s is inserted again (queue corruption)\n", where);
    fflush(stdout);
    _exit(3);
  }
  uv__queue_insert_tail(h, q);
}
#define uv__queue_insert_tail c08_queue_insert_tail

#include "threadpool.c"

#undef uv_mutex_lock
#undef uv_mutex_unlock
#undef uv__queue_insert_tail

/* ------------------------------------------------------------------ program state */
#define MAXITEMS 64
#define MAXLOOPS 4
enum { P_TOP, P_DRAINED, P_INCB };
enum { C_NONE, C_SUB, C_CAN, C_GO, C_DRN };

struct item {
  uv_work_t req;
  int id, loop, kind;
  int starts, returned, dones, status;
};
struct lp {
  uv_loop_t loop;
  uv__loop_internal_fields_t lfields;
  struct th* th;
  int phase, cmid, async, in_cb;
};

static struct item IT[MAXITEMS];
static int nitems;
static struct lp LP[MAXLOOPS];
static int nloops, nworkers;
static int once_state;            /* 0 not run, 1 running, 2 done */
static struct th* once_owner;
static int sem_count;
static struct th* WK[MAXTH];
static int nwk_created;

static struct item* item_of_node(struct uv__queue* q) {
  char* p = (char*) container_of(container_of(container_of(q, struct uv__work, wq), uv_work_t, work_req),
                                 struct item, req);
  if (p < (char*) IT || p >= (char*) (IT + MAXITEMS) || (p - (char*) IT) % sizeof(struct item) != 0)
    return NULL;
  return (struct item*) p;
}

static int c08_in_queue(struct uv__queue* h, struct uv__queue* q) {
  struct uv__queue* p;
  int k = 0;
  if (h->next == NULL) return 0;
  for (p = h->next; p != h && p != NULL && k < 4 * MAXITEMS; p = p->next, k++)
    if (p == q) return 1;
  return 0;
}

static const char* c08_node_linked(struct uv__queue* q) {
  int i;
  if (nthreads == 0) return NULL;
  if (c08_in_queue(&wq, q)) return "wq";
  if (c08_in_queue(&slow_io_pending_wq, q)) return "slow_io_pending_wq";
  for (i = 0; i < nloops; i++)
    if (c08_in_queue(&LP[i].loop.wq, q)) return "loop->wq";
  return NULL;
}

/* ------------------------------------------------------------------ call-outs */
static void c08_mutex_lock(uv_mutex_t* m) { sched_lock(m); }
static void c08_mutex_unlock(uv_mutex_t* m) { sched_unlock(m); }
/* the pool's one-time initialisation run by a loop thread (lazy mode) has stop points of its own */
static void init_stop(void) { if (self != NULL && self->kind == K_LOOP) stop_point(ST_INIT); }
static int c08_mutex_init(uv_mutex_t* m) { init_stop(); mx_reg(m, "g"); return 0; }
static void c08_mutex_destroy(uv_mutex_t* m) { (void) m; }
static int c08_cond_init(uv_cond_t* c) { (void) c; init_stop(); return 0; }
static void c08_cond_destroy(uv_cond_t* c) { (void) c; }
static void c08_cond_wait(uv_cond_t* c, uv_mutex_t* m) { (void) c; sched_cond_wait(m); }
static void c08_cond_signal(uv_cond_t* c) { (void) c; sched_cond_signal(); }

static int c08_thread_create_ex(uv_thread_t* tid, const uv_thread_options_t* p, void (*entry)(void*), void* arg) {
  struct th* t = th_new(K_WORKER, nwk_created, entry, arg);
  (void) p;
  WK[nwk_created++] = t;
  *tid = t->pt;
  return 0;
}
static int c08_thread_join(uv_thread_t* tid) { (void) tid; return 0; }
static int c08_sem_init(uv_sem_t* s, unsigned v) { (void) s; init_stop(); sem_count = v; return 0; }
static void c08_sem_destroy(uv_sem_t* s) { (void) s; }
/* worker start-up (:63): post, then stop before the first lock */
static void c08_sem_post(uv_sem_t* s) {
  (void) s;
  sem_count++;
  if (self != NULL) stop_point(ST_START);
}
/* init_threads (:238-239) runs on the controller: start the next new worker up to its first stop */
static void c08_sem_wait(uv_sem_t* s) {
  int i;
  (void) s;
  if (self != NULL) {                 /* lazy mode: the controller starts the next worker for us */
    while (sem_count == 0) stop_point(ST_SEMWAIT);
    sem_count--;
    return;
  }
  for (i = 0; sem_count == 0 && i < nwk_created; i++)
    if (WK[i]->state == ST_NEW) resume(WK[i]);
  if (sem_count == 0) { printf("MON init: semaphore never posted\n"); fflush(stdout); abort(); }
  sem_count--;
}
/* pthread_once: the first caller runs cb, callers arriving meanwhile wait until it has returned */
static void c08_once(uv_once_t* g, void (*cb)(void)) {
  (void) g;
  if (once_state == 2) return;
  if (once_state == 1) {
    if (self == once_owner) return;
    while (once_state != 2) stop_point(ST_ONCE);
    return;
  }
  once_state = 1;
  once_owner = self;
  cb();
  once_state = 2;
}
static int c08_async_send(uv_async_t* a) {
  struct lp* l = (struct lp*) container_of(a, uv_loop_t, wq_async);
  l->async = 1;
  tok(trace, "a%d", (int) (l - LP));
  return 0;
}

/* ------------------------------------------------------------------ callbacks */
static void loop_interp(struct lp* l);

static void work_cb(uv_work_t* req) {
  struct item* it = container_of(req, struct item, req);
  it->starts++;
  tok(events, "ws:%d", it->id);
  if (self == NULL || self->kind != K_WORKER) printf("MON work function of item %d not on a pool thread\n", it->id);
  self->item = it->id;
  stop_point(ST_INWORK);
  it->returned = 1;
  tok(events, "we:%d", it->id);
}

static void after_cb(uv_work_t* req, int status) {
  struct item* it = container_of(req, struct item, req);
  struct lp* l = &LP[it->loop];
  it->dones++;
  it->status = status;
  tok(events, "dn:%d:%d", it->id, status);
  if (self != l->th) printf("MON done callback of item %d not on its loop's thread\n", it->id);
  if (req->loop != &l->loop) printf("MON done callback of item %d with a foreign loop\n", it->id);
  l->phase = P_INCB;
  l->in_cb++;
  loop_interp(l);
  l->in_cb--;
}

/* command interpreter of a loop thread; inside a done callback `go` returns from the callback */
static void loop_interp(struct lp* l) {
  struct th* t = l->th;
  for (;;) {
    stop_point(ST_CMD);
    switch (t->cmd) {
    case C_SUB: {
      struct item* it = &IT[nitems];
      memset(it, 0, sizeof(*it));
      it->id = nitems++; it->loop = (int) (l - LP); it->kind = t->a;
      t->unlock_stops = 0;
      if (it->kind == 0) {
        if (uv_queue_work(&l->loop, &it->req, work_cb, after_cb)) printf("MON uv_queue_work failed\n");
      } else {
        /* what uv_getaddrinfo / uv_fs_* do: register, then uv__work_submit with their kind */
        uv__req_init(&l->loop, &it->req, UV_WORK);
        it->req.loop = &l->loop;
        it->req.work_cb = work_cb;
        it->req.after_work_cb = after_cb;
        uv__work_submit(&l->loop, &it->req.work_req, it->kind == 2 ? UV__WORK_SLOW_IO : UV__WORK_FAST_IO,
                        uv__queue_work, uv__queue_done);
      }
      break;
    }
    case C_CAN: {
      int r;
      l->cmid = 1;
      t->unlock_stops = 1;
      r = uv_cancel((uv_req_t*) &IT[t->a].req);
      t->unlock_stops = 0;
      l->cmid = 0;
      tok(events, "ret:%d", r);
      break;
    }
    case C_DRN:
      l->async = 0;
      l->phase = P_DRAINED;
      t->unlock_stops = 1;
      uv__work_done(&l->loop.wq_async);
      t->unlock_stops = 0;
      l->phase = P_TOP;
      break;
    case C_GO:
      if (l->in_cb) return;
      break;
    }
  }
}

static void loop_main(void* arg) { loop_interp(arg); }

/* ------------------------------------------------------------------ abstract state dump */
static void dump_q(char* out, struct uv__queue* h) {
  struct uv__queue* q;
  int k = 0;
  out[0] = 0;
  if (h->next == NULL) { strcpy(out, "uninit"); return; }
  for (q = h->next; q != h; q = q->next) {
    struct item* it;
    if (++k > MAXITEMS + 2) { tok(out, "CORRUPT"); break; }
    if (q == &run_slow_work_message) { tok(out, "M"); continue; }
    if (q == &exit_message) { tok(out, "X"); continue; }
    it = item_of_node(q);
    if (it == NULL || it->id >= nitems) { tok(out, "CORRUPT"); break; }
    tok(out, "%d", it->id);
  }
  if (out[0] == 0) strcpy(out, "-");
}

static void dump(void) {
  char b[512], w[512];
  int i;
  printf("ev=%s lk=%s | ", events[0] ? events : "-", trace[0] ? trace : "-");
  dump_q(b, &wq); printf("wq=%s ", b);
  dump_q(b, &slow_io_pending_wq); printf("sq=%s ", b);
  printf("sr=%d idle=%d ", (int) slow_io_work_running, (int) idle_threads);
  w[0] = 0;
  for (i = 0; i < nworkers; i++) {
    struct th* t = WK[i];
    if (t == NULL) { tok(w, "none"); continue; }
    switch (t->state) {
    case ST_START: tok(w, "start"); break;
    case ST_WAIT: tok(w, t->signalled ? "woken" : "wait"); break;
    case ST_UNLOCKED: tok(w, t->last_unlock == (void*) &mutex ? "got" : "posted"); break;
    case ST_INWORK: tok(w, "inwork:%d", t->item); break;
    case ST_BLOCKED: tok(w, "blocked:%s", t->blocked_on->name); break;
    default: tok(w, "dead"); break;
    }
  }
  printf("W=%s", w[0] ? w : "-");
  for (i = 0; i < nloops; i++) {
    struct lp* l = &LP[i];
    const char* ph = l->cmid ? "cmid" : l->phase == P_TOP ? "top" : l->phase == P_DRAINED ? "drained" : "incb";
    if (l->th->state == ST_BLOCKED) ph = "blocked";
    if (l->th->state == ST_INIT || l->th->state == ST_SEMWAIT) ph = "init";
    if (l->th->state == ST_ONCE) ph = "oncewait";
    dump_q(b, &l->loop.wq);
    printf(" L%d=%s:q=%s:a%d:r%d", i, ph, b, l->async, (int) l->loop.active_reqs.count);
  }
  w[0] = 0;
  for (i = 0; i < nitems; i++) {
    struct item* it = &IT[i];
    struct uv__work* wr = &it->req.work_req;
    tok(w, "%d/L%d/%c/%d/%c/%d/%d/%d/%d", i, it->loop, "cfs"[it->kind], !uv__queue_empty(&wr->wq),
        wr->work == NULL ? 'n' : wr->work == uv__cancelled ? 'c' : wr->work == uv__queue_work ? 'f' : '?',
        it->starts, it->returned, it->dones, it->status);
  }
  printf(" I=%s\n", w[0] ? w : "-");
  trace[0] = events[0] = 0;
}

/* ------------------------------------------------------------------ controller */
static void reset(int n, int L, int lazy) {
  char buf[16];
  int i;
  th_kill_all();
  if (threads != NULL && threads != default_threads) uv__free(threads);
  threads = NULL; nthreads = 0; idle_threads = 0; slow_io_work_running = 0;
  memset(&wq, 0, sizeof(wq));                    /* as in a fresh process: nothing of the pool is set up */
  memset(&slow_io_pending_wq, 0, sizeof(slow_io_pending_wq));
  memset(&run_slow_work_message, 0, sizeof(run_slow_work_message));
  once_state = 0; once_owner = NULL; nwk_created = 0; memset(WK, 0, sizeof(WK)); nitems = 0; sem_count = 0;
  memset(IT, 0, sizeof(IT));
  memset(LP, 0, sizeof(LP));
  trace[0] = events[0] = 0;
  nloops = L; nworkers = n;
  snprintf(buf, sizeof(buf), "%d", n);
  setenv("UV_THREADPOOL_SIZE", buf, 1);
  for (i = 0; i < L; i++) {
    char nm[8];
    struct lp* l = &LP[i];
    uv__queue_init(&l->loop.wq);
    l->loop.internal_fields = &l->lfields;
    snprintf(nm, sizeof(nm), "l%d", i);
    mx_reg(&l->loop.wq_mutex, nm);
    l->th = th_new(K_LOOP, i, loop_main, l);
    resume(l->th);                               /* up to its first command fetch */
  }
  if (lazy) return;                              /* the first submit initialises the pool, under the schedule */
  c08_once(&once, init_once);                    /* what the first uv__work_submit does (:271) */
  if ((int) nthreads != n || nwk_created != n) printf("MON pool size %u, expected %d\n", nthreads, n);
}

static int runnable(struct th* t) {
  if (t == NULL) return 0;
  if (t->state == ST_ONCE) return once_state == 2;
  if (t->state == ST_WAIT) return t->signalled;
  if (t->state == ST_BLOCKED) return t->blocked_on->owner == NULL;
  return t->state != ST_DEAD && t->state != ST_NEW;
}

/* resume a loop thread; while it runs the pool's initialisation, start the workers it waits for */
static void run_thread(struct th* t) {
  int i;
  resume(t);
  while (t->state == ST_SEMWAIT) {
    for (i = 0; i < nwk_created; i++)
      if (WK[i]->state == ST_NEW) { resume(WK[i]); break; }
    if (i == nwk_created && sem_count == 0) { printf("MON init-stuck no worker left to post the start-up semaphore\n"); fflush(stdout); _exit(3); }
    resume(t);
  }
}

static int loop_cmd(int l, int cmd, int a) {
  struct th* t;
  if (l < 0 || l >= nloops) return 0;
  t = LP[l].th;
  if (cmd == C_GO) {
    if (t->state == ST_UNLOCKED || t->state == ST_INIT || ((t->state == ST_BLOCKED || t->state == ST_ONCE) && runnable(t))) {
      run_thread(t);
      return 1;
    }
    if (t->state == ST_CMD && LP[l].in_cb) { t->cmd = C_GO; run_thread(t); return 1; }
    return 0;
  }
  if (t->state != ST_CMD) return 0;
  if (cmd == C_SUB && nitems >= MAXITEMS) return 0;
  if (cmd == C_CAN && (a < 0 || a >= nitems || IT[a].loop != l || IT[a].dones != 0)) return 0;
  if (cmd == C_DRN && LP[l].in_cb) return 0;
  t->cmd = cmd; t->a = a;
  run_thread(t);
  return 1;
}

static int worker_step(int w) {
  if (w < 0 || w >= nworkers || !runnable(WK[w])) return 0;
  resume(WK[w]);
  return 1;
}

/* run to quiescence without spurious wake-ups (monitor: no lost wake-up, no deadlock) */
static void finish(void) {
  int progress = 1, steps = 0, i, left = 0;
  cur_choice = 0;
  while (progress && steps < 100000) {
    progress = 0;
    for (i = 0; i < nworkers; i++)
      if (worker_step(i)) { progress = 1; steps++; }
    for (i = 0; i < nloops; i++) {
      if (loop_cmd(i, C_GO, 0)) { progress = 1; steps++; }
      else if (LP[i].async && loop_cmd(i, C_DRN, 0)) { progress = 1; steps++; }
    }
  }
  for (i = 0; i < nitems; i++) left += IT[i].dones == 0;
  printf("fin %s left=%d steps=%d | ", left == 0 ? "ok" : "STUCK", left, steps);
  dump();
}

int main(void) {
  char line[256];
  setvbuf(stdout, NULL, _IOLBF, 1 << 16);  /* a crash must not lose the lines before it */
  sem_init(&ctl_sem, 0, 0);
  while (fgets(line, sizeof(line), stdin)) {
    char op[16] = "", k[8] = "";
    int a = 0, b = 0, c = 0, ok = 0;
    if (sscanf(line, "%15s", op) != 1) continue;
    if (!strcmp(op, "cfg")) {
      if (sscanf(line, "%*s %d %d %7s", &a, &b, k) < 2 || a < 1 || a > 16 || b < 1 || b > MAXLOOPS) { printf("bad-op\n"); continue; }
      reset(a, b, !strcmp(k, "lazy"));
      dump();
      continue;
    }
    if (nloops == 0) { printf("bad-op\n"); continue; }
    if (!strcmp(op, "fin")) { finish(); continue; }
    if (!strcmp(op, "sub") && sscanf(line, "%*s %d %7s %d", &a, k, &c) == 3 && strchr("cfs", k[0]) && k[1] == 0) {
      cur_choice = c;
      ok = loop_cmd(a, C_SUB, (int) (strchr("cfs", k[0]) - "cfs"));
    } else if (!strcmp(op, "can") && sscanf(line, "%*s %d %d", &a, &b) == 2) {
      ok = loop_cmd(a, C_CAN, b);
    } else if (!strcmp(op, "go") && sscanf(line, "%*s %d", &a) == 1) {
      ok = loop_cmd(a, C_GO, 0);
    } else if (!strcmp(op, "drn") && sscanf(line, "%*s %d", &a) == 1) {
      ok = loop_cmd(a, C_DRN, 0);
    } else if (!strcmp(op, "wk") && sscanf(line, "%*s %d %d", &a, &c) == 2) {
      cur_choice = c;
      ok = worker_step(a);
    } else if (!strcmp(op, "wake") && sscanf(line, "%*s %d", &a) == 1) {
      if (a >= 0 && a < nworkers && WK[a]->state == ST_WAIT && !WK[a]->signalled) { WK[a]->signalled = 1; ok = 1; }
    } else { printf("bad-op\n"); continue; }
    if (ok) dump(); else printf("skip\n");
  }
  fflush(stdout);
  th_kill_all();
  if (threads != NULL && threads != default_threads) uv__free(threads);
  threads = NULL;
  nthreads = 0;   /* uv_library_shutdown's destructor must not post the exit message */
  return 0;
}
