/* C11 (c): the same file-operation program on one of four routes:
 *   c11_routes sync|pool|uring|posix <scratchdir>   < program
 * sync  = uv_fs_*(cb = NULL); pool = callback on the default-configured loop (thread pool);
 * uring = callback on a loop configured with UV_LOOP_USE_IO_URING_SQPOLL (env UV_USE_IO_URING=1);
 * posix = the corresponding raw POSIX calls (mirror).
 * One canonical line per op (result as errno name, data, stat fields minus times/inode/dev/blocks,
 * sorted dirents, link targets), then a recursive listing with content hashes.  All four logs must
 * be byte-identical.  Lines starting with `!` report a callback-count / return-value anomaly.
 * `ROUTE-SKIPPED` as first line: the io_uring ring could not be created. */
#include "uv.h"
#include "uv-common.h"
#include <dirent.h>
#include <errno.h>
#include <fcntl.h>
#include <limits.h>
#include <stdio.h>
#include <stdlib.h>
#include <string.h>
#include <linux/filter.h>
#include <linux/seccomp.h>
#include <stddef.h>
#include <sys/ioctl.h>
#include <sys/prctl.h>
#include <sys/syscall.h>
#include <sys/sendfile.h>
#define C11_FICLONE _IOW(0x94, 9, int)
#include <sys/stat.h>
#include <sys/sysmacros.h>
#include <sys/statfs.h>
#include <sys/uio.h>
#include <sys/vfs.h>
#include <unistd.h>

enum { SYNC, POOL, URING, POSIX };
static int mode;
static uv_loop_t loop_s;
static uv_loop_t* loop;
static int cb_count, opno, alive_reported;
static long n_uring, n_pool, n_btime;
static int slots[16];
static char root[PATH_MAX];
static uv_dir_t* dirs[4];
static DIR* pdirs[4];

static void on_fs(uv_fs_t* req) {
  cb_count++;
  if (req->work_req.done == NULL) n_uring++; else n_pool++;
}
#define CB (mode == SYNC ? NULL : on_fs)

/* wait for completion; returns the op's result */
static long fin(int rc, uv_fs_t* req) {
  if (mode == SYNC) {
    if (rc != req->result && !(rc < 0 && req->result == 0))
      printf("!ret-mismatch op=%d rc=%d result=%ld\n", opno, rc, (long) req->result);
    return rc;
  }
  if (rc != 0) {        /* rejected before submission: no callback may fire */
    cb_count = 0;
    uv_run(loop, UV_RUN_NOWAIT);
    if (cb_count != 0) printf("!cb-count op=%d n=%d after-immediate-error\n", opno, cb_count);
    return rc;
  }
  cb_count = 0;
  while (cb_count == 0 && uv_run(loop, UV_RUN_ONCE)) ;
  /* the only request of this loop has called back: nothing may keep the loop alive (request accounting) */
  if (uv_loop_alive(loop)) {
    uv_run(loop, UV_RUN_NOWAIT);
    if (uv_loop_alive(loop) && !alive_reported) { printf("!loop-alive op=%d active_reqs=%u\n", opno, loop->active_reqs.count); alive_reported = 1; }
  }
  uv_run(loop, UV_RUN_NOWAIT);
  if (cb_count != 1) printf("!cb-count op=%d n=%d\n", opno, cb_count);
  return (long) req->result;
}

static const char* rs(long r) {
  static char b[64];
  if (r >= 0) snprintf(b, sizeof b, "%ld", r);
  else snprintf(b, sizeof b, "%s", uv_err_name((int) r));
  return b;
}
static long perr(long r) { return r == -1 ? -errno : r; }

static int parse_flags(const char* s) {
  int f = 0, acc = 0;
  for (; *s; s++) switch (*s) {
    case 'r': acc |= 1; break;
    case 'w': acc |= 2; break;
    case 'c': f |= O_CREAT; break;
    case 't': f |= O_TRUNC; break;
    case 'a': f |= O_APPEND; break;
    case 'x': f |= O_EXCL; break;
    case 'd': f |= O_DIRECTORY; break;
    case 'n': f |= O_NOFOLLOW; break;
    case 'T': f |= O_TMPFILE; break;      /* includes O_DIRECTORY; the path names the directory */
    case 'p': f |= O_PATH; break;
    case 'k': f |= O_NONBLOCK; break;
  }
  return f | (acc == 3 ? O_RDWR : acc == 2 ? O_WRONLY : O_RDONLY);
}

static size_t lens[70000];
static int parse_lens(const char* s) {
  int n = 0;
  while (*s) {
    char* e; long v = strtol(s, &e, 10), k = 1;
    if (e == s) return -1;
    s = e;
    if (*s == '*') { k = strtol(s + 1, &e, 10); s = e; }
    while (k-- > 0 && n < 70000) lens[n++] = (size_t) v;
    if (*s == ',') s++;
  }
  return n;
}

static char typech(mode_t m) {
  return S_ISREG(m) ? 'f' : S_ISDIR(m) ? 'd' : S_ISLNK(m) ? 'l' : 'o';
}
static void tm_str(char* b, long sec) {
  if (sec < 1100000000L) sprintf(b, "%ld", sec); else strcpy(b, "now");
}
static void print_stat_fields(mode_t m, long nlink, long size, long at, long mt, long uid, long gid) {
  char a[32], t[32];
  tm_str(a, at); tm_str(t, mt);
  printf(" type=%c mode=%o nlink=%ld", typech(m), (unsigned) (m & 07777), S_ISDIR(m) ? 0L : nlink);
  if (!S_ISDIR(m)) printf(" size=%ld", size);
  printf(" mt=%s own=%ld:%ld", t, uid, gid);
  (void) a;
}
static void print_uvstat(const uv_stat_t* s) {
  print_stat_fields((mode_t) s->st_mode, (long) s->st_nlink, (long) s->st_size, (long) s->st_atim.tv_sec, (long) s->st_mtim.tv_sec, (long) s->st_uid, (long) s->st_gid);
}
static void print_pstat(const struct stat* s) {
  print_stat_fields(s->st_mode, (long) s->st_nlink, (long) s->st_size, (long) s->st_atim.tv_sec, (long) s->st_mtim.tv_sec, (long) s->st_uid, (long) s->st_gid);
}

/* Configuration "statx unavailable" (env C11_NOSTATX=<errno>: ENOSYS 38, EPERM 1, EINVAL 22, EOPNOTSUPP 95 — an old
   kernel, or the seccomp / container sandboxes the comment in uv__fs_statx describes): a seccomp filter installed
   before the loop and its threads exist answers every statx(2) of this process with that errno, so uv__fs_stat /
   uv__fs_lstat / uv__fs_fstat take their stat(2) / lstat(2) / fstat(2) fallback.  The oracle then is fstatat(2). */
static int nostatx;
static int install_nostatx(int err) {
  struct sock_filter f[] = {
    BPF_STMT(BPF_LD | BPF_W | BPF_ABS, offsetof(struct seccomp_data, nr)),
    BPF_JUMP(BPF_JMP | BPF_JEQ | BPF_K, __NR_statx, 0, 1),
    BPF_STMT(BPF_RET | BPF_K, SECCOMP_RET_ERRNO | ((unsigned) err & SECCOMP_RET_DATA)),
    BPF_STMT(BPF_RET | BPF_K, SECCOMP_RET_ALLOW),
  };
  struct sock_fprog prog = { (unsigned short) (sizeof f / sizeof f[0]), f };
  if (prctl(PR_SET_NO_NEW_PRIVS, 1, 0, 0, 0)) return -1;
  if (prctl(PR_SET_SECCOMP, SECCOMP_MODE_FILTER, &prog)) return -1;
  { struct statx x; if (syscall(__NR_statx, AT_FDCWD, ".", 0, 0x7ff, &x) != -1 || errno != err) return -1; }
  return 0;
}
static void check_against_statx(const uv_stat_t* u, int dirfd, const char* path, int flags);
/* same, statx unavailable: every field struct stat has (birth time is not a POSIX field) against fstatat(2) */
static void check_against_fstatat(const uv_stat_t* u, int dirfd, const char* path, int flags) {
  struct stat x;
  memset(&x, 0, sizeof x);
  if (fstatat(dirfd, path, &x, flags) != 0) { printf("\n!stat-field op=%d fstatat(2) failed errno=%d", opno, errno); return; }
#define G(name, uv, os) if ((unsigned long long) (uv) != (unsigned long long) (os)) \
    printf("\n!stat-field op=%d field=%s uv=%llu os=%llu", opno, name, (unsigned long long) (uv), (unsigned long long) (os))
  G("st_dev", u->st_dev, x.st_dev); G("st_mode", u->st_mode, x.st_mode); G("st_nlink", u->st_nlink, x.st_nlink);
  G("st_uid", u->st_uid, x.st_uid); G("st_gid", u->st_gid, x.st_gid); G("st_rdev", u->st_rdev, x.st_rdev);
  G("st_ino", u->st_ino, x.st_ino); G("st_size", u->st_size, x.st_size); G("st_blksize", u->st_blksize, x.st_blksize);
  G("st_blocks", u->st_blocks, x.st_blocks); G("st_flags", u->st_flags, 0); G("st_gen", u->st_gen, 0);
  G("st_atim.tv_sec", u->st_atim.tv_sec, x.st_atim.tv_sec); G("st_atim.tv_nsec", u->st_atim.tv_nsec, x.st_atim.tv_nsec);
  G("st_mtim.tv_sec", u->st_mtim.tv_sec, x.st_mtim.tv_sec); G("st_mtim.tv_nsec", u->st_mtim.tv_nsec, x.st_mtim.tv_nsec);
  G("st_ctim.tv_sec", u->st_ctim.tv_sec, x.st_ctim.tv_sec); G("st_ctim.tv_nsec", u->st_ctim.tv_nsec, x.st_ctim.tv_nsec);
#undef G
}

/* every field of uv_stat_t against statx(2) issued right now on the same object: within one run the kernel
   reports the same values to whichever route asked (nothing touches the object in between), so all 16
   fields must agree, incl. dev/ino/blocks/times/birth time that cannot be compared across trees */
static void check_against_statx(const uv_stat_t* u, int dirfd, const char* path, int flags) {
  struct statx x;
  if (nostatx) { check_against_fstatat(u, dirfd, path, flags); return; }
  memset(&x, 0, sizeof x);
  if (statx(dirfd, path, flags, STATX_BASIC_STATS | STATX_BTIME, &x) != 0) { printf("\n!stat-field op=%d statx(2) failed errno=%d", opno, errno); return; }
#define F(name, uv, os) if ((unsigned long long) (uv) != (unsigned long long) (os)) \
    printf("\n!stat-field op=%d field=%s uv=%llu os=%llu", opno, name, (unsigned long long) (uv), (unsigned long long) (os))
  F("st_dev", u->st_dev, makedev(x.stx_dev_major, x.stx_dev_minor));
  F("st_mode", u->st_mode, x.stx_mode);
  F("st_nlink", u->st_nlink, x.stx_nlink);
  F("st_uid", u->st_uid, x.stx_uid);
  F("st_gid", u->st_gid, x.stx_gid);
  F("st_rdev", u->st_rdev, makedev(x.stx_rdev_major, x.stx_rdev_minor));
  F("st_ino", u->st_ino, x.stx_ino);
  F("st_size", u->st_size, x.stx_size);
  F("st_blksize", u->st_blksize, x.stx_blksize);
  F("st_blocks", u->st_blocks, x.stx_blocks);
  F("st_flags", u->st_flags, 0);
  F("st_gen", u->st_gen, 0);
  F("st_atim.tv_sec", u->st_atim.tv_sec, x.stx_atime.tv_sec);
  F("st_atim.tv_nsec", u->st_atim.tv_nsec, x.stx_atime.tv_nsec);
  F("st_mtim.tv_sec", u->st_mtim.tv_sec, x.stx_mtime.tv_sec);
  F("st_mtim.tv_nsec", u->st_mtim.tv_nsec, x.stx_mtime.tv_nsec);
  F("st_ctim.tv_sec", u->st_ctim.tv_sec, x.stx_ctime.tv_sec);
  F("st_ctim.tv_nsec", u->st_ctim.tv_nsec, x.stx_ctime.tv_nsec);
  F("st_birthtim.tv_sec", u->st_birthtim.tv_sec, x.stx_btime.tv_sec);
  F("st_birthtim.tv_nsec", u->st_birthtim.tv_nsec, x.stx_btime.tv_nsec);
#undef F
  if (x.stx_mask & STATX_BTIME) n_btime++;
}

/* canonical form of a path-valued output: the run's root and its private parent directory (symlink targets
   such as ../x legitimately resolve into it) are replaced by fixed tokens, so logs of different runs compare */
static char parent_dir[PATH_MAX];
static const char* rel(const char* p) {
  static char out[PATH_MAX + 16];
  size_t n = strlen(root), m = strlen(parent_dir);
  if (!strncmp(p, root, n) && (p[n] == '/' || p[n] == 0)) snprintf(out, sizeof out, "<ROOT>%s", p + n);
  else if (m > 0 && !strncmp(p, parent_dir, m) && (p[m] == '/' || p[m] == 0)) snprintf(out, sizeof out, "<PARENT>%s", p + m);
  else snprintf(out, sizeof out, "%s", p);
  return out;
}

static int cmpstr(const void* a, const void* b) { return strcmp(*(char* const*) a, *(char* const*) b); }
static void print_sorted(char** names, int n) {
  int i;
  qsort(names, n, sizeof(*names), cmpstr);
  for (i = 0; i < n; i++) { printf(" %s", names[i]); free(names[i]); }
}
static char dtch_uv(uv_dirent_type_t t) {
  return t == UV_DIRENT_FILE ? 'f' : t == UV_DIRENT_DIR ? 'd' : t == UV_DIRENT_LINK ? 'l' : t == UV_DIRENT_UNKNOWN ? 'u' : 'o';
}
static char dtch_p(unsigned char t) {
  return t == DT_REG ? 'f' : t == DT_DIR ? 'd' : t == DT_LNK ? 'l' : t == DT_UNKNOWN ? 'u' : 'o';
}
static char* mkent(const char* name, char t) {
  char* s = malloc(strlen(name) + 3);
  sprintf(s, "%s:%c", name, t);
  return s;
}

static unsigned char wbyte(long seed, int i, size_t j) { return (unsigned char) (seed * 13 + 131 * i + j * 7 + (j >> 3)); }

/* deterministic name for what mkdtemp/mkstemp created */
static int tmpctr;
static void canon_tmp(const char* created, const char* tpl, char* out) {
  size_t n = strlen(tpl);
  snprintf(out, PATH_MAX, "%.*s%06d", (int) (n >= 6 ? n - 6 : n), tpl, tmpctr++);
  rename(created, out);
}
static int tpl_ok(const char* created, const char* tpl) {
  size_t n = strlen(tpl);
  return strlen(created) == n && n >= 6 && !strncmp(created, tpl, n - 6) && strcmp(created, tpl) != 0;
}

static unsigned long long fnv(const char* path) {
  unsigned long long h = 1469598103934665603ULL;
  unsigned char b[4096]; ssize_t k; int fd = open(path, O_RDONLY);
  if (fd < 0) return 0;
  while ((k = read(fd, b, sizeof b)) > 0) { ssize_t i; for (i = 0; i < k; i++) { h ^= b[i]; h *= 1099511628211ULL; } }
  close(fd);
  return h;
}
static void tree(const char* dir) {
  struct dirent** l; int n = scandir(dir, &l, NULL, alphasort), i;
  for (i = 0; i < n; i++) {
    char p[PATH_MAX]; struct stat st;
    if (!strcmp(l[i]->d_name, ".") || !strcmp(l[i]->d_name, "..")) { free(l[i]); continue; }
    snprintf(p, sizeof p, "%s/%s", dir, l[i]->d_name);
    free(l[i]);
    if (lstat(p, &st)) continue;
    printf("tree %s", p + 2);
    print_pstat(&st);
    if (S_ISREG(st.st_mode)) printf(" hash=%016llx", fnv(p));
    if (S_ISLNK(st.st_mode)) { char t[PATH_MAX]; ssize_t k = readlink(p, t, sizeof t - 1); t[k < 0 ? 0 : k] = 0; printf(" -> %s", t); }
    putchar('\n');
    if (S_ISDIR(st.st_mode)) tree(p);
  }
  if (n >= 0) free(l);
}

#define SLOT(s) slots[atoi(s) & 15]
#define A(i) (w[i])

int main(int argc, char** argv) {
  static char line[1 << 20];
  int i;
  if (argc != 3) return 2;
  mode = !strcmp(argv[1], "sync") ? SYNC : !strcmp(argv[1], "pool") ? POOL : !strcmp(argv[1], "uring") ? URING : POSIX;
  if (chdir(argv[2]) || !getcwd(root, sizeof root)) { perror("chdir"); return 2; }
  { char* rp = realpath(".", NULL); if (rp) { strcpy(root, rp); free(rp); } }
  { char* sl; strcpy(parent_dir, root); sl = strrchr(parent_dir, '/'); if (sl && sl != parent_dir) *sl = 0; else parent_dir[0] = 0; }
  umask(0);
  if (getenv("C11_NOSTATX") && atoi(getenv("C11_NOSTATX")) > 0) {
    nostatx = atoi(getenv("C11_NOSTATX"));
    if (install_nostatx(nostatx)) { puts("ROUTE-SKIPPED nostatx"); return 0; }
  }
  for (i = 0; i < 16; i++) slots[i] = -1;
  loop = &loop_s;
  uv_loop_init(loop);
  if (mode == URING) {
    uv_fs_t req; int rc;
#ifdef UV_LOOP_USE_IO_URING_SQPOLL
    rc = uv_loop_configure(loop, UV_LOOP_USE_IO_URING_SQPOLL);
#else
    rc = UV_ENOSYS;
#endif
    if (rc == 0) {
      /* probe: the first async request creates the ring lazily */
      rc = uv_fs_stat(loop, &req, ".", on_fs);
      if (rc == 0) uv_run(loop, UV_RUN_DEFAULT);
      uv_fs_req_cleanup(&req);
      if (n_uring == 0) rc = -1;
      n_uring = n_pool = 0;
    }
    if (rc != 0) { puts("ROUTE-SKIPPED uring"); return 0; }
  }

  while (fgets(line, sizeof line, stdin)) {
    char* w[12]; int nw = 0; char* t; long r = 0; uv_fs_t req;
    for (t = strtok(line, " \t\r\n"); t && nw < 12; t = strtok(NULL, " \t\r\n")) w[nw++] = t;
    if (nw == 0) continue;
    /* names the line protocol cannot carry literally: %XX = one byte, %rNNNc = NNN times the character c */
    { static char dec[12][1200]; int q;
      for (q = 1; q < nw; q++) if (strchr(w[q], '%')) {
        const char* a = w[q]; size_t o = 0;
        while (*a && o < sizeof dec[q] - 300) {
          if (a[0] == '%' && a[1] == 'r' && strlen(a) >= 6) { int k = (a[2]-'0')*100 + (a[3]-'0')*10 + (a[4]-'0'); while (k-- > 0 && o < sizeof dec[q] - 2) dec[q][o++] = a[5]; a += 6; }
          else if (a[0] == '%' && a[1] && a[2]) { char h[3] = { a[1], a[2], 0 }; dec[q][o++] = (char) strtol(h, NULL, 16); a += 3; }
          else dec[q][o++] = *a++;
        }
        dec[q][o] = 0; w[q] = dec[q];
      }
    }
    opno++;
    memset(&req, 0, sizeof req);
#define IS(name, n) (!strcmp(w[0], name) && nw == (n))
    if (IS("umask", 2)) {            /* process-wide, so it applies to every route alike */
      umask((mode_t) strtol(A(1), NULL, 8));
      puts("umask");
    } else if (IS("linkfd", 3)) {   /* give an O_TMPFILE file a name (raw linkat, not an operation under test) */
      char pp[64]; int rr;
      snprintf(pp, sizeof pp, "/proc/self/fd/%d", SLOT(A(1)));
      rr = SLOT(A(1)) < 0 ? -EBADF : linkat(AT_FDCWD, pp, AT_FDCWD, A(2), AT_SYMLINK_FOLLOW) ? -errno : 0;
      printf("linkfd %s\n", rs(rr));
    } else if (IS("usleep", 2)) {          /* pacing only (probe for submission/wake-up races); prints nothing route-specific */
      usleep((useconds_t) atoi(A(1)));
      puts("usleep");
    } else if (IS("open", 5)) {
      int fl = parse_flags(A(3)); int md = (int) strtol(A(4), NULL, 8);
      if (mode == POSIX) r = perr(open(A(2), fl | O_CLOEXEC, md));
      else { r = fin(uv_fs_open(loop, &req, A(2), fl, md, CB), &req); uv_fs_req_cleanup(&req); }
      if (SLOT(A(1)) >= 0) close(SLOT(A(1)));
      SLOT(A(1)) = r >= 0 ? (int) r : -1;
      printf("open %s", r >= 0 ? "ok" : rs(r));
      if (r >= 0) {   /* what open(2) itself would have produced: type, permission bits (mode & ~umask), status flags */
        struct stat st; int gf = fcntl((int) r, F_GETFL);
        if (fstat((int) r, &st) == 0) printf(" type=%c mode=%o nlink=%ld size=%ld", typech(st.st_mode), (unsigned) (st.st_mode & 07777),
                                             S_ISDIR(st.st_mode) ? 0L : (long) st.st_nlink, S_ISDIR(st.st_mode) ? 0L : (long) st.st_size);
        else printf(" fstat=%s", rs(-errno));
        printf(" fl=%x", gf < 0 ? -1 : gf & (O_ACCMODE | O_APPEND | O_NONBLOCK | O_PATH | O_TMPFILE | O_NOFOLLOW));
      }
      putchar('\n');
    } else if (IS("close", 2)) {
      int fd = SLOT(A(1));
      if (mode == POSIX) r = perr(close(fd));
      else { r = fin(uv_fs_close(loop, &req, fd, CB), &req); uv_fs_req_cleanup(&req); }
      SLOT(A(1)) = -1;
      printf("close %s\n", rs(r));
    } else if (IS("read", 4) || IS("write", 5)) {
      int is_read = w[0][0] == 'r';
      int fd = SLOT(A(1)); long long off = atoll(A(2)); int n = parse_lens(A(is_read ? 3 : 4)), k;
      long seed = is_read ? 0 : atol(A(3));
      size_t total = 0, pos = 0, j; unsigned char* mem; uv_buf_t* b;
      if (n <= 0) { puts("bad-op"); continue; }
      for (k = 0; k < n; k++) total += lens[k];
      mem = malloc(total + 1); b = malloc(sizeof(*b) * n);
      for (k = 0; k < n; k++) {
        b[k] = uv_buf_init((char*) mem + pos, lens[k]);
        for (j = 0; j < lens[k]; j++) mem[pos + j] = is_read ? 0xEE : wbyte(seed, k, j);
        pos += lens[k];
      }
      if (mode == POSIX) {
        long tot = 0; int cap = is_read && n > IOV_MAX ? IOV_MAX : n;
        r = 0;
        for (k = 0; k < cap; k++) {
          size_t done = 0;
          while (done < b[k].len) {
            ssize_t x;
            if (is_read) x = off < 0 ? read(fd, b[k].base + done, b[k].len - done) : pread(fd, b[k].base + done, b[k].len - done, off + tot);
            else x = off < 0 ? write(fd, b[k].base + done, b[k].len - done) : pwrite(fd, b[k].base + done, b[k].len - done, off + tot);
            if (x < 0) { if (errno == EINTR) continue; r = -errno; break; }
            if (x == 0) break;
            done += x; tot += x;
          }
          if (r < 0 || done < b[k].len) break;
        }
        if (cap > 0 && tot == 0 && r == 0) {  /* nothing transferred: the vectored call itself, so that EBADF etc. show */
          struct iovec* v = calloc(cap, sizeof(*v)); int nv = cap > IOV_MAX ? IOV_MAX : cap; ssize_t x;
          for (k = 0; k < nv; k++) { v[k].iov_base = b[k].base; v[k].iov_len = b[k].len; }
          x = is_read ? (off < 0 ? readv(fd, v, nv) : preadv(fd, v, nv, off)) : (off < 0 ? writev(fd, v, nv) : pwritev(fd, v, nv, off));
          if (x < 0) r = -errno; else tot = x;
          free(v);
        }
        if (r == 0 || tot > 0) r = tot;
      } else {
        int rc = is_read ? uv_fs_read(loop, &req, fd, b, n, off, CB) : uv_fs_write(loop, &req, fd, b, n, off, CB);
        r = fin(rc, &req);
        uv_fs_req_cleanup(&req);
      }
      printf("%s %s", w[0], rs(r));
      if (is_read) {
        int dirty = 0;
        printf(" data=");
        for (j = 0; j < total; j++) {
          if ((long) j < r) printf("%02x", mem[j]);
          else if (mem[j] != 0xEE) dirty = 1;
        }
        printf(" tail=%s", dirty ? "dirty" : "clean");
      }
      putchar('\n');
      free(mem); free(b);
    } else if (IS("ftruncate", 3) || IS("fsync", 2) || IS("fdatasync", 2) || IS("fchmod", 3)) {
      int fd = SLOT(A(1));
      if (w[0][1] == 't') {
        long long len = atoll(A(2));
        if (mode == POSIX) r = perr(ftruncate(fd, len)); else r = fin(uv_fs_ftruncate(loop, &req, fd, len, CB), &req);
      } else if (w[0][1] == 's') {
        if (mode == POSIX) r = perr(fsync(fd)); else r = fin(uv_fs_fsync(loop, &req, fd, CB), &req);
      } else if (w[0][1] == 'd') {
        if (mode == POSIX) r = perr(fdatasync(fd)); else r = fin(uv_fs_fdatasync(loop, &req, fd, CB), &req);
      } else {
        int md = (int) strtol(A(2), NULL, 8);
        if (mode == POSIX) r = perr(fchmod(fd, md)); else r = fin(uv_fs_fchmod(loop, &req, fd, md, CB), &req);
      }
      if (mode != POSIX) uv_fs_req_cleanup(&req);
      printf("%s %s\n", w[0], rs(r));
    } else if (IS("stat", 2) || IS("lstat", 2) || IS("fstat", 2)) {
      printf("%s", w[0]);
      if (mode == POSIX) {
        struct stat st;
        r = perr(w[0][0] == 's' ? stat(A(1), &st) : w[0][0] == 'l' ? lstat(A(1), &st) : fstat(SLOT(A(1)), &st));
        printf(" %s", rs(r));
        if (r == 0) { print_pstat(&st); printf(" ptr=1"); }
      } else {
        int rc = w[0][0] == 's' ? uv_fs_stat(loop, &req, A(1), CB) : w[0][0] == 'l' ? uv_fs_lstat(loop, &req, A(1), CB)
                                                                                    : uv_fs_fstat(loop, &req, SLOT(A(1)), CB);
        r = fin(rc, &req);
        printf(" %s", rs(r));
        if (r == 0) {
          print_uvstat(&req.statbuf); printf(" ptr=%d", req.ptr == &req.statbuf);
          if (w[0][0] == 'f') check_against_statx(&req.statbuf, SLOT(A(1)), "", AT_EMPTY_PATH);
          else check_against_statx(&req.statbuf, AT_FDCWD, A(1), w[0][0] == 'l' ? AT_SYMLINK_NOFOLLOW : 0);
        }
        uv_fs_req_cleanup(&req);
      }
      putchar('\n');
    } else if (IS("statfs", 2)) {
      if (mode == POSIX) {
        struct statfs sf; r = perr(statfs(A(1), &sf));
        printf("statfs %s", rs(r));
        if (r == 0) printf(" type=%lx bsize=%ld", (long) sf.f_type, (long) sf.f_bsize);
      } else {
        r = fin(uv_fs_statfs(loop, &req, A(1), CB), &req);
        printf("statfs %s", rs(r));
        if (r == 0 && req.ptr) {
          uv_statfs_t* sf = req.ptr; struct statfs os;
          printf(" type=%lx bsize=%ld", (long) sf->f_type, (long) sf->f_bsize);
          if (statfs(A(1), &os) == 0 && (sf->f_type != (uint64_t) os.f_type || sf->f_bsize != (uint64_t) os.f_bsize ||
              sf->f_blocks != os.f_blocks || sf->f_files != os.f_files))
            printf("\n!statfs-field op=%d", opno);
        }
        uv_fs_req_cleanup(&req);
      }
      putchar('\n');
    } else if (IS("mkdir", 3) || IS("chmod", 3) || IS("access", 3)) {
      int md = (int) strtol(A(2), NULL, 8);
      if (mode == POSIX) r = perr(w[0][0] == 'm' ? mkdir(A(1), md) : w[0][0] == 'c' ? chmod(A(1), md) : access(A(1), md));
      else {
        r = fin(w[0][0] == 'm' ? uv_fs_mkdir(loop, &req, A(1), md, CB) : w[0][0] == 'c' ? uv_fs_chmod(loop, &req, A(1), md, CB)
                                                                                       : uv_fs_access(loop, &req, A(1), md, CB), &req);
        uv_fs_req_cleanup(&req);
      }
      printf("%s %s", w[0], rs(r));
      if (w[0][0] == 'm' && r == 0) { struct stat st; if (lstat(A(1), &st) == 0) printf(" type=%c mode=%o", typech(st.st_mode), (unsigned) (st.st_mode & 07777)); }
      putchar('\n');
    } else if (IS("chown", 4) || IS("lchown", 4) || IS("fchown", 4)) {
      long u = atol(A(2)), g = atol(A(3));
      if (geteuid() != 0 && (u != -1 || g != -1)) { printf("%s skipped-not-root\n", w[0]); continue; }
      if (mode == POSIX)   /* the exact POSIX counterpart of each */
        r = perr(w[0][0] == 'c' ? chown(A(1), (uid_t) u, (gid_t) g) : w[0][0] == 'l' ? lchown(A(1), (uid_t) u, (gid_t) g)
                                                                                     : fchown(SLOT(A(1)), (uid_t) u, (gid_t) g));
      else {
        r = fin(w[0][0] == 'c' ? uv_fs_chown(loop, &req, A(1), (uv_uid_t) u, (uv_gid_t) g, CB)
              : w[0][0] == 'l' ? uv_fs_lchown(loop, &req, A(1), (uv_uid_t) u, (uv_gid_t) g, CB)
                               : uv_fs_fchown(loop, &req, SLOT(A(1)), (uv_uid_t) u, (uv_gid_t) g, CB), &req);
        uv_fs_req_cleanup(&req);
      }
      printf("%s %s\n", w[0], rs(r));
    } else if (IS("rmdir", 2) || IS("unlink", 2)) {
      if (mode == POSIX) r = perr(w[0][0] == 'r' ? rmdir(A(1)) : unlink(A(1)));
      else { r = fin(w[0][0] == 'r' ? uv_fs_rmdir(loop, &req, A(1), CB) : uv_fs_unlink(loop, &req, A(1), CB), &req); uv_fs_req_cleanup(&req); }
      printf("%s %s\n", w[0], rs(r));
    } else if (IS("rename", 3) || IS("link", 3) || IS("symlink", 3)) {
      if (mode == POSIX) r = perr(w[0][0] == 'r' ? rename(A(1), A(2)) : w[0][0] == 'l' ? link(A(1), A(2)) : symlink(A(1), A(2)));
      else {
        r = fin(w[0][0] == 'r' ? uv_fs_rename(loop, &req, A(1), A(2), CB) : w[0][0] == 'l' ? uv_fs_link(loop, &req, A(1), A(2), CB)
                                                                                          : uv_fs_symlink(loop, &req, A(1), A(2), 0, CB), &req);
        uv_fs_req_cleanup(&req);
      }
      printf("%s %s\n", w[0], rs(r));
    } else if (IS("readlink", 2) || IS("realpath", 2)) {
      char out[PATH_MAX]; out[0] = 0;
      if (mode == POSIX) {
        if (w[0][3] == 'd') { ssize_t k = readlink(A(1), out, sizeof out - 1); r = k < 0 ? -errno : 0; if (k >= 0) out[k] = 0; }
        else { char* p = realpath(A(1), NULL); r = p ? 0 : -errno; if (p) { strcpy(out, p); free(p); } }
      } else {
        r = fin(w[0][3] == 'd' ? uv_fs_readlink(loop, &req, A(1), CB) : uv_fs_realpath(loop, &req, A(1), CB), &req);
        if (r == 0 && req.ptr) strcpy(out, req.ptr);
        else if (r == 0) strcpy(out, "(null-ptr)");
        uv_fs_req_cleanup(&req);
      }
      printf("%s %s", w[0], rs(r));
      if (r == 0) printf(" -> %s", rel(out));
      putchar('\n');
    } else if (IS("utime", 4) || IS("lutime", 4) || IS("futime", 4)) {
      double at = atof(A(2)), mt = atof(A(3));
      if (mode == POSIX) {
        struct timespec ts[2]; ts[0].tv_sec = (time_t) at; ts[0].tv_nsec = 0; ts[1].tv_sec = (time_t) mt; ts[1].tv_nsec = 0;
        r = perr(w[0][0] == 'u' ? utimensat(AT_FDCWD, A(1), ts, 0) : w[0][0] == 'l' ? utimensat(AT_FDCWD, A(1), ts, AT_SYMLINK_NOFOLLOW)
                                                                                   : futimens(SLOT(A(1)), ts));
      } else {
        r = fin(w[0][0] == 'u' ? uv_fs_utime(loop, &req, A(1), at, mt, CB) : w[0][0] == 'l' ? uv_fs_lutime(loop, &req, A(1), at, mt, CB)
                                                                                           : uv_fs_futime(loop, &req, SLOT(A(1)), at, mt, CB), &req);
        uv_fs_req_cleanup(&req);
      }
      printf("%s %s\n", w[0], rs(r));
    } else if (IS("mkdtemp", 2) || IS("mkstemp", 3)) {
      int is_s = w[0][2] == 's'; const char* tpl = A(is_s ? 2 : 1);
      char created[PATH_MAX], fixed[PATH_MAX]; int ok = 0; struct stat st;
      created[0] = 0;
      if (mode == POSIX) {
        strcpy(created, tpl);
        if (is_s) r = perr(mkostemp(created, O_CLOEXEC)); else r = mkdtemp(created) ? 0 : -errno;
      } else {
        r = fin(is_s ? uv_fs_mkstemp(loop, &req, tpl, CB) : uv_fs_mkdtemp(loop, &req, tpl, CB), &req);
        if (r >= 0 && req.path) strcpy(created, req.path);
        uv_fs_req_cleanup(&req);
      }
      printf("%s %s", w[0], r >= 0 ? "ok" : rs(r));
      if (r >= 0) {
        ok = tpl_ok(created, tpl) && lstat(created, &st) == 0;
        printf(" name-ok=%d", ok);
        if (ok) printf(" type=%c mode=%o", typech(st.st_mode), (unsigned) (st.st_mode & 07777));
        canon_tmp(created, tpl, fixed);
        if (is_s) { if (SLOT(A(1)) >= 0) close(SLOT(A(1))); SLOT(A(1)) = (int) r; }
      }
      putchar('\n');
    } else if (IS("scandir", 2)) {
      char* names[4096]; int n = 0;
      if (mode == POSIX) {
        struct dirent** l; int k = scandir(A(1), &l, NULL, NULL), q;
        r = k < 0 ? -errno : 0;
        for (q = 0; q < k; q++) {
          if (strcmp(l[q]->d_name, ".") && strcmp(l[q]->d_name, "..") && n < 4096) names[n++] = mkent(l[q]->d_name, dtch_p(l[q]->d_type));
          free(l[q]);
        }
        if (k >= 0) { free(l); r = n; }
      } else {
        uv_dirent_t de;
        r = fin(uv_fs_scandir(loop, &req, A(1), 0, CB), &req);
        if (r >= 0) while (uv_fs_scandir_next(&req, &de) != UV_EOF && n < 4096) names[n++] = mkent(de.name, dtch_uv(de.type));
        uv_fs_req_cleanup(&req);
      }
      printf("scandir %s", rs(r));
      print_sorted(names, n);
      putchar('\n');
    } else if (IS("opendir", 3)) {
      int d = atoi(A(1)) & 3;
      if (mode == POSIX) { pdirs[d] = opendir(A(2)); r = pdirs[d] ? 0 : -errno; }
      else {
        r = fin(uv_fs_opendir(loop, &req, A(2), CB), &req);
        dirs[d] = r == 0 ? req.ptr : NULL;
        uv_fs_req_cleanup(&req);
      }
      printf("opendir %s\n", rs(r));
    } else if (IS("readdir", 3)) {
      int d = atoi(A(1)) & 3, k = atoi(A(2)), n = 0, q; char* names[256];
      if (k < 1) k = 1; if (k > 64) k = 64;
      if (mode == POSIX) {
        if (!pdirs[d]) r = UV_EINVAL;
        else {
          struct dirent* e;
          errno = 0;
          while (n < k && (e = readdir(pdirs[d])) != NULL)
            if (strcmp(e->d_name, ".") && strcmp(e->d_name, "..")) names[n++] = mkent(e->d_name, dtch_p(e->d_type));
          r = n;
        }
      } else if (!dirs[d]) {
        r = fin(uv_fs_readdir(loop, &req, NULL, CB), &req);   /* documented: EINVAL */
        uv_fs_req_cleanup(&req);
      } else {
        uv_dirent_t* des = calloc(k, sizeof(*des));
        dirs[d]->dirents = des; dirs[d]->nentries = k;
        r = fin(uv_fs_readdir(loop, &req, dirs[d], CB), &req);
        for (q = 0; q < r && q < k; q++) names[n++] = mkent(des[q].name, dtch_uv(des[q].type));
        uv_fs_req_cleanup(&req);
        free(des);
      }
      /* the order within one directory stream is the file system's; what must agree is the count
         per call and, over the whole stream, the set: print count + sorted names of this batch */
      printf("readdir %s", rs(r));
      print_sorted(names, n);
      putchar('\n');
    } else if (IS("closedir", 2)) {
      int d = atoi(A(1)) & 3;
      if (mode == POSIX) { if (!pdirs[d]) r = UV_EINVAL; else { r = perr(closedir(pdirs[d])); pdirs[d] = NULL; } }
      else {
        r = fin(uv_fs_closedir(loop, &req, dirs[d], CB), &req);
        dirs[d] = NULL;
        uv_fs_req_cleanup(&req);
      }
      printf("closedir %s\n", rs(r));
    } else if (IS("copyfile", 4)) {
      int fl = atoi(A(3)), excl = fl & 1;   /* 1 = EXCL, 2 = FICLONE, 4 = FICLONE_FORCE */
      if (mode == POSIX) {
        struct stat ss, ds; int s = open(A(1), O_RDONLY | O_CLOEXEC), d = -1;
        r = 0;
        if (s < 0) r = -errno;
        else {
          if (fstat(s, &ss)) r = -errno;
          if (r == 0) { d = open(A(2), O_WRONLY | O_CREAT | O_CLOEXEC | (excl ? O_EXCL : 0), ss.st_mode); if (d < 0) r = -errno; }
          if (r == 0) {
            int same = 0;
            if (!excl) {
              if (fstat(d, &ds)) r = -errno;
              else if (ds.st_dev == ss.st_dev && ds.st_ino == ss.st_ino) same = 1;
              else if (ftruncate(d, 0)) r = -errno;
            }
            if (r == 0 && !same) {
              struct timespec ts[2]; char buf[8192]; ssize_t k;
              ts[0] = ss.st_atim; ts[1] = ss.st_mtim;
              if (futimens(d, ts)) r = -errno;
              /* like `cp -p` (and fs.c:1336): hand the owner over too, errors ignored; before fchmod, which restores
                 the set-id bits a chown clears */
              if (r == 0) { int ig = fchown(d, ss.st_uid, ss.st_gid); (void) ig; }
              if (r == 0 && fchmod(d, ss.st_mode)) r = -errno;
              /* oracle for the clone flags: FICLONE = try to reflink, else plain copy; FICLONE_FORCE = reflink or fail.
                 Either way a successful copy leaves dst an exact copy of src (the truncate above already happened) */
              if (r == 0 && (fl & 6)) {
                if (ioctl(d, C11_FICLONE, s) == 0) goto copied;
                if (fl & 4) r = -errno;
              }
              while (r == 0 && (k = read(s, buf, sizeof buf)) != 0) {
                if (k < 0) { r = -errno; break; }
                if (write(d, buf, k) != k) { r = -errno; break; }
              }
              copied: ;
            }
          }
          close(s);
          if (d >= 0) { close(d); if (r != 0) unlink(A(2)); }
        }
      } else {
        r = fin(uv_fs_copyfile(loop, &req, A(1), A(2), (fl & 1 ? UV_FS_COPYFILE_EXCL : 0) | (fl & 2 ? UV_FS_COPYFILE_FICLONE : 0) | (fl & 4 ? UV_FS_COPYFILE_FICLONE_FORCE : 0), CB), &req);
        uv_fs_req_cleanup(&req);
      }
      printf("copyfile %s\n", rs(r));
    } else if (IS("sendfile", 5)) {
      int out = SLOT(A(1)), in = SLOT(A(2)); long long off = atoll(A(3)); size_t len = (size_t) atoll(A(4));
      struct stat s1, s2;
      /* copying a file onto itself: copy_file_range (libuv's first choice) and sendfile(2) legitimately differ
         (the latter keeps reading what it just appended); not part of the property, skipped on every route */
      if (out >= 0 && in >= 0 && !fstat(out, &s1) && !fstat(in, &s2) && s1.st_ino == s2.st_ino && s1.st_dev == s2.st_dev) {
        puts("sendfile same-file-skipped");
        continue;
      }
      if (mode == POSIX) {
        off_t o = off; ssize_t k;            /* one sendfile(2) call, as documented for uv_fs_sendfile */
        do k = sendfile(out, in, &o, len); while (k < 0 && errno == EINTR);
        r = k < 0 ? -errno : k;
      } else {
        r = fin(uv_fs_sendfile(loop, &req, out, in, off, len, CB), &req);
        uv_fs_req_cleanup(&req);
      }
      /* which errno a refused transfer reports depends on the copy_file_range/sendfile/emulation chain and is
         not part of "equals POSIX" (sendfile(2) is not POSIX): only success + count, or failure */
      printf("sendfile %s\n", r < 0 ? "ERR" : rs(r));
    } else {
      puts("bad-op");
    }
    fflush(stdout);
  }
  for (i = 0; i < 16; i++) if (slots[i] >= 0) close(slots[i]);
  for (i = 0; i < 4; i++) {
    if (pdirs[i]) closedir(pdirs[i]);
    if (dirs[i]) { uv_fs_t req; uv_fs_closedir(NULL, &req, dirs[i], NULL); uv_fs_req_cleanup(&req); }
  }
  tree(".");
  fprintf(stderr, "stats uring_ops=%ld pool_ops=%ld btime_stats=%ld\n", n_uring, n_pool, n_btime);
  uv_run(loop, alive_reported ? UV_RUN_NOWAIT : UV_RUN_DEFAULT);
  if (uv_loop_close(loop) && !alive_reported) printf("!loop-close-busy\n");
  fflush(stdout);
  return 0;
}
