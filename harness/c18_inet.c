/* C18 (address half) unit harness: calls the real uv_inet_pton / uv_inet_ntop / uv_ip4_addr /
 * uv_ip6_addr / uv_ip4_name / uv_ip6_name / uv_ip_name / uv__strscpy from the freshly built
 * libuv, and glibc's inet_pton / inet_ntop on the same input.  Every destination buffer (and
 * every source string) ends exactly at an inaccessible page, so any overrun/over-read faults.
 * Line protocol = lean/Drivers/C18.lean (mode c18inet); extra `libc=`/`scope=` fields are used
 * by the monitors in checks/c18.py only.  Byte strings are hex, `-` = empty. */
#include <stdio.h>
#include <stdlib.h>
#include <string.h>
#include <errno.h>
#include <unistd.h>
#include <sys/mman.h>
#include <arpa/inet.h>
#include <net/if.h>
#include "uv.h"
#include "strscpy.h"

#define FILL 0xaa
static unsigned char *guard_base;   /* 4 accessible pages followed by 1 PROT_NONE page */
static size_t page;
#define NPAGES 4

static unsigned char *guard_init(void) {
  page = (size_t) sysconf(_SC_PAGESIZE);
  unsigned char *p = mmap(NULL, (NPAGES + 1) * page, PROT_READ | PROT_WRITE,
                          MAP_PRIVATE | MAP_ANONYMOUS, -1, 0);
  if (p == MAP_FAILED) { perror("mmap"); exit(3); }
  if (mprotect(p + NPAGES * page, page, PROT_NONE)) { perror("mprotect"); exit(3); }
  return p;
}
/* a buffer of exactly n bytes whose end touches the guard page */
static unsigned char *gbuf(unsigned char *base, size_t n) {
  if (n > NPAGES * page) { printf("bad-op\n"); exit(4); }
  unsigned char *b = base + NPAGES * page - n;
  memset(b, FILL, n);
  return b;
}

static int nib(int c) {
  if (c >= '0' && c <= '9') return c - '0';
  if (c >= 'a' && c <= 'f') return c - 'a' + 10;
  return -1;
}
/* returns length or -1 */
static long unhex(const char *h, unsigned char *out, size_t cap) {
  size_t n = 0;
  if (strcmp(h, "-") == 0) return 0;
  while (h[0]) {
    int a = nib(h[0]), b = h[1] ? nib(h[1]) : -1;
    if (a < 0 || b < 0 || n >= cap) return -1;
    out[n++] = (unsigned char) (a * 16 + b);
    h += 2;
  }
  return (long) n;
}
static void puthex(const unsigned char *b, size_t n) {
  if (n == 0) { putchar('-'); return; }
  for (size_t i = 0; i < n; i++) printf("%02x", b[i]);
}
static void field(const char *name, int r, const unsigned char *b, size_t n) {
  printf(" %s=%d:", name, r);
  puthex(b, n);
}

static unsigned char *dst_base, *src_base;

/* the C string (memory image `m`, NUL appended) placed against the guard page */
static char *gstr(const unsigned char *m, size_t n) {
  unsigned char *s = gbuf(src_base, n + 1);
  memcpy(s, m, n);
  s[n] = 0;
  return (char *) s;
}

int main(void) {
  static char line[1 << 16];
  static unsigned char in[1 << 14];
  dst_base = guard_init();
  src_base = guard_init();
  while (fgets(line, sizeof line, stdin)) {
    char op[32] = "", a1[1 << 15] = "", a2[64] = "";
    int k = sscanf(line, "%31s %32767s %63s", op, a1, a2);
    if (k <= 0) continue;
    if (!strcmp(op, "pton4") && k == 2) {
      long n = unhex(a1, in, sizeof in);
      if (n < 0) { puts("bad-op"); goto next; }
      char *s = gstr(in, (size_t) n);
      unsigned char *d = gbuf(dst_base, 4);
      int r = uv_inet_pton(AF_INET, s, d);
      printf("pton4 %s", a1);
      field("uv", r, d, r == 0 ? 4 : 0);
      struct sockaddr_in *sa = (struct sockaddr_in *) gbuf(dst_base, sizeof *sa);
      r = uv_ip4_addr(s, 80, sa);
      field("ip4", r, (unsigned char *) &sa->sin_addr, r == 0 ? 4 : 0);
      if (sa->sin_family != AF_INET || sa->sin_port != htons(80)) printf(" BADHDR");
      unsigned char l[4];
      int lr = inet_pton(AF_INET, s, l);
      field("libc", lr == 1 ? 0 : UV_EINVAL, l, lr == 1 ? 4 : 0);
      putchar('\n');
    } else if (!strcmp(op, "pton6") && k == 2) {
      long n = unhex(a1, in, sizeof in);
      if (n < 0) { puts("bad-op"); goto next; }
      char *s = gstr(in, (size_t) n);
      unsigned char *d = gbuf(dst_base, 16);
      int r = uv_inet_pton(AF_INET6, s, d);
      printf("pton6 %s", a1);
      field("uv", r, d, r == 0 ? 16 : 0);
      struct sockaddr_in6 *sa = (struct sockaddr_in6 *) gbuf(dst_base, sizeof *sa);
      r = uv_ip6_addr(s, 80, sa);
      field("ip6", r, (unsigned char *) &sa->sin6_addr, r == 0 ? 16 : 0);
      if (sa->sin6_family != AF_INET6 || sa->sin6_port != htons(80)) printf(" BADHDR");
      /* reference: glibc on the part before the first '%' (the property allows a %zone suffix) */
      char *pct = strchr(s, '%');
      size_t plen = pct ? (size_t) (pct - s) : strlen(s);
      unsigned want = pct ? if_nametoindex(pct + 1) : 0;
      static unsigned char pre[1 << 14];
      memcpy(pre, s, plen);
      char *ps = gstr(pre, plen);   /* reuses src_base: s is dead from here on */
      unsigned char l[16];
      int lr = inet_pton(AF_INET6, ps, l);
      field("libc", lr == 1 ? 0 : UV_EINVAL, l, lr == 1 ? 16 : 0);
      printf(" scope=%u want=%u", (unsigned) sa->sin6_scope_id, want);
      putchar('\n');
    } else if ((!strcmp(op, "ntop4") || !strcmp(op, "ntop6")) && k == 3) {
      int six = op[4] == '6';
      size_t alen = six ? 16 : 4;
      long n = unhex(a1, in, sizeof in);
      char *e;
      unsigned long size = strtoul(a2, &e, 10);
      if (n != (long) alen || *e || size > 4096) { puts("bad-op"); goto next; }
      int af = six ? AF_INET6 : AF_INET;
      unsigned char *addr = gbuf(src_base, alen);
      memcpy(addr, in, alen);
      printf("%s %s %lu", op, a1, size);
      unsigned char *d = gbuf(dst_base, size);
      int r = uv_inet_ntop(af, addr, (char *) d, size);
      field("uv", r, d, size);
      struct sockaddr_in sa4; struct sockaddr_in6 sa6;
      memset(&sa4, 0, sizeof sa4); memset(&sa6, 0, sizeof sa6);
      sa4.sin_family = AF_INET; sa6.sin6_family = AF_INET6;
      if (six) memcpy(&sa6.sin6_addr, in, 16); else memcpy(&sa4.sin_addr, in, 4);
      d = gbuf(dst_base, size);
      r = six ? uv_ip6_name(&sa6, (char *) d, size) : uv_ip4_name(&sa4, (char *) d, size);
      field("name", r, d, size);
      d = gbuf(dst_base, size);
      r = uv_ip_name(six ? (struct sockaddr *) &sa6 : (struct sockaddr *) &sa4, (char *) d, size);
      field("ipname", r, d, size);
      char lb[128];
      const char *lp = inet_ntop(af, addr, lb, (socklen_t) (size > sizeof lb ? sizeof lb : size));
      field("libc", lp ? 0 : (errno == ENOSPC ? UV_ENOSPC : -errno), (unsigned char *) lb, lp ? strlen(lb) : 0);
      putchar('\n');
    } else if (!strcmp(op, "strscpy") && k == 3) {
      long n = unhex(a1, in, sizeof in);
      char *e;
      unsigned long size = strtoul(a2, &e, 10);
      if (n < 0 || *e || size > 4096) { puts("bad-op"); goto next; }
      char *s = gstr(in, (size_t) n);
      unsigned char *d = gbuf(dst_base, size);
      ssize_t r = uv__strscpy((char *) d, s, size);
      printf("strscpy %s %lu ret=%ld dst=", a1, size, (long) r);
      puthex(d, size);
      putchar('\n');
    } else if (!strcmp(op, "af") && k == 2) {
      int af = atoi(a1);
      unsigned char addr[16] = {1, 2, 3, 4};
      char buf[64];
      unsigned char out[16];
      union { struct sockaddr sa; struct sockaddr_in s4; struct sockaddr_in6 s6; } u;
      memset(&u, 0, sizeof u);
      u.sa.sa_family = (sa_family_t) af;
      if (af == AF_INET) memcpy(&u.s4.sin_addr, addr, 4);
      if (af == AF_INET6) memcpy(&u.s6.sin6_addr, addr, 16);
      printf("af %d ntop=%d pton=%d ipname=%d\n", af, uv_inet_ntop(af, addr, buf, sizeof buf),
             uv_inet_pton(af, "1", out), uv_ip_name(&u.sa, buf, sizeof buf));
    } else {
      puts("bad-op");
    }
  next:
    fflush(stdout);
  }
  return 0;
}
