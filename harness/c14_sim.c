/* C14 — whole-library harness for uv_poll / io watchers (implementation side of `uvdriver iowatch`).
 *
 * Links the real libuv.  Interposed: epoll_ctl (logged, forwarded), epoll_pwait (reads the kernel's
 * interest list from /proc/self/fdinfo/<backend fd> before the call; then either forwards with
 * timeout 0 and sorts the result by fd — "real" mode — or returns the scripted batch), syscall
 * (only to make io_uring_setup fail when the ctl ring is to be off).
 * Descriptors under test live at the numbers given in the ops (>= FD_LO); peers and dups are moved
 * to high numbers.  Lines starting with '#' are monitor-only facts (not part of the model diff).
 */
#include "uv.h"
#include "internal.h"
#include <sys/epoll.h>
#include <sys/eventfd.h>
#include <sys/socket.h>
#include <sys/syscall.h>
#include <sys/resource.h>
#include <poll.h>
#include <signal.h>
#include <dlfcn.h>
#include <stdarg.h>
#include <stdio.h>
#include <stdlib.h>
#include <string.h>
#include <errno.h>
#include <fcntl.h>
#include <unistd.h>

#define FD_LO 100
#define LOW_N 4   /* descriptor numbers 0..3 are scenario descriptors too (the harness moves its own stdio away) */
#define IN_RANGE(fd) (((fd) >= 0 && (fd) < LOW_N) || ((fd) >= FD_LO && (fd) < FD_HI))
#define FD_HI 1000
#define HIGH 2000
#define MAXOBJ 4096
#define MAXSCRIPT 4096
#define EVMASK 0x201f

struct obj {
  int poll;   /* 1 uv_poll_t, 0 raw uv__io_t, 2 stream (uv_pipe_t opened on the descriptor) */
  int fd, closing, clean, cbs;
  uv_poll_t p;
  uv__io_t io;
  uv_pipe_t pipe;
};
static struct obj objs[MAXOBJ];
static int nobj;
static struct { int open, kind, peer; } slots[FD_HI];
static int dups[MAXOBJ], ndup;
static struct { int id, occ; char* ops; } script[MAXSCRIPT];
static int nscript;

static uv_loop_t loop;
static uv_timer_t far_timer;
static int logging, no_ring, multi;
/* scripted batches of the current run: entries (fd, events), batch boundaries */
static struct epoll_event* sb_ev;
static int* sb_end;
static int sb_nb, sb_cur, sb_scripted, real_calls;

/* ------------------------------------------------------------------ interposition */
__attribute__((no_sanitize("address", "undefined")))
long syscall(long nr, ...) {
  static long (*real)(long, ...);
  va_list ap;
  long a[6];
  int i;
  if (real == NULL) real = (long (*)(long, ...)) dlsym(RTLD_NEXT, "syscall");
  va_start(ap, nr);
  for (i = 0; i < 6; i++) a[i] = va_arg(ap, long);
  va_end(ap);
  if (nr == SYS_io_uring_setup && no_ring) { errno = ENOSYS; return -1; }
  return real(nr, a[0], a[1], a[2], a[3], a[4], a[5]);
}

int epoll_ctl(int epfd, int op, int fd, struct epoll_event* e) {
  long r = syscall(SYS_epoll_ctl, epfd, op, fd, e);
  int err = errno;
  if (logging && epfd == loop.backend_fd && IN_RANGE(fd)) {
    const char* n = op == EPOLL_CTL_ADD ? "ADD" : op == EPOLL_CTL_MOD ? "MOD" : "DEL";
    unsigned m = (op == EPOLL_CTL_DEL || e == NULL) ? 0 : e->events;
    printf("env epoll_ctl %s %d %u -> %d\n", n, fd, m, r == 0 ? 0 : -err);
  }
  errno = err;
  return (int) r;
}

static int cmp_pair(const void* a, const void* b) {
  const long* x = a; const long* y = b;
  if (x[0] != y[0]) return x[0] < y[0] ? -1 : 1;
  if (x[1] != y[1]) return x[1] < y[1] ? -1 : 1;
  return 0;
}

static int cmp_ev(const void* a, const void* b) {
  const struct epoll_event* x = a; const struct epoll_event* y = b;
  if (x->data.fd != y->data.fd) return x->data.fd < y->data.fd ? -1 : 1;
  if (x->events != y->events) return x->events < y->events ? -1 : 1;
  return 0;
}

static void print_interest(int epfd, int block) {
  static long ent[4096][2];
  char path[64], line[256];
  int n = 0, i;
  FILE* f;
  snprintf(path, sizeof path, "/proc/self/fdinfo/%d", epfd);
  f = fopen(path, "r");
  if (f != NULL) {
    while (fgets(line, sizeof line, f)) {
      int tfd; unsigned ev; unsigned long long data = 0;
      if (sscanf(line, "tfd: %d events: %x data: %llx", &tfd, &ev, &data) >= 2 && IN_RANGE(tfd) && n < 4096) {
        /* libuv stores the descriptor number in epoll_event.data (memset 0 + data.fd = fd) */
        if (data != (unsigned long long) tfd) printf("#baddata %d %llx\n", tfd, data);
        ent[n][0] = tfd; ent[n][1] = ev & ~(unsigned) (EPOLLERR | EPOLLHUP); n++;
      }
    }
    fclose(f);
  }
  qsort(ent, n, sizeof ent[0], cmp_pair);
  if (block < 0) printf("#ki");
  else printf("env pwait block=%d interest", block);
  for (i = 0; i < n; i++) printf(" %ld:%ld", ent[i][0], ent[i][1]);
  printf("\n");
}

static void print_batch(struct epoll_event* ev, int n) {
  int i, j;
  printf("env poll ->");
  for (i = 0; i < n; i = j) {
    for (j = i + 1; j < n && ev[j].data.fd == ev[i].data.fd &&
                    (ev[j].events & EVMASK) == (ev[i].events & EVMASK); j++);
    printf(" %d:%u", ev[i].data.fd, ev[i].events & EVMASK);
    if (j - i > 1) printf("*%d", j - i);
  }
  printf("\n");
}

int epoll_pwait(int epfd, struct epoll_event* ev, int maxev, int timeout, const sigset_t* ss) {
  int n, i, lo;
  if (!logging || epfd != loop.backend_fd)
    return (int) syscall(SYS_epoll_pwait, epfd, ev, maxev, 0, ss, 8);
  print_interest(epfd, timeout != 0);
  if (sb_scripted) {
    n = 0;
    if (sb_cur < sb_nb) {
      lo = sb_cur == 0 ? 0 : sb_end[sb_cur - 1];
      n = sb_end[sb_cur] - lo;
      if (n > maxev) n = maxev;
      for (i = 0; i < n; i++) ev[i] = sb_ev[lo + i];
      sb_cur++;
    }
  } else {
    /* a level-triggered stale entry would make libuv re-poll forever: after 64 calls in one
     * uv_run the kernel "reports nothing" (only reachable with the discipline switch multi=1) */
    n = ++real_calls > 64 ? 0 : (int) syscall(SYS_epoll_pwait, epfd, ev, maxev, 0, ss, 8);
    if (n < 0) n = 0;
    qsort(ev, n, sizeof ev[0], cmp_ev);
  }
  print_batch(ev, n);
  return n;
}

/* ------------------------------------------------------------------ observations */
static int id_of_io(uv__io_t* w) {
  int i;
  for (i = 0; i < nobj; i++)
    if (w == (objs[i].poll == 1 ? &objs[i].p.io_watcher : objs[i].poll == 2 ? &objs[i].pipe.io_watcher : &objs[i].io)) return i;
  return -1;
}

static uv__io_t* io_of(struct obj* o) {
  return o->poll == 1 ? &o->p.io_watcher : o->poll == 2 ? &o->pipe.io_watcher : &o->io;
}

static void obs(void) {
  struct uv__queue* q;
  int i, first = 1;
  print_interest(loop.backend_fd, -1);   /* monitor-only: the kernel's interest list after every op */
  /* monitor-only: libuv's registry loop->watchers[fd] for the scenario descriptors */
  printf("#reg");
  for (i = 0; i < (int) loop.nwatchers && i < FD_HI; i++)
    if (IN_RANGE(i) && loop.watchers[i] != NULL) printf(" %d:%d", i, id_of_io(loop.watchers[i]));
  printf("\n");
  first = 1;
  printf("obs nfds=%u nw=%u wq=", loop.nfds, loop.nwatchers);
  uv__queue_foreach(q, &loop.watcher_queue) {
    printf("%s%d", first ? "" : ",", id_of_io(uv__queue_data(q, uv__io_t, watcher_queue)));
    first = 0;
  }
  printf(" ws=");
  first = 1;
  for (i = 0; i < nobj; i++) {
    struct obj* o = &objs[i];
    if (o->closing) continue;
    printf("%s%d:%u:%u:%d", first ? "" : ",", i, io_of(o)->pevents & EVMASK, io_of(o)->events & EVMASK,
           o->poll == 1 ? uv_is_active((uv_handle_t*) &o->p) : o->poll == 2 ? uv_is_active((uv_handle_t*) &o->pipe) : 0);
    first = 0;
  }
  printf("\n");
}

/* ------------------------------------------------------------------ ops */
static void do_op(char* line);

static void run_script(int id, int occ) {
  int i;
  for (i = 0; i < nscript; i++)
    if (script[i].id == id && script[i].occ == occ) {
      char* copy = strdup(script[i].ops);
      char* p = copy;
      while (p != NULL && *p) {
        char* semi = strstr(p, " ; ");
        if (semi != NULL) *semi = 0;
        do_op(p);
        p = semi != NULL ? semi + 3 : NULL;
      }
      free(copy);
      return;
    }
}

static void really(int id, int fd) {
  struct pollfd pf;
  pf.fd = fd; pf.events = POLLIN | POLLOUT | POLLPRI | POLLRDHUP; pf.revents = 0;
  if (poll(&pf, 1, 0) < 0) pf.revents = 0;
  printf("#ready %d %d %d\n", id, fd, (int) pf.revents & 0xffff);
}

static void poll_cb(uv_poll_t* h, int status, int events) {
  struct obj* o = h->data;
  int id = (int) (o - objs);
  really(id, o->fd);
  printf("cb poll %d %d %d\n", id, status, events);
  run_script(id, o->cbs++);
}

static void io_cb(uv_loop_t* l, uv__io_t* w, unsigned int events) {
  int id = id_of_io(w);
  struct obj* o = &objs[id];
  really(id, o->fd);
  printf("cb io %d %u\n", id, events & EVMASK);
  run_script(id, o->cbs++);
}

static void close_cb(uv_handle_t* h) {
  struct obj* o = h->data;
  printf("cb close %d\n", (int) (o - objs));
}

static void far_cb(uv_timer_t* t) { }

static void alloc_cb(uv_handle_t* h, size_t sz, uv_buf_t* buf) {
  static char b[65536];
  buf->base = b; buf->len = sizeof b;
}

static void read_cb(uv_stream_t* s, ssize_t nread, const uv_buf_t* buf) {
  struct obj* o = s->data;
  int id = (int) (o - objs);
  really(id, o->fd);
  printf("cb read %d %d\n", id, nread < 0 ? (int) nread : nread > 0 ? 1 : 0);
  run_script(id, o->cbs++);
}

static int mk_high(int fd) {
  int r;
  if (fd < 0) return -1;
  r = fcntl(fd, F_DUPFD, HIGH);
  close(fd);
  return r;
}

static void place(int tmp, int at) {
  if (tmp != at) { dup2(tmp, at); close(tmp); }
}

static int open_slot(int fd, int kind) {
  int sv[2];
  if (kind == 0) {
    if (socketpair(AF_UNIX, SOCK_STREAM, 0, sv)) return -1;
    slots[fd].peer = mk_high(sv[1]);
    place(sv[0], fd);
  } else if (kind == 1 || kind == 2) {
    if (pipe(sv)) return -1;
    slots[fd].peer = mk_high(sv[kind == 1 ? 1 : 0]);
    place(sv[kind == 1 ? 0 : 1], fd);
  } else {
    int e = eventfd(0, EFD_NONBLOCK);
    if (e < 0) return -1;
    slots[fd].peer = fcntl(e, F_DUPFD, HIGH);
    place(e, fd);
  }
  /* every scenario descriptor is non-blocking from the start (libuv makes it so anyway when a handle adopts it):
   * scripted readiness without data behind it must produce EAGAIN, never a blocking read */
  fcntl(fd, F_SETFL, fcntl(fd, F_GETFL) | O_NONBLOCK);
  slots[fd].open = 1;
  slots[fd].kind = kind;
  return 0;
}

static void peer_op(int what, int fd) {
  char buf[65536];
  int peer, i;
  uint64_t one = 1;
  if (!IN_RANGE(fd) || !slots[fd].open) return;
  peer = slots[fd].peer;
  memset(buf, 'x', sizeof buf);
  switch (what) {
  case 1:  /* make readable */
    if (slots[fd].kind == 3) { if (write(peer, &one, 8) < 0) {} }
    else if (peer >= 0) { if (send(peer, "a", 1, MSG_DONTWAIT | MSG_NOSIGNAL) < 0 && write(peer, "a", 1) < 0) {} }
    break;
  case 2:  /* drain our side */
    fcntl(fd, F_SETFL, fcntl(fd, F_GETFL) | O_NONBLOCK);
    for (i = 0; i < 64 && read(fd, buf, sizeof buf) > 0; i++);
    break;
  case 3:  /* peer goes away */
    if (peer >= 0) { close(peer); slots[fd].peer = -1; }
    break;
  case 4:  /* fill our side until it would block */
    fcntl(fd, F_SETFL, fcntl(fd, F_GETFL) | O_NONBLOCK);
    if (slots[fd].kind == 3) { uint64_t big = 0xfffffffffffffffeULL; if (write(fd, &big, 8) < 0) {} }
    else for (i = 0; i < 4096 && send(fd, buf, sizeof buf, MSG_DONTWAIT | MSG_NOSIGNAL) > 0; i++);
    if (slots[fd].kind == 2) for (i = 0; i < 4096 && write(fd, buf, sizeof buf) > 0; i++);
    break;
  case 5:  /* peer reads everything */
    if (peer >= 0) {
      fcntl(peer, F_SETFL, fcntl(peer, F_GETFL) | O_NONBLOCK);
      for (i = 0; i < 4096 && read(peer, buf, sizeof buf) > 0; i++);
    }
    break;
  case 6:  /* peer half-close */
    if (peer >= 0 && slots[fd].kind == 0) shutdown(peer, SHUT_WR);
    break;
  }
}

static int fd_idle(int fd) {
  int i;
  for (i = 0; i < nobj; i++) {
    struct obj* o = &objs[i];
    if (o->fd != fd || o->closing) continue;
    if (o->clean && io_of(o)->pevents == 0) continue;
    return 0;
  }
  return 1;
}

static int fd_taken(int fd) {
  int i;
  if (multi) return 0;
  for (i = 0; i < nobj; i++)
    if (objs[i].fd == fd && !objs[i].closing) return 1;
  return 0;
}

/* a stream handle (uv_pipe_open) owns its descriptor while it lives: the program may not close/replace it */
static int fd_owned_by_stream(int fd) {
  int i;
  for (i = 0; i < nobj; i++)
    if (objs[i].poll == 2 && objs[i].fd == fd && !objs[i].closing) return 1;
  return 0;
}

static int fd_open(int fd) { return IN_RANGE(fd) && slots[fd].open; }

static struct obj* live(int id, int poll) {
  if (id < 0 || id >= nobj) return NULL;
  if (objs[id].poll != poll || objs[id].closing) return NULL;
  return &objs[id];
}

static void parse_batches(char* s) {
  /* "fd:ev[*n] ... | fd:ev ..." */
  int cap = 4096, n = 0, capb = 64;
  char* tok;
  free(sb_ev); free(sb_end);
  sb_ev = malloc(cap * sizeof *sb_ev);
  sb_end = malloc(capb * sizeof *sb_end);
  sb_nb = 0; sb_cur = 0;
  for (tok = strtok(s, " \n"); tok != NULL; tok = strtok(NULL, " \n")) {
    int fd, rep = 1, k;
    unsigned ev;
    if (strcmp(tok, "|") == 0) {
      if (sb_nb + 2 >= capb) { capb *= 2; sb_end = realloc(sb_end, capb * sizeof *sb_end); }
      sb_end[sb_nb++] = n;
      continue;
    }
    k = sscanf(tok, "%d:%u*%d", &fd, &ev, &rep);
    if (k < 2) { printf("bad-op\n"); continue; }
    if (k < 3) rep = 1;
    while (rep-- > 0) {
      if (n == cap) { cap *= 2; sb_ev = realloc(sb_ev, cap * sizeof *sb_ev); }
      memset(&sb_ev[n], 0, sizeof sb_ev[n]);
      sb_ev[n].events = ev; sb_ev[n].data.fd = fd; n++;
    }
  }
  sb_end[sb_nb++] = n;
}

static void do_op(char* line) {
  char cmd[32];
  int a = 0, b = 0, n;
  struct obj* o;
  cmd[0] = 0;
  n = sscanf(line, "%31s %d %d", cmd, &a, &b);
  if (n < 1) return;
  if (strcmp(cmd, "run") == 0) {
    char* p = strstr(line, "run") + 3;
    while (*p == ' ') p++;
    sb_scripted = *p == 'S';
    if (sb_scripted) { char* c = strdup(p + 1); parse_batches(c); free(c); }
    printf("op run\n");
    real_calls = 0;
    uv_run(&loop, UV_RUN_ONCE);
    sb_scripted = 0;
    obs();
    return;
  }
  /* echo */
  if (n == 1) printf("op %s\n", cmd);
  else if (n == 2) printf("op %s %d\n", cmd, a);
  else printf("op %s %d %d\n", cmd, a, b);

  if (strcmp(cmd, "openfd") == 0 && n == 3) {
    if (!IN_RANGE(a) || slots[a].open || open_slot(a, b)) printf("refused\n");
    else printf("ret 0\n");
  } else if (strcmp(cmd, "closefd") == 0 && n == 2) {
    if (fd_open(a) && (fd_idle(a) || multi) && !fd_owned_by_stream(a)) {
      close(a);
      if (slots[a].peer >= 0) close(slots[a].peer);
      slots[a].open = 0; slots[a].peer = -1;
      printf("ret 0\n");
    } else printf("refused\n");
  } else if (strcmp(cmd, "dupfd") == 0 && n == 2) {
    if (fd_open(a) && ndup < MAXOBJ) { dups[ndup] = fcntl(a, F_DUPFD, HIGH); printf("new %d\n", ndup++); }
    else printf("refused\n");
  } else if (strcmp(cmd, "closedup") == 0 && n == 2) {
    if (a >= 0 && a < ndup && dups[a] >= 0) { close(dups[a]); dups[a] = -1; printf("ret 0\n"); }
    else printf("refused\n");
  } else if (strcmp(cmd, "peer") == 0 && n == 3) {
    peer_op(a, b);
  } else if (strcmp(cmd, "pinit") == 0 && n == 2) {
    int r;
    /* a registered watcher: let uv_poll_init itself refuse (UV_EEXIST); the discipline guard only
     * covers the case libuv would accept */
    if (fd_taken(a) && !uv__fd_exists(&loop, a)) { printf("refused\n"); obs(); return; }
    o = &objs[nobj];
    memset(o, 0, sizeof *o);
    r = nobj < MAXOBJ - 1 ? uv_poll_init(&loop, &o->p, a) : UV_ENOMEM;
    if (r == 0) {
      o->poll = 1; o->fd = a; o->clean = 1; o->p.data = o;
      printf("new %d\n", nobj++);
    } else printf("ret %d\n", r);
  } else if (strcmp(cmd, "pstart") == 0 && n == 3) {
    if ((o = live(a, 1)) != NULL && fd_open(o->fd)) {
      int r = uv_poll_start(&o->p, b & 15, poll_cb);
      if (r == 0) o->clean = (b & 15) == 0;
      printf("ret %d\n", r);
    } else printf("refused\n");
  } else if (strcmp(cmd, "pstop") == 0 && n == 2) {
    if ((o = live(a, 1)) != NULL) { int r = uv_poll_stop(&o->p); o->clean = 1; printf("ret %d\n", r); }
    else printf("refused\n");
  } else if (strcmp(cmd, "pclose") == 0 && n == 2) {
    if ((o = live(a, 1)) != NULL) { uv_close((uv_handle_t*) &o->p, close_cb); o->closing = 1; printf("ret 0\n"); }
    else printf("refused\n");
  } else if (strcmp(cmd, "ioinit") == 0 && n == 2) {
    if (nobj < MAXOBJ - 1 && !fd_taken(a)) {
      o = &objs[nobj];
      memset(o, 0, sizeof *o);
      o->poll = 0; o->fd = a; o->clean = 1;
      uv__io_init(&o->io, io_cb, a);
      printf("new %d\n", nobj++);
    } else printf("refused\n");
  } else if (strcmp(cmd, "iostart") == 0 && n == 3) {
    unsigned m = b & EVMASK;
    if ((o = live(a, 0)) != NULL && m != 0 && !(m & (POLLERR | POLLHUP)) && fd_open(o->fd) &&
        !(uv__fd_exists(&loop, o->fd) && loop.watchers[o->fd] != &o->io)) {
      uv__io_start(&loop, &o->io, m);
      o->clean = 0;
      printf("ret 0\n");
    } else printf("refused\n");
  } else if (strcmp(cmd, "iostop") == 0 && n == 3) {
    unsigned m = b & EVMASK;
    if ((o = live(a, 0)) != NULL && m != 0 && !(m & (POLLERR | POLLHUP))) {
      uv__io_stop(&loop, &o->io, m);
      printf("ret 0\n");
    } else printf("refused\n");
  } else if (strcmp(cmd, "ioclose") == 0 && n == 2) {
    if ((o = live(a, 0)) != NULL) { uv__io_close(&loop, &o->io); o->closing = 1; printf("ret 0\n"); }
    else printf("refused\n");
  } else if (strcmp(cmd, "iofeed") == 0 && n == 2) {
    if ((o = live(a, 0)) != NULL) { uv__io_feed(&loop, &o->io); printf("ret 0\n"); }
    else printf("refused\n");
  } else if (strcmp(cmd, "sinit") == 0 && n == 2) {
    /* a stream-type handle: uv_pipe_t opened on the descriptor */
    if (nobj < MAXOBJ - 1 && fd_open(a) && !(fd_taken(a) && !uv__fd_exists(&loop, a))) {
      int r;
      o = &objs[nobj];
      memset(o, 0, sizeof *o);
      uv_pipe_init(&loop, &o->pipe, 0);
      r = uv_pipe_open(&o->pipe, a);
      if (r == 0) {
        o->poll = 2; o->fd = a; o->clean = 1; o->pipe.data = o;
        printf("new %d\n", nobj++);
      } else {
        uv_close((uv_handle_t*) &o->pipe, NULL);
        /* the slot's memory must outlive the close: skip it */
        o->poll = 2; o->fd = -1; o->closing = 1;
        nobj++;
        printf("ret %d\n", r);
      }
    } else printf("refused\n");
  } else if (strcmp(cmd, "sstart") == 0 && n == 2) {
    if ((o = live(a, 2)) != NULL && fd_open(o->fd)) {
      int r = uv_read_start((uv_stream_t*) &o->pipe, alloc_cb, read_cb);
      if (r == 0) o->clean = 0;
      printf("ret %d\n", r);
    } else printf("refused\n");
  } else if (strcmp(cmd, "sstop") == 0 && n == 2) {
    if ((o = live(a, 2)) != NULL) printf("ret %d\n", uv_read_stop((uv_stream_t*) &o->pipe));
    else printf("refused\n");
  } else if (strcmp(cmd, "sclose") == 0 && n == 2) {
    if ((o = live(a, 2)) != NULL) {
      uv_close((uv_handle_t*) &o->pipe, close_cb);
      o->closing = 1;
      if (o->fd > 2 && slots[o->fd].open) {   /* uv__stream_close closed the descriptor itself */
        if (slots[o->fd].peer >= 0) close(slots[o->fd].peer);
        slots[o->fd].open = 0; slots[o->fd].peer = -1;
      }
      printf("ret 0\n");
    } else printf("refused\n");
  } else {
    printf("bad-op\n");
    return;
  }
  obs();
}

int main(void) {
  static char line[1 << 20];
  struct rlimit rl;
  int ring = 1, started = 0, i, nul;
  /* free descriptor numbers 0..3 for the scenario: protocol I/O moves to high descriptors; the numbers
   * stay occupied by /dev/null until libuv has created its own descriptors */
  stdin = fdopen(fcntl(0, F_DUPFD, 1900), "r");
  stdout = fdopen(fcntl(1, F_DUPFD, 1900), "w");
  stderr = fdopen(fcntl(2, F_DUPFD, 1900), "w");
  nul = open("/dev/null", O_RDWR);
  for (i = 0; i < LOW_N; i++) if (nul != i) dup2(nul, i);
  if (nul >= LOW_N) close(nul);
  setvbuf(stdout, NULL, _IOFBF, 1 << 16);
  signal(SIGPIPE, SIG_IGN);
  if (getrlimit(RLIMIT_NOFILE, &rl) == 0) { rl.rlim_cur = rl.rlim_max < 65536 ? rl.rlim_max : 65536; setrlimit(RLIMIT_NOFILE, &rl); }
  while (fgets(line, sizeof line, stdin)) {
    size_t len = strlen(line);
    while (len > 0 && (line[len - 1] == '\n' || line[len - 1] == ' ')) line[--len] = 0;
    if (len == 0) continue;
    if (strncmp(line, "cfg", 3) == 0 && !started) {
      char* p = strstr(line, "ring=");
      if (p != NULL) ring = atoi(p + 5);
      no_ring = !ring;
      p = strstr(line, "multi=");
      if (p != NULL) multi = atoi(p + 6);
      if (uv_loop_init(&loop)) { printf("#loop-init-failed\n"); return 3; }
      uv_timer_init(&loop, &far_timer);
      uv_timer_start(&far_timer, far_cb, 1000000000, 0);
      uv_run(&loop, UV_RUN_NOWAIT);   /* registers libuv's own wakeup watcher */
      for (i = 0; i < LOW_N; i++) close(i);
      started = 1;
      logging = 1;
      printf("cfg ring=%d internal=%u nw=%u multi=%d\n", ((uv__loop_internal_fields_t*) loop.internal_fields)->ctl.ringfd != -1,
             loop.nfds, loop.nwatchers, multi);
      continue;
    }
    if (!started) { printf("bad-op\n"); continue; }
    if (strncmp(line, "on ", 3) == 0) {
      int id, occ, off = 0;
      if (sscanf(line, "on %d %d %n", &id, &occ, &off) >= 2 && off > 0 && nscript < MAXSCRIPT) {
        script[nscript].id = id; script[nscript].occ = occ; script[nscript].ops = strdup(line + off);
        nscript++;
      } else printf("bad-op\n");
      continue;
    }
    do_op(line);
    fflush(stdout);
  }
  fflush(stdout);
  _exit(0);
}
