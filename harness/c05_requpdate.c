/* C05 unit harness: uv__write_req_update (static in src/unix/stream.c) alone.
 * Line protocol of `uvdriver c05upd`:  upd <n> <bufs> <widx>
 * The uv_buf_t array is heap-allocated with exactly nbufs entries so ASan sees any step past it.
 * Lines starting with '#' are monitor verdicts computed here, independent of the model. */
#include "unix/stream.c"

static unsigned* parse_bufs(const char* s, unsigned* n) {
  unsigned cap_ = 16, cnt = 0; unsigned* out = malloc(cap_ * sizeof(*out));
  while (*s) {
    char* e; unsigned long a = strtoul(s, &e, 10), k = 1;
    if (e == s) { free(out); return NULL; }
    if (*e == 'x') { s = e + 1; k = strtoul(s, &e, 10); if (e == s) { free(out); return NULL; } }
    while (cnt + k > cap_) { cap_ *= 2; out = realloc(out, cap_ * sizeof(*out)); }
    for (unsigned long i = 0; i < k; i++) out[cnt++] = (unsigned) a;
    if (*e == ',') e++; else if (*e) { free(out); return NULL; }
    s = e;
  }
  *n = cnt; return out;
}

int main(void) {
  static char line[1 << 16];
  while (fgets(line, sizeof(line), stdin)) {
    unsigned long n; unsigned widx, nb; char bs[60000];
    if (sscanf(line, "upd %lu %59999s %u", &n, bs, &widx) != 3) { if (line[0] != '\n') printf("bad-op\n"); continue; }
    unsigned* lens = parse_bufs(bs, &nb);
    if (!lens || nb == 0 || widx >= nb) { printf("bad-op\n"); free(lens); continue; }
    size_t total = 0, rest = 0, off = 0;
    for (unsigned i = 0; i < nb; i++) { total += lens[i]; if (i >= widx) rest += lens[i]; }
    if (n > rest) { printf("bad-op\n"); free(lens); continue; }     /* precondition: n <= write_queue_size */
    char* data = malloc(total ? total : 1);
    uv_buf_t* bufs = malloc(nb * sizeof(*bufs));
    char** base0 = malloc(nb * sizeof(*base0));
    for (unsigned i = 0; i < nb; i++) { bufs[i] = uv_buf_init(data + off, lens[i]); base0[i] = data + off; off += lens[i]; }
    uv_stream_t st; uv_write_t req;
    memset(&st, 0, sizeof(st)); memset(&req, 0, sizeof(req));
    st.write_queue_size = rest + 5;            /* other requests' bytes must stay untouched */
    req.handle = &st; req.bufs = bufs; req.nbufs = nb; req.write_index = widx;
    int done = uv__write_req_update(&st, &req, n);
    printf("upd idx=%u done=%d lens=", req.write_index, done);
    size_t after = 0; int bad = 0;
    for (unsigned i = 0; i < nb; i++) {
      printf("%s%zu", i ? "," : "", bufs[i].len);
      if (i >= widx) after += bufs[i].len;
      if (bufs[i].base + bufs[i].len != base0[i] + lens[i]) bad = 1;        /* base advanced by what was consumed */
      if (i < req.write_index && i >= widx && bufs[i].len != 0) bad = 1;    /* skipped buffers are empty */
    }
    printf("\n");
    if (st.write_queue_size != rest + 5 - n) bad = 1;
    if (after != rest - n) bad = 1;
    if (req.write_index > nb || (done != (req.write_index == nb))) bad = 1;
    printf("#%s\n", bad ? "bad" : "ok");
    free(lens); free(data); free(bufs); free(base0);
  }
  return 0;
}
