/* C07 whole-library simulator: real TCP (v4/v6 loopback, port 0) and Unix-socket servers, raw and
 * uv clients, accept immediately / deferred / never, accept4 interposed (scripted errno at the next
 * calls), connects that must fail, an in-process IPC pipe pair passing handles, and the
 * uv_write2/uv_try_write2 refusal table.  One scenario per process; program on stdin:
 *   server <sid> t4|t6|un imm|defer|never     raw <cid> <sid>     uvc <cid> <sid>     run <n>
 *   inject <errno>...      accept <sid> [busy]     drain <sid>     closesrv <sid>     closecli <cid>
 *   ipcbig <kinds> <payload> <caps..>   (uv_write2 with handle + payload; the k-th syscall on the sending fd accepts at most caps[k] bytes, -11 = EAGAIN, 0 = unlimited)
 *   server .. <backlog>   (optional 5th word)     cscript <codes..>   (results of the connect(2) calls of the NEXT uvc: 1 = real call, -4 = EINTR then retry, other -errno = fail without reaching the kernel)
 *   retry <rid> tcp|pipe <sid> f|g <script>   (connect to a Failing target / the Good server; the k-th callback on the handle performs script[k]:
 *        f/g = re-submit a connect on the SAME handle, w = uv_write, W = uv_write + re-submit g, s = uv_shutdown, c = uv_close, - = nothing)
 *   uvcb <cid> <sid> inuse|free|twice   (tcp client handle with a prior state: uv_tcp_bind to a port in use (EADDRINUSE deferred) / to a free port / a second uv_tcp_connect while the first is pending)
 *   ipchup <kinds> <policy> <bufsz> <paylen> <when> <how>   (IPC pipe whose sender hangs up with messages unread; see do_ipchup)
 *   badconnect <cid> tcp|pipe|long|longnt [close]     dblconnect <cid> <cid>     ipc <kinds> <late|imm|N>     wcheck     end
 * Output: one line per API result / callback / observation (see checks/c07_sim.py). */
#include <uv.h>
#include <stdio.h>
#include <stdlib.h>
#include <string.h>
#include <errno.h>
#include <unistd.h>
#include <signal.h>
#include <fcntl.h>
#include <sys/socket.h>
#include <sys/stat.h>
#include <sys/syscall.h>
#include <sys/un.h>
#include <sys/uio.h>
#include <netinet/in.h>
#include <arpa/inet.h>
#include "uv-common.h"
#include "unix/internal.h"

#define MAXN 128
static uv_loop_t* loop;
static int inject[64], ninject, iinject, fired;

int accept4(int s, struct sockaddr* a, socklen_t* l, int flags) {
  if (iinject < ninject) {
    int e = inject[iinject++];
    if (e != 0) { fired++; printf("accept4 injected %d\n", -e); errno = e; return -1; }
  }
  return syscall(SYS_accept4, s, a, l, flags);
}

/* ---- syscalls on the sending end of the IPC pipe: scripted short transfers, one log line each */
static int tx_fd = -1, caps[256], ncaps, icaps;
static int tx_head_req(void);
static int tx_handle_of(const struct msghdr* m);
static ssize_t tx_do(const char* what, const struct msghdr* m, const struct iovec* iov, int iovcnt) {
  size_t asked = 0; ssize_t r; int i, cap = 0, hidx = m ? tx_handle_of(m) : -1, req = tx_head_req();
  struct iovec v[64]; struct msghdr mm;
  for (i = 0; i < iovcnt; i++) asked += iov[i].iov_len;
  if (icaps < ncaps) cap = caps[icaps++];
  if (cap < 0) { errno = -cap; r = -1; }
  else {
    size_t left = cap > 0 ? (size_t) cap : asked; int k = 0;
    for (i = 0; i < iovcnt && i < 64 && left > 0; i++) { v[k] = iov[i]; if (v[k].iov_len > left) v[k].iov_len = left; left -= v[k].iov_len; k++; }
    if (k == 0) { v[0].iov_base = (void*) ""; v[0].iov_len = 0; k = 1; }
    if (m) { mm = *m; mm.msg_iov = v; mm.msg_iovlen = k; r = syscall(SYS_sendmsg, tx_fd, &mm, MSG_NOSIGNAL); }
    else r = syscall(SYS_writev, tx_fd, v, k);
  }
  printf("tx %s req=%d handle=", what, req);
  if (hidx >= 0) printf("%d", hidx); else printf("-");
  printf(" asked=%zu ret=%zd\n", asked, r < 0 ? (ssize_t) -errno : r);
  return r;
}
ssize_t sendmsg(int fd, const struct msghdr* m, int flags) {
  if (fd == tx_fd) return tx_do("sendmsg", m, m->msg_iov, (int) m->msg_iovlen);
  return syscall(SYS_sendmsg, fd, m, flags);
}
ssize_t writev(int fd, const struct iovec* iov, int n) {
  if (fd == tx_fd) return tx_do("writev", NULL, iov, n);
  return syscall(SYS_writev, fd, iov, n);
}
ssize_t write(int fd, const void* b, size_t n) {
  if (fd == tx_fd) { struct iovec v; v.iov_base = (void*) b; v.iov_len = n; return tx_do("writev", NULL, &v, 1); }
  return syscall(SYS_write, fd, b, n);
}

/* ---- connect(2) of uv clients: scripted results; SO_ERROR queries logged */
static int cur_cid = -1, cscript[32], ncscript, icscript;
static int cid_of_fd(int fd);
int connect(int fd, const struct sockaddr* a, socklen_t l) {
  int r, code = 1;
  if (cur_cid < 0) return syscall(SYS_connect, fd, a, l);
  if (icscript < ncscript) code = cscript[icscript++];
  if (code < 0) { errno = -code; r = -1; }
  else r = syscall(SYS_connect, fd, a, l);
  printf("sys connect cid=%d ret=%d%s\n", cur_cid, r == 0 ? 0 : -errno, code < 0 ? " scripted" : "");
  return r;
}
int getsockopt(int fd, int level, int name, void* val, socklen_t* len) {
  int r = syscall(SYS_getsockopt, fd, level, name, val, len);
  if (level == SOL_SOCKET && name == SO_ERROR && r == 0 && cid_of_fd(fd) >= 0)
    printf("sys soerror cid=%d val=%d\n", cid_of_fd(fd), -*(int*) val);
  return r;
}

typedef struct { uv_stream_t* h; int kind; int mode; int alive; int announced, claimed; char path[64]; int port; } server_t;
typedef struct { int used; int raw; int fd; uv_stream_t* h; uv_connect_t req; int sid; int cbs; int status; int ret; int closed; } client_t;
typedef struct { uv_stream_t* h; int sid; int seq; } acc_t;
static server_t srv[MAXN]; static client_t cli[MAXN]; static acc_t accd[512]; static int naccd;

static int rid_of_fd(int fd);
static int cid_of_fd(int fd) { int i; for (i = 0; i < MAXN; i++) if (cli[i].used && !cli[i].raw && !cli[i].closed && cli[i].h && cli[i].h->io_watcher.fd == fd) return i; return rid_of_fd(fd); }
static int port_of(uv_handle_t* h, int peer) {
  struct sockaddr_storage ss; socklen_t l = sizeof ss; int fd = -1;
  if (uv_fileno(h, &fd) || (peer ? getpeername(fd, (struct sockaddr*) &ss, &l) : getsockname(fd, (struct sockaddr*) &ss, &l))) return -1;
  if (ss.ss_family == AF_INET) return ntohs(((struct sockaddr_in*) &ss)->sin_port);
  if (ss.ss_family == AF_INET6) return ntohs(((struct sockaddr_in6*) &ss)->sin6_port);
  return -1;
}
static void free_cb(uv_handle_t* h) { free(h); }
static uv_stream_t* new_stream(int kind) {      /* 0 t4, 1 t6, 2 unix */
  if (kind == 2) { uv_pipe_t* p = malloc(sizeof *p); uv_pipe_init(loop, p, 0); return (uv_stream_t*) p; }
  uv_tcp_t* t = malloc(sizeof *t); uv_tcp_init(loop, t); return (uv_stream_t*) t;
}

static int do_accept(int sid, int busy) {
  server_t* s = &srv[sid];
  uv_stream_t* c;
  int r;
  if (!s->alive) { printf("skip accept %d (server closed)\n", sid); return UV_EAGAIN; }   /* handle memory may be gone */
  c = new_stream(s->kind);
  if (busy) { c->io_watcher.fd = 900; }
  r = uv_accept(s->h, c);
  if (busy) c->io_watcher.fd = -1;
  printf("accept %d r=%d", sid, r);
  if (r == 0) { s->claimed++; accd[naccd].h = c; accd[naccd].sid = sid; accd[naccd].seq = naccd; printf(" seq=%d", naccd); naccd++; }
  else uv_close((uv_handle_t*) c, free_cb);
  printf(" pollin=%d\n", s->alive ? !!uv__io_active(&s->h->io_watcher, POLLIN) : 0);
  return r;
}

static void conn_cb(uv_stream_t* h, int status) {
  int sid = (int)(long) h->data;
  srv[sid].announced++;
  printf("conncb %d status=%d\n", sid, status);
  if (srv[sid].mode == 0) do_accept(sid, 0);
}

static void connect_cb(uv_connect_t* req, int status) {
  int cid = (int)(long) req->data;
  cli[cid].cbs++; cli[cid].status = status;
  { struct sockaddr_storage ss; socklen_t l = sizeof ss; int fd = -1, peer = 0;
    if (!cli[cid].closed && uv_fileno((uv_handle_t*) cli[cid].h, &fd) == 0) peer = getpeername(fd, (struct sockaddr*) &ss, &l) == 0;
    printf("concb %d status=%d peer=%d lport=%d\n", cid, status, peer, cli[cid].closed ? -1 : port_of((uv_handle_t*) cli[cid].h, 0)); }
  if (status == 0 && !cli[cid].closed) {
    char b = (char) cid; uv_buf_t buf = uv_buf_init(&b, 1);
    int r = uv_try_write(cli[cid].h, &buf, 1);
    if (r != 1) printf("token-write %d r=%d\n", cid, r);
  }
}

static void srv_addr(int sid, struct sockaddr_storage* ss, socklen_t* len) {
  server_t* s = &srv[sid];
  memset(ss, 0, sizeof *ss);
  if (s->kind == 0) { uv_ip4_addr("127.0.0.1", s->port, (struct sockaddr_in*) ss); *len = sizeof(struct sockaddr_in); }
  else if (s->kind == 1) { uv_ip6_addr("::1", s->port, (struct sockaddr_in6*) ss); *len = sizeof(struct sockaddr_in6); }
  else { struct sockaddr_un* u = (struct sockaddr_un*) ss; u->sun_family = AF_UNIX; strcpy(u->sun_path, s->path); *len = sizeof *u; }
}

/* ---- connect callbacks that act on the same handle: re-submit, write, shutdown, close */
typedef struct { int used, kind, sid, natt, ncb, closed, nw, wcbs, nsh, shcbs; uv_stream_t* h; char script[24];
                 uv_connect_t req[10]; int ret[10], cbs[10], status[10]; char target[10]; uv_write_t wr[10]; uv_shutdown_t sh; } retry_t;
static retry_t rt[16];
static void retry_cb(uv_connect_t* req, int status);
static void retry_submit(int rid, char target) {
  retry_t* t = &rt[rid]; int a = t->natt, r; struct sockaddr_storage ss; socklen_t len;
  if (a >= 10) return;
  t->natt++; t->target[a] = target; t->req[a].data = (void*)(long) (rid * 16 + a);
  cur_cid = 300 + rid;
  if (t->kind == 0) {
    if (target == 'g') srv_addr(t->sid, &ss, &len);
    else { struct sockaddr_in* a4 = (struct sockaddr_in*) &ss; socklen_t l = sizeof *a4; int s = socket(AF_INET, SOCK_STREAM, 0);
           memset(&ss, 0, sizeof ss); uv_ip4_addr("127.0.0.1", 0, a4); bind(s, (struct sockaddr*) a4, sizeof *a4); getsockname(s, (struct sockaddr*) a4, &l); close(s); }
    r = uv_tcp_connect(&t->req[a], (uv_tcp_t*) t->h, (struct sockaddr*) &ss, retry_cb);
  } else {
    char path[96];
    if (target == 'g') snprintf(path, sizeof path, "%s", srv[t->sid].path); else snprintf(path, sizeof path, "/var/tmp/c07sim-%d-missing.sock", (int) getpid());
    r = uv_pipe_connect2(&t->req[a], (uv_pipe_t*) t->h, path, strlen(path), 0, retry_cb);
  }
  cur_cid = -1;
  t->ret[a] = r;
  printf("resub %d att=%d target=%c r=%d\n", rid, a, target, r);
}
static void retry_wcb(uv_write_t* w, int status) { int rid = (int)(long) w->data; rt[rid].wcbs++; printf("rwcb %d status=%d\n", rid, status); }
static void retry_shcb(uv_shutdown_t* q, int status) { int rid = (int)(long) q->data; rt[rid].shcbs++; printf("rshcb %d status=%d\n", rid, status); }
static void retry_cb(uv_connect_t* req, int status) {
  int rid = (int)(long) req->data / 16, a = (int)(long) req->data % 16; retry_t* t = &rt[rid]; char act;
  struct sockaddr_storage ss; socklen_t l = sizeof ss; int fd = -1, peer = 0;
  t->cbs[a]++; t->status[a] = status;
  if (!t->closed && uv_fileno((uv_handle_t*) t->h, &fd) == 0) peer = getpeername(fd, (struct sockaddr*) &ss, &l) == 0;
  printf("rcb %d att=%d status=%d peer=%d\n", rid, a, status, peer);
  act = t->ncb < (int) strlen(t->script) ? t->script[t->ncb] : '-'; t->ncb++;
  if (t->closed) { printf("rcbend %d\n", rid); return; }
  if (status == 0) { char b = (char) (200 + rid); uv_buf_t buf = uv_buf_init(&b, 1); int r = uv_try_write(t->h, &buf, 1); if (r != 1) printf("token-write %d r=%d\n", 200 + rid, r); }
  if ((act == 'w' || act == 'W') && status < 0 && t->nw < 10) {
    static char x = 'x'; uv_buf_t buf = uv_buf_init(&x, 1); int r;
    t->wr[t->nw].data = (void*)(long) rid; r = uv_write(&t->wr[t->nw], t->h, &buf, 1, retry_wcb);
    printf("rwrite %d r=%d\n", rid, r); if (r == 0) t->nw++;
  }
  if (act == 's' && t->nsh == 0) { int r; t->sh.data = (void*)(long) rid; r = uv_shutdown(&t->sh, t->h, retry_shcb); printf("rshut %d r=%d\n", rid, r); if (r == 0) t->nsh++; }
  if (act == 'c') { uv_close((uv_handle_t*) t->h, free_cb); t->closed = 1; printf("rclose %d\n", rid); }
  if (status < 0 && (act == 'f' || act == 'g' || act == 'W')) {     /* re-submit on the same handle, again if refused synchronously */
    int tries = 0, a;
    do { a = t->natt; retry_submit(rid, act == 'W' ? 'g' : act); } while (a < 10 && t->ret[a] != 0 && ++tries < 3);
  }
  printf("rcbend %d\n", rid);
}

static int rid_of_fd(int fd) { int i; for (i = 0; i < 16; i++) if (rt[i].used && !rt[i].closed && rt[i].h->io_watcher.fd == fd) return 300 + i; return -1; }
static const char* peer_state(int fd) {
  char b[8]; ssize_t n = recv(fd, b, sizeof b, MSG_DONTWAIT | MSG_PEEK);
  if (n == 0) return "closed";
  if (n < 0 && (errno == EAGAIN || errno == EWOULDBLOCK)) return "open";
  if (n < 0) return "closed";
  return "data";
}

/* ------------------------------------------------------------------ IPC */
static uv_pipe_t ipc_tx, ipc_rx;
static uv_handle_t* sent[64]; static ino_t sent_ino[64]; static char sent_kind[64]; static int nsent, nwcb;
static int ipc_policy, nreads, ngot;
static uv_write_t wreqs[64];
static ino_t fd_ino(int fd) { struct stat st; if (fstat(fd, &st)) return 0; return st.st_ino; }
static const char* tyname(uv_handle_type t) { return t == UV_TCP ? "t" : t == UV_NAMED_PIPE ? "p" : t == UV_UDP ? "u" : "-"; }

static void ipc_take(void) {
  uv_handle_type t = uv_pipe_pending_type(&ipc_rx);
  int pc = uv_pipe_pending_count(&ipc_rx), r, fd = -1, i, who = -1, usable = 0;
  uv_handle_t* h;
  if (t == UV_TCP) { uv_tcp_t* x = malloc(sizeof *x); uv_tcp_init(loop, x); h = (uv_handle_t*) x; }
  else if (t == UV_UDP) { uv_udp_t* x = malloc(sizeof *x); uv_udp_init(loop, x); h = (uv_handle_t*) x; }
  else { uv_pipe_t* x = malloc(sizeof *x); uv_pipe_init(loop, x, 0); h = (uv_handle_t*) x; }
  r = uv_accept((uv_stream_t*) &ipc_rx, (uv_stream_t*) h);
  if (r == 0) {
    ino_t ino; int ty; socklen_t l = sizeof ty;
    uv_fileno(h, &fd); ino = fd_ino(fd);
    for (i = 0; i < nsent; i++) if (sent_ino[i] == ino) who = i;
    usable = getsockopt(fd, SOL_SOCKET, SO_TYPE, &ty, &l) == 0;
  }
  printf("ipcgot n=%d pc=%d type=%s r=%d from=%d usable=%d\n", ngot, pc, tyname(t), r, who, usable);
  if (r == 0) ngot++;
  uv_close(h, free_cb);
}
static void ipc_alloc(uv_handle_t* h, size_t n, uv_buf_t* b) { static char buf[4]; *b = uv_buf_init(buf, 1); }   /* 1-byte reads: one message each */
static void ipc_read(uv_stream_t* s, ssize_t n, const uv_buf_t* b) {
  if (n <= 0) { if (n < 0) printf("ipcread err=%d\n", (int) n); return; }
  nreads++;
  printf("ipcread n=%d pc=%d type=%s\n", nreads, uv_pipe_pending_count(&ipc_rx), tyname(uv_pipe_pending_type(&ipc_rx)));
  if (ipc_policy == 0) { while (uv_pipe_pending_count(&ipc_rx) > 0) ipc_take(); }
  else if (ipc_policy > 0 && nreads % ipc_policy == 0) ipc_take();
}
static void ipc_wcb(uv_write_t* r, int status) { nwcb++; if (status) printf("ipcwcb status=%d\n", status); }

static void do_ipc(const char* kinds, const char* pol) {
  int sv[2], i; char payload[64];
  socketpair(AF_UNIX, SOCK_STREAM, 0, sv);
  uv_pipe_init(loop, &ipc_tx, 1); uv_pipe_open(&ipc_tx, sv[0]);
  uv_pipe_init(loop, &ipc_rx, 1); uv_pipe_open(&ipc_rx, sv[1]);
  ipc_policy = !strcmp(pol, "late") ? -1 : !strcmp(pol, "imm") ? 0 : atoi(pol);
  for (i = 0; kinds[i] && i < 64; i++) {
    struct sockaddr_in a; uv_handle_t* h; int fd = -1; uv_buf_t buf; int r;
    uv_ip4_addr("127.0.0.1", 0, &a);
    if (kinds[i] == 't') { uv_tcp_t* x = malloc(sizeof *x); uv_tcp_init(loop, x); uv_tcp_bind(x, (struct sockaddr*) &a, 0); uv_listen((uv_stream_t*) x, 4, conn_cb); x->data = (void*) 127L; h = (uv_handle_t*) x; }
    else if (kinds[i] == 'u') { uv_udp_t* x = malloc(sizeof *x); uv_udp_init(loop, x); uv_udp_bind(x, (struct sockaddr*) &a, 0); h = (uv_handle_t*) x; }
    else { int p[2]; uv_pipe_t* x = malloc(sizeof *x); socketpair(AF_UNIX, SOCK_STREAM, 0, p); uv_pipe_init(loop, x, 0); uv_pipe_open(x, p[0]); close(p[1]); h = (uv_handle_t*) x; }
    uv_fileno(h, &fd); sent[nsent] = h; sent_ino[nsent] = fd_ino(fd); sent_kind[nsent] = kinds[i]; nsent++;
    payload[i] = 'a' + i % 26; buf = uv_buf_init(&payload[i], 1);
    r = uv_write2(&wreqs[i], (uv_stream_t*) &ipc_tx, &buf, 1, (uv_stream_t*) h, ipc_wcb);
    printf("ipcsend %d kind=%c r=%d\n", i, kinds[i], r);
  }
  for (i = 0; i < 4; i++) uv_run(loop, UV_RUN_NOWAIT);      /* everything is in flight before the receiver starts */
  printf("ipcinflight wcbs=%d\n", nwcb);
  uv_read_start((uv_stream_t*) &ipc_rx, ipc_alloc, ipc_read);
  for (i = 0; i < 8 + nsent; i++) uv_run(loop, UV_RUN_NOWAIT);
  printf("ipcafterread reads=%d pc=%d\n", nreads, uv_pipe_pending_count(&ipc_rx));
  while (uv_pipe_pending_count(&ipc_rx) > 0) ipc_take();
  { uv_pipe_t* x = malloc(sizeof *x); int r; uv_pipe_init(loop, x, 0); r = uv_accept((uv_stream_t*) &ipc_rx, (uv_stream_t*) x); printf("ipcempty r=%d pc=%d type=%s\n", r, uv_pipe_pending_count(&ipc_rx), tyname(uv_pipe_pending_type(&ipc_rx))); uv_close((uv_handle_t*) x, free_cb); }
  for (i = 0; i < nsent; i++) uv_close(sent[i], free_cb);
  uv_close((uv_handle_t*) &ipc_tx, NULL); uv_close((uv_handle_t*) &ipc_rx, NULL);
  for (i = 0; i < 4; i++) uv_run(loop, UV_RUN_NOWAIT);
  printf("ipcdone sent=%d got=%d wcbs=%d\n", nsent, ngot, nwcb);
}

/* ---- IPC pipe whose sending side goes away while messages are still unread.
 * ipchup <kinds> <policy> <bufsz> <paylen> <when> <how>
 *   kinds : one char per sending write, in order: t|p|u = uv_write2 carrying that kind of handle, '-' = plain uv_write
 *   policy: imm (claim everything pending inside the read callback) | late (claim only at the end, after EOF) |
 *           N (one claim inside every N-th read callback) | pause (imm + uv_read_stop in the callback, restarted next iteration)
 *   bufsz : size of the buffer alloc_cb hands out (1 = always filled ... 65536 = every read is short)
 *   paylen: bytes per sending write
 *   when  : the sender hangs up before the receiver starts reading (0) or at the end of its <when>-th read callback
 *   how   : c = uv_close(sender) (receiver polls POLLIN|POLLHUP) | s = uv_shutdown(sender) (read() == 0, no POLLHUP) |
 *           d = uv_shutdown(receiver) first, then uv_shutdown(sender) (POLLHUP with both handles open) | n = never */
static int h_bufsz, h_paylen, h_when, h_how, h_hung, h_eof, h_paused, h_reads, h_lastpc, h_bad, h_nmsg, h_handles_ok, h_wcbs, h_werr;
static size_t h_bytes; static char h_kinds[80]; static uv_shutdown_t h_shreq, h_shreq2; static int h_shcbs;
static void h_shcb(uv_shutdown_t* r, int status) { h_shcbs++; if (status) printf("hshcb status=%d\n", status); }
static void h_hangup(void) {
  if (h_hung || h_how == 'n') return;
  h_hung = 1;
  if (h_how == 'c') uv_close((uv_handle_t*) &ipc_tx, NULL);
  else {
    if (h_how == 'd') printf("hshutrx r=%d\n", uv_shutdown(&h_shreq2, (uv_stream_t*) &ipc_rx, h_shcb));
    printf("hshut r=%d\n", uv_shutdown(&h_shreq, (uv_stream_t*) &ipc_tx, h_shcb));
  }
  printf("hangup how=%c reads=%d bytes=%zu\n", h_how, h_reads, h_bytes);
}
static void h_alloc(uv_handle_t* h, size_t n, uv_buf_t* b) { static char buf[65536]; *b = uv_buf_init(buf, h_bufsz); }
static void h_read(uv_stream_t* s, ssize_t n, const uv_buf_t* b) {
  ssize_t i; int pc;
  if (n == UV_EOF) { h_eof++; printf("heof reads=%d bytes=%zu pc=%d\n", h_reads, h_bytes, uv_pipe_pending_count(&ipc_rx)); return; }
  if (n < 0) { printf("hread err=%d\n", (int) n); return; }
  if (n == 0) return;
  h_reads++;
  for (i = 0; i < n; i++, h_bytes++) if (b->base[i] != (char) ('a' + (h_bytes / h_paylen) % 26)) h_bad++;
  pc = uv_pipe_pending_count(&ipc_rx);
  printf("hread n=%d got=%zd bytes=%zu new=%d pc=%d type=%s\n", h_reads, n, h_bytes, pc - h_lastpc, pc, tyname(uv_pipe_pending_type(&ipc_rx)));
  if (ipc_policy == 0) { while (uv_pipe_pending_count(&ipc_rx) > 0) ipc_take(); }
  else if (ipc_policy > 0 && h_reads % ipc_policy == 0 && pc > 0) ipc_take();
  h_lastpc = uv_pipe_pending_count(&ipc_rx);
  if (h_paused >= 0) { uv_read_stop(s); h_paused = 1; }
  if (h_when > 0 && h_reads == h_when) h_hangup();
}
static void h_wcb(uv_write_t* r, int status) {
  int i = (int) (r - wreqs);
  h_wcbs++;
  if (status) { h_werr++; printf("hwcb %d status=%d\n", i, status); }
  else if (h_kinds[i] != '-') h_handles_ok++;
}
static void do_ipchup(const char* kinds, const char* pol, int bufsz, int paylen, int when, int how) {
  int sv[2], i, quiet = 0; static char* bufs[64]; size_t total;
  socketpair(AF_UNIX, SOCK_STREAM, 0, sv);
  uv_pipe_init(loop, &ipc_tx, 1); uv_pipe_open(&ipc_tx, sv[0]);
  uv_pipe_init(loop, &ipc_rx, 1); uv_pipe_open(&ipc_rx, sv[1]);
  h_paused = !strcmp(pol, "pause") ? 0 : -1;
  ipc_policy = !strcmp(pol, "late") ? -1 : (!strcmp(pol, "imm") || h_paused == 0) ? 0 : atoi(pol);
  h_bufsz = bufsz < 1 ? 1 : bufsz > 65536 ? 65536 : bufsz; h_paylen = paylen < 1 ? 1 : paylen; h_when = when; h_how = how;
  snprintf(h_kinds, sizeof h_kinds, "%.64s", kinds); h_nmsg = (int) strlen(h_kinds);
  for (i = 0; i < h_nmsg; i++) {
    struct sockaddr_in a; uv_handle_t* h = NULL; int fd = -1, r; uv_buf_t buf;
    uv_ip4_addr("127.0.0.1", 0, &a);
    if (kinds[i] == 't') { uv_tcp_t* x = malloc(sizeof *x); uv_tcp_init(loop, x); uv_tcp_bind(x, (struct sockaddr*) &a, 0); h = (uv_handle_t*) x; }
    else if (kinds[i] == 'u') { uv_udp_t* x = malloc(sizeof *x); uv_udp_init(loop, x); uv_udp_bind(x, (struct sockaddr*) &a, 0); h = (uv_handle_t*) x; }
    else if (kinds[i] == 'p') { int p[2]; uv_pipe_t* x = malloc(sizeof *x); socketpair(AF_UNIX, SOCK_STREAM, 0, p); uv_pipe_init(loop, x, 0); uv_pipe_open(x, p[0]); close(p[1]); h = (uv_handle_t*) x; }
    else if (kinds[i] != '-') { printf("bad-op\n"); return; }
    bufs[i] = malloc(h_paylen); memset(bufs[i], 'a' + i % 26, h_paylen); buf = uv_buf_init(bufs[i], h_paylen);
    if (h) {
      uv_fileno(h, &fd); sent[nsent] = h; sent_ino[nsent] = fd_ino(fd); sent_kind[nsent] = kinds[i]; nsent++;
      r = uv_write2(&wreqs[i], (uv_stream_t*) &ipc_tx, &buf, 1, (uv_stream_t*) h, h_wcb);
    } else r = uv_write(&wreqs[i], (uv_stream_t*) &ipc_tx, &buf, 1, h_wcb);
    printf("hsend %d kind=%c r=%d\n", i, kinds[i], r);
  }
  total = (size_t) h_nmsg * h_paylen;
  for (i = 0; i < 4; i++) uv_run(loop, UV_RUN_NOWAIT);      /* every write has completed before the receiver starts */
  printf("hinflight wcbs=%d werr=%d handles=%d\n", h_wcbs, h_werr, h_handles_ok);
  if (h_when == 0) { h_hangup(); for (i = 0; i < 3; i++) uv_run(loop, UV_RUN_NOWAIT); }
  printf("hstart r=%d\n", uv_read_start((uv_stream_t*) &ipc_rx, h_alloc, h_read));
  for (i = 0; i < 600 && !h_eof && quiet < 4; i++) {
    uv_run(loop, UV_RUN_NOWAIT);
    if (h_paused == 1 && !h_eof) { h_paused = 0; uv_read_start((uv_stream_t*) &ipc_rx, h_alloc, h_read); }
    if (h_bytes == total && !h_hung) quiet++;                /* nobody hangs up: stop once everything was read */
  }
  printf("hafter reads=%d bytes=%zu total=%zu pc=%d eof=%d hung=%d baddata=%d\n", h_reads, h_bytes, total, uv_pipe_pending_count(&ipc_rx), h_eof, h_hung, h_bad);
  for (i = 0; i < 200 && uv_pipe_pending_count(&ipc_rx) > 0; i++) ipc_take();      /* unclaimed handles stay claimable after EOF */
  { uv_pipe_t* x = malloc(sizeof *x); int r; uv_pipe_init(loop, x, 0); r = uv_accept((uv_stream_t*) &ipc_rx, (uv_stream_t*) x); printf("ipcempty r=%d pc=%d type=%s\n", r, uv_pipe_pending_count(&ipc_rx), tyname(uv_pipe_pending_type(&ipc_rx))); uv_close((uv_handle_t*) x, free_cb); }
  for (i = 0; i < nsent; i++) uv_close(sent[i], free_cb);
  if (!(h_hung && h_how == 'c')) uv_close((uv_handle_t*) &ipc_tx, NULL);
  uv_close((uv_handle_t*) &ipc_rx, NULL);
  for (i = 0; i < 4; i++) uv_run(loop, UV_RUN_NOWAIT);
  for (i = 0; i < h_nmsg; i++) free(bufs[i]);
  printf("hupdone handles=%d got=%d wcbs=%d werr=%d eof=%d\n", h_handles_ok, ngot, h_wcbs, h_werr, h_eof);
}

/* ---- uv_write2 with a handle *and* a payload that needs several syscalls */
static int big_payload, big_bad; static size_t big_bytes;
static int tx_head_req(void) {
  struct uv__queue* q;
  if (uv__queue_empty(&ipc_tx.write_queue)) return -1;
  q = uv__queue_head(&ipc_tx.write_queue);
  return (int) (uv__queue_data(q, uv_write_t, queue) - wreqs);
}
static int tx_handle_of(const struct msghdr* m) {
  struct cmsghdr* c = m->msg_controllen ? CMSG_FIRSTHDR((struct msghdr*) m) : NULL; int fd, i;
  if (c == NULL || c->cmsg_type != SCM_RIGHTS) return -1;
  memcpy(&fd, CMSG_DATA(c), sizeof fd);
  for (i = 0; i < nsent; i++) { int f = -1; uv_fileno(sent[i], &f); if (f == fd) return i; }
  return 99;
}
static void big_alloc(uv_handle_t* h, size_t n, uv_buf_t* b) { static char buf[65536]; *b = uv_buf_init(buf, sizeof buf); }
static void big_read(uv_stream_t* s, ssize_t n, const uv_buf_t* b) {
  ssize_t i;
  if (n <= 0) { if (n < 0 && n != UV_EOF) printf("bigread err=%d\n", (int) n); return; }
  for (i = 0; i < n; i++, big_bytes++) if (b->base[i] != (char) ('a' + (big_bytes / big_payload) % 26)) big_bad++;
  printf("bigread bytes=%zu pc=%d type=%s\n", big_bytes, uv_pipe_pending_count(&ipc_rx), tyname(uv_pipe_pending_type(&ipc_rx)));
}
static void do_ipcbig(const char* kinds, int payload, char** capw, int ncapw) {
  int sv[2], i, rounds; static char* bufs[64];
  socketpair(AF_UNIX, SOCK_STREAM, 0, sv);
  uv_pipe_init(loop, &ipc_tx, 1); uv_pipe_open(&ipc_tx, sv[0]);
  uv_pipe_init(loop, &ipc_rx, 1); uv_pipe_open(&ipc_rx, sv[1]);
  big_payload = payload; ipc_policy = -1;
  for (i = 0; i < ncapw && i < 256; i++) caps[ncaps++] = atoi(capw[i]);
  uv_read_start((uv_stream_t*) &ipc_rx, big_alloc, big_read);
  tx_fd = sv[0];
  for (i = 0; kinds[i] && i < 64; i++) {
    struct sockaddr_in a; uv_handle_t* h; uv_buf_t buf; int r;
    uv_ip4_addr("127.0.0.1", 0, &a);
    if (kinds[i] == 't') { uv_tcp_t* x = malloc(sizeof *x); uv_tcp_init(loop, x); uv_tcp_bind(x, (struct sockaddr*) &a, 0); h = (uv_handle_t*) x; }
    else if (kinds[i] == 'u') { uv_udp_t* x = malloc(sizeof *x); uv_udp_init(loop, x); uv_udp_bind(x, (struct sockaddr*) &a, 0); h = (uv_handle_t*) x; }
    else { int p[2]; uv_pipe_t* x = malloc(sizeof *x); socketpair(AF_UNIX, SOCK_STREAM, 0, p); uv_pipe_init(loop, x, 0); uv_pipe_open(x, p[0]); close(p[1]); h = (uv_handle_t*) x; }
    { int fd = -1; uv_fileno(h, &fd); sent[nsent] = h; sent_ino[nsent] = fd_ino(fd); sent_kind[nsent] = kinds[i]; nsent++; }
    bufs[i] = malloc(payload); memset(bufs[i], 'a' + i % 26, payload); buf = uv_buf_init(bufs[i], payload);
    printf("ipcenq %d\n", i);          /* the first uv_write2 tries to send before it returns */
    r = uv_write2(&wreqs[i], (uv_stream_t*) &ipc_tx, &buf, 1, (uv_stream_t*) h, ipc_wcb);
    printf("ipcsend %d kind=%c bytes=%d r=%d\n", i, kinds[i], payload, r);
  }
  for (rounds = 0; rounds < 4000 && (nwcb < nsent || big_bytes < (size_t) payload * nsent); rounds++) uv_run(loop, UV_RUN_NOWAIT);
  for (i = 0; i < 4; i++) uv_run(loop, UV_RUN_NOWAIT);
  tx_fd = -1;
  printf("ipcbigread bytes=%zu pc=%d wcbs=%d baddata=%d\n", big_bytes, uv_pipe_pending_count(&ipc_rx), nwcb, big_bad);
  for (i = 0; i < 200 && uv_pipe_pending_count(&ipc_rx) > 0; i++) ipc_take();
  { uv_pipe_t* x = malloc(sizeof *x); int r; uv_pipe_init(loop, x, 0); r = uv_accept((uv_stream_t*) &ipc_rx, (uv_stream_t*) x); printf("ipcempty r=%d pc=%d type=%s\n", r, uv_pipe_pending_count(&ipc_rx), tyname(uv_pipe_pending_type(&ipc_rx))); uv_close((uv_handle_t*) x, free_cb); }
  for (i = 0; i < nsent; i++) { uv_close(sent[i], free_cb); free(bufs[i]); }
  uv_close((uv_handle_t*) &ipc_tx, NULL); uv_close((uv_handle_t*) &ipc_rx, NULL);
  for (i = 0; i < 4; i++) uv_run(loop, UV_RUN_NOWAIT);
  printf("ipcbigdone sent=%d got=%d wcbs=%d bytes=%zu\n", nsent, ngot, nwcb, big_bytes);
}

/* ------------------------------------------------------------------ write2 / try_write2 refusal table */
static void nop_wcb(uv_write_t* r, int s) {}
static int raw_fds_received(int fd) {        /* drain the peer: how many SCM_RIGHTS descriptors arrived */
  int n = 0;
  for (;;) {
    char data[64]; union { struct cmsghdr h; char b[CMSG_SPACE(sizeof(int) * 16)]; } c; struct msghdr m; struct iovec v; struct cmsghdr* cm; ssize_t r;
    memset(&m, 0, sizeof m); v.iov_base = data; v.iov_len = 1; m.msg_iov = &v; m.msg_iovlen = 1; m.msg_control = c.b; m.msg_controllen = sizeof c.b;
    r = recvmsg(fd, &m, MSG_DONTWAIT);
    if (r <= 0) return n;
    for (cm = CMSG_FIRSTHDR(&m); cm; cm = CMSG_NXTHDR(&m, cm)) if (cm->cmsg_type == SCM_RIGHTS) {
      int k = (cm->cmsg_len - CMSG_LEN(0)) / sizeof(int), x, f; for (x = 0; x < k; x++) { memcpy(&f, CMSG_DATA(cm) + x * sizeof(int), sizeof f); close(f); n++; }
    }
  }
}
/* carrier {non-IPC pipe, IPC pipe, connected TCP stream} x handle {tcp, pipe, udp, fd-less tcp, fd-less udp} x {uv_try_write2, uv_write2} */
static void do_wcheck(void) {
  int p[2], q[2], hp[2], i, j, ls, cs, as, sent = 0; uv_pipe_t plain, ipcp, hpipe; uv_tcp_t carrier, good, nofd; uv_udp_t hudp, unofd; struct sockaddr_in a; socklen_t al = sizeof a; char b = 'x';
  uv_buf_t buf = uv_buf_init(&b, 1); static uv_write_t reqs[32]; int nreq = 0;
  socketpair(AF_UNIX, SOCK_STREAM, 0, p); socketpair(AF_UNIX, SOCK_STREAM, 0, q); socketpair(AF_UNIX, SOCK_STREAM, 0, hp);
  uv_pipe_init(loop, &plain, 0); uv_pipe_open(&plain, p[0]);
  uv_pipe_init(loop, &ipcp, 1); uv_pipe_open(&ipcp, q[0]);
  uv_ip4_addr("127.0.0.1", 0, &a);
  ls = socket(AF_INET, SOCK_STREAM, 0); bind(ls, (struct sockaddr*) &a, sizeof a); listen(ls, 1); getsockname(ls, (struct sockaddr*) &a, &al);
  cs = socket(AF_INET, SOCK_STREAM, 0); syscall(SYS_connect, cs, (struct sockaddr*) &a, sizeof a); as = syscall(SYS_accept4, ls, NULL, NULL, 0);
  uv_tcp_init(loop, &carrier); uv_tcp_open(&carrier, cs);
  uv_ip4_addr("127.0.0.1", 0, &a);
  uv_tcp_init(loop, &good); uv_tcp_bind(&good, (struct sockaddr*) &a, 0); uv_listen((uv_stream_t*) &good, 1, conn_cb); good.data = (void*) 127L;
  uv_pipe_init(loop, &hpipe, 0); uv_pipe_open(&hpipe, hp[0]);
  uv_udp_init(loop, &hudp); uv_udp_bind(&hudp, (struct sockaddr*) &a, 0);
  uv_tcp_init(loop, &nofd); uv_udp_init(loop, &unofd);
  uv_stream_t* streams[3] = { (uv_stream_t*) &plain, (uv_stream_t*) &ipcp, (uv_stream_t*) &carrier }; const char* sn[3] = { "plain", "ipc", "tcp" };
  uv_stream_t* hs[5] = { (uv_stream_t*) &good, (uv_stream_t*) &nofd, (uv_stream_t*) &unofd, (uv_stream_t*) &hpipe, (uv_stream_t*) &hudp };
  const char* hn[5] = { "good", "nofd", "udpnofd", "goodpipe", "goodudp" };
  for (i = 0; i < 3; i++) for (j = 0; j < 5; j++) {
    int r1 = uv_try_write2(streams[i], &buf, 1, hs[j]);
    int r2 = uv_write2(&reqs[nreq++], streams[i], &buf, 1, hs[j], nop_wcb);
    printf("wcheck %s %s try_write2=%d write2=%d\n", sn[i], hn[j], r1, r2);
    if (i == 1) sent += (r1 > 0) + (r2 == 0);
    uv_run(loop, UV_RUN_NOWAIT);
  }
  printf("wdeliver ipc sent=%d got=%d plain-got=%d tcp-got=%d\n", sent, raw_fds_received(q[1]), raw_fds_received(p[1]), raw_fds_received(as));
  uv_close((uv_handle_t*) &plain, NULL); uv_close((uv_handle_t*) &ipcp, NULL); uv_close((uv_handle_t*) &good, NULL); uv_close((uv_handle_t*) &carrier, NULL);
  uv_close((uv_handle_t*) &nofd, NULL); uv_close((uv_handle_t*) &unofd, NULL); uv_close((uv_handle_t*) &hpipe, NULL); uv_close((uv_handle_t*) &hudp, NULL);
  close(p[1]); close(q[1]); close(hp[1]); close(ls); close(as);
  for (i = 0; i < 4; i++) uv_run(loop, UV_RUN_NOWAIT);
}

static void run_n(int n) { while (n-- > 0) uv_run(loop, UV_RUN_NOWAIT); }

int main(void) {
  char line[1024]; int pid = getpid();
  setvbuf(stdout, NULL, _IOLBF, 0);
  signal(SIGPIPE, SIG_IGN);
  loop = uv_default_loop();
  while (fgets(line, sizeof line, stdin)) {
    char* w[80]; int n = 0, i;
    for (char* t = strtok(line, " \n"); t && n < 80; t = strtok(NULL, " \n")) w[n++] = t;
    if (n == 0) continue;
    if (!strcmp(w[0], "cscript")) { ncscript = icscript = 0; for (i = 1; i < n && i <= 32; i++) cscript[ncscript++] = atoi(w[i]); printf("cscript %d\n", ncscript);
    } else if (!strcmp(w[0], "server") && (n == 4 || n == 5)) {
      int sid = atoi(w[1]), r; server_t* s = &srv[sid]; struct sockaddr_storage ss; int len = sizeof ss;
      s->kind = !strcmp(w[2], "t4") ? 0 : !strcmp(w[2], "t6") ? 1 : 2;
      s->mode = !strcmp(w[3], "imm") ? 0 : !strcmp(w[3], "defer") ? 1 : 2;
      s->h = new_stream(s->kind); s->h->data = (void*)(long) sid;
      if (s->kind == 2) { snprintf(s->path, sizeof s->path, "/var/tmp/c07sim-%d-%d.sock", pid, sid); unlink(s->path); r = uv_pipe_bind((uv_pipe_t*) s->h, s->path); }
      else if (s->kind == 0) { struct sockaddr_in a; uv_ip4_addr("127.0.0.1", 0, &a); r = uv_tcp_bind((uv_tcp_t*) s->h, (struct sockaddr*) &a, 0); }
      else { struct sockaddr_in6 a; uv_ip6_addr("::1", 0, &a); r = uv_tcp_bind((uv_tcp_t*) s->h, (struct sockaddr*) &a, 0); }
      if (r == 0) r = uv_listen(s->h, n == 5 ? atoi(w[4]) : 64, conn_cb);
      if (r == 0 && s->kind != 2) { uv_tcp_getsockname((uv_tcp_t*) s->h, (struct sockaddr*) &ss, &len); s->port = ntohs(((struct sockaddr_in*) &ss)->sin_port); }
      s->alive = r == 0;
      printf("server %d r=%d\n", sid, r);
    } else if ((!strcmp(w[0], "raw") || !strcmp(w[0], "uvc")) && n == 3) {
      int cid = atoi(w[1]), sid = atoi(w[2]), r; client_t* c = &cli[cid]; struct sockaddr_storage ss; socklen_t len;
      c->used = 1; c->sid = sid; c->raw = w[0][0] == 'r'; srv_addr(sid, &ss, &len);
      if (c->raw) {
        char b = (char) cid;
        c->fd = socket(ss.ss_family, SOCK_STREAM, 0);   /* blocking connect: completes in the backlog on loopback */
        r = syscall(SYS_connect, c->fd, (struct sockaddr*) &ss, len); if (r) r = -errno;
        if (r == 0) send(c->fd, &b, 1, MSG_NOSIGNAL);
        c->ret = r; c->status = r; c->cbs = 1;
        printf("raw %d r=%d\n", cid, r);
      } else {
        c->h = new_stream(srv[sid].kind); c->req.data = (void*)(long) cid;
        cur_cid = cid;
        if (srv[sid].kind == 2) { uv_pipe_connect(&c->req, (uv_pipe_t*) c->h, srv[sid].path, connect_cb); r = 0; }
        else r = uv_tcp_connect(&c->req, (uv_tcp_t*) c->h, (struct sockaddr*) &ss, connect_cb);
        cur_cid = -1; ncscript = icscript = 0;
        c->ret = r;
        printf("uvc %d r=%d kind=%s\n", cid, r, srv[sid].kind == 2 ? "pipe" : "tcp");
      }
    } else if (!strcmp(w[0], "uvcb") && n == 4) {
      int cid = atoi(w[1]), sid = atoi(w[2]), r, rb = 0; client_t* c = &cli[cid]; struct sockaddr_storage ss, bs; socklen_t len;
      if (srv[sid].kind == 2) { printf("bad-op\n"); continue; }
      c->used = 1; c->sid = sid; c->raw = 0; srv_addr(sid, &ss, &len);
      c->h = new_stream(srv[sid].kind); c->req.data = (void*)(long) cid;
      if (w[3][0] == 'i') { rb = uv_tcp_bind((uv_tcp_t*) c->h, (struct sockaddr*) &ss, 0); printf("bind %d inuse r=%d\n", cid, rb); }
      else if (w[3][0] == 'f') {
        if (srv[sid].kind == 0) uv_ip4_addr("127.0.0.1", 0, (struct sockaddr_in*) &bs); else uv_ip6_addr("::1", 0, (struct sockaddr_in6*) &bs);
        rb = uv_tcp_bind((uv_tcp_t*) c->h, (struct sockaddr*) &bs, 0); printf("bind %d free r=%d\n", cid, rb);
      }
      cur_cid = cid;
      r = uv_tcp_connect(&c->req, (uv_tcp_t*) c->h, (struct sockaddr*) &ss, connect_cb);
      c->ret = r;
      printf("uvc %d r=%d kind=tcp\n", cid, r);
      if (w[3][0] == 't') { static uv_connect_t second[MAXN]; int r2 = uv_tcp_connect(&second[cid], (uv_tcp_t*) c->h, (struct sockaddr*) &ss, connect_cb); second[cid].data = (void*)(long) cid; printf("uvc2 %d r=%d\n", cid, r2); }
      cur_cid = -1; ncscript = icscript = 0;
    } else if (!strcmp(w[0], "retry") && n == 6) {
      int rid = atoi(w[1]); retry_t* t = &rt[rid];
      t->used = 1; t->kind = w[2][0] == 't' ? 0 : 2; t->sid = atoi(w[3]); snprintf(t->script, sizeof t->script, "%s", w[5]);
      t->h = new_stream(t->kind);
      retry_submit(rid, w[4][0]);
    } else if (!strcmp(w[0], "run") && n == 2) { run_n(atoi(w[1])); printf("ran spare=%d\n", loop->emfile_fd != -1);
      for (i = 0; i < 16; i++) if (rt[i].used && !rt[i].closed) printf("rst %d pollout=%d pending=%d\n", i, !!uv__io_active(&rt[i].h->io_watcher, POLLOUT), rt[i].h->connect_req != NULL);
    } else if (!strcmp(w[0], "inject")) { ninject = iinject = 0; for (i = 1; i < n; i++) inject[ninject++] = atoi(w[i]); printf("inject %d\n", ninject);
    } else if (!strcmp(w[0], "accept") && n >= 2) { do_accept(atoi(w[1]), n > 2);
    } else if (!strcmp(w[0], "drain") && n == 2) {
      int quiet = 0, sid = atoi(w[1]);
      while (quiet < 2) { run_n(3); if (do_accept(sid, 0) == UV_EAGAIN) quiet++; else quiet = 0; }
    } else if (!strcmp(w[0], "closesrv") && n == 2) {
      server_t* s = &srv[atoi(w[1])];
      if (s->alive) { uv_close((uv_handle_t*) s->h, free_cb); s->alive = 0; if (s->kind == 2) unlink(s->path); }
      printf("closesrv %s\n", w[1]);
    } else if (!strcmp(w[0], "closecli") && n == 2) {
      client_t* c = &cli[atoi(w[1])];
      if (!c->closed) { if (c->raw) close(c->fd); else uv_close((uv_handle_t*) c->h, free_cb); c->closed = 1; }
      printf("closecli %s\n", w[1]);
    } else if (!strcmp(w[0], "badconnect") && n >= 3) {
      int cid = atoi(w[1]), r = 0; client_t* c = &cli[cid]; c->used = 2; c->req.data = (void*)(long) cid;
      if (!strcmp(w[2], "tcp")) {
        struct sockaddr_in a; socklen_t l = sizeof a; int s = socket(AF_INET, SOCK_STREAM, 0);
        uv_ip4_addr("127.0.0.1", 0, &a); bind(s, (struct sockaddr*) &a, sizeof a); getsockname(s, (struct sockaddr*) &a, &l); close(s);
        c->h = new_stream(0); r = uv_tcp_connect(&c->req, (uv_tcp_t*) c->h, (struct sockaddr*) &a, connect_cb);
      } else {
        char path[400]; size_t len;
        c->h = new_stream(2);
        if (!strcmp(w[2], "pipe")) snprintf(path, sizeof path, "/var/tmp/c07sim-%d-missing.sock", pid);
        else { memset(path, 'x', 300); memcpy(path, "/var/tmp/", 9); path[300] = 0; }
        len = strlen(path);
        r = uv_pipe_connect2(&c->req, (uv_pipe_t*) c->h, path, len, !strcmp(w[2], "longnt") ? UV_PIPE_NO_TRUNCATE : 0, connect_cb);
      }
      c->ret = r;
      printf("badconnect %d %s r=%d\n", cid, w[2], r);
      if (n > 3) { uv_close((uv_handle_t*) c->h, free_cb); c->closed = 1; printf("closecli %d\n", cid); }
    } else if (!strcmp(w[0], "dblconnect") && n == 3) {
      /* two uv_pipe_connect() on one handle while the first is pending (both are accepted by the API) */
      int a = atoi(w[1]), b = atoi(w[2]); char path[96];
      cli[a].used = 2; cli[b].used = 3; cli[a].req.data = (void*)(long) a; cli[b].req.data = (void*)(long) b;
      cli[a].h = cli[b].h = new_stream(2);
      snprintf(path, sizeof path, "/var/tmp/c07sim-%d-missing.sock", pid);
      cli[a].ret = uv_pipe_connect2(&cli[a].req, (uv_pipe_t*) cli[a].h, path, strlen(path), 0, connect_cb);
      cli[b].ret = uv_pipe_connect2(&cli[b].req, (uv_pipe_t*) cli[b].h, path, strlen(path), 0, connect_cb);
      printf("dblconnect %d r=%d %d r=%d\n", a, cli[a].ret, b, cli[b].ret);
    } else if (!strcmp(w[0], "ipc") && n == 3) { do_ipc(w[1], w[2]);
    } else if (!strcmp(w[0], "ipchup") && n == 7) { do_ipchup(w[1], w[2], atoi(w[3]), atoi(w[4]), atoi(w[5]), w[6][0]);
    } else if (!strcmp(w[0], "ipcbig") && n >= 3) { do_ipcbig(w[1], atoi(w[2]), w + 3, n - 3);
    } else if (!strcmp(w[0], "wcheck")) { do_wcheck();
    } else if (!strcmp(w[0], "end")) { break;
    } else printf("bad-op\n");
  }
  run_n(6);
  for (int i = 0; i < naccd; i++) {
    int fd = -1; char b[8]; ssize_t k;
    uv_fileno((uv_handle_t*) accd[i].h, &fd);
    k = recv(fd, b, sizeof b, MSG_DONTWAIT);
    if (k > 0) printf("acc %d seq=%d token=%d extra=%d pport=%d\n", accd[i].sid, accd[i].seq, (unsigned char) b[0], (int) k - 1, port_of((uv_handle_t*) accd[i].h, 1));
    else printf("acc %d seq=%d token=%s pport=%d\n", accd[i].sid, accd[i].seq, k == 0 ? "eof" : "none", port_of((uv_handle_t*) accd[i].h, 1));
  }
  for (int i = 0; i < MAXN; i++) if (cli[i].used) {
    client_t* c = &cli[i]; int fd = -1;
    if (c->used == 1 && !c->closed) { if (c->raw) fd = c->fd; else uv_fileno((uv_handle_t*) c->h, &fd); }
    printf("cli %d kind=%s ret=%d cbs=%d status=%d peer=%s\n", i, c->used >= 2 ? "bad" : c->raw ? "raw" : "uvc", c->ret, c->cbs, c->status,
           c->closed ? "self-closed" : fd >= 0 ? peer_state(fd) : "nofd");
  }
  for (int i = 0; i < MAXN; i++) if (srv[i].h) printf("srv %d alive=%d announced=%d claimed=%d\n", i, srv[i].alive, srv[i].announced, srv[i].claimed);
  printf("fired=%d spare=%d\n", fired, loop->emfile_fd != -1);
  /* teardown: everything closed, every connect callback must have run by now */
  for (int i = 0; i < 16; i++) if (rt[i].used && !rt[i].closed) { uv_close((uv_handle_t*) rt[i].h, free_cb); rt[i].closed = 2; }
  for (int i = 0; i < naccd; i++) uv_close((uv_handle_t*) accd[i].h, free_cb);
  for (int i = 0; i < MAXN; i++) { if (srv[i].h && srv[i].alive) { uv_close((uv_handle_t*) srv[i].h, free_cb); if (srv[i].kind == 2) unlink(srv[i].path); } }
  for (int i = 0; i < MAXN; i++) if (cli[i].used && cli[i].used != 3 && !cli[i].closed) { if (cli[i].raw) close(cli[i].fd); else uv_close((uv_handle_t*) cli[i].h, free_cb); }
  run_n(6);
  for (int i = 0; i < 16; i++) if (rt[i].used) {
    for (int a = 0; a < rt[i].natt; a++) printf("rfinal %d att=%d target=%c ret=%d cbs=%d status=%d\n", i, a, rt[i].target[a], rt[i].ret[a], rt[i].cbs[a], rt[i].status[a]);
    printf("rfinalw %d writes=%d wcbs=%d shutdowns=%d shcbs=%d userclosed=%d\n", i, rt[i].nw, rt[i].wcbs, rt[i].nsh, rt[i].shcbs, rt[i].closed == 1);
  }
  for (int i = 0; i < MAXN; i++) if (cli[i].used && !cli[i].raw) printf("final %d ret=%d cbs=%d status=%d\n", i, cli[i].ret, cli[i].cbs, cli[i].status);
  printf("loop-alive=%d close=%d\n", uv_loop_alive(loop), uv_loop_close(loop));
  return 0;
}
