/* Force-included into every harness by tools/vlib.py (-include).  The checks may be started from an
 * environment that ignores or blocks signals (nohup sets SIGHUP to SIG_IGN, a service manager may
 * block SIGCHLD, ...): ignored dispositions and the signal mask survive exec and would change what
 * the harnesses observe (sigaction queries, raise(), waitpid semantics).  Start every harness from
 * default dispositions and an empty mask.  SIGPIPE is left alone (harnesses that care set it). */
#ifndef UVVERIF_SANE_ENV_H
#define UVVERIF_SANE_ENV_H
#include <signal.h>
__attribute__((constructor(101))) static void uvverif_sane_env(void) {
  sigset_t empty;
  int s;
  for (s = 1; s < 32; s++) {
    if (s == SIGKILL || s == SIGSTOP || s == SIGPIPE) continue;
    signal(s, SIG_DFL);
  }
  sigemptyset(&empty);
  sigprocmask(SIG_SETMASK, &empty, 0);
}
#endif
