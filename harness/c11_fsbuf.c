/* C11 (a) unit harness: src/unix/fs.c compiled into this TU with the eight transfer system
 * calls (and ftruncate, and the dlsym lookup of preadv/pwritev) redirected to scripted fakes.
 * Line protocol = lean/Drivers/C11.lean mode `fsbuf`:
 *   iovmax <n>
 *   write_all off=<o> bufs=<l1,l2*k,…> outcomes=<n|E<errno>|EINTR,…>
 *   read off=<o> bufs=<…> outcome=<n|E<errno>|EINTR>
 *   buf_offset size=<s> bufs=<…>
 *   work retry=1 outcomes=<…>            (uv_fs_ftruncate = an op that is one system call)
 * Output: one `call …` line per system call libuv issued, then `result …`.
 * A script that runs out answers -1/EIO. */
#include "uv.h"
#include "internal.h"
#include <errno.h>
#include <dlfcn.h>
#include <stdatomic.h>
#include <stdio.h>
#include <stdlib.h>
#include <string.h>
#include <limits.h>
#include <sys/types.h>
#include <sys/socket.h>
#include <sys/stat.h>
#include <sys/time.h>
#include <sys/uio.h>
#include <unistd.h>
#include <fcntl.h>
#include <poll.h>
#include <sys/sendfile.h>
#include <sys/sysmacros.h>
#include <sys/ioctl.h>
#include <utime.h>
#include <sys/param.h>
#include <sys/mount.h>
#include <sys/statvfs.h>
#include <sys/statfs.h>
#include <sys/vfs.h>

static ssize_t c11_write(int fd, const void* p, size_t n);
static ssize_t c11_writev(int fd, const struct iovec* v, int n);
static ssize_t c11_pwrite(int fd, const void* p, size_t n, off_t off);
static ssize_t c11_pwritev(int fd, const struct iovec* v, int n, off_t off);
static ssize_t c11_read(int fd, void* p, size_t n);
static ssize_t c11_readv(int fd, const struct iovec* v, int n);
static ssize_t c11_pread(int fd, void* p, size_t n, off_t off);
static ssize_t c11_preadv(int fd, const struct iovec* v, int n, off_t off);
static int c11_ftruncate(int fd, off_t len);
static void* c11_dlsym(void* h, const char* name);
static int c11_getiovmax(void);

#define write c11_write
#define writev c11_writev
#define pwrite c11_pwrite
#define pwritev c11_pwritev
#define read c11_read
#define readv c11_readv
#define pread c11_pread
#define preadv c11_preadv
#define ftruncate c11_ftruncate
#define dlsym c11_dlsym
#define uv__getiovmax c11_getiovmax

#include "unix/fs.c"

#undef write
#undef writev
#undef pwrite
#undef pwritev
#undef read
#undef readv
#undef pread
#undef preadv
#undef ftruncate
#undef dlsym
#undef uv__getiovmax

#define FD 77
#define MAXB 70000
static int g_iovmax = 1024;
static int c11_getiovmax(void) { return g_iovmax; }

/* script */
static long sc_val[4096]; /* >=0: ok n; <0: -errno */
static int sc_n, sc_pos, ncalls;
static unsigned char* arena;      /* all buffers of a case live here: id of a byte = address - arena */
static size_t arena_len;
static int is_read_case;
static size_t src_pos;            /* next file byte the fake read delivers */

static unsigned char srcbyte(size_t k) { return (unsigned char) (k % 200 + 1); }
#define MARK 0xEE

static void print_rle_iov(const struct iovec* v, int n) {
  int i, any = 0;
  for (i = 0; i < n;) {
    int j = i;
    while (j < n && v[j].iov_len == v[i].iov_len) j++;
    if (any) putchar(',');
    any = 1;
    if (j - i == 1) printf("%zu", v[i].iov_len); else printf("%zu*%d", v[i].iov_len, j - i);
    i = j;
  }
  if (!any) putchar('-');
}

static long next_outcome(void) {
  if (sc_pos >= sc_n) return -EIO;
  return sc_val[sc_pos++];
}

static ssize_t fake(const char* name, int fd, const struct iovec* v, int n, off_t off, int has_off, int rd) {
  long o = next_outcome();
  int i, any = 0;
  ncalls++;
  if (fd != FD) { printf("BAD-FD %d\n", fd); }
  printf("call %s off=", name);
  if (has_off) printf("%lld", (long long) off); else printf("cur");
  printf(" iov=");
  print_rle_iov(v, n);
  if (o < 0) printf(" ret=E%ld", -o); else printf(" ret=%ld", o);
  if (!rd) {
    /* the first o bytes of the iovec, as ranges of byte ids */
    long left = o < 0 ? 0 : o;
    long a = -1, b = -1;
    printf(" data=");
    for (i = 0; i < n && left > 0; i++) {
      long len = (long) v[i].iov_len < left ? (long) v[i].iov_len : left;
      long s;
      if (len == 0) continue;
      s = (unsigned char*) v[i].iov_base - arena;
      if (s < 0 || (size_t) (s + len) > arena_len) { printf("OUT-OF-ARENA"); s = 999999999; }
      if (s == b) b += len;
      else {
        if (a >= 0) { printf("%s%ld-%ld", any ? "," : "", a, b); any = 1; }
        a = s; b = s + len;
      }
      left -= len;
    }
    if (a >= 0) { printf("%s%ld-%ld", any ? "," : "", a, b); any = 1; }
    if (!any) putchar('-');
    if (left > 0) printf(" SCRIPT-EXCEEDS-IOV");
  } else if (o > 0) {
    long left = o;
    for (i = 0; i < n && left > 0; i++) {
      size_t k, len = v[i].iov_len < (size_t) left ? v[i].iov_len : (size_t) left;
      for (k = 0; k < len; k++) ((unsigned char*) v[i].iov_base)[k] = srcbyte(src_pos++);
      left -= len;
    }
  }
  putchar('\n');
  if (o < 0) { errno = (int) -o; return -1; }
  return o;
}

static ssize_t c11_write(int fd, const void* p, size_t n) {
  struct iovec v; v.iov_base = (void*) p; v.iov_len = n; return fake("write", fd, &v, 1, 0, 0, 0);
}
static ssize_t c11_writev(int fd, const struct iovec* v, int n) { return fake("writev", fd, v, n, 0, 0, 0); }
static ssize_t c11_pwrite(int fd, const void* p, size_t n, off_t off) {
  struct iovec v; v.iov_base = (void*) p; v.iov_len = n; return fake("pwrite", fd, &v, 1, off, 1, 0);
}
static ssize_t c11_pwritev(int fd, const struct iovec* v, int n, off_t off) { return fake("pwritev", fd, v, n, off, 1, 0); }
static ssize_t c11_read(int fd, void* p, size_t n) {
  struct iovec v; v.iov_base = p; v.iov_len = n; return fake("read", fd, &v, 1, 0, 0, 1);
}
static ssize_t c11_readv(int fd, const struct iovec* v, int n) { return fake("readv", fd, v, n, 0, 0, 1); }
static ssize_t c11_pread(int fd, void* p, size_t n, off_t off) {
  struct iovec v; v.iov_base = p; v.iov_len = n; return fake("pread", fd, &v, 1, off, 1, 1);
}
static ssize_t c11_preadv(int fd, const struct iovec* v, int n, off_t off) { return fake("preadv", fd, v, n, off, 1, 1); }
static int c11_ftruncate(int fd, off_t len) {
  long o = next_outcome();
  ncalls++;
  if (o < 0) { errno = (int) -o; return -1; }
  return (int) o;
}
static void* c11_dlsym(void* h, const char* name) {
  if (!strcmp(name, "pwritev64") || !strcmp(name, "pwritev")) return (void*) c11_pwritev;
  if (!strcmp(name, "preadv64") || !strcmp(name, "preadv")) return (void*) c11_preadv;
  return dlsym(h, name);
}

/* ---- parsing ---- */
static const char* kvget(char** w, int nw, const char* key) {
  size_t kl = strlen(key);
  int i;
  for (i = 0; i < nw; i++)
    if (!strncmp(w[i], key, kl) && w[i][kl] == '=') return w[i] + kl + 1;
  return NULL;
}

static long lens[MAXB];
static int parse_lens(const char* s) {   /* returns count or -1 */
  int n = 0;
  if (!strcmp(s, "-")) return 0;
  while (*s) {
    char* e;
    long v = strtol(s, &e, 10), k = 1;
    if (e == s || v < 0) return -1;
    s = e;
    if (*s == '*') { k = strtol(s + 1, &e, 10); if (e == s + 1) return -1; s = e; }
    while (k-- > 0) { if (n >= MAXB) return -1; lens[n++] = v; }
    if (*s == ',') s++; else if (*s) return -1;
  }
  return n;
}

static int parse_outcome(const char* s, const char** end, long* out) {
  char* e;
  if (!strncmp(s, "EINTR", 5)) { *out = -EINTR; *end = s + 5; return 1; }
  if (*s == 'E') { long v = strtol(s + 1, &e, 10); if (e == s + 1) return 0; *out = -v; *end = e; return 1; }
  { long v = strtol(s, &e, 10); if (e == s || v < 0) return 0; *out = v; *end = e; return 1; }
}

static int parse_outcomes(const char* s) {
  sc_n = 0; sc_pos = 0;
  if (!strcmp(s, "-")) return 1;
  while (*s) {
    const char* e;
    if (sc_n >= 4096 || !parse_outcome(s, &e, &sc_val[sc_n])) return 0;
    sc_n++; s = e;
    if (*s == ',') s++; else if (*s) return 0;
  }
  return 1;
}

static uv_buf_t* make_bufs(int n, int fill) {
  uv_buf_t* b = malloc(sizeof(*b) * (n ? n : 1));
  size_t total = 0, pos = 0;
  int i;
  for (i = 0; i < n; i++) total += lens[i];
  arena_len = total;
  arena = malloc(total + 1);
  memset(arena, fill, total + 1);
  for (i = 0; i < n; i++) { b[i] = uv_buf_init((char*) arena + pos, lens[i]); pos += lens[i]; }
  return b;
}

int main(void) {
  static char line[1 << 20];
  while (fgets(line, sizeof line, stdin)) {
    char* w[16]; int nw = 0; char* t;
    for (t = strtok(line, " \t\r\n"); t && nw < 16; t = strtok(NULL, " \t\r\n")) w[nw++] = t;
    if (nw == 0) continue;
    if (!strcmp(w[0], "iovmax") && nw == 2) {
      g_iovmax = atoi(w[1]); printf("iovmax %d\n", g_iovmax);
    } else if (!strcmp(w[0], "write_all")) {
      const char* so = kvget(w, nw, "off"); const char* sb = kvget(w, nw, "bufs"); const char* sq = kvget(w, nw, "outcomes");
      int n; uv_buf_t* b; uv_fs_t req; int r;
      if (!so || !sb || !sq || (n = parse_lens(sb)) < 0 || !parse_outcomes(sq)) { puts("bad-op"); continue; }
      b = make_bufs(n, 0x55);
      ncalls = 0;
      r = uv_fs_write(NULL, &req, FD, b, n, atoll(so), NULL);
      if (n == 0) printf("result %d off=%lld\n", 0, atoll(so));   /* front end rejects nbufs == 0; the model's loop does nothing */
      else printf("result %lld off=%lld\n", (long long) req.result, (long long) req.off);
      if (n != 0 && r != req.result) printf("RETURN-MISMATCH %d\n", r);
      if (n != 0) uv_fs_req_cleanup(&req);
      free(b); free(arena); arena = NULL;
    } else if (!strcmp(w[0], "read")) {
      const char* so = kvget(w, nw, "off"); const char* sb = kvget(w, nw, "bufs"); const char* sq = kvget(w, nw, "outcome");
      int n, i, inorder = 1; uv_buf_t* b; uv_fs_t req; size_t k, exp = 0;
      if (!so || !sb || !sq || (n = parse_lens(sb)) <= 0 || !parse_outcomes(sq) || sc_n != 1) { puts("bad-op"); continue; }
      b = make_bufs(n, MARK);
      src_pos = 0;
      uv_fs_read(NULL, &req, FD, b, n, atoll(so), NULL);
      printf("result %lld fill=", (long long) req.result);
      {
        static struct iovec fv[MAXB];
        for (i = 0; i < n; i++) {
          size_t f = 0;
          while (f < b[i].len && (unsigned char) b[i].base[f] != MARK) f++;
          for (k = 0; k < f; k++) if ((unsigned char) b[i].base[k] != srcbyte(exp++)) inorder = 0;
          for (k = f; k < b[i].len; k++) if ((unsigned char) b[i].base[k] != MARK) inorder = 0;
          fv[i].iov_len = f;
        }
        print_rle_iov(fv, n);
      }
      printf(" inorder=%d\n", inorder);
      uv_fs_req_cleanup(&req);
      free(b); free(arena); arena = NULL;
    } else if (!strcmp(w[0], "buf_offset")) {
      const char* ss = kvget(w, nw, "size"); const char* sb = kvget(w, nw, "bufs");
      int n, i; uv_buf_t* b; size_t k;
      if (!ss || !sb || (n = parse_lens(sb)) < 0) { puts("bad-op"); continue; }
      b = make_bufs(n, 0);
      k = n ? uv__fs_buf_offset(b, strtoul(ss, NULL, 10)) : 0;
      printf("offset %zu bufs=", k);
      for (i = 0; i < n; i++) printf("%s%ld+%zu", i ? " " : "", (long) ((unsigned char*) b[i].base - arena), b[i].len);
      putchar('\n');
      free(b); free(arena); arena = NULL;
    } else if (!strcmp(w[0], "work")) {
      const char* sr = kvget(w, nw, "retry"); const char* sq = kvget(w, nw, "outcomes");
      uv_fs_t req;
      if (!sr || !sq || atoi(sr) != 1 || !parse_outcomes(sq)) { puts("bad-op"); continue; }
      ncalls = 0;
      uv_fs_ftruncate(NULL, &req, FD, 0, NULL);
      printf("result %lld calls=%d\n", (long long) req.result, ncalls);
      uv_fs_req_cleanup(&req);
    } else {
      puts("bad-op");
    }
    fflush(stdout);
  }
  return 0;
}
