/* C15 — descriptor hygiene: whole-library harness.
 * Links the working tree's libuv; every fd-creating / fd-closing libc entry point libuv uses is
 * defined here (static link => these definitions win) and forwards with a raw syscall; `syscall`
 * itself is interposed too because uv__close_nocancel and io_uring_setup go through it.
 * Ledger: kernel fd -> {canonical id, created-by-libuv, user-owned, transferred}.  Ops come from a
 * line protocol (same text drives `uvdriver fdledger`).  After EVERY op the monitors run:
 * /proc/self/fd vs ledger, FD_CLOEXEC of every libuv-created fd, owner fields of the real structs.
 * usage: c15_sim <scratchdir> < program      |   c15_sim child   (spawn helper: prints its fd table)
 */
#include <uv.h>
#include "uv-common.h"
#include "internal.h"
#include <stdarg.h>
#include <stdio.h>
#include <stdlib.h>
#include <string.h>
#include <errno.h>
#include <fcntl.h>
#include <dirent.h>
#include <unistd.h>
#include <sys/syscall.h>
#include <sys/socket.h>
#include <sys/un.h>
#include <sys/epoll.h>
#include <sys/eventfd.h>
#include <sys/inotify.h>
#include <netinet/in.h>
#include <arpa/inet.h>
#include <netinet/tcp.h>
#include <sys/wait.h>
#include <sys/stat.h>
#include <dlfcn.h>

/* ------------------------------------------------------------------ raw syscalls */
static long raw6(long n, long a, long b, long c, long d, long e, long f) {
  long ret;
  register long r10 __asm__("r10") = d;
  register long r8 __asm__("r8") = e;
  register long r9 __asm__("r9") = f;
  __asm__ volatile("syscall" : "=a"(ret) : "a"(n), "D"(a), "S"(b), "d"(c), "r"(r10), "r"(r8), "r"(r9)
                   : "rcx", "r11", "memory");
  return ret;
}
static long rx(long r) { if (r < 0 && r > -4096) { errno = (int) -r; return -1; } return r; }
#define RAW(n, ...) RAW_(n, __VA_ARGS__, 0, 0, 0, 0, 0, 0)
#define RAW_(n, a, b, c, d, e, f, ...) rx(raw6(n, (long)(a), (long)(b), (long)(c), (long)(d), (long)(e), (long)(f)))

/* ------------------------------------------------------------------ state */
#define MAXFD 4096
struct ent { int live, id, bylib, user, xfer, lastid, glob, reported; };
static int lock_want;   /* >0 while the next `pipe` creations are the once-per-process signal lock pipe */
static struct ent L[MAXFD];
static char priv[MAXFD], base[MAXFD];
static unsigned long long ident[MAXFD][2];   /* (st_dev, st_ino) of every caller-owned descriptor when it was handed out */
static int err_fd = -1;                      /* the harness' own stderr while a caller descriptor sits on number 2 */
static int next_id, in_uv, main_pid, out_fd = 1, nviol;
static int quiet, qcount;                       /* `util` ops: ledger + monitors, but no env lines and no canonical ids */
static int auth_close = -1;                     /* uv_fs_close(fd): user asked for this close */
static char tmpdir[512];

static void outf(const char* fmt, ...) {
  char b[2048]; va_list ap; va_start(ap, fmt);
  int n = vsnprintf(b, sizeof b - 1, fmt, ap); va_end(ap);
  if (n > (int) sizeof b - 2) n = sizeof b - 2;
  b[n++] = '\n';
  for (int o = 0; o < n;) { long w = raw6(SYS_write, out_fd, (long) (b + o), n - o, 0, 0, 0); if (w <= 0) break; o += w; }
}
static void viol(const char* sig, const char* fmt, ...) {
  char b[512]; va_list ap; va_start(ap, fmt); vsnprintf(b, sizeof b, fmt, ap); va_end(ap);
  nviol++; outf("MONITOR %s %s", sig, b);
}
static int forking;        /* inside the `fork` op: the atfork handlers of the child belong to the ledger too */
static int active(void) { return in_uv && (forking || (int) raw6(SYS_getpid, 0, 0, 0, 0, 0, 0) == main_pid); }
static int getfd_flags(int fd) { return (int) raw6(SYS_fcntl, fd, F_GETFD, 0, 0, 0, 0); }
static int identity(int fd, unsigned long long id[2]) {
  struct stat st; if (raw6(SYS_fstat, fd, (long) &st, 0, 0, 0, 0) != 0) return -1;
  id[0] = (unsigned long long) st.st_dev; id[1] = (unsigned long long) st.st_ino; return 0;
}

/* failure injection for the current op: k-th call of <name> fails with errno e */
struct inj { char name[24]; int k, e, fired; };
static struct inj injs[8]; static int ninj;
struct cnt { char name[24]; int n; };
static struct cnt cnts[32]; static int ncnt;
static int inject(const char* name) {
  if (!active()) return 0;
  int i; for (i = 0; i < ncnt; i++) if (!strcmp(cnts[i].name, name)) break;
  if (i == ncnt) { if (ncnt == 32) return 0; strcpy(cnts[ncnt].name, name); cnts[ncnt].n = 0; ncnt++; }
  int n = ++cnts[i].n;
  for (i = 0; i < ninj; i++)
    if (!strcmp(injs[i].name, name) && injs[i].k == n) { injs[i].fired = 1; outf("env fail %s %d", name, injs[i].e); return injs[i].e; }
  return 0;
}

static void reg(int fd, const char* kind) {
  if (fd < 0 || fd >= MAXFD || !active()) return;
  struct ent* e = &L[fd];
  if (e->live && e->id >= 900000) e->live = 0;   /* transient fd of a `util` call, closed inside libc (fclose, closedir) */
  if (e->live) viol("LEDGER-REUSE", "kernel fd %d reused while f%d live", fd, e->id);
  e->live = 1; e->id = e->lastid = quiet ? 900000 + qcount++ : next_id++; e->bylib = 1; e->user = 0; e->xfer = 0; e->glob = 0; e->reported = 0;
  if (quiet) return;
  if (lock_want > 0 && !strcmp(kind, "pipe")) { e->glob = 1; lock_want--; }
  int fl = getfd_flags(fd);
  outf("env fd+ f%d %s cx=%d", e->id, kind, fl >= 0 && (fl & FD_CLOEXEC) ? 1 : 0);
}
static int reg_user(int fd, const char* kind) {          /* harness-created user fd */
  struct ent* e = &L[fd];
  e->live = 1; e->id = e->lastid = next_id++; e->bylib = 0; e->user = 1; e->xfer = 0; e->glob = 0; e->reported = 0; priv[fd] = 0;
  if (identity(fd, ident[fd])) ident[fd][0] = ident[fd][1] = 0;
  outf("env fd+ f%d %s cx=u", e->id, kind);
  return e->id;
}
static int kfd_of(int id) { for (int i = 0; i < MAXFD; i++) if (L[i].live && L[i].id == id) return i; return -1; }

static int do_close(int fd) {
  if (!active()) { if (fd >= 0 && fd < MAXFD) priv[fd] = 0; return (int) RAW(SYS_close, fd); }
  int e = inject("close"); if (e) { errno = e; return -1; }
  if (fd >= 0 && fd <= 2) viol("STDIO-CLOSE", "close(%d) inside a libuv call", fd);
  if (fd < 0 || fd >= MAXFD) return (int) RAW(SYS_close, fd);
  struct ent* en = &L[fd];
  if (!en->live) {
    if (getfd_flags(fd) >= 0) viol("FOREIGN-CLOSE", "close(%d): open descriptor libuv never created or adopted", fd);
    else viol("FOREIGN-CLOSE", "close of f%d which is not open any more (double close)", en->lastid);
    outf("env fd- f%d dead", en->lastid);
    if (priv[fd] || base[fd]) { errno = EBADF; return -1; }   /* protect the harness */
    return (int) RAW(SYS_close, fd);
  }
  if (en->user && !en->xfer && fd != auth_close)
    viol("FOREIGN-CLOSE", "close of user-owned f%d (no ownership transfer)", en->id);
  if (!quiet || en->id < 900000) outf("env fd- f%d", en->id);
  en->live = 0;
  if (fd == 2) return 0;
  return (int) RAW(SYS_close, fd);
}

/* ------------------------------------------------------------------ interposed entry points */
int close(int fd) { return do_close(fd); }
int socket(int d, int t, int p) {
  int e = inject("socket"); if (e) { errno = e; return -1; }
  int r = (int) RAW(SYS_socket, d, t, p); if (r >= 0) reg(r, "sock"); return r;
}
int socketpair(int d, int t, int p, int sv[2]) {
  int e = inject("socketpair"); if (e) { errno = e; return -1; }
  int r = (int) RAW(SYS_socketpair, d, t, p, sv); if (r == 0) { reg(sv[0], "sock"); reg(sv[1], "sock"); } return r;
}
int accept4(int s, struct sockaddr* a, socklen_t* l, int fl) {
  int e = inject("accept4"); if (e) { errno = e; return -1; }
  int r = (int) RAW(SYS_accept4, s, a, l, fl); if (r >= 0) reg(r, "sock"); return r;
}
int accept(int s, struct sockaddr* a, socklen_t* l) {
  int e = inject("accept4"); if (e) { errno = e; return -1; }
  int r = (int) RAW(SYS_accept4, s, a, l, 0); if (r >= 0) reg(r, "sock"); return r;
}
int pipe2(int p[2], int fl) {
  int e = inject("pipe2"); if (e) { errno = e; return -1; }
  int r = (int) RAW(SYS_pipe2, p, fl); if (r == 0) { reg(p[0], "pipe"); reg(p[1], "pipe"); } return r;
}
int pipe(int p[2]) { return pipe2(p, 0); }
static int open_common(int dirfd, const char* path, int fl, int mode) {
  int e = inject("open"); if (e) { errno = e; return -1; }
  int r = (int) RAW(SYS_openat, dirfd, path, fl, mode); if (r >= 0) reg(r, "file"); return r;
}
int open(const char* path, int fl, ...) { va_list ap; va_start(ap, fl); int m = va_arg(ap, int); va_end(ap); return open_common(AT_FDCWD, path, fl, m); }
int openat(int d, const char* path, int fl, ...) { va_list ap; va_start(ap, fl); int m = va_arg(ap, int); va_end(ap); return open_common(d, path, fl, m); }
static void reg_dup(int oldfd, int newfd, const char* kind) {
  if (!active() || newfd < 0 || newfd >= MAXFD) return;
  if (L[newfd].live) {        /* dup2/dup3 onto a live descriptor: replaced in place, owner unchanged */
    int fl = getfd_flags(newfd);
    outf("env fd= f%d from f%d cx=%d", L[newfd].id, oldfd >= 0 && oldfd < MAXFD && L[oldfd].live ? L[oldfd].id : -1, fl >= 0 && (fl & FD_CLOEXEC) ? 1 : 0);
  } else reg(newfd, kind);
}
int dup(int fd) { int r = (int) RAW(SYS_dup, fd); if (r >= 0) reg_dup(fd, r, "dup"); return r; }
int dup2(int o, int n) { int e = inject("dup3"); if (e) { errno = e; return -1; } int r = (o == n) ? n : (int) RAW(SYS_dup3, o, n, 0); if (r >= 0 && o != n) reg_dup(o, r, "dup"); return r; }
int dup3(int o, int n, int fl) { int e = inject("dup3"); if (e) { errno = e; return -1; } int r = (int) RAW(SYS_dup3, o, n, fl); if (r >= 0) reg_dup(o, r, "dup"); return r; }
static int fcntl_common(int fd, int cmd, long arg) {
  int r = (int) RAW(SYS_fcntl, fd, cmd, arg);
  if (r >= 0 && (cmd == F_DUPFD || cmd == F_DUPFD_CLOEXEC)) reg_dup(fd, r, "dup");
  return r;
}
int fcntl(int fd, int cmd, ...) { va_list ap; va_start(ap, cmd); long a = va_arg(ap, long); va_end(ap); return fcntl_common(fd, cmd, a); }
int eventfd(unsigned int v, int fl) {
  int e = inject("eventfd"); if (e) { errno = e; return -1; }
  int r = (int) RAW(SYS_eventfd2, v, fl); if (r >= 0) reg(r, "evfd"); return r;
}
int epoll_create1(int fl) {
  int e = inject("epoll_create1"); if (e) { errno = e; return -1; }
  int r = (int) RAW(SYS_epoll_create1, fl); if (r >= 0) reg(r, "epoll"); return r;
}
int epoll_create(int n) { return epoll_create1(0); }
int inotify_init1(int fl) {
  int e = inject("inotify_init1"); if (e) { errno = e; return -1; }
  int r = (int) RAW(SYS_inotify_init1, fl); if (r >= 0) reg(r, "inot"); return r;
}
int inotify_init(void) { return inotify_init1(0); }
ssize_t recvmsg(int fd, struct msghdr* m, int fl) {
  ssize_t r = RAW(SYS_recvmsg, fd, m, fl);
  if (r >= 0 && active() && m->msg_controllen) {
    for (struct cmsghdr* c = CMSG_FIRSTHDR(m); c; c = CMSG_NXTHDR(m, c)) {
      if (c->cmsg_level != SOL_SOCKET || c->cmsg_type != SCM_RIGHTS) continue;
      int n = (c->cmsg_len - CMSG_LEN(0)) / sizeof(int);
      for (int i = 0; i < n; i++) { int k; memcpy(&k, CMSG_DATA(c) + i * sizeof(int), sizeof k); reg(k, "ipc"); }
    }
  }
  return r;
}
int setsockopt(int fd, int level, int opt, const void* v, socklen_t l) {
  if (level == IPPROTO_TCP && opt == TCP_NODELAY) { int e = inject("nodelay"); if (e) { errno = e; return -1; } }
  return (int) RAW(SYS_setsockopt, fd, level, opt, v, l);
}
/* fork(): the kernel may refuse (EAGAIN: RLIMIT_NPROC / pids.max, ENOMEM); the real one runs the atfork handlers */
pid_t fork(void) {
  static pid_t (*real_fork)(void);
  if (!forking) { int e = inject("fork"); if (e) { errno = e; return -1; } }
  if (real_fork == NULL) real_fork = (pid_t (*)(void)) dlsym(RTLD_NEXT, "fork");
  return real_fork();
}
/* libuv's allocator (uv_replace_allocator): failures injected by occurrence, like the syscalls */
static void* a_malloc(size_t n) { if (active()) { int e = inject("malloc"); if (e) { errno = ENOMEM; return NULL; } } return malloc(n); }
static void* a_realloc(void* p, size_t n) { if (active() && p != NULL) { int e = inject("realloc"); if (e) { errno = ENOMEM; return NULL; } } return realloc(p, n); }
static void* a_calloc(size_t a, size_t b) { return calloc(a, b); }
static void a_free(void* p) { free(p); }
__attribute__((no_sanitize("address")))
long syscall(long n, ...) {
  va_list ap; va_start(ap, n);
  long a = va_arg(ap, long), b = va_arg(ap, long), c = va_arg(ap, long), d = va_arg(ap, long), e = va_arg(ap, long), f = va_arg(ap, long);
  va_end(ap);
  if (n == SYS_close) return do_close((int) a);
  if (n == SYS_io_uring_setup) {
    int er = inject("io_uring_setup"); if (er) { errno = er; return -1; }
    long r = rx(raw6(n, a, b, c, d, e, f)); if (r >= 0) reg((int) r, "ring"); return r;
  }
  return rx(raw6(n, a, b, c, d, e, f));
}

/* ------------------------------------------------------------------ handles */
enum { K_TCP, K_PIPE, K_UDP, K_TTY, K_POLL, K_ASYNC, K_SIGNAL, K_FSEV, K_PROC };
static const char* KN[] = { "tcp", "pipe", "udp", "tty", "poll", "async", "signal", "fsev", "proc" };
struct H { int kind, st /*0 dead 1 live 2 closing 3 closed*/, policy /*0 hold 1 accept*/, counted; uv_handle_t* h; };
static struct H HS[1024]; static int nh;
static uv_loop_t* loop; static int loop_ok;
static long progress; static int nproc_live, nconn_inflight;

static int newh(int kind) { HS[nh].kind = kind; HS[nh].st = 0; HS[nh].policy = 0; HS[nh].counted = 0; HS[nh].h = calloc(1, sizeof(union uv_any_handle)); return nh++; }
static int idx_of(uv_handle_t* h) { for (int i = 0; i < nh; i++) if (HS[i].h == h) return i; return -1; }
static void close_cb(uv_handle_t* h) { int i = idx_of(h); progress++; if (i >= 0) { HS[i].st = 3; HS[i].h = NULL; } free(h); }
static void do_uvclose(int i) { if (HS[i].st == 1) { if (HS[i].counted) { HS[i].counted = 0; nproc_live--; } HS[i].st = 2; uv_close(HS[i].h, close_cb); } }
static void kill_dead(int i) { free(HS[i].h); HS[i].h = NULL; HS[i].st = 0; }

static int init_stream_like(int kind, int* rc) {  /* used by accept policies */
  int i = newh(kind);
  if (kind == K_TCP) *rc = uv_tcp_init(loop, (uv_tcp_t*) HS[i].h);
  else if (kind == K_PIPE) *rc = uv_pipe_init(loop, (uv_pipe_t*) HS[i].h, 0);
  else *rc = uv_udp_init(loop, (uv_udp_t*) HS[i].h);
  if (*rc == 0) HS[i].st = 1; else kill_dead(i);
  return i;
}
static void conn_cb(uv_stream_t* s, int status) {
  int i = idx_of((uv_handle_t*) s); progress++;
  outf("cb conn h%d %s", i, status == 0 ? "0" : "E");
  if (i < 0 || status) return;
  if (HS[i].policy == 1) {
    int rc; int c = init_stream_like(HS[i].kind, &rc);
    int r = uv_accept(s, (uv_stream_t*) HS[c].h);
    outf("cb accept h%d h%d %s", i, c, r == 0 ? "0" : "E");
  } else if (HS[i].policy == 2) { do_uvclose(i); outf("cb close h%d", i); }
}
static void connect_cb(uv_connect_t* req, int status) { progress++; nconn_inflight--; outf("# connect_cb %s", status ? uv_err_name(status) : "0"); free(req); }
static void alloc_cb(uv_handle_t* h, size_t n, uv_buf_t* b) { static char slab[65536]; b->base = slab; b->len = sizeof slab; }
static void read_cb(uv_stream_t* s, ssize_t n, const uv_buf_t* b) {
  int i = idx_of((uv_handle_t*) s); progress++;
  if (n < 0) { outf("# read h%d %s", i, uv_err_name((int) n)); uv_read_stop(s); return; }   /* EOF: peer closed, no descriptor effect */
  if (n == 0) return;
  outf("cb read h%d %d", i, (int) n);
  if (HS[i].kind != K_PIPE || HS[i].policy != 1) return;
  while (uv_pipe_pending_count((uv_pipe_t*) s) > 0) {
    uv_handle_type t = uv_pipe_pending_type((uv_pipe_t*) s);
    int kind = t == UV_TCP ? K_TCP : t == UV_UDP ? K_UDP : K_PIPE;
    int rc; int c = init_stream_like(kind, &rc);
    int r = uv_accept(s, (uv_stream_t*) HS[c].h);
    outf("cb accept h%d h%d %s", i, c, r == 0 ? "0" : "E");
    if (r) break;
  }
}
static void exit_cb(uv_process_t* p, int64_t st, int sig) { int i = idx_of((uv_handle_t*) p); progress++; outf("# exit h%d status=%d", i, (int) st); do_uvclose(i); }
static void noop_async(uv_async_t* a) {}
static void noop_signal(uv_signal_t* s, int n) {}
static void noop_fsev(uv_fs_event_t* h, const char* f, int ev, int st) {}
static void noop_poll(uv_poll_t* h, int st, int ev) {}

static int fs_done; static long fs_result;
static void fs_cb(uv_fs_t* req) { fs_done = 1; fs_result = req->result; progress++; }
/* thread-pool variant of an fs request: submit, then turn the loop until its callback ran */
static long fs_wait(uv_fs_t* req, int rc) {
  if (rc < 0) return rc;
  for (int it = 0; it < 200000 && !fs_done; it++) { uv_run(loop, UV_RUN_NOWAIT); if (!fs_done) usleep(200); }
  long r = fs_done ? fs_result : UV_ETIMEDOUT; uv_fs_req_cleanup(req); return r;
}
/* ------------------------------------------------------------------ monitors */
static int scan_proc(char* open_now) {       /* fills open_now[MAXFD]; raw getdents to avoid libc fds */
  memset(open_now, 0, MAXFD);
  int d = (int) RAW(SYS_openat, AT_FDCWD, "/proc/self/fd", O_RDONLY | O_DIRECTORY | O_CLOEXEC, 0);
  if (d < 0) return -1;
  char buf[8192];
  for (;;) {
    long n = raw6(SYS_getdents64, d, (long) buf, sizeof buf, 0, 0, 0);
    if (n <= 0) break;
    for (long o = 0; o < n;) {
      struct dirent64* e = (struct dirent64*) (buf + o);
      if (e->d_name[0] != '.') { int k = atoi(e->d_name); if (k != d && k >= 0 && k < MAXFD) open_now[k] = 1; }
      o += e->d_reclen;
    }
  }
  raw6(SYS_close, d, 0, 0, 0, 0, 0);
  return 0;
}
static void owners_of(int k, char* out, size_t cap) {   /* which libuv struct fields hold kernel fd k */
  out[0] = 0; int n = 0;
#define ADD(...) do { n += snprintf(out + n, cap - n, "%s", n ? "+" : ""); n += snprintf(out + n, cap - n, __VA_ARGS__); } while (0)
  if (loop_ok) {
    uv__loop_internal_fields_t* lf = uv__get_internal_fields(loop);
    if (loop->backend_fd == k) ADD("L");
    if (loop->emfile_fd == k) ADD("L");
    if (loop->async_io_watcher.fd == k) ADD("L");
    if (loop->async_wfd == k) ADD("L");
    if (loop->signal_pipefd[0] == k) ADD("L");
    if (loop->signal_pipefd[1] == k) ADD("L");
    if (loop->inotify_fd == k) ADD("L");
    if (lf->ctl.ringfd == k) ADD("L");
    if (lf->iou.ringfd == k) ADD("L");
  }
  for (int i = 0; i < nh; i++) {
    if (HS[i].st != 1 && HS[i].st != 2) continue;
    if (HS[i].kind == K_TCP || HS[i].kind == K_PIPE || HS[i].kind == K_TTY) {
      uv_stream_t* s = (uv_stream_t*) HS[i].h;
      if (s->io_watcher.fd == k) ADD("h%d.io", i);
      if (s->accepted_fd == k) ADD("h%d.acc", i);
      if (s->queued_fds) { uv__stream_queued_fds_t* q = s->queued_fds; for (unsigned j = 0; j < q->offset; j++) if (q->fds[j] == k) ADD("h%d.q", i); }
    } else if (HS[i].kind == K_UDP) {
      if (((uv_udp_t*) HS[i].h)->io_watcher.fd == k) ADD("h%d.io", i);
    }
  }
#undef ADD
}
/* unknown descriptors that appeared inside a libuv call (created through a path we do not interpose,
 * e.g. glibc's mkostemp): adopt them into the ledger as libuv-created */
static void adopt(const char* now) {
  for (int k = 0; k < MAXFD; k++)
    if (now[k] && !L[k].live && !priv[k] && !base[k]) { in_uv = 1; reg(k, "file"); in_uv = 0; }
}
/* every loop / handle field that holds a descriptor number must refer to an open, ledger-known descriptor */
static void dangling(const char* now) {
  static char dseen[MAXFD];
#define CHK(v, ...) do { int k_ = (v); if (k_ >= 0 && k_ < MAXFD && (!now[k_] || !L[k_].live) && !dseen[k_]++) { char b_[96]; snprintf(b_, sizeof b_, __VA_ARGS__); viol("DANGLING-FIELD", "%s holds descriptor number %d which is closed (a later descriptor with that number would be closed by mistake)", b_, k_); } } while (0)
  if (loop_ok) {
    uv__loop_internal_fields_t* lf = uv__get_internal_fields(loop);
    CHK(loop->backend_fd, "loop.backend_fd"); CHK(loop->emfile_fd, "loop.emfile_fd"); CHK(loop->async_io_watcher.fd, "loop.async_io_watcher.fd");
    CHK(loop->signal_pipefd[0], "loop.signal_pipefd[0]"); CHK(loop->signal_pipefd[1], "loop.signal_pipefd[1]"); CHK(loop->inotify_fd, "loop.inotify_fd");
    CHK(lf->ctl.ringfd, "loop.ctl.ringfd");
  }
  for (int i = 0; i < nh; i++) {
    if (HS[i].st != 1) continue;
    if (HS[i].kind == K_TCP || HS[i].kind == K_PIPE || HS[i].kind == K_TTY) {
      uv_stream_t* s = (uv_stream_t*) HS[i].h;
      CHK(s->io_watcher.fd, "h%d.io_watcher.fd", i); CHK(s->accepted_fd, "h%d.accepted_fd", i);
      if (s->queued_fds) { uv__stream_queued_fds_t* q = s->queued_fds; for (unsigned j = 0; j < q->offset; j++) CHK(q->fds[j], "h%d.queued_fds[%u]", i, j); }
    } else if (HS[i].kind == K_UDP) CHK(((uv_udp_t*) HS[i].h)->io_watcher.fd, "h%d.io_watcher.fd", i);
  }
#undef CHK
}
static void monitors(int final) {
  char now[MAXFD]; if (scan_proc(now)) { viol("PROC", "cannot read /proc/self/fd"); return; }
  dangling(now);
  char line[8192]; int n = 0; line[0] = 0;
  adopt(now);
  for (int id = 0; id < next_id; id++) {
    int k = kfd_of(id); if (k < 0) continue;
    struct ent* e = &L[k];
    if (!now[k]) { viol("FD-VANISHED", "f%d (kernel %d) is not open any more but nobody logged a close", e->id, k); e->live = 0; continue; }
    if (!e->bylib && e->user && (ident[k][0] || ident[k][1])) {
      unsigned long long id[2];
      if (identity(k, id) == 0 && (id[0] != ident[k][0] || id[1] != ident[k][1]) && !(e->reported & 16) && (e->reported |= 16))
        viol("FD-REPLACED", "caller's f%d (kernel %d) no longer refers to the open file it referred to when the caller created it", e->id, k);
    }
    if (e->bylib) { int fl = getfd_flags(k); if ((fl < 0 || !(fl & FD_CLOEXEC)) && !(e->reported & 2) && (e->reported |= 2)) viol("NO-CLOEXEC", "f%d created by libuv lacks FD_CLOEXEC at API return", e->id); }
    char ow[256]; owners_of(k, ow, sizeof ow);
    if (ow[0] && e->user && !e->xfer && !(e->reported & 8) && (e->reported |= 8))
      viol("BORROWED-FD", "%s keeps the caller's f%d although the call that was given it did not succeed (it will be closed behind the caller's back)", ow, e->id);
    if (!ow[0] && e->user && e->xfer) e->xfer = 0;   /* handle closed, stdio descriptor left open: back to the caller */
    if (strchr(ow, '+') && !(e->reported & 4) && (e->reported |= 4)) viol("OWNER-DUP", "f%d referenced by %s", e->id, ow);
    const char* o = ow[0] ? ow : (e->user ? "U" : e->glob ? "G" : "-");
    if (!strcmp(o, "-") && !(e->reported & 1) && (e->reported |= 1)) viol("LEAK", "f%d created by libuv is open at API return but no loop/handle field refers to it and it was not handed to the caller", e->id);
    n += snprintf(line + n, sizeof line - n, " f%d:%s", e->id, o);
    if (n > (int) sizeof line - 64) break;
  }
  outf("own%s", line);
  if (final && !loop_ok) {
    int extra = 0;
    for (int k = 0; k < MAXFD; k++) if (now[k] && !base[k] && !priv[k]) { if (L[k].live && L[k].bylib && !L[k].user) extra++; else viol("LEAK", "kernel fd %d open at the end", k); }
    if (extra > 2) viol("LEAK", "%d libuv descriptors still open after uv_loop_close (only the 2 signal-lock pipe ends may stay)", extra);
    for (int k = 3; k < MAXFD; k++) if (base[k] && !now[k]) viol("FD-VANISHED", "baseline fd %d closed", k);
  }
}

/* ------------------------------------------------------------------ user-side helpers (not libuv) */
static int place(int fd, int at) {      /* move a user fd onto stdio number `at` (0/1/2) */
  if (at < 0) return fd;
  if (at == 2 && err_fd < 0) { err_fd = (int) RAW(SYS_fcntl, 2, F_DUPFD_CLOEXEC, 1001); if (err_fd >= 0) priv[err_fd] = 1; }
  raw6(SYS_dup3, fd, at, 0, 0, 0, 0); raw6(SYS_close, fd, 0, 0, 0, 0, 0); return at;
}
static int mk_sock(int dom, int type) { return (int) RAW(SYS_socket, dom, type | SOCK_CLOEXEC, 0); }
static void restore_stderr(void) { if (err_fd >= 0) { raw6(SYS_dup3, err_fd, 2, 0, 0, 0, 0); raw6(SYS_close, err_fd, 0, 0, 0, 0, 0); priv[err_fd] = 0; err_fd = -1; } }
static void userclose_all(void) { for (int k = 0; k < MAXFD; k++) if (L[k].live && L[k].user) { if (k > 2) raw6(SYS_close, k, 0, 0, 0, 0, 0); else if (k == 2) restore_stderr(); L[k].live = 0; } }

static void child_main(void) {
  char now[MAXFD], b[512]; int n = 0;
  scan_proc(now);
  n += snprintf(b + n, sizeof b - n, "childfds");
  for (int k = 0; k < MAXFD && n < 480; k++) if (now[k]) n += snprintf(b + n, sizeof b - n, " %d", k);
  b[n++] = '\n';
  raw6(SYS_write, 1, (long) b, n, 0, 0, 0);
  _exit(0);
}

#define UVCALL(expr) (in_uv = 1, rc_ = (expr), in_uv = 0, rc_)
static const char* R(int rc) { return rc == 0 ? "0" : "E"; }
static int hid(const char* s) { return s && s[0] == 'h' ? atoi(s + 1) : -1; }
static int fid(const char* s) { return s && s[0] == 'f' ? atoi(s + 1) : -1; }
static int live_h(int i, int kind) { return i >= 0 && i < nh && HS[i].st == 1 && (kind < 0 || HS[i].kind == kind); }

static void tcp_addr_of(int i, struct sockaddr_in* a) { int l = sizeof *a; memset(a, 0, sizeof *a); uv_tcp_getsockname((uv_tcp_t*) HS[i].h, (struct sockaddr*) a, &l); }
static char pipename[1024][300];

int main(int argc, char** argv) {
  if (argc > 1 && !strcmp(argv[1], "child")) child_main();
  main_pid = getpid();
  uv_replace_allocator(a_malloc, a_realloc, a_calloc, a_free);
  snprintf(tmpdir, sizeof tmpdir, "%s", argc > 1 ? argv[1] : "/var/tmp");
  /* slurp the program, then free stdio 0/1 for the stdio-wrapping ops */
  static char prog[1 << 20]; size_t pl = 0; ssize_t r;
  while ((r = read(0, prog + pl, sizeof prog - 1 - pl)) > 0) pl += r;
  prog[pl] = 0;
  out_fd = (int) RAW(SYS_fcntl, 1, F_DUPFD_CLOEXEC, 1000);
  priv[out_fd] = 1;
  { int nul = (int) RAW(SYS_openat, AT_FDCWD, "/dev/null", O_RDWR, 0); raw6(SYS_dup3, nul, 0, 0, 0, 0, 0); raw6(SYS_dup3, nul, 1, 0, 0, 0, 0); raw6(SYS_close, nul, 0, 0, 0, 0, 0); }
  char exe[512]; { ssize_t n = readlink("/proc/self/exe", exe, sizeof exe - 1); exe[n > 0 ? n : 0] = 0; }
  { char now[MAXFD]; scan_proc(now); memcpy(base, now, MAXFD); base[out_fd] = 0; }
  loop = calloc(1, sizeof *loop);
  int rc_ = 0;

  char* save = NULL;
  for (char* line = strtok_r(prog, "\n", &save); line; line = strtok_r(NULL, "\n", &save)) {
    char copy[512]; snprintf(copy, sizeof copy, "%s", line);
    char* w[48]; int nw = 0; char* sv2 = NULL;
    for (char* t = strtok_r(copy, " \t", &sv2); t && nw < 48; t = strtok_r(NULL, " \t", &sv2)) w[nw++] = t;
    if (nw == 0 || w[0][0] == '#') continue;
    if (!strcmp(w[0], "fail") && nw == 4) {
      if (ninj < 8) { snprintf(injs[ninj].name, 24, "%s", w[1]); injs[ninj].k = atoi(w[2]); injs[ninj].e = atoi(w[3]); injs[ninj].fired = 0; ninj++; }
      continue;
    }
    outf("op %s", line);
    ncnt = 0;
    const char* op = w[0];
    int isfinal = 0;

    if (!strcmp(op, "loop_init") && loop_ok) {
      /* the loop is still live (never closed, or uv_loop_close returned UV_EBUSY): re-initialising its storage would
       * orphan its descriptors - that is a mistake of the caller, not an operation of the catalogue: refused, like the model */
      outf("bad-op");
    } else if (!strcmp(op, "loop_init")) {
      { int have = 0; for (int k = 0; k < MAXFD; k++) if (L[k].live && L[k].glob) have++; lock_want = have ? 0 : 2; }
      int rc = UVCALL(uv_loop_init(loop)); loop_ok = rc == 0; lock_want = 0; outf("ret %s", R(rc)); outf("# rc=%d", rc);
    } else if (!strcmp(op, "loop_close")) {
      int rc = loop_ok ? UVCALL(uv_loop_close(loop)) : UV_EINVAL; if (rc == 0) loop_ok = 0; outf("ret %s", R(rc));
    } else if (!loop_ok && strcmp(op, "end") && strcmp(op, "fork") && strcmp(op, "ufd") && strcmp(op, "uclose") && strcmp(op, "uv_pipe") && strcmp(op, "uv_socketpair")) {
      outf("bad-op");
    } else if (!strcmp(op, "tcp_init") && nw == 2) {
      int i = newh(K_TCP); int af = !strcmp(w[1], "inet") ? AF_INET : !strcmp(w[1], "inet6") ? AF_INET6 : AF_UNSPEC;
      int rc = UVCALL(uv_tcp_init_ex(loop, (uv_tcp_t*) HS[i].h, af)); if (rc == 0) HS[i].st = 1; else kill_dead(i);
      outf("ret %s", R(rc));
    } else if (!strcmp(op, "pipe_init") && nw == 2) {
      int i = newh(K_PIPE); int rc = UVCALL(uv_pipe_init(loop, (uv_pipe_t*) HS[i].h, atoi(w[1]))); HS[i].st = 1; outf("ret %s", R(rc));
    } else if (!strcmp(op, "udp_init") && nw == 2) {
      int i = newh(K_UDP); int af = !strcmp(w[1], "inet") ? AF_INET : AF_UNSPEC;
      int rc = UVCALL(uv_udp_init_ex(loop, (uv_udp_t*) HS[i].h, af)); if (rc == 0) HS[i].st = 1; else kill_dead(i);
      outf("ret %s", R(rc));
    } else if (!strcmp(op, "tty_init") && nw == 2) {
      int k = kfd_of(fid(w[1])); if (k < 0 || !L[k].user || L[k].xfer) { outf("bad-op"); goto after; }
      int i = newh(K_TTY); int rc = UVCALL(uv_tty_init(loop, (uv_tty_t*) HS[i].h, k, 0));
      if (rc == 0) { HS[i].st = 1; L[k].xfer = 1; } else kill_dead(i);
      outf("ret %s", R(rc));
    } else if (!strcmp(op, "poll_init") && nw == 2) {
      int k = kfd_of(fid(w[1])); if (k < 0) { outf("bad-op"); goto after; }
      int i = newh(K_POLL); int rc = UVCALL(uv_poll_init(loop, (uv_poll_t*) HS[i].h, k)); if (rc == 0) HS[i].st = 1; else kill_dead(i);
      if (rc == 0) UVCALL(uv_poll_start((uv_poll_t*) HS[i].h, UV_READABLE, noop_poll));
      outf("ret %s", R(rc));
    } else if (!strcmp(op, "async_init")) {
      int i = newh(K_ASYNC); int rc = UVCALL(uv_async_init(loop, (uv_async_t*) HS[i].h, noop_async)); if (rc == 0) HS[i].st = 1; else kill_dead(i);
      outf("ret %s", R(rc));
    } else if (!strcmp(op, "signal_start") && nw == 2) {
      int i = newh(K_SIGNAL); int rc = UVCALL(uv_signal_init(loop, (uv_signal_t*) HS[i].h)); if (rc == 0) HS[i].st = 1; else kill_dead(i);
      if (rc == 0) { rc = UVCALL(uv_signal_start((uv_signal_t*) HS[i].h, noop_signal, atoi(w[1]))); uv_unref(HS[i].h); }
      outf("ret %s", R(rc));
    } else if (!strcmp(op, "fs_event_start") && nw == 2) {
      int i = newh(K_FSEV); UVCALL(uv_fs_event_init(loop, (uv_fs_event_t*) HS[i].h)); HS[i].st = 1;
      char p[600]; snprintf(p, sizeof p, "%s/%s", tmpdir, !strcmp(w[1], "ok") ? "." : "no/such/dir");
      int rc = UVCALL(uv_fs_event_start((uv_fs_event_t*) HS[i].h, noop_fsev, p, 0)); uv_unref(HS[i].h);
      outf("ret %s", R(rc));
    } else if (!strcmp(op, "ufd") && nw >= 2) {
      int at = -1; if (nw >= 3 && !strncmp(w[2], "at=", 3)) at = atoi(w[2] + 3);
      if (at > 2) { outf("bad-op"); goto after; }
      if (at >= 0 && (L[0].live || L[1].live || L[2].live)) { outf("bad-op"); goto after; }   /* one stdio-placed descriptor at a time */
      if (!strcmp(w[1], "tcpsock")) reg_user(place(mk_sock(AF_INET, SOCK_STREAM), at), "sock");
      else if (!strcmp(w[1], "udpsock")) reg_user(place(mk_sock(AF_INET, SOCK_DGRAM), at), "sock");
      else if (!strcmp(w[1], "unixsock")) reg_user(place(mk_sock(AF_UNIX, SOCK_STREAM), at), "sock");
      else if (!strcmp(w[1], "file")) reg_user(place((int) RAW(SYS_openat, AT_FDCWD, "/dev/null", O_RDONLY | O_CLOEXEC, 0), at), "file");
      else if (!strcmp(w[1], "pipe")) { int p[2]; RAW(SYS_pipe2, p, O_CLOEXEC); reg_user(place(p[0], at), "pipe"); reg_user(p[1], "pipe"); }
      else if (!strcmp(w[1], "sockpair")) { int p[2]; RAW(SYS_socketpair, AF_UNIX, SOCK_STREAM | SOCK_CLOEXEC, 0, p); reg_user(place(p[0], at), "sock"); reg_user(p[1], "sock"); }
      else outf("bad-op");
    } else if (!strcmp(op, "uclose") && nw == 2) {
      int k = kfd_of(fid(w[1])); if (k < 0 || !L[k].user || L[k].xfer) { outf("bad-op"); goto after; }
      outf("env fd- f%d", L[k].id); L[k].live = 0;
      if (k > 2) raw6(SYS_close, k, 0, 0, 0, 0, 0);
      else if (k == 2) restore_stderr();
      else { int nul = (int) RAW(SYS_openat, AT_FDCWD, "/dev/null", O_RDWR, 0); raw6(SYS_dup3, nul, k, 0, 0, 0, 0); raw6(SYS_close, nul, 0, 0, 0, 0, 0); }
    } else if (!strcmp(op, "open") && nw == 3) {
      int i = hid(w[1]), k = kfd_of(fid(w[2]));
      if (!live_h(i, -1) || k < 0 || !L[k].user || L[k].xfer) { outf("bad-op"); goto after; }
      int rc;
      if (HS[i].kind == K_TCP) rc = UVCALL(uv_tcp_open((uv_tcp_t*) HS[i].h, k));
      else if (HS[i].kind == K_PIPE) rc = UVCALL(uv_pipe_open((uv_pipe_t*) HS[i].h, k));
      else if (HS[i].kind == K_UDP) rc = UVCALL(uv_udp_open((uv_udp_t*) HS[i].h, k));
      else { outf("bad-op"); goto after; }
      if (rc == 0) L[k].xfer = 1;
      outf("ret %s", R(rc)); outf("# rc=%d", rc);
    } else if (!strcmp(op, "bind") && nw >= 3) {
      int i = hid(w[1]); if (!live_h(i, -1)) { outf("bad-op"); goto after; }
      int rc;
      if (HS[i].kind == K_TCP || HS[i].kind == K_UDP) {
        struct sockaddr_in a; memset(&a, 0, sizeof a); a.sin_family = AF_INET; a.sin_addr.s_addr = htonl(INADDR_LOOPBACK);
        if (!strcmp(w[2], "bad")) a.sin_addr.s_addr = inet_addr("192.0.2.1");
        else if (!strcmp(w[2], "same") && nw == 4 && live_h(hid(w[3]), HS[i].kind)) {
          int l = sizeof a;
          if (HS[i].kind == K_TCP) tcp_addr_of(hid(w[3]), &a); else uv_udp_getsockname((uv_udp_t*) HS[hid(w[3])].h, (struct sockaddr*) &a, &l);
        } else if (strcmp(w[2], "ok")) { outf("bad-op"); goto after; }
        if (HS[i].kind == K_TCP) rc = UVCALL(uv_tcp_bind((uv_tcp_t*) HS[i].h, (struct sockaddr*) &a, 0));
        else rc = UVCALL(uv_udp_bind((uv_udp_t*) HS[i].h, (struct sockaddr*) &a, 0));
      } else if (HS[i].kind == K_PIPE) {
        if (!strcmp(w[2], "bad")) snprintf(pipename[i], 300, "%s/no/such/dir/p", tmpdir);
        else if (!strcmp(w[2], "same") && nw == 4 && hid(w[3]) >= 0 && hid(w[3]) < nh) snprintf(pipename[i], 300, "%s", pipename[hid(w[3])]);
        else snprintf(pipename[i], 300, "%s/P%d", tmpdir, i);
        rc = UVCALL(uv_pipe_bind((uv_pipe_t*) HS[i].h, pipename[i]));
      } else { outf("bad-op"); goto after; }
      outf("ret %s", R(rc)); outf("# rc=%d", rc);
    } else if (!strcmp(op, "listen") && nw == 2) {
      int i = hid(w[1]); if (!live_h(i, -1) || (HS[i].kind != K_TCP && HS[i].kind != K_PIPE)) { outf("bad-op"); goto after; }
      int rc = UVCALL(uv_listen((uv_stream_t*) HS[i].h, 512, conn_cb)); outf("ret %s", R(rc)); outf("# rc=%d", rc);
    } else if (!strcmp(op, "policy") && nw == 3) {
      int i = hid(w[1]); if (!live_h(i, -1)) { outf("bad-op"); goto after; }
      HS[i].policy = !strcmp(w[2], "accept") ? 1 : !strcmp(w[2], "close") ? 2 : 0; goto quiet;
    } else if (!strcmp(op, "read_start") && nw == 2) {
      int i = hid(w[1]); if (!live_h(i, -1)) { outf("bad-op"); goto after; }
      int rc = UVCALL(uv_read_start((uv_stream_t*) HS[i].h, alloc_cb, read_cb)); outf("ret %s", R(rc));
    } else if (!strcmp(op, "connect") && nw == 3) {
      int i = hid(w[1]), s = hid(w[2]); if (!live_h(i, -1)) { outf("bad-op"); goto after; }
      uv_connect_t* req = malloc(sizeof *req); int rc = 0;
      if (HS[i].kind == K_TCP) {
        struct sockaddr_in a; memset(&a, 0, sizeof a); a.sin_family = AF_INET; a.sin_addr.s_addr = htonl(INADDR_LOOPBACK); a.sin_port = htons(1);
        if (s >= 0) { if (!live_h(s, K_TCP)) { free(req); outf("bad-op"); goto after; } tcp_addr_of(s, &a); }
        rc = UVCALL(uv_tcp_connect(req, (uv_tcp_t*) HS[i].h, (struct sockaddr*) &a, connect_cb));
        if (rc) free(req); else nconn_inflight++;
      } else if (HS[i].kind == K_PIPE) {
        char nm[300]; if (s >= 0 && s < nh) snprintf(nm, sizeof nm, "%s", pipename[s]); else snprintf(nm, sizeof nm, "%s/nowhere", tmpdir);
        in_uv = 1; uv_pipe_connect(req, (uv_pipe_t*) HS[i].h, nm, connect_cb); in_uv = 0; nconn_inflight++;
      } else { free(req); outf("bad-op"); goto after; }
      outf("ret %s", R(rc));
    } else if (!strcmp(op, "accept") && nw == 3) {
      int s = hid(w[1]), c = hid(w[2]); if (!live_h(s, -1) || !live_h(c, -1)) { outf("bad-op"); goto after; }
      int rc = UVCALL(uv_accept((uv_stream_t*) HS[s].h, (uv_stream_t*) HS[c].h)); outf("ret %s", R(rc)); outf("# rc=%d", rc);
    } else if (!strcmp(op, "close") && nw == 2) {
      int i = hid(w[1]); if (!live_h(i, -1)) { outf("bad-op"); goto after; }
      outf("# close kind=%s", KN[HS[i].kind]);
      { int wf = -1; uv_fileno(HS[i].h, &wf); if (wf >= 0 && wf <= 2) outf("# close stdio=%d", wf); }
      in_uv = 1; do_uvclose(i); in_uv = 0; outf("ret 0");
    } else if (!strcmp(op, "run")) {
      in_uv = 1;
      int idle = 0;
      for (int it = 0; it < 20000 && idle < 3; it++) {
        long before = progress; uv_run(loop, UV_RUN_NOWAIT);
        if (progress == before) { if (nproc_live == 0 && nconn_inflight == 0) idle++; in_uv = 0; usleep(300); in_uv = 1; } else idle = 0;
      }
      in_uv = 0; outf("ret 0");
    } else if (!strcmp(op, "uv_pipe") && nw == 3) {
      int p[2] = { -1, -1 }; int rc = UVCALL(uv_pipe(p, atoi(w[1]) ? UV_NONBLOCK_PIPE : 0, atoi(w[2]) ? UV_NONBLOCK_PIPE : 0));
      if (rc == 0) { L[p[0]].user = 1; L[p[1]].user = 1; } outf("ret %s", R(rc));
    } else if (!strcmp(op, "uv_socketpair") && nw == 3) {
      int p[2] = { -1, -1 }; int rc = UVCALL(uv_socketpair(SOCK_STREAM, 0, p, atoi(w[1]) ? UV_NONBLOCK_PIPE : 0, atoi(w[2]) ? UV_NONBLOCK_PIPE : 0));
      if (rc == 0) { L[p[0]].user = 1; L[p[1]].user = 1; } outf("ret %s", R(rc));
    } else if (!strcmp(op, "fs_open") && (nw == 2 || (nw == 3 && !strcmp(w[2], "async")))) {
      char p[600]; static uv_fs_t req; int fl = O_RDONLY; int as = nw == 3;
      if (!strcmp(w[1], "ok")) snprintf(p, sizeof p, "/dev/null");
      else if (!strcmp(w[1], "creat")) { snprintf(p, sizeof p, "%s/F%d", tmpdir, next_id); fl = O_RDWR | O_CREAT; }
      else snprintf(p, sizeof p, "%s/missing", tmpdir);
      int rc;
      if (as) { fs_done = 0; in_uv = 1; rc = (int) fs_wait(&req, uv_fs_open(loop, &req, p, fl, 0600, fs_cb)); in_uv = 0; }
      else { rc = UVCALL(uv_fs_open(loop, &req, p, fl, 0600, NULL)); uv_fs_req_cleanup(&req); }
      if (rc >= 0 && rc < MAXFD && L[rc].live) { L[rc].user = 1; outf("ret f%d", L[rc].id); } else outf("ret %s", rc >= 0 ? "?" : "E");
    } else if (!strcmp(op, "fs_mkstemp")) {
      char p[600]; uv_fs_t req; snprintf(p, sizeof p, "%s/tXXXXXX", tmpdir);
      int rc = UVCALL(uv_fs_mkstemp(loop, &req, p, NULL)); uv_fs_req_cleanup(&req);
      { char now[MAXFD]; if (!scan_proc(now)) adopt(now); }
      if (rc >= 0 && rc < MAXFD && L[rc].live) { L[rc].user = 1; outf("ret f%d", L[rc].id); } else outf("ret %s", rc >= 0 ? "?" : "E");
    } else if (!strcmp(op, "fs_close") && nw == 2) {
      int k = kfd_of(fid(w[1])); if (k < 0 || !L[k].user || L[k].xfer || k <= 2) { outf("bad-op"); goto after; }
      uv_fs_t req; auth_close = k; int rc = UVCALL(uv_fs_close(loop, &req, k, NULL)); auth_close = -1; uv_fs_req_cleanup(&req); outf("ret %s", R(rc));
    } else if (!strcmp(op, "fs_copyfile") && (nw == 2 || (nw == 3 && !strcmp(w[2], "async")))) {
      /* variants: ok (fresh destination) | missing (no source) | same (dst = src path) | link (dst is a hard link to src)
       *           exists (dst exists, truncated) | excl (dst exists + UV_FS_COPYFILE_EXCL -> EEXIST) | ficlone */
      char a[600], b[600]; static uv_fs_t req; int flags = 0, as = nw == 3; const char* v = w[1];
      snprintf(a, sizeof a, "%s/%s", tmpdir, !strcmp(v, "missing") ? "missing" : "src"); snprintf(b, sizeof b, "%s/dst%d", tmpdir, next_id);
      if (strcmp(v, "ok") && strcmp(v, "missing") && strcmp(v, "same") && strcmp(v, "link") && strcmp(v, "exists") && strcmp(v, "excl") && strcmp(v, "ficlone")) { outf("bad-op"); goto after; }
      if (strcmp(v, "missing")) { int f = (int) RAW(SYS_openat, AT_FDCWD, a, O_WRONLY | O_CREAT | O_CLOEXEC, 0600); raw6(SYS_write, f, (long) "hello", 5, 0, 0, 0); raw6(SYS_close, f, 0, 0, 0, 0, 0); }
      if (!strcmp(v, "same")) snprintf(b, sizeof b, "%s", a);
      if (!strcmp(v, "link")) { raw6(SYS_unlinkat, AT_FDCWD, (long) b, 0, 0, 0, 0); raw6(SYS_linkat, AT_FDCWD, (long) a, AT_FDCWD, (long) b, 0, 0); }
      if (!strcmp(v, "exists") || !strcmp(v, "excl")) { int f = (int) RAW(SYS_openat, AT_FDCWD, b, O_WRONLY | O_CREAT | O_CLOEXEC, 0600); raw6(SYS_write, f, (long) "old-old-old", 11, 0, 0, 0); raw6(SYS_close, f, 0, 0, 0, 0, 0); }
      if (!strcmp(v, "excl")) flags = UV_FS_COPYFILE_EXCL;
      if (!strcmp(v, "ficlone")) flags = UV_FS_COPYFILE_FICLONE;
      int rc;
      if (as) { fs_done = 0; in_uv = 1; rc = (int) fs_wait(&req, uv_fs_copyfile(loop, &req, a, b, flags, fs_cb)); in_uv = 0; }
      else { rc = UVCALL(uv_fs_copyfile(loop, &req, a, b, flags, NULL)); uv_fs_req_cleanup(&req); }
      outf("ret %s", R(rc));
    } else if ((!strcmp(op, "nodelay") || !strcmp(op, "keepalive")) && nw == 2) {
      int i = hid(w[1]); if (!live_h(i, K_TCP)) { outf("bad-op"); goto after; }
      int rc = !strcmp(op, "nodelay") ? UVCALL(uv_tcp_nodelay((uv_tcp_t*) HS[i].h, 1)) : UVCALL(uv_tcp_keepalive((uv_tcp_t*) HS[i].h, 1, 60));
      outf("ret %s", R(rc)); outf("# rc=%d", rc);
    } else if (!strcmp(op, "flood") && nw == 3) {
      /* n clients connect to listening server w[1] and go away again: the connections stay in the backlog */
      int sv = hid(w[1]), n = atoi(w[2]); if (!live_h(sv, -1) || (HS[sv].kind != K_TCP && HS[sv].kind != K_PIPE) || n < 0 || n > 400) { outf("bad-op"); goto after; }
      int okc = 0;
      for (int j = 0; j < n; j++) {
        int c; long cr;
        if (HS[sv].kind == K_TCP) { struct sockaddr_in a; tcp_addr_of(sv, &a); c = mk_sock(AF_INET, SOCK_STREAM); cr = raw6(SYS_connect, c, (long) &a, sizeof a, 0, 0, 0); }
        else { struct sockaddr_un u; memset(&u, 0, sizeof u); u.sun_family = AF_UNIX; snprintf(u.sun_path, sizeof u.sun_path, "%s", pipename[sv]); c = mk_sock(AF_UNIX, SOCK_STREAM); cr = raw6(SYS_connect, c, (long) &u, sizeof u, 0, 0, 0); }
        if (cr == 0) okc++;
        raw6(SYS_close, c, 0, 0, 0, 0, 0);
      }
      outf("ret %s", okc == n ? "0" : "E");
    } else if (!strcmp(op, "util") && nw == 2) {
      /* calls outside the catalogue: only the monitors judge them (no env lines, the model says `ret 0`) */
      const char* u = w[1]; quiet = 1; in_uv = 1;
      if (!strcmp(u, "cpu_info")) { uv_cpu_info_t* ci; int n; if (uv_cpu_info(&ci, &n) == 0) uv_free_cpu_info(ci, n); }
      else if (!strcmp(u, "exepath")) { char b[512]; size_t l = sizeof b; uv_exepath(b, &l); }
      else if (!strcmp(u, "memory")) { size_t r; uv_get_free_memory(); uv_get_total_memory(); uv_get_constrained_memory(); uv_get_available_memory(); uv_resident_set_memory(&r); }
      else if (!strcmp(u, "uptime")) { double d; double la[3]; uv_uptime(&d); uv_loadavg(la); }
      else if (!strcmp(u, "ifaddrs")) { uv_interface_address_t* ia; int n; if (uv_interface_addresses(&ia, &n) == 0) uv_free_interface_addresses(ia, n); }
      else if (!strcmp(u, "random")) { char b[64]; uv_random(NULL, NULL, b, sizeof b, 0, NULL); }
      else if (!strcmp(u, "passwd")) { uv_passwd_t pw; if (uv_os_get_passwd(&pw) == 0) uv_os_free_passwd(&pw); char b[256]; size_t l = sizeof b; uv_os_homedir(b, &l); l = sizeof b; uv_os_tmpdir(b, &l); }
      else if (!strcmp(u, "scandir")) { uv_fs_t r; uv_dirent_t de; if (uv_fs_scandir(loop, &r, tmpdir, 0, NULL) >= 0) while (uv_fs_scandir_next(&r, &de) != UV_EOF); uv_fs_req_cleanup(&r); }
      else if (!strcmp(u, "readdir")) {
        uv_fs_t r; uv_dirent_t de[4];
        if (uv_fs_opendir(loop, &r, tmpdir, NULL) == 0) { uv_dir_t* d = r.ptr; uv_fs_req_cleanup(&r); d->dirents = de; d->nentries = 4;
          uv_fs_readdir(loop, &r, d, NULL); uv_fs_req_cleanup(&r); uv_fs_closedir(loop, &r, d, NULL); }
        uv_fs_req_cleanup(&r); }
      else if (!strcmp(u, "stat")) { uv_fs_t r; uv_fs_stat(loop, &r, tmpdir, NULL); uv_fs_req_cleanup(&r); uv_fs_lstat(loop, &r, "/dev/null", NULL); uv_fs_req_cleanup(&r); uv_fs_statfs(loop, &r, tmpdir, NULL); uv_fs_req_cleanup(&r); }
      else if (!strcmp(u, "realpath")) { uv_fs_t r; uv_fs_realpath(loop, &r, tmpdir, NULL); uv_fs_req_cleanup(&r); uv_fs_access(loop, &r, tmpdir, 0, NULL); uv_fs_req_cleanup(&r); }
      else if (!strcmp(u, "mkdtemp")) { uv_fs_t r; char t[600]; snprintf(t, sizeof t, "%s/dXXXXXX", tmpdir); uv_fs_mkdtemp(loop, &r, t, NULL); uv_fs_req_cleanup(&r); }
      else { in_uv = 0; quiet = 0; outf("bad-op"); goto after; }
      in_uv = 0; quiet = 0;
      { char now_[MAXFD]; if (!scan_proc(now_)) for (int k = 0; k < MAXFD; k++) if (L[k].live && L[k].id >= 900000 && !now_[k]) L[k].live = 0; }
      for (int k = 0; k < MAXFD; k++) if (L[k].live && L[k].id >= 900000) { viol("LEAK", "kernel fd %d created inside `util %s` is still open when the call returned", k, u); L[k].live = 0; priv[k] = 1; }
      outf("ret 0");
    } else if (!strcmp(op, "ipc_send") && nw >= 4) {
      /* ipc_send f<peer> h<receiver> kinds...: send fresh descriptors over user fd w[1] (peer of IPC pipe handle w[2]) */
      int k = kfd_of(fid(w[1])); if (k < 0 || !L[k].user || L[k].xfer) { outf("bad-op"); goto after; }
      int fds[32], nf = 0;
      for (int j = 3; j < nw && nf < 32; j++) fds[nf++] = !strcmp(w[j], "tcp") ? mk_sock(AF_INET, SOCK_STREAM) : !strcmp(w[j], "udp") ? mk_sock(AF_INET, SOCK_DGRAM) : mk_sock(AF_UNIX, SOCK_STREAM);
      struct msghdr m; memset(&m, 0, sizeof m); struct iovec iv = { "x", 1 }; char cb[CMSG_SPACE(32 * sizeof(int))]; memset(cb, 0, sizeof cb);
      m.msg_iov = &iv; m.msg_iovlen = 1; m.msg_control = cb; m.msg_controllen = CMSG_SPACE(nf * sizeof(int));
      struct cmsghdr* c = CMSG_FIRSTHDR(&m); c->cmsg_level = SOL_SOCKET; c->cmsg_type = SCM_RIGHTS; c->cmsg_len = CMSG_LEN(nf * sizeof(int));
      memcpy(CMSG_DATA(c), fds, nf * sizeof(int));
      long sr = RAW(SYS_sendmsg, k, &m, MSG_NOSIGNAL);
      for (int j = 0; j < nf; j++) raw6(SYS_close, fds[j], 0, 0, 0, 0, 0);
      outf("ret %s", sr == 1 ? "0" : "E");
    } else if (!strcmp(op, "spawn") && nw >= 5) {
      /* spawn <ok|missing> c0 c2 c3   with c in {i, h<n> (create pipe), f<n> (inherit user fd), s<n> (inherit stream of handle n), -}; stdio[1] = private report pipe */
      int rp[2]; RAW(SYS_pipe2, rp, O_CLOEXEC); priv[rp[0]] = priv[rp[1]] = 1;
      uv_stdio_container_t io[4]; int cnt = 3; const char* spec[4] = { w[2], NULL, w[3], w[4] };
      int bad = 0;
      for (int j = 0; j < 4; j++) {
        if (j == 1) { io[1].flags = UV_INHERIT_FD; io[1].data.fd = rp[1]; continue; }
        const char* s = spec[j];
        if (!strcmp(s, "-")) { if (j == 3) continue; bad = 1; }
        else if (!strcmp(s, "i")) io[j].flags = UV_IGNORE;
        else if (s[0] == 'h' && live_h(hid(s), K_PIPE)) { io[j].flags = UV_CREATE_PIPE | UV_READABLE_PIPE | UV_WRITABLE_PIPE; io[j].data.stream = (uv_stream_t*) HS[hid(s)].h; }
        else if (s[0] == 'f' && kfd_of(fid(s)) >= 0) { io[j].flags = UV_INHERIT_FD; io[j].data.fd = kfd_of(fid(s)); }
        else if (s[0] == 's' && live_h(atoi(s + 1), -1) && (HS[atoi(s + 1)].kind == K_TCP || HS[atoi(s + 1)].kind == K_PIPE || HS[atoi(s + 1)].kind == K_TTY)) {
          io[j].flags = UV_INHERIT_STREAM; io[j].data.stream = (uv_stream_t*) HS[atoi(s + 1)].h; }
        else bad = 1;
        if (j == 3) cnt = 4;
      }
      if (bad) { raw6(SYS_close, rp[0], 0, 0, 0, 0, 0); raw6(SYS_close, rp[1], 0, 0, 0, 0, 0); priv[rp[0]] = priv[rp[1]] = 0; outf("bad-op"); goto after; }
      int i = newh(K_PROC);
      char* args[] = { exe, "child", NULL };
      uv_process_options_t o; memset(&o, 0, sizeof o);
      o.file = !strcmp(w[1], "ok") ? exe : "/no/such/program"; o.args = args; o.stdio = io; o.stdio_count = cnt; o.exit_cb = exit_cb;
      int rc = UVCALL(uv_spawn(loop, (uv_process_t*) HS[i].h, &o));
      HS[i].st = 1;
      if (rc == 0) { nproc_live++; HS[i].counted = 1; } else { in_uv = 1; do_uvclose(i); in_uv = 0; }
      raw6(SYS_close, rp[1], 0, 0, 0, 0, 0); priv[rp[1]] = 0;
      outf("ret %s", R(rc)); outf("# rc=%d", rc);
      if (rc == 0) {
        char rb[600]; int rn = 0; long g;
        while ((g = raw6(SYS_read, rp[0], (long) (rb + rn), sizeof rb - 1 - rn, 0, 0, 0)) > 0) rn += g;
        rb[rn] = 0; if (rn && rb[rn - 1] == '\n') rb[rn - 1] = 0;
        char want[64]; snprintf(want, sizeof want, cnt == 4 ? "childfds 0 1 2 3" : "childfds 0 1 2");
        if (strcmp(rb, want)) viol("CHILD-INHERITED", "spawned helper reports [%s], expected [%s]", rb, want);
        outf("# %s", rb);
      }
      raw6(SYS_close, rp[0], 0, 0, 0, 0, 0); priv[rp[0]] = 0;
    } else if (!strcmp(op, "fork")) {
      /* fork(): the parent only waits and passes the child's verdict on; the CHILD carries the ledger on and runs the
       * rest of the program (uv_loop_fork first, as the documentation requires) */
      for (int k = 0; k < MAXFD; k++) if (L[k].live && L[k].glob) lock_want = 2;   /* the atfork handler replaces the lock pipe */
      forking = 1; in_uv = 1;
      pid_t cp = fork();
      if (cp > 0) {
        int st = 0; while (waitpid(cp, &st, 0) < 0 && errno == EINTR);
        _exit(WIFEXITED(st) ? WEXITSTATUS(st) : 128 + WTERMSIG(st));
      }
      if (cp < 0) { forking = 0; in_uv = 0; outf("bad-op"); goto after; }
      main_pid = (int) raw6(SYS_getpid, 0, 0, 0, 0, 0, 0); forking = 0; lock_want = 0;
      int rc = loop_ok ? uv_loop_fork(loop) : 0;
      in_uv = 0; outf("ret %s", R(rc)); outf("# rc=%d", rc);
    } else if (!strcmp(op, "end")) {
      userclose_all(); isfinal = 1; outf("ret 0");
    } else {
      outf("bad-op");
    }
  after:
    for (int j = 0; j < ninj; j++) if (!injs[j].fired) outf("# unfired %s %d", injs[j].name, injs[j].k);
    ninj = 0;
    monitors(isfinal);
  quiet:
    ;
  }
  outf("done %d", nviol);
  _exit(nviol ? 3 : 0);
}
