/* C10 unit harness: uv__udp_sendmsgv of the working tree's src/unix/udp.c driven directly, with
 * sendmsg/sendmmsg/recvmsg/recvmmsg redirected to scripted fakes that record which datagram
 * indices every call was given.  Line protocol of `uvdriver c10v`:
 *   v <count> <shape> [b<idx>]... <outcome>...   outcome = k<n> (n messages taken / success) | e<errno>;
 *                                                b<idx>: datagram idx carries an unsupported address family
 * datagram i: nbufs = 1 + (i + shape) % 3, destination (i * (shape + 1)) % 3 (0 NULL, 1 v4, 2 v6). */
#include <stdio.h>
#include <stdlib.h>
#include <string.h>
#include <errno.h>
#include <sys/types.h>
#include <sys/socket.h>
#include <netinet/in.h>

static ssize_t fake_sendmsg(int fd, const struct msghdr* h, int flags);
static int fake_sendmmsg(int fd, struct mmsghdr* m, unsigned int n, int flags);
static ssize_t fake_recvmsg(int fd, struct msghdr* h, int flags) { (void) fd; (void) h; (void) flags; errno = EAGAIN; return -1; }
static int fake_recvmmsg(int fd, struct mmsghdr* m, unsigned int n, int flags, struct timespec* t) {
  (void) fd; (void) m; (void) n; (void) flags; (void) t; errno = EAGAIN; return -1;
}
#define sendmsg fake_sendmsg
#define sendmmsg fake_sendmmsg
#define recvmsg fake_recvmsg
#define recvmmsg fake_recvmmsg
#include "unix/udp.c"
#undef sendmsg
#undef sendmmsg
#undef recvmsg
#undef recvmmsg

#define MAXC 4096
static uv_buf_t* g_bufs[MAXC];
static unsigned g_nbufs[MAXC];
static struct sockaddr* g_addrs[MAXC];
static unsigned g_count;
static char* g_outs[MAXC];
static unsigned g_nouts, g_pos;

static int idx_of(const struct msghdr* h) {
  for (unsigned i = 0; i < g_count; i++) if ((void*) g_bufs[i] == (void*) h->msg_iov) return (int) i;
  return -1;
}
static void show(const struct msghdr* h) {
  int d = 0; const char* bad = "";
  if (h->msg_name != NULL) {
    const struct sockaddr* sa = h->msg_name;
    if (sa->sa_family == AF_INET) { d = 1; if (h->msg_namelen != sizeof(struct sockaddr_in)) bad = "!"; }
    else if (sa->sa_family == AF_INET6) { d = 2; if (h->msg_namelen != sizeof(struct sockaddr_in6)) bad = "!"; }
    else d = 9;
  }
  printf("%d:%u:%d%s", idx_of(h), (unsigned) h->msg_iovlen, d, bad);
}
/* next outcome: returns 1 and *k for k<n>, -1 and errno set for e<n>, 0 when the script is exhausted */
static int next_out(unsigned* k) {
  if (g_pos >= g_nouts) return 0;
  const char* w = g_outs[g_pos++];
  if (w[0] == 'k') { *k = (unsigned) strtoul(w + 1, NULL, 10); return 1; }
  int e = atoi(w + 1); errno = e == 0 ? 1 : e; return -1;
}
static ssize_t fake_sendmsg(int fd, const struct msghdr* h, int flags) {
  unsigned k; (void) fd; (void) flags;
  int o = next_out(&k);
  int e = errno;
  printf("call msg ["); show(h); printf("] ");
  if (o < 0) { printf("-%d\n", e); errno = e; return -1; }
  printf("1\n");
  size_t n = 0; for (size_t j = 0; j < h->msg_iovlen; j++) n += h->msg_iov[j].iov_len;
  return (ssize_t) n;
}
static int fake_sendmmsg(int fd, struct mmsghdr* m, unsigned int n, int flags) {
  unsigned k; (void) fd; (void) flags;
  int o = next_out(&k);
  int e = errno;
  printf("call mmsg [");
  for (unsigned j = 0; j < n; j++) { if (j) printf(" "); show(&m[j].msg_hdr); }
  printf("] ");
  if (o < 0) { printf("-%d\n", e); errno = e; return -1; }
  if (o == 0) k = n;
  if (k > n) k = n;
  if (k < 1) k = 1;
  printf("%u\n", k);
  return (int) k;
}

int main(void) {
  static char line[1 << 16];
  static struct sockaddr_in a4; static struct sockaddr_in6 a6; static struct sockaddr_storage bogus;
  bogus.ss_family = AF_APPLETALK;
  a4.sin_family = AF_INET; a4.sin_port = htons(9); a6.sin6_family = AF_INET6; a6.sin6_port = htons(9);
  while (fgets(line, sizeof line, stdin)) {
    char* save; char* w = strtok_r(line, " \n", &save);
    if (w == NULL) continue;
    if (strcmp(w, "v") != 0) { printf("bad-op\n"); continue; }
    char* c = strtok_r(NULL, " \n", &save); char* sh = strtok_r(NULL, " \n", &save);
    if (!c || !sh || (unsigned) atoi(c) > MAXC) { printf("bad-op\n"); continue; }
    g_count = (unsigned) atoi(c); unsigned shape = (unsigned) atoi(sh);
    g_nouts = 0; g_pos = 0;
    int bad = 0;
    static unsigned char badfam[MAXC + 1];
    memset(badfam, 0, sizeof badfam);
    while ((w = strtok_r(NULL, " \n", &save)) != NULL && g_nouts < MAXC) {
      if (w[0] == 'b' && w[1] >= '0' && w[1] <= '9') { unsigned bi = (unsigned) atoi(w + 1); if (bi < MAXC) badfam[bi] = 1; continue; }
      if ((w[0] != 'k' && w[0] != 'e') || w[1] < '0' || w[1] > '9') bad = 1;
      g_outs[g_nouts++] = w;
    }
    if (bad) { printf("bad-op\n"); continue; }
    static char byte = 'x';
    for (unsigned i = 0; i < g_count; i++) {
      g_nbufs[i] = 1 + (i + shape) % 3;
      g_bufs[i] = malloc(g_nbufs[i] * sizeof(uv_buf_t));
      for (unsigned j = 0; j < g_nbufs[i]; j++) g_bufs[i][j] = uv_buf_init(&byte, 1);
      unsigned d = (i * (shape + 1)) % 3;
      g_addrs[i] = d == 0 ? NULL : d == 1 ? (struct sockaddr*) &a4 : (struct sockaddr*) &a6;
      if (badfam[i]) g_addrs[i] = (struct sockaddr*) &bogus;
    }
    errno = g_count % 2 ? EAGAIN : 0;   /* whatever an earlier system call left behind */
    int r = uv__udp_sendmsgv(99, g_count, g_bufs, g_nbufs, g_addrs);
    printf("ret %d left=%u\n", r, g_nouts - g_pos);
    for (unsigned i = 0; i < g_count; i++) free(g_bufs[i]);
  }
  return 0;
}
