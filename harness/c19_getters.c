/* C19 harness: every string getter of the real library, destination placed so that byte `size` is the
 * first byte of a PROT_NONE page, buffer pre-filled with a sentinel.
 *   getter <name> <size> [arg]  ->  ret <rc> size <reported> buf <hex buffer[0..size)>
 *                                   [ retry ret <rc> size <reported> buf <hex>]   (after UV_ENOBUFS, with the reported size)
 *                                   | <true value(s) read from the OS by other means, hex>
 * setup commands (answer `ok` / `err <n>`): sentinel, setenv, unsetenv, chdir, mkcd, sethostname, settitle,
 * bind, autobind, unbound, socketpair, connect, fsevent, fspoll, setname.
 * An overrun is a SIGSEGV on the guard page (the process dies on that input); an underrun is reported as UNDERRUN. */
#include "uv.h"
#include <stdio.h>
#include <stdlib.h>
#include <string.h>
#include <unistd.h>
#include <errno.h>
#include <sched.h>
#include <fcntl.h>
#include <pwd.h>
#include <sys/mman.h>
#include <sys/socket.h>
#include <sys/un.h>
#include <sys/utsname.h>
#include <sys/ioctl.h>
#include <sys/stat.h>
#include <net/if.h>

extern char** environ;

#define DATA_PAGES 8
#define PRE 64
static unsigned char* region;
static unsigned char* guard;
static size_t cap;
static unsigned char sentinel = 0xAA;
static uv_loop_t* loop;

static unsigned char* place(size_t size) {
  unsigned char* b = guard - size;
  memset(b - PRE, sentinel ^ 0x55, PRE);
  memset(b, sentinel, size);
  return b;
}

static void puthex(const void* p, size_t n) {
  static const char d[] = "0123456789abcdef";
  const unsigned char* s = p;
  size_t i;
  if (n == 0) putchar('-');
  for (i = 0; i < n; i++) { putchar(d[s[i] >> 4]); putchar(d[s[i] & 15]); }
}

static size_t unhex(const char* h, unsigned char* out) {
  size_t n = 0;
  if (h == NULL || strcmp(h, "-") == 0) return 0;
  for (; h[0] && h[1]; h += 2) {
    unsigned v; sscanf(h, "%2x", &v); out[n++] = (unsigned char) v;
  }
  return n;
}

static int underrun(const unsigned char* b) {
  size_t i;
  for (i = 1; i <= PRE; i++) if (b[-(ssize_t) i] != (unsigned char) (sentinel ^ 0x55)) return 1;
  return 0;
}

/* ------------------------------------------------------------------ state for handle-based getters */
static uv_pipe_t* srv; static uv_pipe_t* cli; static int connected;
static uv_fs_event_t* fsev; static uv_fs_poll_t* fspoll;
static unsigned char namebuf[1 << 15]; static size_t namelen;

static void free_cb(uv_handle_t* h) { free(h); }
static void drop(uv_handle_t* h) { if (h) { uv_close(h, free_cb); } }
static void spin(void) { int i; for (i = 0; i < 4; i++) uv_run(loop, UV_RUN_NOWAIT); }
static void conn_cb(uv_stream_t* s, int st) { (void) s; (void) st; }
static void connect_cb(uv_connect_t* r, int st) { connected = st == 0 ? 1 : st; free(r); }
static void fsev_cb(uv_fs_event_t* h, const char* f, int e, int s) { (void) h; (void) f; (void) e; (void) s; }
static void fspoll_cb(uv_fs_poll_t* h, int s, const uv_stat_t* a, const uv_stat_t* b) { (void) h; (void) s; (void) a; (void) b; }

static void drop_pipes(void) {
  drop((uv_handle_t*) cli); drop((uv_handle_t*) srv); cli = srv = NULL; spin();
}

/* ------------------------------------------------------------------ true values, independently of libuv */
static const char* env_lookup(const char* name) {
  size_t n = strlen(name); char** e;
  for (e = environ; e && *e; e++) if (strncmp(*e, name, n) == 0 && (*e)[n] == '=') return *e + n + 1;
  return NULL;
}

static char big[1 << 16];

static void true_sockname(uv_pipe_t* p, int peer) {
  struct sockaddr_un sa; socklen_t len = sizeof sa; uv_os_fd_t fd; int r;
  memset(&sa, 0, sizeof sa);
  if (p == NULL || uv_fileno((uv_handle_t*) p, &fd) != 0) { printf("?"); return; }
  r = peer ? getpeername(fd, (struct sockaddr*) &sa, &len) : getsockname(fd, (struct sockaddr*) &sa, &len);
  if (r != 0) { printf("?"); return; }
  if (len > sizeof sa) len = sizeof sa;
  puthex(sa.sun_path, len - offsetof(struct sockaddr_un, sun_path));
}

static void read_file_first(const char* path, int stop) {
  int fd = open(path, O_RDONLY); ssize_t n; size_t k = 0;
  if (fd < 0) { printf("?"); return; }
  n = read(fd, big, sizeof big - 1); close(fd);
  if (n < 0) n = 0;
  if (stop == '\n') k = n > 0 && big[n - 1] == '\n' ? (size_t) n - 1 : (size_t) n;   /* comm: name + newline; the name may contain newlines */
  else while (k < (size_t) n && big[k] != stop) k++;
  puthex(big, k);
}

/* ------------------------------------------------------------------ one getter call */
static int has_size;  /* API with in/out *size */
static int call(const char* name, const char* arg, unsigned char* b, size_t* size) {
  char* buf = (char*) b;
  has_size = 1;
  if (!strcmp(name, "cwd")) return uv_cwd(buf, size);
  if (!strcmp(name, "getenv")) return uv_os_getenv(arg, buf, size);
  if (!strcmp(name, "homedir")) return uv_os_homedir(buf, size);
  if (!strcmp(name, "tmpdir")) return uv_os_tmpdir(buf, size);
  if (!strcmp(name, "hostname")) return uv_os_gethostname(buf, size);
  if (!strcmp(name, "sockname")) return srv ? uv_pipe_getsockname(srv, buf, size) : 12345;
  if (!strcmp(name, "peername")) return cli ? uv_pipe_getpeername(cli, buf, size) : 12345;
  if (!strcmp(name, "csockname")) return cli ? uv_pipe_getsockname(cli, buf, size) : 12345;   /* the connecting / second end: unnamed */
  if (!strcmp(name, "fsevent")) return fsev ? uv_fs_event_getpath(fsev, buf, size) : 12345;
  if (!strcmp(name, "fspoll")) return fspoll ? uv_fs_poll_getpath(fspoll, buf, size) : 12345;
  if (!strcmp(name, "ifname")) return uv_if_indextoname(atoi(arg), buf, size);
  if (!strcmp(name, "ifiid")) return uv_if_indextoiid(atoi(arg), buf, size);
  has_size = 0;
  if (!strcmp(name, "exepath")) return uv_exepath(buf, size);   /* reports a length, never ENOBUFS */
  if (!strcmp(name, "proctitle")) return uv_get_process_title(buf, *size);
  if (!strcmp(name, "threadname")) { uv_thread_t t = uv_thread_self(); return uv_thread_getname(&t, buf, *size); }
  if (!strcmp(name, "errname")) return uv_err_name_r(atoi(arg), buf, *size) == buf ? 0 : -1;
  if (!strcmp(name, "strerror")) return uv_strerror_r(atoi(arg), buf, *size) == buf ? 0 : -1;
  return 12345;
}

static void truth(const char* name, const char* arg, const char* arg2) {
  const char* s;
  if (!strcmp(name, "cwd")) { if (getcwd(big, sizeof big)) puthex(big, strlen(big)); else printf("?"); }
  else if (!strcmp(name, "getenv")) { s = env_lookup(arg); if (s) puthex(s, strlen(s)); else printf("!"); }
  else if (!strcmp(name, "homedir")) {
    struct passwd pw, *res = NULL; static char pb[16384];
    s = env_lookup("HOME"); if (s) puthex(s, strlen(s)); else printf("!");
    printf(" ");
    if (getpwuid_r(geteuid(), &pw, pb, sizeof pb, &res) == 0 && res) puthex(pw.pw_dir, strlen(pw.pw_dir)); else printf("?");
  }
  else if (!strcmp(name, "tmpdir")) {
    static const char* v[] = { "TMPDIR", "TMP", "TEMP", "TEMPDIR" }; int i; s = NULL;
    for (i = 0; i < 4 && !s; i++) s = env_lookup(v[i]);
    if (!s) s = "/tmp";
    puthex(s, strlen(s));
  }
  else if (!strcmp(name, "hostname")) { struct utsname u; uname(&u); puthex(u.nodename, strlen(u.nodename)); }
  else if (!strcmp(name, "exepath")) { ssize_t n = readlink("/proc/self/exe", big, sizeof big); if (n >= 0) puthex(big, n); else printf("?"); }
  else if (!strcmp(name, "proctitle")) read_file_first("/proc/self/cmdline", 0);
  else if (!strcmp(name, "threadname")) read_file_first("/proc/thread-self/comm", '\n');
  else if (!strcmp(name, "sockname")) true_sockname(srv, 0);
  else if (!strcmp(name, "peername")) true_sockname(cli, 1);
  else if (!strcmp(name, "csockname")) true_sockname(cli, 0);
  else if (!strcmp(name, "fsevent") || !strcmp(name, "fspoll")) puthex(namebuf, namelen);
  else if (!strcmp(name, "ifname") || !strcmp(name, "ifiid")) {
    struct ifreq ifr; int fd = socket(AF_INET, SOCK_DGRAM, 0);
    memset(&ifr, 0, sizeof ifr); ifr.ifr_ifindex = atoi(arg);
    if (fd >= 0 && ioctl(fd, SIOCGIFNAME, &ifr) == 0) puthex(ifr.ifr_name, strnlen(ifr.ifr_name, IFNAMSIZ)); else printf("?");
    if (fd >= 0) close(fd);
  }
  else if (!strcmp(name, "errname")) { if (arg2 && arg2[0] == 'k') { s = uv_err_name(atoi(arg)); puthex(s, strlen(s)); } else printf("?"); }
  else if (!strcmp(name, "strerror")) { if (arg2 && arg2[0] == 'k') { s = uv_strerror(atoi(arg)); puthex(s, strlen(s)); } else printf("?"); }
  else printf("?");
}

static void one(const char* name, size_t size, const char* arg) {
  unsigned char* b; size_t sz = size; int rc;
  b = place(size);
  rc = call(name, arg, b, &sz);
  printf("ret %d size %zu buf ", rc, sz); puthex(b, size);
  if (underrun(b)) printf(" UNDERRUN");
}

static void do_getter(char** w, int nw) {
  const char* name = w[1]; size_t size = strtoul(w[2], NULL, 10); const char* arg = nw > 3 ? w[3] : "";
  unsigned char* b; size_t sz = size; int rc;
  if (size > cap) { printf("toolarge\n"); return; }
  b = place(size);
  rc = call(name, arg, b, &sz);
  if (rc == 12345) { printf("bad-op\n"); return; }
  printf("ret %d size %zu buf ", rc, sz); puthex(b, size);
  if (underrun(b)) printf(" UNDERRUN");
  fflush(stdout);
  if (has_size && rc == UV_ENOBUFS) {
    if (sz > cap) printf(" retry toolarge");
    else { printf(" retry "); fflush(stdout); one(name, sz, arg); }
  }
  printf(" | "); truth(name, arg, nw > 4 ? w[4] : NULL);
  printf("\n");
}

static void answer(int r) { if (r == 0) printf("ok\n"); else printf("err %d\n", r); }

int main(int argc, char** argv) {
  static char line[1 << 16]; static unsigned char val[1 << 15];
  long ps = sysconf(_SC_PAGESIZE);
  int uts_done = 0;
  argv = uv_setup_args(argc, argv);
  loop = uv_default_loop();
  region = mmap(NULL, (DATA_PAGES + 1) * ps, PROT_READ | PROT_WRITE, MAP_PRIVATE | MAP_ANONYMOUS, -1, 0);
  if (region == MAP_FAILED) return 3;
  guard = region + DATA_PAGES * ps;
  if (mprotect(guard, ps, PROT_NONE) != 0) return 3;
  cap = DATA_PAGES * ps - PRE;
  setvbuf(stdout, NULL, _IOFBF, 1 << 16);

  while (fgets(line, sizeof line, stdin)) {
    char* w[8]; int nw = 0; char* p = strtok(line, " \n");
    while (p && nw < 8) { w[nw++] = p; p = strtok(NULL, " \n"); }
    if (nw == 0) continue;
    if (!strcmp(w[0], "getter") && nw >= 3) { do_getter(w, nw); }
    else if (!strcmp(w[0], "sentinel") && nw == 2) { sentinel = (unsigned char) atoi(w[1]); }
    else if (!strcmp(w[0], "setenv") && nw == 3) { size_t n = unhex(w[2], val); val[n] = 0; answer(setenv(w[1], (char*) val, 1) ? errno : 0); }
    else if (!strcmp(w[0], "unsetenv") && nw == 2) { answer(unsetenv(w[1]) ? errno : 0); }
    else if (!strcmp(w[0], "chdir") && nw == 2) { answer(chdir(w[1]) ? errno : 0); }
    else if (!strcmp(w[0], "mkcd") && nw == 2) { int r = mkdir(w[1], 0700); if (r && errno != EEXIST) answer(errno); else answer(chdir(w[1]) ? errno : 0); }
    else if (!strcmp(w[0], "sethostname") && nw == 2) {
      size_t n = unhex(w[1], val);
      if (!uts_done && unshare(CLONE_NEWUTS) != 0) { answer(errno); continue; }
      uts_done = 1;
      answer(sethostname((char*) val, n) ? errno : 0);
    }
    else if (!strcmp(w[0], "settitle") && nw == 2) { size_t n = unhex(w[1], val); val[n] = 0; answer(-uv_set_process_title((char*) val)); }
    else if (!strcmp(w[0], "setname") && nw == 2) { size_t n = unhex(w[1], val); val[n] = 0; answer(-uv_thread_setname((char*) val)); }
    else if ((!strcmp(w[0], "bind") && nw == 2) || !strcmp(w[0], "autobind")) {
      int r; namelen = w[0][0] == 'b' ? unhex(w[1], namebuf) : 0;
      drop_pipes();
      srv = malloc(sizeof *srv); uv_pipe_init(loop, srv, 0);
      r = uv_pipe_bind2(srv, (char*) namebuf, namelen, 0);
      if (r == 0) r = uv_listen((uv_stream_t*) srv, 4, conn_cb);
      answer(-r);
    }
    else if (!strcmp(w[0], "unbound")) {
      int fd = socket(AF_UNIX, SOCK_STREAM, 0);
      drop_pipes();
      srv = malloc(sizeof *srv); uv_pipe_init(loop, srv, 0);
      answer(-uv_pipe_open(srv, fd));
    }
    else if (!strcmp(w[0], "socketpair")) {   /* two unnamed, connected ends: srv and cli */
      int sv[2]; int r;
      drop_pipes();
      if (socketpair(AF_UNIX, SOCK_STREAM, 0, sv) != 0) { answer(errno); continue; }
      srv = malloc(sizeof *srv); uv_pipe_init(loop, srv, 0);
      cli = malloc(sizeof *cli); uv_pipe_init(loop, cli, 0);
      r = uv_pipe_open(srv, sv[0]);
      if (r == 0) r = uv_pipe_open(cli, sv[1]);
      answer(-r);
    }
    else if (!strcmp(w[0], "connect")) {   /* to the name of the last `bind` (true server name read back from the OS) */
      struct sockaddr_un sa; socklen_t len = sizeof sa; uv_os_fd_t fd; uv_connect_t* req = malloc(sizeof *req); int r, i;
      memset(&sa, 0, sizeof sa);
      uv_fileno((uv_handle_t*) srv, &fd); getsockname(fd, (struct sockaddr*) &sa, &len);
      if (len > sizeof sa) len = sizeof sa;
      drop((uv_handle_t*) cli); cli = malloc(sizeof *cli); uv_pipe_init(loop, cli, 0);
      connected = 0;
      r = uv_pipe_connect2(req, cli, sa.sun_path,
                           sa.sun_path[0] ? strnlen(sa.sun_path, sizeof sa.sun_path) : len - offsetof(struct sockaddr_un, sun_path),
                           0, connect_cb);
      if (r != 0) { free(req); answer(-r); continue; }
      for (i = 0; i < 100 && connected == 0; i++) uv_run(loop, UV_RUN_NOWAIT);
      answer(connected == 1 ? 0 : (connected == 0 ? 999 : -connected));
    }
    else if (!strcmp(w[0], "fsevent") && nw == 2) {
      namelen = unhex(w[1], namebuf); namebuf[namelen] = 0;
      drop((uv_handle_t*) fsev); spin();
      fsev = malloc(sizeof *fsev); uv_fs_event_init(loop, fsev);
      answer(-uv_fs_event_start(fsev, fsev_cb, (char*) namebuf, 0));
    }
    else if (!strcmp(w[0], "fspoll") && nw == 2) {
      namelen = unhex(w[1], namebuf); namebuf[namelen] = 0;
      drop((uv_handle_t*) fspoll); spin();
      fspoll = malloc(sizeof *fspoll); uv_fs_poll_init(loop, fspoll);
      answer(-uv_fs_poll_start(fspoll, fspoll_cb, (char*) namebuf, 3600000));
    }
    else printf("bad-op\n");
    fflush(stdout);
  }
  return 0;
}
