/* C09 harness: the unmodified src/unix/async.c driven step by step by the serialising scheduler.
 *
 * Every C11 atomic of async.c and its eventfd read()/write() are re-defined as call-outs that park
 * the calling thread (schedule point) and then perform the real operation; the eventfd is a counter.
 * Thread 0 is the loop thread (calls the real uv__async_io when the simulated eventfd is readable,
 * the real uv_close, and runs close callbacks through uv_run(NOWAIT)); threads 1.. are senders
 * calling the real uv_async_send.  Handles are malloc'ed and freed in their close callback.
 *
 * stdin:  cfg nh=<n> close=<h,..|-> senders=<h,h;h|-> sig=<t:victim,..|->
 *         (cfg also takes eintr=<n>: EINTR answers allowed per run; cap=<n|->: counter saturation -> EAGAIN;
 *          nocb=<h,..|->: handles initialised with async_cb == NULL ("just wake the loop"); nh up to MAXH, handle
 *          numbers are decimal)
 *         realmany <nh> <nfds> <mode>   real loop / eventfd / epoll, no scheduler: see realmany() below
 *         dfs [maxdepth]           stateless DFS over all schedules with visited-state pruning
 *         rand <seed> <runs>       random schedules, each run to a terminal state
 *         sched [noguard] tok..    one explicit schedule
 * stdout: `run :: <state>`, `a <tok> :: <effect> :: <state>`, `at <depth>` — the same lines
 *         `uvdriver async` prints when fed the `cfg`/`run`/`at`/`a <tok>` parts;
 *         `!! <signature> ...` monitor failures (independent of the model); `# ...` statistics.
 */
#include "uv.h"
#include "internal.h"
#include <errno.h>
#include <stdatomic.h>
#include <stdio.h>
#include <assert.h>
#include <stdlib.h>
#include <string.h>
#include <unistd.h>
#include <sched.h>
#include <stdint.h>
#include <stdarg.h>
#include <sys/eventfd.h>
#include <sys/syscall.h>
#include "baton_sched.h"
#if defined(__has_feature)
# if __has_feature(address_sanitizer)
#  include <sanitizer/asan_interface.h>
#  define POISON(p, n) __asan_poison_memory_region((p), (n))
#  define UNPOISON(p, n) __asan_unpoison_memory_region((p), (n))
# endif
#endif
#ifndef POISON
# define POISON(p, n) ((void) 0)
# define UNPOISON(p, n) ((void) 0)
#endif

enum { K_WAIT = 1, K_BEGIN, K_LOADX, K_LOAD, K_STORE, K_XCHG, K_FADD, K_READ, K_WRITE, K_INCB };
enum { CMD_STEP = 0, CMD_CLOSE = 1, CMD_CLOSECB = 2, CMD_EINTR = 3, CMD_FORK = 4, CMD_STOP = 5 };   /* CMD_CLOSE + 16*h */

#define MAXH 160
#define MAXS 4
#define MAXPROG 400
#define MAXEN 48                            /* enabled tokens per state: 2 per sender + loop tokens + one per closable handle */
#define MAXCLOSABLE 32

static uv_loop_t loop_;
static uv_loop_t* L = &loop_;
static uv_async_t* H[MAXH];
static int nh, ns;
static int closable[MAXH];
static int nocb[MAXH];                     /* cfg nocb=: uv_async_init(.., NULL) */
static int prog[MAXS][MAXPROG], nprog[MAXS];
static int sigvictim[MAXS];               /* -2 = ordinary thread, -1 = interrupts the loop thread, >= 0 sender */
static char cfgline[4096];

/* bookkeeping of the harness (ghost state + monitors), all accessed under the baton */
static int closing_f[MAXH], unlinked[MAXH], freed[MAXH], released[MAXH];
static int free_in_cb;                    /* cfg free=cb: release the memory in close_cb even when a uv_async_send call on it is in flight */
static int pub[MAXH], seen[MAXH], cbs[MAXH], eff[MAXH], completed[MAXH];
static struct { int h, k, seq, active; } S[MAXS];
static int cb_of = -1;                    /* handle whose callback the loop thread is in */
static int closing_now = -1;              /* handle whose uv_close is in progress */
static uint64_t efd_count;
static uint64_t efd_cap;                  /* cfg cap=<n>: the simulated counter saturates here (write -> EAGAIN); 0 = never */
static int spin_n, sp_left;                /* cfg spin=<N>: once per run the closing loop thread takes N consecutive uv__async_spin iterations
                                            * (real atomic_load(busy) != 0, uv__cpu_relax, sched_yield) while the sender inside the busy section is frozen */
static int stop_budget, st_left;           /* cfg stop=<n>: uv_stop() calls from inside async callbacks per run; uv_run then returns and is run again */
static int fork_budget, fk_left;           /* cfg fork=<n>: fork()+uv_loop_fork() events per run; the run continues in the child */
static int dead[MAXS];                    /* sender threads that were inside uv_async_send at fork time: they do not exist in the child */
static int eintr_budget, ei_left;         /* cfg eintr=<n>: EINTR answers the environment may give per run */
static int efd_fd = -1;
static int guard = 1;
static char effbuf[2048];
static int cleanup_mode;

static int trace_steps;                   /* C09_TRACE=1: announce every step before it runs (to locate a crash) */
static char viol[512];                    /* first monitor failure of the current run */
static void violation(const char* sig, const char* what) {
  if (!viol[0]) snprintf(viol, sizeof viol, "%s %s", sig, what);
}
static void eff_add(const char* fmt, ...) {
  va_list ap; size_t n = strlen(effbuf);
  va_start(ap, fmt); vsnprintf(effbuf + n, sizeof effbuf - n, fmt, ap); va_end(ap);
}

static int handle_of(void* addr) {
  for (int h = 0; h < nh; h++)
    if ((char*) addr >= (char*) H[h] && (char*) addr < (char*) H[h] + sizeof(uv_async_t)) return h;
  return -1;
}
static int is_pending(void* addr) { int h = handle_of(addr); return h >= 0 && addr == (void*) &H[h]->pending; }
static int is_busy(void* addr) { int h = handle_of(addr); return h >= 0 && addr == (void*) &H[h]->u.fd; }

/* ------------------------------------------------------------------ instrumented operations */
static int sched_atomic(int kind, _Atomic int* p, int v) {
  int r = 0;
  if (handle_of((void*) p) < 0) {        /* loop->wq_async (the thread pool's own handle, never sent to here): not a schedule point */
    switch (kind) {
      case K_LOADX: case K_LOAD: return __c11_atomic_load(p, __ATOMIC_SEQ_CST);
      case K_STORE: __c11_atomic_store(p, v, __ATOMIC_SEQ_CST); return 0;
      case K_XCHG: return __c11_atomic_exchange(p, v, __ATOMIC_SEQ_CST);
      default: return __c11_atomic_fetch_add(p, v, __ATOMIC_SEQ_CST);
    }
  }
  sched_park(kind, (void*) p, v);
  if (sched_unwinding) {                 /* end of run: leave quickly, touch nothing */
    switch (kind) { case K_LOADX: return 1; case K_XCHG: return v; default: return 0; }
  }
  {
    int h0 = handle_of((void*) p);         /* monitor bookkeeping: a sender operation that turns pending 0 -> non-zero is an effective send */
    if (sched_self > 0 && is_pending((void*) p) && (kind == K_XCHG || kind == K_STORE) && v != 0 &&
        __c11_atomic_load(p, __ATOMIC_SEQ_CST) == 0) eff[h0]++;
  }
  switch (kind) {
    case K_LOADX: case K_LOAD: r = __c11_atomic_load(p, __ATOMIC_SEQ_CST); break;
    case K_STORE: __c11_atomic_store(p, v, __ATOMIC_SEQ_CST); break;
    case K_XCHG: r = __c11_atomic_exchange(p, v, __ATOMIC_SEQ_CST); break;
    case K_FADD: r = __c11_atomic_fetch_add(p, v, __ATOMIC_SEQ_CST); break;
  }
  if (sched_self > 0) {                  /* a sender */
    int t = sched_self - 1;
    if ((kind == K_LOADX || kind == K_LOAD) && is_pending(p)) eff_add("load=%d", r);
    else if (kind == K_FADD && is_busy(p) && v == 1) eff_add("inc");
    else if (kind == K_FADD && is_busy(p) && v == -1) eff_add("dec");
    else if (kind == K_XCHG && is_pending(p) && v == 1) eff_add("xchg=%d", r);
    else eff_add("op%d:%d=%d", kind, v, r);
  } else if (sched_self == 0) {
    int h = handle_of(p);
    if (kind == K_XCHG && is_pending(p) && v == 0) {
      eff_add("scan h%d =%d", h, r);
      /* a handle without a callback: the observable delivery of a send is the loop thread, woken up, consuming the flag */
      if (r != 0 && h >= 0 && nocb[h]) { cbs[h]++; seen[h] = pub[h]; }
    }
    else if (kind == K_STORE && is_pending(p) && v == 1) eff_add("store h%d", h);
    else if (kind == K_LOAD && is_busy(p)) eff_add("spin h%d", h);
    else eff_add("op%d:%d=%d", kind, v, r);
  }
  return r;
}

static ssize_t sched_read(int fd, void* buf, size_t n) {
  if (fd != efd_fd || sched_self < 0) return read(fd, buf, n);
  if (sched_park(K_READ, NULL, 0) == CMD_EINTR) { eff_add("drain EINTR"); errno = EINTR; return -1; }
  if (sched_unwinding) { errno = EAGAIN; return -1; }
  eff_add("drain");
  if (efd_count == 0) { errno = EAGAIN; return -1; }
  memcpy(buf, &efd_count, 8); efd_count = 0;
  return 8;
}

static ssize_t sched_write(int fd, const void* buf, size_t n) {
  if (fd != efd_fd || sched_self < 0) return write(fd, buf, n);
  if (sched_park(K_WRITE, NULL, 0) == CMD_EINTR) { eff_add("write EINTR"); errno = EINTR; return -1; }
  if (sched_unwinding) return (ssize_t) n;
  if (efd_cap && efd_count >= efd_cap) { eff_add("write EAGAIN"); errno = EAGAIN; return -1; }
  eff_add("write");
  efd_count += 1;
  return (ssize_t) n;
}

#undef atomic_load_explicit
#undef atomic_load
#undef atomic_store
#undef atomic_store_explicit
#undef atomic_exchange
#undef atomic_exchange_explicit
#undef atomic_fetch_add
#undef atomic_fetch_add_explicit
#undef atomic_fetch_sub
#undef atomic_compare_exchange_strong
#define atomic_load_explicit(p, mo) sched_atomic(K_LOADX, (p), 0)
#define atomic_load(p) sched_atomic(K_LOAD, (p), 0)
#define atomic_store(p, v) ((void) sched_atomic(K_STORE, (p), (v)))
#define atomic_store_explicit(p, v, mo) ((void) sched_atomic(K_STORE, (p), (v)))
#define atomic_exchange(p, v) sched_atomic(K_XCHG, (p), (v))
#define atomic_exchange_explicit(p, v, mo) sched_atomic(K_XCHG, (p), (v))
#define atomic_fetch_add(p, v) sched_atomic(K_FADD, (p), (v))
#define atomic_fetch_add_explicit(p, v, mo) sched_atomic(K_FADD, (p), (v))
#define atomic_fetch_sub(p, v) sched_atomic(K_FADD, (p), -(v))
#define read(fd, buf, n) sched_read((fd), (buf), (n))
#define write(fd, buf, n) sched_write((fd), (buf), (n))

#include "unix/async.c"

#undef read
#undef write

/* ------------------------------------------------------------------ callbacks and thread bodies */
static int inflight(int h) {
  int n = 0;
  for (int t = 0; t < ns; t++) if (S[t].active && S[t].h == h) n++;
  return n;
}

/* user contract (cfg free=safe, default): the close callback releases the handle memory unless a
 * uv_async_send() call on it has not returned yet; then the last such call to return releases it. */
static void close_cb(uv_handle_t* handle) {
  int h = (int) (long) handle->data;
  freed[h] = 1;
  if (cleanup_mode || inflight(h) == 0) { released[h] = 1; free(handle); }
  else if (free_in_cb) {                 /* released while a send is in flight: poisoned now (ASan flags any access), handed to free() after the run */
    released[h] = 2; POISON(handle, sizeof(uv_async_t));
  }
}

static void do_close(int h) {
  closing_f[h] = 1; closing_now = h;
  eff_add("close h%d", h);
  uv_close((uv_handle_t*) H[h], close_cb);
  if (sched_unwinding) { closing_now = -1; unlinked[h] = 1; return; }
  unlinked[h] = 1; closing_now = -1;
  eff_add(" unlink");
}

static void loop_cmd(int cmd);

static void async_cb(uv_async_t* handle) {
  int h = (int) (long) handle->data;
  if (cleanup_mode) return;
  if (freed[h] || unlinked[h]) {
    char b[64]; snprintf(b, sizeof b, "callback of h%d after uv__async_close returned", h);
    violation("cb-after-close", b);
  }
  cbs[h]++; seen[h] = pub[h];
  if (cbs[h] > eff[h]) {
    char b[96]; snprintf(b, sizeof b, "h%d: %d callbacks but only %d effective sends", h, cbs[h], eff[h]);
    violation("cb-without-send", b);
  }
  eff_add(" cb");
  cb_of = h;
  for (;;) {
    int cmd = sched_park(K_INCB, NULL, h);
    if (cmd == SCHED_CMD_QUIT) break;
    if (cmd == CMD_STEP) { eff_add("cbret h%d", h); break; }
    loop_cmd(cmd);
  }
  cb_of = -1;
}

static void loop_cmd(int cmd) {
  if (cmd == CMD_STOP) { eff_add("stop"); uv_stop(L); return; }
  if ((cmd & 15) == CMD_CLOSE) do_close(cmd >> 4);
}

static void loop_fn(int id) {
  (void) id;
  for (;;) {
    int cmd = sched_park(K_WAIT, NULL, 0);
    if (cmd == SCHED_CMD_QUIT) return;
    if (cmd == CMD_STEP) {
      eff_add("wake");
      uv__async_io(L, &L->async_io_watcher, POLLIN);
      if (L->stop_flag) L->stop_flag = 0;   /* uv_run() returns (resetting the flag) and the application runs the loop again */
    } else if (cmd == CMD_FORK) {
      /* the child's view of fork(): only this thread survives; uv_loop_fork() -> uv__async_fork() (the real one, run in
       * this process: new eventfd, handle flags reset); sends undelivered at this point are not owed in the child */
      int t, h;
      eff_add("fork");
      for (t = 0; t < ns; t++)
        if (!sched_done(t + 1) && sched_t[t + 1].kind != K_BEGIN) { dead[t] = 1; S[t].active = 0; }
      if (uv__async_fork(L)) { fprintf(stderr, "uv__async_fork failed\n"); exit(3); }
      efd_fd = L->async_io_watcher.fd; efd_count = 0;
      for (h = 0; h < nh; h++) {
        completed[h] = 0;
        if (freed[h] && !released[h] && inflight(h) == 0) { released[h] = 1; free(H[h]); }
      }
    } else if (cmd == CMD_CLOSECB) {
      int before[MAXH], h;
      for (h = 0; h < nh; h++) before[h] = freed[h];
      eff_add("closecb");
      uv_run(L, UV_RUN_NOWAIT);          /* uv__run_closing_handles -> close_cb */
      for (h = 0; h < nh; h++) if (freed[h] && !before[h]) eff_add(" h%d", h);
    } else loop_cmd(cmd);
  }
}

static void sender_fn(int id) {
  int t = id - 1;
  for (int k = 0; k < nprog[t]; k++) {
    int h = prog[t][k];
    if (sched_park(K_BEGIN, NULL, h) == SCHED_CMD_QUIT) return;
    S[t].k = k + 1;
    if (closing_f[h]) { eff_add("skip h%d", h); continue; }
    pub[h]++; S[t].h = h; S[t].seq = pub[h]; S[t].active = 1;
    eff_add("begin h%d seq=%d", h, pub[h]);
    uv_async_send(H[h]);
    if (sched_unwinding) return;
    S[t].active = 0;
    if (S[t].seq > completed[h]) completed[h] = S[t].seq;
    if (freed[h] && !released[h] && inflight(h) == 0) { released[h] = 1; free(H[h]); }
    eff_add(" ret");
  }
}

/* ------------------------------------------------------------------ state, enabled set */
typedef struct { char kind; int arg; } tok_t;    /* 's' t | 'e' t (write of sender t answers EINTR) | 'i' (loop's read answers EINTR) | 'l' | 'k' (fork, continue in the child) | 'x' (uv_stop() inside the current async callback) | 'c' h | 'f' */

static void tok_str(tok_t k, char* b) {
  if (k.kind == 'l' || k.kind == 'f' || k.kind == 'i' || k.kind == 'k' || k.kind == 'x' || k.kind == 'p') sprintf(b, "%c", k.kind); else sprintf(b, "%c%d", k.kind, k.arg);
}

static int sender_midsend(int t) { return !dead[t] && !sched_done(t + 1) && sched_t[t + 1].kind != K_BEGIN; }
static int interrupted(int v) {           /* v = -1: loop thread */
  for (int t = 0; t < ns; t++) if (sigvictim[t] == v && sender_midsend(t)) return 1;
  return 0;
}

static int enabled_set(tok_t* out) {
  int n = 0, h, t;
  sched_thread* lt = &sched_t[0];
  for (t = 0; t < ns; t++)
    if (!dead[t] && !sched_done(t + 1) && !interrupted(t)) { out[n].kind = 's'; out[n++].arg = t; }
  if (ei_left > 0)
    for (t = 0; t < ns; t++)
      if (!dead[t] && !sched_done(t + 1) && !interrupted(t) && sched_t[t + 1].kind == K_WRITE) { out[n].kind = 'e'; out[n++].arg = t; }
  if (!interrupted(-1)) {
    int lrun = 0;
    if (ei_left > 0 && lt->kind == K_READ) { out[n].kind = 'i'; out[n++].arg = 0; }
    switch (lt->kind) {
      case K_WAIT: lrun = efd_count > 0; break;
      case K_LOAD: lrun = is_busy(lt->addr) ? (*(volatile int*) lt->addr == 0) : 1; break;
      case SCHED_K_DONE: lrun = 0; break;
      default: lrun = 1;
    }
    if (lrun) { out[n].kind = 'l'; out[n++].arg = 0; }
    if (fk_left > 0 && lt->kind == K_WAIT) { out[n].kind = 'k'; out[n++].arg = 0; }
    if (st_left > 0 && lt->kind == K_INCB && L->stop_flag == 0) { out[n].kind = 'x'; out[n++].arg = 0; }
    if (sp_left > 0 && lt->kind == K_LOAD && is_busy(lt->addr) && *(volatile int*) lt->addr != 0) { out[n].kind = 'p'; out[n++].arg = 0; }
    if (lt->kind == K_WAIT || lt->kind == K_INCB)
      for (h = 0; h < nh; h++)
        if (closable[h] && !closing_f[h]) { out[n].kind = 'c'; out[n++].arg = h; }
    if (lt->kind == K_WAIT)
      for (h = 0; h < nh; h++)
        if (unlinked[h] && !freed[h]) { out[n].kind = 'f'; out[n++].arg = 0; break; }
  }
  return n;
}

static const char* ret_name(char* b) {
  if (cb_of >= 0) sprintf(b, "cb%d", cb_of); else strcpy(b, "idle");
  return b;
}

static void lists_str(char* qs, char* hls) {
  /* loop->async_handles in order; what is linked elsewhere is on uv__async_io's local `queue` */
  int inhl[MAXH] = {0}, h, first = 1;
  struct uv__queue* q;
  char* p = hls;
  p += sprintf(p, "[");
  uv__queue_foreach(q, &L->async_handles) {
    uv_async_t* a = uv__queue_data(q, uv_async_t, queue);
    h = handle_of(a);
    if (a == &L->wq_async) continue;
    if (h < 0) { p += sprintf(p, "?"); continue; }
    inhl[h] = 1;
    p += sprintf(p, "%s%d", first ? "" : ",", h); first = 0;
  }
  sprintf(p, "]");
  p = qs; p += sprintf(p, "["); first = 1;
  for (h = 0; h < nh; h++) {
    if (freed[h] || inhl[h] || unlinked[h]) continue;
    /* h sits on the local queue: find the head (the only node that is not a handle) and list from there */
    struct uv__queue* n = &H[h]->queue;
    int guardn = 0;
    while ((handle_of(n) >= 0 || n == &L->wq_async.queue) && guardn++ < 2 * MAXH + 2) n = n->next;
    if (handle_of(n) >= 0 || n == &L->wq_async.queue) { p += sprintf(p, "?"); break; }
    for (q = n->next; q != n; q = q->next) {
      int g = handle_of(q);
      if (q == &L->wq_async.queue) continue;
      p += sprintf(p, "%s%d", first ? "" : ",", g); first = 0;
    }
    break;
  }
  sprintf(p, "]");
}

static char statebuf[1024 + 80 * MAXH];
static const char* state_str(void) {
  char* p = statebuf; char b[32]; static char qs[8 * MAXH + 8], hls[8 * MAXH + 8];
  sched_thread* lt = &sched_t[0];
  int h, t, n; tok_t en[MAXEN];
  p += sprintf(p, "efd=%llu lpc=", (unsigned long long) efd_count);
  switch (lt->kind) {
    case K_WAIT: p += sprintf(p, "idle"); break;
    case K_READ: p += sprintf(p, "drain"); break;
    case K_INCB: p += sprintf(p, "cb%d", (int) lt->val); break;
    case K_XCHG: p += sprintf(p, "scan%d", handle_of(lt->addr)); break;
    case K_STORE: p += sprintf(p, "store%d/%s", handle_of(lt->addr), ret_name(b)); break;
    case K_LOAD: p += sprintf(p, "spin%d/%s", handle_of(lt->addr), ret_name(b)); break;
    default: p += sprintf(p, "k%d", lt->kind);
  }
  lists_str(qs, hls);
  p += sprintf(p, " q=%s hl=%s |", qs, hls);
  for (h = 0; h < nh; h++) {
    if (freed[h]) p += sprintf(p, " h%d:freed,", h);
    else p += sprintf(p, " h%d:p=%d,b=%d,%c%c-,", h, H[h]->pending, H[h]->u.fd,
                      uv_is_closing((uv_handle_t*) H[h]) ? 'c' : '-', unlinked[h] ? 'u' : '-');
    p += sprintf(p, "pub=%d,seen=%d,cb=%d,x=%d", pub[h], seen[h], cbs[h], eff[h]);
  }
  p += sprintf(p, " |");
  for (t = 0; t < ns; t++) {
    sched_thread* st = &sched_t[t + 1];
    const char* pc = "idle";
    char ob[24];
    if (dead[t]) pc = "idle";
    else if (st->kind == K_LOADX || (st->kind == K_LOAD && is_pending(st->addr))) pc = "load";
    else if (st->kind == K_FADD && st->val == 1) pc = "inc";
    else if (st->kind == K_FADD && st->val == -1) pc = "dec";
    else if (st->kind == K_XCHG) pc = "xchg";
    else if (st->kind == K_WRITE) pc = "write";
    else if (st->kind != K_BEGIN && st->kind != SCHED_K_DONE) { sprintf(ob, "k%d", st->kind); pc = ob; }
    p += sprintf(p, " t%d:%s,h%d,k%d,q%d", t, pc, S[t].h, S[t].k, S[t].seq);
  }
  p += sprintf(p, " | ei=%d fk=%d st=%d sf=%d sp=%d en=", ei_left, fk_left, st_left, (int) L->stop_flag, sp_left);
  n = enabled_set(en);
  for (t = 0; t < n; t++) { tok_str(en[t], b); p += sprintf(p, "%s%s", t ? "," : "", b); }
  return statebuf;
}

/* ------------------------------------------------------------------ monitors on a reached state */
static void check_state(void) {
  int t, h; char b[160];
  sched_thread* lt = &sched_t[0];
  /* close_safe: nobody writes the eventfd on behalf of a handle whose uv__async_close returned */
  for (t = 0; t < ns; t++)
    if (!dead[t] && sched_t[t + 1].kind == K_WRITE && unlinked[S[t].h]) {
      snprintf(b, sizeof b, "sender %d about to write the eventfd for h%d after uv__async_close(h%d) returned", t, S[t].h, S[t].h);
      violation("wakeup-write-after-close", b);
    }
  /* quiescent: the loop is (or would be) blocked in epoll and no sender can move */
  if (lt->kind == K_WAIT && efd_count == 0) {
    int moving = 0;
    for (t = 0; t < ns; t++) if (sender_midsend(t)) moving = 1;
    if (!moving)
      for (h = 0; h < nh; h++) {
        if (freed[h] || closing_f[h]) continue;
        if (H[h]->pending != 0) {
          snprintf(b, sizeof b, "loop blocked with eventfd=0, no send in flight, h%d open with pending=%d", h, H[h]->pending);
          violation("lost-wakeup", b);
        } else if (completed[h] > seen[h]) {
          snprintf(b, sizeof b, "loop blocked; send #%d on h%d returned but the last callback saw #%d", completed[h], h, seen[h]);
          violation("send-without-callback", b);
        }
      }
  }
}

/* ------------------------------------------------------------------ one run */
#define MAXPATH 16384
static tok_t path[MAXPATH]; static int pathlen;

static void start_run(void) {
  int h, t;
  memset(closing_f, 0, sizeof closing_f); memset(unlinked, 0, sizeof unlinked); memset(freed, 0, sizeof freed); memset(released, 0, sizeof released);
  memset(pub, 0, sizeof pub); memset(seen, 0, sizeof seen); memset(cbs, 0, sizeof cbs);
  memset(eff, 0, sizeof eff); memset(completed, 0, sizeof completed); memset(S, 0, sizeof S);
  cb_of = closing_now = -1; efd_count = 0; ei_left = eintr_budget; fk_left = fork_budget; st_left = stop_budget; L->stop_flag = 0; sp_left = spin_n > 0; memset(dead, 0, sizeof dead); viol[0] = 0; pathlen = 0; effbuf[0] = 0;
  for (h = 0; h < nh; h++) {
    H[h] = malloc(sizeof(uv_async_t));
    if (uv_async_init(L, H[h], nocb[h] ? NULL : async_cb)) { fprintf(stderr, "uv_async_init failed\n"); exit(3); }
    H[h]->data = (void*) (long) h;
  }
  efd_fd = L->async_io_watcher.fd;
  if (L->async_wfd != -1) { fprintf(stderr, "expected the eventfd configuration (async_wfd == -1)\n"); exit(3); }
  sched_spawn(0, loop_fn);
  for (t = 0; t < ns; t++) sched_spawn(t + 1, sender_fn);
}

static void end_run(void) {
  int h;
  for (h = 0; h < nh; h++) if (released[h] == 2) { UNPOISON(H[h], sizeof(uv_async_t)); released[h] = 0; }
  sched_unwind_all();
  /* tear-down on the controller's stack, unscheduled: close what is still open; close_cb frees */
  cleanup_mode = 1;
  efd_count = 0;
  for (h = 0; h < nh; h++) {
    if (freed[h]) { if (!released[h]) { released[h] = 1; free(H[h]); } continue; }
    if (!uv_is_closing((uv_handle_t*) H[h])) { H[h]->u.fd = 0; uv_close((uv_handle_t*) H[h], close_cb); }
  }
  uv_run(L, UV_RUN_NOWAIT);
  for (h = 0; h < nh; h++) if (!freed[h]) { fprintf(stderr, "tear-down: h%d not released\n", h); exit(3); }
  if (uv__queue_head(&L->async_handles) != &L->wq_async.queue || L->wq_async.queue.next != &L->async_handles) { fprintf(stderr, "tear-down: async_handles not back to {wq_async}\n"); exit(3); }
  cleanup_mode = 0;
}

static int tok_enabled(tok_t k) {
  tok_t en[MAXEN]; int n = enabled_set(en);
  for (int i = 0; i < n; i++) if (en[i].kind == k.kind && en[i].arg == k.arg) return 1;
  return 0;
}

static void print_viol(void) {
  char b[16];
  printf("!! %s :: %s :: sched", viol, cfgline);
  for (int i = 0; i < pathlen; i++) { tok_str(path[i], b); printf(" %s", b); }
  printf("\n");
}

/* perform one enabled token; returns 0 when the run must stop (monitor failure) */
static int do_tok(tok_t k, int print) {
  char b[16];
  tok_str(k, b);
  if (pathlen >= MAXPATH) { fprintf(stderr, "schedule too long\n"); exit(3); }
  path[pathlen++] = k;
  effbuf[0] = 0;
  if (trace_steps) { printf("> %s\n", b); fflush(stdout); }
  if (k.kind == 's') {
    sched_thread* st = &sched_t[k.arg + 1];
    int fh = st->addr ? handle_of(st->addr) : -1;
    if (guard && fh >= 0 && released[fh]) {
      /* the operation would touch memory the close callback released: do not execute it */
      char w[160];
      snprintf(w, sizeof w, "sender %d inside uv_async_send(h%d) is about to access the handle (park kind %d, %s) after its close callback released it",
               k.arg, fh, st->kind, is_busy(st->addr) ? "busy" : "pending");
      violation("handle-access-after-close-cb", w);
      if (print) printf("a %s :: TOUCH-FREED h%d\n", b, fh);
      return 0;
    }
    sched_step(k.arg + 1, CMD_STEP);
  } else if (k.kind == 'e') { ei_left--; sched_step(k.arg + 1, CMD_EINTR); }
  else if (k.kind == 'i') { ei_left--; sched_step(0, CMD_EINTR); }
  else if (k.kind == 'k') { fk_left--; sched_step(0, CMD_FORK); }
  else if (k.kind == 'x') { st_left--; sched_step(0, CMD_STOP); }
  else if (k.kind == 'p') {
    /* bounded unfairness: the loop thread spins spin_n times in a row; correct code is still parked at the same load */
    sched_thread* lt = &sched_t[0];
    sp_left--;
    for (int i = 0; i < spin_n && lt->kind == K_LOAD && is_busy(lt->addr); i++) { effbuf[0] = 0; sched_step(0, CMD_STEP); }
    snprintf(effbuf, sizeof effbuf, "spinburst");
  }
  else if (k.kind == 'l') sched_step(0, CMD_STEP);
  else if (k.kind == 'c') sched_step(0, CMD_CLOSE + 16 * k.arg);
  else if (k.kind == 'f') sched_step(0, CMD_CLOSECB);
  check_state();
  if (print) printf("a %s :: %s :: %s\n", b, effbuf, state_str());
  return viol[0] == 0;
}

/* ------------------------------------------------------------------ exploration */
static uint64_t* vis; static size_t viscap, visn;
static uint64_t fnv(const char* s) { uint64_t h = 1469598103934665603ull; for (; *s; s++) { h ^= (unsigned char) *s; h *= 1099511628211ull; } return h ? h : 1; }
static int vis_add(uint64_t k) {          /* 1 = new */
  if ((visn + 1) * 2 > viscap) {
    size_t nc = viscap ? viscap * 2 : 1 << 16; uint64_t* nv = calloc(nc, 8);
    for (size_t i = 0; i < viscap; i++) if (vis[i]) { size_t j = vis[i] & (nc - 1); while (nv[j]) j = (j + 1) & (nc - 1); nv[j] = vis[i]; }
    free(vis); vis = nv; viscap = nc;
  }
  size_t j = k & (viscap - 1);
  while (vis[j]) { if (vis[j] == k) return 0; j = (j + 1) & (viscap - 1); }
  vis[j] = k; visn++; return 1;
}

typedef struct { tok_t en[MAXEN]; int n, idx; uint64_t sh; } frame_t;
static frame_t stack[512];

static void dfs(int maxdepth) {
  int sp = 0, first = 1; long execs = 0, terminals = 0, pruned = 0, capped = 0, viols = 0; int deepest = 0;
  free(vis); vis = NULL; viscap = visn = 0;
  for (;;) {
    int depth = 0;
    start_run(); execs++;
    if (first) { printf("run :: %s\n", state_str()); first = 0; }
    else printf("at %d\n", sp - 1);
    for (;;) {
      tok_t k;
      if (depth < sp) {
        uint64_t sh = fnv(state_str());
        if (sh != stack[depth].sh) { printf("!! nondeterministic replay at depth %d :: %s\n", depth, cfgline); exit(4); }
        k = stack[depth].en[stack[depth].idx];
        if (!do_tok(k, depth == sp - 1)) { viols++; print_viol(); break; }
      } else {
        const char* st = state_str();
        uint64_t sh = fnv(st);
        frame_t* f = &stack[sp];
        if (!vis_add(sh)) { pruned++; break; }
        f->n = enabled_set(f->en); f->idx = 0; f->sh = sh;
        if (f->n == 0) { terminals++; break; }
        if (depth >= maxdepth) { capped++; break; }
        sp++;
        k = f->en[0];
        if (!do_tok(k, 1)) { viols++; print_viol(); break; }
      }
      depth++;
      if (depth > deepest) deepest = depth;
    }
    end_run();
    while (sp > 0 && stack[sp - 1].idx + 1 >= stack[sp - 1].n) sp--;
    if (sp == 0) break;
    stack[sp - 1].idx++;
  }
  printf("# dfs states=%zu execs=%ld terminals=%ld pruned=%ld depthcap=%ld deepest=%d violations=%ld\n",
         visn, execs, terminals, pruned, capped, deepest, viols);
}

static uint64_t rs;
static uint64_t rnd(void) { uint64_t z = (rs += 0x9E3779B97F4A7C15ull); z = (z ^ (z >> 30)) * 0xBF58476D1CE4E5B9ull; z = (z ^ (z >> 27)) * 0x94D049BB133111EBull; return z ^ (z >> 31); }

static void rand_runs(uint64_t seed, int runs) {
  long steps = 0, viols = 0;
  rs = seed;
  for (int r = 0; r < runs; r++) {
    int sticky = -1;
    start_run();
    printf("run :: %s\n", state_str());
    int maxd = 400, tt;
    for (tt = 0; tt < ns; tt++) if (nprog[tt] > 8) maxd += 12 * nprog[tt];   /* long programs (many handles): room for every send and every scan */
    for (int d = 0; d < maxd; d++) {
      tok_t en[MAXEN]; int n = enabled_set(en), w[MAXEN], tot = 0, i; uint64_t x;
      if (n == 0) break;
      /* close / close-callback choices are taken less often; a chosen thread tends to keep running for a while
         and then get preempted (preemption inside the few-instruction windows is the point) */
      for (i = 0; i < n; i++) { w[i] = (en[i].kind == 'c' || en[i].kind == 'f' || en[i].kind == 'e' || en[i].kind == 'i' || en[i].kind == 'k') ? 1 : (en[i].kind == 'x' || en[i].kind == 'p') ? 3 : 4; if (i == sticky) w[i] += 6; tot += w[i]; }
      x = rnd() % tot;
      for (i = 0; i < n; i++) { if (x < (uint64_t) w[i]) break; x -= w[i]; }
      sticky = (rnd() % 3 == 0) ? -1 : i;
      steps++;
      if (!do_tok(en[i], 1)) { viols++; print_viol(); break; }
    }
    end_run();
  }
  printf("# rand runs=%d steps=%ld violations=%ld\n", runs, steps, viols);
}

static int parse_tok(const char* w, tok_t* k) {
  k->kind = w[0]; k->arg = 0;
  if (w[0] == 'l' || w[0] == 'f' || w[0] == 'i' || w[0] == 'k' || w[0] == 'x' || w[0] == 'p') return w[1] == 0;
  if ((w[0] == 's' || w[0] == 'c' || w[0] == 'e') && w[1] >= '0' && w[1] <= '9') {
    char* end; long v = strtol(w + 1, &end, 10);
    if (*end == 0 && v < (w[0] == 'c' ? MAXH : MAXS)) { k->arg = (int) v; return 1; }
  }
  return 0;
}

static void parse_cfg(char* line) {
  char* w[16]; int n = 0, i, ncl = 0;
  snprintf(cfgline, sizeof cfgline, "%s", line);
  cfgline[strcspn(cfgline, "\r\n")] = 0;
  for (char* p = strtok(line, " \t\r\n"); p && n < 16; p = strtok(NULL, " \t\r\n")) w[n++] = p;
  nh = ns = 0; free_in_cb = 0; eintr_budget = 0; efd_cap = 0; fork_budget = 0; stop_budget = 0; spin_n = 0; memset(closable, 0, sizeof closable); memset(nocb, 0, sizeof nocb); memset(nprog, 0, sizeof nprog);
  for (i = 0; i < MAXS; i++) sigvictim[i] = -2;
  for (i = 1; i < n; i++) {
    char* v = strchr(w[i], '=');
    if (!v) continue;
    *v++ = 0;
    if (!strcmp(w[i], "nh")) nh = atoi(v);
    else if (!strcmp(w[i], "free")) free_in_cb = !strcmp(v, "cb");
    else if (!strcmp(w[i], "eintr")) eintr_budget = atoi(v);
    else if (!strcmp(w[i], "fork")) fork_budget = atoi(v);
    else if (!strcmp(w[i], "stop")) stop_budget = atoi(v);
    else if (!strcmp(w[i], "spin")) spin_n = atoi(v);
    else if (!strcmp(w[i], "cap")) efd_cap = (*v == '-') ? 0 : (uint64_t) atoi(v);
    else if (!strcmp(w[i], "close") || !strcmp(w[i], "nocb")) {
      int* dst = w[i][0] == 'c' ? closable : nocb;
      if (*v != '-') for (char* p = v; *p; ) {
        if (*p >= '0' && *p <= '9') { long x = strtol(p, &p, 10); if (x < MAXH) dst[x] = 1; else { fprintf(stderr, "cfg too large\n"); exit(3); } }
        else p++;
      }
    }
    else if (!strcmp(w[i], "senders")) {
      if (*v == '-') continue;
      ns = 1;
      for (char* p = v; *p; ) {
        if (*p == ';') { ns++; p++; }
        else if (*p >= '0' && *p <= '9') {
          long x = strtol(p, &p, 10);
          if (ns > MAXS || nprog[ns - 1] >= MAXPROG || x >= MAXH) { fprintf(stderr, "cfg too large\n"); exit(3); }
          prog[ns - 1][nprog[ns - 1]++] = (int) x;
        } else p++;
      }
    } else if (!strcmp(w[i], "sig")) {
      if (*v == '-') continue;
      for (char* p = v; *p; ) {
        int t = p[0] - '0';
        if (t >= 0 && t < MAXS && p[1] == ':') sigvictim[t] = (p[2] == 'l') ? -1 : p[2] - '0';
        p += 3; if (*p == ',') p++;
      }
    }
  }
  for (i = 0; i < MAXH; i++) ncl += closable[i];
  if (nh > MAXH || ns > MAXS || ncl > MAXCLOSABLE) { fprintf(stderr, "cfg too large\n"); exit(3); }
  printf("%s\n", cfgline);
}

/* ------------------------------------------------------------------ real-process fork monitor (no scheduler, real eventfd + epoll)
 * variant 0: a send on A is undelivered at fork time; 1: nothing pending; 2: A's send was delivered before the fork.
 * child: uv_loop_fork(), then a thread sends on A and B while the loop thread is blocked in uv_run(); both callbacks must
 * run (bounded by a guard timer).  parent: keeps working — the undelivered send is delivered there, a fresh send too. */
#include <sys/wait.h>
static int rf_cb[2];
static uv_async_t rf_h[2];
static uv_timer_t rf_guard;
static uv_loop_t rf_loop;
static void rf_async_cb(uv_async_t* h) {
  rf_cb[h == &rf_h[1]]++;
  if (rf_cb[0] && rf_cb[1]) uv_stop(h->loop);
}
static void rf_guard_cb(uv_timer_t* t) { uv_stop(t->loop); }
static void* rf_sender(void* arg) {
  (void) arg;
  usleep(30000);                         /* let the loop thread block in epoll first */
  uv_async_send(&rf_h[0]);
  uv_async_send(&rf_h[1]);
  return NULL;
}
static void rf_phase(const char* who) {
  pthread_t th;
  rf_cb[0] = rf_cb[1] = 0;
  pthread_create(&th, NULL, rf_sender, NULL);
  uv_timer_start(&rf_guard, rf_guard_cb, 1500, 0);
  uv_run(&rf_loop, UV_RUN_DEFAULT);
  uv_timer_stop(&rf_guard);
  pthread_join(th, NULL);
  printf("realfork %s cbA=%d cbB=%d\n", who, rf_cb[0], rf_cb[1]);
  fflush(stdout);
}
static void realfork(int variant) {
  pid_t pid; int st = 0;
  uv_loop_init(&rf_loop);
  uv_async_init(&rf_loop, &rf_h[0], rf_async_cb);
  uv_async_init(&rf_loop, &rf_h[1], rf_async_cb);
  uv_timer_init(&rf_loop, &rf_guard);
  rf_cb[0] = rf_cb[1] = 0;
  if (variant == 0) uv_async_send(&rf_h[0]);
  if (variant == 2) { uv_async_send(&rf_h[0]); uv_run(&rf_loop, UV_RUN_NOWAIT); }
  printf("realfork variant=%d prefork cbA=%d\n", variant, rf_cb[0]);
  fflush(stdout);
  pid = fork();
  if (pid == 0) {
    if (uv_loop_fork(&rf_loop)) { printf("realfork child uv_loop_fork failed\n"); fflush(stdout); _exit(2); }
    rf_phase("child");
    fflush(stdout);
    _exit(0);
  }
  waitpid(pid, &st, 0);
  if (variant == 0) {                    /* the parent still owes the pre-fork send */
    rf_cb[0] = 0;
    uv_run(&rf_loop, UV_RUN_NOWAIT);
    printf("realfork parent-pending cbA=%d\n", rf_cb[0]);
  }
  rf_phase("parent");
  printf("realfork childstatus=%d\n", WIFEXITED(st) ? WEXITSTATUS(st) : 100 + WTERMSIG(st));
  uv_close((uv_handle_t*) &rf_h[0], NULL); uv_close((uv_handle_t*) &rf_h[1], NULL); uv_close((uv_handle_t*) &rf_guard, NULL);
  uv_run(&rf_loop, UV_RUN_DEFAULT);
  uv_loop_close(&rf_loop);
}

/* real loop: both handles signalled in one wake-up, the callback of `stopper` calls uv_stop(); the loop is then run again */
static int rs_stopper;
static void rs_async_cb(uv_async_t* h) {
  int i = (h == &rf_h[1]);
  rf_cb[i]++;
  if (i == rs_stopper) uv_stop(h->loop);
}
static void realstop(int stopper) {
  uv_loop_init(&rf_loop);
  uv_async_init(&rf_loop, &rf_h[0], rs_async_cb);
  uv_async_init(&rf_loop, &rf_h[1], rs_async_cb);
  uv_timer_init(&rf_loop, &rf_guard);
  rf_cb[0] = rf_cb[1] = 0; rs_stopper = stopper;
  uv_async_send(&rf_h[0]); uv_async_send(&rf_h[1]);
  uv_timer_start(&rf_guard, rf_guard_cb, 1500, 0);
  uv_run(&rf_loop, UV_RUN_DEFAULT);
  printf("realstop stopper=%d run1 cbA=%d cbB=%d\n", stopper, rf_cb[0], rf_cb[1]);
  uv_run(&rf_loop, UV_RUN_NOWAIT);
  uv_run(&rf_loop, UV_RUN_NOWAIT);
  printf("realstop stopper=%d run3 cbA=%d cbB=%d\n", stopper, rf_cb[0], rf_cb[1]);
  rs_stopper = -1;
  uv_async_send(&rf_h[0]); uv_async_send(&rf_h[1]);   /* later sends must not be swallowed by a stale pending flag */
  uv_run(&rf_loop, UV_RUN_NOWAIT);
  printf("realstop stopper=%d resend cbA=%d cbB=%d\n", stopper, rf_cb[0], rf_cb[1]);
  uv_timer_stop(&rf_guard);
  uv_close((uv_handle_t*) &rf_h[0], NULL); uv_close((uv_handle_t*) &rf_h[1], NULL); uv_close((uv_handle_t*) &rf_guard, NULL);
  uv_run(&rf_loop, UV_RUN_DEFAULT);
  uv_loop_close(&rf_loop);
}

/* ------------------------------------------------------------------ real loop, many handles (no scheduler; real eventfd + epoll)
 * realmany <nh> <nfds> <mode>: nh async handles on one loop, plus nfds readable pipes watched with uv_poll_t (so that the
 * eventfd competes with > 1024 other ready descriptors in uv__io_poll's event batch).  Two rounds; in each round every
 * handle gets exactly one send while its previous send has been delivered, so exactly one callback per handle and round is owed.
 * mode 0: the sends are issued on the loop thread between polls (all pending in the same wake-up pass); the loop is run with
 *         UV_RUN_NOWAIT until every callback ran; a pass that delivers nothing while sends are owed = the loop would block.
 * mode 1: a second thread issues the sends while the loop thread is blocked in uv_run(UV_RUN_DEFAULT) (guard timer). */
#include <pthread.h>
static void nh_reset(void) { nh = 0; }   /* no scheduled handles: every atomic below is the plain one */
static uv_async_t* rm_h; static int* rm_cb; static uv_poll_t* rm_p; static int (*rm_pipe)[2];
static int rm_n, rm_stop_at;
static _Atomic int rm_total;
static void rm_async_cb(uv_async_t* h) {
  rm_cb[h - rm_h]++;
  if (__c11_atomic_fetch_add(&rm_total, 1, __ATOMIC_SEQ_CST) + 1 == rm_stop_at) uv_stop(h->loop);
}
static void rm_poll_cb(uv_poll_t* p, int status, int events) {
  char c; int i = (int) (p - rm_p);
  (void) status; (void) events;
  if (syscall(SYS_read, rm_pipe[i][0], &c, 1) < 0) {}
}
static void rm_send_round(int round) {
  int h;
  for (h = 0; h < rm_n; h++) uv_async_send(&rm_h[round == 1 ? h : rm_n - 1 - h]);
}
static void* rm_sender(void* arg) {
  int waited = 0;
  (void) arg;
  usleep(30000);                         /* let the loop thread block in epoll first */
  rm_send_round(1);
  while (__c11_atomic_load(&rm_total, __ATOMIC_SEQ_CST) < rm_n && waited++ < 1500) usleep(1000);
  usleep(20000);
  if (__c11_atomic_load(&rm_total, __ATOMIC_SEQ_CST) >= rm_n) rm_send_round(2);
  return NULL;
}
static void rm_report(int nfds, int mode, int round, int expect, int passes) {
  int h, ok = 0, lo = 1 << 30, hi = 0, bad = -1;
  for (h = 0; h < rm_n; h++) {
    if (rm_cb[h] == expect) ok++; else if (bad < 0) bad = h;
    if (rm_cb[h] < lo) lo = rm_cb[h];
    if (rm_cb[h] > hi) hi = rm_cb[h];
  }
  printf("realmany nh=%d nfds=%d mode=%d round=%d ok=%d expect=%d min=%d max=%d firstbad=%d passes=%d\n", rm_n, nfds, mode, round, ok, expect, lo, hi, bad, passes);
  fflush(stdout);
}
static void realmany(int nh, int nfds, int mode) {
  int h, i, round;
  if (nh < 1 || nh > 100000 || nfds < 0 || nfds > 8000) { printf("bad-op\n"); return; }
  nh_reset();
  uv_loop_init(&rf_loop);
  rm_n = nh; rm_h = calloc(nh, sizeof *rm_h); rm_cb = calloc(nh, sizeof *rm_cb);
  rm_p = calloc(nfds + 1, sizeof *rm_p); rm_pipe = calloc(nfds + 1, sizeof *rm_pipe);
  __c11_atomic_store(&rm_total, 0, __ATOMIC_SEQ_CST);
  for (h = 0; h < nh; h++) if (uv_async_init(&rf_loop, &rm_h[h], rm_async_cb)) { fprintf(stderr, "uv_async_init failed\n"); exit(3); }
  for (i = 0; i < nfds; i++) {
    if (pipe(rm_pipe[i]) || uv_poll_init(&rf_loop, &rm_p[i], rm_pipe[i][0]) || uv_poll_start(&rm_p[i], UV_READABLE, rm_poll_cb)) { fprintf(stderr, "pipe/poll setup failed at %d\n", i); exit(3); }
    if (syscall(SYS_write, rm_pipe[i][1], "x", 1) != 1) exit(3);
  }
  uv_timer_init(&rf_loop, &rf_guard);
  if (mode == 0) {
    for (round = 1; round <= 2; round++) {
      int passes = 0, idle = 0;
      rm_stop_at = -1;
      rm_send_round(round);
      while (__c11_atomic_load(&rm_total, __ATOMIC_SEQ_CST) < round * nh && idle < 2 && passes < nh + 8) {
        int before = __c11_atomic_load(&rm_total, __ATOMIC_SEQ_CST);
        uv_run(&rf_loop, UV_RUN_NOWAIT); passes++;
        idle = (__c11_atomic_load(&rm_total, __ATOMIC_SEQ_CST) == before) ? idle + 1 : 0;
      }
      rm_report(nfds, mode, round, round, passes);
      for (i = 0; i < nfds; i++) if (syscall(SYS_write, rm_pipe[i][1], "y", 1) != 1) exit(3);
    }
  } else {
    pthread_t th;
    rm_stop_at = 2 * nh;
    pthread_create(&th, NULL, rm_sender, NULL);
    uv_timer_start(&rf_guard, rf_guard_cb, 4000, 0);
    uv_run(&rf_loop, UV_RUN_DEFAULT);
    uv_timer_stop(&rf_guard);
    pthread_join(th, NULL);
    rm_report(nfds, mode, 2, 2, 0);
  }
  for (h = 0; h < nh; h++) uv_close((uv_handle_t*) &rm_h[h], NULL);
  for (i = 0; i < nfds; i++) uv_close((uv_handle_t*) &rm_p[i], NULL);
  uv_close((uv_handle_t*) &rf_guard, NULL);
  uv_run(&rf_loop, UV_RUN_DEFAULT);
  for (i = 0; i < nfds; i++) { close(rm_pipe[i][0]); close(rm_pipe[i][1]); }
  uv_loop_close(&rf_loop);
  free(rm_h); free(rm_cb); free(rm_p); free(rm_pipe);
}

/* real loop, handles without a callback ("just wake the loop"): every one of `sends` consecutive uv_async_send() calls from
 * another thread, each issued while the loop thread is blocked in uv_run(UV_RUN_DEFAULT), must wake the loop (observed by a
 * uv_check_t, which runs once per loop iteration right after the poll phase).  nh handles, the sends rotate over them. */
static _Atomic int rn_iter; static int rn_sends, rn_nh, rn_woken, rn_failed_at;
static uv_check_t rn_check;
static void rn_check_cb(uv_check_t* c) { (void) c; __c11_atomic_fetch_add(&rn_iter, 1, __ATOMIC_SEQ_CST); }
static void* rn_sender(void* arg) {
  int k;
  (void) arg;
  for (k = 0; k < rn_sends; k++) {
    int c0, waited = 0;
    usleep(25000);                       /* the loop thread is back in epoll_wait */
    c0 = __c11_atomic_load(&rn_iter, __ATOMIC_SEQ_CST);
    uv_async_send(&rm_h[k % rn_nh]);
    while (__c11_atomic_load(&rn_iter, __ATOMIC_SEQ_CST) == c0 && waited++ < 1200) usleep(1000);
    if (__c11_atomic_load(&rn_iter, __ATOMIC_SEQ_CST) == c0) { rn_failed_at = k + 1; break; }
    rn_woken++;
  }
  uv_async_send(&rf_h[0]);               /* a handle with a callback ends the run */
  return NULL;
}
static void rn_end_cb(uv_async_t* h) { uv_stop(h->loop); }
static void realnull(int nh, int sends) {
  pthread_t th; int h;
  if (nh < 1 || nh > 1000 || sends < 1 || sends > 1000) { printf("bad-op\n"); return; }
  nh_reset();
  uv_loop_init(&rf_loop);
  rm_h = calloc(nh, sizeof *rm_h); rn_nh = nh; rn_sends = sends; rn_woken = 0; rn_failed_at = 0;
  __c11_atomic_store(&rn_iter, 0, __ATOMIC_SEQ_CST);
  for (h = 0; h < nh; h++) if (uv_async_init(&rf_loop, &rm_h[h], NULL)) exit(3);
  uv_async_init(&rf_loop, &rf_h[0], rn_end_cb);
  uv_check_init(&rf_loop, &rn_check); uv_check_start(&rn_check, rn_check_cb); uv_unref((uv_handle_t*) &rn_check);
  uv_timer_init(&rf_loop, &rf_guard);
  uv_timer_start(&rf_guard, rf_guard_cb, 1500 * sends + 3000, 0);
  pthread_create(&th, NULL, rn_sender, NULL);
  uv_run(&rf_loop, UV_RUN_DEFAULT);
  pthread_join(th, NULL);
  printf("realnull nh=%d sends=%d woken=%d failed_at=%d\n", nh, sends, rn_woken, rn_failed_at);
  fflush(stdout);
  uv_timer_stop(&rf_guard);
  for (h = 0; h < nh; h++) uv_close((uv_handle_t*) &rm_h[h], NULL);
  uv_close((uv_handle_t*) &rf_h[0], NULL); uv_close((uv_handle_t*) &rn_check, NULL); uv_close((uv_handle_t*) &rf_guard, NULL);
  uv_run(&rf_loop, UV_RUN_DEFAULT);
  uv_loop_close(&rf_loop);
  free(rm_h);
}

int main(void) {
  static char line[65536];
  setvbuf(stdout, NULL, _IOFBF, 1 << 16);
  trace_steps = getenv("C09_TRACE") != NULL;
  sched_init();
  {                                      /* baton hand-overs are an order of magnitude cheaper on one CPU */
    cpu_set_t cs; int c = sched_getcpu();
    if (c >= 0) { CPU_ZERO(&cs); CPU_SET(c, &cs); sched_setaffinity(0, sizeof cs, &cs); }
  }
  if (uv_loop_init(L)) return 3;
  while (fgets(line, sizeof line, stdin)) {
    if (!strncmp(line, "cfg", 3)) parse_cfg(line);
    else if (!strncmp(line, "realfork", 8)) realfork(atoi(line + 8));
    else if (!strncmp(line, "realstop", 8)) realstop(atoi(line + 8));
    else if (!strncmp(line, "realmany", 8)) { int a = 0, b = 0, c = 0; sscanf(line + 8, "%d %d %d", &a, &b, &c); realmany(a, b, c); }
    else if (!strncmp(line, "realnull", 8)) { int a = 0, b = 0; sscanf(line + 8, "%d %d", &a, &b); realnull(a, b); }
    else if (!strncmp(line, "dfs", 3)) { int md = atoi(line + 3); dfs(md > 0 && md < 500 ? md : 300); }
    else if (!strncmp(line, "rand", 4)) { unsigned long long sd = 1; int runs = 1; sscanf(line + 4, "%llu %d", &sd, &runs); rand_runs(sd, runs); }
    else if (!strncmp(line, "sched", 5)) {
      char* p = strtok(line + 5, " \t\r\n");
      guard = 1;
      start_run();
      printf("run :: %s\n", state_str());
      for (; p; p = strtok(NULL, " \t\r\n")) {
        tok_t k;
        if (!strcmp(p, "noguard")) { guard = 0; continue; }
        if (!parse_tok(p, &k)) { printf("bad-op\n"); break; }
        if (!tok_enabled(k)) { printf("a %s :: not-enabled\n", p); break; }
        if (!do_tok(k, 1)) { print_viol(); break; }
      }
      end_run();
      guard = 1;
    } else if (line[0] != '\n' && line[0] != '#') printf("bad-op\n");
    fflush(stdout);
  }
  uv_loop_close(L);
  return 0;
}
