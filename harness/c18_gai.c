/* C18 (text half): the *caller* of the IDNA codec — uv_getaddrinfo() of the working tree (whole
 * library from the archive) with the C library's resolver interposed: getaddrinfo() below records
 * the node / service / hints it is handed and returns a canned answer (no network, no files).
 * The host name is placed so that its terminating NUL is the last byte before an inaccessible
 * page.  Line protocol (other side: `uvdriver c18gai`, lean/Drivers/C18Text.lean):
 *   gai <host hex|-|null> <service hex|-|null> <null | flags,family,socktype,protocol> <sync|async|noreq> <ans>
 *     sync  = cb NULL (resolver runs inside the call), async = through the thread pool + uv_run,
 *     noreq = req NULL; ans = what the interposed resolver returns (0 or an EAI_* code)
 *   -> gai rc=<uv_getaddrinfo> calls=<resolver calls> node=<hex|-|null> svc=<hex|-|null>
 *          hints=<null|f,f,s,p> status=<cb status|none> res=<0|1>                              */
#include "uv.h"
#include <netdb.h>
#include <netinet/in.h>
#include <stdio.h>
#include <stdlib.h>
#include <string.h>
#include <sys/mman.h>
#include <unistd.h>

static long pagesz;

static unsigned char* guard_alloc(size_t n, void** base, size_t* maplen) {
  size_t pages = (n + pagesz - 1) / pagesz + 1;
  unsigned char* m = mmap(NULL, (pages + 1) * pagesz, PROT_READ | PROT_WRITE,
                          MAP_PRIVATE | MAP_ANONYMOUS, -1, 0);
  if (m == MAP_FAILED) { perror("mmap"); exit(3); }
  if (mprotect(m + pages * pagesz, pagesz, PROT_NONE)) { perror("mprotect"); exit(3); }
  *base = m;
  *maplen = (pages + 1) * pagesz;
  return m + pages * pagesz - n;
}

static int hexv(int c) {
  if (c >= '0' && c <= '9') return c - '0';
  if (c >= 'a' && c <= 'f') return c - 'a' + 10;
  if (c >= 'A' && c <= 'F') return c - 'A' + 10;
  return -1;
}

/* hex -> bytes; "-" = empty; returns -1 on syntax error */
static int parse_bytes(const char* w, unsigned char** out, size_t* n) {
  size_t len = strlen(w), i;
  *n = 0;
  *out = malloc(len / 2 + 1);
  if (strcmp(w, "-") == 0) return 0;
  if (len % 2) return -1;
  for (i = 0; i < len; i += 2) {
    int a = hexv(w[i]), b = hexv(w[i + 1]);
    if (a < 0 || b < 0) return -1;
    (*out)[(*n)++] = a * 16 + b;
  }
  return 0;
}

static void print_cstr(const char* key, const char* s) {
  printf(" %s=", key);
  if (s == NULL) { fputs("null", stdout); return; }
  if (*s == '\0') { fputs("-", stdout); return; }
  for (; *s; s++) printf("%02x", (unsigned char) *s);
}

/* ------------------------------------------------------------------ the interposed resolver */
static int resolver_calls;
static int resolver_answer;
static char* seen_node;
static char* seen_service;
static int seen_hints;            /* 0 = NULL */
static struct addrinfo seen_hints_v;

int getaddrinfo(const char* node, const char* service, const struct addrinfo* hints, struct addrinfo** res) {
  struct addrinfo* ai;
  struct sockaddr_in* sa;
  resolver_calls++;
  free(seen_node); free(seen_service);
  seen_node = node ? strdup(node) : NULL;
  seen_service = service ? strdup(service) : NULL;
  seen_hints = hints != NULL;
  if (hints) seen_hints_v = *hints;
  if (resolver_answer != 0)
    return resolver_answer;
  ai = calloc(1, sizeof(*ai) + sizeof(*sa));
  sa = (struct sockaddr_in*) (ai + 1);
  sa->sin_family = AF_INET;
  sa->sin_addr.s_addr = htonl(0x7f000001);
  ai->ai_family = AF_INET;
  ai->ai_socktype = SOCK_STREAM;
  ai->ai_addrlen = sizeof(*sa);
  ai->ai_addr = (struct sockaddr*) sa;
  *res = ai;
  return 0;
}

void freeaddrinfo(struct addrinfo* ai) {
  while (ai) { struct addrinfo* n = ai->ai_next; free(ai); ai = n; }
}

/* ------------------------------------------------------------------ */
static int cb_called, cb_status, cb_res;
static void gai_cb(uv_getaddrinfo_t* req, int status, struct addrinfo* res) {
  (void) req;
  cb_called++;
  cb_status = status;
  cb_res = res != NULL;
  if (res) uv_freeaddrinfo(res);
}

int main(void) {
  char* line = NULL;
  size_t cap = 0;
  uv_loop_t* loop = uv_default_loop();
  pagesz = sysconf(_SC_PAGESIZE);
  while (getline(&line, &cap, stdin) > 0) {
    char* w[8];
    int nw = 0;
    char* tok = strtok(line, " \t\r\n");
    while (tok && nw < 8) { w[nw++] = tok; tok = strtok(NULL, " \t\r\n"); }
    if (nw == 0) continue;
    if (strcmp(w[0], "gai") != 0 || nw != 6) { puts("bad-op"); fflush(stdout); continue; }

    unsigned char *hb = NULL, *sb = NULL;
    size_t hn = 0, sn = 0, l1 = 0;
    void* b1 = NULL;
    char *host = NULL, *svc = NULL;
    struct addrinfo hints, *hp = NULL;
    int mode, ok = 1, rc, res = 0;
    uv_getaddrinfo_t req;

    if (strcmp(w[1], "null")) {
      if (parse_bytes(w[1], &hb, &hn) || memchr(hb, 0, hn)) ok = 0;
      else { host = (char*) guard_alloc(hn + 1, &b1, &l1); memcpy(host, hb, hn); host[hn] = 0; }
    }
    if (ok && strcmp(w[2], "null")) {
      if (parse_bytes(w[2], &sb, &sn) || memchr(sb, 0, sn)) ok = 0;
      else { svc = malloc(sn + 1); memcpy(svc, sb, sn); svc[sn] = 0; }
    }
    if (ok && strcmp(w[3], "null")) {
      int f, fa, st, pr; char tail;
      if (sscanf(w[3], "%d,%d,%d,%d%c", &f, &fa, &st, &pr, &tail) != 4) ok = 0;
      memset(&hints, 0, sizeof(hints));
      hints.ai_flags = f; hints.ai_family = fa; hints.ai_socktype = st; hints.ai_protocol = pr;
      hp = &hints;
    }
    mode = !strcmp(w[4], "sync") ? 0 : !strcmp(w[4], "async") ? 1 : !strcmp(w[4], "noreq") ? 2 : -1;
    if (mode < 0) ok = 0;
    if (!ok) {
      puts("bad-op"); fflush(stdout);
      free(hb); free(sb); free(svc); if (b1) munmap(b1, l1);
      continue;
    }
    resolver_answer = atoi(w[5]);
    resolver_calls = 0; cb_called = 0; cb_status = 0; cb_res = 0;
    free(seen_node); free(seen_service); seen_node = seen_service = NULL; seen_hints = 0;
    memset(&req, 0, sizeof(req));

    rc = uv_getaddrinfo(loop, mode == 2 ? NULL : &req, mode == 1 ? gai_cb : NULL, host, svc, hp);
    if (mode == 1 && rc == 0)
      uv_run(loop, UV_RUN_DEFAULT);
    if (mode == 0 && resolver_calls > 0) {
      res = req.addrinfo != NULL;
      if (req.addrinfo) uv_freeaddrinfo(req.addrinfo);
    }
    if (mode == 1) res = cb_res;

    printf("gai rc=%d calls=%d", rc, resolver_calls);
    print_cstr("node", resolver_calls ? seen_node : NULL);
    print_cstr("svc", resolver_calls ? seen_service : NULL);
    if (resolver_calls && seen_hints)
      printf(" hints=%d,%d,%d,%d", seen_hints_v.ai_flags, seen_hints_v.ai_family,
             seen_hints_v.ai_socktype, seen_hints_v.ai_protocol);
    else
      printf(" hints=null");
    if (cb_called == 1) printf(" status=%d", cb_status);
    else if (cb_called == 0) printf(" status=none");
    else printf(" status=cb-called-%d-times", cb_called);
    printf(" res=%d\n", res);
    fflush(stdout);
    free(hb); free(sb); free(svc); if (b1) munmap(b1, l1);
  }
  free(line);
  return 0;
}
