/* C11: "uv_fs_req_cleanup() releases everything the request allocated and may be called in any result
 * state" with exact heap accounting per request:
 *   c11_cleanup sync|pool|uring <scratchdir>          (UV_THREADPOOL_SIZE=1 expected)
 * For every request kind in success and failure state, for scandir after k of n uv_fs_scandir_next calls
 * (k = 0..n and after UV_EOF), for opendir/readdir/closedir sequences abandoned after j batches, and (pool
 * route) for requests cancelled with uv_cancel: live blocks of libuv's allocator (uv_replace_allocator
 * counting shim), bytes live in the whole process heap (__sanitizer_get_current_allocated_bytes: covers what
 * libc's scandir/opendir/realpath allocate on the request's behalf) and open descriptors are sampled
 * before the request is issued and after uv_fs_req_cleanup (+ undo of the op's own effect): all three
 * deltas must be 0.  Three rounds; rounds 2 and 3 are printed (round 1 warms up threads, stdio, ring).
 * Line: `case <name> uvblocks=<d> heap=<d> fds=<d> result=<r> cb=<n>`. */
#include "uv.h"
#include "uv-common.h"
#include <dirent.h>
#include <errno.h>
#include <fcntl.h>
#include <sanitizer/allocator_interface.h>
#include <stdatomic.h>
#include <stdio.h>
#include <stdlib.h>
#include <string.h>
#include <sys/stat.h>
#include <unistd.h>

static _Atomic long uv_live;
static void* c_malloc(size_t n) { void* p = malloc(n); if (p) uv_live++; return p; }
static void* c_calloc(size_t a, size_t b) { void* p = calloc(a, b); if (p) uv_live++; return p; }
static void* c_realloc(void* q, size_t n) { void* p = realloc(q, n); if (q == NULL && p) uv_live++; return p; }
static void c_free(void* p) { if (p) uv_live--; free(p); }

enum { SYNC, POOL, URING };
static int mode, round_no;
static uv_loop_t loop;
static int cbs;
static void on_fs(uv_fs_t* req) { cbs++; }
#define CB (mode == SYNC ? NULL : on_fs)

static int count_fds(void) {
  int n = 0, fd;
  for (fd = 0; fd < 256; fd++) if (fcntl(fd, F_GETFD) != -1) n++;
  return n;
}

static long s_uv, s_heap; static int s_fds;
static void at(const char* what, int n) { fprintf(stderr, "at %s %d\n", what, n); }
static void begin(void) { s_fds = count_fds(); s_uv = uv_live; s_heap = (long) __sanitizer_get_current_allocated_bytes(); }
static void end(const char* name, long result) {
  long heap = (long) __sanitizer_get_current_allocated_bytes() - s_heap, uvb = uv_live - s_uv;
  int fds = count_fds() - s_fds;
  if (round_no >= 2)
    printf("case %s uvblocks=%ld heap=%ld fds=%d result=%s cb=%d\n", name, uvb, heap, fds,
           result == 12345 ? "FOREIGN-POINTER-TOUCHED" : result < 0 ? uv_err_name((int) result) : "ok", cbs);
}

static long wait_req(int rc, uv_fs_t* req) {
  cbs = 0;
  if (mode == SYNC || rc != 0) return rc;
  uv_run(&loop, UV_RUN_DEFAULT);
  return (long) req->result;
}

/* blocker for the cancel cases: occupies the only worker */
static uv_sem_t gate; static uv_work_t blocker; static int blocker_done;
static void block_work(uv_work_t* w) { uv_sem_wait(&gate); }
static void block_done(uv_work_t* w, int st) { blocker_done = 1; }

static char names[16][24];
#define NKINDS 60
/* issue request kind `id`; returns rc of uv_fs_*.  Paths: f (file, 7 bytes), d (dir with 3 entries), e (empty dir),
   l (symlink -> f), nope (missing) */
static int fdf, fdd, fdo;
static uv_buf_t bufs6[6]; static char mem[64];
static int issue(int id, uv_fs_t* r, uv_fs_cb cb, const char** name) {
  switch (id) {
#define K(n, nm, call) case n: *name = nm; return call;
    K(0, "open-ok", uv_fs_open(&loop, r, "f", O_RDONLY, 0, cb))
    K(1, "open-enoent", uv_fs_open(&loop, r, "nope", O_RDONLY, 0, cb))
    K(2, "close-ebadf", uv_fs_close(&loop, r, -1, cb))
    K(3, "read-1buf", uv_fs_read(&loop, r, fdf, bufs6, 1, 0, cb))
    K(4, "read-6bufs", uv_fs_read(&loop, r, fdf, bufs6, 6, 0, cb))
    K(5, "read-6bufs-ebadf", uv_fs_read(&loop, r, -1, bufs6, 6, 0, cb))
    K(6, "write-1buf", uv_fs_write(&loop, r, fdf, bufs6, 1, 0, cb))
    K(7, "write-6bufs", uv_fs_write(&loop, r, fdf, bufs6, 6, 0, cb))
    K(8, "write-6bufs-ebadf", uv_fs_write(&loop, r, -1, bufs6, 6, 0, cb))
    K(9, "stat-ok", uv_fs_stat(&loop, r, "f", cb))
    K(10, "stat-enoent", uv_fs_stat(&loop, r, "nope", cb))
    K(11, "lstat-ok", uv_fs_lstat(&loop, r, "l", cb))
    K(12, "fstat-ok", uv_fs_fstat(&loop, r, fdf, cb))
    K(13, "fstat-ebadf", uv_fs_fstat(&loop, r, -1, cb))
    K(14, "statfs-ok", uv_fs_statfs(&loop, r, ".", cb))
    K(15, "statfs-enoent", uv_fs_statfs(&loop, r, "nope", cb))
    K(16, "mkdir-ok", uv_fs_mkdir(&loop, r, "m", 0755, cb))
    K(17, "mkdir-eexist", uv_fs_mkdir(&loop, r, "d", 0755, cb))
    K(18, "rmdir-enoent", uv_fs_rmdir(&loop, r, "nope", cb))
    K(19, "unlink-enoent", uv_fs_unlink(&loop, r, "nope", cb))
    K(20, "rename-ok", uv_fs_rename(&loop, r, "f", "f.ren", cb))
    K(21, "rename-enoent", uv_fs_rename(&loop, r, "nope", "x", cb))
    K(22, "link-ok", uv_fs_link(&loop, r, "f", "hl", cb))
    K(23, "link-eexist", uv_fs_link(&loop, r, "f", "d", cb))
    K(24, "symlink-ok", uv_fs_symlink(&loop, r, "f", "sl", 0, cb))
    K(25, "symlink-eexist", uv_fs_symlink(&loop, r, "f", "l", 0, cb))
    K(26, "readlink-ok", uv_fs_readlink(&loop, r, "l", cb))
    K(27, "readlink-einval", uv_fs_readlink(&loop, r, "f", cb))
    K(28, "realpath-ok", uv_fs_realpath(&loop, r, "l", cb))
    K(29, "realpath-enoent", uv_fs_realpath(&loop, r, "nope", cb))
    K(30, "access-ok", uv_fs_access(&loop, r, "f", R_OK, cb))
    K(31, "chmod-enoent", uv_fs_chmod(&loop, r, "nope", 0600, cb))
    K(32, "fchmod-ok", uv_fs_fchmod(&loop, r, fdf, 0644, cb))
    K(33, "utime-ok", uv_fs_utime(&loop, r, "f", 1000, 2000, cb))
    K(34, "futime-ebadf", uv_fs_futime(&loop, r, -1, 1000, 2000, cb))
    K(35, "lutime-ok", uv_fs_lutime(&loop, r, "l", 1000, 2000, cb))
    K(36, "mkdtemp-ok", uv_fs_mkdtemp(&loop, r, "tXXXXXX", cb))
    K(37, "mkdtemp-enoent", uv_fs_mkdtemp(&loop, r, "nope/tXXXXXX", cb))
    K(38, "mkstemp-ok", uv_fs_mkstemp(&loop, r, "sXXXXXX", cb))
    K(39, "mkstemp-einval", uv_fs_mkstemp(&loop, r, "sXX", cb))
    K(40, "copyfile-ok", uv_fs_copyfile(&loop, r, "f", "cp", 0, cb))
    K(41, "copyfile-enoent", uv_fs_copyfile(&loop, r, "nope", "cp", 0, cb))
    K(42, "sendfile-ebadf", uv_fs_sendfile(&loop, r, -1, fdf, 0, 4, cb))
    K(43, "ftruncate-ok", uv_fs_ftruncate(&loop, r, fdf, 7, cb))
    K(44, "fsync-ok", uv_fs_fsync(&loop, r, fdf, cb))
    K(45, "fdatasync-ebadf", uv_fs_fdatasync(&loop, r, -1, cb))
    K(46, "access-enoent", uv_fs_access(&loop, r, "nope", R_OK, cb))
    K(47, "fchmod-ebadf", uv_fs_fchmod(&loop, r, -1, 0644, cb))
    K(48, "utime-enoent", uv_fs_utime(&loop, r, "nope", 1000, 2000, cb))
    K(49, "lutime-enoent", uv_fs_lutime(&loop, r, "nope", 1000, 2000, cb))
    K(50, "ftruncate-ebadf", uv_fs_ftruncate(&loop, r, -1, 7, cb))
    K(51, "fsync-ebadf", uv_fs_fsync(&loop, r, -1, cb))
    K(52, "mkdir-enoent", uv_fs_mkdir(&loop, r, "nope/m", 0755, cb))
    K(53, "rmdir-enotdir", uv_fs_rmdir(&loop, r, "f", cb))
    K(54, "unlink-eisdir", uv_fs_unlink(&loop, r, "d", cb))
    K(55, "copyfile-eexist", uv_fs_copyfile(&loop, r, "f", "l", UV_FS_COPYFILE_EXCL, cb))
    K(56, "lstat-enoent", uv_fs_lstat(&loop, r, "nope", cb))
    K(57, "open-eisdir", uv_fs_open(&loop, r, "d", O_WRONLY, 0, cb))
    K(58, "read-eisdir", uv_fs_read(&loop, r, fdd, bufs6, 6, 0, cb))
    K(59, "sendfile-ok", uv_fs_sendfile(&loop, r, fdo, fdf, 0, 4, cb))
#undef K
  }
  return UV_EINVAL;
}
/* undo the op's own effect with raw calls (none of them allocates) */
static void undo(int id, uv_fs_t* r, long result) {
  if (result < 0) return;
  switch (id) {
    case 0: close((int) result); break;
    case 16: rmdir("m"); break;
    case 20: rename("f.ren", "f"); break;
    case 22: unlink("hl"); break;
    case 24: unlink("sl"); break;
    case 36: if (r->path) rmdir(r->path); break;
    case 38: close((int) result); if (r->path) unlink(r->path); break;
    case 40: unlink("cp"); break;
  }
}

int main(int argc, char** argv) {
  int i, id;
  if (argc != 3) return 2;
  mode = !strcmp(argv[1], "sync") ? SYNC : !strcmp(argv[1], "pool") ? POOL : URING;
  if (uv_replace_allocator(c_malloc, c_realloc, c_calloc, c_free)) return 2;
  if (chdir(argv[2])) return 2;
  uv_loop_init(&loop);
  if (mode == URING && uv_loop_configure(&loop, UV_LOOP_USE_IO_URING_SQPOLL)) { puts("ROUTE-SKIPPED"); return 0; }
  mkdir("d", 0755); mkdir("e", 0755); mkdir("d/sub", 0755);
  close(open("d/a", O_CREAT | O_WRONLY, 0644)); close(open("d/b", O_CREAT | O_WRONLY, 0644));
  fdf = open("f", O_CREAT | O_RDWR, 0644);
  if (write(fdf, "abcdefg", 7) != 7 || symlink("f", "l")) return 2;
  fdd = open("d", O_RDONLY | O_DIRECTORY); fdo = open("out", O_CREAT | O_RDWR, 0644);
  for (i = 0; i < 6; i++) bufs6[i] = uv_buf_init(mem + i, 1);
  uv_sem_init(&gate, 0);
  printf("start %s\n", argv[1]);
  if (mode == URING) {
    uv_fs_t r; uv_fs_stat(&loop, &r, ".", on_fs); uv_run(&loop, UV_RUN_DEFAULT); uv_fs_req_cleanup(&r);
    if (uv__get_internal_fields((&loop))->iou.ringfd < 0) { puts("ROUTE-SKIPPED"); return 0; }
  }

  for (round_no = 1; round_no <= 3; round_no++) {
    /* 1. every kind, success / failure */
    for (id = 0; id < NKINDS; id++) {
      uv_fs_t r; const char* name = "?"; long res;
      at("kind", id);
      begin();
      res = wait_req(issue(id, &r, CB, &name), &r);
      undo(id, &r, res);
      uv_fs_req_cleanup(&r);
      end(name, res);
    }
    /* 2. scandir: cleanup after k of n next-calls, k = 0..n, and after UV_EOF (k = n+1); dirs with 3 and 0 entries, and a failing one */
    {
      const char* dirs[3] = { "d", "e", "nope" }; int di, k;
      for (di = 0; di < 3; di++) {
        for (k = 0; k <= 4; k++) {
          uv_fs_t r; uv_dirent_t de; long res; int j, got = 0; char nm[48];
          at(dirs[di], k);
          begin();
          res = wait_req(uv_fs_scandir(&loop, &r, dirs[di], 0, CB), &r);
          for (j = 0; j < k; j++) if (uv_fs_scandir_next(&r, &de) == 0) got++;
          uv_fs_req_cleanup(&r);
          snprintf(nm, sizeof nm, "scandir-%s-next%d-got%d", dirs[di], k, got);
          end(nm, res);
          if (res <= 0 && k >= 1) break;
        }
      }
    }
    /* 3. opendir / readdir x j (batch size b) / closedir, abandoned after j batches */
    {
      int b, j;
      for (b = 1; b <= 4; b += 3) {
        for (j = 0; j <= 4; j++) {
          uv_fs_t r; uv_dir_t* dir; uv_dirent_t des[4]; long res; int q; char nm[48];
          at("opendir-readdir", j * 10 + b);
          begin();
          res = wait_req(uv_fs_opendir(&loop, &r, "d", CB), &r);
          dir = res == 0 ? r.ptr : NULL;
          uv_fs_req_cleanup(&r);
          for (q = 0; dir && q < j; q++) {
            dir->dirents = des; dir->nentries = b;
            wait_req(uv_fs_readdir(&loop, &r, dir, CB), &r);
            uv_fs_req_cleanup(&r);
          }
          if (dir) { wait_req(uv_fs_closedir(&loop, &r, dir, CB), &r); uv_fs_req_cleanup(&r); }
          snprintf(nm, sizeof nm, "opendir-readdir%dx%d-closedir", j, b);
          end(nm, res);
        }
      }
      { uv_fs_t r; long res; begin(); res = wait_req(uv_fs_opendir(&loop, &r, "nope", CB), &r); uv_fs_req_cleanup(&r); end("opendir-enoent", res); }
      { uv_fs_t r; long res; begin(); res = wait_req(uv_fs_readdir(&loop, &r, NULL, CB), &r); uv_fs_req_cleanup(&r); end("readdir-null-einval", res); }
    }
    /* 3b. readdir / closedir that FAIL (the directory's descriptor is closed underneath: EBADF, result < 0 while
       req->ptr still points at the uv_dir_t); the user's dirents array holds foreign pointers that cleanup must not touch */
    {
      int b;
      for (b = 1; b <= 4; b += 3) {
        uv_fs_t r; uv_dir_t* dir; uv_dirent_t des[4]; long res, res2; int q; char nm[48];
        static char foreign[4][8] = { "own0", "own1", "own2", "own3" };
        at("readdir-ebadf", b);
        begin();
        res = wait_req(uv_fs_opendir(&loop, &r, "d", CB), &r);
        dir = res == 0 ? r.ptr : NULL;
        uv_fs_req_cleanup(&r);
        if (dir) {
          for (q = 0; q < 4; q++) { des[q].name = foreign[q]; des[q].type = UV_DIRENT_UNKNOWN; }
          dir->dirents = des; dir->nentries = b;
          close(dirfd(dir->dir));
          res = wait_req(uv_fs_readdir(&loop, &r, dir, CB), &r);
          uv_fs_req_cleanup(&r);
          for (q = 0; q < 4; q++) if (des[q].name != foreign[q] || strncmp(foreign[q], "own", 3)) res = 12345;
          res2 = wait_req(uv_fs_closedir(&loop, &r, dir, CB), &r);
          uv_fs_req_cleanup(&r);
          (void) res2;
        }
        snprintf(nm, sizeof nm, "readdir-ebadf-x%d", b);
        end(nm, res);
      }
      { uv_fs_t r; long res; at("scandir-enotdir", 0); begin(); res = wait_req(uv_fs_scandir(&loop, &r, "f", 0, CB), &r); { uv_dirent_t de; uv_fs_scandir_next(&r, &de); } uv_fs_req_cleanup(&r); end("scandir-enotdir-next", res); }
      { uv_fs_t r; long res; at("opendir-enotdir", 0); begin(); res = wait_req(uv_fs_opendir(&loop, &r, "f", CB), &r); uv_fs_req_cleanup(&r); end("opendir-enotdir", res); }
    }
    /* 4. cancelled requests (thread pool only: the single worker is held by a blocker) */
    if (mode == POOL) {
      int ids[] = { 0, 3, 4, 6, 7, 9, 11, 12, 14, 16, 20, 22, 24, 26, 28, 30, 33, 36, 38, 40, 43, 44, 59 }; unsigned q;
      for (q = 0; q < sizeof ids / sizeof *ids; q++) {
        uv_fs_t r; const char* name = "?"; char nm[48]; int rc, crc;
        blocker_done = 0;
        at("cancel-kind", ids[q]);
        uv_queue_work(&loop, &blocker, block_work, block_done);
        begin();
        rc = issue(ids[q], &r, on_fs, &name);
        crc = rc == 0 ? uv_cancel((uv_req_t*) &r) : rc;
        uv_sem_post(&gate);
        cbs = 0;
        uv_run(&loop, UV_RUN_DEFAULT);
        if (rc == 0 && r.result >= 0) undo(ids[q], &r, (long) r.result);   /* cancel lost the race: op ran */
        uv_fs_req_cleanup(&r);
        snprintf(nm, sizeof nm, "cancel-%s-%s", name, crc == 0 ? "cancelled" : "ran");
        end(nm, rc == 0 ? (long) r.result : rc);
      }
      /* opendir / readdir / closedir cancelled while queued; the dirents array holds foreign pointers */
      {
        int which;
        for (which = 0; which < 3; which++) {
          uv_fs_t r, r2; uv_dir_t* dir = NULL; uv_dirent_t des[2]; int rc, crc; long res; char nm[48]; DIR* saved = NULL; long lv = 0;
          static char foreign[2][8] = { "mine0", "mine1" };
          at("cancel-dirop", which);
          begin();
          if (which > 0) {
            uv_fs_opendir(&loop, &r2, "d", NULL); dir = r2.ptr; uv_fs_req_cleanup(&r2);
            des[0].name = foreign[0]; des[1].name = foreign[1];
            dir->dirents = des; dir->nentries = 2;
          }
          uv_queue_work(&loop, &blocker, block_work, block_done);
          rc = which == 0 ? uv_fs_opendir(&loop, &r, "d", on_fs) : which == 1 ? uv_fs_readdir(&loop, &r, dir, on_fs)
                                                                              : uv_fs_closedir(&loop, &r, dir, on_fs);
          crc = rc == 0 ? uv_cancel((uv_req_t*) &r) : rc;
          uv_sem_post(&gate);
          cbs = 0;
          uv_run(&loop, UV_RUN_DEFAULT);
          res = (long) r.result;
          if (which == 0 && res == 0) dir = r.ptr;          /* cancel lost the race */
          if (which == 2 && res == 0) dir = NULL;
          if (which == 2 && res < 0) { saved = dir->dir; lv = uv_live; }
          uv_fs_req_cleanup(&r);
          /* a closedir that never ran: the uv_dir_t stays the caller's, valid and closable (retried below).  If cleanup
             released a block here it was the uv_dir_t itself: do not touch it again, let the accounting show the rest */
          if (which == 2 && res < 0) { if (uv_live < lv) dir = NULL; else saved = NULL; }
          if (which > 0 && (des[0].name != foreign[0] || des[1].name != foreign[1]) && res < 0) res = 12345;
          if (which == 1 && res > 0) { /* ran: names were handed out and freed by cleanup */ }
          if (dir) { uv_fs_closedir(&loop, &r2, dir, NULL); uv_fs_req_cleanup(&r2); }
          snprintf(nm, sizeof nm, "cancel-%s-%s", which == 0 ? "opendir" : which == 1 ? "readdir" : "closedir", crc == 0 ? "cancelled" : "ran");
          end(nm, res);
          if (saved) closedir(saved);   /* after the measurement: do not let the stream linger for the rest of the run */
        }
      }
      /* scandir cancelled, then iterated: uv_fs_scandir_next on a cancelled request */
      {
        uv_fs_t r; uv_dirent_t de; int rc;
        uv_queue_work(&loop, &blocker, block_work, block_done);
        begin();
        rc = uv_fs_scandir(&loop, &r, "d", 0, on_fs);
        if (rc == 0) uv_cancel((uv_req_t*) &r);
        uv_sem_post(&gate);
        cbs = 0;
        uv_run(&loop, UV_RUN_DEFAULT);
        uv_fs_scandir_next(&r, &de);
        uv_fs_req_cleanup(&r);
        end("cancel-scandir-next", (long) r.result);
      }
    }
  }
  close(fdf); close(fdd); close(fdo);
  uv_run(&loop, UV_RUN_DEFAULT);
  if (uv_loop_close(&loop)) puts("!loop-close-busy");
  printf("end uvlive=%ld\n", (long) uv_live);
  fflush(stdout);
  return 0;
}
