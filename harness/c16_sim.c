/* C16 fault-enumeration simulator: the whole library (static link) driven through a catalogue of
 * scenarios, with (a) the allocator replaced (uv_replace_allocator) by a counting allocator that
 * fails chosen allocation indices and tracks live blocks, (b) libc entry points used by libuv
 * interposed (our definition wins in a static link; forwarded with a raw syscall instruction):
 * each counts its occurrences per (call, fd kind) and fails chosen occurrences with a chosen errno.
 *
 *   c16_sim run <scenario> [fault...]      one run in this process
 *   c16_sim batch                          stdin: lines `<scenario> [fault...]`; one forked child per line
 *   fault := alloc:K | alloc:LO-HI | sys:<call>[@kind]:N:<ERRNO> | sys:<call>[@kind]:LO-HI:<ERRNO>
 *
 * Output lines (all through raw write(1)):
 *   T ...        canonical transcript (observable outcome; compared with the fault-free run for
 *                transparent faults)
 *   A name rc    API return code / callback status (monitored here)
 *   fired ...    a fault that actually fired          count ...   occurrence totals
 *   VIOL kind detail   a property monitor failed
 *   abort-site 0xOFF   abort() was called from libuv code at this image offset (symbolised by the script)
 *   final ...    end-of-run observations             == exit ...  (batch) child status
 */
#include <stdio.h>
#include <stdlib.h>
#include <stdarg.h>
#include <string.h>
#include <errno.h>
#include <fcntl.h>
#include <poll.h>
#include <signal.h>
#include <unistd.h>
#include <dirent.h>
#include <dlfcn.h>
#include <pthread.h>
#include <stdatomic.h>
#include <time.h>
#include <sys/socket.h>
#include <sys/syscall.h>
#include <sys/uio.h>
#include <sys/wait.h>
#include <sys/stat.h>
#include <sys/epoll.h>
#include <sys/eventfd.h>
#include <sys/inotify.h>
#include <sys/ioctl.h>
#include <sys/mman.h>
#include <sys/sendfile.h>
#include <sys/un.h>
#include <netinet/in.h>
#include <netinet/tcp.h>
#include <arpa/inet.h>
#include "uv.h"

/* ------------------------------------------------------------------ raw syscalls (never interposed) */
static long raw6(long n, long a, long b, long c, long d, long e, long f) {
  long ret;
  register long r10 __asm__("r10") = d;
  register long r8 __asm__("r8") = e;
  register long r9 __asm__("r9") = f;
  __asm__ volatile("syscall" : "=a"(ret) : "a"(n), "D"(a), "S"(b), "d"(c), "r"(r10), "r"(r8), "r"(r9)
                   : "rcx", "r11", "memory");
  if (ret < 0 && ret > -4096) { errno = (int) -ret; return -1; }
  return ret;
}
#define RAW(n, ...) RAW_(n, __VA_ARGS__, 0, 0, 0, 0, 0, 0)
#define RAW_(n, a, b, c, d, e, f, ...) raw6((long) (n), (long) (a), (long) (b), (long) (c), (long) (d), (long) (e), (long) (f))

static int outfd = 1;
static void outs(const char* s, size_t n) {
  while (n > 0) { long r = RAW(SYS_write, outfd, s, n); if (r <= 0) { if (r < 0 && errno == EINTR) continue; return; } s += r; n -= r; }
}
static void OUT(const char* fmt, ...) {
  char b[1024]; va_list ap; int n;
  va_start(ap, fmt); n = vsnprintf(b, sizeof(b) - 1, fmt, ap); va_end(ap);
  if (n < 0) return;
  if (n > (int) sizeof(b) - 2) n = sizeof(b) - 2;
  b[n++] = '\n';
  outs(b, n);
}
static int nviol;
#define VIOL(kind, ...) do { char vb_[512]; snprintf(vb_, sizeof vb_, __VA_ARGS__); OUT("VIOL %s %s", kind, vb_); nviol++; } while (0)

/* ------------------------------------------------------------------ fault engine */
enum { S_read, S_write, S_readv, S_writev, S_pread, S_pwrite, S_sendmsg, S_recvmsg, S_sendmmsg, S_recvmmsg,
       S_accept4, S_connect, S_socket, S_socketpair, S_open, S_pipe2, S_epoll_create1, S_epoll_ctl,
       S_epoll_pwait, S_eventfd, S_inotify_init1, S_inotify_add_watch, S_fcntl, S_ioctl, S_dup2, S_dup3,
       S_waitpid, S_poll, S_nanosleep, S_fsync, S_fdatasync, S_ftruncate, S_close, S_fork, S_statx,
       S_sendfile, S_preadv, S_pwritev, S_bind, S_listen,
       S_opendir, S_scandir, S_readlink, S_realpath, S_mkdtemp, S_mkstemp, S_rename, S_unlink, S_mkdir, S_rmdir, S_symlink,
       S_access, S_setsockopt, S_N };
static const char* const sname[S_N] = { "read", "write", "readv", "writev", "pread", "pwrite", "sendmsg", "recvmsg",
  "sendmmsg", "recvmmsg", "accept4", "connect", "socket", "socketpair", "open", "pipe2", "epoll_create1",
  "epoll_ctl", "epoll_pwait", "eventfd", "inotify_init1", "inotify_add_watch", "fcntl", "ioctl", "dup2", "dup3",
  "waitpid", "poll", "nanosleep", "fsync", "fdatasync", "ftruncate", "close", "fork", "statx", "sendfile", "preadv", "pwritev", "bind", "listen",
  "opendir", "scandir", "readlink", "realpath", "mkdtemp", "mkstemp", "rename", "unlink", "mkdir", "rmdir", "symlink", "access", "setsockopt" };
/* fd kinds: - none/unknown, s socket, p pipe, e eventfd, i inotify, f file, E epoll */
static const char kinds[] = "-speifE";
#define K_N 7
#define MAXFD 4096
static unsigned char fdkind[MAXFD];
static int kidx(int fd) { return fd >= 0 && fd < MAXFD ? fdkind[fd] : 0; }
static void setkind(int fd, char k) { if (fd >= 0 && fd < MAXFD) fdkind[fd] = (unsigned char) (strchr(kinds, k) - kinds); }

static _Atomic unsigned occ[S_N][K_N];
static _Atomic unsigned nalloc;
static int atom_mode, atom_live, atom_block_writes;   /* per-operation runs: faults and counting only inside the measured call */
static _Atomic int armed;                 /* faults and counting active (scenario running, not a forked grandchild) */
static __thread int quiet_depth;          /* harness-own activity on this thread */
#define MAXF 64
static struct { int sys, kind; unsigned lo, hi; int err; _Atomic unsigned fired; } flt[MAXF];
static int nflt;
static struct { unsigned lo, hi; _Atomic unsigned fired; } aflt[MAXF];
static int naflt;
static _Atomic unsigned fired_total, fired_hard, fired_alloc, fired_wouldblock, fired_eintr;
static _Atomic unsigned fired_errno[256], fired_open;

static int is_transfer(int s) {
  return s == S_read || s == S_write || s == S_readv || s == S_writev || s == S_sendmsg || s == S_recvmsg ||
         s == S_sendmmsg || s == S_recvmmsg || s == S_accept4;
}

/* returns the errno to inject for this occurrence of call s on descriptor fd, or 0 */
static int inject(int s, int fd) {
  unsigned n; int k, i;
  if (!atomic_load(&armed) || quiet_depth || (atom_mode && !atom_live)) return 0;
  k = kidx(fd);
  n = atomic_fetch_add(&occ[s][k], 1) + 1;
  for (i = 0; i < nflt; i++)
    if (flt[i].sys == s && (flt[i].kind < 0 || flt[i].kind == k) && flt[i].lo <= n && n <= flt[i].hi) {
      int e = flt[i].err;
      /* would-block is only meaningful on a non-blocking descriptor */
      if (e == EAGAIN && fd >= 0 && !(RAW(SYS_fcntl, fd, F_GETFL) & O_NONBLOCK)) return 0;
      atomic_fetch_add(&flt[i].fired, 1);
      atomic_fetch_add(&fired_total, 1);
      if (s == S_open) atomic_fetch_add(&fired_open, 1);
      if (e == EINTR) atomic_fetch_add(&fired_eintr, 1);
      else if ((e == EAGAIN || e == ENOBUFS) && is_transfer(s)) atomic_fetch_add(&fired_wouldblock, 1);
      else { atomic_fetch_add(&fired_hard, 1); if (e > 0 && e < 256) atomic_fetch_add(&fired_errno[e], 1); }
      return e;
    }
  return 0;
}
#define INJ(s, fd) do { int e_ = inject(s, fd); if (e_) { errno = e_; return -1; } } while (0)

static const struct { const char* n; int e; } errnos[] = { {"EINTR", EINTR}, {"EAGAIN", EAGAIN}, {"ENOBUFS", ENOBUFS},
  {"EMFILE", EMFILE}, {"ENFILE", ENFILE}, {"ENOMEM", ENOMEM}, {"EEXIST", EEXIST}, {"ENOSPC", ENOSPC}, {NULL, 0} };

static int clobber_errno, idle_metrics;
static int eintr_after_pct;
static int parse_fault(const char* a) {
  char buf[128], *p, *q; unsigned lo, hi;
  snprintf(buf, sizeof buf, "%s", a);
  if (!strcmp(buf, "clobber")) { clobber_errno = 1; return 0; }
  if (!strcmp(buf, "idle-metrics")) { idle_metrics = 1; return 0; }
  if (!strncmp(buf, "eintr-after:", 12)) { eintr_after_pct = atoi(buf + 12); return eintr_after_pct > 0 && eintr_after_pct <= 100 ? 0 : -1; }
  if (!strncmp(buf, "alloc:", 6)) {
    if (naflt >= MAXF) return -1;
    if (sscanf(buf + 6, "%u-%u", &lo, &hi) != 2) { if (sscanf(buf + 6, "%u", &lo) != 1) return -1; hi = lo; }
    aflt[naflt].lo = lo; aflt[naflt].hi = hi; naflt++;
    return 0;
  }
  if (strncmp(buf, "sys:", 4) || nflt >= MAXF) return -1;
  p = buf + 4; q = strchr(p, ':'); if (!q) return -1; *q++ = 0;
  { char* at = strchr(p, '@'); int s, k = -1;
    if (at) { *at++ = 0; if (!*at || !strchr(kinds, *at)) return -1; k = (int) (strchr(kinds, *at) - kinds); }
    for (s = 0; s < S_N; s++) if (!strcmp(sname[s], p)) break;
    if (s == S_N) return -1;
    flt[nflt].sys = s; flt[nflt].kind = k; }
  p = q; q = strchr(p, ':'); if (!q) return -1; *q++ = 0;
  if (sscanf(p, "%u-%u", &lo, &hi) != 2) { if (sscanf(p, "%u", &lo) != 1) return -1; hi = lo; }
  flt[nflt].lo = lo; flt[nflt].hi = hi; flt[nflt].err = 0;
  for (int i = 0; errnos[i].n; i++) if (!strcmp(errnos[i].n, q)) flt[nflt].err = errnos[i].e;
  if (!flt[nflt].err) return -1;
  nflt++;
  return 0;
}

/* ------------------------------------------------------------------ counting allocator */
#define LIVECAP (1 << 16)
static void* live[LIVECAP]; static size_t livesz[LIVECAP];
static unsigned nlive; static size_t max_live;
static pthread_mutex_t live_mu = PTHREAD_MUTEX_INITIALIZER;
static unsigned hptr(void* p) { return (unsigned) ((((uintptr_t) p) >> 4) * 2654435761u) & (LIVECAP - 1); }
static void live_add(void* p, size_t n) {
  unsigned h;
  pthread_mutex_lock(&live_mu);
  for (h = hptr(p); live[h] != NULL && live[h] != (void*) 1; h = (h + 1) & (LIVECAP - 1));
  live[h] = p; livesz[h] = n; nlive++;
  pthread_mutex_unlock(&live_mu);
}
static int live_del(void* p) {
  unsigned h; int ok = 0;
  pthread_mutex_lock(&live_mu);
  for (h = hptr(p); live[h] != NULL; h = (h + 1) & (LIVECAP - 1))
    if (live[h] == p) { live[h] = (void*) 1; nlive--; ok = 1; break; }
  pthread_mutex_unlock(&live_mu);
  return ok;
}
static int alloc_fails(void) {
  unsigned n; int i;
  if (!atomic_load(&armed) || quiet_depth || (atom_mode && !atom_live)) return 0;
  n = atomic_fetch_add(&nalloc, 1) + 1;
  for (i = 0; i < naflt; i++)
    if (aflt[i].lo <= n && n <= aflt[i].hi) {
      atomic_fetch_add(&aflt[i].fired, 1); atomic_fetch_add(&fired_total, 1); atomic_fetch_add(&fired_alloc, 1);
      return 1;
    }
  return 0;
}
/* schedule token `clobber`: every allocator entry point leaves a junk errno behind, as any legal application allocator
 * installed with uv_replace_allocator may (it can make failing system calls of its own) */
#define JUNK_ERRNO EXDEV
#define CLOBBER() do { if (clobber_errno && atomic_load(&armed) && !quiet_depth) errno = JUNK_ERRNO; } while (0)
static void* c_malloc(size_t n) { void* p; if (alloc_fails()) { errno = ENOMEM; return NULL; } p = malloc(n ? n : 1); if (p) live_add(p, n); CLOBBER(); return p; }
static void* c_calloc(size_t a, size_t b) { void* p; if (alloc_fails()) { errno = ENOMEM; return NULL; } p = calloc(a ? a : 1, b ? b : 1); if (p) live_add(p, a * b); CLOBBER(); return p; }
static void c_free(void* p) {
  if (p == NULL) { CLOBBER(); return; }
  if (!live_del(p)) { VIOL("invalid-free", "%s", "free of a block that is not live (double free or foreign pointer)"); return; }
  free(p);
  CLOBBER();
}
static void* c_realloc(void* p, size_t n) {
  void* q;
  if (p == NULL) return c_malloc(n);
  if (n == 0) { c_free(p); return NULL; }
  if (alloc_fails()) { errno = ENOMEM; return NULL; }
  if (!live_del(p)) { VIOL("invalid-free", "%s", "realloc of a block that is not live"); return NULL; }
  q = realloc(p, n);
  live_add(q ? q : p, n);
  CLOBBER();
  return q;
}

/* ------------------------------------------------------------------ interposers */
static char kind_of_newfd = 0;
ssize_t read(int fd, void* b, size_t n) { INJ(S_read, fd); return RAW(SYS_read, fd, b, n); }
#define BLOCKW(fd) do { if (atom_live && atom_block_writes && kidx(fd) == 1) { errno = EAGAIN; return -1; } } while (0)
ssize_t write(int fd, const void* b, size_t n) { BLOCKW(fd); INJ(S_write, fd); return RAW(SYS_write, fd, b, n); }
ssize_t readv(int fd, const struct iovec* v, int n) { INJ(S_readv, fd); return RAW(SYS_readv, fd, v, n); }
ssize_t writev(int fd, const struct iovec* v, int n) { BLOCKW(fd); INJ(S_writev, fd); return RAW(SYS_writev, fd, v, n); }
ssize_t pread(int fd, void* b, size_t n, off_t o) { INJ(S_pread, fd); return RAW(SYS_pread64, fd, b, n, o); }
ssize_t pwrite(int fd, const void* b, size_t n, off_t o) { INJ(S_pwrite, fd); return RAW(SYS_pwrite64, fd, b, n, o); }
ssize_t sendmsg(int fd, const struct msghdr* m, int fl) { BLOCKW(fd); INJ(S_sendmsg, fd); return RAW(SYS_sendmsg, fd, m, fl); }
ssize_t recvmsg(int fd, struct msghdr* m, int fl) {
  ssize_t r; INJ(S_recvmsg, fd); r = RAW(SYS_recvmsg, fd, m, fl);
  if (r >= 0 && m->msg_controllen > 0) {       /* descriptors received over a unix socket */
    struct cmsghdr* c;
    for (c = CMSG_FIRSTHDR(m); c != NULL; c = CMSG_NXTHDR(m, c))
      if (c->cmsg_level == SOL_SOCKET && c->cmsg_type == SCM_RIGHTS) {
        int* p = (int*) CMSG_DATA(c); size_t k = (c->cmsg_len - CMSG_LEN(0)) / sizeof(int);
        for (size_t i = 0; i < k; i++) setkind(p[i], 's');
      }
  }
  return r;
}
int sendmmsg(int fd, struct mmsghdr* v, unsigned n, int fl) { BLOCKW(fd); INJ(S_sendmmsg, fd); return RAW(SYS_sendmmsg, fd, v, n, fl); }
int recvmmsg(int fd, struct mmsghdr* v, unsigned n, int fl, struct timespec* t) { INJ(S_recvmmsg, fd); return RAW(SYS_recvmmsg, fd, v, n, fl, t); }
int accept4(int fd, struct sockaddr* a, socklen_t* l, int fl) { int r; INJ(S_accept4, fd); r = RAW(SYS_accept4, fd, a, l, fl); setkind(r, 's'); return r; }
int connect(int fd, const struct sockaddr* a, socklen_t l) { INJ(S_connect, fd); return RAW(SYS_connect, fd, a, l); }
int bind(int fd, const struct sockaddr* a, socklen_t l) { INJ(S_bind, fd); return RAW(SYS_bind, fd, a, l); }
int listen(int fd, int n) { INJ(S_listen, fd); return RAW(SYS_listen, fd, n); }
/* socket options allocate in the kernel (ENOBUFS / ENOMEM); libuv issues them when a handle is given a socket
 * (remembered TCP_NODELAY / SO_KEEPALIVE + TCP_KEEP*), at bind (SO_REUSEADDR, IPV6_V6ONLY) and on request */
int setsockopt(int fd, int level, int name, const void* val, socklen_t len) { INJ(S_setsockopt, fd); return RAW(SYS_setsockopt, fd, level, name, val, len); }
int socket(int d, int t, int p) { int r; INJ(S_socket, -1); r = RAW(SYS_socket, d, t, p); setkind(r, 's'); return r; }
int socketpair(int d, int t, int p, int sv[2]) { int r; INJ(S_socketpair, -1); r = RAW(SYS_socketpair, d, t, p, sv); if (r == 0) { setkind(sv[0], 's'); setkind(sv[1], 's'); } return r; }
int open(const char* path, int flags, ...) {
  mode_t mode = 0; int r;
  if (flags & (O_CREAT | O_TMPFILE)) { va_list ap; va_start(ap, flags); mode = va_arg(ap, mode_t); va_end(ap); }
  { int e = inject(S_open, -1);
    /* opening procfs/sysfs/devfs entries or a directory never sleeps interruptibly */
    if (e == EINTR && (!strncmp(path, "/proc/", 6) || !strncmp(path, "/sys/", 5) || !strncmp(path, "/dev/", 5) ||
                       !strncmp(path, "/etc/", 5) || !strcmp(path, "/") || (flags & O_DIRECTORY))) e = 0;
    if (e) { errno = e; return -1; } }
  r = RAW(SYS_openat, AT_FDCWD, path, flags, mode);
  setkind(r, 'f');
  return r;
}
int pipe2(int fds[2], int fl) { int r; INJ(S_pipe2, -1); r = RAW(SYS_pipe2, fds, fl); if (r == 0) { setkind(fds[0], 'p'); setkind(fds[1], 'p'); } return r; }
int epoll_create1(int fl) { int r; INJ(S_epoll_create1, -1); r = RAW(SYS_epoll_create1, fl); setkind(r, 'E'); return r; }
int epoll_ctl(int ep, int op, int fd, struct epoll_event* ev) {
  int e = inject(S_epoll_ctl, fd);
  if (e == EEXIST) {      /* "already registered": only an ADD can report it, and the registration exists afterwards */
    long r = RAW(SYS_epoll_ctl, ep, op, fd, ev);
    if (op != EPOLL_CTL_ADD || r != 0) return (int) r;
    errno = EEXIST; return -1;
  }
  if (e && op == EPOLL_CTL_DEL) e = 0;          /* removal does not allocate: ENOMEM is not meaningful for it */
  if (e) { errno = e; return -1; }
  return RAW(SYS_epoll_ctl, ep, op, fd, ev);
}
/* schedule token `eintr-after:PCT`: an EINTR injected into a call that sleeps with a timeout arrives only after real
 * time has passed (PCT % of the timeout, 1..10 ms), as a periodic signal would deliver it.  Oracle evaluated here: the
 * call is re-issued with the *remaining* time, never the full timeout again. */
static long now_ms_floor(const struct timespec* t0) {
  struct timespec t1; RAW(SYS_clock_gettime, CLOCK_MONOTONIC, &t1);
  return (long) ((t1.tv_sec - t0->tv_sec) * 1000000000LL + (t1.tv_nsec - t0->tv_nsec)) / 1000000;
}
static long delay_for(long total_ms) { long w = total_ms * eintr_after_pct / 100; if (w > 10) w = 10; if (w > total_ms / 2) w = total_ms / 2; if (w < 1) w = 1; return w; }
static int ep_prev_to = -2; static long ep_prev_wait;
int epoll_pwait(int ep, struct epoll_event* ev, int n, int to, const sigset_t* ss) {
  int e;
  if (ep_prev_to != -2 && atomic_load(&armed) && !quiet_depth) {
    if (to == -1 || to > ep_prev_to - ep_prev_wait + 2)
      VIOL("eintr-timeout-not-reduced", "epoll_pwait(timeout=%d) was interrupted after %ld ms and re-issued with timeout=%d", ep_prev_to, ep_prev_wait, to);
    ep_prev_to = -2;
  }
  e = inject(S_epoll_pwait, -1);
  if (e == EINTR && eintr_after_pct && to >= 8) {
    struct timespec t0; long r;
    RAW(SYS_clock_gettime, CLOCK_MONOTONIC, &t0);
    r = RAW(SYS_epoll_pwait, ep, ev, n, delay_for(to), ss, 8);
    if (r != 0) return (int) r;                  /* something real happened first */
    ep_prev_to = to; ep_prev_wait = now_ms_floor(&t0);
    if (ep_prev_wait > to - 3) ep_prev_to = -2;  /* overslept (loaded machine): libuv may legitimately leave the poll */
    errno = EINTR; return -1;
  }
  if (e) { errno = e; return -1; }
  return RAW(SYS_epoll_pwait, ep, ev, n, to, ss, 8);
}
int eventfd(unsigned v, int fl) { int r; INJ(S_eventfd, -1); r = RAW(SYS_eventfd2, v, fl); setkind(r, 'e'); return r; }
int inotify_init1(int fl) { int r; INJ(S_inotify_init1, -1); r = RAW(SYS_inotify_init1, fl); setkind(r, 'i'); return r; }
int inotify_add_watch(int fd, const char* p, uint32_t m) { INJ(S_inotify_add_watch, -1); return RAW(SYS_inotify_add_watch, fd, p, m); }
int fcntl(int fd, int cmd, ...) {
  va_list ap; long arg; int r;
  va_start(ap, cmd); arg = va_arg(ap, long); va_end(ap);
  INJ(S_fcntl, fd);
  r = RAW(SYS_fcntl, fd, cmd, arg);
  if (r >= 0 && (cmd == F_DUPFD || cmd == F_DUPFD_CLOEXEC)) { if (r < MAXFD) fdkind[r] = kidx(fd); }
  return r;
}
int ioctl(int fd, unsigned long req, ...) {
  va_list ap; long arg;
  va_start(ap, req); arg = va_arg(ap, long); va_end(ap);
  INJ(S_ioctl, fd);
  return RAW(SYS_ioctl, fd, req, arg);
}
int dup2(int a, int b) { int r; INJ(S_dup2, a); r = a == b ? (RAW(SYS_fcntl, a, F_GETFD) < 0 ? -1 : b) : (int) RAW(SYS_dup3, a, b, 0); if (r >= 0 && r < MAXFD) fdkind[r] = kidx(a); return r; }
int dup3(int a, int b, int fl) { int r; INJ(S_dup3, a); r = RAW(SYS_dup3, a, b, fl); if (r >= 0 && r < MAXFD) fdkind[r] = kidx(a); return r; }
pid_t waitpid(pid_t p, int* st, int o) { INJ(S_waitpid, -1); return RAW(SYS_wait4, p, st, o, 0); }
int poll(struct pollfd* f, nfds_t n, int to) { INJ(S_poll, -1); return RAW(SYS_poll, f, n, to); }
static long ns_prev_req = -2, ns_prev_wait;
int nanosleep(const struct timespec* a, struct timespec* b) {
  long req = (long) (a->tv_sec * 1000 + a->tv_nsec / 1000000); int e;
  if (ns_prev_req != -2 && atomic_load(&armed) && !quiet_depth) {
    if (req > (ns_prev_req > ns_prev_wait ? ns_prev_req - ns_prev_wait : 0) + 2)
      VIOL("eintr-timeout-not-reduced", "nanosleep(%ld ms) was interrupted after %ld ms and re-issued for %ld ms", ns_prev_req, ns_prev_wait, req);
    ns_prev_req = -2;
  }
  e = inject(S_nanosleep, -1);
  if (e == EINTR && eintr_after_pct && req >= 8) {
    struct timespec t0, w; long el; long long left;
    RAW(SYS_clock_gettime, CLOCK_MONOTONIC, &t0);
    w.tv_sec = 0; w.tv_nsec = delay_for(req) * 1000000L;
    RAW(SYS_nanosleep, &w, 0);
    el = now_ms_floor(&t0);
    left = (long long) a->tv_sec * 1000000000LL + a->tv_nsec - (long long) el * 1000000LL; if (left < 0) left = 0;
    if (b) { b->tv_sec = left / 1000000000LL; b->tv_nsec = left % 1000000000LL; }     /* what the kernel reports as remaining */
    ns_prev_req = req; ns_prev_wait = el;
    errno = EINTR; return -1;
  }
  if (e) { errno = e; return -1; }
  return RAW(SYS_nanosleep, a, b);
}
/* durability has no observable effect here, and a real fsync takes seconds on a busy disk: succeed without the kernel */
int fsync(int fd) { INJ(S_fsync, fd); return RAW(SYS_fcntl, fd, F_GETFD) < 0 ? -1 : 0; }
int fdatasync(int fd) { INJ(S_fdatasync, fd); return RAW(SYS_fcntl, fd, F_GETFD) < 0 ? -1 : 0; }
int ftruncate(int fd, off_t n) { INJ(S_ftruncate, fd); return RAW(SYS_ftruncate, fd, n); }
/* fs.c looks preadv64/pwritev64 up with dlsym(RTLD_DEFAULT): the harness is linked with -rdynamic */
ssize_t preadv(int fd, const struct iovec* v, int n, off_t o) { INJ(S_preadv, fd); return RAW(SYS_preadv, fd, v, n, o, 0); }
ssize_t pwritev(int fd, const struct iovec* v, int n, off_t o) { INJ(S_pwritev, fd); return RAW(SYS_pwritev, fd, v, n, o, 0); }
ssize_t sendfile(int o, int i, off_t* off, size_t n) { INJ(S_sendfile, o); return RAW(SYS_sendfile, o, i, off, n); }

/* libc-level entry points of the file API (their internal system calls cannot be interposed): fail the call itself */
#define NEXT(name) dlsym(RTLD_NEXT, name)
DIR* opendir(const char* path) { static DIR* (*f)(const char*); int e = inject(S_opendir, -1); if (e) { errno = e; return NULL; } if (!f) f = NEXT("opendir"); return f(path); }
int scandir(const char* path, struct dirent*** out, int (*flt)(const struct dirent*), int (*cmp)(const struct dirent**, const struct dirent**)) {
  static int (*f)(const char*, struct dirent***, int (*)(const struct dirent*), int (*)(const struct dirent**, const struct dirent**));
  INJ(S_scandir, -1); if (!f) f = NEXT("scandir64"); return f(path, out, flt, cmp);
}
ssize_t readlink(const char* path, char* buf, size_t n) {
  int e = inject(S_readlink, -1);
  if (e == EINTR && !strncmp(path, "/proc/", 6)) e = 0;      /* procfs links never sleep interruptibly (same rule as open) */
  if (e) { errno = e; return -1; }
  return RAW(SYS_readlink, path, buf, n);
}
char* realpath(const char* path, char* out) { static char* (*f)(const char*, char*); int e = inject(S_realpath, -1); if (e) { errno = e; return NULL; } if (!f) f = NEXT("realpath"); return f(path, out); }
char* mkdtemp(char* tpl) { static char* (*f)(char*); int e = inject(S_mkdtemp, -1); if (e) { errno = e; return NULL; } if (!f) f = NEXT("mkdtemp"); return f(tpl); }
int mkstemp(char* tpl) { static int (*f)(char*); int r; INJ(S_mkstemp, -1); if (!f) f = NEXT("mkstemp64"); r = f(tpl); setkind(r, 'f'); return r; }
int rename(const char* a, const char* b) { INJ(S_rename, -1); return RAW(SYS_rename, a, b); }
int unlink(const char* a) { INJ(S_unlink, -1); return RAW(SYS_unlink, a); }
int mkdir(const char* a, mode_t m) { INJ(S_mkdir, -1); return RAW(SYS_mkdir, a, m); }
int rmdir(const char* a) { INJ(S_rmdir, -1); return RAW(SYS_rmdir, a); }
int symlink(const char* a, const char* b) { INJ(S_symlink, -1); return RAW(SYS_symlink, a, b); }
int access(const char* a, int m) { INJ(S_access, -1); return RAW(SYS_access, a, m); }

static pid_t (*real_fork)(void);
pid_t fork(void) {
  INJ(S_fork, -1);
  if (!real_fork) real_fork = (pid_t (*)(void)) dlsym(RTLD_NEXT, "fork");
  return real_fork();
}

static int allow_iouring;
/* libuv reaches close, statx, io_uring_*, getrandom, ... through syscall(2) */
__attribute__((no_sanitize("address", "undefined")))   /* reads six variadic slots whatever was passed */
long syscall(long n, ...) {
  va_list ap; long a, b, c, d, e, f;
  va_start(ap, n);
  a = va_arg(ap, long); b = va_arg(ap, long); c = va_arg(ap, long);
  d = va_arg(ap, long); e = va_arg(ap, long); f = va_arg(ap, long);
  va_end(ap);
  if (n == SYS_close) {
    /* a failing close still releases the descriptor on Linux: perform it, then report the fault */
    int inj = inject(S_close, (int) a);
    long r = RAW(SYS_close, a);
    if (r == 0 && a >= 0 && a < MAXFD) fdkind[a] = 0;
    /* descriptor accounting: libuv releasing a number that is not an open descriptor has released it twice (the
     * first release made the number available to everybody else in the process) */
    if (r != 0 && errno == EBADF && atomic_load(&armed) && !quiet_depth) {
      VIOL("close-not-open", "close(%ld) by libuv: not an open descriptor (released twice)", a);
      errno = EBADF;
    }
    if (inj && r == 0) { errno = inj; return -1; }
    return r;
  }
  if (n == SYS_io_uring_setup && !allow_iouring) { errno = ENOSYS; return -1; }
  if (n == SYS_statx) INJ(S_statx, -1);
  return raw6(n, a, b, c, d, e, f);
}

/* deliberate abort() inside libuv: report the call site and leave; assert() failures do not come here
 * (glibc's __assert_fail raises SIGABRT itself) and end the run with a signal instead */
extern char __executable_start;
void abort(void) {
  uintptr_t ra = (uintptr_t) __builtin_return_address(0);
  OUT("abort-site 0x%lx", (unsigned long) (ra - 1 - (uintptr_t) &__executable_start));
  RAW(SYS_exit_group, 77);
  for (;;) {}
}

/* ------------------------------------------------------------------ monitors shared by the scenarios */
static uv_loop_t loop_s; static uv_loop_t* loop = &loop_s;
static int loop_inited, stalled, bailed;
enum { Q_write, Q_connect, Q_shutdown, Q_udp_send, Q_fs, Q_work, Q_gai, Q_gni, Q_random, Q_close, Q_N };
static const char* const qname[Q_N] = { "write", "connect", "shutdown", "udp_send", "fs", "work", "getaddrinfo",
                                        "getnameinfo", "random", "close" };
static int owed[Q_N], got[Q_N];
static uv_timer_t* wd;     /* watchdog: survives bail-outs, closed by the epilogue */

static const char* en(int rc) { static char b[4][32]; static int i; char* p = b[i++ & 3]; if (rc >= 0) { snprintf(p, 32, "%d", rc); return p; } uv_err_name_r(rc, p, 32); return p; }

/* error codes that may follow from an injected hard failure elsewhere in the scenario (peer gone, bail-out) */
static int is_consequence(int rc) {
  return rc == UV_ECANCELED || rc == UV_EOF || rc == UV_ECONNRESET || rc == UV_EPIPE || rc == UV_ENOTCONN ||
         rc == UV_ECONNREFUSED;
}
static int allowed_err(int rc, int try_api) {
  if (rc >= 0) return 1;
  if (rc == UV_EINTR) return 0;                                   /* never surfaces */
  if (rc == UV_ENOMEM && atomic_load(&fired_alloc)) return 1;
  if (rc > -256 && atomic_load(&fired_errno[-rc])) return 1;      /* the mapped code of an injected hard errno */
  if (try_api && rc == UV_EAGAIN && atomic_load(&fired_wouldblock)) return 1;
  if ((atomic_load(&fired_hard) || atomic_load(&fired_alloc)) && is_consequence(rc)) return 1;
  return 0;
}
static int A_(const char* name, int rc, int try_api) {
  OUT("A %s %s", name, en(rc));
  if (!allowed_err(rc, try_api)) VIOL("bad-errcode", "%s %s", name, en(rc));
  return rc;
}
#define A(name, expr) A_(name, (int) (expr), 0)
#define ATRY(name, expr) A_(name, (int) (expr), 1)

static void* xalloc(size_t n) { void* p; quiet_depth++; p = calloc(1, n); quiet_depth--; if (!p) RAW(SYS_exit_group, 3); return p; }
#define NEW(type) ((type*) xalloc(sizeof(type)))

static void close_cb(uv_handle_t* h) { got[Q_close]++; free(h); }
static void hclose(void* h) { if (h != NULL && !uv_is_closing((uv_handle_t*) h)) { owed[Q_close]++; uv_close((uv_handle_t*) h, close_cb); } }
static void walk_close(uv_handle_t* h, void* arg) { if (arg == NULL && h == (uv_handle_t*) wd) return; hclose(h); }
static void bail(void) { bailed = 1; if (loop_inited) uv_walk(loop, walk_close, NULL); }
static void wd_cb(uv_timer_t* t) { (void) t; stalled = 1; OUT("stall"); bail(); uv_stop(loop); }

extern int __lsan_do_recoverable_leak_check(void) __attribute__((weak));
static char fdsnap0[8192], fdsnap1[8192];
static void fd_snapshot(char* out, size_t cap) {
  int fds[1024], n = 0, d; char buf[4096]; long r; size_t o = 0;
  quiet_depth++;
  d = (int) RAW(SYS_openat, AT_FDCWD, "/proc/self/fd", O_RDONLY | O_DIRECTORY | O_CLOEXEC, 0);
  while ((r = RAW(SYS_getdents64, d, buf, sizeof buf)) > 0)
    for (long off = 0; off < r;) {
      struct dirent64* e = (struct dirent64*) (buf + off);
      if (e->d_name[0] != '.' && atoi(e->d_name) != d && n < 1024) fds[n++] = atoi(e->d_name);
      off += e->d_reclen;
    }
  RAW(SYS_close, d);
  for (int i = 1; i < n; i++) for (int j = i; j > 0 && fds[j - 1] > fds[j]; j--) { int t = fds[j]; fds[j] = fds[j - 1]; fds[j - 1] = t; }
  out[0] = 0;
  for (int i = 0; i < n && o + 300 < cap; i++) {
    char p[64], t[256]; long m;
    snprintf(p, sizeof p, "/proc/self/fd/%d", fds[i]);
    m = RAW(SYS_readlinkat, AT_FDCWD, p, t, sizeof t - 1);
    t[m > 0 ? m : 0] = 0;
    o += snprintf(out + o, cap - o, "%d=%s ", fds[i], t);
  }
  quiet_depth--;
}

static char scratch[256];
static long run_index = -1;          /* batch: sequence number given by the parent, unique together with its pid */
static void scratch_name(char* out, size_t cap, long idx) {
  const char* base = getenv("C16_TMP");
  if (idx < 0) snprintf(out, cap, "%s/r%d", base ? base : "/var/tmp", (int) getpid());
  else snprintf(out, cap, "%s/b%d_%ld", base ? base : "/var/tmp", (int) getppid(), idx);
}
static void rm_rf(const char* path) {
  char cmd[600]; int r;
  quiet_depth++;
  snprintf(cmd, sizeof cmd, "rm -rf '%s'", path);
  r = system(cmd); (void) r;
  quiet_depth--;
}

static void prologue(void) {
  scratch_name(scratch, sizeof scratch, run_index);
  quiet_depth++; mkdir(scratch, 0700); quiet_depth--;
  fd_snapshot(fdsnap0, sizeof fdsnap0);
  atomic_store(&armed, 1);
  if (A("uv_loop_init", uv_loop_init(loop)) == 0) {
    loop_inited = 1;
    if (idle_metrics) A("uv_loop_configure", uv_loop_configure(loop, UV_METRICS_IDLE_TIME));
    { unsigned s, k; OUT("count-init alloc %u", atomic_load(&nalloc));
      for (s = 0; s < S_N; s++) for (k = 0; k < K_N; k++) if (atomic_load(&occ[s][k]))
        OUT("count-init sys %s@%c %u", sname[s], kinds[k], atomic_load(&occ[s][k])); }
    wd = NEW(uv_timer_t);
    uv_timer_init(loop, wd);
    uv_timer_start(wd, wd_cb, 1500, 0);
    uv_unref((uv_handle_t*) wd);
  }
}

static int spare_expected;      /* a listen succeeded: loop->emfile_fd is expected to be a live descriptor */
static void epilogue(void) {
  int r, i;
  if (loop_inited) {
    /* load-shedding invariant: the spare descriptor is back after an EMFILE episode (unless reopening it was
     * itself the injected failure) */
    if (loop->emfile_fd != -1 && RAW(SYS_fcntl, loop->emfile_fd, F_GETFD) < 0)
      VIOL("spare-fd-garbage", "loop->emfile_fd=%d is neither -1 nor an open descriptor", loop->emfile_fd);
    if (spare_expected && !atomic_load(&fired_open)) {
      int ok = loop->emfile_fd >= 0 && RAW(SYS_fcntl, loop->emfile_fd, F_GETFD) >= 0;
      OUT("final spare-fd %d", ok);
      if (!ok) VIOL("spare-fd-lost", "loop->emfile_fd=%d after the scenario", loop->emfile_fd);
    }
    uv_walk(loop, walk_close, loop);
    /* run to completion: poll without blocking (threadpool work may still be in flight) for at most ~3 s */
    for (i = 0; i < 3000; i++) {
      struct timespec ts = { 0, 1000000 };
      r = uv_run(loop, UV_RUN_NOWAIT);
      if (r == 0) break;
      RAW(SYS_nanosleep, &ts, 0);
    }
    if (r != 0) VIOL("loop-alive", "uv_run still reports work after everything was closed (active_handles=%u active_reqs=%u)", loop->active_handles, loop->active_reqs.count);
    if (loop->active_reqs.count != 0) VIOL("active-reqs", "loop->active_reqs.count=%u after the scenario", loop->active_reqs.count);
    if (uv_loop_alive(loop)) VIOL("loop-alive", "%s", "uv_loop_alive after the scenario");
    for (i = 0; i < Q_N; i++) if (owed[i] != got[i]) VIOL("callbacks-owed", "%s owed=%d delivered=%d", qname[i], owed[i], got[i]);
    r = uv_loop_close(loop);
    OUT("final loop_close %s", en(r));
    if (r != 0) { VIOL("loop-close", "uv_loop_close returned %s", en(r)); loop_inited = 2; }
  }
  uv_library_shutdown();
  atomic_store(&armed, 0);
  if (stalled && !(atomic_load(&fired_hard) || atomic_load(&fired_alloc)))
    VIOL("stall", "%s", "scenario did not complete although only transparent faults (or none) were injected");
  if (nlive != 0 && loop_inited != 2) {
    size_t tot = 0; unsigned h;
    for (h = 0; h < LIVECAP; h++) if (live[h] != NULL && live[h] != (void*) 1) tot += livesz[h];
    VIOL("alloc-leak", "%u blocks (%zu bytes) obtained through the libuv allocator are still live", nlive, tot);
  }
  quiet_depth++;
  if (__lsan_do_recoverable_leak_check != NULL && __lsan_do_recoverable_leak_check())
    VIOL("lsan-leak", "%s", "LeakSanitizer reports unreachable blocks after the scenario");
  quiet_depth--;
  fd_snapshot(fdsnap1, sizeof fdsnap1);
  if (strcmp(fdsnap0, fdsnap1) && loop_inited != 2) VIOL("fd-table", "before[%s] after[%s]", fdsnap0, fdsnap1);
  rm_rf(scratch);
  { unsigned s, k; int f;
    OUT("count alloc %u", atomic_load(&nalloc));
    for (s = 0; s < S_N; s++) for (k = 0; k < K_N; k++) if (atomic_load(&occ[s][k]))
      OUT("count sys %s@%c %u", sname[s], kinds[k], atomic_load(&occ[s][k]));
    for (f = 0; f < naflt; f++) OUT("fired alloc:%u-%u %u", aflt[f].lo, aflt[f].hi, atomic_load(&aflt[f].fired));
    for (f = 0; f < nflt; f++) {
      const char* e = "?"; for (int j = 0; errnos[j].n; j++) if (errnos[j].e == flt[f].err) e = errnos[j].n;
      OUT("fired sys:%s@%c:%u-%u:%s %u", sname[flt[f].sys], flt[f].kind < 0 ? '*' : kinds[flt[f].kind], flt[f].lo, flt[f].hi, e, atomic_load(&flt[f].fired));
    } }
  OUT("final stalled=%d bailed=%d hard=%u alloc=%u wouldblock=%u eintr=%u viol=%d", stalled, bailed, atomic_load(&fired_hard),
      atomic_load(&fired_alloc), atomic_load(&fired_wouldblock), atomic_load(&fired_eintr), nviol);
}

/* a callback status: monitored like a return code; returns nonzero on error after starting the bail-out */
static int CB(const char* name, int status) { if (A_(name, status, 0) < 0) { bail(); return 1; } return 0; }

static char slab[65536];
static void alloc_cb(uv_handle_t* h, size_t sug, uv_buf_t* b) { (void) h; (void) sug; *b = uv_buf_init(slab, sizeof slab); }
static unsigned csum(unsigned s, const char* p, size_t n) { while (n--) s = s * 31 + (unsigned char) *p++; return s; }

/* ================================================================== scenario: timers + loop watchers + async */
#define TM_FAR 60
#define LATE_SLACK_MS 250
static struct { uv_timer_t *t1, *t2, *t3; uint64_t t0; int n3; uv_idle_t* idle; uv_prepare_t* prep; uv_check_t* chk; uv_async_t* as; int n1, n2, ni, np, nc, na; } tm;
static void tm_async(uv_async_t* a) { (void) a; tm.na++; OUT("T timers t1=%d t2=%d t3=%d idle=%d async=%d prepare>0=%d check>0=%d", tm.n1, tm.n2, tm.n3, tm.ni, tm.na, tm.np > 0, tm.nc > 0); bail(); }
static void tm_t1(uv_timer_t* t) { (void) t; tm.n1++; }
/* the scenario ends when the repeating timer has fired 3 times (it stops itself from its own 3rd callback) AND the far
 * timer has fired, whichever happens last: the transcript counts callbacks, never what fits into a real-time window */
static void tm_t2(uv_timer_t* t) { if (++tm.n2 == 3) { A("uv_timer_stop", uv_timer_stop(t)); if (tm.n3) A("uv_async_send", uv_async_send(tm.as)); } }
static void tm_t3(uv_timer_t* t) {       /* the far timer: due TM_FAR ms after the start, whatever interrupts the poll */
  long ms = (long) ((uv_hrtime() - tm.t0) / 1000000); (void) t;
  tm.n3++;
  OUT("I far timer fired after %ld ms", ms);
  if (ms < TM_FAR - 1) VIOL("timer-early", "%d ms timer fired after %ld ms", TM_FAR, ms);
  if (ms > TM_FAR + LATE_SLACK_MS) VIOL("timer-late", "%d ms timer fired after %ld ms", TM_FAR, ms);
  if (tm.n2 >= 3) A("uv_async_send", uv_async_send(tm.as));
}
static void tm_idle(uv_idle_t* h) { if (++tm.ni == 2) uv_idle_stop(h); }
static void tm_prep(uv_prepare_t* h) { (void) h; tm.np++; }
static void tm_chk(uv_check_t* h) { (void) h; tm.nc++; }
static void sc_timers(void) {
  tm.as = NEW(uv_async_t);
  if (A("uv_async_init", uv_async_init(loop, tm.as, tm_async))) { free(tm.as); return; }
  tm.t1 = NEW(uv_timer_t); tm.t2 = NEW(uv_timer_t); tm.t3 = NEW(uv_timer_t); tm.idle = NEW(uv_idle_t); tm.prep = NEW(uv_prepare_t); tm.chk = NEW(uv_check_t);
  uv_timer_init(loop, tm.t1); uv_timer_init(loop, tm.t2); uv_timer_init(loop, tm.t3); uv_idle_init(loop, tm.idle); uv_prepare_init(loop, tm.prep); uv_check_init(loop, tm.chk);
  A("uv_timer_start", uv_timer_start(tm.t1, tm_t1, 1, 0));
  A("uv_timer_start", uv_timer_start(tm.t2, tm_t2, 1, 1));
  uv_update_time(loop); tm.t0 = uv_hrtime();
  A("uv_timer_start", uv_timer_start(tm.t3, tm_t3, TM_FAR, 0));
  A("uv_idle_start", uv_idle_start(tm.idle, tm_idle));
  A("uv_prepare_start", uv_prepare_start(tm.prep, tm_prep));
  A("uv_check_start", uv_check_start(tm.chk, tm_chk));
  uv_run(loop, UV_RUN_DEFAULT);
}

/* ================================================================== scenario: stream echo (tcp / unix pipe) */
typedef struct { uv_write_t req; char* data; } wreq_t;
static struct { int pipe; uv_stream_t *srv, *conn, *cli; size_t srv_n, cli_n; unsigned cli_sum; struct sockaddr_in addr; char path[300]; } ec;
static void ec_write_cb(uv_write_t* r, int status) { wreq_t* w = (wreq_t*) r; got[Q_write]++; free(w->data); free(w); CB("write_cb", status); }
static int ec_write(uv_stream_t* s, const char* const* parts, int n) {
  uv_buf_t bufs[8]; wreq_t* w = NEW(wreq_t); size_t tot = 0; int i, r;
  for (i = 0; i < n; i++) tot += strlen(parts[i]);
  w->data = xalloc(tot + 1);
  for (i = 0, tot = 0; i < n; i++) { size_t l = strlen(parts[i]); memcpy(w->data + tot, parts[i], l); bufs[i] = uv_buf_init(w->data + tot, l); tot += l; }
  r = A("uv_write", uv_write(&w->req, s, bufs, n, ec_write_cb));
  if (r) { free(w->data); free(w); } else owed[Q_write]++;
  return r;
}
static void ec_srv_shutdown_cb(uv_shutdown_t* r, int status) { got[Q_shutdown]++; free(r); CB("srv_shutdown_cb", status); hclose(ec.conn); hclose(ec.srv); }
static void ec_srv_read(uv_stream_t* s, ssize_t n, const uv_buf_t* b) {
  if (n == 0) return;
  if (n == UV_EOF) {
    uv_shutdown_t* r = NEW(uv_shutdown_t);
    OUT("T srv-eof got=%zu", ec.srv_n);
    if (A("uv_shutdown", uv_shutdown(r, s, ec_srv_shutdown_cb))) { free(r); bail(); } else owed[Q_shutdown]++;
    return;
  }
  if (n < 0) { CB("srv_read_cb", (int) n); return; }
  ec.srv_n += n;
  { char* tmp = xalloc(n + 1); const char* parts[1]; memcpy(tmp, b->base, n); parts[0] = tmp; if (ec_write(s, parts, 1)) bail(); free(tmp); }
}
static void ec_conn_cb(uv_stream_t* srv, int status) {
  if (CB("connection_cb", status)) return;
  if (ec.pipe) { ec.conn = (uv_stream_t*) NEW(uv_pipe_t); uv_pipe_init(loop, (uv_pipe_t*) ec.conn, 0); }
  else { ec.conn = (uv_stream_t*) NEW(uv_tcp_t); if (A("uv_tcp_init", uv_tcp_init(loop, (uv_tcp_t*) ec.conn))) { free(ec.conn); ec.conn = NULL; bail(); return; } }
  if (A("uv_accept", uv_accept(srv, ec.conn))) { bail(); return; }
  OUT("T accepted");
  if (A("uv_read_start", uv_read_start(ec.conn, alloc_cb, ec_srv_read))) bail();
}
static void ec_cli_read(uv_stream_t* s, ssize_t n, const uv_buf_t* b) {
  (void) s;
  if (n == 0) return;
  if (n == UV_EOF) { OUT("T cli-eof got=%zu sum=%u", ec.cli_n, ec.cli_sum); hclose(ec.cli); return; }
  if (n < 0) { CB("cli_read_cb", (int) n); return; }
  ec.cli_n += n; ec.cli_sum = csum(ec.cli_sum, b->base, n);
}
static void ec_cli_shutdown_cb(uv_shutdown_t* r, int status) { got[Q_shutdown]++; free(r); CB("cli_shutdown_cb", status); }
static void ec_connect_cb(uv_connect_t* c, int status) {
  static const char* const two[] = { "hello ", "world " };
  static const char* const six[] = { "a1", "b22", "c333", "d4444", "e55555", "f666666" };
  uv_buf_t tb = uv_buf_init("try", 3); int r; uv_shutdown_t* sr;
  got[Q_connect]++; free(c);
  if (CB("connect_cb", status)) return;
  OUT("T connected");
  if (A("uv_read_start", uv_read_start(ec.cli, alloc_cb, ec_cli_read))) { bail(); return; }
  r = ATRY("uv_try_write", uv_try_write(ec.cli, &tb, 1));
  if (r == UV_EAGAIN) { static const char* const t[] = { "try" }; if (ec_write(ec.cli, t, 1)) { bail(); return; } }
  else if (r < 0) { bail(); return; }
  else if (r != 3) VIOL("short-try-write", "uv_try_write accepted %d of 3 bytes on an idle connection", r);
  if (ec_write(ec.cli, two, 2) || ec_write(ec.cli, six, 6)) { bail(); return; }
  sr = NEW(uv_shutdown_t);
  if (A("uv_shutdown", uv_shutdown(sr, ec.cli, ec_cli_shutdown_cb))) { free(sr); bail(); } else owed[Q_shutdown]++;
}
static void sc_echo(int is_pipe) {
  uv_connect_t* cr; int len = sizeof ec.addr;
  ec.pipe = is_pipe;
  if (is_pipe) {
    snprintf(ec.path, sizeof ec.path, "%s/sock", scratch);
    ec.srv = (uv_stream_t*) NEW(uv_pipe_t); uv_pipe_init(loop, (uv_pipe_t*) ec.srv, 0);
    if (A("uv_pipe_bind", uv_pipe_bind((uv_pipe_t*) ec.srv, ec.path))) goto out;
  } else {
    ec.srv = (uv_stream_t*) NEW(uv_tcp_t);
    if (A("uv_tcp_init", uv_tcp_init(loop, (uv_tcp_t*) ec.srv))) { free(ec.srv); return; }
    uv_ip4_addr("127.0.0.1", 0, &ec.addr);
    if (A("uv_tcp_bind", uv_tcp_bind((uv_tcp_t*) ec.srv, (struct sockaddr*) &ec.addr, 0))) goto out;
  }
  if (A("uv_listen", uv_listen(ec.srv, 8, ec_conn_cb))) goto out;
  spare_expected = 1;
  if (is_pipe) {
    ec.cli = (uv_stream_t*) NEW(uv_pipe_t); uv_pipe_init(loop, (uv_pipe_t*) ec.cli, 0);
    cr = NEW(uv_connect_t);
    if (A("uv_pipe_connect2", uv_pipe_connect2(cr, (uv_pipe_t*) ec.cli, ec.path, strlen(ec.path), 0, ec_connect_cb))) { free(cr); goto out; }
    owed[Q_connect]++;
  } else {
    if (A("uv_tcp_getsockname", uv_tcp_getsockname((uv_tcp_t*) ec.srv, (struct sockaddr*) &ec.addr, &len))) goto out;
    ec.cli = (uv_stream_t*) NEW(uv_tcp_t);
    if (A("uv_tcp_init", uv_tcp_init(loop, (uv_tcp_t*) ec.cli))) { free(ec.cli); ec.cli = NULL; goto out; }
    A("uv_tcp_nodelay", uv_tcp_nodelay((uv_tcp_t*) ec.cli, 1));
    cr = NEW(uv_connect_t);
    if (A("uv_tcp_connect", uv_tcp_connect(cr, (uv_tcp_t*) ec.cli, (struct sockaddr*) &ec.addr, ec_connect_cb))) { free(cr); goto out; }
    owed[Q_connect]++;
  }
  uv_run(loop, UV_RUN_DEFAULT);
  return;
out:
  bail();
}
static void sc_tcp(void) { sc_echo(0); }
static void sc_pipe(void) { sc_echo(1); }

/* ================================================================== scenario: IPC handle passing */
#define IPC_N 19     /* descriptors sent before the receiver accepts any: 1 in accepted_fd, 8 fill the first queue block
                        (uv__malloc), #10 and #18 grow it (uv__realloc in uv__stream_queue_fd) */
static struct { uv_pipe_t *a, *b; uv_tcp_t* lst; int port; int nwritten; size_t nbytes; int naccepted, sameport; } ip;
static void ip_write_cb(uv_write_t* r, int status) { got[Q_write]++; free(r); if (CB("write2_cb", status)) return; if (++ip.nwritten == IPC_N) { hclose(ip.a); hclose(ip.lst); } }
static void ip_read(uv_stream_t* s, ssize_t n, const uv_buf_t* b) {
  (void) b;
  if (n == 0) return;
  if (n < 0) { if (n == UV_EOF) { OUT("T ipc-eof"); hclose(s); return; } CB("ipc_read_cb", (int) n); return; }
  ip.nbytes += (size_t) n;
  if (ip.nbytes < IPC_N) return;                 /* keep everything queued inside libuv until all have arrived */
  OUT("T ipc-data total=%zu pending=%d", ip.nbytes, uv_pipe_pending_count((uv_pipe_t*) s));
  while (uv_pipe_pending_count((uv_pipe_t*) s) > 0) {
    uv_handle_type t = uv_pipe_pending_type((uv_pipe_t*) s);
    uv_tcp_t* got_h = NEW(uv_tcp_t); struct sockaddr_in sa; int len = sizeof sa;
    if (t != UV_TCP) VIOL("ipc-pending-type", "pending type %s", uv_handle_type_name(t));
    if (A("uv_tcp_init", uv_tcp_init(loop, got_h))) { free(got_h); bail(); return; }
    if (A("uv_accept(ipc)", uv_accept(s, (uv_stream_t*) got_h))) { hclose(got_h); bail(); return; }
    if (A("uv_tcp_getsockname", uv_tcp_getsockname(got_h, (struct sockaddr*) &sa, &len)) == 0)
      ip.sameport += ntohs(sa.sin_port) == ip.port;
    ip.naccepted++;
    hclose(got_h);
  }
  OUT("T ipc-recv accepted=%d same-port=%d", ip.naccepted, ip.sameport);
}
static void sc_ipc(void) {
  uv_os_sock_t fds[2]; struct sockaddr_in sa; int len = sizeof sa, i; uv_write_t* wr; uv_buf_t b = uv_buf_init("H", 1);
  if (A("uv_socketpair", uv_socketpair(SOCK_STREAM, 0, fds, UV_NONBLOCK_PIPE, UV_NONBLOCK_PIPE))) return;
  ip.a = NEW(uv_pipe_t); ip.b = NEW(uv_pipe_t);
  uv_pipe_init(loop, ip.a, 1); uv_pipe_init(loop, ip.b, 1);
  if (A("uv_pipe_open", uv_pipe_open(ip.a, fds[0]))) { RAW(SYS_close, fds[0]); RAW(SYS_close, fds[1]); goto out; }
  if (A("uv_pipe_open", uv_pipe_open(ip.b, fds[1]))) { RAW(SYS_close, fds[1]); goto out; }
  ip.lst = NEW(uv_tcp_t);
  if (A("uv_tcp_init", uv_tcp_init(loop, ip.lst))) { free(ip.lst); ip.lst = NULL; goto out; }
  uv_ip4_addr("127.0.0.1", 0, &sa);
  if (A("uv_tcp_bind", uv_tcp_bind(ip.lst, (struct sockaddr*) &sa, 0))) goto out;
  if (A("uv_tcp_getsockname", uv_tcp_getsockname(ip.lst, (struct sockaddr*) &sa, &len))) goto out;
  ip.port = ntohs(sa.sin_port);
  if (A("uv_read_start", uv_read_start((uv_stream_t*) ip.b, alloc_cb, ip_read))) goto out;
  for (i = 0; i < IPC_N; i++) {
    wr = NEW(uv_write_t);
    if (A("uv_write2", uv_write2(wr, (uv_stream_t*) ip.a, &b, 1, (uv_stream_t*) ip.lst, ip_write_cb))) { free(wr); goto out; }
    owed[Q_write]++;
  }
  uv_run(loop, UV_RUN_DEFAULT);
  return;
out:
  bail();
  uv_run(loop, UV_RUN_DEFAULT);
}

/* ================================================================== scenario: udp */
#define UDP_N 46    /* 1 try_send + 45 queued: three sendmmsg batches of at most 20 (UV__MMSG_MAXWIDTH) */
static struct { uv_udp_t *rx, *tx; struct sockaddr_in addr; int nrecv; unsigned sum; char seq[UDP_N + 4]; } ud;
static void ud_send_cb(uv_udp_send_t* r, int status) { got[Q_udp_send]++; free(r); CB("udp_send_cb", status); }
static int ud_send(const char* a, const char* b2) {
  uv_udp_send_t* r = NEW(uv_udp_send_t); uv_buf_t bufs[6]; int rc, n = 2;
  bufs[0] = uv_buf_init((char*) a, strlen(a)); bufs[1] = uv_buf_init((char*) b2, strlen(b2));
  if (a[1] == 'E' || a[1] == 'Z') for (; n < 6; n++) bufs[n] = uv_buf_init("+", 1);      /* more than 4 buffers: heap-allocated copy */
  rc = A("uv_udp_send", uv_udp_send(r, ud.tx, bufs, n, (struct sockaddr*) &ud.addr, ud_send_cb));
  if (rc) free(r); else owed[Q_udp_send]++;
  return rc;
}
static void ud_recv(uv_udp_t* h, ssize_t n, const uv_buf_t* b, const struct sockaddr* sa, unsigned flags) {
  (void) h;
  if (n < 0) { CB("udp_recv_cb", (int) n); return; }
  if (sa == NULL) return;                        /* nothing to read / recvmmsg buffer release */
  if (flags & UV_UDP_PARTIAL) VIOL("udp-partial", "%s", "datagram truncated");
  if (n >= 2 && ud.nrecv < UDP_N) ud.seq[ud.nrecv] = b->base[1];
  ud.sum = csum(ud.sum, b->base, n);
  if (++ud.nrecv == UDP_N) { OUT("T udp-recv n=%d order=%s sum=%u", ud.nrecv, ud.seq, ud.sum); hclose(ud.rx); hclose(ud.tx); }
}
static char udslab[65536 * 4];
static void ud_alloc(uv_handle_t* h, size_t sug, uv_buf_t* b) { (void) h; (void) sug; *b = uv_buf_init(udslab, sizeof udslab); }
static void sc_udp(void) {
  static char msg[UDP_N][3];
  int len = sizeof ud.addr, i, r; uv_buf_t tb[2];
  for (i = 0; i < UDP_N; i++) { msg[i][0] = 'd'; msg[i][1] = (char) ('A' + i); msg[i][2] = 0; }
  ud.rx = NEW(uv_udp_t);
  if (A("uv_udp_init_ex", uv_udp_init_ex(loop, ud.rx, AF_INET | UV_UDP_RECVMMSG))) { free(ud.rx); return; }
  uv_ip4_addr("127.0.0.1", 0, &ud.addr);
  if (A("uv_udp_bind", uv_udp_bind(ud.rx, (struct sockaddr*) &ud.addr, 0))) goto out;
  if (A("uv_udp_getsockname", uv_udp_getsockname(ud.rx, (struct sockaddr*) &ud.addr, &len))) goto out;
  if (A("uv_udp_recv_start", uv_udp_recv_start(ud.rx, ud_alloc, ud_recv))) goto out;
  ud.tx = NEW(uv_udp_t);
  if (A("uv_udp_init", uv_udp_init(loop, ud.tx))) { free(ud.tx); ud.tx = NULL; goto out; }
  tb[0] = uv_buf_init(msg[0], 2); tb[1] = uv_buf_init("-try", 4);
  r = ATRY("uv_udp_try_send", uv_udp_try_send(ud.tx, tb, 2, (struct sockaddr*) &ud.addr));
  if (r == UV_EAGAIN) { if (ud_send(msg[0], "-try")) goto out; }
  else if (r < 0) goto out;
  else if (r != 6) VIOL("udp-try-short", "uv_udp_try_send returned %d for a 6 byte datagram", r);
  for (i = 1; i < UDP_N; i++) if (ud_send(msg[i], "-queued")) goto out;
  OUT("I udp-queue size=%zu count=%zu", uv_udp_get_send_queue_size(ud.tx), uv_udp_get_send_queue_count(ud.tx));
  uv_run(loop, UV_RUN_DEFAULT);
  return;
out:
  bail();
}

/* ================================================================== scenario: fs (sync and async) */
static struct { int async, step, fd; char dir[300], f1[320], f2[320], lnk[320], tmpf[340], rbuf[64]; uv_fs_t* req; uv_dir_t* dirp; uv_dirent_t dents[4]; } fsx;
static void fs_next(uv_fs_t* req);
static const int fs_prog[] = { 0, 1, 2, 3, 4, 5, 6, 18, 19, 7, 8, 9, 10, 11, 20, 21, 28, 22, 23, 24, 25, 26, 27, 12, 13, 14, 15, 16, 17, -1 };
#define FS_OP (fs_prog[fsx.step])
static void fs_cb(uv_fs_t* req) { got[Q_fs]++; fs_next(req); }
/* issue step fsx.step; returns <0 when the submission itself failed */
static int fs_issue(uv_fs_t* rq) {
  uv_fs_cb cb = fsx.async ? fs_cb : NULL; uv_buf_t b[3]; int r = 0;
  if (FS_OP >= 1 && (strncmp(fsx.dir, scratch, strlen(scratch)) || strlen(fsx.dir) <= strlen(scratch) + 1)) return 1;   /* never leave the scratch dir */
  if ((FS_OP == 2 || FS_OP == 3 || FS_OP == 4 || FS_OP == 5 || FS_OP == 6 || FS_OP == 7 || FS_OP == 8 || FS_OP == 18 || FS_OP == 19) && fsx.fd < 3) return 1;
  switch (FS_OP) {
    case 0: { char tpl[300]; snprintf(tpl, sizeof tpl, "%s/dXXXXXX", scratch); r = uv_fs_mkdtemp(loop, rq, tpl, cb); break; }
    case 1: r = uv_fs_open(loop, rq, fsx.f1, O_CREAT | O_RDWR | O_TRUNC, 0600, cb); break;
    case 2: b[0] = uv_buf_init("alpha", 5); b[1] = uv_buf_init("", 0); b[2] = uv_buf_init("-beta", 5); r = uv_fs_write(loop, rq, fsx.fd, b, 3, -1, cb); break;
    case 3: b[0] = uv_buf_init("ALPHA", 5); r = uv_fs_write(loop, rq, fsx.fd, b, 1, 0, cb); break;
    case 4: r = uv_fs_fsync(loop, rq, fsx.fd, cb); break;
    case 5: r = uv_fs_fstat(loop, rq, fsx.fd, cb); break;
    case 6: memset(fsx.rbuf, 0, sizeof fsx.rbuf); b[0] = uv_buf_init(fsx.rbuf, 4); b[1] = uv_buf_init(fsx.rbuf + 4, 20); r = uv_fs_read(loop, rq, fsx.fd, b, 2, 0, cb); break;
    case 7: r = uv_fs_ftruncate(loop, rq, fsx.fd, 3, cb); break;
    case 18: memset(fsx.rbuf, 0, sizeof fsx.rbuf); b[0] = uv_buf_init(fsx.rbuf, 20); r = uv_fs_read(loop, rq, fsx.fd, b, 1, 2, cb); break;
    case 19: b[0] = uv_buf_init("Z", 1); b[1] = uv_buf_init("Y", 1); r = uv_fs_write(loop, rq, fsx.fd, b, 2, 8, cb); break;
    case 8: r = uv_fs_close(loop, rq, fsx.fd, cb); break;
    case 9: r = uv_fs_stat(loop, rq, fsx.f1, cb); break;
    case 10: r = uv_fs_rename(loop, rq, fsx.f1, fsx.f2, cb); break;
    case 11: r = uv_fs_copyfile(loop, rq, fsx.f2, fsx.f1, 0, cb); break;
    case 12: r = uv_fs_scandir(loop, rq, fsx.dir, 0, cb); break;
    case 13: r = uv_fs_realpath(loop, rq, fsx.f1, cb); break;
    case 14: r = uv_fs_access(loop, rq, fsx.f1, R_OK, cb); break;
    case 15: r = uv_fs_unlink(loop, rq, fsx.f1, cb); break;
    case 16: r = uv_fs_unlink(loop, rq, fsx.f2, cb); break;
    case 17: r = uv_fs_rmdir(loop, rq, fsx.dir, cb); break;
    case 20: r = uv_fs_symlink(loop, rq, fsx.f1, fsx.lnk, 0, cb); break;
    case 21: r = uv_fs_readlink(loop, rq, fsx.lnk, cb); break;
    case 28: r = uv_fs_lstat(loop, rq, fsx.lnk, cb); break;
    case 22: r = uv_fs_opendir(loop, rq, fsx.dir, cb); break;
    case 23: if (fsx.dirp == NULL) return 1; fsx.dirp->dirents = fsx.dents; fsx.dirp->nentries = 4; r = uv_fs_readdir(loop, rq, fsx.dirp, cb); break;
    case 24: if (fsx.dirp == NULL) return 1; r = uv_fs_closedir(loop, rq, fsx.dirp, cb); break;
    case 25: { char tpl[340]; snprintf(tpl, sizeof tpl, "%s/tXXXXXX", fsx.dir); r = uv_fs_mkstemp(loop, rq, tpl, cb); break; }
    case 26: if (strncmp(fsx.tmpf, fsx.dir, strlen(fsx.dir))) return 1; r = uv_fs_unlink(loop, rq, fsx.tmpf, cb); break;
    case 27: r = uv_fs_unlink(loop, rq, fsx.lnk, cb); break;
    default: return 1;
  }
  return r > 0 ? 0 : r;
}
static const char* const fs_names[] = { "mkdtemp", "open", "write", "pwrite", "fsync", "fstat", "read", "ftruncate", "close", "stat",
  "rename", "copyfile", "scandir", "realpath", "access", "unlink", "unlink2", "rmdir", "pread", "pwritev",
  "symlink", "readlink", "opendir", "readdir", "closedir", "mkstemp", "unlink3", "unlink4", "lstat" };
/* consume the result of step fsx.step; returns nonzero to stop */
static int fs_result(uv_fs_t* rq) {
  char nm[48]; long res = (long) rq->result;
  snprintf(nm, sizeof nm, "fs_%s%s", fs_names[FS_OP], fsx.async ? "_cb" : "");
  if (A_(nm, (int) res, 0) < 0) return 1;
  switch (FS_OP) {
    case 0: snprintf(fsx.dir, sizeof fsx.dir, "%s", rq->path); snprintf(fsx.f1, sizeof fsx.f1, "%s/one", fsx.dir); snprintf(fsx.f2, sizeof fsx.f2, "%s/two", fsx.dir); snprintf(fsx.lnk, sizeof fsx.lnk, "%s/lnk", fsx.dir); OUT("T fs mkdtemp ok"); break;
    case 1: fsx.fd = (int) res; OUT("T fs open ok"); break;
    case 5: case 9: OUT("T fs %s size=%lu", fs_names[FS_OP], (unsigned long) rq->statbuf.st_size); break;
    case 6: case 18: OUT("T fs %s %ld [%s]", fs_names[FS_OP], res, fsx.rbuf); break;
    case 12: { uv_dirent_t e; while (uv_fs_scandir_next(rq, &e) == 0) OUT("T fs scandir %s %d", e.name, (int) e.type); break; }
    case 13: OUT("T fs realpath ok=%d", rq->ptr != NULL && strstr((char*) rq->ptr, "/one") != NULL); break;
    case 21: OUT("T fs readlink ok=%d", rq->ptr != NULL && !strcmp((char*) rq->ptr, fsx.f1)); break;
    case 28: OUT("T fs lstat link=%d", (int) ((rq->statbuf.st_mode & S_IFMT) == S_IFLNK)); break;
    case 22: fsx.dirp = (uv_dir_t*) rq->ptr; OUT("T fs opendir ok=%d", fsx.dirp != NULL); break;
    case 23: { int i; OUT("T fs readdir n=%ld", res); for (i = 0; i < (int) res && i < 4; i++) OUT("T fs dirent %s", fsx.dents[i].name); break; }
    case 24: fsx.dirp = NULL; OUT("T fs closedir %ld", res); break;
    case 25: snprintf(fsx.tmpf, sizeof fsx.tmpf, "%s", rq->path); RAW(SYS_close, (int) res); OUT("T fs mkstemp ok=%d", !strncmp(fsx.tmpf, fsx.dir, strlen(fsx.dir))); break;
    default: OUT("T fs %s %ld", fs_names[FS_OP], res);
  }
  return 0;
}
static void fs_drop_dir(void);
static void fs_next(uv_fs_t* done) {
  for (;;) {
    uv_fs_t* rq; int r;
    if (done != NULL) {
      int stop = fs_result(done); uv_fs_req_cleanup(done); free(done); done = NULL;
      if (!stop && FS_OP == 8) fsx.fd = -1;
      if (stop || bailed) { if (fsx.fd > 0) { RAW(SYS_close, fsx.fd); fsx.fd = -1; } fs_drop_dir(); if (!bailed) bail(); return; }
      fsx.step++;
    }
    rq = NEW(uv_fs_t);
    r = fs_issue(rq);
    if (r == 1) { free(rq); OUT("T fs done"); return; }
    if (fsx.async) {
      char nm[48]; snprintf(nm, sizeof nm, "uv_fs_%s", fs_names[FS_OP]);
      if (A_(nm, r, 0) < 0) { uv_fs_req_cleanup(rq); free(rq); if (fsx.fd > 0) { RAW(SYS_close, fsx.fd); fsx.fd = -1; } bail(); return; }
      owed[Q_fs]++;
      return;
    }
    if (r < 0) rq->result = r;
    done = rq;
  }
}
static void fs_drop_dir(void) {      /* a directory stream still open after a bail-out: release it without faults */
  uv_fs_t rq;
  if (fsx.dirp == NULL) return;
  quiet_depth++; uv_fs_closedir(NULL, &rq, fsx.dirp, NULL); uv_fs_req_cleanup(&rq); quiet_depth--;
  fsx.dirp = NULL;
}
static void sc_fs_sync(void) { fsx.async = 0; fsx.fd = -1; fs_next(NULL); fs_drop_dir(); }
static void sc_fs_async(void) { fsx.async = 1; fsx.fd = -1; fs_next(NULL); uv_run(loop, UV_RUN_DEFAULT); fs_drop_dir(); }

/* ================================================================== scenario: getaddrinfo / getnameinfo */
static void gni_cb(uv_getnameinfo_t* r, int status, const char* host, const char* svc) {
  got[Q_gni]++;
  if (!CB("getnameinfo_cb", status)) OUT("T gni %s %s", host, svc);
  free(r);
}
static void gai_cb(uv_getaddrinfo_t* r, int status, struct addrinfo* res) {
  got[Q_gai]++; free(r);
  if (CB("getaddrinfo_cb", status)) return;
  { char ip4[64] = ""; uv_getnameinfo_t* g = NEW(uv_getnameinfo_t);
    uv_ip4_name((struct sockaddr_in*) res->ai_addr, ip4, sizeof ip4);
    OUT("T gai %s port=%d", ip4, ntohs(((struct sockaddr_in*) res->ai_addr)->sin_port));
    if (A("uv_getnameinfo", uv_getnameinfo(loop, g, gni_cb, res->ai_addr, NI_NUMERICHOST | NI_NUMERICSERV))) free(g); else owed[Q_gni]++;
    uv_freeaddrinfo(res); }
}
static void sc_gai(void) {
  struct addrinfo hints; uv_getaddrinfo_t* r = NEW(uv_getaddrinfo_t); uv_getaddrinfo_t sr;
  memset(&hints, 0, sizeof hints); hints.ai_family = AF_INET; hints.ai_socktype = SOCK_STREAM; hints.ai_flags = AI_NUMERICHOST | AI_NUMERICSERV;
  if (A("uv_getaddrinfo(sync)", uv_getaddrinfo(loop, &sr, NULL, "127.0.0.1", "8080", &hints)) == 0) {
    OUT("T gai-sync port=%d", ntohs(((struct sockaddr_in*) sr.addrinfo->ai_addr)->sin_port)); uv_freeaddrinfo(sr.addrinfo); }
  if (A("uv_getaddrinfo", uv_getaddrinfo(loop, r, gai_cb, "127.0.0.1", "80", &hints))) { free(r); bail(); return; }
  owed[Q_gai]++;
  uv_run(loop, UV_RUN_DEFAULT);
}

/* ================================================================== scenario: queue_work + cancel + random */
static struct { uv_sem_t gate; int ran[3], cancelled; } wk;
static void wk_work(uv_work_t* w) { int i = (int) (intptr_t) w->data; if (i == 0) uv_sem_wait(&wk.gate); wk.ran[i] = 1; }
static void wk_after(uv_work_t* w, int status) {
  int i = (int) (intptr_t) w->data; got[Q_work]++; free(w);
  if (i == 2 && wk.cancelled) { if (status != UV_ECANCELED) VIOL("cancel-status", "cancelled work item completed with %s", en(status)); OUT("T work 2 cancelled ran=%d", wk.ran[2]); return; }
  if (!CB("after_work_cb", status)) OUT("T work %d done ran=%d", i, wk.ran[i]);
}
static void wk_random(uv_random_t* r, int status, void* buf, size_t n) { (void) buf; got[Q_random]++; free(r); if (!CB("random_cb", status)) OUT("T random n=%zu", n); }
static char wk_rbuf[16];
static void sc_work(void) {
  int i, nsub = 0; uv_work_t* w[3] = { 0, 0, 0 }; uv_random_t* rr;
  if (uv_sem_init(&wk.gate, 0)) return;
  for (i = 0; i < 3; i++) {
    w[i] = NEW(uv_work_t); w[i]->data = (void*) (intptr_t) i;
    if (A("uv_queue_work", uv_queue_work(loop, w[i], wk_work, wk_after))) { free(w[i]); w[i] = NULL; break; }
    owed[Q_work]++; nsub++;
  }
  if (nsub == 3) { int r = A("uv_cancel", uv_cancel((uv_req_t*) w[2])); wk.cancelled = r == 0; }
  uv_sem_post(&wk.gate);
  rr = NEW(uv_random_t);
  if (A("uv_random", uv_random(loop, rr, wk_rbuf, sizeof wk_rbuf, 0, wk_random))) free(rr); else owed[Q_random]++;
  uv_run(loop, UV_RUN_DEFAULT);
  uv_sem_destroy(&wk.gate);
}

/* ================================================================== scenario: spawn with stdio pipes */
static struct { uv_process_t* p; uv_pipe_t *in, *out; size_t n; unsigned sum; } sp;
static void sp_exit(uv_process_t* p, int64_t status, int sig) { OUT("T exit status=%d signal=%d", (int) status, sig); hclose(p); }
static void sp_read(uv_stream_t* s, ssize_t n, const uv_buf_t* b) {
  if (n == 0) return;
  if (n == UV_EOF) { OUT("T child-out n=%zu sum=%u", sp.n, sp.sum); hclose(s); return; }
  if (n < 0) { CB("child_read_cb", (int) n); return; }
  sp.n += n; sp.sum = csum(sp.sum, b->base, n);
}
static void sp_write_cb(uv_write_t* r, int status) { got[Q_write]++; free(r); CB("child_write_cb", status); hclose(sp.in); }
static void sc_spawn(void) {
  uv_process_options_t o; uv_stdio_container_t io[3]; char* args[] = { "/bin/cat", NULL }; uv_write_t* wr; uv_buf_t b = uv_buf_init("ping\n", 5);
  sp.in = NEW(uv_pipe_t); sp.out = NEW(uv_pipe_t); sp.p = NEW(uv_process_t);
  uv_pipe_init(loop, sp.in, 0); uv_pipe_init(loop, sp.out, 0);
  memset(&o, 0, sizeof o); o.file = args[0]; o.args = args; o.exit_cb = sp_exit; o.stdio_count = 3; o.stdio = io;
  io[0].flags = UV_CREATE_PIPE | UV_READABLE_PIPE; io[0].data.stream = (uv_stream_t*) sp.in;
  io[1].flags = UV_CREATE_PIPE | UV_WRITABLE_PIPE; io[1].data.stream = (uv_stream_t*) sp.out;
  io[2].flags = UV_IGNORE;
  if (A("uv_spawn", uv_spawn(loop, sp.p, &o))) {
    if (uv_is_active((uv_handle_t*) sp.p)) VIOL("spawn-failed-active", "%s", "process handle active after uv_spawn failed");
    goto out;
  }
  if (A("uv_read_start", uv_read_start((uv_stream_t*) sp.out, alloc_cb, sp_read))) goto out;
  wr = NEW(uv_write_t);
  if (A("uv_write", uv_write(wr, (uv_stream_t*) sp.in, &b, 1, sp_write_cb))) { free(wr); goto out; }
  owed[Q_write]++;
  uv_run(loop, UV_RUN_DEFAULT);
  return;
out:
  if (sp.p->pid > 0) { quiet_depth++; kill(sp.p->pid, SIGKILL); quiet_depth--; }
  bail();
  uv_run(loop, UV_RUN_DEFAULT);
}

/* ================================================================== scenario: signal handles */
static struct { uv_signal_t *s1, *s2; } sg;
static void sg_cb2(uv_signal_t* h, int signum) { OUT("T signal2 %d active=%d", signum, uv_is_active((uv_handle_t*) h)); hclose(sg.s1); hclose(sg.s2); }
static void sg_cb1(uv_signal_t* h, int signum) { (void) h; OUT("T signal1 %d", signum); if (A("uv_kill", uv_kill(getpid(), SIGUSR2))) bail(); }
static void sc_signal(void) {
  sg.s1 = NEW(uv_signal_t); sg.s2 = NEW(uv_signal_t);
  if (A("uv_signal_init", uv_signal_init(loop, sg.s1))) { free(sg.s1); free(sg.s2); return; }
  if (A("uv_signal_init", uv_signal_init(loop, sg.s2))) { free(sg.s2); goto out; }
  if (A("uv_signal_start", uv_signal_start(sg.s1, sg_cb1, SIGUSR1))) goto out;
  if (A("uv_signal_start_oneshot", uv_signal_start_oneshot(sg.s2, sg_cb2, SIGUSR2))) goto out;
  if (A("uv_kill", uv_kill(getpid(), SIGUSR1))) goto out;
  uv_run(loop, UV_RUN_DEFAULT);
  return;
out:
  bail();
}

/* ================================================================== scenario: fs_event */
static struct { uv_fs_event_t* h; int seen; } fe;
static void fe_cb(uv_fs_event_t* h, const char* name, int events, int status) {
  if (CB("fs_event_cb", status)) return;
  if (fe.seen++) return;
  OUT("T fs_event %s rename=%d", name ? name : "(null)", !!(events & UV_RENAME));
  A("uv_fs_event_stop", uv_fs_event_stop(h)); hclose(h);
}
static void sc_fs_event(void) {
  char path[300], buf[300]; size_t len = sizeof buf; uv_fs_t rq; int r;
  fe.h = NEW(uv_fs_event_t);
  if (A("uv_fs_event_init", uv_fs_event_init(loop, fe.h))) { free(fe.h); return; }
  if (A("uv_fs_event_start", uv_fs_event_start(fe.h, fe_cb, scratch, 0))) {
    if (uv_is_active((uv_handle_t*) fe.h)) VIOL("fs-event-failed-active", "%s", "handle active after uv_fs_event_start failed");
    goto out;
  }
  if (A("uv_fs_event_getpath", uv_fs_event_getpath(fe.h, buf, &len)) == 0) OUT("T fs_event path-ok=%d", !strcmp(buf, scratch));
  snprintf(path, sizeof path, "%s/created", scratch);
  r = A("uv_fs_open(sync)", uv_fs_open(NULL, &rq, path, O_CREAT | O_WRONLY, 0600, NULL)); uv_fs_req_cleanup(&rq);
  if (r < 0) goto out;
  A("uv_fs_close(sync)", uv_fs_close(NULL, &rq, r, NULL)); uv_fs_req_cleanup(&rq);
  uv_run(loop, UV_RUN_DEFAULT);
  return;
out:
  bail();
}

/* ================================================================== scenario: fs_poll */
static struct { uv_fs_poll_t* h; uv_timer_t* t; char path[300]; int n; } fp;
static void fp_cb(uv_fs_poll_t* h, int status, const uv_stat_t* prev, const uv_stat_t* cur) {
  if (CB("fs_poll_cb", status)) return;
  OUT("T fs_poll changed"); (void) prev; (void) cur;
  A("uv_fs_poll_stop", uv_fs_poll_stop(h)); hclose(h); hclose(fp.t);
}
static void fp_touch(uv_timer_t* t) {
  int fd; (void) t;
  quiet_depth++;
  fd = (int) RAW(SYS_openat, AT_FDCWD, fp.path, O_WRONLY | O_APPEND | O_CLOEXEC, 0);
  if (fd >= 0) { RAW(SYS_write, fd, "xxxxxxxx", 8); RAW(SYS_close, fd); }
  quiet_depth--;
  if (++fp.n > 60) { OUT("stall"); stalled = 1; bail(); uv_stop(loop); }
}
static void sc_fs_poll(void) {
  int fd; char buf[300]; size_t len = sizeof buf;
  snprintf(fp.path, sizeof fp.path, "%s/polled", scratch);
  quiet_depth++; fd = (int) RAW(SYS_openat, AT_FDCWD, fp.path, O_CREAT | O_WRONLY | O_CLOEXEC, 0600); RAW(SYS_close, fd); quiet_depth--;
  fp.h = NEW(uv_fs_poll_t); fp.t = NEW(uv_timer_t);
  uv_fs_poll_init(loop, fp.h); uv_timer_init(loop, fp.t);
  if (A("uv_fs_poll_start", uv_fs_poll_start(fp.h, fp_cb, fp.path, 5))) {
    if (uv_is_active((uv_handle_t*) fp.h)) VIOL("fs-poll-failed-active", "%s", "handle active after uv_fs_poll_start failed");
    goto out;
  }
  if (A("uv_fs_poll_getpath", uv_fs_poll_getpath(fp.h, buf, &len)) == 0) OUT("T fs_poll path-ok=%d", !strncmp(buf, fp.path, len));
  A("uv_timer_start", uv_timer_start(fp.t, fp_touch, 8, 8));
  uv_run(loop, UV_RUN_DEFAULT);
  return;
out:
  bail();
}

/* ================================================================== scenario: uv_poll on a socketpair */
#define PO_EXTRA 24
static struct { uv_poll_t* h; int fds[2]; int phase; int extra[PO_EXTRA][2]; } po;
static void po_cb(uv_poll_t* h, int status, int events) {
  if (CB("poll_cb", status)) return;
  if (po.phase == 0 && (events & UV_WRITABLE)) {
    OUT("T poll writable"); po.phase = 1;
    RAW(SYS_write, po.fds[1], "z", 1);
    if (A("uv_poll_start", uv_poll_start(h, UV_READABLE, po_cb))) bail();
  } else if (po.phase == 1 && (events & UV_READABLE)) {
    OUT("T poll readable"); po.phase = 2;
    A("uv_poll_stop", uv_poll_stop(h)); hclose(h);
  }
}
static void sc_poll(void) {
  int i;
  /* descriptor numbers beyond the current watcher table: uv__io_start has to grow it (maybe_resize) */
  for (i = 0; i < PO_EXTRA; i++) if (RAW(SYS_socketpair, AF_UNIX, SOCK_STREAM | SOCK_NONBLOCK | SOCK_CLOEXEC, 0, po.extra[i])) po.extra[i][0] = po.extra[i][1] = -1;
  if (RAW(SYS_socketpair, AF_UNIX, SOCK_STREAM | SOCK_NONBLOCK | SOCK_CLOEXEC, 0, po.fds)) return;
  po.h = NEW(uv_poll_t);
  if (A("uv_poll_init", uv_poll_init(loop, po.h, po.fds[0]))) { free(po.h); goto done; }
  if (A("uv_poll_start", uv_poll_start(po.h, UV_READABLE | UV_WRITABLE, po_cb))) { bail(); goto run; }
run:
  uv_run(loop, UV_RUN_DEFAULT);
done:
  RAW(SYS_close, po.fds[0]); RAW(SYS_close, po.fds[1]);
  for (i = 0; i < PO_EXTRA; i++) if (po.extra[i][0] >= 0) { RAW(SYS_close, po.extra[i][0]); RAW(SYS_close, po.extra[i][1]); }
}

/* ================================================================== scenario: os / misc getters (allocation users) */
static void sc_os(void) {
  char buf[4096]; size_t len; int n, r; uv_env_item_t* env; uv_interface_address_t* ifa; uv_cpu_info_t* cpu; uv_passwd_t pw;
  uv_utsname_t un; size_t rss; double up; uv_rusage_t ru; uv_group_t grp;
  if (A("uv_os_setenv", uv_os_setenv("C16_PROBE", "value-1")) == 0) {
    len = sizeof buf; if (A("uv_os_getenv", uv_os_getenv("C16_PROBE", buf, &len)) == 0) OUT("T getenv %s %zu", buf, len);
    A("uv_os_unsetenv", uv_os_unsetenv("C16_PROBE"));
  }
  if (A("uv_os_environ", uv_os_environ(&env, &n)) == 0) { OUT("T environ nonempty=%d", n > 0); uv_os_free_environ(env, n); }
  len = sizeof buf; if (A("uv_os_homedir", uv_os_homedir(buf, &len)) == 0) OUT("T homedir len-ok=%d", len == strlen(buf));
  len = sizeof buf; if (A("uv_os_tmpdir", uv_os_tmpdir(buf, &len)) == 0) OUT("T tmpdir len-ok=%d", len == strlen(buf));
  len = sizeof buf; if (A("uv_cwd", uv_cwd(buf, &len)) == 0) OUT("T cwd len-ok=%d", len == strlen(buf));
  len = sizeof buf; if (A("uv_exepath", uv_exepath(buf, &len)) == 0) OUT("T exepath len-ok=%d", len == strlen(buf));
  if (A("uv_interface_addresses", uv_interface_addresses(&ifa, &n)) == 0) { OUT("T ifaddrs n>0=%d", n > 0); uv_free_interface_addresses(ifa, n); }
  if (A("uv_cpu_info", uv_cpu_info(&cpu, &n)) == 0) { OUT("T cpu_info n>0=%d", n > 0); uv_free_cpu_info(cpu, n); }
  if (A("uv_os_get_passwd", uv_os_get_passwd(&pw)) == 0) { OUT("T passwd name-ok=%d", pw.username != NULL); uv_os_free_passwd(&pw); }
  if (A("uv_os_get_group", uv_os_get_group(&grp, getgid())) == 0) { OUT("T group ok"); uv_os_free_group(&grp); }
  len = sizeof buf; if (A("uv_os_gethostname", uv_os_gethostname(buf, &len)) == 0) OUT("T hostname len-ok=%d", len == strlen(buf));
  if (A("uv_os_uname", uv_os_uname(&un)) == 0) OUT("T uname %s", un.sysname);
  if (A("uv_resident_set_memory", uv_resident_set_memory(&rss)) == 0) OUT("T rss>0=%d", rss > 0);
  if (A("uv_uptime", uv_uptime(&up)) == 0) OUT("T uptime>0=%d", up > 0);
  A("uv_getrusage", uv_getrusage(&ru));
  { uint64_t t0 = uv_hrtime(); long ms; uv_sleep(20); ms = (long) ((uv_hrtime() - t0) / 1000000);
    OUT("T sleep done");
    if (ms < 19) VIOL("sleep-early", "uv_sleep(20) returned after %ld ms", ms);
    if (ms > 20 + 250) VIOL("sleep-late", "uv_sleep(20) returned after %ld ms", ms); }
  r = (int) uv_available_parallelism(); OUT("T parallelism>0=%d", r > 0);
  OUT("T memory total>0=%d", uv_get_total_memory() > 0); (void) uv_get_free_memory(); (void) uv_get_constrained_memory(); (void) uv_get_available_memory();
  len = sizeof buf; r = uv_get_process_title(buf, len); OUT("A uv_get_process_title %s", en(r));
}


/* ================================================================== scenario family adopt:<options>:<path>
 * A TCP handle on which options were requested while it had no socket (uv_tcp_nodelay / uv_tcp_keepalive only
 * remember a flag then) is given a descriptor: options = nodelay | keepalive | both | none;  path =
 *   accept   uv_accept from a listening TCP handle        ipc      uv_accept of a descriptor received over an IPC pipe
 *   open     uv_tcp_open of a socket owned by the caller  bind / connect / listen   lazy socket creation
 * The remembered options are applied by system calls issued during the adoption; every one of them (and everything
 * else in the scenario) is a fault point.  Observed after the adopting call: its return code; what the handle claims
 * to own (uv_fileno); the application then opens descriptors of its own, everything is closed, and the application's
 * descriptors must still be there, untouched.  Descriptor ownership is part of the accounting the property is about:
 * after a failed adoption exactly one party releases the descriptor, exactly once. */
#define AD_APP 4
static long count_fds(void);
static long ad_f0, ad_d;      /* open descriptors before the adopting call / delta caused by it (before the caller cleans up) */
#define AD_CALL(expr) (ad_f0 = count_fds(), rc = (int) (expr), ad_d = count_fds() - ad_f0, rc)
static struct { char opts[16], path[16]; int nodelay, keepalive; uv_tcp_t *h, *srv; uv_pipe_t* ipc; int raw_a, raw_b, observed;
                int app[AD_APP]; struct stat ast[AD_APP]; struct sockaddr_in addr; } ad;
static int ad_getopt(int fd, int level, int name) { int v = -1; socklen_t l = sizeof v; if (RAW(SYS_getsockopt, fd, level, name, &v, &l)) return -1; return v; }
/* adoption_only: the call does nothing but adopt, so failure means "not adopted" */
static void ad_observe(const char* call, int rc, int adoption_only) {
  uv_os_fd_t f = -1; int fr, i;
  ad.observed = 1;
  fr = uv_fileno((uv_handle_t*) ad.h, &f);
  if (rc < 0 && adoption_only && fr != UV_EBADF)
    VIOL("failed-adoption-fd-claimed", "%s returned %s but the handle still claims descriptor %d (uv_fileno -> %s); the caller of uv__stream_open releases it as well", call, en(rc), (int) f, en(fr));
  if (fr == 0 && RAW(SYS_fcntl, f, F_GETFD) < 0)
    VIOL("handle-fd-not-open", "%s returned %s and the handle claims descriptor %d, which is not open", call, en(rc), (int) f);
  if (rc == 0 && fr != 0)
    VIOL("adopted-fd-missing", "%s returned 0 but uv_fileno -> %s", call, en(fr));
  OUT("OA rc=%d owns=%d fds=%ld", rc < 0 ? rc : 0, fr == 0, ad_d);      /* format of `uvdriver c16adopt` */
  OUT("T adopt %s %s rc=%s owns=%d nodelay=%d keepalive=%d idle=%d", ad.opts, ad.path, en(rc), fr == 0,
      fr == 0 ? ad_getopt(f, IPPROTO_TCP, TCP_NODELAY) : -1, fr == 0 ? ad_getopt(f, SOL_SOCKET, SO_KEEPALIVE) : -1,
      fr == 0 && ad.keepalive ? ad_getopt(f, IPPROTO_TCP, TCP_KEEPIDLE) : -1);
  /* the application goes on and opens descriptors of its own: they get the lowest free numbers */
  for (i = 0; i < AD_APP; i++) {
    ad.app[i] = (int) RAW(SYS_openat, AT_FDCWD, "/dev/null", O_RDONLY | O_CLOEXEC, 0);
    if (ad.app[i] >= 0) RAW(SYS_fstat, ad.app[i], &ad.ast[i]);
  }
}
static void ad_check_app(void) {
  int i; struct stat st;
  for (i = 0; i < AD_APP; i++) {
    if (!ad.observed || ad.app[i] < 0) continue;
    if (RAW(SYS_fstat, ad.app[i], &st) < 0)
      VIOL("foreign-fd-closed", "%s: descriptor %d, opened by the application after the adopting call returned, was closed behind its back", ad.path, ad.app[i]);
    else if (st.st_ino != ad.ast[i].st_ino || st.st_dev != ad.ast[i].st_dev)
      VIOL("foreign-fd-replaced", "%s: descriptor %d of the application now refers to a different object", ad.path, ad.app[i]);
    RAW(SYS_close, ad.app[i]); ad.app[i] = -1;
  }
}
/* the connection may have been shed (EMFILE episode) or lost to an injected accept failure: nothing will arrive then.
 * Three timer rounds, each separated by a poll phase that would have delivered a pending connection. */
static int ad_rounds;
static void ad_giveup(uv_timer_t* t) { (void) t; if (++ad_rounds >= 3 && !ad.observed) { OUT("I adopt: no connection arrived"); bail(); } }
static void ad_conn_cb(uv_stream_t* srv, int status) {
  int rc;
  if (CB("connection_cb", status)) return;
  A("uv_accept", AD_CALL(uv_accept(srv, (uv_stream_t*) ad.h)));
  ad_observe("uv_accept", rc, 1);
  bail();
}
static void ad_ipc_read(uv_stream_t* s, ssize_t n, const uv_buf_t* b) {
  int rc; (void) b;
  if (n == 0) return;
  if (n < 0) { CB("ipc_read_cb", (int) n); return; }
  if (uv_pipe_pending_count((uv_pipe_t*) s) < 1) { VIOL("ipc-pending-missing", "%s", "no pending handle after the descriptor arrived"); bail(); return; }
  A("uv_accept(ipc)", AD_CALL(uv_accept(s, (uv_stream_t*) ad.h)));
  ad_observe("uv_accept(ipc)", rc, 1);
  bail();
}
static void ad_connect_cb(uv_connect_t* c, int status) { got[Q_connect]++; free(c); CB("connect_cb", status); OUT("T adopt connected %s", en(status)); bail(); }
static void ad_listen_cb(uv_stream_t* s, int status) { (void) s; (void) status; }
static int ad_raw_listener(void) {      /* a listening socket of the harness (never faulted, never counted) */
  int fd = (int) RAW(SYS_socket, AF_INET, SOCK_STREAM | SOCK_CLOEXEC, 0); socklen_t l = sizeof ad.addr;
  uv_ip4_addr("127.0.0.1", 0, &ad.addr);
  if (fd < 0 || RAW(SYS_bind, fd, &ad.addr, sizeof ad.addr) || RAW(SYS_listen, fd, 4) || RAW(SYS_getsockname, fd, &ad.addr, &l)) { if (fd >= 0) RAW(SYS_close, fd); return -1; }
  return fd;
}
static char adopt_spec[64];
static void sc_adopt(void) {
  char sp[64]; char* t; int rc;
  ad.raw_a = ad.raw_b = -1;
  for (rc = 0; rc < AD_APP; rc++) ad.app[rc] = -1;
  snprintf(sp, sizeof sp, "%s", adopt_spec);
  t = strtok(sp, ":"); snprintf(ad.opts, sizeof ad.opts, "%s", t ? t : "");
  t = strtok(NULL, ":"); snprintf(ad.path, sizeof ad.path, "%s", t ? t : "");
  ad.nodelay = !strcmp(ad.opts, "nodelay") || !strcmp(ad.opts, "both");
  ad.keepalive = !strcmp(ad.opts, "keepalive") || !strcmp(ad.opts, "both");
  if (!ad.nodelay && !ad.keepalive && strcmp(ad.opts, "none")) { OUT("bad-op adopt options %s", ad.opts); return; }
  ad.h = NEW(uv_tcp_t);
  if (A("uv_tcp_init", uv_tcp_init(loop, ad.h))) { free(ad.h); ad.h = NULL; return; }
  /* legal on a handle without a socket: remembered in the handle flags, applied when it gets one */
  if (ad.nodelay && A("uv_tcp_nodelay", uv_tcp_nodelay(ad.h, 1))) goto out;
  if (ad.keepalive && A("uv_tcp_keepalive", uv_tcp_keepalive(ad.h, 1, 60))) goto out;
  if (!strcmp(ad.path, "accept")) {
    int len = sizeof ad.addr;
    ad.srv = NEW(uv_tcp_t);
    if (A("uv_tcp_init", uv_tcp_init(loop, ad.srv))) { free(ad.srv); ad.srv = NULL; goto out; }
    uv_ip4_addr("127.0.0.1", 0, &ad.addr);
    if (A("uv_tcp_bind", uv_tcp_bind(ad.srv, (struct sockaddr*) &ad.addr, 0))) goto out;
    if (A("uv_listen", uv_listen((uv_stream_t*) ad.srv, 4, ad_conn_cb))) goto out;
    if (A("uv_tcp_getsockname", uv_tcp_getsockname(ad.srv, (struct sockaddr*) &ad.addr, &len))) goto out;
    ad.raw_a = (int) RAW(SYS_socket, AF_INET, SOCK_STREAM | SOCK_CLOEXEC, 0);       /* the peer: a plain blocking connect */
    if (ad.raw_a < 0 || RAW(SYS_connect, ad.raw_a, &ad.addr, sizeof ad.addr)) { OUT("I adopt: harness connect failed"); goto out; }
    { uv_timer_t* t = NEW(uv_timer_t); uv_timer_init(loop, t); uv_update_time(loop); uv_timer_start(t, ad_giveup, 100, 100); }
    uv_run(loop, UV_RUN_DEFAULT);
  } else if (!strcmp(ad.path, "ipc")) {
    int sv[2]; struct msghdr m; struct iovec io; char cb[CMSG_SPACE(sizeof(int))]; struct cmsghdr* c; int lfd;
    if (RAW(SYS_socketpair, AF_UNIX, SOCK_STREAM | SOCK_CLOEXEC, 0, sv)) goto out;
    setkind(sv[0], 's'); setkind(sv[1], 's');
    ad.raw_a = sv[0];
    ad.ipc = NEW(uv_pipe_t); uv_pipe_init(loop, ad.ipc, 1);
    if (A("uv_pipe_open", uv_pipe_open(ad.ipc, sv[1]))) { RAW(SYS_close, sv[1]); goto out; }
    lfd = ad_raw_listener();                       /* the descriptor that travels: a TCP socket */
    if (lfd < 0) goto out;
    memset(&m, 0, sizeof m); memset(cb, 0, sizeof cb);
    io.iov_base = "H"; io.iov_len = 1; m.msg_iov = &io; m.msg_iovlen = 1; m.msg_control = cb; m.msg_controllen = sizeof cb;
    c = CMSG_FIRSTHDR(&m); c->cmsg_level = SOL_SOCKET; c->cmsg_type = SCM_RIGHTS; c->cmsg_len = CMSG_LEN(sizeof(int));
    memcpy(CMSG_DATA(c), &lfd, sizeof lfd);
    rc = (int) RAW(SYS_sendmsg, sv[0], &m, 0);
    RAW(SYS_close, lfd);
    if (rc != 1) goto out;
    if (A("uv_read_start", uv_read_start((uv_stream_t*) ad.ipc, alloc_cb, ad_ipc_read))) goto out;
    uv_run(loop, UV_RUN_DEFAULT);
  } else if (!strcmp(ad.path, "open")) {
    int fd = (int) RAW(SYS_socket, AF_INET, SOCK_STREAM | SOCK_CLOEXEC, 0);
    if (fd < 0) goto out;
    setkind(fd, 's');
    A("uv_tcp_open", AD_CALL(uv_tcp_open(ad.h, fd)));
    if (rc < 0) { RAW(SYS_close, fd); if (fd < MAXFD) fdkind[fd] = 0; }      /* the caller keeps ownership on failure */
    ad_observe("uv_tcp_open", rc, 1);
  } else if (!strcmp(ad.path, "bind")) {
    uv_ip4_addr("127.0.0.1", 0, &ad.addr);
    A("uv_tcp_bind", AD_CALL(uv_tcp_bind(ad.h, (struct sockaddr*) &ad.addr, 0)));
    ad_observe("uv_tcp_bind", rc, 0);
  } else if (!strcmp(ad.path, "listen")) {
    A("uv_listen", AD_CALL(uv_listen((uv_stream_t*) ad.h, 4, ad_listen_cb)));
    ad_observe("uv_listen", rc, 0);
  } else if (!strcmp(ad.path, "connect")) {
    uv_connect_t* cr;
    ad.raw_a = ad_raw_listener();
    if (ad.raw_a < 0) goto out;
    cr = NEW(uv_connect_t);
    A("uv_tcp_connect", AD_CALL(uv_tcp_connect(cr, ad.h, (struct sockaddr*) &ad.addr, ad_connect_cb)));
    if (rc) free(cr); else owed[Q_connect]++;
    ad_observe("uv_tcp_connect", rc, 0);
    if (rc == 0) uv_run(loop, UV_RUN_DEFAULT);
  } else {
    OUT("bad-op adopt path %s", ad.path);
  }
out:
  bail();
  uv_run(loop, UV_RUN_DEFAULT);
  ad_check_app();
  if (ad.raw_a >= 0) { RAW(SYS_close, ad.raw_a); if (ad.raw_a < MAXFD) fdkind[ad.raw_a] = 0; }
}

/* ================================================================== per-operation fault atomicity (model: lean/UvModel/Fault.lean)
 * `atom:<op>:<p1>:<p2>`: set the stage without faults, then measure exactly one API call: return code and the deltas
 * of loop->active_reqs.count, live allocator blocks, open descriptors, loop->active_handles, kernel inotify watches.
 * Printed in the format of `uvdriver c16ops`; afterwards the ordinary monitors run on the cleanup. */
static char atom_spec[128];
static long count_fds(void) { char b[8192]; long n = 0; fd_snapshot(b, sizeof b); for (char* p = b; *p; p++) if (*p == '=') n++; return n; }
static long count_watches(void) {
  char path[64], buf[8192]; long n = 0, r; int fd;
  if (loop->inotify_fd < 0) return 0;
  snprintf(path, sizeof path, "/proc/self/fdinfo/%d", loop->inotify_fd);
  fd = (int) RAW(SYS_openat, AT_FDCWD, path, O_RDONLY | O_CLOEXEC, 0);
  if (fd < 0) return 0;
  r = RAW(SYS_read, fd, buf, sizeof buf - 1); RAW(SYS_close, fd);
  if (r <= 0) return 0;
  buf[r] = 0;
  for (char* p = buf; (p = strstr(p, "inotify wd:")) != NULL; p += 5) n++;
  return n;
}
static struct { long reqs, mem, fds, handles, watches; } at0;
static void atom_begin(int block_writes) {
  unsigned s, k;
  at0.reqs = loop->active_reqs.count; at0.mem = nlive; at0.fds = count_fds(); at0.handles = loop->active_handles; at0.watches = count_watches();
  for (s = 0; s < S_N; s++) for (k = 0; k < K_N; k++) atomic_store(&occ[s][k], 0);
  atomic_store(&nalloc, 0);
  atom_block_writes = block_writes; atom_live = 1;
}
static int atom_end(int rc) {
  atom_live = 0;
  OUT("O rc=%d reqs=%ld mem=%ld fds=%ld handles=%ld watches=%ld", rc < 0 ? rc : 0, (long) loop->active_reqs.count - at0.reqs,
      (long) nlive - at0.mem, count_fds() - at0.fds, (long) loop->active_handles - at0.handles, count_watches() - at0.watches);
  A_("atom-op", rc, 0);
  return rc;
}
static void at_write_cb(uv_write_t* r, int st) { got[Q_write]++; free(r); (void) st; }
static void at_udp_cb(uv_udp_send_t* r, int st) { got[Q_udp_send]++; free(r); (void) st; }
static void at_fs_cb(uv_fs_t* r) { got[Q_fs]++; uv_fs_req_cleanup(r); free(r); }
static void at_work(uv_work_t* w) { (void) w; }
/* the single pool thread is parked while an asynchronous call is measured, so that what the worker frees
 * (e.g. the heap copy of the bufs in uv__fs_read) does not race with the observation */
static uv_sem_t at_gate; static int at_parked;
static void at_park_work(uv_work_t* w) { (void) w; uv_sem_wait(&at_gate); }
static void at_after(uv_work_t* w, int st);
static void at_park(void) {
  uv_work_t* w = NEW(uv_work_t);
  uv_sem_init(&at_gate, 0);
  if (uv_queue_work(loop, w, at_park_work, at_after) == 0) { owed[Q_work]++; at_parked = 1; } else free(w);
}
static void at_unpark(void) { if (at_parked) { uv_sem_post(&at_gate); at_parked = 0; } }
static void at_after(uv_work_t* w, int st) { got[Q_work]++; free(w); (void) st; }
static void at_gai_cb(uv_getaddrinfo_t* r, int st, struct addrinfo* ai) { got[Q_gai]++; free(r); if (st == 0) uv_freeaddrinfo(ai); }
static void at_exit_cb(uv_process_t* p, int64_t st, int sig) { (void) st; (void) sig; hclose(p); }
static void at_fe_cb(uv_fs_event_t* h, const char* n, int ev, int st) { (void) h; (void) n; (void) ev; (void) st; }
static void at_fp_cb(uv_fs_poll_t* h, int st, const uv_stat_t* a, const uv_stat_t* b) { (void) h; (void) st; (void) a; (void) b; }
static void at_udp_recv(uv_udp_t* h, ssize_t n, const uv_buf_t* b, const struct sockaddr* a, unsigned f) { (void) h; (void) n; (void) b; (void) a; (void) f; }
static void sc_atom(void) {
  char op[32] = ""; int p1 = 0, p2 = 0, rc, i; char sp[128]; char* t;
  uv_buf_t bufs[8]; static char rb[8][4];
  snprintf(sp, sizeof sp, "%s", atom_spec);
  t = strtok(sp, ":"); if (t) snprintf(op, sizeof op, "%s", t);
  t = strtok(NULL, ":"); if (t) p1 = atoi(t);
  t = strtok(NULL, ":"); if (t) p2 = atoi(t);
  for (i = 0; i < 8; i++) bufs[i] = uv_buf_init(rb[i], 4);
  if (!strcmp(op, "write2")) {
    uv_os_sock_t fds[2]; uv_pipe_t* a = NEW(uv_pipe_t); uv_write_t* w = NEW(uv_write_t);
    uv_socketpair(SOCK_STREAM, 0, fds, UV_NONBLOCK_PIPE, UV_NONBLOCK_PIPE);
    uv_pipe_init(loop, a, 0); uv_pipe_open(a, fds[0]);
    atom_begin(1);
    rc = atom_end(uv_write2(w, (uv_stream_t*) a, bufs, p1, NULL, at_write_cb));
    if (rc) free(w); else owed[Q_write]++;
    RAW(SYS_close, fds[1]);
  } else if (!strcmp(op, "udp_send")) {
    uv_udp_t* u = NEW(uv_udp_t); uv_udp_send_t* r = NEW(uv_udp_send_t); struct sockaddr_in sa;
    uv_udp_init(loop, u); uv_ip4_addr("127.0.0.1", 0, &sa); uv_udp_bind(u, (struct sockaddr*) &sa, 0);
    if (p2) uv_udp_recv_start(u, alloc_cb, at_udp_recv);
    uv_ip4_addr("127.0.0.1", 9, &sa);
    atom_begin(1);
    rc = atom_end(uv_udp_send(r, u, bufs, p1, (struct sockaddr*) &sa, at_udp_cb));
    if (rc) free(r); else owed[Q_udp_send]++;
  } else if (!strcmp(op, "fs")) {          /* p1 = async, p2 = 0 none / 1 path / 2 bufs */
    uv_fs_t* r = NEW(uv_fs_t); char path[300]; int fd;
    snprintf(path, sizeof path, "%s/atom", scratch);
    quiet_depth++; fd = (int) RAW(SYS_openat, AT_FDCWD, path, O_CREAT | O_RDWR | O_CLOEXEC, 0600); quiet_depth--;
    at_park();
    atom_begin(0);
    rc = p2 == 1 ? uv_fs_stat(loop, r, path, p1 ? at_fs_cb : NULL) : p2 == 2 ? uv_fs_read(loop, r, fd, bufs, 6, 0, p1 ? at_fs_cb : NULL)
                 : uv_fs_fsync(loop, r, fd, p1 ? at_fs_cb : NULL);
    rc = atom_end(rc);
    at_unpark();
    if (rc < 0 || !p1) { uv_fs_req_cleanup(r); free(r); } else owed[Q_fs]++;
    uv_run(loop, UV_RUN_DEFAULT);
    RAW(SYS_close, fd);
  } else if (!strcmp(op, "queue_work")) {
    uv_work_t* w = NEW(uv_work_t);
    at_park();
    atom_begin(0);
    rc = atom_end(uv_queue_work(loop, w, at_work, at_after));
    at_unpark();
    if (rc) free(w); else owed[Q_work]++;
  } else if (!strcmp(op, "getaddrinfo")) {
    uv_getaddrinfo_t* r = NEW(uv_getaddrinfo_t); struct addrinfo hints;
    memset(&hints, 0, sizeof hints); hints.ai_family = AF_INET; hints.ai_flags = AI_NUMERICHOST | AI_NUMERICSERV;
    at_park();
    atom_begin(0);
    rc = atom_end(uv_getaddrinfo(loop, r, at_gai_cb, "127.0.0.1", "80", &hints));
    at_unpark();
    if (rc) free(r); else owed[Q_gai]++;
  } else if (!strcmp(op, "pipe_bind")) {
    uv_pipe_t* a = NEW(uv_pipe_t); char path[300];
    snprintf(path, sizeof path, "%s/bound", scratch);
    uv_pipe_init(loop, a, 0);
    atom_begin(0);
    atom_end(uv_pipe_bind(a, path));
  } else if (!strcmp(op, "spawn")) {        /* p1 = CREATE_PIPE containers, p2 = more than 8 containers (heap array) */
    uv_process_options_t o; uv_stdio_container_t io[12]; char* args[] = { "/bin/true", NULL }; uv_process_t* pr = NEW(uv_process_t);
    memset(&o, 0, sizeof o); memset(io, 0, sizeof io);
    o.file = args[0]; o.args = args; o.exit_cb = at_exit_cb; o.stdio = io; o.stdio_count = p2 ? 10 : 3;
    for (i = 0; i < o.stdio_count; i++) io[i].flags = UV_IGNORE;
    for (i = 0; i < p1; i++) { uv_pipe_t* pp = NEW(uv_pipe_t); uv_pipe_init(loop, pp, 0); io[i].flags = UV_CREATE_PIPE | (i == 0 ? UV_READABLE_PIPE : UV_WRITABLE_PIPE); io[i].data.stream = (uv_stream_t*) pp; }
    atom_begin(0);
    rc = atom_end(uv_spawn(loop, pr, &o));
    if (rc && uv_is_active((uv_handle_t*) pr)) VIOL("spawn-failed-active", "%s", "process handle active after uv_spawn failed");
    if (rc == 0) { bail(); uv_run(loop, UV_RUN_DEFAULT); return; }
  } else if (!strcmp(op, "fs_poll_start")) {
    uv_fs_poll_t* h = NEW(uv_fs_poll_t);
    uv_fs_poll_init(loop, h);
    atom_begin(0);
    rc = atom_end(uv_fs_poll_start(h, at_fp_cb, scratch, 1000));
    if (rc && uv_is_active((uv_handle_t*) h)) VIOL("fs-poll-failed-active", "%s", "handle active after uv_fs_poll_start failed");
  } else if (!strcmp(op, "fs_event_start")) {       /* p1 = the path is new to the loop */
    uv_fs_event_t* h0 = NEW(uv_fs_event_t); uv_fs_event_t* h = NEW(uv_fs_event_t); char other[300];
    snprintf(other, sizeof other, "%s/other", scratch);
    quiet_depth++; mkdir(other, 0700); quiet_depth--;
    uv_fs_event_init(loop, h0); uv_fs_event_init(loop, h);
    uv_fs_event_start(h0, at_fe_cb, p1 ? other : scratch, 0);       /* creates the loop's inotify descriptor */
    atom_begin(0);
    rc = atom_end(uv_fs_event_start(h, at_fe_cb, scratch, 0));
    if (rc && uv_is_active((uv_handle_t*) h)) VIOL("fs-event-failed-active", "%s", "handle active after uv_fs_event_start failed");
  } else if (!strcmp(op, "environ")) {      /* p1 = number of entries */
    uv_env_item_t* env; int n;
    quiet_depth++; clearenv(); for (i = 0; i < p1; i++) { char nm[16]; snprintf(nm, sizeof nm, "V%d", i); setenv(nm, "x", 1); } quiet_depth--;
    atom_begin(0);
    rc = atom_end(uv_os_environ(&env, &n));
    if (rc == 0) { if (n != p1) VIOL("environ-count", "count=%d expected %d", n, p1); uv_os_free_environ(env, n); }
  } else {
    OUT("bad-op unknown atom %s", op);
    return;
  }
  bail();
  uv_run(loop, UV_RUN_DEFAULT);
}

/* ------------------------------------------------------------------ runner */
static const struct { const char* name; void (*fn)(void); } scenarios[] = {
  { "timers", sc_timers }, { "tcp", sc_tcp }, { "pipe", sc_pipe }, { "ipc", sc_ipc }, { "udp", sc_udp },
  { "fs_sync", sc_fs_sync }, { "fs_async", sc_fs_async }, { "gai", sc_gai }, { "work", sc_work }, { "spawn", sc_spawn },
  { "signal", sc_signal }, { "fs_event", sc_fs_event }, { "fs_poll", sc_fs_poll }, { "poll", sc_poll }, { "os", sc_os },
  { NULL, NULL } };

static void atfork_child(void) { atomic_store(&armed, 0); }

static int run_one(int argc, char** argv) {
  int i, s;
  void (*fn)(void) = NULL;
  for (s = 0; scenarios[s].name; s++) if (!strcmp(scenarios[s].name, argv[0])) fn = scenarios[s].fn;
  if (!strncmp(argv[0], "adopt:", 6)) { snprintf(adopt_spec, sizeof adopt_spec, "%s", argv[0] + 6); fn = sc_adopt; }
  if (!strncmp(argv[0], "atom:", 5)) { atom_mode = 1; snprintf(atom_spec, sizeof atom_spec, "%s", argv[0] + 5); fn = sc_atom; }
  if (fn == NULL) { OUT("bad-op unknown scenario %s", argv[0]); return 2; }
  for (i = 1; i < argc; i++) if (parse_fault(argv[i])) { OUT("bad-op fault %s", argv[i]); return 2; }
  allow_iouring = getenv("C16_IOURING") != NULL;
  if (uv_replace_allocator(c_malloc, c_realloc, c_calloc, c_free)) return 2;
  pthread_atfork(NULL, NULL, atfork_child);
  signal(SIGPIPE, SIG_IGN);
  prologue();
  if (loop_inited) fn();
  epilogue();
  return nviol ? 1 : 0;
}

int main(int argc, char** argv) {
  setenv("UV_THREADPOOL_SIZE", "1", 1);
  if (argc >= 3 && !strcmp(argv[1], "run")) return run_one(argc - 2, argv + 2);
  if (argc >= 2 && !strcmp(argv[1], "list")) { for (int s = 0; scenarios[s].name; s++) OUT("%s", scenarios[s].name); return 0; }
  if (argc >= 2 && !strcmp(argv[1], "batch")) {
    char line[2048]; int tmo = argc >= 3 ? atoi(argv[2]) : 20; long nrun = 0;
    while (fgets(line, sizeof line, stdin)) {
      char* av[80]; int ac = 0, st = 0; pid_t pid; char* p;
      line[strcspn(line, "\n")] = 0;
      OUT("== run %s", line);
      for (p = strtok(line, " "); p && ac < 79; p = strtok(NULL, " ")) av[ac++] = p;
      if (ac == 0) continue;
      if (!real_fork) real_fork = (pid_t (*)(void)) dlsym(RTLD_NEXT, "fork");
      nrun++;
      pid = real_fork();
      if (pid == 0) {
        run_index = nrun;
        RAW(SYS_dup3, 1, 2, 0);      /* sanitizer reports travel with the transcript */
        RAW(SYS_exit_group, run_one(ac, av));
      }
      { int waited = 0; long r;
        for (;;) {
          r = RAW(SYS_wait4, pid, &st, WNOHANG, 0);
          if (r == pid) break;
          if (waited >= tmo * 1000) { RAW(SYS_kill, pid, SIGKILL); RAW(SYS_wait4, pid, &st, 0, 0); OUT("== hang"); break; }
          { struct timespec ts = { 0, 1000000 }; RAW(SYS_nanosleep, &ts, 0); } waited++;
        } }
      if (!(WIFEXITED(st) && WEXITSTATUS(st) <= 1)) { char d[256]; const char* base = getenv("C16_TMP");   /* died before its own cleanup */
        snprintf(d, sizeof d, "%s/b%d_%ld", base ? base : "/var/tmp", (int) getpid(), nrun); rm_rf(d); }
      if (WIFSIGNALED(st)) OUT("== exit signal %d", WTERMSIG(st)); else OUT("== exit code %d", WEXITSTATUS(st));
    }
    return 0;
  }
  OUT("usage: c16_sim run <scenario> [fault...] | batch [timeout_s] | list");
  return 2;
}
