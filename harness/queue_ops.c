/* unit harness for src/queue.h: the real inline functions on an array of nodes, same line protocol
 * and same canonical output (node indices, never addresses) as `uvdriver queue`. */
#include <stdio.h>
#include <stdlib.h>
#include <string.h>
#include "uv.h"
#include "queue.h"

#define MAXN 64
static struct uv__queue node[MAXN];
static int n;

static int idx(const struct uv__queue* p) { return (int) (p - node); }
static void dump(void) {
  int i;
  printf("mem");
  for (i = 0; i < n; i++) printf(" %d:%d", idx(node[i].next), idx(node[i].prev));
  printf("\n");
}
static int ok(int a) { return a >= 0 && a < n; }

int main(void) {
  char line[256], op[32];
  while (fgets(line, sizeof line, stdin)) {
    int a = -1, b = -1, c = -1, k;
    k = sscanf(line, "%31s %d %d %d", op, &a, &b, &c);
    if (k < 1) continue;
    if (!strcmp(op, "reset") && k == 2) {
      int i;
      if (a < 0 || a > MAXN) { puts("bad-op"); continue; }
      n = a;
      for (i = 0; i < n; i++) uv__queue_init(&node[i]);
      dump();
    } else if (k == 2 && ok(a)) {
      if (!strcmp(op, "init")) { uv__queue_init(&node[a]); dump(); }
      else if (!strcmp(op, "remove")) { uv__queue_remove(&node[a]); dump(); }
      else if (!strcmp(op, "empty")) printf("empty %d\n", uv__queue_empty(&node[a]) ? 1 : 0);
      else if (!strcmp(op, "ring")) {
        struct uv__queue* q; int fuel;
        printf("ring %d fwd", a);
        fuel = n + 1;
        uv__queue_foreach(q, &node[a]) { if (fuel-- == 0) break; printf(" %d", idx(q)); }
        printf(" | bwd");
        for (fuel = n + 1, q = node[a].prev; q != &node[a] && fuel > 0; q = q->prev, fuel--) printf(" %d", idx(q));
        printf("\n");
      } else if (!strcmp(op, "drain")) {
        /* the idiom of uv__run_pending / uv__run_idle / …: pop-remove-init until empty */
        int fuel = n + 1;
        printf("drain");
        while (fuel-- > 0 && !uv__queue_empty(&node[a])) {
          struct uv__queue* q = uv__queue_head(&node[a]);
          uv__queue_remove(q);
          uv__queue_init(q);
          printf(" %d", idx(q));
        }
        printf("\n");
        dump();
      } else puts("bad-op");
    } else if (k == 3 && ok(a) && ok(b)) {
      if (!strcmp(op, "ins_tail")) { uv__queue_insert_tail(&node[a], &node[b]); dump(); }
      else if (!strcmp(op, "ins_head")) { uv__queue_insert_head(&node[a], &node[b]); dump(); }
      else if (!strcmp(op, "move")) { uv__queue_move(&node[a], &node[b]); dump(); }
      else if (!strcmp(op, "add")) { uv__queue_add(&node[a], &node[b]); dump(); }
      else puts("bad-op");
    } else if (k == 4 && ok(a) && ok(b) && ok(c) && !strcmp(op, "split")) {
      uv__queue_split(&node[a], &node[b], &node[c]); dump();
    } else puts("bad-op");
  }
  return 0;
}
