/* C17 simulator: the real library (working tree) driven by the line protocol of `uvdriver c17poll` /
 * `uvdriver c17event` (lean/Drivers/C17.lean).  Lines starting with '#' are harness-only.
 *
 * mode poll (fs_poll):  link-time wrapping (-Wl,--wrap=...) of the cross-object calls made by
 *   src/fs-poll.c -- uv_timer_init / uv_fs_stat / uv_timer_start / uv_close -- only to *observe* them
 *   (log line, trampoline callback that logs `ev ...` and calls the original callback); uv__statx
 *   (called on the single pool thread, UV_THREADPOOL_SIZE=1) is wrapped to hold the stat until the
 *   script's `release` gives the result; uv_async_send is wrapped so that `release` returns only
 *   after the completion has been posted to the loop.  clock_gettime is virtual.
 * mode event (fs_event, scripted): inotify_add_watch / inotify_rm_watch / read on the inotify fd are
 *   defined here; `dispatch` hands scripted struct inotify_event records to uv__inotify_read through
 *   loop->inotify_read_watcher.cb.
 * mode real (fs_event, real kernel): nothing interposed; ops touch a scratch directory.
 * Handles are malloc'ed one by one and freed in their close_cb (ASan = use-after-free detector). */
/* absolute path: a stray harness/sched.h may shadow <sched.h> via -I/verif/harness */
#include "/usr/include/sched.h"
#include <stdio.h>
#include <stdlib.h>
#include <string.h>
#include <errno.h>
#include <fcntl.h>
#include <unistd.h>
#include <pthread.h>
#include <semaphore.h>
#include <time.h>
#include <sys/inotify.h>
#include <sys/stat.h>
#include <sys/syscall.h>
#include "uv.h"
#include "uv-common.h"
#include "internal.h"

#define NH 4
#define MAXCTX 8192
#define MAXK 4096

static uv_loop_t loop;
static int mode;                       /* 0 poll, 1 event, 2 real */
static char* script[MAXK];
static unsigned ncb;
static int quiet;
static pthread_t main_thread;

/* ------------------------------------------------------------------ virtual clock */
static int virt_on;
static unsigned long long vnow = 1000;   /* ms */
int clock_gettime(clockid_t id, struct timespec* ts) {
  if (virt_on && (id == CLOCK_MONOTONIC || id == CLOCK_MONOTONIC_COARSE)) {
    ts->tv_sec = vnow / 1000; ts->tv_nsec = (vnow % 1000) * 1000000L;
    return 0;
  }
  return (int) syscall(SYS_clock_gettime, id, ts);
}

static void run_script(void);

/* ------------------------------------------------------------------ counting allocator (uv_replace_allocator)
 * While `armed`, the allocation number `fail_at` (0-based, main thread only) returns NULL. */
static int armed, fail_at = -1, alloc_n, fail_pending = -1;
static int alloc_fails(void) {
  if (!armed || !pthread_equal(pthread_self(), main_thread)) return 0;
  return alloc_n++ == fail_at;
}
static void* c_malloc(size_t n) { return alloc_fails() ? NULL : malloc(n); }
static void* c_calloc(size_t a, size_t b) { return alloc_fails() ? NULL : calloc(a, b); }
static void* c_realloc(void* p, size_t n) { return alloc_fails() ? NULL : realloc(p, n); }
static void c_free(void* p) { free(p); }
static void touch_walk(uv_handle_t* h, void* arg) { ++*(int*) arg; (void) uv_is_active(h); }
/* every node of the loop's handle list must live in valid memory (ASan) */
static void walk_all(void) { int n = 0; uv_walk(&loop, touch_walk, &n); printf("#walk %d\n", n); }

/* ================================================================== fs_poll */
struct cx { uv_timer_t* timer; uv_fs_t* req; uv_fs_cb pollcb; uv_timer_cb tcb; uv_close_cb ccb; int alive; };
static struct cx cx[MAXCTX];
static int ncx, in_start, start_ctx = -1;
static struct { uv_fs_poll_t* p; int closing, closed; } ph[NH];
static int submitted, released;
static sem_t sem_entered, sem_go, sem_posted;
static int rel_status; static unsigned rel_f[12];

int __real_uv_timer_init(uv_loop_t*, uv_timer_t*);
int __real_uv_fs_stat(uv_loop_t*, uv_fs_t*, const char*, uv_fs_cb);
int __real_uv_timer_start(uv_timer_t*, uv_timer_cb, uint64_t, uint64_t);
void __real_uv_close(uv_handle_t*, uv_close_cb);
int __real_uv__statx(int, const char*, int, unsigned int, struct uv__statx*);
int __real_uv_async_send(uv_async_t*);

static int ctx_by_timer(void* t) { for (int i = ncx - 1; i >= 0; i--) if (cx[i].alive && cx[i].timer == t) return i; return -1; }
static int ctx_by_req(void* r) { for (int i = ncx - 1; i >= 0; i--) if (cx[i].alive && cx[i].req == r) return i; return -1; }

static void digest(const uv_stat_t* s, char* out) {
  sprintf(out, "%ld,%ld,%ld,%ld,%ld,%ld,%llu,%llu,%llu,%llu,%llu,%llu,%llu,%llu",
          s->st_ctim.tv_nsec, s->st_mtim.tv_nsec, s->st_birthtim.tv_nsec,
          s->st_ctim.tv_sec, s->st_mtim.tv_sec, s->st_birthtim.tv_sec,
          (unsigned long long) s->st_size, (unsigned long long) s->st_mode, (unsigned long long) s->st_uid,
          (unsigned long long) s->st_gid, (unsigned long long) s->st_ino, (unsigned long long) s->st_dev,
          (unsigned long long) s->st_flags, (unsigned long long) s->st_gen);
}

int __wrap_uv_timer_init(uv_loop_t* l, uv_timer_t* t) {
  if (in_start && ncx < MAXCTX) {
    start_ctx = ncx++;
    memset(&cx[start_ctx], 0, sizeof(cx[0]));
    cx[start_ctx].timer = t; cx[start_ctx].alive = 1;
  }
  return __real_uv_timer_init(l, t);
}

static void tramp_poll(uv_fs_t* req) {
  int c = ctx_by_req(req); char d[512];
  if (c < 0) { printf("#harness-failure unknown stat request\n"); fflush(stdout); _exit(3); }
  if (!quiet) {
    if (req->result == 0) { digest(&req->statbuf, d); printf("ev statdone c%d 0 %s\n", c, d); }
    else printf("ev statdone c%d %ld\n", c, (long) req->result);
  }
  cx[c].pollcb(req);
  if (!quiet) printf("evend\n");
}

int __wrap_uv_fs_stat(uv_loop_t* l, uv_fs_t* req, const char* path, uv_fs_cb cb) {
  int c = in_start ? start_ctx : ctx_by_req(req);
  if (mode != 0 || c < 0 || cb == NULL || strncmp(path, "/c17/p", 6))
    return __real_uv_fs_stat(l, req, path, cb);
  cx[c].req = req; cx[c].pollcb = cb;
  int rc = __real_uv_fs_stat(l, req, path, tramp_poll);
  if (rc == 0) { submitted++; if (!quiet) printf("stat c%d p%s\n", c, path + 6); }
  else if (!quiet) printf("#stat-submit-failed c%d %d\n", c, rc);
  return rc;
}

static void tramp_timer(uv_timer_t* t) {
  int c = ctx_by_timer(t);
  if (c < 0) { printf("#harness-failure unknown timer\n"); fflush(stdout); _exit(3); }
  if (!quiet) printf("ev timerfire c%d\n", c);
  cx[c].tcb(t);
  if (!quiet) printf("evend\n");
}

int __wrap_uv_timer_start(uv_timer_t* t, uv_timer_cb cb, uint64_t timeout, uint64_t repeat) {
  int c = mode == 0 ? ctx_by_timer(t) : -1;
  if (c < 0) return __real_uv_timer_start(t, cb, timeout, repeat);
  cx[c].tcb = cb;
  if (!quiet) {
    printf("arm c%d %llu\n", c, (unsigned long long) timeout);
    if (repeat != 0 || !(t->flags & UV_HANDLE_INTERNAL) || uv_has_ref((uv_handle_t*) t))
      printf("#flagfail c%d repeat=%llu internal=%d ref=%d\n", c, (unsigned long long) repeat,
             !!(t->flags & UV_HANDLE_INTERNAL), uv_has_ref((uv_handle_t*) t));
  }
  return __real_uv_timer_start(t, tramp_timer, timeout, repeat);
}

static void tramp_tclose(uv_handle_t* t) {
  int c = ctx_by_timer(t);
  if (c < 0) { printf("#harness-failure unknown closing timer\n"); fflush(stdout); _exit(3); }
  if (!quiet) printf("ev timerclosed c%d\n", c);
  cx[c].alive = 0;
  if (cx[c].ccb) cx[c].ccb(t);
  if (!quiet) printf("evend\n");
}

void __wrap_uv_close(uv_handle_t* h, uv_close_cb cb) {
  int c = (mode == 0 && h->type == UV_TIMER) ? ctx_by_timer(h) : -1;
  if (c < 0) { __real_uv_close(h, cb); return; }
  cx[c].ccb = cb;
  if (!quiet) printf("closetimer c%d\n", c);
  __real_uv_close(h, tramp_tclose);
}

/* pool thread */
int __wrap_uv__statx(int dirfd, const char* path, int flags, unsigned int mask, struct uv__statx* b) {
  if (mode != 0 || path == NULL || strncmp(path, "/c17/p", 6))
    return __real_uv__statx(dirfd, path, flags, mask, b);
  sem_post(&sem_entered);
  while (sem_wait(&sem_go) != 0) {}
  if (rel_status != 0) { errno = -rel_status; return -1; }
  memset(b, 0, sizeof(*b));
  b->stx_mask = 0xFFF;
  b->stx_ctime.tv_nsec = rel_f[0]; b->stx_mtime.tv_nsec = rel_f[1]; b->stx_btime.tv_nsec = rel_f[2];
  b->stx_ctime.tv_sec = rel_f[3]; b->stx_mtime.tv_sec = rel_f[4]; b->stx_btime.tv_sec = rel_f[5];
  b->stx_size = rel_f[6]; b->stx_mode = (uint16_t) rel_f[7]; b->stx_uid = rel_f[8]; b->stx_gid = rel_f[9];
  b->stx_ino = rel_f[10]; b->stx_dev_major = 0; b->stx_dev_minor = rel_f[11];
  /* fields statbuf_eq must ignore: vary them with every call */
  b->stx_atime.tv_sec = 7 + released; b->stx_nlink = 1 + released % 3; b->stx_blocks = released; b->stx_blksize = 512;
  return 0;
}

int __wrap_uv_async_send(uv_async_t* a) {
  int rc = __real_uv_async_send(a);
  if (mode == 0 && !pthread_equal(pthread_self(), main_thread)) sem_post(&sem_posted);
  return rc;
}

/* complete the oldest outstanding stat with the given result; returns after the completion is queued */
static int do_release(int status, const unsigned* f) {
  if (submitted == released) return -1;
  while (sem_wait(&sem_entered) != 0) {}
  rel_status = status; if (f) memcpy(rel_f, f, sizeof(rel_f)); else memset(rel_f, 0, sizeof(rel_f));
  sem_post(&sem_go);
  while (sem_wait(&sem_posted) != 0) {}
  released++;
  return 0;
}

static void poll_user_cb(uv_fs_poll_t* p, int f, int status, const uv_stat_t* prev, const uv_stat_t* curr) {
  char a[512], b[512]; int h = -1;
  for (int i = 0; i < NH; i++) if (ph[i].p == p && !ph[i].closed) h = i;
  digest(prev, a); digest(curr, b);
  if (!quiet) printf("cb h%d f%d %d prev=%s curr=%s\n", h, f, status, a, b);
  run_script();
}
static void pcb0(uv_fs_poll_t* p, int s, const uv_stat_t* a, const uv_stat_t* b) { poll_user_cb(p, 0, s, a, b); }
static void pcb1(uv_fs_poll_t* p, int s, const uv_stat_t* a, const uv_stat_t* b) { poll_user_cb(p, 1, s, a, b); }
static void pcb2(uv_fs_poll_t* p, int s, const uv_stat_t* a, const uv_stat_t* b) { poll_user_cb(p, 2, s, a, b); }
static void pcb3(uv_fs_poll_t* p, int s, const uv_stat_t* a, const uv_stat_t* b) { poll_user_cb(p, 3, s, a, b); }
static uv_fs_poll_cb pcbs[4] = { pcb0, pcb1, pcb2, pcb3 };

static void poll_close_cb(uv_handle_t* h) {
  int i;
  for (i = 0; i < NH; i++) if ((void*) ph[i].p == (void*) h && !ph[i].closed) break;
  if (i == NH) { printf("#harness-failure close_cb for unknown handle\n"); fflush(stdout); _exit(3); }
  if (!quiet) printf("ev closecb h%d\n", i);
  ph[i].closed = 1;
  free(ph[i].p);
  if (!quiet) printf("evend\n");
}

static void poll_op(int argc, char** w) {
  int h = argc > 1 ? atoi(w[1]) : -1;
  if (argc < 2 || h < 0 || h >= NH) { printf("bad-op\n"); return; }
  if (!strcmp(w[0], "start") && argc == 5) {
    char path[64]; int f = atoi(w[2]), rc;
    if (f < 0 || f > 3) { printf("bad-op\n"); return; }
    if (ph[h].closing) { printf("misuse\n"); return; }
    snprintf(path, sizeof(path), "/c17/p%d", atoi(w[3]));
    in_start = 1; start_ctx = -1;
    if (fail_pending >= 0) { fail_at = fail_pending; alloc_n = 0; armed = 1; }
    rc = uv_fs_poll_start(ph[h].p, pcbs[f], path, (unsigned) atoi(w[4]));
    armed = 0;
    in_start = 0;
    if (rc != 0 && start_ctx >= 0 && start_ctx == ncx - 1) { cx[start_ctx].alive = 0; ncx--; }  /* never existed */
    printf("ret %d a=%d\n", rc, uv_is_active((uv_handle_t*) ph[h].p));
    if (fail_pending >= 0) walk_all();
  } else if (!strcmp(w[0], "stop") && argc == 2) {
    if (ph[h].closed) { printf("misuse\n"); return; }
    int rc = uv_fs_poll_stop(ph[h].p);
    printf("ret %d a=%d\n", rc, uv_is_active((uv_handle_t*) ph[h].p));
  } else if (!strcmp(w[0], "close") && argc == 2) {
    if (ph[h].closing) { printf("misuse\n"); return; }
    ph[h].closing = 1;
    uv_close((uv_handle_t*) ph[h].p, poll_close_cb);
    printf("ret 0 a=%d\n", uv_is_active((uv_handle_t*) ph[h].p));
  } else if (!strcmp(w[0], "getpath") && argc == 2) {
    char buf[128]; size_t n = sizeof(buf);
    if (ph[h].closed) { printf("misuse\n"); return; }
    int rc = uv_fs_poll_getpath(ph[h].p, buf, &n);
    if (rc == 0) printf("path %d p%s\n", rc, buf + 6); else printf("path %d -\n", rc);
  } else printf("bad-op\n");
}

/* ================================================================== fs_event (scripted) */
static struct { uv_fs_event_t* p; int closing, closed; } eh[NH];
static char rbuf[8][4096]; static int rlen[8], nreads, rpos;

int inotify_add_watch(int fd, const char* path, uint32_t mask) {
  if (mode == 1 && !strncmp(path, "/c17/w", 6)) {
    int wd = atoi(path + 6);
    if (wd <= 0) { if (!quiet) printf("addwatch -2 mask=%u\n", mask); errno = ENOENT; return -1; }
    if (!quiet) printf("addwatch %d mask=%u\n", wd, mask);
    if (fail_pending >= 0) { fail_at = fail_pending; alloc_n = 0; armed = 1; }   /* allocations after the watch exists */
    return wd;
  }
  {
    int r = (int) syscall(SYS_inotify_add_watch, fd, path, mask);
    if (mode == 2 && !quiet) printf("addwatch %d mask=%u\n", r < 0 ? -errno : r, mask);
    return r;
  }
}
int inotify_rm_watch(int fd, int wd) {
  if (mode == 1) { if (!quiet) printf("rmwatch %d\n", wd); return 0; }
  return (int) syscall(SYS_inotify_rm_watch, fd, wd);
}
ssize_t read(int fd, void* buf, size_t n) {
  if (mode == 1 && loop.inotify_fd >= 0 && fd == loop.inotify_fd) {
    if (rpos >= nreads) { errno = EAGAIN; return -1; }
    if ((size_t) rlen[rpos] > n) { printf("#harness-failure read buffer too small\n"); fflush(stdout); _exit(3); }
    memcpy(buf, rbuf[rpos], rlen[rpos]);
    return rlen[rpos++];
  }
  return syscall(SYS_read, fd, buf, n);
}

static void ev_user_cb(uv_fs_event_t* p, int f, const char* name, int events, int status) {
  int h = -1;
  for (int i = 0; i < NH; i++) if (eh[i].p == p && !eh[i].closed) h = i;
  if (!quiet) printf("cb h%d f%d name=%s ev=%d st=%d\n", h, f, name ? name : "(null)", events, status);
  run_script();
}
static void ecb0(uv_fs_event_t* p, const char* n, int e, int s) { ev_user_cb(p, 0, n, e, s); }
static void ecb1(uv_fs_event_t* p, const char* n, int e, int s) { ev_user_cb(p, 1, n, e, s); }
static void ecb2(uv_fs_event_t* p, const char* n, int e, int s) { ev_user_cb(p, 2, n, e, s); }
static void ecb3(uv_fs_event_t* p, const char* n, int e, int s) { ev_user_cb(p, 3, n, e, s); }
static uv_fs_event_cb ecbs[4] = { ecb0, ecb1, ecb2, ecb3 };

static void ev_close_cb(uv_handle_t* h) {
  for (int i = 0; i < NH; i++) if ((void*) eh[i].p == (void*) h && !eh[i].closed) {
    eh[i].closed = 1; free(eh[i].p);
    if (!quiet) printf("#closecb h%d\n", i);
    return;
  }
}

static char scratch[256];

static void ev_op(int argc, char** w) {
  int h = argc > 1 ? atoi(w[1]) : -1;
  if (argc < 2 || h < 0 || h >= NH) { printf("bad-op\n"); return; }
  if (!strcmp(w[0], "start") && argc == 5 && mode == 1) {       /* start h cb wd alias */
    char path[64]; int f = atoi(w[2]), rc;
    if (f < 0 || f > 3) { printf("bad-op\n"); return; }
    if (eh[h].closing) { printf("misuse\n"); return; }
    snprintf(path, sizeof(path), "/c17/w%d_%d", atoi(w[3]), atoi(w[4]));
    rc = uv_fs_event_start(eh[h].p, ecbs[f], path, 0);
    armed = 0;
    printf("ret %d a=%d\n", rc, uv_is_active((uv_handle_t*) eh[h].p));
    if (fail_pending >= 0) walk_all();
  } else if (!strcmp(w[0], "startp") && argc == 4 && mode == 2) { /* startp h cb relpath */
    char path[512]; int f = atoi(w[2]), rc;
    if (f < 0 || f > 3 || strstr(w[3], "..")) { printf("bad-op\n"); return; }
    if (eh[h].closing) { printf("misuse\n"); return; }
    snprintf(path, sizeof(path), "%s/%s", scratch, strcmp(w[3], ".") ? w[3] : "");
    rc = uv_fs_event_start(eh[h].p, ecbs[f], path, 0);
    printf("ret %d a=%d\n", rc, uv_is_active((uv_handle_t*) eh[h].p));
  } else if (!strcmp(w[0], "stop") && argc == 2) {
    if (eh[h].closing) { printf("misuse\n"); return; }   /* (legal no-op until close_cb; after it the memory is gone) */
    int rc = uv_fs_event_stop(eh[h].p);
    printf("ret %d a=%d\n", rc, uv_is_active((uv_handle_t*) eh[h].p));
  } else if (!strcmp(w[0], "close") && argc == 2) {
    if (eh[h].closing) { printf("misuse\n"); return; }
    eh[h].closing = 1;
    uv_close((uv_handle_t*) eh[h].p, ev_close_cb);
    printf("ret 0 a=%d\n", uv_is_active((uv_handle_t*) eh[h].p));
  } else printf("bad-op\n");
}

/* dispatch wd:mask:name ... [/ wd:mask:name ...]   ('/' starts the next read(2) buffer; name '-' = none) */
static void do_dispatch(int argc, char** w) {
  nreads = 0; rpos = 0; rlen[0] = 0;
  for (int i = 1; i < argc; i++) {
    if (!strcmp(w[i], "/")) { if (nreads + 1 >= 8) { printf("bad-op\n"); return; } nreads++; rlen[nreads] = 0; continue; }
    int wd; unsigned mask; char name[64] = "";
    if (sscanf(w[i], "%d:%u:%63s", &wd, &mask, name) < 2) { printf("bad-op\n"); return; }
    struct inotify_event e; size_t nl = 0;
    memset(&e, 0, sizeof(e));
    if (name[0] && strcmp(name, "-")) nl = (strlen(name) + 16) & ~(size_t) 15;
    e.wd = wd; e.mask = mask; e.len = (uint32_t) nl;
    if (rlen[nreads] + sizeof(e) + nl > sizeof(rbuf[0])) { printf("bad-op\n"); return; }
    memcpy(rbuf[nreads] + rlen[nreads], &e, sizeof(e));
    memset(rbuf[nreads] + rlen[nreads] + sizeof(e), 0, nl);
    if (nl) strcpy(rbuf[nreads] + rlen[nreads] + sizeof(e), name);
    rlen[nreads] += sizeof(e) + nl;
  }
  if (rlen[nreads] > 0) nreads++;
  if (loop.inotify_fd < 0) { printf("noinotify\n"); return; }
  loop.inotify_read_watcher.cb(&loop, &loop.inotify_read_watcher, POLLIN);
  printf("dispatched\n");
}

/* ================================================================== real-kernel file ops */
static void real_op(int argc, char** w) {
  char a[512], b[512]; int rc = -1;
  if (argc < 2 || strstr(w[1], "..") || (argc > 2 && strstr(w[2], ".."))) { printf("bad-op\n"); return; }
  snprintf(a, sizeof(a), "%s/%s", scratch, w[1]);
  if (argc > 2) snprintf(b, sizeof(b), "%s/%s", scratch, w[2]);
  if (!strcmp(w[0], "create")) { int fd = open(a, O_CREAT | O_WRONLY | O_EXCL, 0644); rc = fd < 0 ? -errno : 0; if (fd >= 0) close(fd); }
  else if (!strcmp(w[0], "write")) { int fd = open(a, O_WRONLY | O_APPEND); rc = fd < 0 ? -errno : 0; if (fd >= 0) { if (write(fd, "x", 1) != 1) rc = -errno; close(fd); } }
  else if (!strcmp(w[0], "chmod")) { static int t; rc = chmod(a, (t++ & 1) ? 0644 : 0600) ? -errno : 0; }
  else if (!strcmp(w[0], "unlink")) rc = unlink(a) ? -errno : 0;
  else if (!strcmp(w[0], "mkdir")) rc = mkdir(a, 0755) ? -errno : 0;
  else if (!strcmp(w[0], "rmdir")) rc = rmdir(a) ? -errno : 0;
  else if (!strcmp(w[0], "rename") && argc > 2) rc = rename(a, b) ? -errno : 0;
  else { printf("bad-op\n"); return; }
  printf("fsop %d\n", rc);
}

/* ================================================================== common */
static void do_line(char* line, int in_script);

static void run_script(void) {
  unsigned k = ncb++;
  if (quiet || k >= MAXK || !script[k]) return;
  char* copy = strdup(script[k]); char* save; char* w;
  for (w = strtok_r(copy, ";", &save); w; w = strtok_r(NULL, ";", &save)) {
    char* one = strdup(w);
    for (char* p = one; *p; p++) if (*p == ':') *p = ' ';
    do_line(one, 1);
    free(one);
  }
  free(copy);
}

static void do_line(char* line, int in_script) {
  char* w[64]; int argc = 0; char* save; char* t;
  char* copy = strdup(line);
  for (t = strtok_r(copy, " ", &save); t && argc < 64; t = strtok_r(NULL, " ", &save)) w[argc++] = t;
  if (argc == 0) { free(copy); return; }
  printf("op %s\n", line);
  if (!strcmp(w[0], "startfail") && argc == 6 && mode != 2 && !in_script) {
    fail_pending = atoi(w[1]);
    w[1] = "start";
    if (fail_pending < 0) printf("bad-op\n");
    else if (mode == 0) poll_op(argc - 1, w + 1); else ev_op(argc - 1, w + 1);
    fail_pending = -1;
  } else if (!strcmp(w[0], "start") || !strcmp(w[0], "startp") || !strcmp(w[0], "stop") || !strcmp(w[0], "close") || !strcmp(w[0], "getpath")) {
    if (mode == 0) poll_op(argc, w); else ev_op(argc, w);
  } else if (in_script) printf("bad-op\n");
  else if (!strcmp(w[0], "advance") && argc == 2 && mode == 0) { vnow += strtoull(w[1], NULL, 10); uv_update_time(&loop); }
  else if (!strcmp(w[0], "release") && mode == 0 && (argc == 2 || argc == 3)) {
    unsigned f[12] = {0}; int st = atoi(w[1]), ok = 1;
    if (argc == 3) { char* s = w[2]; for (int i = 0; i < 12; i++) { char* e; f[i] = (unsigned) strtoul(s, &e, 10); if (e == s) ok = 0; s = *e ? e + 1 : e; } }
    if (!ok || st > 0) printf("bad-op\n");
    else if (do_release(st, f) != 0) printf("#norelease\n");
    else printf("#released\n");
  } else if (!strcmp(w[0], "run") && argc == 1) { uv_run(&loop, UV_RUN_NOWAIT); printf("#ran\n"); }
  else if (!strcmp(w[0], "dispatch") && mode == 1) do_dispatch(argc, w);
  else if (mode == 2 && (!strcmp(w[0], "create") || !strcmp(w[0], "write") || !strcmp(w[0], "chmod") || !strcmp(w[0], "unlink") ||
                         !strcmp(w[0], "mkdir") || !strcmp(w[0], "rmdir") || !strcmp(w[0], "rename"))) real_op(argc, w);
  else if (mode == 2 && !strcmp(w[0], "settle") && argc == 1) {
    /* let the kernel's records arrive: a few non-blocking passes */
    for (int i = 0; i < 3; i++) uv_run(&loop, UV_RUN_NOWAIT);
    printf("#settled\n");
  } else printf("bad-op\n");
  free(copy);
}

static void count_walk(uv_handle_t* h, void* arg) { if (h->type == UV_TIMER) ++*(int*) arg; }

int main(int argc, char** argv) {
  static char line[1 << 16];
  setenv("UV_THREADPOOL_SIZE", "1", 1);
  setvbuf(stdout, NULL, _IOFBF, 1 << 16);
  main_thread = pthread_self();
  if (argc < 2) return 2;
  mode = !strcmp(argv[1], "poll") ? 0 : !strcmp(argv[1], "event") ? 1 : 2;
  if (mode == 2) { if (argc < 3) return 2; snprintf(scratch, sizeof(scratch), "%s", argv[2]); }
  uv_replace_allocator(c_malloc, c_realloc, c_calloc, c_free);
  sem_init(&sem_entered, 0, 0); sem_init(&sem_go, 0, 0); sem_init(&sem_posted, 0, 0);
  virt_on = mode == 0;
  if (uv_loop_init(&loop)) return 3;
  for (int i = 0; i < NH; i++) {
    if (mode == 0) { ph[i].p = malloc(sizeof(uv_fs_poll_t)); uv_fs_poll_init(&loop, ph[i].p); }
    else { eh[i].p = malloc(sizeof(uv_fs_event_t)); uv_fs_event_init(&loop, eh[i].p); }
  }
  while (fgets(line, sizeof(line), stdin)) {
    size_t L = strlen(line);
    while (L && (line[L - 1] == '\n' || line[L - 1] == ' ')) line[--L] = 0;
    if (!L) continue;
    if (!strncmp(line, "script ", 7)) {
      unsigned k; int pos;
      printf("%s\n", line);
      if (sscanf(line + 7, "%u %n", &k, &pos) >= 1 && k < MAXK) { free(script[k]); script[k] = strdup(line + 7 + pos); }
      else printf("bad-op\n");
    } else if (!strcmp(line, "end")) break;
    else do_line(line, 0);
    fflush(stdout);
  }
  /* teardown: everything must retire and the loop must close */
  {
    int timers = 0;
    uv_walk(&loop, count_walk, &timers);
    printf("op end\n#walk-timers %d\n", timers);
  }
  fflush(stdout);
  quiet = 1;
  for (int i = 0; i < NH; i++) {
    if (mode == 0 && !ph[i].closing) { ph[i].closing = 1; uv_close((uv_handle_t*) ph[i].p, poll_close_cb); }
    if (mode != 0 && !eh[i].closing) { eh[i].closing = 1; uv_close((uv_handle_t*) eh[i].p, ev_close_cb); }
  }
  while (mode == 0 && submitted > released) do_release(-ENOENT, NULL);
  uv_run(&loop, UV_RUN_DEFAULT);
  {
    int open_handles = 0;
    for (int i = 0; i < NH; i++) open_handles += mode == 0 ? !ph[i].closed : !eh[i].closed;
    int rc = uv_loop_close(&loop);
    printf("loopclose %d open=%d\n", rc, open_handles);
  }
  for (unsigned k = 0; k < MAXK; k++) free(script[k]);
  fflush(stdout);
  return 0;
}
