/* C05 simulator: the real library writing to a real socketpair / TCP loopback / FIFO whose other
 * end is read raw by this harness.  write/writev/sendmsg/shutdown are interposed for the
 * stream's descriptor only: each call consumes the next scripted outcome (accept exactly k
 * bytes -- a real partial write, so the peer sees them -- or fail with an errno without
 * writing); an exhausted script accepts everything.  Line protocol of `uvdriver c05`
 * (see lean/Drivers/C05.lean).  Lines starting with '#' are harness-only information. */
#include <stdio.h>
#include <stdlib.h>
#include <string.h>
#include <errno.h>
#include <fcntl.h>
#include <poll.h>
#include <signal.h>
#include <unistd.h>
#include <sys/socket.h>
#include <sys/syscall.h>
#include <sys/uio.h>
#include <netinet/in.h>
#include <arpa/inet.h>
#include "uv.h"

#define MAXK 4096
#define MAXENV 65536
#define PEERCAP (1 << 22)

static uv_loop_t loop;
static uv_timer_t keepalive;
static union { uv_stream_t s; uv_pipe_t p; uv_tcp_t t; } h;
static uv_tcp_t sendh;
static uv_connect_t connreq;
static int sfd = -1, peerfd = -1, virt;       /* virt: no peer (tcpfail), bytes captured here */
static int closing, quiet;
static char* script[MAXK];
static unsigned ncb, nextid;
static struct { int ok; long v; } env[MAXENV];
static unsigned envh, envt;
static unsigned char* peer; static size_t peerlen;   /* what the peer end received */
static unsigned char* cap; static size_t caplen;     /* what the interposers accepted */
static int peerfds, peereof, shutok;
static int owed_w, owed_s;     /* requests accepted by libuv whose callback has not run yet */

/* libuv's allocator: `alloc_fail` armed = the next uv__malloc/uv__calloc/uv__realloc is refused */
static int alloc_fail, alloc_refused;
static void* h_malloc(size_t n) { if (alloc_fail) { alloc_fail = 0; alloc_refused++; errno = ENOMEM; return NULL; } return malloc(n); }
static void* h_calloc(size_t a, size_t b) { if (alloc_fail) { alloc_fail = 0; alloc_refused++; errno = ENOMEM; return NULL; } return calloc(a, b); }
static void* h_realloc(void* p, size_t n) { if (alloc_fail) { alloc_fail = 0; alloc_refused++; errno = ENOMEM; return NULL; } return realloc(p, n); }

static unsigned char byte_of(unsigned tag, size_t off) { return (unsigned char) ((tag * 131u + off * 7u + 3u) % 251u); }

/* ------------------------------------------------------------------ interposition */
static size_t iov_total(const struct iovec* v, int n) { size_t t = 0; for (int i = 0; i < n; i++) t += v[i].iov_len; return t; }

static void capture(const struct iovec* v, int n, size_t m) {
  for (int i = 0; i < n && m > 0; i++) {
    size_t c = v[i].iov_len < m ? v[i].iov_len : m;
    if (caplen + c > PEERCAP) abort();
    memcpy(cap + caplen, v[i].iov_base, c); caplen += c; m -= c;
  }
}

static void peer_drain(int wait_ms, size_t want);

/* one scripted call: returns bytes to accept, or -1 with errno set */
static ssize_t scripted(const char* kind, const struct iovec* v, int n, const struct msghdr* msg) {
  size_t total = iov_total(v, n), m;
  int fd = msg != NULL && msg->msg_controllen > 0;
  /* keep the peer's receive queue empty: a unix socket stops polling writable after ~70 unread
   * tiny packets (skb overhead), and POLLOUT must stay deliverable whenever libuv arms it */
  { int e = errno; peer_drain(0, 0); errno = e; }
  if (envh < envt && !env[envh].ok) {
    long e = env[envh++].v;
    if (!quiet) printf("sys %s %d %zu %ld%s\n", kind, n, total, -e, fd ? " fd" : "");
    errno = (int) e;
    return -1;
  }
  m = total;
  if (envh < envt) { if ((size_t) env[envh].v < m) m = env[envh].v; envh++; }
  if (!quiet) printf("sys %s %d %zu %zu%s\n", kind, n, total, m, fd ? " fd" : "");
  capture(v, n, m);
  if (virt || (m == 0 && !fd))
    return m;
  {
    /* the real, truncated call */
    struct iovec* tv = malloc(sizeof(*tv) * (n ? n : 1));
    size_t left = m; int tn = 0; ssize_t r;
    for (int i = 0; i < n && (left > 0 || i == 0); i++) {
      tv[tn] = v[i];
      if (tv[tn].iov_len > left) tv[tn].iov_len = left;
      left -= tv[tn].iov_len; tn++;
    }
    if (msg) {
      struct msghdr mh = *msg; mh.msg_iov = tv; mh.msg_iovlen = tn;
      r = syscall(SYS_sendmsg, sfd, &mh, 0);
    } else {
      r = syscall(SYS_writev, sfd, tv, tn);
    }
    free(tv);
    if (r != (ssize_t) m) { printf("#harness-env-failure real write returned %zd errno %d, wanted %zu\n", r, errno, m); fflush(stdout); _exit(3); }
  }
  return m;
}

ssize_t write(int fd, const void* buf, size_t len) {
  if (fd == sfd && sfd >= 0) { struct iovec v = { (void*) buf, len }; return scripted("write", &v, 1, NULL); }
  return syscall(SYS_write, fd, buf, len);
}
ssize_t writev(int fd, const struct iovec* v, int n) {
  if (fd == sfd && sfd >= 0) return scripted("writev", v, n, NULL);
  return syscall(SYS_writev, fd, v, n);
}
ssize_t sendmsg(int fd, const struct msghdr* msg, int flags) {
  if (fd == sfd && sfd >= 0) return scripted("sendmsg", msg->msg_iov, (int) msg->msg_iovlen, msg);
  return syscall(SYS_sendmsg, fd, msg, flags);
}
int shutdown(int fd, int how) {
  if (fd == sfd && sfd >= 0) {
    int r = virt ? 0 : (int) syscall(SYS_shutdown, fd, how);
    int e = errno;
    if (!quiet) printf("sys shutdown %d\n", r == 0 ? 0 : -e);
    if (r == 0) shutok = 1;
    errno = e;
    return r;
  }
  return (int) syscall(SYS_shutdown, fd, how);
}

/* ------------------------------------------------------------------ peer side */
static void peer_drain(int wait_ms, size_t want) {
  if (peerfd < 0) return;
  for (;;) {
    char ctl[CMSG_SPACE(sizeof(int) * 8)];
    unsigned char buf[65536];
    struct iovec v = { buf, sizeof(buf) };
    struct msghdr mh; ssize_t r;
    memset(&mh, 0, sizeof(mh));
    mh.msg_iov = &v; mh.msg_iovlen = 1; mh.msg_control = ctl; mh.msg_controllen = sizeof(ctl);
    r = recvmsg(peerfd, &mh, MSG_DONTWAIT);
    if (r < 0 && errno == ENOTSOCK) { r = read(peerfd, buf, sizeof(buf)); mh.msg_controllen = 0; }
    if (r > 0) {
      if (peerlen + r > PEERCAP) abort();
      memcpy(peer + peerlen, buf, r); peerlen += r;
      for (struct cmsghdr* c = mh.msg_controllen ? CMSG_FIRSTHDR(&mh) : NULL; c; c = CMSG_NXTHDR(&mh, c))
        if (c->cmsg_level == SOL_SOCKET && c->cmsg_type == SCM_RIGHTS) {
          int nf = (int) ((c->cmsg_len - CMSG_LEN(0)) / sizeof(int)), fds[8];
          memcpy(fds, CMSG_DATA(c), nf * sizeof(int));
          for (int i = 0; i < nf; i++) { close(fds[i]); peerfds++; }
        }
      continue;
    }
    if (r == 0) { peereof = 1; return; }
    if (errno == EINTR) continue;
    if (errno != EAGAIN) { peereof = 1; return; }      /* ECONNRESET etc. */
    if (wait_ms > 0 && (peerlen < want || want == (size_t) -1)) {
      struct pollfd p = { peerfd, POLLIN, 0 };
      if (poll(&p, 1, wait_ms) <= 0) return;
      continue;
    }
    return;
  }
}

/* ------------------------------------------------------------------ ops */
static void run_script(void);
static void do_op(char* w, int in_script);

struct wreq { uv_write_t req; unsigned id; unsigned char* data; };

static void obs(void) { if (!quiet) printf("obs wqs=%zu\n", uv_stream_get_write_queue_size(&h.s)); }

static void write_cb(uv_write_t* req, int status) {
  struct wreq* w = (struct wreq*) req;
  owed_w--;
  if (!quiet) printf("cb %u %d\n", w->id, status);
  free(w->data); free(w);
  run_script();
}
static void shutdown_cb(uv_shutdown_t* req, int status) {
  owed_s--;
  if (!quiet) printf("shutcb %d\n", status);
  free(req);
  run_script();
}
static void connect_cb(uv_connect_t* req, int status) {
  (void) req;
  if (!quiet) printf("conncb %d\n", status);
  run_script();
}
static void close_cb(uv_handle_t* handle) {
  (void) handle;
  if (!quiet) printf("closecb\n");
  run_script();
}

static void run_script(void) {
  unsigned k = ncb++;
  if (quiet || k >= MAXK || !script[k]) return;
  char* copy = strdup(script[k]); char* save; char* w;
  for (w = strtok_r(copy, " \n", &save); w; w = strtok_r(NULL, " \n", &save)) do_op(w, 1);
  free(copy);
}

/* "3,0x5,1x1030" -> lens */
static unsigned* parse_bufs(const char* s, unsigned* n) {
  unsigned cap_ = 16, cnt = 0; unsigned* out = malloc(cap_ * sizeof(*out));
  while (*s) {
    char* e; unsigned long a = strtoul(s, &e, 10), k = 1;
    if (e == s) { free(out); return NULL; }
    if (*e == 'x') { s = e + 1; k = strtoul(s, &e, 10); if (e == s) { free(out); return NULL; } }
    while (cnt + k > cap_) { cap_ *= 2; out = realloc(out, cap_ * sizeof(*out)); }
    for (unsigned long i = 0; i < k; i++) out[cnt++] = (unsigned) a;
    if (*e == ',') e++; else if (*e) { free(out); return NULL; }
    s = e;
  }
  *n = cnt; return out;
}

static void do_write(const char* bufs, int with_handle, int try, int nomem) {
  unsigned n, id = nextid++; unsigned* lens = parse_bufs(bufs, &n);
  size_t total = 0, off = 0; int rc;
  if (!lens || n == 0) { printf("bad-op\n"); free(lens); return; }
  for (unsigned i = 0; i < n; i++) total += lens[i];
  unsigned char* data = malloc(total ? total : 1);
  for (size_t i = 0; i < total; i++) data[i] = byte_of(id, i);
  uv_buf_t* b = malloc(n * sizeof(*b));
  for (unsigned i = 0; i < n; i++) { b[i] = uv_buf_init((char*) data + off, lens[i]); off += lens[i]; }
  if (try) {
    rc = uv_try_write2(&h.s, b, n, with_handle ? (uv_stream_t*) &sendh : NULL);
    free(data);
  } else {
    struct wreq* w = malloc(sizeof(*w));
    w->id = id; w->data = data;
    alloc_fail = nomem;
    rc = uv_write2(&w->req, &h.s, b, n, with_handle ? (uv_stream_t*) &sendh : NULL, write_cb);
    alloc_fail = 0;
    if (rc != 0) { free(data); free(w); } else owed_w++;
  }
  free(b); free(lens);                       /* libuv must have copied the uv_buf_t array */
  if (!quiet) printf("ret %d\n", rc);
  obs();
}

static void do_op(char* w, int in_script) {
  char* arg = NULL;
  if (in_script) { arg = strchr(w, ':'); if (arg) *arg++ = 0; }
  else { arg = strchr(w, ' '); if (arg) { *arg++ = 0; while (*arg == ' ') arg++; } }
  if (arg) { char* e = arg + strlen(arg); while (e > arg && (e[-1] == '\n' || e[-1] == ' ')) *--e = 0; }
  if (!strcmp(w, "w") && arg) do_write(arg, 0, 0, 0);
  else if (!strcmp(w, "wh") && arg) do_write(arg, 1, 0, 0);
  else if (!strcmp(w, "wm") && arg) do_write(arg, 0, 0, 1);
  else if (!strcmp(w, "wmh") && arg) do_write(arg, 1, 0, 1);
  else if (!strcmp(w, "t") && arg) do_write(arg, 0, 1, 0);
  else if (!strcmp(w, "th") && arg) do_write(arg, 1, 1, 0);
  else if (!strcmp(w, "s") && !arg) {
    uv_shutdown_t* r = malloc(sizeof(*r));
    int rc = uv_shutdown(r, &h.s, shutdown_cb);
    if (rc != 0) free(r); else owed_s++;
    printf("ret %d\n", rc); obs();
  } else if (!strcmp(w, "c") && !arg) {
    int rc = -1;
    if (!closing) { closing = 1; uv_close((uv_handle_t*) &h.s, close_cb); rc = 0; }
    printf("ret %d\n", rc); obs();
  } else printf("bad-op\n");
}

static int tcp_listener(struct sockaddr_in* a) {
  int l = socket(AF_INET, SOCK_STREAM, 0); socklen_t al = sizeof(*a);
  memset(a, 0, sizeof(*a)); a->sin_family = AF_INET; a->sin_addr.s_addr = htonl(INADDR_LOOPBACK);
  if (l < 0 || bind(l, (struct sockaddr*) a, sizeof(*a)) || listen(l, 4) || getsockname(l, (struct sockaddr*) a, &al)) { perror("listener"); exit(3); }
  return l;
}

static void do_open(const char* kind) {
  int fds[2], l; struct sockaddr_in a;
  uv_replace_allocator(h_malloc, h_realloc, h_calloc, free);
  uv_loop_init(&loop);
  uv_timer_init(&loop, &keepalive);
  uv_timer_start(&keepalive, (uv_timer_cb) abort, 1000000000, 0);
  uv_tcp_init_ex(&loop, &sendh, AF_INET);
  if (!strcmp(kind, "pipe") || !strcmp(kind, "ipc")) {
    if (socketpair(AF_UNIX, SOCK_STREAM, 0, fds)) exit(3);
    uv_pipe_init(&loop, &h.p, !strcmp(kind, "ipc"));
    if (uv_pipe_open(&h.p, fds[0])) exit(3);
    peerfd = fds[1];
  } else if (!strcmp(kind, "fifo")) {
    if (pipe(fds)) exit(3);
    uv_pipe_init(&loop, &h.p, 0);
    if (uv_pipe_open(&h.p, fds[1])) exit(3);
    peerfd = fds[0];
  } else if (!strcmp(kind, "tcp")) {
    l = tcp_listener(&a);
    fds[0] = socket(AF_INET, SOCK_STREAM, 0);
    if (connect(fds[0], (struct sockaddr*) &a, sizeof(a))) exit(3);
    peerfd = accept(l, NULL, NULL); close(l);
    uv_tcp_init(&loop, &h.t);
    if (uv_tcp_open(&h.t, fds[0])) exit(3);
  } else if (!strcmp(kind, "tcpconn") || !strcmp(kind, "tcpfail")) {
    l = tcp_listener(&a);
    if (!strcmp(kind, "tcpfail")) { close(l); l = -1; virt = 1; }
    uv_tcp_init(&loop, &h.t);
    if (uv_tcp_connect(&connreq, &h.t, (struct sockaddr*) &a, connect_cb)) exit(3);
    if (l >= 0) { peerfd = accept(l, NULL, NULL); close(l); }
    else printf("#d=%d\n", h.t.delayed_error != 0);
  } else { printf("bad-op\n"); return; }
  if (uv_fileno((uv_handle_t*) &h.s, &sfd)) exit(3);
  if (peerfd >= 0) fcntl(peerfd, F_SETFL, fcntl(peerfd, F_GETFL) | O_NONBLOCK);
  printf("opened\n");
}

int main(void) {
  static char line[1 << 20];
  signal(SIGPIPE, SIG_IGN);
  alarm(20);                     /* backstop: one program takes milliseconds */
  setvbuf(stdout, NULL, _IOFBF, 1 << 16);
  peer = malloc(PEERCAP); cap = malloc(PEERCAP);
  while (fgets(line, sizeof(line), stdin)) {
    size_t L = strlen(line);
    while (L && (line[L - 1] == '\n' || line[L - 1] == ' ')) line[--L] = 0;
    if (!L) continue;
    if (!strncmp(line, "open ", 5)) { char k[32]; sscanf(line + 5, "%31s", k); do_open(k); }
    else if (!strncmp(line, "env ", 4)) {
      char* save; char* w;
      for (w = strtok_r(line + 4, " ", &save); w; w = strtok_r(NULL, " ", &save)) {
        if ((w[0] != 'k' && w[0] != 'e') || envt >= MAXENV) { printf("bad-op\n"); break; }
        env[envt].ok = w[0] == 'k'; env[envt].v = atol(w + 1); envt++;
      }
    } else if (!strcmp(line, "envclear")) {
      envh = envt;
    } else if (!strncmp(line, "script ", 7)) {
      unsigned k; int pos;
      if (sscanf(line + 7, "%u %n", &k, &pos) >= 1 && k < MAXK) { free(script[k]); script[k] = strdup(line + 7 + pos); }
      else printf("bad-op\n");
    } else if (!strcmp(line, "run")) {
      peer_drain(0, 0);
      uv_run(&loop, UV_RUN_NOWAIT);
      printf("ran wqs=%zu\n", uv_stream_get_write_queue_size(&h.s));
    } else if (!strcmp(line, "end")) {
      int want_eof = shutok || closing;
      fflush(stdout);
      peer_drain(2000, caplen);
      if (want_eof && !peereof && peerfd >= 0) peer_drain(2000, (size_t) -1);
      const unsigned char* src = virt ? cap : peer; size_t n = virt ? caplen : peerlen;
      printf("peer ");
      for (size_t i = 0; i < n; i++) printf("%02x", src[i]);
      printf("\neof %d\n", virt ? want_eof : peereof);
      printf("#fds %d\n", peerfds);
      printf("#reqs %u\n", loop.active_reqs.count);
      if (!virt && (caplen != peerlen || memcmp(cap, peer, caplen))) printf("#harness-mismatch interposer saw %zu bytes, peer read %zu\n", caplen, peerlen);
      break;
    } else do_op(line, 0);
  }
  fflush(stdout);
  /* tear down quietly so that every request is completed and freed */
  quiet = 1;
  if (sfd >= 0 || closing) {
    if (!closing) { closing = 1; uv_close((uv_handle_t*) &h.s, NULL); }
    uv_close((uv_handle_t*) &sendh, NULL);
    uv_close((uv_handle_t*) &keepalive, NULL);
    /* every handle is closing now: a healthy loop runs dry within a few iterations */
    int alive = 1;
    for (int i = 0; i < 64 && alive; i++) alive = uv_run(&loop, UV_RUN_NOWAIT);
    printf("#teardown owed_w=%d owed_s=%d alive=%d reqs=%u\n", owed_w, owed_s, alive, loop.active_reqs.count);
    fflush(stdout);
    if (!alive) uv_loop_close(&loop);
  }
  return 0;
}
