/* C11: the -EOPNOTSUPP fallback of uv__poll_io_uring (linux.c:1193-1197: a CQE with res == -EOPNOTSUPP is
 * re-posted to the thread pool).  A kernel that lacks an opcode cannot be had here, so the completion is
 * forced: epoll_pwait is interposed and, before libuv looks at the completion ring, rewrites the result of
 * every fresh CQE to -EOPNOTSUPP (once per request).  Only idempotent operations are used, because the
 * kernel did execute them once already.  Expected: same result as the thread-pool route, callback exactly
 * once, nothing leaked (LeakSanitizer at exit).
 *   c11_fallback <scratchdir> <force:0|1>
 * prints one line per op: `<op> result=<r> cb=<n> ptr=<stat|null|other>`; first line ROUTE-SKIPPED if no ring. */
#include "uv.h"
#include "uv-common.h"
#include <errno.h>
#include <fcntl.h>
#include <signal.h>
#include <stdio.h>
#include <stdlib.h>
#include <string.h>
#include <sys/epoll.h>
#include <sys/syscall.h>
#include <unistd.h>

struct cqe { uint64_t user_data; int32_t res; uint32_t flags; };

static uv_loop_t loop;
static int force, forced_total;
static uint32_t rewritten_upto;   /* CQ index up to which entries were already rewritten */
static int have_upto;

int epoll_pwait(int epfd, struct epoll_event* ev, int max, int timeout, const sigset_t* ss) {
  int r = (int) syscall(SYS_epoll_pwait, epfd, ev, max, timeout, ss, 8);
  struct uv__iou* iou = &uv__get_internal_fields((&loop))->iou;
  if (force && iou->ringfd >= 0 && iou->cqe != NULL) {
    uint32_t head = *iou->cqhead;
    uint32_t tail = __atomic_load_n(iou->cqtail, __ATOMIC_ACQUIRE);
    uint32_t i = have_upto && (int32_t) (rewritten_upto - head) > 0 ? rewritten_upto : head;
    for (; i != tail; i++) {
      struct cqe* e = &((struct cqe*) iou->cqe)[i & iou->cqmask];
      e->res = -EOPNOTSUPP;
      forced_total++;
    }
    rewritten_upto = tail; have_upto = 1;
  }
  return r;
}

static int cbs;
static void on_fs(uv_fs_t* req) { cbs++; }

static void done(const char* name, int rc, uv_fs_t* req) {
  if (rc == 0) { cbs = 0; uv_run(&loop, UV_RUN_DEFAULT); uv_run(&loop, UV_RUN_NOWAIT); }
  printf("%s result=%s cb=%d ptr=%s\n", name, rc ? uv_err_name(rc) : req->result < 0 ? uv_err_name((int) req->result) : "ok",
         cbs, req->ptr == &req->statbuf ? "stat" : req->ptr == NULL ? "null" : "other");
  uv_fs_req_cleanup(req);
}

int main(int argc, char** argv) {
  uv_fs_t req; int fd; char data[8] = "abcdefg"; char in[8]; uv_buf_t b;
  if (argc != 3 || chdir(argv[1])) return 2;
  uv_loop_init(&loop);
  if (uv_loop_configure(&loop, UV_LOOP_USE_IO_URING_SQPOLL)) { puts("ROUTE-SKIPPED"); return 0; }
  fd = open("f", O_RDWR | O_CREAT, 0644);
  if (write(fd, data, 7) != 7) return 2;
  /* probe (not forced): creates the ring */
  done("probe", uv_fs_stat(&loop, &req, ".", on_fs), &req);
  if (uv__get_internal_fields((&loop))->iou.ringfd < 0) { puts("ROUTE-SKIPPED"); return 0; }
  force = atoi(argv[2]);
  done("stat", uv_fs_stat(&loop, &req, "f", on_fs), &req);
  done("stat-missing", uv_fs_stat(&loop, &req, "nope", on_fs), &req);
  done("lstat", uv_fs_lstat(&loop, &req, "f", on_fs), &req);
  done("fstat", uv_fs_fstat(&loop, &req, fd, on_fs), &req);
  done("fstat-badfd", uv_fs_fstat(&loop, &req, -1, on_fs), &req);
  b = uv_buf_init(in, 4);
  done("read", uv_fs_read(&loop, &req, fd, &b, 1, 0, on_fs), &req);
  b = uv_buf_init(data, 3);
  done("write", uv_fs_write(&loop, &req, fd, &b, 1, 0, on_fs), &req);
  done("fsync", uv_fs_fsync(&loop, &req, fd, on_fs), &req);
  done("fdatasync", uv_fs_fdatasync(&loop, &req, fd, on_fs), &req);
  done("ftruncate", uv_fs_ftruncate(&loop, &req, fd, 5, on_fs), &req);
  force = 0;
  close(fd);
  printf("forced %d\n", forced_total);
  uv_run(&loop, UV_RUN_DEFAULT);
  if (uv_loop_close(&loop)) puts("!loop-close-busy");
  fflush(stdout);
  return 0;
}
