/* C18 (text half): implementation side of the correspondence for src/idna.c.
 * idna.c is compiled into this translation unit (so that the static helpers are the ones of the
 * working tree and assert() is compiled out exactly as in the NDEBUG baseline build unless
 * C18T_ASSERTS is defined); the rest of libuv comes from the archive.
 * Every input is placed so that it ends at an inaccessible page, every output buffer likewise:
 * a read or write past the end faults.  Line protocol: see lean/Drivers/C18Text.lean. */
#ifndef C18T_ASSERTS
#define NDEBUG 1
#endif
#include "idna.c"

#include <stdio.h>
#include <stdlib.h>
#include <sys/mman.h>
#include <unistd.h>

static long pagesz;

/* |n| usable bytes whose end touches a PROT_NONE page */
static unsigned char* guard_alloc(size_t n, void** base, size_t* maplen) {
  size_t pages = (n + pagesz - 1) / pagesz + 1;
  unsigned char* m = mmap(NULL, (pages + 1) * pagesz, PROT_READ | PROT_WRITE,
                          MAP_PRIVATE | MAP_ANONYMOUS, -1, 0);
  if (m == MAP_FAILED) { perror("mmap"); exit(3); }
  if (mprotect(m + pages * pagesz, pagesz, PROT_NONE)) { perror("mprotect"); exit(3); }
  *base = m;
  *maplen = (pages + 1) * pagesz;
  return m + pages * pagesz - n;
}

static int hexv(int c) {
  if (c >= '0' && c <= '9') return c - '0';
  if (c >= 'a' && c <= 'f') return c - 'a' + 10;
  if (c >= 'A' && c <= 'F') return c - 'A' + 10;
  return -1;
}

/* parse hex bytes ("-" = empty) into a malloc'd array */
static int parse_bytes(const char* w, unsigned char** out, size_t* n) {
  size_t len = strlen(w), i;
  *n = 0;
  *out = malloc(len / 2 + 1);
  if (strcmp(w, "-") == 0) return 0;
  if (len % 2) return -1;
  for (i = 0; i < len; i += 2) {
    int a = hexv(w[i]), b = hexv(w[i + 1]);
    if (a < 0 || b < 0) return -1;
    (*out)[(*n)++] = a * 16 + b;
  }
  return 0;
}

static int parse_units(const char* w, uint16_t** out, size_t* n) {
  size_t len = strlen(w), i = 0;
  *n = 0;
  *out = malloc((len / 4 + 2) * sizeof(uint16_t));
  if (strcmp(w, "-") == 0) return 0;
  while (i < len) {
    int k, v = 0;
    if (i + 4 > len) return -1;
    for (k = 0; k < 4; k++) {
      int d = hexv(w[i + k]);
      if (d < 0) return -1;
      v = v * 16 + d;
    }
    (*out)[(*n)++] = v;
    i += 4;
    if (i < len) { if (w[i] != ',') return -1; i++; }
  }
  return 0;
}

static void print_hex(const unsigned char* p, size_t n) {
  size_t i;
  if (n == 0) { fputs("-", stdout); return; }
  for (i = 0; i < n; i++) printf("%02x", p[i]);
}

int main(void) {
  char* line = NULL;
  size_t cap = 0;
  pagesz = sysconf(_SC_PAGESIZE);
  while (getline(&line, &cap, stdin) > 0) {
    char* w[8];
    int nw = 0;
    char* tok = strtok(line, " \t\r\n");
    while (tok && nw < 8) { w[nw++] = tok; tok = strtok(NULL, " \t\r\n"); }
    if (nw == 0) continue;

    if (strcmp(w[0], "u8") == 0 && nw == 2) {
      unsigned char* in; size_t n; void* b1; size_t l1;
      if (parse_bytes(w[1], &in, &n) || n == 0) { puts("bad-op"); free(in); continue; }
      unsigned char* s = guard_alloc(n, &b1, &l1);
      memcpy(s, in, n);
      const char* p = (const char*) s;
      unsigned r = uv__utf8_decode1(&p, (const char*) s + n);
      if (r == (unsigned) -1) printf("u8 -1 %ld\n", (long) (p - (const char*) s));
      else printf("u8 %u %ld\n", r, (long) (p - (const char*) s));
      munmap(b1, l1); free(in);
    } else if (strcmp(w[0], "ta") == 0 && nw == 3) {
      unsigned char* in; size_t n; void *b1, *b2; size_t l1, l2;
      if (parse_bytes(w[1], &in, &n)) { puts("bad-op"); free(in); continue; }
      size_t dcap = strtoul(w[2], NULL, 10);
      unsigned char* s = guard_alloc(n, &b1, &l1);
      unsigned char* d = guard_alloc(dcap, &b2, &l2);
      memcpy(s, in, n);
      memset(d, 0xaa, dcap);
      long rc = uv__idna_toascii((const char*) s, (const char*) s + n, (char*) d, (char*) d + dcap);
      printf("ta %ld ", rc);
      print_hex(d, dcap);
      putchar('\n');
      munmap(b1, l1); munmap(b2, l2); free(in);
    } else if (strcmp(w[0], "w8") == 0 && nw == 2) {
      unsigned char* in; size_t n; void *b1, *b2; size_t l1, l2;
      if (parse_bytes(w[1], &in, &n)) { puts("bad-op"); free(in); continue; }
      unsigned char* s = guard_alloc(n + 1, &b1, &l1);
      memcpy(s, in, n);
      s[n] = 0;
      ssize_t len = uv_wtf8_length_as_utf16((const char*) s);
      if (len < 0) {
        puts("w8 -1 -");
      } else {
        uint16_t* u = (uint16_t*) guard_alloc(len * 2, &b2, &l2);
        ssize_t i;
        uv_wtf8_to_utf16((const char*) s, u, len);
        printf("w8 %ld ", (long) len);
        if (len == 0) putchar('-');
        for (i = 0; i < len; i++) printf("%s%04x", i ? "," : "", u[i]);
        putchar('\n');
        munmap(b2, l2);
      }
      munmap(b1, l1); free(in);
    } else if (strcmp(w[0], "u16") == 0 && nw == 4) {
      uint16_t* in; size_t n; void *b1, *b2 = NULL; size_t l1, l2 = 0;
      int z = strcmp(w[1], "z") == 0;
      if ((!z && strcmp(w[1], "n")) || parse_units(w[2], &in, &n)) { puts("bad-op"); free(in); continue; }
      uint16_t* s = (uint16_t*) guard_alloc((n + (z ? 1 : 0)) * 2, &b1, &l1);
      memcpy(s, in, n * 2);
      if (z) s[n] = 0;
      ssize_t slen = z ? -1 : (ssize_t) n;
      size_t len = uv_utf16_length_as_wtf8(s, slen);
      char* t = NULL;
      size_t tl = 0, size;
      int rc;
      if (strcmp(w[3], "alloc") == 0) {
        tl = 123456789;
        rc = uv_utf16_to_wtf8(s, slen, &t, &tl);
        size = len + 1;
        printf("u16 %zu %d %zu ", len, rc, tl);
        print_hex((unsigned char*) t, size);
        putchar('\n');
        uv__free(t);
      } else {
        tl = strtoul(w[3], NULL, 10);
        size = tl + 1;
        t = (char*) guard_alloc(size, &b2, &l2);
        memset(t, 0xaa, size);
        char* tp = t;
        rc = uv_utf16_to_wtf8(s, slen, &tp, &tl);
        printf("u16 %zu %d %zu ", len, rc, tl);
        print_hex((unsigned char*) t, size);
        putchar('\n');
        munmap(b2, l2);
      }
      munmap(b1, l1); free(in);
    } else {
      puts("bad-op");
    }
    fflush(stdout);
  }
  free(line);
  return 0;
}
