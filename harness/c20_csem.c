/* C20 harness — the mutex/condvar semaphore of src/unix/thread.c (uv__custom_sem_*), which libuv selects
 * when gnu_get_libc_version() reports glibc < 2.21.  That libc answer is given here (libuv untouched);
 * uv_sem_init decides once per process (uv_once), hence a binary of its own.
 *
 * Serialising scheduler (DESIGN §2.3 style 3): K real threads run the real uv_sem_wait/uv_sem_trywait/
 * uv_sem_post, but every pthread_mutex_lock/trylock/unlock, pthread_cond_wait/signal/broadcast they make
 * and every operation start is a *schedule point*: the thread parks there and the scheduler (main thread),
 * following the schedule of the input line, lets exactly one thread run to its next point.  The mutex and
 * condvar of the semaphore under test are simulated by the scheduler (owner, FIFO of waiters, woken flag),
 * so the interleaving is fully determined by the input line.  Same line protocol as `uvdriver csem`
 * (lean/Drivers/C20.lean over UvModel/CustomSem.lean).
 *
 *   csem <init> <prog>/<prog>/...  <sched>
 *     prog : string over w (uv_sem_wait) t (uv_sem_trywait) p (uv_sem_post), or `-` (no operation)
 *     sched: string; digit d = run thread d if enabled, else the next enabled one in cyclic order;
 *            letter a.. = spurious wake-up of thread (letter-'a') if it is blocked in cond_wait;
 *            `-` = empty.  When the schedule is used up: lowest enabled thread, until none is enabled.
 *   → one line: events, then `| left L then R stuck S`
 *     events: <t>B begin op, <t>L lock, <t>T1/<t>T0 trylock got/busy, <t>U unlock, <t>C cond_wait entered
 *             (mutex released), <t>K woken + mutex re-acquired, <t>S<j>/<t>S- signal woke j/nobody,
 *             <t>A broadcast, <t>W spurious wake; `=<ret>` appended when that step completed the operation.
 *     left = tokens the main thread can still take with uv_sem_trywait afterwards (at most init+posts+3 tries),
 *     then = what the uv_sem_trywait that ended the drain returned (0 if the cap was reached),
 *     stuck = 1 if some thread is still blocked when nothing is enabled any more.
 */
#include <uv.h>
#include <dlfcn.h>
#include <errno.h>
#include <pthread.h>
#include <semaphore.h>
#include <stdio.h>
#include <stdlib.h>
#include <string.h>

const char* gnu_get_libc_version(void) { return "2.17"; }

#define MAXT 8
enum { IDLE, AT_LOCK, AT_TRY, AT_UNLOCK, AT_CONDWAIT, IN_COND, AT_SIGNAL, AT_BCAST, DONE };
struct thr {
  pthread_t th; sem_t go; int id; char prog[32];
  volatile int pend, ans, woken, completed, ret, abandon;
};
struct cas {                       /* one case */
  uv_sem_t sem; struct thr t[MAXT]; int n, owner; int fifo[MAXT], nfifo;
  void* mtx; void* cnd; int addr_bad; sem_t parked;
};
static struct cas* C;
static __thread struct thr* me;    /* non-NULL: inside a uv_sem_* operation of a scheduled thread */

#define EARLY __attribute__((no_sanitize("address", "undefined")))
#define REAL(ret, name, ...) \
  static ret (*real)(__VA_ARGS__); \
  if (!real) real = (ret (*)(__VA_ARGS__)) dlsym(RTLD_NEXT, #name); \
  if (!real) { fprintf(stderr, "no real " #name "\n"); _exit(3); }

static void park(struct thr* t, int st) {
  t->pend = st; sem_post(&C->parked);
  while (sem_wait(&t->go) == -1 && errno == EINTR) {}
  if (t->abandon) { me = NULL; pthread_exit(NULL); }   /* case over with this thread still blocked: unwind out of libuv */
}
static void chk(void** slot, void* p) { if (!*slot) *slot = p; else if (*slot != p) C->addr_bad = 1; }

EARLY int pthread_mutex_lock(pthread_mutex_t* m) {
  if (me) { chk(&C->mtx, m); park(me, AT_LOCK); return 0; }
  REAL(int, pthread_mutex_lock, pthread_mutex_t*) return real(m);
}
EARLY int pthread_mutex_trylock(pthread_mutex_t* m) {
  if (me) { chk(&C->mtx, m); park(me, AT_TRY); return me->ans; }
  REAL(int, pthread_mutex_trylock, pthread_mutex_t*) return real(m);
}
EARLY int pthread_mutex_unlock(pthread_mutex_t* m) {
  if (me) { chk(&C->mtx, m); park(me, AT_UNLOCK); return 0; }
  REAL(int, pthread_mutex_unlock, pthread_mutex_t*) return real(m);
}
int pthread_cond_wait(pthread_cond_t* c, pthread_mutex_t* m) {
  if (me) { chk(&C->mtx, m); chk(&C->cnd, c); park(me, AT_CONDWAIT); return 0; }
  REAL(int, pthread_cond_wait, pthread_cond_t*, pthread_mutex_t*) return real(c, m);
}
int pthread_cond_signal(pthread_cond_t* c) {
  if (me) { chk(&C->cnd, c); park(me, AT_SIGNAL); return 0; }
  REAL(int, pthread_cond_signal, pthread_cond_t*) return real(c);
}
int pthread_cond_broadcast(pthread_cond_t* c) {
  if (me) { chk(&C->cnd, c); park(me, AT_BCAST); return 0; }
  REAL(int, pthread_cond_broadcast, pthread_cond_t*) return real(c);
}

static void* worker(void* a) {
  struct thr* t = a;
  for (const char* p = t->prog; *p; p++) {
    int r = 0;
    park(t, IDLE);
    me = t;
    if (*p == 'w') uv_sem_wait(&C->sem);
    else if (*p == 't') r = uv_sem_trywait(&C->sem);
    else uv_sem_post(&C->sem);
    me = NULL;
    t->ret = r; t->completed = 1;
  }
  t->pend = DONE; sem_post(&C->parked);
  return NULL;
}

static int enabled(int i) {
  struct thr* t = &C->t[i];
  switch (t->pend) {
    case DONE: return 0;
    case AT_LOCK: return C->owner < 0;
    case IN_COND: return t->woken && C->owner < 0;
    default: return 1;
  }
}
static void run_thread(struct thr* t) { sem_post(&t->go); while (sem_wait(&C->parked) == -1 && errno == EINTR) {} }
static void fifo_del(int k) { for (int i = k; i + 1 < C->nfifo; i++) C->fifo[i] = C->fifo[i + 1]; C->nfifo--; }

/* one scheduler step of thread i (enabled); prints the event */
static void step(int i) {
  struct thr* t = &C->t[i];
  int go = 1;
  switch (t->pend) {
    case IDLE: printf("%dB", i); break;
    case AT_LOCK: C->owner = i; printf("%dL", i); break;
    case AT_TRY:
      if (C->owner < 0) { C->owner = i; t->ans = 0; printf("%dT1", i); } else { t->ans = EBUSY; printf("%dT0", i); }
      break;
    case AT_UNLOCK:
      if (C->owner != i) printf("%dU!", i); else { C->owner = -1; printf("%dU", i); }
      break;
    case AT_CONDWAIT:
      if (C->owner != i) printf("%dC!", i); else C->owner = -1, printf("%dC", i);
      t->woken = 0; t->pend = IN_COND; C->fifo[C->nfifo++] = i; go = 0;
      break;
    case IN_COND: C->owner = i; printf("%dK", i); break;
    case AT_SIGNAL:
      if (C->nfifo) { int j = C->fifo[0]; fifo_del(0); C->t[j].woken = 1; printf("%dS%d", i, j); } else printf("%dS-", i);
      break;
    case AT_BCAST:
      while (C->nfifo) { C->t[C->fifo[0]].woken = 1; fifo_del(0); }
      printf("%dA", i);
      break;
  }
  if (go) run_thread(t);
  if (t->completed) { t->completed = 0; printf("=%d", t->ret); }
  putchar(' ');
}

static int is_nat(const char* s) { if (!*s) return 0; for (; *s; s++) if (*s < '0' || *s > '9') return 0; return 1; }

static void run_case(unsigned init, char* progs, const char* sched) {
  C = calloc(1, sizeof *C);
  C->owner = -1; sem_init(&C->parked, 0, 0);
  int posts = 0, waits = 0;
  for (char* p = strtok(progs, "/"); p; p = strtok(NULL, "/")) {
    if (C->n == MAXT || strlen(p) >= sizeof C->t[0].prog || strspn(p, "wtp-") != strlen(p) || (strchr(p, '-') && strcmp(p, "-"))) {
      printf("bad-op\n"); free(C); C = NULL; return; }
    struct thr* t = &C->t[C->n]; t->id = C->n++; strcpy(t->prog, strcmp(p, "-") ? p : "");
    for (const char* q = t->prog; *q; q++) { if (*q == 'p') posts++; else waits++; }
  }
  for (const char* s = sched; *s; s++)
    if (!(*s == '-' && !sched[1]) && !(*s >= '0' && *s < '0' + C->n) && !(*s >= 'a' && *s < 'a' + C->n)) { printf("bad-op\n"); free(C); C = NULL; return; }
  if (C->n == 0) { printf("bad-op\n"); free(C); C = NULL; return; }
  if (uv_sem_init(&C->sem, init)) { printf("init-failed\n"); free(C); C = NULL; return; }
  pthread_attr_t wattr; pthread_attr_init(&wattr); pthread_attr_setstacksize(&wattr, 512 << 10);
  for (int i = 0; i < C->n; i++) {
    sem_init(&C->t[i].go, 0, 0);
    if (pthread_create(&C->t[i].th, &wattr, worker, &C->t[i])) { printf("thread-create-failed\n"); exit(4); }
    while (sem_wait(&C->parked) == -1 && errno == EINTR) {}      /* parked at its first begin point (or DONE) */
  }
  int guard = 0, limit = 64 * (posts + waits + 4) + (int) strlen(sched);
  const char* s = strcmp(sched, "-") ? sched : "";
  for (;;) {
    int pick = -1;
    if (*s >= 'a') {                                   /* spurious wake-up */
      int j = *s++ - 'a';
      if (C->t[j].pend == IN_COND && !C->t[j].woken) {
        C->t[j].woken = 1;
        for (int k = 0; k < C->nfifo; k++) if (C->fifo[k] == j) { fifo_del(k); break; }
        printf("%dW ", j);
      }
      continue;
    }
    int from = *s ? *s++ - '0' : 0;
    for (int k = 0; k < C->n; k++) { int i = (from + k) % C->n; if (enabled(i)) { pick = i; break; } }
    if (pick < 0) break;
    if (++guard > limit) { printf("runaway "); break; }
    step(pick);
  }
  pthread_attr_destroy(&wattr);
  int stuck = 0;
  for (int i = 0; i < C->n; i++) if (C->t[i].pend != DONE) stuck = 1;
  /* what is left: the main thread is not scheduled, its pthread calls are the real ones (the real mutex is free) */
  int left = 0, cap = (int) init + posts + 3, r = 0;
  while (left < cap && (r = uv_sem_trywait(&C->sem)) == 0) left++;
  printf("| left %d then %d stuck %d%s\n", left, left < cap ? r : 0, stuck, C->addr_bad ? " foreign-mutex" : "");
  for (int i = 0; i < C->n; i++) if (C->t[i].pend != DONE) { C->t[i].abandon = 1; sem_post(&C->t[i].go); }
  for (int i = 0; i < C->n; i++) { pthread_join(C->t[i].th, NULL); sem_destroy(&C->t[i].go); }
  uv_sem_destroy(&C->sem); sem_destroy(&C->parked); free(C);
  C = NULL;
}

int main(void) {
  char line[1024]; char* w[8];
  setvbuf(stdout, NULL, _IOFBF, 1 << 16);
  while (fgets(line, sizeof line, stdin)) {
    int n = 0;
    char* save;
    for (char* p = strtok_r(line, " \t\r\n", &save); p && n < 8; p = strtok_r(NULL, " \t\r\n", &save)) w[n++] = p;
    if (n == 0) continue;
    if (!strcmp(w[0], "csem") && n == 4 && is_nat(w[1]) && strlen(w[1]) < 9) run_case((unsigned) atoi(w[1]), w[2], w[3]);
    else printf("bad-op\n");
    fflush(stdout);
  }
  fflush(stdout);
  return 0;
}
