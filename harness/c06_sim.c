/* C06 simulator: the real library reading from one end of a real socketpair / TCP loopback
 * connection / IPC pipe; this harness is the raw peer on the other end (pattern bytes = function of
 * the stream position, so loss / duplication / reordering is visible).  read, recvmsg and
 * epoll_pwait are interposed: read/recvmsg on the stream's descriptor consume the next scripted
 * injection (`env` line: n = natural, k<m> = hand over at most m bytes, e<errno> = fail without
 * reading) and log every outcome as `env read cap=<n> -> <bytes | -errno>`; epoll_pwait logs (and
 * can edit, `runx`) the events reported for the descriptor as `env poll <mask>`.  These `env`
 * lines are the model's environment input (see lean/Drivers/C06.lean); every other line is
 * diffed against `uvdriver c06`.  Lines starting with '#' are harness-only information. */
#include <stdio.h>
#include <stdlib.h>
#include <string.h>
#include <errno.h>
#include <fcntl.h>
#include <poll.h>
#include <signal.h>
#include <unistd.h>
#include <sys/epoll.h>
#include <sys/socket.h>
#include <sys/syscall.h>
#include <sys/uio.h>
#include <netinet/in.h>
#include <arpa/inet.h>
#include "uv.h"

#define MAXK 4096
#define MAXENV 65536
#define MAXBUF 4096

static uv_loop_t loop;
static uv_timer_t keepalive;
static union { uv_stream_t s; uv_pipe_t p; uv_tcp_t t; } h;
static int sfd = -1, peerfd = -1, is_ipc, opened;
static int closing, quiet, in_run;
static char* script[MAXK];
static unsigned ncb, nalloc;
static struct { char kind; long v; } env[MAXENV];
static unsigned envh, envt;
static struct { char kind; long v; } allocs[MAXENV];
static unsigned nallocs;
static struct { void* p; unsigned id; size_t len; } outb[MAXBUF];
static unsigned nout;
static long pending_null = -1;
static size_t pending_null_len;
static unsigned starts_ok;           /* successful uv_read_start calls: selects the callback pair */
static size_t pos;                 /* stream position of the next byte the peer writes */
static int peer_shut;
static unsigned strip_mask, add_mask;
static unsigned accepted;
static int wbig_done;                /* a large write is (or was) queued towards the peer */
static unsigned nsys;                /* read/recvmsg calls made on the stream's descriptor */
static size_t consumed;              /* bytes the kernel handed to the library so far */
static int saw_read0;                /* a read/recvmsg on the descriptor returned 0 */

static unsigned char pat(size_t p) { return (unsigned char) ((p * 7u + 3u) % 251u); }

/* ------------------------------------------------------------------ interposition */
static ssize_t scripted(int is_msg, void* buf, size_t cap, struct msghdr* msg, int flags) {
  size_t lim; ssize_t r; int e;
  nsys++;
  if (is_msg) cap = msg->msg_iov[0].iov_len;
  lim = cap;
  if (envh < envt) {
    char k = env[envh].kind; long v = env[envh].v; envh++;
    if (k == 'e') {
      if (!quiet) printf("env read cap=%zu -> %ld\n", cap, -v);
      errno = (int) v;
      return -1;
    }
    /* artificial short reads only while the peer end is open: with a hang-up pending, a short read that
     * leaves data behind is something only descriptor-message boundaries produce (done for real) */
    if (k == 'k' && v >= 1 && (size_t) v < lim && peerfd >= 0) lim = (size_t) v;
  }
  if (is_msg) {
    struct msghdr mh = *msg; struct iovec v = mh.msg_iov[0];
    if (mh.msg_iovlen != 1) { printf("#harness-env-failure iovlen %zu\n", (size_t) mh.msg_iovlen); fflush(stdout); _exit(3); }
    v.iov_len = lim; mh.msg_iov = &v;
    r = syscall(SYS_recvmsg, sfd, &mh, flags);
    e = errno;
    msg->msg_controllen = mh.msg_controllen; msg->msg_flags = mh.msg_flags;
  } else {
    r = syscall(SYS_read, sfd, buf, lim);
    e = errno;
  }
  if (!quiet) printf("env read cap=%zu -> %ld\n", cap, r >= 0 ? (long) r : (long) -e);
  if (r > 0) consumed += (size_t) r;
  if (r == 0 && cap > 0) saw_read0 = 1;
  errno = e;
  return r;
}

ssize_t read(int fd, void* buf, size_t len) {
  if (fd == sfd && sfd >= 0 && opened) return scripted(0, buf, len, NULL, 0);
  return syscall(SYS_read, fd, buf, len);
}
ssize_t recvmsg(int fd, struct msghdr* msg, int flags) {
  if (fd == sfd && sfd >= 0 && opened) return scripted(1, NULL, 0, msg, flags);
  return syscall(SYS_recvmsg, fd, msg, flags);
}
int epoll_pwait(int epfd, struct epoll_event* ev, int max, int timeout, const sigset_t* ss) {
  int n = (int) syscall(SYS_epoll_pwait, epfd, ev, max, timeout, ss, 8);
  if (in_run && n >= 0 && sfd >= 0) {
    int i, found = 0;
    for (i = 0; i < n; i++)
      if (ev[i].data.fd == sfd) {
        found = 1;
        ev[i].events = (ev[i].events & ~strip_mask) | add_mask;
        printf("env poll %u\n", ev[i].events | ((h.s.io_watcher.pevents & POLLOUT) ? 65536u : 0u));
      }
    if (!found && add_mask && n < max) {
      ev[n].events = add_mask; ev[n].data.fd = sfd; n++;
      printf("env poll %u\n", add_mask | ((h.s.io_watcher.pevents & POLLOUT) ? 65536u : 0u));
    }
    strip_mask = add_mask = 0;
  }
  return n;
}

/* ------------------------------------------------------------------ callbacks */
static void do_op(char* w, int in_script);

static void free_cb(uv_handle_t* handle) { free(handle); }

static void close_cb(uv_handle_t* handle) {
  (void) handle;
  if (!quiet) printf("cb close\n");
}

static void alloc_impl(int who, uv_handle_t* handle, size_t suggested, uv_buf_t* buf) {
  unsigned id = nalloc++;
  char kind = 'n'; long v = 65536; size_t len;
  (void) handle;
  if (id < nallocs) { kind = allocs[id].kind; v = allocs[id].v; }
  if (suggested != 65536) printf("#suggested %zu\n", suggested);
  if (kind == '0') { *buf = uv_buf_init(NULL, 0); pending_null = id; pending_null_len = 0; len = 0; }
  else if (kind == 'u') { pending_null = id; pending_null_len = 0; len = 0; }    /* refusal by leaving *buf untouched */
  else if (kind == 'b') { buf->base = NULL; buf->len = (size_t) v; pending_null = id; pending_null_len = (size_t) v; len = 0; }
  else {
    len = kind == 'z' ? 0 : (size_t) v;
    buf->base = malloc(len ? len : 1); buf->len = len;
    if (nout >= MAXBUF) abort();
    outb[nout].p = buf->base; outb[nout].id = id; outb[nout].len = len; nout++;
  }
  if (!quiet) printf("cb alloc %u %zu g=%d\n", id, len, who);
  if (kind != 'n') printf("#refusal-kind %c\n", kind);
}

static void accept_pending(void) {
  while (is_ipc && !closing && uv_pipe_pending_count(&h.p) > 0) {
    uv_handle_type t = uv_pipe_pending_type(&h.p);
    uv_stream_t* c;
    if (t == UV_NAMED_PIPE) { c = malloc(sizeof(uv_pipe_t)); uv_pipe_init(&loop, (uv_pipe_t*) c, 0); }
    else if (t == UV_TCP) { c = malloc(sizeof(uv_tcp_t)); uv_tcp_init(&loop, (uv_tcp_t*) c); }
    else { printf("#pending-type %d\n", (int) t); break; }
    if (uv_accept(&h.s, c) == 0) accepted++;
    else printf("#accept-failed\n");
    uv_close((uv_handle_t*) c, free_cb);
  }
}

static void read_impl(int who, uv_stream_t* s, ssize_t nread, const uv_buf_t* buf) {
  char idbuf[48]; unsigned k;
  (void) s;
  strcpy(idbuf, "-");
  if (buf->base != NULL) {
    unsigned i;
    for (i = 0; i < nout && outb[i].p != buf->base; i++) {}
    if (i < nout) {
      if (outb[i].len == buf->len) snprintf(idbuf, sizeof(idbuf), "%u", outb[i].id);
      else snprintf(idbuf, sizeof(idbuf), "%u!len%zu", outb[i].id, (size_t) buf->len);
      outb[i] = outb[--nout];
    } else strcpy(idbuf, "?unknown-pointer");
  } else if (pending_null >= 0) {
    if (buf->len == pending_null_len) snprintf(idbuf, sizeof(idbuf), "%ld", pending_null);
    else snprintf(idbuf, sizeof(idbuf), "%ld!len%zu", pending_null, (size_t) buf->len);
    pending_null = -1;
  } else if (buf->len != 0) strcpy(idbuf, "-!len");
  if (!quiet) {
    printf("cb read %zd buf=%s ", nread, idbuf);
    if (nread > 256) {                       /* large read: length and Adler-32 instead of the bytes */
      unsigned a = 1, b = 0;
      for (ssize_t i = 0; i < nread; i++) { a = (a + (unsigned char) buf->base[i]) % 65521u; b = (b + a) % 65521u; }
      printf("%zd:%08x", nread, (b << 16) | a);
    } else if (nread > 0) { for (ssize_t i = 0; i < nread; i++) printf("%02x", (unsigned char) buf->base[i]); }
    else printf("-");
    printf(" g=%d\n", who);
  }
  if (buf->base != NULL && strcmp(idbuf, "?unknown-pointer")) free(buf->base);
  accept_pending();
  k = ncb++;
  if (!quiet && k < MAXK && script[k]) {
    char* copy = strdup(script[k]); char* save; char* w;
    for (w = strtok_r(copy, " \n", &save); w; w = strtok_r(NULL, " \n", &save)) do_op(w, 1);
    free(copy);
  }
}

/* four distinct callback pairs: every successful uv_read_start registers the next pair, each callback
 * reports which pair it belongs to (a stale pair being invoked after stop+start is visible) */
#define PAIR(n) \
  static void alloc_cb_##n(uv_handle_t* hd, size_t sg, uv_buf_t* b) { alloc_impl(n, hd, sg, b); } \
  static void read_cb_##n(uv_stream_t* st, ssize_t nr, const uv_buf_t* b) { read_impl(n, st, nr, b); }
PAIR(0) PAIR(1) PAIR(2) PAIR(3)
static const uv_alloc_cb alloc_cbs[4] = { alloc_cb_0, alloc_cb_1, alloc_cb_2, alloc_cb_3 };
static const uv_read_cb read_cbs[4] = { read_cb_0, read_cb_1, read_cb_2, read_cb_3 };

/* ------------------------------------------------------------------ ops */
static void wait_ready(void) {
  struct pollfd p = { sfd, POLLIN, 0 };
  if (sfd >= 0 && !closing) syscall(SYS_poll, &p, 1, 200);
}

static void peer_write(size_t n, int with_fd) {
  unsigned char* data = malloc(n ? n : 1);
  struct iovec v = { data, n };
  struct msghdr mh; char ctl[CMSG_SPACE(sizeof(int))]; int sp[2] = { -1, -1 };
  ssize_t r;
  if (peerfd < 0 || peer_shut || closing || n == 0) { printf("#ignored\n"); free(data); return; }
  for (size_t i = 0; i < n; i++) data[i] = pat(pos + i);
  memset(&mh, 0, sizeof(mh)); mh.msg_iov = &v; mh.msg_iovlen = 1;
  if (with_fd) {
    struct cmsghdr* c;
    if (socketpair(AF_UNIX, SOCK_STREAM, 0, sp)) exit(3);
    memset(ctl, 0, sizeof(ctl));
    mh.msg_control = ctl; mh.msg_controllen = sizeof(ctl);
    c = CMSG_FIRSTHDR(&mh); c->cmsg_level = SOL_SOCKET; c->cmsg_type = SCM_RIGHTS; c->cmsg_len = CMSG_LEN(sizeof(int));
    memcpy(CMSG_DATA(c), &sp[0], sizeof(int));
  }
  r = syscall(SYS_sendmsg, peerfd, &mh, MSG_NOSIGNAL | MSG_DONTWAIT);
  if (r != (ssize_t) n) { printf("#harness-env-failure peer write returned %zd errno %d\n", r, errno); fflush(stdout); _exit(3); }
  if (with_fd) { close(sp[0]); close(sp[1]); }
  pos += n;
  free(data);
  wait_ready();
}

/* a write too large for the socket buffers (the peer never reads): POLLOUT stays armed, so the
 * watcher stays registered after UV_EOF / uv_read_stop.  Write side only; not part of the diff. */
static void wbig_cb(uv_write_t* req, int status) {
  printf("#wcb %d\n", status);
  free(req->data); free(req);
}
static void do_wbig(void) {
  size_t n = h.s.type == UV_TCP ? (32u << 20) : (2u << 20);
  uv_write_t* req = malloc(sizeof(*req));
  uv_buf_t b;
  int rc;
  req->data = calloc(1, n);
  b = uv_buf_init(req->data, (unsigned) n);
  /* TCP: a peer that closed, then receives data, answers RST, and an RST discards what is still queued
   * towards us - bytes the kernel never delivers to the descriptor.  No wbig after a full close there. */
  if (h.s.type == UV_TCP && peerfd < 0) { printf("#ignored\n"); free(req->data); free(req); return; }
  wbig_done = 1;
  rc = closing ? UV_EBADF : uv_write(req, &h.s, &b, 1, wbig_cb);
  printf("#wbig %d wqs=%zu\n", rc, closing ? (size_t) 0 : uv_stream_get_write_queue_size(&h.s));
  if (rc != 0) { free(req->data); free(req); }
}

static void do_op(char* w, int in_script) {
  (void) in_script;
  if (!strcmp(w, "start")) {
    int rc = uv_read_start(&h.s, alloc_cbs[starts_ok % 4], read_cbs[starts_ok % 4]);
    if (rc == 0) starts_ok++;
    printf("ret start %d\n", rc);
  }
  else if (!strcmp(w, "stop")) printf("ret stop %d\n", uv_read_stop(&h.s));
  else if (!strcmp(w, "close")) {
    int rc = -1;
    if (!closing) { closing = 1; uv_close((uv_handle_t*) &h.s, close_cb); rc = 0; }
    printf("ret close %d\n", rc);
  } else printf("bad-op\n");
}

static int tcp_listener(struct sockaddr_in* a) {
  int l = socket(AF_INET, SOCK_STREAM, 0); socklen_t al = sizeof(*a);
  memset(a, 0, sizeof(*a)); a->sin_family = AF_INET; a->sin_addr.s_addr = htonl(INADDR_LOOPBACK);
  if (l < 0 || bind(l, (struct sockaddr*) a, sizeof(*a)) || listen(l, 4) || getsockname(l, (struct sockaddr*) a, &al)) { perror("listener"); exit(3); }
  return l;
}

static void do_open(const char* kind) {
  int fds[2], l; struct sockaddr_in a;
  uv_loop_init(&loop);
  uv_timer_init(&loop, &keepalive);
  uv_timer_start(&keepalive, (uv_timer_cb) abort, 1000000000, 0);
  if (!strcmp(kind, "pipe") || !strcmp(kind, "ipc")) {
    if (socketpair(AF_UNIX, SOCK_STREAM, 0, fds)) exit(3);
    is_ipc = !strcmp(kind, "ipc");
    uv_pipe_init(&loop, &h.p, is_ipc);
    if (uv_pipe_open(&h.p, fds[0])) exit(3);
    peerfd = fds[1];
  } else if (!strcmp(kind, "tcp")) {
    l = tcp_listener(&a);
    fds[0] = socket(AF_INET, SOCK_STREAM, 0);
    if (connect(fds[0], (struct sockaddr*) &a, sizeof(a))) exit(3);
    peerfd = accept(l, NULL, NULL); close(l);
    uv_tcp_init(&loop, &h.t);
    if (uv_tcp_open(&h.t, fds[0])) exit(3);
  } else { printf("bad-op\n"); return; }
  if (uv_fileno((uv_handle_t*) &h.s, &sfd)) exit(3);
  { /* room for several hundred KiB queued towards the stream without the peer blocking */
    int sz = 8 << 20;
    setsockopt(peerfd, SOL_SOCKET, SO_SNDBUFFORCE, &sz, sizeof(sz));
    setsockopt(sfd, SOL_SOCKET, SO_RCVBUFFORCE, &sz, sizeof(sz));
  }
  opened = 1;
  printf("opened\n");
}

int main(void) {
  static char line[1 << 16];
  signal(SIGPIPE, SIG_IGN);
  setvbuf(stdout, NULL, _IOFBF, 1 << 16);
  while (fgets(line, sizeof(line), stdin)) {
    size_t L = strlen(line);
    while (L && (line[L - 1] == '\n' || line[L - 1] == ' ')) line[--L] = 0;
    if (!L) continue;
    if (!strncmp(line, "open ", 5)) { char k[32]; sscanf(line + 5, "%31s", k); do_open(k); continue; }
    if (!opened) { printf("bad-op\n"); continue; }
    if (!strncmp(line, "env ", 4) || !strncmp(line, "allocs ", 7)) {
      int is_env = line[0] == 'e'; char* save; char* w;
      for (w = strtok_r(line + (is_env ? 4 : 7), " ", &save); w; w = strtok_r(NULL, " ", &save)) {
        if (is_env) {
          if ((w[0] != 'k' && w[0] != 'e' && w[0] != 'n') || envt >= MAXENV) { printf("bad-op\n"); break; }
          env[envt].kind = w[0]; env[envt].v = w[0] == 'n' ? 0 : atol(w + 1); envt++;
        } else {
          if (nallocs >= MAXENV) { printf("bad-op\n"); break; }
          if (!strcmp(w, "0")) allocs[nallocs].kind = '0';
          else if (!strcmp(w, "z")) allocs[nallocs].kind = 'z';
          else if (!strcmp(w, "u")) allocs[nallocs].kind = 'u';
          else if (w[0] == 'b' && atol(w + 1) > 0) { allocs[nallocs].kind = 'b'; allocs[nallocs].v = atol(w + 1); }
          else if (atol(w) > 0) { allocs[nallocs].kind = 'n'; allocs[nallocs].v = atol(w); }
          else { printf("bad-op\n"); break; }
          nallocs++;
        }
      }
    } else if (!strncmp(line, "script ", 7)) {
      unsigned k; int p;
      if (sscanf(line + 7, "%u %n", &k, &p) >= 1 && k < MAXK) { free(script[k]); script[k] = strdup(line + 7 + p); }
      else printf("bad-op\n");
    } else if (!strcmp(line, "run") || !strncmp(line, "runx ", 5)) {
      if (line[3] == 'x' && sscanf(line + 5, "%u %u", &strip_mask, &add_mask) != 2) { printf("bad-op\n"); continue; }
      printf("op run\n");
      in_run = 1;
      uv_run(&loop, UV_RUN_NOWAIT);
      in_run = 0;
    } else if (!strcmp(line, "drain")) {
      /* run the loop (each iteration is an ordinary `op run`) until the stream makes no more progress: two
       * consecutive iterations without alloc_cb, read_cb or a read/recvmsg call, with a real poll() in between so
       * that bytes still in flight on a loopback connection have arrived.  `#drained` tells the monitor that whatever
       * reading the library still owes (pending bytes, the terminal UV_EOF/error) has had its chance. */
      unsigned it = 0, idle = 0, capped = 0;
      while (idle < 2) {
        unsigned a0 = nalloc, c0 = ncb, r0 = nsys;
        if (it >= 8192) { capped = 1; break; }
        printf("op run\n");
        in_run = 1;
        uv_run(&loop, UV_RUN_NOWAIT);
        in_run = 0;
        it++;
        if (a0 == nalloc && c0 == ncb && r0 == nsys) {
          idle++;
          /* something is still owed by the kernel (bytes, or the end of the stream): let it arrive */
          if (idle < 2 && (consumed < pos || (peer_shut && !saw_read0))) wait_ready();
        } else idle = 0;
      }
      printf("#drained %u capped=%u\n", it, capped);
    } else if (!strncmp(line, "peer ", 5)) {
      char k[16]; unsigned long n = 0;
      int c = sscanf(line + 5, "%15s %lu", k, &n);
      if (c == 2 && (!strcmp(k, "w") || (!strcmp(k, "fd")))) {
        printf("op peer %s %lu\n", k, n);
        if (!strcmp(k, "fd") && h.s.type != UV_NAMED_PIPE) printf("#ignored\n"); else peer_write(n, !strcmp(k, "fd"));
      } else if (c == 1 && !strcmp(k, "shut")) {
        printf("op peer shut\n");
        if (peerfd >= 0 && !peer_shut) { shutdown(peerfd, SHUT_WR); peer_shut = 1; wait_ready(); }
      } else if (c == 1 && !strcmp(k, "close") && h.s.type == UV_TCP && wbig_done) {
        /* TCP: closing with unread data in the peer's receive queue sends RST instead of FIN (see do_wbig):
         * half-close instead; Unix sockets never discard data already queued to the other side */
        printf("op peer shut\n#downgraded-close\n");
        if (peerfd >= 0 && !peer_shut) { shutdown(peerfd, SHUT_WR); peer_shut = 1; wait_ready(); }
      } else if (c == 1 && !strcmp(k, "close")) {
        printf("op peer close\n");
        if (peerfd >= 0) { close(peerfd); peerfd = -1; peer_shut = 1; wait_ready(); }
      } else printf("bad-op\n");
    } else if (!strcmp(line, "wbig")) {
      printf("op wbig\n");
      do_wbig();
    } else if (!strcmp(line, "end")) {
      break;
    } else if (!strcmp(line, "start") || !strcmp(line, "stop") || !strcmp(line, "close")) {
      printf("op %s\n", line);
      do_op(line, 0);
    } else printf("bad-op\n");
  }
  printf("#outstanding %u\n", nout + (pending_null >= 0));
  printf("#accepted %u\n", accepted);
  printf("#envleft %u\n", envt - envh);
  fflush(stdout);
  /* tear down quietly */
  quiet = 1;
  if (opened) {
    if (!closing) { closing = 1; uv_close((uv_handle_t*) &h.s, NULL); }
    uv_close((uv_handle_t*) &keepalive, NULL);
    uv_run(&loop, UV_RUN_DEFAULT);
    uv_loop_close(&loop);
    for (unsigned i = 0; i < nout; i++) free(outb[i].p);
    if (peerfd >= 0) close(peerfd);
  }
  return 0;
}
