/* C08 — secondary, unscheduled run: real threads, real loops sharing the pool, random cancels.
 * Feeds only the monitors (the property text evaluated on what the real code did).
 * threadpool.c is included unmodified so that slow-I/O items with an observable work function
 * can be submitted the way uv_getaddrinfo does (uv__req_init + uv__work_submit(SLOW_IO)).
 *
 * usage: c08_real <nloops> <items-per-loop> <seed>      (UV_THREADPOOL_SIZE from the environment)
 *        c08_real hang <0=getnameinfo|1=getaddrinfo> <flags>
 *   hang mode: the libc resolver calls are interposed and block until released by the harness; more lookups than
 *   pool threads are submitted with the given flags, then a uv_queue_work and a uv_fs_stat request.  Monitors: at
 *   most (n+1)/2 lookups hang at once, and (n >= 2) the other requests complete while the lookups hang.
 */
#include "threadpool.c"
#include <stdatomic.h>
#include <stdio.h>
#include <string.h>
#include <unistd.h>
#include <netinet/in.h>
#include <netdb.h>
#include <dlfcn.h>
#include <semaphore.h>

enum { K_CPU, K_SLOW, K_FS, K_RANDOM, K_GAI, K_GNI, NKINDS };
#define MAXL 4
#define MAXI 4096

struct item {
  union { uv_work_t work; uv_fs_t fs; uv_random_t rnd; uv_getaddrinfo_t gai; uv_getnameinfo_t gni; uv_req_t req; } u;
  int id, kind, loop, submitted;
  atomic_int works;
  atomic_int cancel0;
  int dones, status, cancelbusy, payload;
  char buf[16];
};
struct lctx {
  uv_loop_t loop;
  pthread_t pt;
  int idx, quota, submitted, reported, force_kind;
  unsigned long long rng;
  struct item* items;
};

static struct lctx L[MAXL];
static pthread_barrier_t start_barrier;
static unsigned expect_threads;
static int nloops;
static atomic_int slow_now, slow_max, bad, total_cancel0, total_busy, total_done;
static unsigned cap;

#define FAIL(...) do { printf("VIOLATION " __VA_ARGS__); printf("\n"); atomic_fetch_add(&bad, 1); } while (0)

static unsigned rnd(struct lctx* c) {
  c->rng = c->rng * 6364136223846793005ULL + 1442695040888963407ULL;
  return (unsigned) (c->rng >> 33);
}

static int on_loop_thread(void) {
  int i;
  for (i = 0; i < nloops; i++)
    if (pthread_equal(pthread_self(), L[i].pt)) return 1;
  return 0;
}

static void work_common(struct item* it) {
  if (atomic_fetch_add(&it->works, 1) != 0) FAIL("work-twice item %d.%d", it->loop, it->id);
  if (on_loop_thread()) FAIL("work-on-loop-thread item %d.%d", it->loop, it->id);
  if (atomic_load(&it->cancel0)) FAIL("work-after-cancel-0 item %d.%d", it->loop, it->id);
  if (it->kind == K_SLOW) {
    int now = atomic_fetch_add(&slow_now, 1) + 1, m = atomic_load(&slow_max);
    while (now > m && !atomic_compare_exchange_weak(&slow_max, &m, now)) {}
    if ((unsigned) now > cap) FAIL("slow-cap %d slow work functions at once, cap %u", now, cap);
  }
  usleep(it->id % 7 * 30);
  it->payload = it->id * 7 + 1;
  if (it->kind == K_SLOW) atomic_fetch_sub(&slow_now, 1);
}

static void work_cb(uv_work_t* req) { work_common(container_of(req, struct item, u.work)); }

static void submit_one(struct lctx* c);
static void try_cancel(struct lctx* c, struct item* it);

static void done_common(struct item* it, int status) {
  struct lctx* c = &L[it->loop];
  int ecanceled = (it->kind == K_GAI || it->kind == K_GNI) ? UV_EAI_CANCELED : UV_ECANCELED;
  int hook = it->kind == K_CPU || it->kind == K_SLOW;
  if (!pthread_equal(pthread_self(), c->pt)) FAIL("done-on-wrong-thread item %d.%d", it->loop, it->id);
  if (++it->dones != 1) FAIL("done-twice item %d.%d", it->loop, it->id);
  it->status = status;
  if (atomic_load(&it->cancel0)) {
    if (status != ecanceled) FAIL("cancel-0-status item %d.%d kind %d status %d", it->loop, it->id, it->kind, status);
    if (hook && atomic_load(&it->works) != 0) FAIL("cancel-0-but-ran item %d.%d", it->loop, it->id);
  } else {
    if (status != 0) FAIL("status item %d.%d kind %d status %d without successful cancel", it->loop, it->id, it->kind, status);
    if (hook && atomic_load(&it->works) != 1) FAIL("done-without-work item %d.%d", it->loop, it->id);
    if (hook && it->payload != it->id * 7 + 1) FAIL("work-effects-not-visible item %d.%d", it->loop, it->id);
  }
  if (it->kind == K_FS) uv_fs_req_cleanup(&it->u.fs);
  c->reported++;
  atomic_fetch_add(&total_done, 1);
  if (c->submitted < c->quota) submit_one(c);
  if (c->submitted < c->quota && rnd(c) % 2) submit_one(c);
  if (rnd(c) % 3 == 0 && c->submitted > 0) try_cancel(c, &c->items[rnd(c) % c->submitted]);
}

static void after_cb(uv_work_t* req, int st) { done_common(container_of(req, struct item, u.work), st); }
static void fs_cb(uv_fs_t* req) { done_common(container_of(req, struct item, u.fs), req->result < 0 ? (int) req->result : 0); }
static void rnd_cb(uv_random_t* req, int st, void* buf, size_t n) { (void) buf; (void) n; done_common(container_of(req, struct item, u.rnd), st); }
static void gai_cb(uv_getaddrinfo_t* req, int st, struct addrinfo* res) { if (res) uv_freeaddrinfo(res); done_common(container_of(req, struct item, u.gai), st); }
static void gni_cb(uv_getnameinfo_t* req, int st, const char* h, const char* s) { (void) h; (void) s; done_common(container_of(req, struct item, u.gni), st); }

static void try_cancel(struct lctx* c, struct item* it) {
  int r;
  if (!it->submitted || it->dones) return;      /* uv_cancel is only valid before the callback */
  r = uv_cancel(&it->u.req);
  if (r == 0) {
    atomic_store(&it->cancel0, 1);
    atomic_fetch_add(&total_cancel0, 1);
    if ((it->kind == K_CPU || it->kind == K_SLOW) && atomic_load(&it->works) != 0)
      FAIL("cancel-0-after-start item %d.%d", it->loop, it->id);
  } else if (r == UV_EBUSY) {
    it->cancelbusy = 1;
    atomic_fetch_add(&total_busy, 1);
  } else {
    FAIL("cancel-returned %d item %d.%d", r, it->loop, it->id);
  }
  (void) c;
}

static void submit_one(struct lctx* c) {
  struct item* it = &c->items[c->submitted];
  unsigned before = c->loop.active_reqs.count;
  /* request storage is whatever the application had there (stack / malloc / a reused request): never zeroed */
  memset(&it->u, 0xAB, sizeof(it->u));
  int r = 0;
  it->id = c->submitted; it->loop = c->idx; it->kind = rnd(c) % 10 < 6 ? rnd(c) % 2 : 2 + rnd(c) % 4;
  if (c->force_kind >= 0) it->kind = c->force_kind;
  switch (it->kind) {
  case K_CPU: r = uv_queue_work(&c->loop, &it->u.work, work_cb, after_cb); break;
  case K_SLOW:
    uv__req_init(&c->loop, &it->u.work, UV_WORK);
    it->u.work.loop = &c->loop; it->u.work.work_cb = work_cb; it->u.work.after_work_cb = after_cb;
    uv__work_submit(&c->loop, &it->u.work.work_req, UV__WORK_SLOW_IO, uv__queue_work, uv__queue_done);
    break;
  case K_FS: r = uv_fs_stat(&c->loop, &it->u.fs, "/", fs_cb); break;
  case K_RANDOM: r = uv_random(&c->loop, &it->u.rnd, it->buf, sizeof(it->buf), 0, rnd_cb); break;
  case K_GAI: {
    struct addrinfo hints;
    memset(&hints, 0, sizeof(hints));
    hints.ai_flags = AI_NUMERICHOST; hints.ai_socktype = SOCK_STREAM;
    r = uv_getaddrinfo(&c->loop, &it->u.gai, gai_cb, "127.0.0.1", NULL, &hints);
    break;
  }
  case K_GNI: {
    struct sockaddr_in a;
    uv_ip4_addr("127.0.0.1", 80, &a);
    r = uv_getnameinfo(&c->loop, &it->u.gni, gni_cb, (struct sockaddr*) &a, NI_NUMERICHOST | NI_NUMERICSERV);
    break;
  }
  }
  if (r != 0) FAIL("submit kind %d returned %d", it->kind, r);
  if (c->loop.active_reqs.count != before + 1) FAIL("submit kind %d did not register the request", it->kind);
  it->submitted = 1;
  c->submitted++;
}

static void* loop_thread(void* arg) {
  struct lctx* c = arg;
  int i, first = c->quota < 12 ? c->quota : 12;
  pthread_barrier_wait(&start_barrier);
  for (i = 0; i < first; i++) submit_one(c);
  for (i = 0; i < first; i++)
    if (rnd(c) % 3 == 0) try_cancel(c, &c->items[rnd(c) % first]);
  /* every kind of request once more while the pool is saturated, cancelled right away (most are still queued) */
  for (i = 0; i < NKINDS && c->submitted < c->quota; i++) {
    c->force_kind = i;
    submit_one(c);
    c->force_kind = -1;
    try_cancel(c, &c->items[c->submitted - 1]);
  }
  while (uv_loop_alive(&c->loop)) {
    uv_run(&c->loop, UV_RUN_ONCE);
    if (c->reported < c->submitted && !uv_loop_alive(&c->loop))
      FAIL("loop-not-alive loop %d with %d requests outstanding", c->idx, c->submitted - c->reported);
  }
  if (c->reported != c->submitted) FAIL("uv_run returned with %d of %d reported on loop %d", c->reported, c->submitted, c->idx);
  if (c->loop.active_reqs.count != 0) FAIL("active_reqs %u after all callbacks", c->loop.active_reqs.count);
  return NULL;
}


/* ------------------------------------------------------------------ hang mode: interposed resolver */
static atomic_int hang_on, hang_now, hang_max, hang_calls;
static sem_t hang_gate;

static void hang_here(void) {
  int now, m;
  if (!atomic_load(&hang_on)) return;
  now = atomic_fetch_add(&hang_now, 1) + 1;
  m = atomic_load(&hang_max);
  while (now > m && !atomic_compare_exchange_weak(&hang_max, &m, now)) {}
  atomic_fetch_add(&hang_calls, 1);
  sem_wait(&hang_gate);
  atomic_fetch_sub(&hang_now, 1);
}

static int (*real_getnameinfo)(const struct sockaddr*, socklen_t, char*, socklen_t, char*, socklen_t, int);
static int (*real_getaddrinfo)(const char*, const char*, const struct addrinfo*, struct addrinfo**);
__attribute__((constructor)) static void resolve_real(void) {      /* before any thread exists */
  real_getnameinfo = dlsym(RTLD_NEXT, "getnameinfo");
  real_getaddrinfo = dlsym(RTLD_NEXT, "getaddrinfo");
}

int getnameinfo(const struct sockaddr* sa, socklen_t salen, char* host, socklen_t hostlen, char* serv,
                socklen_t servlen, int flags) {
  hang_here();
  return real_getnameinfo(sa, salen, host, hostlen, serv, servlen, flags);
}

int getaddrinfo(const char* node, const char* service, const struct addrinfo* hints, struct addrinfo** res) {
  hang_here();
  return real_getaddrinfo(node, service, hints, res);
}

static int h_lookups_done, h_work_ran, h_work_done, h_fs_done, h_timeout, h_settled;
static void h_gni_cb(uv_getnameinfo_t* req, int st, const char* h, const char* s) { (void) req; (void) st; (void) h; (void) s; h_lookups_done++; }
static void h_gai_cb(uv_getaddrinfo_t* req, int st, struct addrinfo* res) { (void) req; (void) st; if (res) uv_freeaddrinfo(res); h_lookups_done++; }
static void h_work(uv_work_t* req) { (void) req; h_work_ran = 1; }
static void h_after(uv_work_t* req, int st) { (void) req; (void) st; h_work_done = 1; }
static void h_fs_cb(uv_fs_t* req) { uv_fs_req_cleanup(req); h_fs_done = 1; }
static void h_guard_cb(uv_timer_t* t) { (void) t; h_timeout = 1; }
static void h_settle_cb(uv_timer_t* t) { (void) t; h_settled = 1; }

static int hang_main(int which, int flags) {
  uv_loop_t loop;
  uv_getnameinfo_t* gni;
  uv_getaddrinfo_t* gai;
  uv_work_t work;
  uv_fs_t fs;
  uv_timer_t guard, settle;
  struct sockaddr_in a;
  struct addrinfo hints;
  int i, m, r, n, hcap;
  alarm(60);
  if (uv_loop_init(&loop)) return 3;
  uv_once(&once, init_once);
  n = (int) nthreads;
  hcap = (n + 1) / 2;
  m = n + 2;
  sem_init(&hang_gate, 0, 0);
  atomic_store(&hang_on, 1);
  gni = calloc(m, sizeof(*gni));
  gai = calloc(m, sizeof(*gai));
  uv_ip4_addr("127.0.0.1", 80, &a);
  memset(&hints, 0, sizeof(hints));
  hints.ai_flags = flags;
  hints.ai_socktype = SOCK_STREAM;
  for (i = 0; i < m; i++) {
    r = which == 0 ? uv_getnameinfo(&loop, &gni[i], h_gni_cb, (struct sockaddr*) &a, flags)
                   : uv_getaddrinfo(&loop, &gai[i], h_gai_cb, "127.0.0.1", "80", &hints);
    if (r != 0) { printf("bad submit lookup returned %d\n", r); return 3; }
  }
  if (uv_queue_work(&loop, &work, h_work, h_after)) return 3;
  if (uv_fs_stat(&loop, &fs, "/", h_fs_cb)) return 3;
  uv_timer_init(&loop, &guard);
  uv_timer_init(&loop, &settle);
  uv_timer_start(&guard, h_guard_cb, 2500, 0);
  if (n >= 2)
    while (!(h_work_done && h_fs_done) && !h_timeout) uv_run(&loop, UV_RUN_ONCE);
  uv_timer_start(&settle, h_settle_cb, 300, 0);     /* let every free worker pick up what it can */
  while (!h_settled) uv_run(&loop, UV_RUN_ONCE);
  if (n >= 2 && !(h_work_done && h_fs_done))
    FAIL("fast-starved which=%d flags=%d n=%d: uv_queue_work done=%d uv_fs_stat done=%d while %d lookups hang in the resolver",
         which, flags, n, h_work_done, h_fs_done, atomic_load(&hang_now));
  if (atomic_load(&hang_max) > hcap)
    FAIL("lookup-cap which=%d flags=%d n=%d: %d lookups occupy pool threads at once, cap %d",
         which, flags, n, atomic_load(&hang_max), hcap);
  if (h_lookups_done != 0) FAIL("lookup-done-early %d lookup callbacks before the resolver returned", h_lookups_done);
  atomic_store(&hang_on, 0);
  for (i = 0; i < m; i++) sem_post(&hang_gate);
  uv_timer_stop(&guard);
  uv_close((uv_handle_t*) &guard, NULL);
  uv_close((uv_handle_t*) &settle, NULL);
  uv_run(&loop, UV_RUN_DEFAULT);
  if (h_lookups_done != m || !h_work_done || !h_fs_done)
    FAIL("hang-mode completion lookups=%d/%d work=%d fs=%d", h_lookups_done, m, h_work_done, h_fs_done);
  if (uv_loop_close(&loop)) FAIL("uv_loop_close busy");
  free(gni); free(gai);
  printf("%s hang which=%d flags=%d nthreads=%d maxhang=%d cap=%d calls=%d\n", atomic_load(&bad) ? "bad" : "ok", which, flags,
         n, atomic_load(&hang_max), hcap, atomic_load(&hang_calls));
  return atomic_load(&bad) ? 1 : 0;
}

int main(int argc, char** argv) {
  int i, per, seed;
  if (argc == 4 && !strcmp(argv[1], "hang")) return hang_main(atoi(argv[2]), atoi(argv[3]));
  if (argc != 4) return 2;
  nloops = atoi(argv[1]); per = atoi(argv[2]); seed = atoi(argv[3]);
  if (nloops < 1 || nloops > MAXL || per < 1 || per > MAXI) return 2;
  alarm(120);                                   /* a deadlock shows up as SIGALRM */
  for (i = 0; i < nloops; i++) {
    L[i].idx = i; L[i].quota = per; L[i].force_kind = -1; L[i].rng = seed * 1000003ULL + i * 7919 + 1;
    L[i].items = calloc(per, sizeof(struct item));
    if (uv_loop_init(&L[i].loop)) return 3;
  }
  /* the pool is NOT initialised here: the loop threads make the process's first submissions concurrently
   * (released together by a barrier), so the one-time initialisation is contended */
  {
    const char* v = getenv("UV_THREADPOOL_SIZE");
    unsigned n = v ? (unsigned) atoi(v) : 4;
    if (n == 0) n = 1;
    if (n > MAX_THREADPOOL_SIZE) n = MAX_THREADPOOL_SIZE;
    cap = (n + 1) / 2;
    expect_threads = n;
  }
  pthread_barrier_init(&start_barrier, NULL, nloops);
  for (i = 0; i < nloops; i++)
    if (pthread_create(&L[i].pt, NULL, loop_thread, &L[i])) return 3;
  for (i = 0; i < nloops; i++) pthread_join(L[i].pt, NULL);
  if (nthreads != expect_threads) FAIL("pool-size %u threads, UV_THREADPOOL_SIZE asks for %u", nthreads, expect_threads);
  for (i = 0; i < nloops; i++) {
    if (uv_loop_close(&L[i].loop)) FAIL("uv_loop_close busy on loop %d", i);
    free(L[i].items);
  }
  printf("%s nthreads=%u loops=%d done=%d cancel0=%d ebusy=%d maxslow=%d cap=%u\n", atomic_load(&bad) ? "bad" : "ok",
         nthreads, nloops, atomic_load(&total_done), atomic_load(&total_cancel0), atomic_load(&total_busy),
         atomic_load(&slow_max), cap);
  return atomic_load(&bad) ? 1 : 0;
}
