/* C12 real fork/exec harness (monitors on the real kernel).
 * argv: <tmpdir>            parent: line protocol on stdin
 *       child <what> ...    helper: report fd table / exit / signal / echo / pause
 * Parent fds: 0,1,2 as given; 3..8 six unlinked temp files (close-on-exec) opened BEFORE the loop exists,
 * so that every low descriptor is an identifiable file; protocol I/O on fds >= 200. */
#include "uv.h"
#include <stdio.h>
#include <stdlib.h>
#include <string.h>
#include <unistd.h>
#include <fcntl.h>
#include <errno.h>
#include <signal.h>
#include <dirent.h>
#include <sys/stat.h>
#include <sys/wait.h>
#include <sys/sysmacros.h>
#include <time.h>
#include <dlfcn.h>
#include <pthread.h>

static const char* kind(mode_t m) {
  return S_ISREG(m) ? "reg" : S_ISSOCK(m) ? "sock" : S_ISFIFO(m) ? "fifo" : S_ISCHR(m) ? "chr" : S_ISDIR(m) ? "dir" : "other";
}
/* one line per open fd: "<pfx> <fd> <kind> <dev>:<ino>[:rdev] <c|-> <accmode>" */
static int fdtable(char* buf, size_t cap, const char* pfx) {
  DIR* d = opendir("/proc/self/fd"); struct dirent* e; size_t n = 0; int fds[1024], k = 0, i, j;
  if (!d) return -1;
  while ((e = readdir(d)) != NULL) {
    int fd; if (e->d_name[0] == '.') continue;
    fd = atoi(e->d_name); if (fd == dirfd(d)) continue;
    if (k < 1024) fds[k++] = fd;
  }
  closedir(d);
  for (i = 0; i < k; i++) for (j = i + 1; j < k; j++) if (fds[j] < fds[i]) { int t = fds[i]; fds[i] = fds[j]; fds[j] = t; }
  for (i = 0; i < k; i++) {
    struct stat st; int fl, gf;
    if (fstat(fds[i], &st)) continue;
    fl = fcntl(fds[i], F_GETFD); gf = fcntl(fds[i], F_GETFL);
    n += snprintf(buf + n, cap - n, "%s %d %s %lu:%lu", pfx, fds[i], kind(st.st_mode), (unsigned long) st.st_dev, (unsigned long) st.st_ino);
    if (S_ISCHR(st.st_mode)) n += snprintf(buf + n, cap - n, ":%u.%u", major(st.st_rdev), minor(st.st_rdev));
    n += snprintf(buf + n, cap - n, " %s %s\n", (fl & FD_CLOEXEC) ? "c" : "-",
                  (gf & O_ACCMODE) == O_RDONLY ? "r" : (gf & O_ACCMODE) == O_WRONLY ? "w" : "rw");
  }
  return (int) n;
}

static int child_main(int argc, char** argv) {
  if (argc < 3) return 2;
  if (!strcmp(argv[2], "report")) {
    static char buf[1 << 16]; char cwd[1024]; int n, fd; const char* v = getenv("C12VAR");
    n = fdtable(buf, sizeof buf, "R fd");
    if (!getcwd(cwd, sizeof cwd)) strcpy(cwd, "?");
    n += snprintf(buf + n, sizeof buf - n, "R cwd %s\nR env %s\nR sid %d\nR uid %d %d\nR nenv %d\n", cwd, v ? v : "(unset)",
                  getsid(0) == getpid(), (int) getuid(), (int) getgid(), getenv("PATH") != NULL);
    { /* exact environ, argv (hex, so that any byte survives the line protocol), image, session / group */
      extern char** environ; char** e; int a; char exe[1024]; ssize_t el = readlink("/proc/self/exe", exe, sizeof exe - 1);
      exe[el > 0 ? el : 0] = 0;
      n += snprintf(buf + n, sizeof buf - n, "R proc %d %d %d\nR exe %s\n", (int) getpid(), (int) getsid(0), (int) getpgrp(), exe);
      for (e = environ; e && *e; e++) { const char* c; n += snprintf(buf + n, sizeof buf - n, "R environ x");
        for (c = *e; *c && n < (int) sizeof buf - 8; c++) n += snprintf(buf + n, sizeof buf - n, "%02x", (unsigned char) *c);
        n += snprintf(buf + n, sizeof buf - n, "\n"); }
      for (a = 0; a < argc; a++) { const char* c; if (a >= 1 && a <= 4) continue;
        n += snprintf(buf + n, sizeof buf - n, "R argv %d x", a);
        for (c = argv[a]; *c && n < (int) sizeof buf - 8; c++) n += snprintf(buf + n, sizeof buf - n, "%02x", (unsigned char) *c);
        n += snprintf(buf + n, sizeof buf - n, "\n"); }
    }
    if (argv[3][0] != '/' || !strncmp(argv[3], "/dev", 4) || !strstr(argv[3], "/c12spawn/")) return 3;   /* only ever our own tmp dir */
    fd = open(argv[3], O_WRONLY | O_CREAT | O_TRUNC | O_NOFOLLOW, 0600);
    if (fd < 0) return 3;
    if (write(fd, buf, n) != n) return 3;
    close(fd);
    return argc > 4 ? atoi(argv[4]) : 0;
  }
  if (!strcmp(argv[2], "exit")) { if (argc > 4) usleep(atoi(argv[4]) * 1000); _exit(atoi(argv[3])); }
  if (!strcmp(argv[2], "sig")) { if (argc > 4) usleep(atoi(argv[4]) * 1000); kill(getpid(), atoi(argv[3])); pause(); _exit(99); }
  if (!strcmp(argv[2], "pause")) { for (;;) pause(); }
  if (!strcmp(argv[2], "echo")) {
    char b[256]; ssize_t r;
    while ((r = read(0, b, sizeof b)) > 0) if (write(1, b, r) != r) return 4;
    return 7;
  }
  return 2;
}

static FILE *in, *out;
/* fork interposed (static link: this definition wins inside libuv): scripted failure, else the real one */
static int fork_fail_errno;
pid_t fork(void) {
  static pid_t (*real_fork)(void);
  if (fork_fail_errno) { errno = fork_fail_errno; fork_fail_errno = 0; return -1; }
  if (!real_fork) real_fork = (pid_t (*)(void)) dlsym(RTLD_NEXT, "fork");
  return real_fork();
}
/* dirty heap: every block libuv allocates is filled with a chosen byte */
static int fill_byte = 0xA5;
static void* d_malloc(size_t n) { void* p = malloc(n); if (p) memset(p, fill_byte, n); return p; }
static void* d_realloc(void* p, size_t n) { return realloc(p, n); }
static void* d_calloc(size_t a, size_t b) { return calloc(a, b); }
static void d_free(void* p) { free(p); }
static int count_fds(void) { int n = 0, fd; for (fd = 0; fd < 1024; fd++) if (fcntl(fd, F_GETFD) != -1) n++; return n; }
/* every uv_spawn of this harness: the calling thread's signal mask must come back unchanged */
static int spawn_checked(uv_loop_t* l, uv_process_t* p, const uv_process_options_t* o) {
  sigset_t m0, m1; int rc, i;
  pthread_sigmask(SIG_SETMASK, NULL, &m0);
  rc = uv_spawn(l, p, o);
  pthread_sigmask(SIG_SETMASK, NULL, &m1);
  for (i = 1; i < 65; i++) if (sigismember(&m0, i) != sigismember(&m1, i)) {
    fprintf(out, "MASK-CHANGED sig %d now %s (uv_spawn returned %d)\n", i, sigismember(&m1, i) ? "blocked" : "unblocked", rc);
    pthread_sigmask(SIG_SETMASK, &m0, NULL);   /* keep the rest of the run meaningful */
    break;
  }
  return rc;
}
static uv_loop_t* loop;
static char self[1024], tmpdir[900];
#define MAXP 64
static uv_process_t procs[MAXP]; static int ncb, nprocs; static pid_t pids[MAXP];
static int cbcount[MAXP];

static void on_close(uv_handle_t* h) { (void) h; }
/* the application's own SIGCHLD watchers (0: used one-shot, 1: normal), sharing the signum with libuv's child_watcher */
static uv_signal_t usig[2]; static int usig_cbs[2]; static const char* mid_script;
static void usig_cb(uv_signal_t* h, int signum) { (void) signum; usig_cbs[h - usig]++; }
static void apply_script(const char* sc) {
  for (; sc && *sc; sc++) switch (*sc) {
    case 'o': uv_signal_start_oneshot(&usig[0], usig_cb, SIGCHLD); break;
    case 'n': uv_signal_start(&usig[1], usig_cb, SIGCHLD); break;
    case 'O': uv_signal_stop(&usig[0]); break;
    case 'N': uv_signal_stop(&usig[1]); break;
    default: break;
  }
}
static void exit_cb(uv_process_t* p, int64_t status, int sig) {
  int id = (int) (p - procs), st = 0; pid_t r = waitpid(pids[id], &st, WNOHANG);
  ncb++; cbcount[id]++;
  if (ncb == 1 && mid_script) { apply_script(mid_script); mid_script = NULL; }
  fprintf(out, "cb %d %d %d wp=%s active=%d\n", id, (int) status, sig,
          r == -1 && errno == ECHILD ? "ECHILD" : (r == 0 ? "RUNNING" : (r > 0 ? "REAPABLE" : "ERR")), uv_is_active((uv_handle_t*) p));
  uv_close((uv_handle_t*) p, on_close);
}
static void zombies(void) {
  int st; pid_t r = waitpid(-1, &st, WNOHANG);
  fprintf(out, "zombie %s\n", r == -1 && errno == ECHILD ? "ECHILD" : (r == 0 ? "CHILD-RUNNING" : (r > 0 ? "ZOMBIE-REAPED" : "ERR")));
}
static void run_until(int want, int ms) {
  struct timespec t0, t; clock_gettime(CLOCK_MONOTONIC, &t0);
  for (;;) {
    uv_run(loop, UV_RUN_NOWAIT);
    if (ncb >= want) break;
    clock_gettime(CLOCK_MONOTONIC, &t);
    if ((t.tv_sec - t0.tv_sec) * 1000 + (t.tv_nsec - t0.tv_nsec) / 1000000 > ms) { fprintf(out, "timeout\n"); break; }
    usleep(2000);
  }
  uv_run(loop, UV_RUN_NOWAIT);
}
/* after a timeout: do not hang in uv_run on handles whose exit_cb never came */
static void abandon(int n) {
  int i;
  for (i = 0; i < n; i++)
    if (cbcount[i] == 0 && pids[i] > 0 && !uv_is_closing((uv_handle_t*) &procs[i])) {
      kill(pids[i], SIGKILL);
      uv_close((uv_handle_t*) &procs[i], on_close);
    }
}
static void dump_parent(void) { static char b[1 << 16]; int n = fdtable(b, sizeof b, "P fd"); fwrite(b, 1, n, out); }
static void cat_report(const char* path) {
  FILE* f = fopen(path, "re"); char l[2048];
  if (!f) { fprintf(out, "R missing\n"); return; }
  while (fgets(l, sizeof l, f)) fputs(l, out);
  fclose(f); unlink(path);
}

/* layout <fail|ok> <detached 0|1> <cwd|-> <env|-> <uid|-1> <count> <slot>*   slot: i | f<fd> | pr | pw | prw */
static uv_pipe_t pipes[64];
static void do_layout(char** w, int nw) {
  uv_process_options_t opt; uv_stdio_container_t* sc; char rp[1024]; char* args[6]; char* env[3]; char envb[256];
  int fail = !strcmp(w[1], "fail"), ff = !strcmp(w[1], "forkfail"), det = atoi(w[2]), cnt = atoi(w[6]), i, rc, np = 0, uid = atoi(w[5]), fds0;
  if (nw != 7 + cnt) { fprintf(out, "bad-op\n"); return; }
  sc = calloc(cnt ? cnt : 1, sizeof *sc);
  for (i = 0; i < cnt; i++) {
    char* s = w[7 + i];
    if (s[0] == 'i') sc[i].flags = UV_IGNORE;
    else if (s[0] == 'f') { sc[i].flags = UV_INHERIT_FD; sc[i].data.fd = atoi(s + 1); }
    else if (s[0] == 'p' && np < 64) {
      uv_pipe_init(loop, &pipes[np], 0);
      sc[i].flags = UV_CREATE_PIPE | (strchr(s + 1, 'r') ? UV_READABLE_PIPE : 0) | (strchr(s + 1, 'w') ? UV_WRITABLE_PIPE : 0);
      sc[i].data.stream = (uv_stream_t*) &pipes[np++];
    } else { fprintf(out, "bad-op\n"); free(sc); return; }
  }
  snprintf(rp, sizeof rp, "%s/report", tmpdir);
  unlink(rp);
  memset(&opt, 0, sizeof opt);
  args[0] = fail ? "/nonexistent/c12-prog" : self; args[1] = "child"; args[2] = "report"; args[3] = rp; args[4] = "5"; args[5] = NULL;
  opt.file = args[0]; opt.args = args; opt.exit_cb = exit_cb; opt.stdio = sc; opt.stdio_count = cnt;
  if (det) opt.flags |= UV_PROCESS_DETACHED;
  if (strcmp(w[3], "-")) opt.cwd = w[3];
  if (strcmp(w[4], "-")) { snprintf(envb, sizeof envb, "C12VAR=%s", w[4]); env[0] = envb; env[1] = NULL; opt.env = env; }
  if (uid >= 0) {   /* the unprivileged child cannot exec the harness in its private tmp dir: let /bin/sh judge */
    static char sc2[256];
    opt.flags |= UV_PROCESS_SETUID | UV_PROCESS_SETGID; opt.uid = uid; opt.gid = uid;
    snprintf(sc2, sizeof sc2, "test \"$(id -u):$(id -g):$(id -G)\" = %d:%d:%d && exit 5 || exit 6", uid, uid, uid);
    args[0] = "/bin/sh"; args[1] = "-c"; args[2] = sc2; args[3] = NULL; opt.file = args[0];
  }
  dump_parent();
  fds0 = count_fds();
  if (ff) fork_fail_errno = EAGAIN;
  ncb = 0; nprocs = 1; cbcount[0] = 0;
  rc = spawn_checked(loop, &procs[0], &opt);
  pids[0] = rc == 0 ? uv_process_get_pid(&procs[0]) : -1;
  fprintf(out, "spawn %s active=%d\n", rc == 0 ? "0" : uv_err_name(rc), uv_is_active((uv_handle_t*) &procs[0]));
  if (rc == 0) { run_until(1, 10000); abandon(1); }
  else { int k; for (k = 0; k < 20; k++) { uv_run(loop, UV_RUN_NOWAIT); usleep(1000); } uv_close((uv_handle_t*) &procs[0], on_close); }
  for (i = 0; i < np; i++) if (!uv_is_closing((uv_handle_t*) &pipes[i])) uv_close((uv_handle_t*) &pipes[i], on_close);
  uv_run(loop, UV_RUN_DEFAULT);
  fprintf(out, "cbs %d\n", ncb);
  fork_fail_errno = 0;
  fprintf(out, "fds %d %d\n", fds0, count_fds());
  if (rc == 0) cat_report(rp);
  zombies();
  free(sc);
  fprintf(out, "end\n");
}

/* many <presleep_ms> <spec>*   spec: e<code>[:delay_ms] | s<sig>[:delay_ms] */
static void do_many(char** w, int nw) {
  int pre = atoi(w[1]), i, n = nw - 2;
  sigset_t chld, old;
  if (n > MAXP) { fprintf(out, "bad-op\n"); return; }
  ncb = 0; nprocs = n;
  /* presleep: SIGCHLD stays blocked until all children are dead, so the kernel delivers ONE signal for all */
  sigemptyset(&chld); sigaddset(&chld, SIGCHLD);
  if (pre) pthread_sigmask(SIG_BLOCK, &chld, &old);
  for (i = 0; i < n; i++) {
    uv_process_options_t opt; char* args[6]; char* s = w[2 + i]; char* d = strchr(s, ':'); char num[32]; int rc;
    memset(&opt, 0, sizeof opt);
    snprintf(num, sizeof num, "%d", atoi(s + 1));
    args[0] = self; args[1] = "child"; args[2] = s[0] == 'e' ? "exit" : "sig"; args[3] = num; args[4] = d ? d + 1 : NULL; args[5] = NULL;
    opt.file = self; opt.args = args; opt.exit_cb = exit_cb;
    cbcount[i] = 0;
    rc = spawn_checked(loop, &procs[i], &opt);
    pids[i] = rc == 0 ? uv_process_get_pid(&procs[i]) : -1;
    if (rc) fprintf(out, "spawn-error %d %s\n", i, uv_err_name(rc));
  }
  if (pre) { usleep(pre * 1000); pthread_sigmask(SIG_SETMASK, &old, NULL); }
  run_until(n, 20000);
  abandon(n);
  uv_run(loop, UV_RUN_DEFAULT);
  fprintf(out, "cbs %d\n", ncb);
  zombies();
  fprintf(out, "end\n");
}

/* chld <pre-script> <mid-script> <presleep_ms> <spec>*: like `many`, with the application's own SIGCHLD watchers
 * started/stopped before the first spawn (pre) and inside the first exit_cb (mid); script letters: o n O N - */
static void do_chld(char** w, int nw) {
  usig_cbs[0] = usig_cbs[1] = 0;
  apply_script(w[1]);
  mid_script = w[2];
  do_many(w + 2, nw - 2);      /* w[2] takes the place of the command word */
  mid_script = NULL;
  uv_signal_stop(&usig[0]); uv_signal_stop(&usig[1]);
}

static int unhex(const char* h, char* o, size_t cap) {
  size_t k = 0; if (*h == 'x') h++;
  for (; h[0] && h[1] && k + 1 < cap; h += 2) { unsigned v; if (sscanf(h, "%2x", &v) != 1) return -1; o[k++] = (char) v; }
  o[k] = 0; return (int) k;
}
static void status_lines(const char* path, const char* pfx) {     /* Uid:/Gid:/Groups: of a /proc/<pid>/status style file */
  FILE* f = fopen(path, "re"); char l[1024];
  if (!f) { fprintf(out, "%s missing\n", pfx); return; }
  while (fgets(l, sizeof l, f)) if (!strncmp(l, "Uid:", 4) || !strncmp(l, "Gid:", 4) || !strncmp(l, "Groups:", 7) ||
                                    !strncmp(l, "Cwd:", 4) || !strncmp(l, "Stat:", 5)) {
    char* q; for (q = l; *q; q++) if (*q == '\t' || *q == '\n') *q = ' ';
    fprintf(out, "%s %s\n", pfx, l);
  }
  fclose(f);
}
/* ids <flags> <uid> <gid> <cwd|->: flags = any combination of the accepted uv_process_flags bits (incl. the Windows-only
 * ones Unix accepts and ignores); credentials, session/process group and cwd as seen from inside the child.  The unprivileged child cannot exec
 * the harness in its private directory, so /bin/sh runs grep on /proc/self/status into an inherited descriptor. */
static void do_ids(char** w) {
  uv_process_options_t opt; uv_stdio_container_t sc[3]; char rp[1024]; int rf, rc;
  char* args[4] = { "sh", "-c", "grep -E '^(Uid|Gid|Groups):' /proc/self/status; echo \"Cwd: $(pwd -P)\"; echo \"Stat: $(cat /proc/self/stat)\"", NULL };
  snprintf(rp, sizeof rp, "%s/ids", tmpdir);
  rf = open(rp, O_RDWR | O_CREAT | O_TRUNC | O_CLOEXEC | O_NOFOLLOW, 0600);
  if (rf < 0) { fprintf(out, "bad-op\nend\n"); return; }
  sc[0].flags = UV_IGNORE; sc[1].flags = UV_INHERIT_FD; sc[1].data.fd = rf; sc[2].flags = UV_IGNORE;
  memset(&opt, 0, sizeof opt); opt.file = "/bin/sh"; opt.args = args; opt.exit_cb = exit_cb; opt.stdio = sc; opt.stdio_count = 3;
  opt.flags = (unsigned) atoi(w[1]) & 0xffu; opt.uid = atoi(w[2]); opt.gid = atoi(w[3]);
  if (strcmp(w[4], "-")) opt.cwd = w[4];
  status_lines("/proc/self/status", "P");
  { char cwd[1024]; fprintf(out, "P proc %d %d %d\nP cwd %s\n", (int) getpid(), (int) getsid(0), (int) getpgrp(), getcwd(cwd, sizeof cwd) ? cwd : "?"); }
  ncb = 0; nprocs = 1; cbcount[0] = 0;
  rc = spawn_checked(loop, &procs[0], &opt);
  pids[0] = rc == 0 ? uv_process_get_pid(&procs[0]) : -1;
  fprintf(out, "spawn %s active=%d pid=%d\n", rc == 0 ? "0" : uv_err_name(rc), uv_is_active((uv_handle_t*) &procs[0]), (int) pids[0]);
  if (rc == 0) { run_until(1, 10000); abandon(1); } else uv_close((uv_handle_t*) &procs[0], on_close);
  uv_run(loop, UV_RUN_DEFAULT);
  close(rf);
  status_lines(rp, "I");
  unlink(rp);
  zombies();
  fprintf(out, "end\n");
}

/* opts <flags (bits 2..7)> <cwd|-> <env: inherit | x<hex k=v>,x<hex>,... | none> <file: abs|argv0|bare> <xhexarg>*
 * `@` at the start of an env value PATH=@ stands for the directory of the harness binary. */
static void do_opts(char** w, int nw) {
  uv_process_options_t opt; char rp[1024]; char* args[64]; char* env[64]; static char store[64][512]; int ns = 0, na = 0, ne = 0, rc, i;
  char dir[1024]; char* base; extern char** environ; char** e;
  snprintf(dir, sizeof dir, "%s", self); base = strrchr(dir, '/'); *base++ = 0;
  snprintf(rp, sizeof rp, "%s/report", tmpdir); unlink(rp);
  memset(&opt, 0, sizeof opt);
  if (!strcmp(w[4], "abs")) { opt.file = self; args[na++] = self; }
  else if (!strcmp(w[4], "argv0")) { opt.file = self; args[na++] = "custom argv0"; }
  else if (!strcmp(w[4], "bare")) { opt.file = base; args[na++] = base; }
  else { fprintf(out, "bad-op\nend\n"); return; }
  args[na++] = "child"; args[na++] = "report"; args[na++] = rp; args[na++] = "5";
  for (i = 5; i < nw && na < 62 && ns < 64; i++) { unhex(w[i], store[ns], sizeof store[ns]); args[na++] = store[ns++]; }
  args[na] = NULL;
  if (strcmp(w[3], "inherit")) {
    char* tok; char* sp = NULL;
    if (strcmp(w[3], "none")) for (tok = strtok_r(w[3], ",", &sp); tok && ne < 62 && ns < 64; tok = strtok_r(NULL, ",", &sp)) {
      char tmp[512]; unhex(tok, tmp, sizeof tmp);
      if (!strncmp(tmp, "PATH=@", 6)) snprintf(store[ns], sizeof store[ns], "PATH=%s%s", dir, tmp + 6); else snprintf(store[ns], sizeof store[ns], "%s", tmp);
      env[ne++] = store[ns++];
    }
    env[ne] = NULL; opt.env = env;
  }
  opt.args = args; opt.exit_cb = exit_cb;
  opt.flags = (unsigned) atoi(w[1]) & 0xfcu;
  if (strcmp(w[2], "-")) opt.cwd = w[2];
  fprintf(out, "P proc %d %d %d\nP exe %s\nP dir %s\n", (int) getpid(), (int) getsid(0), (int) getpgrp(), self, dir);
  { char cwd[1024]; fprintf(out, "P cwd %s\n", getcwd(cwd, sizeof cwd) ? cwd : "?"); }
  for (e = environ; e && *e; e++) { const char* c; fprintf(out, "P environ x"); for (c = *e; *c; c++) fprintf(out, "%02x", (unsigned char) *c); fprintf(out, "\n"); }
  ncb = 0; nprocs = 1; cbcount[0] = 0;
  rc = spawn_checked(loop, &procs[0], &opt);
  pids[0] = rc == 0 ? uv_process_get_pid(&procs[0]) : -1;
  fprintf(out, "spawn %s active=%d pid=%d\n", rc == 0 ? "0" : uv_err_name(rc), uv_is_active((uv_handle_t*) &procs[0]), (int) pids[0]);
  if (rc == 0) { run_until(1, 10000); abandon(1); } else uv_close((uv_handle_t*) &procs[0], on_close);
  uv_run(loop, UV_RUN_DEFAULT);
  if (rc == 0) cat_report(rp);
  zombies();
  fprintf(out, "end\n");
}

/* kill <process|pid> <sig> */
static void do_kill(char** w) {
  uv_process_options_t opt; char* args[4] = { self, "child", "pause", NULL }; int rc, sig = atoi(w[2]), pid;
  memset(&opt, 0, sizeof opt); opt.file = self; opt.args = args; opt.exit_cb = exit_cb;
  ncb = 0; nprocs = 1; cbcount[0] = 0;
  rc = spawn_checked(loop, &procs[0], &opt);
  if (rc) { fprintf(out, "spawn-error %s\nend\n", uv_err_name(rc)); return; }
  pid = pids[0] = uv_process_get_pid(&procs[0]);
  uv_run(loop, UV_RUN_NOWAIT);
  fprintf(out, "probe %d\n", uv_kill(pid, 0));
  rc = !strcmp(w[1], "process") ? uv_process_kill(&procs[0], sig) : uv_kill(pid, sig);
  fprintf(out, "kill %d\n", rc);
  run_until(1, 10000);
  abandon(1);
  uv_run(loop, UV_RUN_DEFAULT);
  fprintf(out, "after %s\n", uv_err_name(uv_kill(pid, 0)));
  zombies();
  fprintf(out, "end\n");
}

/* ---- ksig: the whole range of signal numbers, judged by the kernel's own answer -------------------------------
 * A reference child is started WITHOUT libuv (fork, the same child-side preparation uv_spawn promises: default
 * dispositions 1..31, empty mask, setsid for `grp`; exec of the same program) and sent the number with kill(2)
 * itself: the errno and what happened to that child (terminated by which signal / stopped / still running) is the
 * reference.  Then a child spawned by uv_spawn is sent the same number through uv_process_kill / uv_kill(pid) /
 * uv_kill(-pid) and must show the same return value and the same fate, reported through exit_cb.
 * The victim is /bin/sleep (no sanitizer runtime, no handlers of its own), so every signal meets its default action. */
#include <sys/syscall.h>
#include <sys/resource.h>
#include <limits.h>
static const char* victim = "/bin/sleep";
static int raw_kill(int pid, int sig) { return syscall(SYS_kill, pid, sig) ? -errno : 0; }
static long ms_since(const struct timespec* t0) {
  struct timespec t; clock_gettime(CLOCK_MONOTONIC, &t);
  return (t.tv_sec - t0->tv_sec) * 1000 + (t.tv_nsec - t0->tv_nsec) / 1000000;
}
/* /proc/<pid>/status: state letter (0 if the process is gone) and the union of its pending sets */
static char proc_state(pid_t pid, unsigned long long* pend) {
  char p[64], l[512], st = 0; FILE* f; unsigned long long v;
  *pend = 0;
  snprintf(p, sizeof p, "/proc/%d/status", (int) pid);
  f = fopen(p, "re");
  if (!f) return 0;
  while (fgets(l, sizeof l, f)) {
    if (!strncmp(l, "State:", 6)) { char* q = l + 6; while (*q == ' ' || *q == '\t') q++; st = *q; }
    else if ((!strncmp(l, "SigPnd:", 7) || !strncmp(l, "ShdPnd:", 7)) && sscanf(l + 7, "%llx", &v) == 1) *pend |= v;
  }
  fclose(f);
  return st;
}
static const char* state_name(char st) {
  static char b[2];
  if (st == 'S' || st == 'R' || st == 'D' || st == 'I') return "run";
  if (st == 'T') return "stop";
  if (st == 0 || st == 'Z' || st == 'X') return "gone";
  b[0] = st; b[1] = 0; return b;
}
static int may_be_pending(unsigned long long pend, int sig) {
  /* a fatal signal is turned into a pending SIGKILL of the thread at send time (kernel/signal.c complete_signal) */
  unsigned long long m = 1ull << (SIGKILL - 1);
  if (sig >= 1 && sig <= 64) m |= 1ull << (sig - 1);
  return (pend & m) != 0;
}
struct fate { int rc; int dead; int status; int termsig; char state[8]; };
static pid_t ref_start(int grp) {
  int pfd[2]; pid_t c; char b; ssize_t r;
  if (pipe2(pfd, O_CLOEXEC)) return -1;
  c = fork();
  if (c < 0) { close(pfd[0]); close(pfd[1]); return -1; }
  if (c == 0) {
    int n; sigset_t e; char* av[3];
    for (n = 1; n < 32; n++) if (n != SIGKILL && n != SIGSTOP) signal(n, SIG_DFL);
    sigemptyset(&e); sigprocmask(SIG_SETMASK, &e, NULL);
    if (grp) setsid();
    av[0] = (char*) victim; av[1] = "300"; av[2] = NULL;
    execv(victim, av);
    b = 'x'; if (write(pfd[1], &b, 1) != 1) _exit(126);
    _exit(127);
  }
  close(pfd[1]);
  do r = read(pfd[0], &b, 1); while (r == -1 && errno == EINTR);
  close(pfd[0]);
  if (r != 0) { int st; waitpid(c, &st, 0); return -1; }       /* exec failed */
  return c;
}
/* the kernel's answer for <sig> sent to a child (grp: to the child's own process group); cached per run */
static struct fate* reference(int sig, int grp) {
  static struct { int sig, grp; struct fate f; } cache[512]; static int nc;
  struct fate* f; pid_t c; int i, st; struct timespec t0, tq; unsigned long long pend; char s;
  for (i = 0; i < nc; i++) if (cache[i].sig == sig && cache[i].grp == grp) return &cache[i].f;
  if (nc == 512) return NULL;
  c = ref_start(grp);
  if (c < 0) return NULL;
  cache[nc].sig = sig; cache[nc].grp = grp; f = &cache[nc].f; nc++;
  memset(f, 0, sizeof *f);
  f->rc = raw_kill(grp ? -c : c, sig);
  clock_gettime(CLOCK_MONOTONIC, &t0); tq = t0;
  for (;;) {
    pid_t r = waitpid(c, &st, WNOHANG);
    if (r == c) { f->dead = 1; f->status = WIFEXITED(st) ? WEXITSTATUS(st) : 0; f->termsig = WIFSIGNALED(st) ? WTERMSIG(st) : 0; return f; }
    if (f->rc != 0 || sig == 0) break;                           /* nothing was sent */
    s = proc_state(c, &pend);
    if (may_be_pending(pend, sig) || s == 'Z' || s == 'X' || s == 0) clock_gettime(CLOCK_MONOTONIC, &tq);
    else if (ms_since(&tq) >= 150) break;                        /* taken by the process 150 ms ago and it is still there */
    if (ms_since(&t0) > 10000) break;
    usleep(1000);
  }
  snprintf(f->state, sizeof f->state, "%s", state_name(proc_state(c, &pend)));
  raw_kill(c, SIGKILL);
  while (waitpid(c, &st, 0) == -1 && errno == EINTR) {}
  return f;
}
static const char* ename(int rc) { return rc == 0 ? "0" : uv_err_name(rc); }
/* ksig <process|pid|grp> <sig> */
static void do_ksig(char** w) {
  uv_process_options_t opt; char* args[3]; int rc, sig = atoi(w[2]), pid, target, grp = !strcmp(w[1], "grp");
  struct fate* f = reference(sig, grp); struct timespec t0, tq; unsigned long long pend; char s = 0;
  if (!f) { fprintf(out, "ref-error\nend\n"); return; }
  if (f->dead) fprintf(out, "ref %s term %d %d\n", ename(f->rc), f->status, f->termsig);
  else fprintf(out, "ref %s alive %s\n", ename(f->rc), f->state);
  args[0] = (char*) victim; args[1] = "300"; args[2] = NULL;
  memset(&opt, 0, sizeof opt); opt.file = victim; opt.args = args; opt.exit_cb = exit_cb;
  if (grp) opt.flags |= UV_PROCESS_DETACHED;
  ncb = 0; nprocs = 1; cbcount[0] = 0;
  rc = spawn_checked(loop, &procs[0], &opt);
  if (rc) { fprintf(out, "spawn-error %s\nend\n", uv_err_name(rc)); return; }
  pid = pids[0] = uv_process_get_pid(&procs[0]);
  target = grp ? -pid : pid;
  uv_run(loop, UV_RUN_NOWAIT);
  fprintf(out, "probe %s\n", ename(uv_kill(target, 0)));
  rc = !strcmp(w[1], "process") ? uv_process_kill(&procs[0], sig) : uv_kill(target, sig);
  fprintf(out, "kill %s\n", ename(rc));
  if (rc == 0 && f->dead) run_until(1, 10000);                   /* the kernel terminates a child for this number: wait for exit_cb */
  else {                                                         /* else: until the number is no longer pending, + 60 ms */
    clock_gettime(CLOCK_MONOTONIC, &t0); tq = t0;
    for (;;) {
      uv_run(loop, UV_RUN_NOWAIT);
      if (ncb >= 1) break;
      s = proc_state(pid, &pend);
      if (may_be_pending(pend, sig) || s == 'Z' || s == 'X' || s == 0) clock_gettime(CLOCK_MONOTONIC, &tq);
      else if (ms_since(&tq) >= 60 && (strcmp(f->state, "stop") || s == 'T' || ms_since(&tq) >= 2000)) break;
      if (ms_since(&t0) > 10000) break;
      usleep(1000);
    }
  }
  if (ncb >= 1) fprintf(out, "settled dead\n");
  else {
    fprintf(out, "settled alive %s\n", state_name(proc_state(pid, &pend)));
    fprintf(out, "cleanup\n");
    if (cbcount[0] == 0) raw_kill(pid, SIGKILL);                 /* not reaped yet: the pid is still this child's */
    run_until(1, 10000);
  }
  abandon(1);
  uv_run(loop, UV_RUN_DEFAULT);
  fprintf(out, "after %s\n", uv_err_name(uv_kill(target, 0)));
  if (f->rc != 0)                                                /* a number kill(2) refuses: also on a pid that is gone */
    fprintf(out, "dead %s %s\n", ename(uv_kill(target, sig)), ename(raw_kill(target, sig)));
  zombies();
  fprintf(out, "end\n");
}
/* kpid <self|none> <sig>: pids that are not children (only probe / refused numbers are ever sent) */
static void do_kpid(char** w) {
  int sig = atoi(w[2]), pid = !strcmp(w[1], "self") ? (int) getpid() : 0x7ffffff0;
  if (sig >= 1 && sig <= 64) { fprintf(out, "bad-op\nend\n"); return; }
  fprintf(out, "kpid %s %s\nend\n", ename(uv_kill(pid, sig)), ename(raw_kill(pid, sig)));
}

/* echo: stdin <- parent writes, stdout -> parent reads */
static uv_pipe_t pin, pout; static char got[256]; static int ngot; static uv_write_t wr;
static void alloc_cb(uv_handle_t* h, size_t s, uv_buf_t* b) { static char mem[256]; (void) h; (void) s; *b = uv_buf_init(mem, sizeof mem); }
static void read_cb(uv_stream_t* s, ssize_t n, const uv_buf_t* b) {
  if (n > 0 && ngot + n < (ssize_t) sizeof got) { memcpy(got + ngot, b->base, n); ngot += n; }
  if (ngot >= 5 && !uv_is_closing((uv_handle_t*) &pin)) uv_close((uv_handle_t*) &pin, on_close);   /* EOF for the child */
  if (n < 0) uv_close((uv_handle_t*) s, on_close);
}
static void write_cb(uv_write_t* r, int st) { (void) r; if (st) fprintf(out, "write-error %s\n", uv_err_name(st)); }
static void do_echo(void) {
  uv_process_options_t opt; uv_stdio_container_t sc[3]; char* args[4] = { self, "child", "echo", NULL }; int rc; uv_buf_t b;
  uv_pipe_init(loop, &pin, 0); uv_pipe_init(loop, &pout, 0);
  sc[0].flags = UV_CREATE_PIPE | UV_READABLE_PIPE; sc[0].data.stream = (uv_stream_t*) &pin;
  sc[1].flags = UV_CREATE_PIPE | UV_WRITABLE_PIPE; sc[1].data.stream = (uv_stream_t*) &pout;
  sc[2].flags = UV_IGNORE;
  memset(&opt, 0, sizeof opt); opt.file = self; opt.args = args; opt.exit_cb = exit_cb; opt.stdio = sc; opt.stdio_count = 3;
  ncb = 0; nprocs = 1; ngot = 0; cbcount[0] = 0;
  rc = spawn_checked(loop, &procs[0], &opt);
  if (rc) { fprintf(out, "spawn-error %s\nend\n", uv_err_name(rc)); return; }
  pids[0] = uv_process_get_pid(&procs[0]);
  b = uv_buf_init("ping\n", 5);
  uv_write(&wr, (uv_stream_t*) &pin, &b, 1, write_cb);
  uv_read_start((uv_stream_t*) &pout, alloc_cb, read_cb);
  run_until(1, 10000);
  abandon(1);
  if (!uv_is_closing((uv_handle_t*) &pin)) uv_close((uv_handle_t*) &pin, on_close);
  if (!uv_is_closing((uv_handle_t*) &pout)) uv_close((uv_handle_t*) &pout, on_close);
  uv_run(loop, UV_RUN_DEFAULT);
  got[ngot] = 0;
  fprintf(out, "echo %s\n", !strcmp(got, "ping\n") ? "ok" : "MISMATCH");
  zombies();
  fprintf(out, "end\n");
}

int main(int argc, char** argv) {
  static char line[8192]; int i; char tmpl[1024];
  if (argc >= 2 && !strcmp(argv[1], "child")) return child_main(argc, argv);
  if (argc < 2) return 2;
  snprintf(tmpdir, sizeof tmpdir, "%s", argv[1]);
  { /* every unlink/creat of this harness happens under tmpdir: insist on a private directory of the check */
    struct stat st; size_t L = strlen(tmpdir);
    if (tmpdir[0] != '/' || L < 10 || strcmp(tmpdir + L - 9, "/c12spawn") || !strncmp(tmpdir, "/dev", 4) ||
        stat(tmpdir, &st) || !S_ISDIR(st.st_mode)) { fprintf(stderr, "refusing tmpdir %s\n", tmpdir); return 2; }
  }
  if (readlink("/proc/self/exe", self, sizeof self - 1) < 0) return 2;
  for (i = 0; i < 6; i++) {            /* fds 3..8 */
    int fd;
    snprintf(tmpl, sizeof tmpl, "%s/baseXXXXXX", tmpdir);
    fd = mkostemp(tmpl, O_CLOEXEC);
    if (fd != 3 + i) { fprintf(stderr, "base file got fd %d\n", fd); return 2; }
    unlink(tmpl);
  }
  in = fdopen(fcntl(0, F_DUPFD_CLOEXEC, 200), "r");
  out = fdopen(fcntl(1, F_DUPFD_CLOEXEC, 200), "w");
  setvbuf(out, NULL, _IOLBF, 0);
  { char d[1024], np[4096]; char* b; const char* op = getenv("PATH");
    snprintf(d, sizeof d, "%s", self); b = strrchr(d, '/'); if (b) *b = 0;
    snprintf(np, sizeof np, "%s:%s", op ? op : "/usr/bin:/bin", d); setenv("PATH", np, 1); }
  { struct rlimit rl; rl.rlim_cur = rl.rlim_max = 0; setrlimit(RLIMIT_CORE, &rl); }   /* children killed by SIGQUIT & co. leave no core files */
  uv_replace_allocator(d_malloc, d_realloc, d_calloc, d_free);
  loop = uv_default_loop();
  for (i = 0; i < 2; i++) { uv_signal_init(loop, &usig[i]); uv_unref((uv_handle_t*) &usig[i]); }
  while (fgets(line, sizeof line, in)) {
    char* w[128]; int nw = 0; char* p;
    for (p = strtok(line, " \n"); p && nw < 128; p = strtok(NULL, " \n")) w[nw++] = p;
    if (!nw) continue;
    if (!strcmp(w[0], "layout") && nw >= 7) do_layout(w, nw);
    else if (!strcmp(w[0], "many") && nw >= 2) do_many(w, nw);
    else if (!strcmp(w[0], "chld") && nw >= 4) do_chld(w, nw);
    else if (!strcmp(w[0], "ids") && nw == 5) do_ids(w);
    else if (!strcmp(w[0], "opts") && nw >= 5) do_opts(w, nw);
    else if (!strcmp(w[0], "kill") && nw == 3) do_kill(w);
    else if (!strcmp(w[0], "ksig") && nw == 3) do_ksig(w);
    else if (!strcmp(w[0], "kpid") && nw == 3) do_kpid(w);
    else if (!strcmp(w[0], "echo")) do_echo();
    else if (!strcmp(w[0], "place") && nw == 3) {     /* place <fd> <basefd>: dup a base file to a chosen free number */
      int fd = atoi(w[1]);
      if (fcntl(fd, F_GETFD) != -1 || dup3(atoi(w[2]), fd, O_CLOEXEC) != fd) fprintf(out, "bad-op\n"); else fprintf(out, "placed\n");
    } else if (!strcmp(w[0], "fill") && nw == 2) { fill_byte = atoi(w[1]); fprintf(out, "filled\n"); }
    else if (!strcmp(w[0], "unplace") && nw == 2) { close(atoi(w[1])); fprintf(out, "unplaced\n"); }
    else fprintf(out, "bad-op\n");
    fflush(out);
  }
  return 0;
}
