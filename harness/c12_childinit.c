/* C12 unit harness: src/unix/process.c included with its syscalls redirected.
 *   mode childinit: uv__process_child_init on an in-memory descriptor table with the kernel's
 *                   lowest-free semantics (execvp "fails" after a snapshot so the error fd is observed)
 *   mode wait:      uv_spawn (fake fork / error-pipe read / waitpid) + uv__wait_children with scripted
 *                   waitpid results on a real uv_loop_t
 * Same line protocol / canonical output as `uvdriver childinit|wait` (lean/Drivers/C12.lean). */
#include "uv.h"
#include "internal.h"
#include <stdio.h>
#include <stdlib.h>
#include <assert.h>
#include <errno.h>
#include <signal.h>
#include <string.h>
#include <sys/types.h>
#include <sys/wait.h>
#include <unistd.h>
#include <fcntl.h>
#include <poll.h>
#include <grp.h>
#include <sched.h>
#include <setjmp.h>
#include <stdarg.h>

#define NFD 512
struct ent { int open, file, cx; };           /* file >= 0: parent's file k; -1 /dev/null RDONLY; -2 RDWR */
static struct ent T[NFD], SNAP[NFD];
static jmp_buf jb;
static int reached_exec, written_fd, fake_fds;  /* fake_fds: route uv__close & co to the fake table */

static int lowest(int n) { while (n < NFD && T[n].open) n++; if (n >= NFD) { puts("fd-overflow"); exit(3); } return n; }

static int fk_fcntl(int fd, int cmd, ...) {
  va_list ap; long arg; va_start(ap, cmd); arg = va_arg(ap, long); va_end(ap);
  if (fd < 0 || fd >= NFD || !T[fd].open) { errno = EBADF; return -1; }
  switch (cmd) {
    case F_DUPFD: case F_DUPFD_CLOEXEC: {
      int n = lowest((int) arg); T[n] = T[fd]; T[n].cx = cmd == F_DUPFD_CLOEXEC; return n; }
    case F_GETFD: return T[fd].cx ? FD_CLOEXEC : 0;
    case F_SETFD: T[fd].cx = (arg & FD_CLOEXEC) != 0; return 0;
    case F_GETFL: return O_RDWR;
    case F_SETFL: return 0;
  }
  puts("unexpected-fcntl"); exit(3);
}
static int fk_dup2(int o, int n) {
  if (o < 0 || o >= NFD || !T[o].open || n < 0 || n >= NFD) { errno = EBADF; return -1; }
  if (o == n) return n;
  T[n] = T[o]; T[n].cx = 0; return n;
}
static int fk_open(const char* path, int flags, ...) {
  int n;
  if (strcmp(path, "/dev/null")) { puts("unexpected-open"); exit(3); }
  n = lowest(0); T[n].open = 1; T[n].cx = (flags & O_CLOEXEC) != 0;
  T[n].file = (flags & O_ACCMODE) == O_RDWR ? -2 : ((flags & O_ACCMODE) == O_RDONLY ? -1 : -3);
  return n;
}
static int fk_close_raw(int fd) {
  if (fd < 0 || fd >= NFD || !T[fd].open) { errno = EBADF; return -1; }
  T[fd].open = 0; return 0;
}
/* the core.c helpers process.c calls (real ones when not in fake-fd mode) */
static int fk_uv_close(int fd) { if (!fake_fds) return uv__close(fd); return fk_close_raw(fd) ? UV__ERR(errno) : 0; }
static int fk_uv_close_nocheck(int fd) { if (!fake_fds) return uv__close_nocheckstdio(fd); return fk_close_raw(fd) ? UV__ERR(errno) : 0; }
static int fk_uv_cloexec(int fd, int set) {
  if (!fake_fds) return uv__cloexec(fd, set);
  if (fd < 0 || fd >= NFD || !T[fd].open) return UV_EBADF;
  T[fd].cx = set != 0; return 0;
}
static int fk_uv_nonblock(int fd, int set) {
  if (!fake_fds) return uv__nonblock_fcntl(fd, set);
  return (fd < 0 || fd >= NFD || !T[fd].open) ? UV_EBADF : 0;
}
static ssize_t fk_write(int fd, const void* b, size_t n) { written_fd = fd; (void) b; return (ssize_t) n; }
static void fk_exit(int c) __attribute__((noreturn));
static void fk_exit(int c) { (void) c; longjmp(jb, 1); }
static int fk_execvp(const char* f, char* const a[]) {
  (void) f; (void) a; memcpy(SNAP, T, sizeof(T)); reached_exec = 1; errno = ENOENT; return -1;
}
static sighandler_t fk_signal(int s, sighandler_t h) { (void) s; (void) h; return SIG_DFL; }
static pid_t fk_setsid(void) { return 1; }
static int fk_chdir(const char* p) { (void) p; return 0; }
static int fk_setgroups(size_t n, const gid_t* g) { (void) n; (void) g; return 0; }
static int fk_setgid(gid_t g) { (void) g; return 0; }
static int fk_setuid(uid_t u) { (void) u; return 0; }
static int fk_sigprocmask(int h, const sigset_t* s, sigset_t* o) { (void) h; (void) s; (void) o; return 0; }

/* ---- wait mode fakes ---- */
#define MAXC 256
static int next_pid = 1000;
static int spawn_mode;                 /* 0: exec ok (EOF on the error pipe), else errno to report */
static int kres[MAXC]; static int kst[MAXC]; /* per child: 0 running, 1 exited(status kst), 2 ECHILD */
static int reaped[MAXC];
static int blocking_reaped;
static int cur_id;
static int fork_errno;                 /* != 0: the next fork() fails with it */
static int cap_n, cap[1024][2];        /* the pipes[] table uv_spawn handed to the child side, captured at fork() */
static pid_t fk_fork_capture(int stdio_count, int (*pp)[2]) {
  int i;
  cap_n = stdio_count < 1024 ? stdio_count : 1024;
  for (i = 0; i < cap_n; i++) { cap[i][0] = pp[i][0]; cap[i][1] = pp[i][1]; }
  if (fork_errno) { errno = fork_errno; fork_errno = 0; return -1; }
  return 1000 + cur_id;      /* pid encodes the harness's child index */
}
/* dirty heap: every block libuv allocates is filled with a chosen byte */
static int fill_byte = 0xA5;
static void* d_malloc(size_t n) { void* p = malloc(n); if (p) memset(p, fill_byte, n); return p; }
static void* d_realloc(void* p, size_t n) { return realloc(p, n); }
static void* d_calloc(size_t a, size_t b) { return calloc(a, b); }
static void d_free(void* p) { free(p); }
static int count_fds(void) { int n = 0, fd; for (fd = 0; fd < 1024; fd++) if ((fcntl)(fd, F_GETFD) != -1) n++; return n; }
static ssize_t fk_read(int fd, void* buf, size_t n) {
  (void) fd;
  if (spawn_mode == 0) return 0;
  if (n != sizeof(int)) { puts("unexpected-read"); exit(3); }
  { int v = -spawn_mode; memcpy(buf, &v, sizeof v); }
  return sizeof(int);
}
static pid_t fk_waitpid(pid_t pid, int* st, int opt) {
  int id = pid - 1000;
  if (id < 0 || id >= MAXC) { puts("unexpected-waitpid"); exit(3); }
  if (!(opt & WNOHANG)) { blocking_reaped++; reaped[id] = 1; *st = 127 << 8; return pid; }
  if (reaped[id]) puts("DOUBLE-WAIT");
  if (kres[id] == 0) return 0;
  if (kres[id] == 2) { errno = ECHILD; return -1; }
  reaped[id] = 1; *st = kst[id]; return pid;
}

#define fcntl fk_fcntl
#define dup2 fk_dup2
#define open fk_open
#define write fk_write
#define _exit fk_exit
#define execvp fk_execvp
#define signal fk_signal
#define setsid fk_setsid
#define chdir fk_chdir
#define setgroups fk_setgroups
#define setgid fk_setgid
#define setuid fk_setuid
#define sigprocmask fk_sigprocmask
#define fork() fk_fork_capture(stdio_count, pipes)   /* locals of uv__spawn_and_init_child_fork */
#define read fk_read
#define waitpid fk_waitpid
#define uv__close fk_uv_close
#define uv__close_nocheckstdio fk_uv_close_nocheck
#define uv__cloexec fk_uv_cloexec
#define uv__nonblock_fcntl fk_uv_nonblock
#include "unix/process.c"
#undef fcntl
#undef dup2
#undef open
#undef write
#undef _exit
#undef read
#undef uv__close

static void dump(const char* tag, struct ent* t, int post) {
  int fd;
  fputs(tag, stdout);
  for (fd = 0; fd < NFD; fd++) {
    if (!t[fd].open || (post && t[fd].cx)) continue;
    if (t[fd].file >= 0) printf(" %d:f%d:%s", fd, t[fd].file, t[fd].cx ? "c" : "-");
    else printf(" %d:%s:%s", fd, t[fd].file == -1 ? "nullr" : (t[fd].file == -2 ? "nullw" : "null?"), t[fd].cx ? "c" : "-");
  }
  putchar('\n');
}

static void do_ci(char* line) {
  char* tok[1024]; int nt = 0, i, efd, cnt;
  int (*pipes)[2];
  uv_process_options_t opt;
  char* args[2] = { "prog", NULL };
  for (char* p = strtok(line, " \n"); p && nt < 1024; p = strtok(NULL, " \n")) tok[nt++] = p;
  if (nt < 4) { puts("bad-op"); return; }
  efd = atoi(tok[1]); cnt = atoi(tok[2]);
  if (nt < 3 + cnt + 1 || strcmp(tok[3 + cnt], "T")) { puts("bad-op"); return; }
  memset(T, 0, sizeof T);
  for (i = 4 + cnt; i < nt; i++) {
    int fd = atoi(tok[i]); int n = tok[i][strlen(tok[i]) - 1] == 'n';
    T[fd].open = 1; T[fd].file = fd; T[fd].cx = !n;
  }
  pipes = malloc(sizeof(*pipes) * (cnt ? cnt : 1));      /* exact size: ASan sees any overrun */
  for (i = 0; i < cnt; i++) { pipes[i][0] = -1; pipes[i][1] = atoi(tok[3 + i]); }
  memset(&opt, 0, sizeof opt); opt.file = "prog"; opt.args = args;
  reached_exec = 0; written_fd = -1; fake_fds = 1;
  if (setjmp(jb) == 0) {
    uv__process_child_init(&opt, cnt, pipes, efd);
    puts("returned?"); exit(3);
  }
  fake_fds = 0;
  free(pipes);
  if (reached_exec) { printf("ok %d\n", written_fd); dump("pre", SNAP, 0); dump("post", SNAP, 1); }
  else { printf("fail %d\n", written_fd); dump("pre", T, 0); }
}

/* ---- wait mode ---- */
static uv_loop_t loop;
static uv_process_t* procs[MAXC]; static int nprocs;
static void exit_cb(uv_process_t* p, int64_t st, int sig) {
  int id = (int) (intptr_t) p->data;
  printf("cb %d %d %d%s\n", id, (int) st, sig, reaped[id] ? "" : " NOT-REAPED");
}
static void tracked(void) {
  struct uv__queue* q;
  fputs("tracked", stdout);
  uv__queue_foreach(q, &loop.process_handles) {
    uv_process_t* p = uv__queue_data(q, uv_process_t, queue);
    printf(" %d", (int) (intptr_t) p->data);
  }
  putchar('\n');
}
static uv_pipe_t upipes[64];
/* err: errno the fake child reports through the error pipe; ferr: errno of a failing fork(); slots: stdio layout or NULL */
static void do_spawn(int err, int ferr, char** slots, int nslots) {
  uv_process_options_t opt; char* args[2] = { "prog", NULL }; int rc, id = nprocs, i, np = 0, fds0, fds1;
  uv_stdio_container_t* sc = NULL; sigset_t m0, m1;
  uv_process_t* p = calloc(1, sizeof *p);
  if (id >= MAXC) { puts("bad-op"); return; }
  memset(&opt, 0, sizeof opt); opt.file = "prog"; opt.args = args; opt.exit_cb = exit_cb;
  if (slots) {
    sc = calloc(nslots ? nslots : 1, sizeof *sc);
    for (i = 0; i < nslots; i++) {
      if (slots[i][0] == 'i') sc[i].flags = UV_IGNORE;
      else if (slots[i][0] == 'f') { sc[i].flags = UV_INHERIT_FD; sc[i].data.fd = atoi(slots[i] + 1); }
      else if (slots[i][0] == 'p' && np < 64) {
        uv_pipe_init(&loop, &upipes[np], 0);
        sc[i].flags = UV_CREATE_PIPE | UV_READABLE_PIPE | UV_WRITABLE_PIPE; sc[i].data.stream = (uv_stream_t*) &upipes[np++];
      } else { puts("bad-op"); free(sc); free(p); return; }
    }
    opt.stdio = sc; opt.stdio_count = nslots;
  }
  p->data = (void*) (intptr_t) id; procs[nprocs++] = p;
  cur_id = id; spawn_mode = err; fork_errno = ferr; blocking_reaped = 0; cap_n = -1;
  pthread_sigmask(SIG_SETMASK, NULL, &m0); fds0 = count_fds();
  rc = uv_spawn(&loop, p, &opt);
  pthread_sigmask(SIG_SETMASK, NULL, &m1); fds1 = count_fds();
  if (slots) {
    fputs("pipes", stdout);
    for (i = 0; i < cap_n; i++) {
      if (i < nslots && slots[i][0] == 'p' && cap[i][1] >= 0 && cap[i][0] >= 0 && cap[i][0] != cap[i][1]) fputs(" p", stdout);
      else printf(" %d", cap[i][1]);
    }
    putchar('\n');
  }
  if (rc == 0) printf("ret 0 active %d", uv_is_active((uv_handle_t*) p));
  else printf("ret %d active %d reaped %d", rc, uv_is_active((uv_handle_t*) p), blocking_reaped);
  for (i = 1; i < 65; i++) if (sigismember(&m0, i) != sigismember(&m1, i)) { printf(" MASK-CHANGED(sig %d)", i); break; }
  if (np == 0 && fds0 != fds1) printf(" FD-LEAK(%d->%d)", fds0, fds1);
  putchar('\n');
  for (i = 0; i < np; i++) uv_close((uv_handle_t*) &upipes[i], NULL);
  if (np) uv_run(&loop, UV_RUN_NOWAIT);
  free(sc);
  tracked();
}

int main(int argc, char** argv) {
  static char line[1 << 16];
  if (argc < 2) return 2;
  if (!strcmp(argv[1], "childinit")) {
    while (fgets(line, sizeof line, stdin)) { if (line[0] != '\n') do_ci(line); }
    return 0;
  }
  if (strcmp(argv[1], "wait")) return 2;
  uv_replace_allocator(d_malloc, d_realloc, d_calloc, d_free);
  uv_loop_init(&loop);
  while (fgets(line, sizeof line, stdin)) {
    char* w = strtok(line, " \n");
    if (!w) continue;
    if (!strcmp(w, "reset")) {
      /* handles of earlier cases stay allocated but are closed */
      for (int i = 0; i < nprocs; i++) if (!uv_is_closing((uv_handle_t*) procs[i])) uv_close((uv_handle_t*) procs[i], NULL);
      uv_run(&loop, UV_RUN_NOWAIT);
      for (int i = 0; i < nprocs; i++) free(procs[i]);
      nprocs = 0; next_pid = 1000; memset(kres, 0, sizeof kres); memset(reaped, 0, sizeof reaped);
      tracked();
    } else if (!strcmp(w, "spawn")) do_spawn(0, 0, NULL, 0);
    else if (!strcmp(w, "spawnfail")) { char* e = strtok(NULL, " \n"); do_spawn(e ? atoi(e) : ENOENT, 0, NULL, 0); }
    else if (!strcmp(w, "forkfail")) { char* e = strtok(NULL, " \n"); do_spawn(0, e ? atoi(e) : EAGAIN, NULL, 0); }
    else if (!strcmp(w, "fill")) { char* e = strtok(NULL, " \n"); fill_byte = e ? atoi(e) : 0xA5; }
    else if (!strcmp(w, "spawnl")) {
      char* sl[256]; int n = 0; char* e;
      while ((e = strtok(NULL, " \n")) != NULL && n < 256) sl[n++] = e;
      do_spawn(0, 0, sl, n);
    }
    else if (!strcmp(w, "close")) {
      char* e = strtok(NULL, " \n"); int id = e ? atoi(e) : -1;
      if (id < 0 || id >= nprocs || uv_is_closing((uv_handle_t*) procs[id])) puts("bad-op");
      else { uv_close((uv_handle_t*) procs[id], NULL); tracked(); }
    } else if (!strcmp(w, "round")) {
      struct uv__queue* q; int bad = 0;
      uv__queue_foreach(q, &loop.process_handles) {
        uv_process_t* p = uv__queue_data(q, uv_process_t, queue);
        int id = (int) (intptr_t) p->data; char* r = strtok(NULL, " \n");
        if (!r) { bad = 1; break; }
        if (!strcmp(r, "-")) kres[id] = 0; else if (!strcmp(r, "E")) kres[id] = 2; else { kres[id] = 1; kst[id] = atoi(r); }
      }
      if (bad || strtok(NULL, " \n")) { puts("bad-op"); continue; }
      uv__wait_children(&loop);
      tracked();
    } else if (!strcmp(w, "dec")) {
      int s = atoi(strtok(NULL, " \n"));
      printf("dec %d %d\n", WIFEXITED(s) ? WEXITSTATUS(s) : 0, WIFSIGNALED(s) ? WTERMSIG(s) : 0);
    } else puts("bad-op");
  }
  return 0;
}
