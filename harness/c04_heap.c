/* C04 unit harness: drives the real src/heap-inl.h with the line protocol of
 * `uvdriver heap` and dumps the pointer tree in BFS order after every op,
 * checking parent/child pointer coherence and completeness on the way. */
#include <stdio.h>
#include <stdlib.h>
#include <string.h>
#include <stdint.h>
#include <stddef.h>
#include "heap-inl.h"

struct ent { struct heap_node node; uint64_t timeout, start_id; unsigned id; int in; };
#define MAXN 4096
static struct ent ents[MAXN];
static struct heap hp;

static int less_than(const struct heap_node* a, const struct heap_node* b) {
  const struct ent* x = (const struct ent*) a; const struct ent* y = (const struct ent*) b;
  if (x->timeout < y->timeout) return 1;
  if (y->timeout < x->timeout) return 0;
  return x->start_id < y->start_id;
}

static void dump(void) {
  static struct heap_node* q[MAXN + 2];
  unsigned head = 0, tail = 0, n = 0; int gap = 0;
  printf("heap");
  if (hp.min != NULL) {
    if (hp.min->parent != NULL) printf(" CORRUPT-root-parent");
    q[tail++] = hp.min;
  }
  while (head < tail) {
    struct heap_node* x = q[head++];
    struct ent* e = (struct ent*) x;
    printf(" %llu:%llu:%u", (unsigned long long) e->timeout, (unsigned long long) e->start_id, e->id);
    n++;
    if (x->left) { if (gap) printf(" CORRUPT-not-complete"); if (x->left->parent != x) printf(" CORRUPT-parent"); q[tail++] = x->left; } else gap = 1;
    if (x->right) { if (gap) printf(" CORRUPT-not-complete"); if (x->right->parent != x) printf(" CORRUPT-parent"); q[tail++] = x->right; } else gap = 1;
  }
  if (n != hp.nelts) printf(" CORRUPT-nelts=%u", hp.nelts);
  printf("\n");
}

int main(void) {
  char line[256];
  heap_init(&hp);
  while (fgets(line, sizeof line, stdin)) {
    unsigned long long t, s; unsigned id;
    if (!strncmp(line, "reset", 5)) {
      heap_init(&hp); memset(ents, 0, sizeof ents); dump();
    } else if (sscanf(line, "ins %llu %llu %u", &t, &s, &id) == 3 && id < MAXN) {
      ents[id].timeout = t; ents[id].start_id = s; ents[id].id = id; ents[id].in = 1;
      heap_insert(&hp, &ents[id].node, less_than); dump();
    } else if (sscanf(line, "rem %u", &id) == 1 && id < MAXN && ents[id].in) {
      heap_remove(&hp, &ents[id].node, less_than); ents[id].in = 0; dump();
    } else if (line[0] != '\n') printf("bad-op\n");
  }
  return 0;
}
