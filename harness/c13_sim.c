/* C13 signal harness: the real library, several loops run from ONE thread in a
 * scripted order (uv_run(loop, UV_RUN_NOWAIT) = one `run L` event), signals raised
 * synchronously with raise().  Line protocol of `uvdriver signal`.
 *
 *   init <nloops> <loop-of-h0> <loop-of-h1> ...
 *   script <k> <op>:<h>[:<sig>] ...      ops of the k-th signal callback (global count)
 *   start hN sig | oneshot hN sig | stop hN | close hN | ref hN | unref hN | raise sig | run L
 *   nestraise A B      raise A; B is raised from inside A's handler (at its pipe write): both must be caught
 *   burst sig N        N guarded raises in a row (large bursts, up to and across the pipe capacity)
 *   at K b|a SIG <start|oneshot|stop|close> hN [sig [cb]]
 *                      the API call with SIG raised inside it, before/after its K-th system call (see inj_*)
 *   runraise L sig [op:h[:sig] ...]
 *                      one loop iteration during which `sig` is raised (and the ops are performed)
 *                      from a uv_check callback, i.e. after the poll phase, before the closing phase
 *
 * The RB tree orders by loop pointer, then handle pointer: loops and handles are
 * malloc'ed up front, the pointers sorted, and id i is the i-th smallest address, so
 * that "pointer order" = "id order" as in the model.  Handles are freed in close_cb
 * (a message that outlives its handle is a heap-use-after-free for ASan). */
#include <dlfcn.h>
#include <errno.h>
#include <fcntl.h>
#include <time.h>
#include <sys/syscall.h>
#include <unistd.h>
#include <signal.h>
#include <stdio.h>
#include <stdlib.h>
#include <string.h>
#include "uv.h"

#define MAXL 8
#define MAXH 32
#define MAXK 4096
static uv_loop_t* loops[MAXL];
static uv_signal_t* hs[MAXH];
static uv_check_t chk[MAXL];
static int chk_sig;
static char chk_ops[1024];
static int hloop[MAXH];
static int freed[MAXH];
static int nl, nh;
static char* script[MAXK];
static unsigned ncb;
static const int SIGS[] = { SIGHUP, SIGUSR1, SIGUSR2, SIGWINCH };
#define NSIGS 4

/* nestraise A B: B is raised from inside libuv's handler for A, at its write() to the loop's signal pipe.
 * With every signal blocked in the handler (sa_mask full) B stays pending until A's handler has returned;
 * otherwise B's handler nests, waits for the signal lock A's handler holds, and the thread hangs. */
static volatile sig_atomic_t nest_sig;

/* at K b|a SIG <op> hN ...: a signal raised INSIDE one libuv signal API call, right before (b) / after (a)
 * the K-th system call that call makes (read, write, pthread_sigmask, sigprocmask, sigaction(act != NULL),
 * counted on the calling thread outside libuv's handler).  libuv is untouched: the calls are interposed here.
 * The harness reports what the kernel did with the signal and where: `inj raised N` = libuv's handler ran
 * after N lock sections of the call (a 1-byte write = the signal lock being released) had completed -
 * either synchronously (signal unblocked at the injection point) or inside the mask call that unblocked it;
 * `inj skipped-default N` / `inj dropped-default N` = the disposition was SIG_DFL at the point where the
 * signal would have been delivered (the harness never takes the default action: not raised / consumed with
 * sigtimedwait); `inj pending` = still blocked when the call returned; `inj none` = fewer than K calls.
 * A handler that runs while the calling thread holds the signal lock never returns: alarm() watchdog. */
static int inj_on, inj_armed, inj_k, inj_when, inj_sig, inj_calls, inj_lockw, inj_pending;
static volatile sig_atomic_t inj_busy;
static char inj_res[64];
static int (*real_sigaction)(int, const struct sigaction*, struct sigaction*);
static int real_mask(int how, const sigset_t* set, sigset_t* old) { return (int) syscall(SYS_rt_sigprocmask, how, set, old, 8); }
static int inj_is_dfl(int sig) { struct sigaction sa; real_sigaction(sig, NULL, &sa); return sa.sa_handler == SIG_DFL; }
static int inj_is_blocked(int sig) { sigset_t cur; sigemptyset(&cur); real_mask(SIG_BLOCK, NULL, &cur); return sigismember(&cur, sig) == 1; }
static void inj_consume(int sig) {
  sigset_t s; struct timespec z = { 0, 0 };
  sigemptyset(&s); sigaddset(&s, sig);
  sigtimedwait(&s, NULL, &z);
}
static void inj_fire(void) {
  inj_armed = 0;
  if (!inj_is_blocked(inj_sig)) {
    if (inj_is_dfl(inj_sig)) { snprintf(inj_res, sizeof inj_res, "inj skipped-default %d", inj_lockw); return; }
    snprintf(inj_res, sizeof inj_res, "inj raised %d", inj_lockw);
    inj_busy = 1; raise(inj_sig); inj_busy = 0;      /* handler runs here, on this thread */
  } else {
    inj_busy = 1; raise(inj_sig); inj_busy = 0;      /* stays pending until the mask is restored */
    inj_pending = 1;
    snprintf(inj_res, sizeof inj_res, "inj pending");
  }
}
/* watchdog for `at`: a helper process (libuv's handler runs with every signal blocked, so an alarm() would
 * stay pending in exactly the hang it is meant to end).  'A' arms it, 'D' disarms it; armed for 5 s = SIGKILL. */
#include <poll.h>
static int wd_fd = -1;
static void wd_start(void) {
  int p[2]; pid_t me = getpid();
  if (pipe(p)) abort();
  fflush(stdout);
  switch (fork()) {
  case -1: abort();
  case 0: {
    char ch; struct pollfd pf;
    for (int fd = 0; fd < 256; fd++) if (fd != p[0]) syscall(SYS_close, fd);
    pf.fd = p[0]; pf.events = POLLIN;
    for (;;) {
      if (syscall(SYS_read, p[0], &ch, 1) != 1) _exit(0);
      if (ch != 'A') continue;
      if (poll(&pf, 1, 5000) == 0) { kill(me, SIGKILL); _exit(0); }
    }
  }
  default: close(p[0]); wd_fd = p[1]; fcntl(wd_fd, F_SETFD, FD_CLOEXEC);
  }
}
static void wd(char ch) { if (wd_fd == -1) wd_start(); if (syscall(SYS_write, wd_fd, &ch, 1) != 1) abort(); }
static int inj_count(void) { return inj_on && !inj_busy; }
static void inj_point(int after) {
  int e = errno;
  if (!after) inj_calls++;
  if (inj_armed && inj_calls == inj_k && after == inj_when) inj_fire();
  errno = e;
}
static int mask_common(int how, const sigset_t* set, sigset_t* old) {
  int r, c = inj_count();
  if (c) inj_point(0);
  if (c && inj_pending && set != NULL &&
      ((how == SIG_SETMASK && sigismember(set, inj_sig) != 1) || (how == SIG_UNBLOCK && sigismember(set, inj_sig) == 1))) {
    inj_pending = 0;
    if (inj_is_dfl(inj_sig)) { inj_consume(inj_sig); snprintf(inj_res, sizeof inj_res, "inj dropped-default %d", inj_lockw); }
    else {
      snprintf(inj_res, sizeof inj_res, "inj raised %d", inj_lockw);
      inj_busy = 1; r = real_mask(how, set, old); inj_busy = 0;   /* the pending signal is delivered in here */
      if (c) inj_point(1);
      return r;
    }
  }
  r = real_mask(how, set, old);
  if (c) inj_point(1);
  return r;
}
int pthread_sigmask(int how, const sigset_t* set, sigset_t* old) { int e = errno, r = mask_common(how, set, old); if (r) { r = errno; errno = e; } return r; }
int sigprocmask(int how, const sigset_t* set, sigset_t* old) { return mask_common(how, set, old); }
int sigaction(int sig, const struct sigaction* act, struct sigaction* old) {
  int r, c;
  if (!real_sigaction) real_sigaction = (int (*)(int, const struct sigaction*, struct sigaction*)) dlsym(RTLD_NEXT, "sigaction");
  c = act != NULL && inj_count();
  if (c) inj_point(0);
  r = real_sigaction(sig, act, old);
  if (c) inj_point(1);
  return r;
}
ssize_t read(int fd, void* buf, size_t n) {
  ssize_t r; int c = inj_count();
  if (c) inj_point(0);
  r = syscall(SYS_read, fd, buf, n);
  if (c) inj_point(1);
  return r;
}
ssize_t write(int fd, const void* buf, size_t n) {
  ssize_t r; int c = inj_count();
  if (nest_sig) {
    for (int i = 0; i < nl; i++)
      if (loops[i] != NULL && fd == loops[i]->signal_pipefd[1]) { int g = nest_sig; nest_sig = 0; raise(g); break; }
  }
  if (c) inj_point(0);
  r = syscall(SYS_write, fd, buf, n);
  if (c) { if (r == 1 && n == 1) inj_lockw++; inj_point(1); }
  return r;
}

static int cmpp(const void* a, const void* b) {
  uintptr_t x = (uintptr_t) *(void* const*) a, y = (uintptr_t) *(void* const*) b;
  return x < y ? -1 : x > y;
}
static int idof(uv_signal_t* h) { for (int i = 0; i < nh; i++) if (hs[i] == h) return i; return -1; }
static void signal_cb_a(uv_signal_t* h, int signum);
static void signal_cb_b(uv_signal_t* h, int signum);
static void run_script(const char* text);

static void close_cb(uv_handle_t* h) {
  int i = idof((uv_signal_t*) h);
  printf("cb close h%d\n", i);
  freed[i] = 1;
  hs[i] = NULL;
  free(h);
}

static int usable(int i) { return i >= 0 && i < nh && !freed[i] && !uv_is_closing((uv_handle_t*) hs[i]); }

/* returns 1 and sets *rc when the op was performed */
static int do_op(const char* op, int i, int sig, int cbid, int* rc) {
  uv_signal_cb signal_cb = cbid ? signal_cb_b : signal_cb_a;   /* two distinct user callbacks: c0 / c1 */
  /* uv_ref/uv_unref are legal on a closing handle (until close_cb releases the memory) */
  if (!strcmp(op, "ref") || !strcmp(op, "unref")) {
    if (i < 0 || i >= nh || freed[i]) return 0;
    if (op[0] == 'r') uv_ref((uv_handle_t*) hs[i]); else uv_unref((uv_handle_t*) hs[i]);
    *rc = 0;
    return 1;
  }
  if (!usable(i)) return 0;           /* API precondition: not closing (assert in libuv) */
  if (!strcmp(op, "start")) *rc = uv_signal_start(hs[i], signal_cb, sig);
  else if (!strcmp(op, "oneshot")) *rc = uv_signal_start_oneshot(hs[i], signal_cb, sig);
  else if (!strcmp(op, "stop")) *rc = uv_signal_stop(hs[i]);
  else if (!strcmp(op, "close")) { uv_close((uv_handle_t*) hs[i], close_cb); *rc = 0; }
  else return 0;
  return 1;
}

static void signal_cb_any(uv_signal_t* h, int signum, int which) {
  unsigned k = ncb++;
  printf("cb signal h%d %d c%d\n", idof(h), signum, which);
  if (k < MAXK && script[k]) run_script(script[k]);
}

static void signal_cb_a(uv_signal_t* h, int signum) { signal_cb_any(h, signum, 0); }
static void signal_cb_b(uv_signal_t* h, int signum) { signal_cb_any(h, signum, 1); }

static void run_script(const char* text) {
  char* copy = strdup(text); char* save; char* w;
  for (w = strtok_r(copy, " \n", &save); w; w = strtok_r(NULL, " \n", &save)) {
    char op[16]; int i, sig = 0, cbid = 0, rc;
    if (sscanf(w, "%15[a-z]:%d:%d:%d", op, &i, &sig, &cbid) >= 2) do_op(op, i, sig, cbid & 1, &rc);
  }
  free(copy);
}

static void do_raise(int sig) {
  struct sigaction sa;
  sigaction(sig, NULL, &sa);
  if (sa.sa_handler == SIG_DFL) printf("raise skipped-default\n");   /* guard: never take the default action */
  else { raise(sig); printf("raised\n"); }
}

static void obs(void);
static void check_cb(uv_check_t* c) { uv_check_stop(c); printf("check\n"); obs(); do_raise(chk_sig); run_script(chk_ops); }

static int known_sig(int sig) { for (int j = 0; j < NSIGS; j++) if (SIGS[j] == sig) return 1; return 0; }

static void obs(void) {
  printf("obs sigaction");
  for (int j = 0; j < NSIGS; j++) {
    struct sigaction sa;
    sigaction(SIGS[j], NULL, &sa);
    printf(" %d=%s", SIGS[j], sa.sa_handler == SIG_DFL ? "dfl" : (sa.sa_flags & SA_RESETHAND) ? "uv/reset" : "uv");
    if (sa.sa_handler != SIG_DFL) {
      /* the anchored mechanism: libuv's handler runs with every signal blocked (it takes a lock that a
       * nested handler on the same thread would wait for forever) and with SA_RESTART.  Deviations only. */
      int full = 1;
      for (int g = 1; g < 65; g++)
        if (g != SIGKILL && g != SIGSTOP && g != 32 && g != 33 && sigismember(&sa.sa_mask, g) != 1) full = 0;
      if (!full) printf("!nomask");
      if (!(sa.sa_flags & SA_RESTART)) printf("!norestart");
    }
  }
  printf("\nobs handles");
  for (int i = 0; i < nh; i++) {
    if (freed[i]) { printf(" %d:x", i); continue; }
    printf(" %d:%d%s:%d:%u:%u:%c", i, uv_is_active((uv_handle_t*) hs[i]), uv_is_closing((uv_handle_t*) hs[i]) ? "c" : "",
           hs[i]->signum, hs[i]->caught_signals, hs[i]->dispatched_signals, uv_has_ref((uv_handle_t*) hs[i]) ? 'r' : 'u');
  }
  printf("\n");
}

int main(void) {
  char line[8192];
  setvbuf(stdout, NULL, _IOLBF, 0);
  real_sigaction = (int (*)(int, const struct sigaction*, struct sigaction*)) dlsym(RTLD_NEXT, "sigaction");
  {  /* do not depend on what the parent left behind (nohup: SIGHUP ignored; blocked signals) */
    sigset_t set; sigemptyset(&set);
    for (int j = 0; j < NSIGS; j++) { signal(SIGS[j], SIG_DFL); sigaddset(&set, SIGS[j]); }
    sigprocmask(SIG_UNBLOCK, &set, NULL);
  }
  while (fgets(line, sizeof line, stdin)) {
    char op[16]; int i, sig = 0, off, cbid = 0; unsigned k;
    if (!strncmp(line, "init ", 5)) {
      char* p = line + 5; int n;
      if (nl || sscanf(p, "%d%n", &nl, &n) != 1 || nl < 1 || nl > MAXL) { printf("bad-op\n"); continue; }
      p += n;
      while (nh < MAXH && sscanf(p, "%d%n", &hloop[nh], &n) == 1 && hloop[nh] >= 0 && hloop[nh] < nl) { nh++; p += n; }
      for (i = 0; i < nl; i++) loops[i] = malloc(sizeof(uv_loop_t));
      for (i = 0; i < nh; i++) hs[i] = malloc(sizeof(uv_signal_t));
      qsort(loops, nl, sizeof loops[0], cmpp);
      qsort(hs, nh, sizeof hs[0], cmpp);
      for (i = 0; i < nl; i++) if (uv_loop_init(loops[i])) abort();
      for (i = 0; i < nh; i++) if (uv_signal_init(loops[hloop[i]], hs[i])) abort();
      for (i = 0; i < nl; i++) uv_check_init(loops[i], &chk[i]);
      for (i = 0; i < nl; i++)
        if (loops[i]->signal_pipefd[1] != -1 && fcntl(loops[i]->signal_pipefd[1], F_GETPIPE_SZ) != 65536 &&
            fcntl(loops[i]->signal_pipefd[1], F_SETPIPE_SZ, 65536) != 65536)
          printf("obs pipe-size-not-64k\n");           /* shows up as a diff against the model */
      obs();
    } else if (sscanf(line, "script %u %n", &k, &off) == 1 && k < MAXK) {
      free(script[k]); script[k] = strdup(line + off);
    } else if (sscanf(line, "burst %d %d", &sig, &i) == 2) {
      int k = 0;
      if (!known_sig(sig) || i < 0) { printf("bad-op\n"); continue; }
      for (; k < i; k++) {
        struct sigaction sa;
        sigaction(sig, NULL, &sa);
        if (sa.sa_handler == SIG_DFL) break;      /* never take the default action (RESETHAND after the first) */
        raise(sig);
      }
      printf("raised %d\n", k);
      obs();
    } else if (sscanf(line, "nestraise %d %d", &sig, &i) == 2) {
      struct sigaction sa, sb;
      if (!known_sig(sig) || !known_sig(i) || sig == i) { printf("bad-op\n"); continue; }
      sigaction(sig, NULL, &sa); sigaction(i, NULL, &sb);
      if (sa.sa_handler == SIG_DFL || sb.sa_handler == SIG_DFL) printf("raise skipped-default\n");
      else {
        alarm(5);                      /* watchdog: a deadlocked handler never returns (SIGALRM kills the harness) */
        nest_sig = i;
        raise(sig);
        nest_sig = 0;
        alarm(0);
        printf("raised 2\n");
      }
      obs();
    } else if (!strncmp(line, "at ", 3)) {
      int ik, isig, rc = 0, ok; char wc;
      if (sscanf(line, "at %d %c %d %15s h%d %d %d", &ik, &wc, &isig, op, &i, &sig, &cbid) < 5 || ik < 1 || ik > 64 ||
          (wc != 'a' && wc != 'b') || !known_sig(isig) || i < 0 || i >= nh ||
          (strcmp(op, "start") && strcmp(op, "oneshot") && strcmp(op, "stop") && strcmp(op, "close"))) { printf("bad-op\n"); continue; }
      snprintf(inj_res, sizeof inj_res, "inj none");
      inj_k = ik; inj_when = wc == 'a'; inj_sig = isig; inj_calls = 0; inj_lockw = 0; inj_pending = 0;
      wd('A');                         /* watchdog: the call must return */
      inj_armed = 1; inj_on = 1;
      ok = do_op(op, i, sig, cbid & 1, &rc);
      inj_on = 0; inj_armed = 0;
      wd('D');
      if (inj_pending) { inj_consume(inj_sig); inj_pending = 0; }   /* reported as `inj pending` */
      printf("%s\n", inj_res);
      if (ok) printf("ret %d\n", rc); else printf("ret skip\n");
      obs();
    } else if (sscanf(line, "raise %d", &sig) == 1) {
      if (!known_sig(sig)) { printf("bad-op\n"); continue; }
      do_raise(sig);
      obs();
    } else if (sscanf(line, "runraise %d %d %n", &i, &sig, &off) == 2 && i >= 0 && i < nl && known_sig(sig)) {
      chk_sig = sig;
      snprintf(chk_ops, sizeof chk_ops, "%s", line + off);
      uv_check_start(&chk[i], check_cb);
      uv_run(loops[i], UV_RUN_NOWAIT);
      printf("ran %d\n", i);
      obs();
    } else if (sscanf(line, "run %d", &i) == 1 && i >= 0 && i < nl) {
      uv_run(loops[i], UV_RUN_NOWAIT);
      printf("ran %d\n", i);
      obs();
    } else if (sscanf(line, "%15s h%d %d %d", op, &i, &sig, &cbid) >= 2 && i >= 0 && i < nh) {
      int rc;
      if (strcmp(op, "start") && strcmp(op, "oneshot") && strcmp(op, "stop") && strcmp(op, "close") &&
          strcmp(op, "ref") && strcmp(op, "unref")) { printf("bad-op\n"); continue; }
      if (do_op(op, i, sig, cbid & 1, &rc)) printf("ret %d\n", rc); else printf("ret skip\n");
      obs();
    } else if (line[0] != '\n') printf("bad-op\n");
  }
  return 0;
}
