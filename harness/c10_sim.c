/* C10 whole-library harness: real uv_udp_t handles on a real loop; datagrams go over loopback to two
 * plain receiving sockets (IPv4, IPv6) that the harness reads raw.  sendmsg/sendmmsg/recvmsg/recvmmsg
 * are interposed (static link: these definitions win): on a handle's fd the send calls consult the
 * handle's scripted outcomes (error / partial batch; otherwise forwarded to the kernel) and the receive
 * calls are fed from the handle's scripted socket queue.  Line protocol of `uvdriver c10`:
 *   new h<i> <4|6> <conn> <mmsg> | sout h<i> (k<n>|e<errno>).. | rin h<i> (d<len>:<trunc>:<peer>|e<errno>|b)..
 *   alloc h<i> <size>.. | script h<i> send|recv <k> <op>.. | op h<i> <op> | run
 *   op = send:<dest>:<enomem>:<lens> | try:<dest>:<lens> | try2:<count>:<dest>:<lens> | rstart | rstop | close
 * Payload of datagram seq on handle h (total n bytes, n = 0 or n >= 6): seq LE32, n LE16, then
 * byte o = seq*7 + o*13 + h; split over the buffers as given. */
#include <stdio.h>
#include <stdlib.h>
#include <string.h>
#include <errno.h>
#include <unistd.h>
#include <sys/types.h>
#include <sys/socket.h>
#include <sys/syscall.h>
#include <netinet/in.h>
#include <arpa/inet.h>
#include "uv.h"

#define MAXH 4
#define MAXQ 8192
#define MAXS 512
#define MAXA 4096
#define CB_CAP 3000

typedef struct { char kind; unsigned len, trunc, peer; int e; } ritem_t;
typedef struct { char* base; size_t len; int live; } arec_t;
typedef struct {
  uv_udp_t* u; int fam, conn, mmsg, fd, closing; unsigned port;
  unsigned seq, n_sendcb, n_recvcb, n_alloc;
  char* souts[MAXQ]; unsigned n_souts, p_souts;
  ritem_t rin[MAXQ]; unsigned n_rin, p_rin;
  unsigned sizes[64], n_sizes;
  char* script[2][MAXS];
  arec_t allocs[MAXA];
  char wire[1 << 16]; size_t wlen;
  char oserr[1 << 14]; size_t elen;
} hs_t;
typedef struct { uv_udp_send_t req; int h; unsigned seq; char* payload; } sreq_t;

static uv_loop_t loop;
static hs_t* H[MAXH];
static int nH;
static int rx4, rx6;
static struct sockaddr_in rx4a; static struct sockaddr_in6 rx6a;
static int fail_next_malloc;
static unsigned cb_count;

static void* my_malloc(size_t n) { if (fail_next_malloc) { fail_next_malloc = 0; return NULL; } return malloc(n); }

static int h_of_fd(int fd) { for (int i = 0; i < nH; i++) if (H[i]->fd == fd && fd >= 0) return i; return -1; }
static int h_of_u(uv_udp_t* u) { for (int i = 0; i < nH; i++) if (H[i]->u == u) return i; return -1; }

/* ------------------------------------------------------------------ raw receivers */
static void drain1(int rx, int fam) {
  static unsigned char b[70000];
  for (;;) {
    struct sockaddr_storage from; socklen_t fl = sizeof from;
    ssize_t n = recvfrom(rx, b, sizeof b, MSG_DONTWAIT, (struct sockaddr*) &from, &fl);
    if (n < 0) break;
    unsigned port = from.ss_family == AF_INET ? ntohs(((struct sockaddr_in*) &from)->sin_port)
                                              : ntohs(((struct sockaddr_in6*) &from)->sin6_port);
    int h = -1;
    for (int i = 0; i < nH; i++) if (H[i]->port == port && H[i]->fam == fam) h = i;
    if (h < 0) { printf("wire-unknown-source %u\n", port); continue; }
    hs_t* s = H[h];
    if (n == 0) { s->wlen += sprintf(s->wire + s->wlen, " ?/0@%d", fam); continue; }
    unsigned seq = 0, tot = 0; int bad = n < 6;
    if (!bad) {
      seq = b[0] | b[1] << 8 | b[2] << 16 | (unsigned) b[3] << 24; tot = b[4] | b[5] << 8;
      if (tot != (unsigned) n) bad = 1;
      for (ssize_t o = 6; o < n; o++) if (b[o] != (unsigned char) (seq * 7 + o * 13 + h)) bad = 1;
    }
    if (s->wlen < sizeof s->wire - 64) s->wlen += sprintf(s->wire + s->wlen, " %u/%zd@%d%s", seq, n, fam, bad ? "!" : "");
  }
}
static void drain(void) { drain1(rx4, 4); drain1(rx6, 6); }
static void print_wire(void) {
  drain();
  for (int i = 0; i < nH; i++) {
    if (H[i]->elen) { fputs(H[i]->oserr, stdout); H[i]->elen = 0; H[i]->oserr[0] = 0; }
    if (H[i]->wlen) { printf("wire h%d%s\n", i, H[i]->wire); H[i]->wlen = 0; H[i]->wire[0] = 0; }
  }
}
/* a scripted error was returned for a call whose first datagram is m: remember "h<i> oserr r<seq> <errno>" */
static void note_oserr(int h, const struct msghdr* m, int e) {
  unsigned char b[6]; size_t got = 0, tot = 0;
  for (size_t j = 0; j < m->msg_iovlen; j++) {
    const unsigned char* p = m->msg_iov[j].iov_base; size_t n = m->msg_iov[j].iov_len;
    tot += n;
    for (size_t o = 0; o < n && got < 6; o++) b[got++] = p[o];
  }
  hs_t* s = H[h];
  if (s->elen > sizeof s->oserr - 64) return;
  if (tot == 0) s->elen += sprintf(s->oserr + s->elen, "h%d oserr r? %d\n", h, e);
  else s->elen += sprintf(s->oserr + s->elen, "h%d oserr r%u %d\n", h, b[0] | b[1] << 8 | b[2] << 16 | (unsigned) b[3] << 24, e);
}

/* ------------------------------------------------------------------ interposed system calls */
static int next_sout(hs_t* s, unsigned* k) {   /* 1: k<n>, -1: errno set, 0: exhausted */
  if (s->p_souts >= s->n_souts) return 0;
  const char* w = s->souts[s->p_souts++];
  if (w[0] == 'k') { *k = (unsigned) strtoul(w + 1, NULL, 10); return 1; }
  int e = atoi(w + 1); errno = e == 0 ? 1 : e; return -1;
}
ssize_t sendmsg(int fd, const struct msghdr* m, int flags) {
  int h = h_of_fd(fd); unsigned k;
  if (h >= 0) {
    if (next_sout(H[h], &k) < 0) { int e = errno; note_oserr(h, m, e); errno = e; return -1; }
    ssize_t r = syscall(SYS_sendmsg, fd, m, flags);
    if (r < 0) printf("h%d real-sendmsg-failed %d\n", h, errno);
    drain();
    return r;
  }
  return syscall(SYS_sendmsg, fd, m, flags);
}
int sendmmsg(int fd, struct mmsghdr* m, unsigned int n, int flags) {
  int h = h_of_fd(fd); unsigned k;
  if (h >= 0) {
    int o = next_sout(H[h], &k);
    if (o < 0) { int e = errno; if (n > 0) note_oserr(h, &m[0].msg_hdr, e); errno = e; return -1; }
    if (o == 0 || k > n) k = n;
    if (k < 1) k = 1;
    int r = (int) syscall(SYS_sendmmsg, fd, m, k, flags);
    if (r != (int) k) printf("h%d real-sendmmsg-short %d/%u errno %d\n", h, r, k, errno);
    drain();
    return r;
  }
  return (int) syscall(SYS_sendmmsg, fd, m, n, flags);
}
static void fill_peer(hs_t* s, struct msghdr* m, unsigned peer) {
  if (m->msg_name == NULL) return;
  if (s->fam == 4) {
    struct sockaddr_in a; memset(&a, 0, sizeof a); a.sin_family = AF_INET; a.sin_port = htons(7000 + peer);
    a.sin_addr.s_addr = htonl(INADDR_LOOPBACK);
    memcpy(m->msg_name, &a, m->msg_namelen < sizeof a ? m->msg_namelen : sizeof a); m->msg_namelen = sizeof a;
  } else {
    struct sockaddr_in6 a; memset(&a, 0, sizeof a); a.sin6_family = AF_INET6; a.sin6_port = htons(7000 + peer);
    a.sin6_addr = in6addr_loopback;
    memcpy(m->msg_name, &a, m->msg_namelen < sizeof a ? m->msg_namelen : sizeof a); m->msg_namelen = sizeof a;
  }
}
static size_t fill_data(struct msghdr* m, ritem_t* it) {
  size_t room = m->msg_iovlen ? m->msg_iov[0].iov_len : 0;
  size_t n = it->len < room ? it->len : room;
  unsigned char* p = m->msg_iovlen ? m->msg_iov[0].iov_base : NULL;
  for (size_t o = 0; o < n; o++) p[o] = (unsigned char) (it->peer * 31 + o * 13 + 5);
  m->msg_flags = it->trunc ? MSG_TRUNC : 0;
  return n;
}
ssize_t recvmsg(int fd, struct msghdr* m, int flags) {
  int h = h_of_fd(fd);
  if (h < 0) return syscall(SYS_recvmsg, fd, m, flags);
  hs_t* s = H[h];
  while (s->p_rin < s->n_rin && s->rin[s->p_rin].kind == 'b') s->p_rin++;
  if (s->p_rin >= s->n_rin) { errno = EAGAIN; return -1; }
  ritem_t* it = &s->rin[s->p_rin++];
  if (it->kind == 'e') { errno = it->e == 0 ? 1 : it->e; return -1; }
  fill_peer(s, m, it->peer);
  return (ssize_t) fill_data(m, it);
}
int recvmmsg(int fd, struct mmsghdr* v, unsigned int vlen, int flags, struct timespec* t) {
  int h = h_of_fd(fd);
  if (h < 0) return (int) syscall(SYS_recvmmsg, fd, v, vlen, flags, t);
  hs_t* s = H[h];
  if (vlen == 0) return 0;
  while (s->p_rin < s->n_rin && s->rin[s->p_rin].kind == 'b') s->p_rin++;
  if (s->p_rin >= s->n_rin) { errno = EAGAIN; return -1; }
  if (s->rin[s->p_rin].kind == 'e') { ritem_t* it = &s->rin[s->p_rin++]; errno = it->e == 0 ? 1 : it->e; return -1; }
  unsigned k = 0;
  while (k < vlen && s->p_rin < s->n_rin && s->rin[s->p_rin].kind == 'd') {
    ritem_t* it = &s->rin[s->p_rin++];
    fill_peer(s, &v[k].msg_hdr, it->peer);
    v[k].msg_len = (unsigned) fill_data(&v[k].msg_hdr, it);
    k++;
  }
  return (int) k;
}

/* ------------------------------------------------------------------ ops */
static void do_op(int h, const char* tok);
static void run_script(int h, int kind, unsigned k) {
  hs_t* s = H[h];
  if (k >= MAXS || s->script[kind][k] == NULL) return;
  char* copy = strdup(s->script[kind][k]); char* save;
  for (char* w = strtok_r(copy, " \n", &save); w; w = strtok_r(NULL, " \n", &save)) do_op(h, w);
  free(copy);
}
static void cap(int h) {
  if (++cb_count > CB_CAP) { printf("h%d spun\n", h); fflush(stdout); _exit(0); }
}
static void send_cb(uv_udp_send_t* req, int status) {
  sreq_t* r = (sreq_t*) req; int h = r->h; hs_t* s = H[h];
  cap(h);
  printf("h%d cb send r%u %d\n", h, r->seq, status);
  free(r->payload); free(r);
  run_script(h, 0, s->n_sendcb++);
}
static void alloc_cb(uv_handle_t* handle, size_t suggested, uv_buf_t* buf) {
  int h = h_of_u((uv_udp_t*) handle); hs_t* s = H[h];
  cap(h);
  unsigned k = s->n_alloc++;
  size_t len = s->n_sizes ? s->sizes[k % s->n_sizes] : 0;
  (void) suggested;
  if (k >= MAXA) { printf("h%d too-many-allocs\n", h); fflush(stdout); _exit(0); }
  if (len == 0) { *buf = uv_buf_init(NULL, 0); s->allocs[k].live = 0; s->allocs[k].base = NULL; }
  else { s->allocs[k].base = malloc(len); s->allocs[k].len = len; s->allocs[k].live = 1; *buf = uv_buf_init(s->allocs[k].base, len); }
  printf("h%d alloc a%u %zu\n", h, k, len);
}
static void recv_cb(uv_udp_t* u, ssize_t nread, const uv_buf_t* buf, const struct sockaddr* addr, unsigned flags) {
  int h = h_of_u(u); hs_t* s = H[h];
  cap(h);
  unsigned peer = 0;
  if (addr != NULL)
    peer = (addr->sa_family == AF_INET ? ntohs(((const struct sockaddr_in*) addr)->sin_port)
                                       : ntohs(((const struct sockaddr_in6*) addr)->sin6_port)) - 7000;
  printf("h%d cb recv %zd ", h, nread);
  int a = -1;
  if (buf->base != NULL)
    for (unsigned k = 0; k < s->n_alloc; k++)
      if (s->allocs[k].live && buf->base >= s->allocs[k].base && buf->base < s->allocs[k].base + s->allocs[k].len) a = (int) k;
  if (buf->base == NULL) printf("-");
  else if (a < 0) printf("unknown-buffer");
  else printf("a%d+%zu/%zu", a, (size_t) (buf->base - s->allocs[a].base), (size_t) buf->len);
  int bad = 0;
  if (nread > 0 && a >= 0)
    for (ssize_t o = 0; o < nread; o++) if ((unsigned char) buf->base[o] != (unsigned char) (peer * 31 + o * 13 + 5)) bad = 1;
  printf(" %u %u%s\n", peer, flags, bad ? " !" : "");
  if (!(flags & UV_UDP_MMSG_CHUNK) && a >= 0) {
    if (buf->base != s->allocs[a].base) printf("h%d handback-not-base\n", h);
    free(s->allocs[a].base); s->allocs[a].live = 0;   /* handed back: the user frees it */
  }
  run_script(h, 1, s->n_recvcb++);
}
static void close_cb(uv_handle_t* handle) { printf("h%d cb close\n", h_of_u((uv_udp_t*) handle)); }

static int parse_lens(const char* w, unsigned* lens, unsigned* n, unsigned* tot) {
  *n = 0; *tot = 0;
  if (strcmp(w, "-") == 0) return 1;
  while (*w) {
    char* e; unsigned long v = strtoul(w, &e, 10);
    if (e == w || *n >= 64) return 0;
    lens[(*n)++] = (unsigned) v; *tot += (unsigned) v;
    if (*e == ',') e++; else if (*e) return 0;
    w = e;
  }
  return 1;
}
static int dest_ok(int fam, unsigned d) { return d == 0 || d >= 3 || (d == 1 && fam == 4) || (d == 2 && fam == 6); }
static int tot_ok(unsigned tot) { return tot == 0 || (tot >= 6 && tot <= 60000); }
/* 1 if the op token is well formed and usable on a handle of this family */
static int op_ok(int fam, const char* tok) {
  unsigned d, en, cnt, lens[64], n, tot; char ls[4096];
  if (strlen(tok) >= sizeof ls) return 0;
  if (sscanf(tok, "send:%u:%u:%s", &d, &en, ls) == 3) return parse_lens(ls, lens, &n, &tot) && dest_ok(fam, d) && n > 0 && tot_ok(tot);
  if (sscanf(tok, "try:%u:%s", &d, ls) == 2) return parse_lens(ls, lens, &n, &tot) && dest_ok(fam, d) && tot_ok(tot);
  if (sscanf(tok, "try2:%u:%u:%s", &cnt, &d, ls) == 3) return parse_lens(ls, lens, &n, &tot) && dest_ok(fam, d) && d <= 3 && tot_ok(tot) && cnt <= 4096;
  return !strcmp(tok, "rstart") || !strcmp(tok, "rstop") || !strcmp(tok, "close");
}
static struct sockaddr_storage g_bogus;
static const struct sockaddr* dest_addr(unsigned d) {
  if (d == 0) return NULL;
  if (d == 1) return (const struct sockaddr*) &rx4a;
  if (d == 2) return (const struct sockaddr*) &rx6a;
  g_bogus.ss_family = AF_APPLETALK; return (const struct sockaddr*) &g_bogus;
}
static char* make_payload(int h, unsigned seq, unsigned tot) {
  char* p = malloc(tot + 1);
  for (unsigned o = 0; o < tot; o++) p[o] = (char) (seq * 7 + o * 13 + h);
  if (tot >= 6) { p[0] = seq & 255; p[1] = seq >> 8 & 255; p[2] = seq >> 16 & 255; p[3] = seq >> 24 & 255; p[4] = tot & 255; p[5] = tot >> 8 & 255; }
  return p;
}
static void split(char* p, const unsigned* lens, unsigned n, uv_buf_t* bufs) {
  size_t off = 0;
  for (unsigned j = 0; j < n; j++) { bufs[j] = uv_buf_init(p + off, lens[j]); off += lens[j]; }
}
static void do_op(int h, const char* tok) {
  hs_t* s = H[h];
  unsigned d, en, cnt, lens[64], n, tot; char ls[4096];
  if (s->closing) { printf("h%d skipped\n", h); return; }
  if (sscanf(tok, "send:%u:%u:%s", &d, &en, ls) == 3) {
    parse_lens(ls, lens, &n, &tot);
    sreq_t* r = calloc(1, sizeof *r); r->h = h; r->seq = s->seq++; r->payload = make_payload(h, r->seq, tot);
    uv_buf_t bufs[64]; split(r->payload, lens, n, bufs);
    if (en && n > 4) fail_next_malloc = 1;
    int rc = uv_udp_send(&r->req, s->u, bufs, n, dest_addr(d), send_cb);
    fail_next_malloc = 0;
    if (rc != 0) { free(r->payload); free(r); }
    printf("h%d ret %d\n", h, rc);
  } else if (sscanf(tok, "try:%u:%s", &d, ls) == 2) {
    parse_lens(ls, lens, &n, &tot);
    unsigned seq = s->seq++; char* p = make_payload(h, seq, tot);
    uv_buf_t bufs[64]; split(p, lens, n, bufs);
    int rc = uv_udp_try_send(s->u, bufs, n, dest_addr(d));
    free(p);
    printf("h%d ret %d\n", h, rc);
  } else if (sscanf(tok, "try2:%u:%u:%s", &cnt, &d, ls) == 3) {
    parse_lens(ls, lens, &n, &tot);
    char** ps = calloc(cnt + 1, sizeof *ps); uv_buf_t** bv = calloc(cnt + 1, sizeof *bv);
    unsigned* nb = calloc(cnt + 1, sizeof *nb); struct sockaddr** av = calloc(cnt + 1, sizeof *av);
    for (unsigned i = 0; i < cnt; i++) {
      ps[i] = make_payload(h, s->seq++, tot); bv[i] = calloc(n + 1, sizeof(uv_buf_t)); split(ps[i], lens, n, bv[i]);
      nb[i] = n; av[i] = (struct sockaddr*) dest_addr(d);
    }
    int rc = uv_udp_try_send2(s->u, cnt, bv, nb, av, 0);
    for (unsigned i = 0; i < cnt; i++) { free(ps[i]); free(bv[i]); }
    free(ps); free(bv); free(nb); free(av);
    printf("h%d ret %d\n", h, rc);
  } else if (!strcmp(tok, "rstart")) printf("h%d ret %d\n", h, uv_udp_recv_start(s->u, alloc_cb, recv_cb));
  else if (!strcmp(tok, "rstop")) printf("h%d ret %d\n", h, uv_udp_recv_stop(s->u));
  else if (!strcmp(tok, "close")) { s->closing = 1; s->fd = -1; uv_close((uv_handle_t*) s->u, close_cb); }
  else printf("bad-op\n");
}
static void obs(void) {
  printf("obs reqs=%u", loop.active_reqs.count);
  for (int i = 0; i < nH; i++)
    printf(" h%d:q=%zu/%zu:a=%d:s=%u", i, uv_udp_get_send_queue_size(H[i]->u), uv_udp_get_send_queue_count(H[i]->u),
           uv_is_active((uv_handle_t*) H[i]->u), H[i]->n_souts - H[i]->p_souts);   /* s = scripted outcomes not yet consumed */
  printf("\n");
}
static int hid(const char* w) { if (!w || w[0] != 'h' || w[1] < '0' || w[1] > '9') return -1; int i = atoi(w + 1); return i < nH ? i : -1; }

int main(void) {
  static char line[1 << 18];
  setvbuf(stdout, NULL, _IOLBF, 1 << 16);   /* a crash must not lose the log */
  uv_replace_allocator(my_malloc, realloc, calloc, free);
  uv_loop_init(&loop);
  rx4 = socket(AF_INET, SOCK_DGRAM, 0); rx6 = socket(AF_INET6, SOCK_DGRAM, 0);
  int big = 8 << 20; setsockopt(rx4, SOL_SOCKET, SO_RCVBUF, &big, sizeof big); setsockopt(rx6, SOL_SOCKET, SO_RCVBUF, &big, sizeof big);
  memset(&rx4a, 0, sizeof rx4a); rx4a.sin_family = AF_INET; rx4a.sin_addr.s_addr = htonl(INADDR_LOOPBACK);
  memset(&rx6a, 0, sizeof rx6a); rx6a.sin6_family = AF_INET6; rx6a.sin6_addr = in6addr_loopback;
  socklen_t sl = sizeof rx4a; bind(rx4, (struct sockaddr*) &rx4a, sl); getsockname(rx4, (struct sockaddr*) &rx4a, &sl);
  sl = sizeof rx6a; bind(rx6, (struct sockaddr*) &rx6a, sl); getsockname(rx6, (struct sockaddr*) &rx6a, &sl);
  while (fgets(line, sizeof line, stdin)) {
    char* save; char* w = strtok_r(line, " \n", &save);
    if (!w) continue;
    if (!strcmp(w, "new")) {
      char* hw = strtok_r(NULL, " \n", &save); char* f = strtok_r(NULL, " \n", &save);
      char* c = strtok_r(NULL, " \n", &save); char* mm = strtok_r(NULL, " \n", &save);
      if (!hw || !f || !c || !mm || hw[0] != 'h' || atoi(hw + 1) != nH || nH >= MAXH || (strcmp(f, "4") && strcmp(f, "6"))) { printf("bad-op\n"); continue; }
      hs_t* s = calloc(1, sizeof *s); s->u = malloc(sizeof *s->u); s->fam = atoi(f); s->conn = !strcmp(c, "1"); s->mmsg = !strcmp(mm, "1");
      int rc = uv_udp_init_ex(&loop, s->u, (s->fam == 4 ? AF_INET : AF_INET6) | (s->mmsg ? UV_UDP_RECVMMSG : 0));
      struct sockaddr_storage me; int ml = sizeof me;
      if (s->fam == 4) { struct sockaddr_in a; uv_ip4_addr("127.0.0.1", 0, &a); rc = rc ? rc : uv_udp_bind(s->u, (struct sockaddr*) &a, 0); }
      else { struct sockaddr_in6 a; uv_ip6_addr("::1", 0, &a); rc = rc ? rc : uv_udp_bind(s->u, (struct sockaddr*) &a, 0); }
      if (s->conn) rc = rc ? rc : uv_udp_connect(s->u, s->fam == 4 ? (struct sockaddr*) &rx4a : (struct sockaddr*) &rx6a);
      rc = rc ? rc : uv_udp_getsockname(s->u, (struct sockaddr*) &me, &ml);
      s->port = s->fam == 4 ? ntohs(((struct sockaddr_in*) &me)->sin_port) : ntohs(((struct sockaddr_in6*) &me)->sin6_port);
      uv_os_fd_t fd = -1; uv_fileno((uv_handle_t*) s->u, &fd);
      /* one real datagram from the peer that is never consumed: the fd stays readable */
      sendto(s->fam == 4 ? rx4 : rx6, "k", 1, 0, (struct sockaddr*) &me, ml);
      s->fd = fd; H[nH++] = s;
      printf("new h%d %d\n", nH - 1, rc); obs();
    } else if (!strcmp(w, "sout") || !strcmp(w, "rin") || !strcmp(w, "alloc") || !strcmp(w, "script")) {
      int h = hid(strtok_r(NULL, " \n", &save));
      if (h < 0) { printf("bad-op\n"); continue; }
      hs_t* s = H[h]; char* t; int bad = 0;
      if (!strcmp(w, "sout")) {
        while ((t = strtok_r(NULL, " \n", &save)) != NULL) {
          if ((t[0] != 'k' && t[0] != 'e') || t[1] < '0' || t[1] > '9' || s->n_souts >= MAXQ) { bad = 1; break; }
          s->souts[s->n_souts++] = strdup(t);
        }
      } else if (!strcmp(w, "rin")) {
        while ((t = strtok_r(NULL, " \n", &save)) != NULL) {
          ritem_t it; memset(&it, 0, sizeof it);
          if (s->n_rin >= MAXQ) { bad = 1; break; }
          if (!strcmp(t, "b")) it.kind = 'b';
          else if (t[0] == 'e' && t[1] >= '0' && t[1] <= '9') { it.kind = 'e'; it.e = atoi(t + 1); }
          else if (sscanf(t, "d%u:%u:%u", &it.len, &it.trunc, &it.peer) == 3) it.kind = 'd';
          else { bad = 1; break; }
          s->rin[s->n_rin++] = it;
        }
      } else if (!strcmp(w, "alloc")) {
        s->n_sizes = 0;
        while ((t = strtok_r(NULL, " \n", &save)) != NULL && s->n_sizes < 64) s->sizes[s->n_sizes++] = (unsigned) strtoul(t, NULL, 10);
      } else {
        char* kind = strtok_r(NULL, " \n", &save); char* k = strtok_r(NULL, " \n", &save);
        if (!kind || !k || (strcmp(kind, "send") && strcmp(kind, "recv")) || (unsigned) atoi(k) >= MAXS) { printf("bad-op\n"); continue; }
        char* rest = save ? strdup(save) : strdup("");
        char* copy = strdup(rest); char* sv2;
        for (t = strtok_r(copy, " \n", &sv2); t; t = strtok_r(NULL, " \n", &sv2)) if (!op_ok(s->fam, t)) bad = 1;
        free(copy);
        if (!bad) s->script[!strcmp(kind, "recv")][atoi(k)] = rest; else free(rest);
      }
      if (bad) printf("bad-op\n");
    } else if (!strcmp(w, "op")) {
      int h = hid(strtok_r(NULL, " \n", &save)); char* t = strtok_r(NULL, " \n", &save);
      if (h < 0 || !t || !op_ok(H[h]->fam, t)) { printf("bad-op\n"); continue; }
      cb_count = 0;
      do_op(h, t); print_wire(); obs();
    } else if (!strcmp(w, "run")) {
      cb_count = 0;
      uv_run(&loop, UV_RUN_NOWAIT);
      print_wire(); printf("ran\n"); obs();
    } else printf("bad-op\n");
  }
  fflush(stdout);
  return 0;
}
