/* C13 multi-thread monitor harness: every loop runs uv_run(UV_RUN_DEFAULT) on its own thread; the
 * controller (main thread, test signals blocked) sends API calls to the owning loop thread and raises
 * signals with kill(getpid()), so libuv's handler runs on whichever loop thread the kernel picks,
 * concurrently with the other loops.  Same line protocol as c13_sim.c minus run/runraise/script; after
 * every command all loops are brought to quiescence and their callbacks are printed per loop
 * (`... / ran L`), then the observations.
 *
 * Synchronisation without touching libuv: after each API call the controller wraps libuv's installed
 * handler in `wrap` (same flags, same mask), which calls it and then bumps a counter, so `raise` can wait
 * until the handler has really finished.  Quiescence of a loop = two round trips of a no-op command
 * through its uv_async (the signal pipe is read in the same iteration that serves the first one). */
#include <dlfcn.h>
#include <pthread.h>
#include <semaphore.h>
#include <signal.h>
#include <stdatomic.h>
#include <stdio.h>
#include <stdlib.h>
#include <string.h>
#include <unistd.h>
#include "uv.h"

#define MAXL 8
#define MAXH 32
static uv_loop_t* loops[MAXL];
static pthread_t thr[MAXL];
static uv_async_t wake[MAXL];
static sem_t done[MAXL], started[MAXL];
static struct { char op[16]; int h, sig, rc, ok, pause, cbid; } cmd[MAXL];
/* `race`: the first command is held inside its first sigaction(act != NULL) call - for libuv that is
 * inside the critical section of the signal lock - while the second one is issued on another loop */
static _Thread_local int pause_armed;
static sem_t evt, release_sem;
static atomic_int paused;

int sigaction(int sig, const struct sigaction* act, struct sigaction* old) {
  static int (*real)(int, const struct sigaction*, struct sigaction*);
  if (!real) real = (int (*)(int, const struct sigaction*, struct sigaction*)) dlsym(RTLD_NEXT, "sigaction");
  if (act != NULL && pause_armed) {
    pause_armed = 0;
    atomic_store(&paused, 1);
    sem_post(&evt);
    sem_wait(&release_sem);
  }
  return real(sig, act, old);
}
static char* logbuf[MAXL]; static size_t loglen[MAXL], logcap[MAXL];
static uv_signal_t* hs[MAXH];
static int hloop[MAXH], freed[MAXH];
static int nl, nh;
static const int SIGS[] = { SIGHUP, SIGUSR1, SIGUSR2, SIGWINCH };
#define NSIGS 4
static void (*uv_handler)(int);
static atomic_int handled;

static void wrap(int sig) { uv_handler(sig); atomic_fetch_add(&handled, 1); }

static void rewrap(void) {
  for (int j = 0; j < NSIGS; j++) {
    struct sigaction sa;
    sigaction(SIGS[j], NULL, &sa);
    if (sa.sa_handler != SIG_DFL && sa.sa_handler != wrap) {
      uv_handler = sa.sa_handler;
      sa.sa_handler = wrap;
      sigaction(SIGS[j], &sa, NULL);
    }
  }
}

static void logf_(int L, const char* fmt, int a, int b, int c) {
  char tmp[64]; int n = snprintf(tmp, sizeof tmp, fmt, a, b, c);
  if (loglen[L] + n + 1 > logcap[L]) { logcap[L] = (logcap[L] + n + 64) * 2; logbuf[L] = realloc(logbuf[L], logcap[L]); }
  memcpy(logbuf[L] + loglen[L], tmp, n + 1); loglen[L] += n;
}

static int cmpp(const void* a, const void* b) {
  uintptr_t x = (uintptr_t) *(void* const*) a, y = (uintptr_t) *(void* const*) b;
  return x < y ? -1 : x > y;
}
static int idof(uv_signal_t* h) { for (int i = 0; i < nh; i++) if (hs[i] == h) return i; return -1; }

static void close_cb(uv_handle_t* h) {
  int i = idof((uv_signal_t*) h);
  logf_(hloop[i], "cb close h%d\n", i, 0, 0);
  freed[i] = 1; hs[i] = NULL; free(h);
}

static void signal_cb_any(uv_signal_t* h, int signum, int which) {
  int i = idof(h);
  if (!pthread_equal(pthread_self(), thr[hloop[i]])) logf_(hloop[i], "cb wrongthread h%d %d c%d\n", i, signum, which);
  else logf_(hloop[i], "cb signal h%d %d c%d\n", i, signum, which);
}
static void signal_cb_a(uv_signal_t* h, int signum) { signal_cb_any(h, signum, 0); }
static void signal_cb_b(uv_signal_t* h, int signum) { signal_cb_any(h, signum, 1); }

static void wake_cb(uv_async_t* a) {
  int L = (int) (a - wake);
  int i = cmd[L].h;
  int wants_pause = cmd[L].pause;
  uv_signal_cb signal_cb = cmd[L].cbid ? signal_cb_b : signal_cb_a;
  cmd[L].ok = 0;
  pause_armed = wants_pause;
  if (!strcmp(cmd[L].op, "nop")) cmd[L].ok = 1;
  else if (!strcmp(cmd[L].op, "ref") || !strcmp(cmd[L].op, "unref")) {
    if (i >= 0 && i < nh && !freed[i]) {
      if (cmd[L].op[0] == 'r') uv_ref((uv_handle_t*) hs[i]); else uv_unref((uv_handle_t*) hs[i]);
      cmd[L].rc = 0; cmd[L].ok = 1;
    }
  }
  else if (i >= 0 && i < nh && !freed[i] && !uv_is_closing((uv_handle_t*) hs[i])) {
    cmd[L].ok = 1;
    if (!strcmp(cmd[L].op, "start")) cmd[L].rc = uv_signal_start(hs[i], signal_cb, cmd[L].sig);
    else if (!strcmp(cmd[L].op, "oneshot")) cmd[L].rc = uv_signal_start_oneshot(hs[i], signal_cb, cmd[L].sig);
    else if (!strcmp(cmd[L].op, "stop")) cmd[L].rc = uv_signal_stop(hs[i]);
    else if (!strcmp(cmd[L].op, "close")) { uv_close((uv_handle_t*) hs[i], close_cb); cmd[L].rc = 0; }
    else cmd[L].ok = 0;
    pause_armed = 0;
    rewrap();
  }
  pause_armed = 0;
  cmd[L].pause = 0;
  sem_post(&done[L]);
  if (wants_pause) sem_post(&evt);
}

static void* loop_main(void* arg) {
  int L = (int) (intptr_t) arg;
  sem_post(&started[L]);
  uv_run(loops[L], UV_RUN_DEFAULT);
  return NULL;
}

static int call(int L, const char* op, int h, int sig, int cbid, int* rc) {
  snprintf(cmd[L].op, sizeof cmd[L].op, "%s", op); cmd[L].h = h; cmd[L].sig = sig; cmd[L].pause = 0; cmd[L].cbid = cbid & 1;
  uv_async_send(&wake[L]);
  sem_wait(&done[L]);
  if (rc) *rc = cmd[L].rc;
  return cmd[L].ok;
}

static void post(int L, const char* op, int h, int sig, int cbid, int pause) {
  snprintf(cmd[L].op, sizeof cmd[L].op, "%s", op); cmd[L].h = h; cmd[L].sig = sig; cmd[L].pause = pause; cmd[L].cbid = cbid & 1;
  uv_async_send(&wake[L]);
}

static int valid_op(const char* op) {
  return !strcmp(op, "start") || !strcmp(op, "oneshot") || !strcmp(op, "stop") || !strcmp(op, "close") ||
         !strcmp(op, "ref") || !strcmp(op, "unref");
}

static void print_ret(int L) { if (cmd[L].ok) printf("ret %d\n", cmd[L].rc); else printf("ret skip\n"); }

/* race A | B on different loops: A is held at its sigaction call while B is given 30 ms to run */
static void race(const char* op1, int h1, int s1, int c1, const char* op2, int h2, int s2, int c2) {
  int A = hloop[h1], B = hloop[h2];
  atomic_store(&paused, 0);
  post(A, op1, h1, s1, c1, 1);
  sem_wait(&evt);
  if (atomic_load(&paused)) {
    struct timespec ts;
    int got;
    post(B, op2, h2, s2, c2, 0);
    clock_gettime(CLOCK_REALTIME, &ts);
    ts.tv_nsec += 30 * 1000000; if (ts.tv_nsec >= 1000000000) { ts.tv_sec++; ts.tv_nsec -= 1000000000; }
    got = sem_timedwait(&done[B], &ts) == 0;
    sem_post(&release_sem);
    sem_wait(&done[A]); sem_wait(&evt);
    if (!got) sem_wait(&done[B]);
  } else {
    sem_wait(&done[A]);
    post(B, op2, h2, s2, c2, 0);
    sem_wait(&done[B]);
  }
  print_ret(A);      /* note: A's slot is intact, B used another loop's slot */
  print_ret(B);
}

static void quiesce_and_print(void) {
  for (int L = 0; L < nl; L++) { call(L, "nop", 0, 0, 0, NULL); call(L, "nop", 0, 0, 0, NULL); }
  for (int L = 0; L < nl; L++) {
    if (loglen[L]) fputs(logbuf[L], stdout);
    loglen[L] = 0;
    printf("ran %d\n", L);
  }
  printf("obs sigaction");
  for (int j = 0; j < NSIGS; j++) {
    struct sigaction sa;
    sigaction(SIGS[j], NULL, &sa);
    printf(" %d=%s", SIGS[j], sa.sa_handler == SIG_DFL ? "dfl" : (sa.sa_flags & SA_RESETHAND) ? "uv/reset" : "uv");
    if (sa.sa_handler != SIG_DFL) {
      /* the anchored mechanism: libuv's handler runs with every signal blocked (it takes a lock that a
       * nested handler on the same thread would wait for forever) and with SA_RESTART.  Deviations only. */
      int full = 1;
      for (int g = 1; g < 65; g++)
        if (g != SIGKILL && g != SIGSTOP && g != 32 && g != 33 && sigismember(&sa.sa_mask, g) != 1) full = 0;
      if (!full) printf("!nomask");
      if (!(sa.sa_flags & SA_RESTART)) printf("!norestart");
    }
  }
  printf("\nobs handles");
  for (int i = 0; i < nh; i++) {
    if (freed[i]) { printf(" %d:x", i); continue; }
    printf(" %d:%d%s:%d:%u:%u:%c", i, uv_is_active((uv_handle_t*) hs[i]), uv_is_closing((uv_handle_t*) hs[i]) ? "c" : "",
           hs[i]->signum, hs[i]->caught_signals, hs[i]->dispatched_signals, uv_has_ref((uv_handle_t*) hs[i]) ? 'r' : 'u');
  }
  printf("\n");
}

int main(void) {
  char line[4096];
  sigset_t set;
  setvbuf(stdout, NULL, _IOLBF, 0);
  sigemptyset(&set);
  for (int j = 0; j < NSIGS; j++) { signal(SIGS[j], SIG_DFL); sigaddset(&set, SIGS[j]); }
  pthread_sigmask(SIG_UNBLOCK, &set, NULL);
  sem_init(&evt, 0, 0); sem_init(&release_sem, 0, 0);
  while (fgets(line, sizeof line, stdin)) {
    char op[16]; int i, sig = 0, cbid = 0;
    if (!strncmp(line, "init ", 5)) {
      char* p = line + 5; int n;
      if (nl || sscanf(p, "%d%n", &nl, &n) != 1 || nl < 1 || nl > MAXL) { printf("bad-op\n"); continue; }
      p += n;
      while (nh < MAXH && sscanf(p, "%d%n", &hloop[nh], &n) == 1 && hloop[nh] >= 0 && hloop[nh] < nl) { nh++; p += n; }
      for (i = 0; i < nl; i++) loops[i] = malloc(sizeof(uv_loop_t));
      for (i = 0; i < nh; i++) hs[i] = malloc(sizeof(uv_signal_t));
      qsort(loops, nl, sizeof loops[0], cmpp);
      qsort(hs, nh, sizeof hs[0], cmpp);
      for (i = 0; i < nl; i++) { if (uv_loop_init(loops[i])) abort(); uv_async_init(loops[i], &wake[i], wake_cb); sem_init(&done[i], 0, 0); sem_init(&started[i], 0, 0); }
      for (i = 0; i < nh; i++) if (uv_signal_init(loops[hloop[i]], hs[i])) abort();
      /* loop threads inherit an empty mask for the test signals; the controller then blocks them */
      for (i = 0; i < nl; i++) { pthread_create(&thr[i], NULL, loop_main, (void*) (intptr_t) i); sem_wait(&started[i]); }
      pthread_sigmask(SIG_BLOCK, &set, NULL);
      quiesce_and_print();
    } else if (sscanf(line, "raise %d", &sig) == 1) {
      struct sigaction sa; int known = 0;
      for (int j = 0; j < NSIGS; j++) known |= SIGS[j] == sig;
      if (!known || !nl) { printf("bad-op\n"); continue; }
      sigaction(sig, NULL, &sa);
      if (sa.sa_handler == SIG_DFL) printf("raise skipped-default\n");
      else {
        int before = atomic_load(&handled), spins = 0;
        kill(getpid(), sig);
        while (atomic_load(&handled) == before && spins++ < 5000) usleep(1000);
        printf(atomic_load(&handled) == before ? "raise lost\n" : "raised\n");
      }
      quiesce_and_print();
    } else if (!strncmp(line, "race ", 5) && nl) {
      char op1[16], op2[16], a1[64] = "", a2[64] = ""; int h1, h2, s1 = 0, s2 = 0, c1 = 0, c2 = 0;
      char* bar = strchr(line, '|');
      if (!bar) { printf("bad-op\n"); continue; }
      *bar = 0;
      if (sscanf(line + 5, "%15s h%d %d %d", op1, &h1, &s1, &c1) < 2 || sscanf(bar + 1, "%15s h%d %d %d", op2, &h2, &s2, &c2) < 2 ||
          !valid_op(op1) || !valid_op(op2) || h1 < 0 || h1 >= nh || h2 < 0 || h2 >= nh || hloop[h1] == hloop[h2]) { printf("bad-op\n"); continue; }
      (void) a1; (void) a2;
      race(op1, h1, s1, c1, op2, h2, s2, c2);
      quiesce_and_print();
    } else if (sscanf(line, "%15s h%d %d %d", op, &i, &sig, &cbid) >= 2 && i >= 0 && i < nh && nl) {
      int rc = 0;
      if (strcmp(op, "start") && strcmp(op, "oneshot") && strcmp(op, "stop") && strcmp(op, "close") &&
          strcmp(op, "ref") && strcmp(op, "unref")) { printf("bad-op\n"); continue; }
      if (call(hloop[i], op, i, sig, cbid, &rc)) printf("ret %d\n", rc); else printf("ret skip\n");
      quiesce_and_print();
    } else if (line[0] != '\n') printf("bad-op\n");
  }
  fflush(stdout);
  _exit(0);
}
