/* unit harness for src/heap-inl.h at the pointer level: the real heap_insert / heap_remove / heap_dequeue on
 * an array of nodes, same line protocol and same canonical output (node ids 1..n, NULL = 0, never addresses)
 * as `uvdriver heapptr`.  After every valid op the WHOLE memory is printed: left:right:parent of every node
 * cell (stale cells of removed nodes included, the C does not clear them), then heap.min and heap.nelts. */
#include <stdio.h>
#include <stdlib.h>
#include <string.h>
#include "heap-inl.h"

#define MAXN 64
struct ent { struct heap_node node; unsigned long long key; };
static struct ent node[MAXN + 1];       /* node[0] unused: id 0 is NULL */
static struct heap heap;
static int n;

static int idx(const struct heap_node* p) { return p ? (int) ((const struct ent*) p - node) : 0; }

static int less_than(const struct heap_node* a, const struct heap_node* b) {
  return ((const struct ent*) a)->key < ((const struct ent*) b)->key;
}

static void dump(void) {
  int i;
  printf("mem");
  for (i = 1; i <= n; i++)
    printf(" %d:%d:%d", idx(node[i].node.left), idx(node[i].node.right), idx(node[i].node.parent));
  printf(" | %d %u\n", idx(heap.min), heap.nelts);
  fflush(stdout);                         /* a later crash must not swallow the lines already produced */
}

/* decimal digits only; returns 0 when the token is not a number */
static int num(const char* s, unsigned long long* v) {
  char* e;
  if (*s < '0' || *s > '9') return 0;
  *v = strtoull(s, &e, 10);
  return *e == '\0';
}

static int ok(unsigned long long a) { return a >= 1 && a <= (unsigned long long) n; }

int main(void) {
  char line[256];
  heap_init(&heap);
  while (fgets(line, sizeof line, stdin)) {
    char* w[5]; int k = 0; char* t;
    unsigned long long a = 0, b = 0;
    for (t = strtok(line, " \t\r\n"); t != NULL && k < 5; t = strtok(NULL, " \t\r\n")) w[k++] = t;
    if (k == 0) continue;
    if (!strcmp(w[0], "reset") && k == 2 && num(w[1], &a) && a <= MAXN) {
      n = (int) a;
      heap_init(&heap);
      memset(node, 0, sizeof node);
      dump();
    } else if (!strcmp(w[0], "ins") && k == 3 && num(w[1], &a) && num(w[2], &b) && ok(a)) {
      node[a].key = b;
      heap_insert(&heap, &node[a].node, less_than);
      dump();
    } else if (!strcmp(w[0], "rem") && k == 2 && num(w[1], &a) && ok(a)) {
      heap_remove(&heap, &node[a].node, less_than);
      dump();
    } else if (!strcmp(w[0], "deq") && k == 1) {
      heap_dequeue(&heap, less_than);
      dump();
    } else puts("bad-op");
  }
  return 0;
}
