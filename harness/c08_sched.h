/* C08 — baton-passing serialising scheduler (DESIGN §2.3 item 3), private copy for C08.
 *
 * Every "thread" of the program under test is a real pthread parked on a private semaphore;
 * exactly one of them (or the controller) runs at any time.  The controller (main thread)
 * reads the schedule and resumes one thread per schedule line; the thread runs until its next
 * stop point and hands the baton back.  Mutexes, condition variables and semaphores of the
 * code under test are *modelled* (owner fields / flags), never real, so "blocked" is a state
 * the controller can see exactly.
 */
#ifndef C08_SCHED_H
#define C08_SCHED_H
#include <stdarg.h>
#include <pthread.h>
#include <semaphore.h>
#include <stdio.h>
#include <stdlib.h>
#include <string.h>
#include <unistd.h>

enum { K_WORKER, K_LOOP };
enum { ST_NEW, ST_START, ST_WAIT, ST_UNLOCKED, ST_INWORK, ST_CMD, ST_BLOCKED, ST_DEAD,
       ST_INIT /* inside the pool's one-time initialisation */, ST_ONCE /* waiting in uv_once for the initialiser */,
       ST_SEMWAIT /* initialiser waits for a new worker's start-up post */ };

struct mx { void* addr; struct th* owner; char name[8]; };

struct th {
  pthread_t pt;
  sem_t sem;
  int kind, idx, state;
  int signalled;          /* ST_WAIT: woken by signal or spuriously */
  int die;
  int nheld;              /* modelled mutexes held */
  long unlock_stops;      /* remaining unlock-exit stop points (loop threads: per API call) */
  void* last_unlock;
  struct mx* blocked_on;
  int item;               /* ST_INWORK: item id */
  void (*entry)(void*);
  void* arg;
  int cmd, a, b;          /* command for a loop thread in ST_CMD */
};

#define MAXTH 24
#define MAXMX 16
static struct th TH[MAXTH];
static int nth;
static struct mx MX[MAXMX];
static int nmx;
static sem_t ctl_sem;
static __thread struct th* self;
static unsigned cur_choice;
static char trace[512], events[512];

static void tok(char* buf, const char* fmt, ...) {
  va_list ap;
  size_t n = strlen(buf);
  if (n > 480) return;
  if (n) buf[n++] = ',';
  va_start(ap, fmt);
  vsnprintf(buf + n, 500 - n, fmt, ap);
  va_end(ap);
}

static void stop_point(int state) {
  self->state = state;
  sem_post(&ctl_sem);
  sem_wait(&self->sem);
  if (self->die)
    pthread_exit(NULL);
}

/* controller: let `t` run until its next stop point */
static void resume(struct th* t) {
  sem_post(&t->sem);
  sem_wait(&ctl_sem);
}

static void* trampoline(void* p) {
  self = p;
  sem_wait(&self->sem);
  if (self->die)
    return NULL;
  self->entry(self->arg);
  self->state = ST_DEAD;
  sem_post(&ctl_sem);
  return NULL;
}

static struct th* th_new(int kind, int idx, void (*entry)(void*), void* arg) {
  struct th* t = &TH[nth++];
  pthread_attr_t at;
  memset(t, 0, sizeof(*t));
  t->kind = kind; t->idx = idx; t->entry = entry; t->arg = arg; t->state = ST_NEW;
  t->unlock_stops = kind == K_WORKER ? 1L << 60 : 0;
  sem_init(&t->sem, 0, 0);
  pthread_attr_init(&at);
  pthread_attr_setstacksize(&at, 256 * 1024);
  if (pthread_create(&t->pt, &at, trampoline, t)) abort();
  pthread_attr_destroy(&at);
  return t;
}

static void th_kill_all(void) {
  int i;
  for (i = 0; i < nth; i++) {
    TH[i].die = 1;
    sem_post(&TH[i].sem);
    pthread_join(TH[i].pt, NULL);
    sem_destroy(&TH[i].sem);
  }
  nth = 0;
  nmx = 0;
}

static struct mx* mx_find(void* addr) {
  int i;
  for (i = 0; i < nmx; i++)
    if (MX[i].addr == addr) return &MX[i];
  return NULL;
}

static struct mx* mx_reg(void* addr, const char* name) {
  struct mx* m = mx_find(addr);
  if (m == NULL) m = &MX[nmx++];
  m->addr = addr; m->owner = NULL;
  snprintf(m->name, sizeof(m->name), "%s", name);
  return m;
}

static void sched_lock(void* addr) {
  struct mx* m = mx_find(addr);
  if (m == NULL) {
    printf("MON uninit-pool-use a mutex is locked that was never initialised (pool used before/while it is set up)\n");
    fflush(stdout);
    _exit(3);
  }
  if (self == NULL) { printf("MON controller locks\n"); abort(); }
  while (m->owner != NULL) {           /* contended: not runnable until released */
    self->blocked_on = m;
    stop_point(ST_BLOCKED);
  }
  self->blocked_on = NULL;
  m->owner = self;
  self->nheld++;
  tok(trace, "+%s", m->name);
}

static void sched_unlock(void* addr) {
  struct mx* m = mx_find(addr);
  if (m == NULL || m->owner != self) { printf("MON unlock of a mutex not held\n"); fflush(stdout); abort(); }
  m->owner = NULL;
  self->nheld--;
  tok(trace, "-%s", m->name);
  if (self->nheld == 0 && self->unlock_stops > 0) {
    self->unlock_stops--;
    self->last_unlock = addr;
    stop_point(ST_UNLOCKED);
  }
}

/* uv_cond_wait: release, park until signalled (or spuriously woken by the schedule), re-acquire */
static void sched_cond_wait(void* maddr) {
  struct mx* m = mx_find(maddr);
  if (m == NULL || m->owner != self) { printf("MON cond_wait without the mutex\n"); fflush(stdout); abort(); }
  m->owner = NULL;
  self->nheld--;
  tok(trace, "wait");
  self->signalled = 0;
  stop_point(ST_WAIT);
  while (m->owner != NULL) {
    self->blocked_on = m;
    stop_point(ST_BLOCKED);
  }
  self->blocked_on = NULL;
  m->owner = self;
  self->nheld++;
  tok(trace, "+%s", m->name);
}

/* uv_cond_signal: wake one waiter if any; which one is the schedule's choice */
static void sched_cond_signal(void) {
  int i, k = 0, pick;
  tok(trace, "sig");
  for (i = 0; i < nth; i++)
    if (TH[i].kind == K_WORKER && TH[i].state == ST_WAIT && !TH[i].signalled) k++;
  if (k == 0) return;
  pick = cur_choice % k;
  for (i = 0; i < nth; i++)
    if (TH[i].kind == K_WORKER && TH[i].state == ST_WAIT && !TH[i].signalled && pick-- == 0) {
      TH[i].signalled = 1;
      return;
    }
}

#endif
