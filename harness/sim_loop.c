/* Loop simulator for C01/C02/C03 (implementation side of the correspondence).
 *
 * Links the freshly built libuv of the working tree and defines clock_gettime /
 * epoll_pwait itself (static link: these definitions win over libc for libuv's
 * calls), so the whole loop runs on a virtual clock and a deterministic poller.
 *
 * Input  (stdin): a *program*
 *     config metrics 0|1 | config clock0 N | config cblimit N | config eintr k:d ...
 *     on <h|c|r><N> <occurrence> <op> ; <op> ; ...     (what the k-th invocation of a callback does)
 *     op <op>                                             (main program)
 * Output (stdout): `op <text> -> ret N|bad-op`, `cb <kind> <id> [args]` ... `endcb`,
 *     `env poll timeout=T clock=C done=K -> EINTR|DEADLOCK|[owner:events ...]`,
 *     and after every op / callback entry / callback exit an `obs` line.
 * The model driver (`uvdriver loop`) reads the same program plus the `env` lines and
 * must reproduce every other line.  argv[1] = scratch directory.
 */
#include <stdio.h>
#include <stdlib.h>
#include <string.h>
#include <errno.h>
#include <time.h>
#include <unistd.h>
#include <fcntl.h>
#include <dirent.h>
#include <pthread.h>
#include <signal.h>
#include <sys/epoll.h>
#include <sys/socket.h>
#include <sys/syscall.h>
#include <sys/stat.h>
#include <sys/wait.h>
#include <poll.h>
#include <semaphore.h>
#include <netinet/in.h>
#include <arpa/inet.h>
#include <stddef.h>
#include <netdb.h>
#include <limits.h>
#include "uv.h"
#include "uv-common.h"   /* uv__get_internal_fields(loop)->iou: the io_uring ring (completion queue, in_flight) */

/* ------------------------------------------------------------------ virtual clock */
static uint64_t vclock_ms = 1000;
int clock_gettime(clockid_t id, struct timespec* ts) {
  (void) id;
  ts->tv_sec = vclock_ms / 1000;
  ts->tv_nsec = (vclock_ms % 1000) * 1000000;
  return 0;
}

/* ------------------------------------------------------------------ tables */
enum { K_TIMER, K_IDLE, K_PREPARE, K_CHECK, K_ASYNC, K_POLL, K_TCP, K_UDP, K_PIPE, K_SIGNAL, K_FSEVENT, K_NKINDS, K_PROCESS };   /* processes are created by `spawn`, not `init` */
static const char* kind_names[] = { "timer", "idle", "prepare", "check", "async", "poll", "tcp", "udp", "pipe", "signal", "fs_event" };
enum { H_NONE, H_LIVE, H_DEAD };

#define MAXH 256
#define MAXR 512
#define MAXS 4096
typedef struct {
  int kind, state, ncb;
  uv_handle_t* ptr;
  int fd_a, fd_b;     /* poll: socketpair (a is watched) */
  int bound;          /* tcp/pipe/udp: socket exists */
  int conn_pending;   /* pipe: a connect request is outstanding */
  int pid, reaped;    /* process */
  int oneshot;        /* signal: started with uv_signal_start_oneshot */
  int dupfd;          /* tcp/udp/pipe: a dup of the socket kept open by the application (the open file outlives uv_close) */
  char path[400];     /* pipe */
} hent;
typedef struct { int kind; int state; void* ptr; int handle; int aux; } rent;   /* kind 0 = work, 1 = udp_send, 2 = connect, 3 = work_nocb, 4 = udp_send_nocb, 5 = write, 6 = fs, 7 = getaddrinfo, 8 = getnameinfo, 9 = random */
#define POOLKIND(k) ((k) == 0 || (k) == 3 || ((k) >= 6 && (k) <= 9))
#define GATED(k) ((k) == 0 || (k) == 3)      /* only uv_queue_work's work_cb waits for the poller */
static hent H[MAXH]; static int nh;
static rent R[MAXR]; static int nr;
typedef struct { char key; int id, occ; char* ops; } sent;
static sent S[MAXS]; static int ns;

static uv_loop_t loop_storage;
static int use_default;   /* the loop under test is uv_default_loop(), looked up afresh at every use */
#define LP (use_default ? uv_default_loop() : &loop_storage)
static int loop_closed, in_cb, in_run;
static long ncb_total, cblimit = 1000000;
static int cfg_metrics;
static char scratch[160] = "/var/tmp";
static int sink_fd; static struct sockaddr_in sink_addr;
static struct { long k; long d; } eintr[64]; static int neintr;
static long fullat[128]; static int nfull;   /* poll calls whose non-empty batch is padded to a completely full one */
static long npolls, polllimit = 400;
static int fs_traffic, touch_no;
static long sigpipe_sz; static int sig_traffic;
static long soerror_budget;   /* that many getsockopt(SO_ERROR) queries answer EINPROGRESS (spurious connect wake-ups) */
static int lsn_fd; static struct sockaddr_in lsn_addr, dead_addr;   /* a listener that never accepts; a port nobody listens on */
static int oneshot_raise_used;
static int fail_socket_errno;   /* next socket() fails with this errno */

/* ------------------------------------------------------------------ thread pool gate */
static pthread_mutex_t gm = PTHREAD_MUTEX_INITIALIZER;
static pthread_cond_t gc = PTHREAD_COND_INITIALIZER;
static long tickets, started; static int gate_forever;
static int pool_running = -1; static int pool_q[MAXR]; static int pool_qn;
static int owed_works;   /* works submitted whose after_work_cb has not begun */

static void work_cb(uv_work_t* req) {
  (void) req;
  pthread_mutex_lock(&gm);
  started++;
  pthread_cond_broadcast(&gc);
  while (tickets == 0 && !gate_forever) pthread_cond_wait(&gc, &gm);
  if (tickets > 0) tickets--;
  pthread_mutex_unlock(&gm);
}

static int wq_count(void) {
  int n = 0; struct uv__queue* q;
  uv_mutex_lock(&LP->wq_mutex);
  for (q = LP->wq.next; q != &LP->wq; q = q->next) n++;
  uv_mutex_unlock(&LP->wq_mutex);
  return n;
}

/* let every started/queued work finish; returns how many finished now */
static int complete_works(void) {
  int n = (pool_running >= 0) + pool_qn;
  if (n == 0) return 0;
  int c0 = wq_count();   /* cancelled items already sit there; the loop thread is parked, so the queue only grows */
  int g = (pool_running >= 0);   /* tickets only for the items that wait for one (fs / getaddrinfo / random work runs through) */
  for (int i = 0; i < pool_qn; i++) if (GATED(R[pool_q[i]].kind)) g++;
  pthread_mutex_lock(&gm);
  tickets += g;
  pthread_cond_broadcast(&gc);
  pthread_mutex_unlock(&gm);
  for (int i = 0; i < 100000 && wq_count() < c0 + n; i++) usleep(50);
  pool_running = -1; pool_qn = 0;
  return n;
}

/* ------------------------------------------------------------------ observation */
static void walk_count(uv_handle_t* h, void* arg) { (void) h; ++*(int*) arg; }
static void obs(void) {
  if (loop_closed) { printf("obs closed\n"); return; }
  int n = 0; uv_walk(LP, walk_count, &n);
  printf("obs alive=%d ah=%d ar=%d stop=%d nh=%d now=%llu pq=", uv_loop_alive(LP) != 0, (int) LP->active_handles,
         (int) LP->active_reqs.count, LP->stop_flag != 0, n, (unsigned long long) uv_now(LP));
  {  /* owners of the io watchers queued in loop->pending_queue (public struct field) */
    struct uv__queue* q; int first = 1;
    for (q = LP->pending_queue.next; q != &LP->pending_queue; q = q->next) {
      uv__io_t* w = (uv__io_t*) ((char*) q - offsetof(uv__io_t, pending_queue));
      int owner = -1;
      for (int i = 0; i < nh; i++) if (H[i].state == H_LIVE && (H[i].kind == K_UDP || H[i].kind == K_TCP || H[i].kind == K_PIPE)) {
        uv__io_t* hw = H[i].kind == K_UDP ? &((uv_udp_t*) H[i].ptr)->io_watcher : &((uv_stream_t*) H[i].ptr)->io_watcher;
        if (hw == w) owner = i;
      }
      if (owner >= 0) printf("%sh%d", first ? "" : ",", owner); else printf("%s?", first ? "" : ",");
      first = 0;
    }
    if (first) printf("-");
  }
  for (int i = 0; i < nh; i++) if (H[i].state == H_LIVE)
    printf(" h%d=%c%c%c", i, uv_is_active(H[i].ptr) ? 'A' : '-', uv_has_ref(H[i].ptr) ? 'R' : '-', uv_is_closing(H[i].ptr) ? 'C' : '-');
  printf("\n");
}

/* ------------------------------------------------------------------ allocator with a fault schedule */
static pthread_t main_thr;
static int fail_alloc_in;    /* the n-th allocation made by the loop thread from now on fails (1 = the next one) */
static int alloc_hit(void) { return fail_alloc_in && pthread_equal(pthread_self(), main_thr) && --fail_alloc_in == 0; }
static void* h_malloc(size_t n) { return alloc_hit() ? NULL : malloc(n); }
static void* h_calloc(size_t a, size_t b) { return alloc_hit() ? NULL : calloc(a, b); }
static void* h_realloc(void* p, size_t n) { return alloc_hit() ? NULL : realloc(p, n); }

/* ------------------------------------------------------------------ a second thread inside uv_async_send */
static __thread int tls_park;     /* this thread is to be held right after its wake-up write */
static sem_t parked_sem;
static pthread_t helpers[64]; static int nhelpers;
ssize_t write(int fd, const void* buf, size_t n) {
  ssize_t r = syscall(SYS_write, fd, buf, n);
  if (tls_park) { int e = errno; tls_park = 0; sem_post(&parked_sem); usleep(40000); errno = e; }   /* still inside uv_async_send */
  return r;
}
static void* helper_send(void* arg) { tls_park = 1; uv_async_send((uv_async_t*) arg); tls_park = 0; return NULL; }
static void join_helpers(void) { for (int i = 0; i < nhelpers; i++) pthread_join(helpers[i], NULL); nhelpers = 0; }

/* children that have been spawned and not yet reported: make their exit visible before the poller looks */
static void await_children(void);
static void drain_sink(void);

/* ------------------------------------------------------------------ epoll wrapper */
/* ------------------------------------------------------------------ io_uring ring of the loop */
struct h_cqe { uint64_t user_data; int32_t res; uint32_t flags; };
static int ridof(void* p);
static struct uv__iou* IOU(void) { return &uv__get_internal_fields(LP)->iou; }
static int ring_wait_broken;
/* hold the poller until every request in flight in the ring has its completion entry (bounded: a request that was
 * counted but never submitted has none) */
static void await_ring(void) {
  struct uv__iou* iou = IOU();
  if (iou->ringfd < 0 || iou->in_flight == 0 || ring_wait_broken) return;
  for (int i = 0; i < 8000; i++) {
    uint32_t tail = __atomic_load_n(iou->cqtail, __ATOMIC_ACQUIRE);
    if (tail - *iou->cqhead >= iou->in_flight) return;
    usleep(50);
  }
  ring_wait_broken = 1;
}
static void ring_name(char* name, size_t cap) {
  struct uv__iou* iou = IOU();
  uint32_t head = *iou->cqhead, tail = __atomic_load_n(iou->cqtail, __ATOMIC_ACQUIRE);
  size_t l = (size_t) snprintf(name, cap, "ring=");
  if (head == tail) { snprintf(name + l, cap - l, "-"); return; }
  for (uint32_t i = head; i != tail && l + 12 < cap; i++) {
    struct h_cqe* e = &((struct h_cqe*) iou->cqe)[i & iou->cqmask];
    l += (size_t) snprintf(name + l, cap - l, "%sr%d", i == head ? "" : ",", ridof((void*) (uintptr_t) e->user_data));
  }
}

static int owner_key(int fd, char* name) {
  if (fd == LP->async_io_watcher.fd) { strcpy(name, "async"); return 0; }
  if (IOU()->ringfd >= 0 && fd == IOU()->ringfd) { ring_name(name, 200); return -1; }   /* first: uv__poll_io_uring then sees exactly the entries found here */
  for (int i = 0; i < nh; i++) if (H[i].state == H_LIVE) {
    int hfd = -1;
    if (H[i].kind == K_POLL) hfd = H[i].fd_a;
    else if (H[i].bound) uv_fileno(H[i].ptr, &hfd);
    if (hfd == fd) { sprintf(name, "h%d", i); return 1 + i; }
  }
  if (fd == LP->signal_pipefd[0]) { strcpy(name, "signal"); return 100000; }
  if (fd == LP->inotify_fd) { strcpy(name, "inotify"); return 99999; }
  sprintf(name, "other"); return 100001;
}

static unsigned long long iter_no(void) { uv_metrics_t m; if (uv_metrics_info(LP, &m)) return 0; return m.loop_count; }

int epoll_pwait(int epfd, struct epoll_event* ev, int maxev, int timeout, const sigset_t* ss) {
  (void) ss;
  if (!in_run) return (int) syscall(SYS_epoll_pwait, epfd, ev, maxev, 0, NULL, 8);   /* the throw-away loop */
  int done = complete_works();
  await_children();
  await_ring();
  drain_sink();
  unsigned long long it = iter_no();
  long k = npolls++;
  for (int i = 0; i < neintr; i++) if (eintr[i].k == k) {
    long d = eintr[i].d; if (timeout == 0) d = 0;   /* d may exceed the timeout: a clock jump while interrupted */
    vclock_ms += d;
    printf("env poll iter=%llu timeout=%d clock=%llu done=%d -> EINTR\n", it, timeout, (unsigned long long) vclock_ms, done);
    errno = EINTR; return -1;
  }
  int n = syscall(SYS_epoll_pwait, epfd, ev, maxev, 0, NULL, 8);
  if (n < 0) n = 0;
  if (n == 0) {
    if (timeout == -1 || k >= polllimit) {   /* nothing will ever happen / starvation guard */
      printf("env poll iter=%llu timeout=%d clock=%llu done=%d -> DEADLOCK\n", it, timeout, (unsigned long long) vclock_ms, done);
      fflush(stdout); gate_forever = 1; _exit(0);
    }
    if (timeout > 0) vclock_ms += timeout;
    printf("env poll iter=%llu timeout=%d clock=%llu done=%d ->\n", it, timeout, (unsigned long long) vclock_ms, done);
    return 0;
  }
  /* canonical order */
  int keys[64]; static char names[64][200];
  if (n > 64) n = 64;
  for (int i = 0; i < n; i++) keys[i] = owner_key(ev[i].data.fd, names[i]);
  for (int i = 0; i < n; i++) for (int j = i + 1; j < n; j++) if (keys[j] < keys[i]) {
    int t = keys[i]; keys[i] = keys[j]; keys[j] = t;
    struct epoll_event e = ev[i]; ev[i] = ev[j]; ev[j] = e;
    char nm[200]; strcpy(nm, names[i]); strcpy(names[i], names[j]); strcpy(names[j], nm);
  }
  printf("env poll iter=%llu timeout=%d clock=%llu done=%d ->", it, timeout, (unsigned long long) vclock_ms, done);
  for (int i = 0; i < n; i++) printf(" %s:%u", names[i], (unsigned) ev[i].events);
  for (int i = 0; i < nfull; i++) if (fullat[i] == k && n < maxev) {
    /* a completely full batch: the rest are entries libuv treats as invalidated (data.fd == -1, cf. uv__platform_invalidate_fd) */
    for (int j = n; j < maxev; j++) { ev[j].events = EPOLLIN; ev[j].data.fd = -1; }
    n = maxev; printf(" FULL");
    break;
  }
  printf("\n");
  return n;
}

/* ------------------------------------------------------------------ the datagram sink: what really went out */
static long sink_count;
static void drain_sink(void) {
  char b[64];
  while (syscall(SYS_recvfrom, sink_fd, b, sizeof b, MSG_DONTWAIT, NULL, NULL) >= 0) sink_count++;
}

/* ------------------------------------------------------------------ connect() answers of the kernel */
static int fail_connect_errno;   /* next connect() fails synchronously with this errno */
int connect(int fd, const struct sockaddr* a, socklen_t l) {
  if (fail_connect_errno) { errno = fail_connect_errno; fail_connect_errno = 0; printf("env connect -> errno %d\n", errno); return -1; }
  return (int) syscall(SYS_connect, fd, a, l);
}
static void* rejected[256]; static int nrejected;   /* requests whose submitting call failed: kept allocated, never registered */

/* ------------------------------------------------------------------ socket() failure injection */
int socket(int domain, int type, int protocol) {
  if (fail_socket_errno) { errno = fail_socket_errno; fail_socket_errno = 0; return -1; }
  return (int) syscall(SYS_socket, domain, type, protocol);
}

/* is the open file behind `fd` still in the interest set of the loop's epoll instance?  (fdinfo: `tfd: N ... ino:HEX`) */
static int epoll_has_ino(unsigned long ino) {
  char p[64], line[256]; snprintf(p, sizeof p, "/proc/self/fdinfo/%d", LP->backend_fd);
  FILE* f = fopen(p, "r"); if (!f) return -1;
  int n = 0;
  while (fgets(line, sizeof line, f)) {
    char* q = strstr(line, "ino:");
    if (!strncmp(line, "tfd:", 4) && q && strtoul(q + 4, NULL, 16) == ino) n++;
  }
  fclose(f); return n;
}
static unsigned long ino_of(int fd) { struct stat st; if (fd < 0 || fstat(fd, &st)) return 0; return (unsigned long) st.st_ino; }

/* ------------------------------------------------------------------ getsockopt(SO_ERROR) answers for connecting sockets */
int getsockopt(int fd, int level, int name, void* val, socklen_t* len) {
  if (level == SOL_SOCKET && name == SO_ERROR && soerror_budget > 0 && val && len && *len >= sizeof(int)) {
    soerror_budget--; *(int*) val = EINPROGRESS; *len = sizeof(int); printf("env soerror -> EINPROGRESS\n"); return 0;
  }
  return (int) syscall(SYS_getsockopt, fd, level, name, val, len);
}

/* ------------------------------------------------------------------ send wrappers (forced EAGAIN) */
static long eagain_budget;
static int is_udp_fd(int fd) {
  for (int i = 0; i < nh; i++) if (H[i].state == H_LIVE && H[i].kind == K_UDP && H[i].bound) {
    int hfd = -1; uv_fileno(H[i].ptr, &hfd); if (hfd == fd) return 1;
  }
  return 0;
}
ssize_t sendmsg(int fd, const struct msghdr* m, int flags) {
  if (eagain_budget > 0 && is_udp_fd(fd)) { eagain_budget--; printf("env sendmsg -> EAGAIN\n"); errno = EAGAIN; return -1; }
  return syscall(SYS_sendmsg, fd, m, flags);
}
int sendmmsg(int fd, struct mmsghdr* v, unsigned int n, int flags) {
  if (eagain_budget > 0 && is_udp_fd(fd)) { eagain_budget--; printf("env sendmmsg -> EAGAIN\n"); errno = EAGAIN; return -1; }
  return (int) syscall(SYS_sendmmsg, fd, v, n, flags);
}

/* ------------------------------------------------------------------ callbacks */
static void exec_op(char* text);
static int idof(void* p) { for (int i = 0; i < nh; i++) if (H[i].ptr == p && H[i].state != H_NONE) return i; return -1; }
static int ridof(void* p) { for (int i = 0; i < nr; i++) if (R[i].ptr == p) return i; return -1; }

static void run_script(char key, int id, int occ, long g) {
  for (int i = 0; i < ns; i++) if (S[i].key == key && S[i].id == id && S[i].occ == occ) {
    char* copy = strdup(S[i].ops); char* save; char* seg;
    for (seg = strtok_r(copy, ";", &save); seg; seg = strtok_r(NULL, ";", &save)) {
      while (*seg == ' ') seg++;
      size_t l = strlen(seg); while (l && (seg[l - 1] == ' ' || seg[l - 1] == '\n')) seg[--l] = 0;
      if (l) exec_op(seg);
    }
    free(copy);
    break;
  }
  if (g >= cblimit) { char b[16] = "stop_loop"; exec_op(b); }
}

/* a loop phase that never ends (e.g. a watcher list iterated while callbacks relink it) must not hang the check */
static void runaway_guard(void) {
  if (ncb_total > cblimit + 400) { printf("RUNAWAY-CALLBACKS\n"); fflush(stdout); gate_forever = 1; _exit(97); }
}

static void generic_cb(const char* kind, int i, const char* args) {
  runaway_guard();
  long g = ncb_total++;
  int occ = H[i].ncb++;
  printf("cb %s h%d%s\n", kind, i, args); obs();
  in_cb++; run_script('h', i, occ, g); in_cb--;
  printf("endcb\n"); obs();
}
static void exit_cb(uv_process_t* p, int64_t status, int sig) {
  int i = idof(p); char a[60]; sprintf(a, " %lld %d", (long long) status, sig); H[i].reaped = 1; generic_cb("exit", i, a);
}
static void await_children(void) {
  int waited = 0;
  for (int i = 0; i < nh; i++) if (H[i].state == H_LIVE && H[i].kind == K_PROCESS && !H[i].reaped && H[i].pid > 0) {
    siginfo_t si; memset(&si, 0, sizeof si);
    if (waitid(P_PID, H[i].pid, &si, WEXITED | WNOWAIT) == 0) waited = 1;
  }
  if (waited) { struct pollfd pf = { LP->signal_pipefd[0], POLLIN, 0 }; poll(&pf, 1, 2000); }   /* SIGCHLD has been turned into a message */
}
static void timer_cb(uv_timer_t* h) { generic_cb("timer", idof(h), ""); }
static void idle_cb(uv_idle_t* h) { generic_cb("idle", idof(h), ""); }
static void prepare_cb(uv_prepare_t* h) { generic_cb("prepare", idof(h), ""); }
static void check_cb(uv_check_t* h) { generic_cb("check", idof(h), ""); }
static void async_cb(uv_async_t* h) { generic_cb("async", idof(h), ""); }
static void poll_cb(uv_poll_t* h, int status, int events) { char a[40]; sprintf(a, " %d %d", status, events); generic_cb("poll", idof(h), a); }
static void conn_cb(uv_stream_t* h, int status) { char a[40]; sprintf(a, " %d", status); generic_cb("connection", idof(h), a); }
static void signal_cb(uv_signal_t* h, int s) { char a[40]; sprintf(a, " %d", s); generic_cb("signal", idof(h), a); }
static void fsevent_cb(uv_fs_event_t* h, const char* f, int ev, int st) { (void) f; char a[40]; sprintf(a, " %d %d", ev, st); generic_cb("fs_event", idof(h), a); }
static void alloc_cb(uv_handle_t* h, size_t n, uv_buf_t* b) { (void) h; (void) n; static char buf[65536]; *b = uv_buf_init(buf, sizeof buf); }
static void recv_cb(uv_udp_t* h, ssize_t n, const uv_buf_t* b, const struct sockaddr* a, unsigned f) {
  (void) b; (void) a; (void) f; char s[40]; sprintf(s, " %ld", (long) n); generic_cb("recv", idof(h), s);
}

/* kernel inotify watches of the loop's inotify descriptor (fdinfo), -1 if unreadable */
static int inotify_watches(void) {
  if (LP->inotify_fd == -1) return 0;
  char p[64], line[256]; snprintf(p, sizeof p, "/proc/self/fdinfo/%d", LP->inotify_fd);
  FILE* f = fopen(p, "r"); if (!f) return -1;
  int n = 0; while (fgets(line, sizeof line, f)) if (!strncmp(line, "inotify wd:", 11)) n++;
  fclose(f); return n;
}

static void keep_dup(int i) {
  int fd = -1;
  if (H[i].dupfd <= 0 && uv_fileno(H[i].ptr, &fd) == 0 && fd >= 0) H[i].dupfd = fcntl(fd, F_DUPFD_CLOEXEC, 3);
}

static void close_cb(uv_handle_t* h) {
  int i = idof(h);
  long g = ncb_total++;
  printf("cb close h%d %c%c%c\n", i, uv_is_active(h) ? 'A' : '-', uv_has_ref(h) ? 'R' : '-', uv_is_closing(h) ? 'C' : '-');
  H[i].state = H_DEAD;
  obs();
  in_cb++; run_script('c', i, 0, g); in_cb--;
  int reg = -2;   /* kernel interest set of the loop: the handle's open file must be gone by close_cb */
  if (H[i].kind == K_POLL) { reg = epoll_has_ino(ino_of(H[i].fd_a)); close(H[i].fd_a); close(H[i].fd_b); }
  else if (H[i].dupfd > 0) { reg = epoll_has_ino(ino_of(H[i].dupfd)); close(H[i].dupfd); H[i].dupfd = 0; }
  if (H[i].kind == K_PIPE && H[i].fd_b >= 0) { close(H[i].fd_b); H[i].fd_b = -1; }
  H[i].ptr = NULL;
  free(h);
  printf("endcb\n"); obs();
  if (reg != -2) printf("res h%d epoll=%d\n", i, reg);
  if (H[i].kind == K_SIGNAL) {   /* process-wide residue: is libuv's handler still installed for the signal? */
    struct sigaction sa; memset(&sa, 0, sizeof sa); sigaction(SIGUSR2, NULL, &sa);
    printf("res h%d sigaction=%s\n", i, sa.sa_handler == SIG_DFL ? "dfl" : "set");
  }
  if (H[i].kind == K_FSEVENT && fs_traffic) printf("res h%d iw=%d\n", i, inotify_watches());
  if (H[i].kind == K_PIPE) {   /* what is left of bound socket files in the scratch directory */
    char p[200]; snprintf(p, sizeof p, "%s/sock", scratch); int n = 0; DIR* d = opendir(p); struct dirent* e;
    if (d) { while ((e = readdir(d))) if (e->d_name[0] != '.') n++; closedir(d); }
    printf("res h%d sock=%d\n", i, n);
  }
}

static void req_done(const char* kind, int r, int status) {
  long g = ncb_total++;
  printf("cb %s r%d %d\n", kind, r, status);
  R[r].state = H_DEAD;
  obs();
  in_cb++; run_script('r', r, 0, g); in_cb--;
  free(R[r].ptr); R[r].ptr = NULL;
  printf("endcb\n"); obs();
}
static void after_work_cb(uv_work_t* req, int status) { req_done("work", ridof(req), status); }
static void send_cb(uv_udp_send_t* req, int status) {
  drain_sink(); printf("res r%d sink=%ld\n", ridof(req), sink_count);   /* datagrams that reached the sink so far */
  req_done("udp_send", ridof(req), status);
}
static void write_cb(uv_write_t* req, int status) { req_done("write", ridof(req), status); }
static void connect_cb(uv_connect_t* req, int status) {
  int r = ridof(req);
  if (r < 0) { printf("REJECTED-REQUEST-CALLBACK connect %d\n", status); return; }   /* its uv_tcp_connect() had returned an error */
  if (R[r].handle >= 0) H[R[r].handle].conn_pending = 0; req_done("connect", r, status);
}
static int fs_fd = -1; static char fs_path[300];
static void fs_cb(uv_fs_t* req) {
  int r = ridof(req); long res = (long) req->result;
  if (req->fs_type == UV_FS_OPEN && res >= 0) close((int) res);
  if (req->fs_type == UV_FS_CLOSE && res == UV_ECANCELED && R[r].aux >= 0) close(R[r].aux);   /* the close never ran */
  uv_fs_req_cleanup(req);
  printf("res r%d result=%ld\n", r, res);
  req_done("fs", r, res == UV_ECANCELED ? UV_ECANCELED : 0);   /* the result of the operation itself is in the `res` line */
}
static void gai_cb2(uv_getaddrinfo_t* req, int status, struct addrinfo* res) { if (res) uv_freeaddrinfo(res); req_done("getaddrinfo", ridof(req), status); }
static void gni_cb2(uv_getnameinfo_t* req, int status, const char* h, const char* sv) { (void) h; (void) sv; req_done("getnameinfo", ridof(req), status); }
static void rnd_cb2(uv_random_t* req, int status, void* buf, size_t n) { (void) buf; (void) n; req_done("random", ridof(req), status); }
static void gai_cb(uv_getaddrinfo_t* req, int status, struct addrinfo* res) { (void) req; (void) status; (void) res; }
static void gni_cb(uv_getnameinfo_t* req, int status, const char* h, const char* sv) { (void) req; (void) status; (void) h; (void) sv; }
static void rnd_cb(uv_random_t* req, int status, void* buf, size_t n) { (void) req; (void) status; (void) buf; (void) n; }

/* ------------------------------------------------------------------ ops */
static int count_fds(void) {
  int n = 0; DIR* d = opendir("/proc/self/fd"); struct dirent* e;
  if (!d) return -1;
  while ((e = readdir(d))) if (e->d_name[0] != '.') n++;
  closedir(d);
  return n - 1;   /* the DIR's own fd */
}
static int fds_before;

static int hnum(const char* w) { if (!w || w[0] != 'h') return -1; char* e; long v = strtol(w + 1, &e, 10); return (*e || v < 0 || v >= MAXH) ? -1 : (int) v; }
static int rnum(const char* w) { if (!w || w[0] != 'r') return -1; char* e; long v = strtol(w + 1, &e, 10); return (*e || v < 0 || v >= MAXR) ? -1 : (int) v; }
static int live(int i) { return i >= 0 && i < nh && H[i].state == H_LIVE; }

#define BAD do { printf("op %s -> bad-op\n", text); obs(); return; } while (0)
#define RET(v) do { printf("op %s -> ret %lld\n", text, (long long) (v)); obs(); return; } while (0)
#define RETU(v) do { printf("op %s -> ret %llu\n", text, (unsigned long long) (v)); obs(); return; } while (0)

static void exec_op(char* text0) {
  char text[512]; strncpy(text, text0, sizeof text - 1); text[sizeof text - 1] = 0;
  char buf[512]; strcpy(buf, text);
  char* w[8] = { 0 }; int nw = 0; char* save;
  for (char* t = strtok_r(buf, " \n", &save); t && nw < 8; t = strtok_r(NULL, " \n", &save)) w[nw++] = t;
  if (nw == 0) return;
  if (loop_closed) BAD;
  const char* o = w[0];
  int i = hnum(w[1]);
  if (!strcmp(o, "init") && nw == 2) {
    int k; for (k = 0; k < K_NKINDS; k++) if (!strcmp(w[1], kind_names[k])) break;
    if (k == K_NKINDS || nh >= MAXH) BAD;
    hent* e = &H[nh]; memset(e, 0, sizeof *e); e->kind = k; e->fd_a = e->fd_b = -1;
    int r = 0;
    switch (k) {
    case K_TIMER: e->ptr = malloc(sizeof(uv_timer_t)); r = uv_timer_init(LP, (uv_timer_t*) e->ptr); break;
    case K_IDLE: e->ptr = malloc(sizeof(uv_idle_t)); r = uv_idle_init(LP, (uv_idle_t*) e->ptr); break;
    case K_PREPARE: e->ptr = malloc(sizeof(uv_prepare_t)); r = uv_prepare_init(LP, (uv_prepare_t*) e->ptr); break;
    case K_CHECK: e->ptr = malloc(sizeof(uv_check_t)); r = uv_check_init(LP, (uv_check_t*) e->ptr); break;
    case K_ASYNC: e->ptr = malloc(sizeof(uv_async_t)); r = uv_async_init(LP, (uv_async_t*) e->ptr, async_cb); break;
    case K_POLL: {
      int sv[2]; if (socketpair(AF_UNIX, SOCK_STREAM | SOCK_CLOEXEC | SOCK_NONBLOCK, 0, sv)) { perror("socketpair"); exit(4); }
      e->fd_a = sv[0]; e->fd_b = sv[1];
      e->ptr = malloc(sizeof(uv_poll_t)); r = uv_poll_init(LP, (uv_poll_t*) e->ptr, sv[0]); break; }
    case K_TCP: e->ptr = malloc(sizeof(uv_tcp_t)); r = uv_tcp_init(LP, (uv_tcp_t*) e->ptr); break;
    case K_UDP: e->ptr = malloc(sizeof(uv_udp_t)); r = uv_udp_init(LP, (uv_udp_t*) e->ptr); break;
    case K_PIPE: e->ptr = malloc(sizeof(uv_pipe_t)); r = uv_pipe_init(LP, (uv_pipe_t*) e->ptr, 0); break;
    case K_SIGNAL: e->ptr = malloc(sizeof(uv_signal_t)); r = uv_signal_init(LP, (uv_signal_t*) e->ptr); break;
    case K_FSEVENT: e->ptr = malloc(sizeof(uv_fs_event_t)); r = uv_fs_event_init(LP, (uv_fs_event_t*) e->ptr); break;
    }
    if (r != 0) { fprintf(stderr, "init failed %d\n", r); exit(4); }
    e->state = H_LIVE; nh++;
    RET(0);
  }
  if (!strcmp(o, "start") && nw == 4 && live(i)) {   /* uniform shape: start hN a b */
    hent* e = &H[i]; int closing = uv_is_closing(e->ptr); int r;
    if (e->kind == K_TIMER) RET(uv_timer_start((uv_timer_t*) e->ptr, timer_cb, strtoull(w[2], 0, 10), strtoull(w[3], 0, 10)));
    if (closing) BAD;
    if (e->kind == K_POLL) { int m = atoi(w[2]); if (m < 0 || m > 15) BAD; RET(uv_poll_start((uv_poll_t*) e->ptr, m, poll_cb)); }
    switch (e->kind) {
    case K_IDLE: RET(uv_idle_start((uv_idle_t*) e->ptr, idle_cb));
    case K_PREPARE: RET(uv_prepare_start((uv_prepare_t*) e->ptr, prepare_cb));
    case K_CHECK: RET(uv_check_start((uv_check_t*) e->ptr, check_cb));
    case K_SIGNAL:   /* a = 1: one-shot watcher */
      if (atoi(w[2]) == 1) { r = uv_signal_start_oneshot((uv_signal_t*) e->ptr, signal_cb, SIGUSR2); if (r == 0) e->oneshot = 1; RET(r); }
      r = uv_signal_start((uv_signal_t*) e->ptr, signal_cb, SIGUSR2); if (r == 0) e->oneshot = 0; RET(r);
    case K_FSEVENT: { char p[200]; snprintf(p, sizeof p, "%s/watch", scratch); RET(uv_fs_event_start((uv_fs_event_t*) e->ptr, fsevent_cb, p, 0)); }
    case K_UDP: r = uv_udp_recv_start((uv_udp_t*) e->ptr, alloc_cb, recv_cb); if (r == 0) e->bound = 1; keep_dup(i); RET(r);
    case K_TCP:
      if (!e->bound) { struct sockaddr_in a; uv_ip4_addr("127.0.0.1", 0, &a); r = uv_tcp_bind((uv_tcp_t*) e->ptr, (struct sockaddr*) &a, 0); if (r) RET(r); e->bound = 1; keep_dup(i); }
      RET(uv_listen((uv_stream_t*) e->ptr, 8, conn_cb));
    case K_PIPE:
      if (e->conn_pending) BAD;   /* uv_listen while a connect is pending: not a legal program */
      if (!e->bound) {   /* a = wanted length of the path (names beyond sizeof(sun_path) are truncated by libuv, documented) */
        int want = atoi(w[2]); int l = snprintf(e->path, sizeof e->path, "%s/sock/h%d_", scratch, i);
        while (l < want && l < (int) sizeof e->path - 1) e->path[l++] = 'x';
        e->path[l] = 0;
        r = uv_pipe_bind((uv_pipe_t*) e->ptr, e->path); if (r) RET(r); e->bound = 1; keep_dup(i);
      }
      RET(uv_listen((uv_stream_t*) e->ptr, 8, conn_cb));
    default: BAD;
    }
  }
  if (!strcmp(o, "stop") && nw == 2 && live(i)) {
    hent* e = &H[i]; if (uv_is_closing(e->ptr)) BAD;
    switch (e->kind) {
    case K_TIMER: RET(uv_timer_stop((uv_timer_t*) e->ptr));
    case K_IDLE: RET(uv_idle_stop((uv_idle_t*) e->ptr));
    case K_PREPARE: RET(uv_prepare_stop((uv_prepare_t*) e->ptr));
    case K_CHECK: RET(uv_check_stop((uv_check_t*) e->ptr));
    case K_POLL: RET(uv_poll_stop((uv_poll_t*) e->ptr));
    case K_SIGNAL: RET(uv_signal_stop((uv_signal_t*) e->ptr));
    case K_FSEVENT: RET(uv_fs_event_stop((uv_fs_event_t*) e->ptr));
    case K_UDP: RET(uv_udp_recv_stop((uv_udp_t*) e->ptr));
    default: BAD;
    }
  }
  if (!strcmp(o, "again") && nw == 2 && live(i) && H[i].kind == K_TIMER) RET(uv_timer_again((uv_timer_t*) H[i].ptr));
  if (!strcmp(o, "set_repeat") && nw == 3 && live(i) && H[i].kind == K_TIMER && !uv_is_closing(H[i].ptr)) {
    uv_timer_set_repeat((uv_timer_t*) H[i].ptr, strtoull(w[2], 0, 10)); RET(0);
  }
  if (!strcmp(o, "ref") && nw == 2 && live(i)) { uv_ref(H[i].ptr); RET(0); }
  if (!strcmp(o, "unref") && nw == 2 && live(i)) { uv_unref(H[i].ptr); RET(0); }
  if (!strcmp(o, "close") && nw == 2 && live(i) && !uv_is_closing(H[i].ptr)) {
    int before = (int) ncb_total; uv_close(H[i].ptr, close_cb);
    if ((int) ncb_total != before) printf("REENTRANT-CALLBACK in uv_close h%d\n", i);
    RET(0);
  }
  if (!strcmp(o, "async_send_thread") && nw == 2 && live(i) && H[i].kind == K_ASYNC && !uv_is_closing(H[i].ptr) && nhelpers < 64) {
    /* uv_async_send from another thread, held inside the call right after its wake-up write (for ~40 ms of real time) */
    if (pthread_create(&helpers[nhelpers], NULL, helper_send, H[i].ptr)) exit(4);
    nhelpers++;
    struct timespec ts; syscall(SYS_clock_gettime, CLOCK_REALTIME, &ts); ts.tv_sec += 2; sem_timedwait(&parked_sem, &ts);
    RET(0);
  }
  if (!strcmp(o, "spawn") && nw == 2 && nh < MAXH) {
    hent* e = &H[nh]; memset(e, 0, sizeof *e); e->kind = K_PROCESS; e->fd_a = e->fd_b = -1;
    uv_process_t* p = malloc(sizeof *p); e->ptr = (uv_handle_t*) p;
    char cmd[40]; snprintf(cmd, sizeof cmd, "exit %d", atoi(w[1]) & 255);
    char* args[] = { "/bin/sh", "-c", cmd, NULL };
    uv_process_options_t opt; memset(&opt, 0, sizeof opt); opt.file = "/bin/sh"; opt.args = args; opt.exit_cb = exit_cb;
    e->state = H_LIVE; nh++;       /* the handle is initialised (and must be closed) whatever uv_spawn returns */
    int r = uv_spawn(LP, p, &opt);
    if (r != 0) { fprintf(stderr, "spawn failed %d\n", r); exit(4); }
    e->pid = p->pid;
    RET(r);
  }
  if (!strcmp(o, "open") && nw == 2 && live(i) && H[i].kind == K_PIPE && !uv_is_closing(H[i].ptr) && !H[i].bound && !H[i].conn_pending) {
    /* a connected stream: the pipe handle adopts one end of a socketpair */
    int sv[2]; if (socketpair(AF_UNIX, SOCK_STREAM | SOCK_CLOEXEC | SOCK_NONBLOCK, 0, sv)) exit(4);
    int r = uv_pipe_open((uv_pipe_t*) H[i].ptr, sv[0]);
    if (r != 0) { close(sv[0]); close(sv[1]); RET(r); }
    H[i].fd_b = sv[1]; H[i].bound = 2; keep_dup(i);
    RET(0);
  }
  if (!strcmp(o, "write") && nw == 3 && nr < MAXR && live(i) && H[i].kind == K_PIPE && H[i].bound == 2 && !uv_is_closing(H[i].ptr)) {
    /* stream write on the opened pipe; the peer never reads, so a large write stays (partly) queued */
    static char big[4 << 20]; long n = atol(w[2]); if (n < 1 || n > (long) sizeof big) BAD;
    uv_write_t* req = malloc(sizeof *req); uv_buf_t b = uv_buf_init(big, (unsigned) n);
    int r = uv_write(req, (uv_stream_t*) H[i].ptr, &b, 1, write_cb);
    if (r != 0) { free(req); RET(r); }
    R[nr].kind = 5; R[nr].state = H_LIVE; R[nr].ptr = req; R[nr].handle = i; nr++;
    RET(0);
  }
  if (!strcmp(o, "fail") && (nw == 2 || nw == 3)) {
    /* a request-submitting call that fails synchronously (allocation failure injected through the allocator, or refusal):
     * it must leave the loop's request accounting untouched */
    static char byte = 'z'; uv_buf_t b5[5]; for (int j = 0; j < 5; j++) b5[j] = uv_buf_init(&byte, 1);
    int r = 0; const char* what = w[1];
    if (!strcmp(what, "getaddrinfo") && nw == 2) {
      uv_getaddrinfo_t* req = malloc(sizeof *req); fail_alloc_in = 1; r = uv_getaddrinfo(LP, req, gai_cb, "localhost", NULL, NULL); fail_alloc_in = 0;
      if (r == 0) { fprintf(stderr, "fail getaddrinfo: submitted\n"); exit(4); } free(req);
    } else if (!strcmp(what, "fs_stat") && nw == 2) {
      uv_fs_t* req = malloc(sizeof *req); fail_alloc_in = 1; r = uv_fs_stat(LP, req, "/", (uv_fs_cb) gai_cb); fail_alloc_in = 0;
      if (r == 0) { fprintf(stderr, "fail fs_stat: submitted\n"); exit(4); } free(req);
    } else if (nw == 3 && live(i = hnum(w[2])) && !uv_is_closing(H[i].ptr)) {
      if (!strcmp(what, "udp_send") && H[i].kind == K_UDP) {
        uv_udp_send_t* req = malloc(sizeof *req); fail_alloc_in = 1;
        r = uv_udp_send(req, (uv_udp_t*) H[i].ptr, b5, 5, (struct sockaddr*) &sink_addr, send_cb); fail_alloc_in = 0;
        if (r == 0) { fprintf(stderr, "fail udp_send: submitted\n"); exit(4); } free(req);
        { int fd = -1; if (uv_fileno(H[i].ptr, &fd) == 0 && fd >= 0 && !H[i].bound) { H[i].bound = 1; keep_dup(i); } }   /* the deferred bind happened */
      } else if (!strcmp(what, "write") && H[i].kind == K_PIPE) {   /* EBADF on an unopened pipe, ENOMEM (5 buffers) on an open one */
        uv_write_t* req = malloc(sizeof *req); fail_alloc_in = 1;
        r = uv_write(req, (uv_stream_t*) H[i].ptr, b5, 5, (uv_write_cb) send_cb); fail_alloc_in = 0;
        if (r == 0) { fprintf(stderr, "fail write: submitted\n"); exit(4); } free(req);
      } else if (!strcmp(what, "shutdown") && (H[i].kind == K_PIPE || H[i].kind == K_TCP) && H[i].bound != 2) {   /* not connected */
        uv_shutdown_t* req = malloc(sizeof *req); r = uv_shutdown(req, (uv_stream_t*) H[i].ptr, (uv_shutdown_cb) send_cb);
        if (r == 0) { fprintf(stderr, "fail shutdown: submitted\n"); exit(4); } free(req);
      } else BAD;
    } else BAD;
    RET(r);
  }
  if (!strcmp(o, "async_send") && nw == 2 && live(i) && H[i].kind == K_ASYNC && !uv_is_closing(H[i].ptr)) RET(uv_async_send((uv_async_t*) H[i].ptr));
  if (!strcmp(o, "bind") && nw == 2 && live(i) && H[i].kind == K_UDP && !uv_is_closing(H[i].ptr) && !H[i].bound) {
    struct sockaddr_in a; uv_ip4_addr("127.0.0.1", 0, &a);
    int r = uv_udp_bind((uv_udp_t*) H[i].ptr, (struct sockaddr*) &a, 0); if (r == 0) { H[i].bound = 1; keep_dup(i); } RET(r);
  }
  if (!strcmp(o, "dgram") && nw == 2 && live(i) && H[i].kind == K_UDP && H[i].bound && !uv_is_closing(H[i].ptr)) {
    /* environment: one datagram arrives for the handle */
    struct sockaddr_in a; int l = sizeof a; if (uv_udp_getsockname((uv_udp_t*) H[i].ptr, (struct sockaddr*) &a, &l)) BAD;
    a.sin_addr.s_addr = htonl(INADDR_LOOPBACK);
    RET(syscall(SYS_sendto, sink_fd, "d", 1, 0, &a, sizeof a) == 1 ? 0 : -1);
  }
  if (!strcmp(o, "udp_send_nocb") && nw == 2 && nr < MAXR) {
    int h = i;
    if (!live(h) || H[h].kind != K_UDP || uv_is_closing(H[h].ptr)) BAD;
    uv_udp_send_t* req = malloc(sizeof *req); static char byte = 'y'; uv_buf_t b = uv_buf_init(&byte, 1);
    R[nr].kind = 4; R[nr].state = H_LIVE; R[nr].ptr = req; R[nr].handle = h; nr++;
    int r = uv_udp_send(req, (uv_udp_t*) H[h].ptr, &b, 1, (struct sockaddr*) &sink_addr, NULL);
    if (r != 0) { fprintf(stderr, "udp_send failed %d\n", r); exit(4); }
    H[h].bound = 1; keep_dup(h);
    RET(r);
  }
  if (!strcmp(o, "udp_send") && nw == 2 && nr < MAXR) {
    int h = i;
    if (!live(h) || H[h].kind != K_UDP || uv_is_closing(H[h].ptr)) BAD;
    uv_udp_send_t* req = malloc(sizeof *req); static char byte = 'x'; uv_buf_t b = uv_buf_init(&byte, 1);
    R[nr].kind = 1; R[nr].state = H_LIVE; R[nr].ptr = req; R[nr].handle = h; nr++;
    int r = uv_udp_send(req, (uv_udp_t*) H[h].ptr, &b, 1, (struct sockaddr*) &sink_addr, send_cb);
    if (r != 0) { fprintf(stderr, "udp_send failed %d\n", r); exit(4); }
    H[h].bound = 1; keep_dup(h);
    RET(r);
  }
  if ((!strcmp(o, "work") || !strcmp(o, "work_nocb")) && nw == 1 && nr < MAXR) {
    int nocb = !strcmp(o, "work_nocb");    /* fire-and-forget: after_work_cb == NULL */
    uv_work_t* req = malloc(sizeof *req);
    R[nr].kind = nocb ? 3 : 0; R[nr].state = H_LIVE; R[nr].ptr = req; R[nr].handle = -1;
    int me = nr++;
    pthread_mutex_lock(&gm); long s0 = started; pthread_mutex_unlock(&gm);
    int r = uv_queue_work(LP, req, work_cb, nocb ? NULL : after_work_cb);
    if (r != 0) { fprintf(stderr, "queue_work failed %d\n", r); exit(4); }
    if (pool_running < 0) {
      pool_running = me;   /* the single worker is idle: wait until it has picked the item up */
      pthread_mutex_lock(&gm); while (started == s0) pthread_cond_wait(&gc, &gm); pthread_mutex_unlock(&gm);
    } else pool_q[pool_qn++] = me;
    RET(r);
  }
  if (!strcmp(o, "use_iouring") && nw == 1) {
    /* environment: can a SQPOLL ring be created at all?  (told to the model; the loop creates its ring lazily) */
    struct { uint32_t sq_entries, cq_entries, flags, sq_thread_cpu, sq_thread_idle, features, wq_fd, resv[3]; uint64_t off[18]; } prm;
    memset(&prm, 0, sizeof prm); prm.flags = 2 /* IORING_SETUP_SQPOLL */; prm.sq_thread_idle = 10;
    int fd = (int) syscall(425 /* io_uring_setup */, 8, &prm);
    if (fd >= 0) close(fd);
    printf("env iouring %d\n", fd >= 0);
    RET(uv_loop_configure(LP, UV_LOOP_USE_IO_URING_SQPOLL));
  }
  if (nr < MAXR && ((!strcmp(o, "fs") && (nw == 2 || nw == 3)) || (nw == 1 && (!strcmp(o, "getaddrinfo") || !strcmp(o, "getnameinfo") || !strcmp(o, "random"))))) {
    /* asynchronous uv_fs_* (thread pool or io_uring, libuv decides), numeric uv_getaddrinfo / uv_getnameinfo, uv_random */
    static char area[4096]; static uv_buf_t bufs[2048]; static char rbuf[16];
    int kind, r = 0, fd = -1, rw = 0; void* req; long nb = nw == 3 ? atol(w[2]) : 0;
    if (!strcmp(o, "fs")) {
      kind = 6;
      rw = !strcmp(w[1], "read") || !strcmp(w[1], "write");
      if (rw ? (nw != 3 || nb < 1 || nb > 2048) : ((strcmp(w[1], "open") && strcmp(w[1], "close") && strcmp(w[1], "stat")) ||
          (nw == 3 && strcmp(w[2], !strcmp(w[1], "close") ? "bad" : "missing")))) BAD;
      if (!rw) nb = 0;
    } else {
      kind = !strcmp(o, "getaddrinfo") ? 7 : !strcmp(o, "getnameinfo") ? 8 : 9;
      if (kind != 9 && (pool_running >= 0 || pool_qn > 0)) BAD;   /* slow I/O only into an idle pool (its separate queue is not simulated) */
    }
    int c0 = wq_count();
    int me = nr;
    R[me].kind = kind; R[me].state = H_LIVE; R[me].handle = -1; R[me].aux = -1;
    if (kind == 6) {
      uv_fs_t* q = malloc(sizeof *q); req = q; R[me].ptr = q; nr++;
      for (long j = 0; j < nb; j++) bufs[j] = uv_buf_init(area + j, 1);
      int failing = !rw && nw == 3;   /* the operation itself fails (ENOENT / EBADF): the request is accounted for all the same */
      static char nopath[320]; snprintf(nopath, sizeof nopath, "%s.missing", fs_path);
      if (!strcmp(w[1], "open")) r = uv_fs_open(LP, q, failing ? nopath : fs_path, O_RDONLY, 0, fs_cb);
      else if (!strcmp(w[1], "close")) { fd = failing ? 1000000 : dup(fs_fd); R[me].aux = failing ? -1 : fd; r = uv_fs_close(LP, q, fd, fs_cb); }
      else if (!strcmp(w[1], "stat")) r = uv_fs_stat(LP, q, failing ? nopath : fs_path, fs_cb);
      else if (!strcmp(w[1], "read")) r = uv_fs_read(LP, q, fs_fd, bufs, (unsigned) nb, 0, fs_cb);
      else r = uv_fs_write(LP, q, fs_fd, bufs, (unsigned) nb, 0, fs_cb);
    } else if (kind == 7) {
      uv_getaddrinfo_t* q = malloc(sizeof *q); req = q; R[me].ptr = q; nr++;
      struct addrinfo hints; memset(&hints, 0, sizeof hints); hints.ai_flags = AI_NUMERICHOST; hints.ai_socktype = SOCK_STREAM;
      r = uv_getaddrinfo(LP, q, gai_cb2, "127.0.0.1", NULL, &hints);
    } else if (kind == 8) {
      uv_getnameinfo_t* q = malloc(sizeof *q); req = q; R[me].ptr = q; nr++;
      struct sockaddr_in a; uv_ip4_addr("127.0.0.1", 80, &a);
      r = uv_getnameinfo(LP, q, gni_cb2, (struct sockaddr*) &a, NI_NUMERICHOST | NI_NUMERICSERV);
    } else {
      uv_random_t* q = malloc(sizeof *q); req = q; R[me].ptr = q; nr++;
      r = uv_random(LP, q, rbuf, sizeof rbuf, 0, rnd_cb2);
    }
    if (r != 0) { fprintf(stderr, "%s submission failed %d\n", o, r); exit(4); }
    int ring = kind == 6 && ((uv_fs_t*) req)->work_req.done == NULL;   /* uv__iou_get_sqe clears work/done ("pacify uv_cancel") */
    if (ring) printf("res r%d route=ring\n", me);
    else if (pool_running < 0) {
      /* idle worker: the item runs through at once; wait until it sits in loop->wq */
      for (int j = 0; j < 100000 && wq_count() < c0 + 1; j++) usleep(50);
      printf("res r%d route=now\n", me);
    } else { pool_q[pool_qn++] = me; printf("res r%d route=pool\n", me); }
    RET(r);
  }
  if (!strcmp(o, "work_null") && nw == 1) {   /* rejected synchronously: no work_cb */
    uv_work_t* req = malloc(sizeof *req); int r = uv_queue_work(LP, req, NULL, after_work_cb); free(req); RET(r);
  }
  if (!strcmp(o, "udp_send_bad") && nw == 2 && live(i) && H[i].kind == K_UDP && !uv_is_closing(H[i].ptr)) {
    /* rejected synchronously: no destination on an unconnected socket */
    uv_udp_send_t* req = malloc(sizeof *req); static char byte = 'x'; uv_buf_t b = uv_buf_init(&byte, 1);
    int r = uv_udp_send(req, (uv_udp_t*) H[i].ptr, &b, 1, NULL, send_cb); free(req); RET(r);
  }
  if (!strcmp(o, "connect_bad") && nw == 2 && nr < MAXR && live(i) && H[i].kind == K_PIPE && !uv_is_closing(H[i].ptr)
      && !H[i].bound && !H[i].conn_pending) {
    /* uv_pipe_connect with an empty name: the error is deferred to the next loop tick (pipe.c:229-249) */
    uv_connect_t* req = malloc(sizeof *req);
    R[nr].kind = 2; R[nr].state = H_LIVE; R[nr].ptr = req; R[nr].handle = i; nr++;
    H[i].conn_pending = 1;
    uv_pipe_connect(req, (uv_pipe_t*) H[i].ptr, "", connect_cb);
    RET(0);
  }
  if (!strcmp(o, "reject") && nw == 2) {   /* requests the API refuses synchronously: nothing may stay registered */
    if (!strcmp(w[1], "getaddrinfo")) {
      static char host[301]; memset(host, 'a', 300); host[300] = 0;
      uv_getaddrinfo_t* req = malloc(sizeof *req); int r = uv_getaddrinfo(LP, req, gai_cb, host, NULL, NULL); free(req); RET(r);
    }
    if (!strcmp(w[1], "getnameinfo")) {
      uv_getnameinfo_t* req = malloc(sizeof *req); int r = uv_getnameinfo(LP, req, gni_cb, NULL, 0); free(req); RET(r);
    }
    if (!strcmp(w[1], "random")) {
      static char b[4]; uv_random_t* req = malloc(sizeof *req); int r = uv_random(LP, req, b, sizeof b, 1, rnd_cb); free(req); RET(r);
    }
    BAD;
  }
  if (!strcmp(o, "touch") && nw == 1) {    /* one directory entry appears / disappears in the watched directory */
    char p[220]; snprintf(p, sizeof p, "%s/watch/d%d", scratch, touch_no / 2);
    fs_traffic = 1;
    int r = (touch_no % 2 == 0) ? mkdir(p, 0700) : rmdir(p); touch_no++;
    RET(r);
  }
  if (!strcmp(o, "init_fail") && nw == 3) {
    /* an init call that fails: it must leave no trace in the loop (the application frees the memory at once) */
    int en = !strcmp(w[2], "EMFILE") ? EMFILE : !strcmp(w[2], "ENFILE") ? ENFILE : !strcmp(w[2], "EAFNOSUPPORT") ? EAFNOSUPPORT :
             !strcmp(w[2], "ENOBUFS") ? ENOBUFS : !strcmp(w[2], "EINVAL") ? -1 : !strcmp(w[2], "EBADF") ? -2 : 0;
    if (en == 0) BAD;
    int r = 0;
    if (!strcmp(w[1], "udp")) {
      uv_udp_t* h = malloc(sizeof *h);
      if (en > 0) { fail_socket_errno = en; r = uv_udp_init_ex(LP, h, AF_INET); } else r = uv_udp_init_ex(LP, h, 77);   /* bad domain: UV_EINVAL */
      fail_socket_errno = 0;
      if (r == 0) { fprintf(stderr, "init_fail: udp init succeeded\n"); exit(4); }
      free(h);
    } else if (!strcmp(w[1], "tcp")) {
      uv_tcp_t* h = malloc(sizeof *h);
      if (en > 0) { fail_socket_errno = en; r = uv_tcp_init_ex(LP, h, AF_INET); } else r = uv_tcp_init_ex(LP, h, 77);
      fail_socket_errno = 0;
      if (r == 0) { fprintf(stderr, "init_fail: tcp init succeeded\n"); exit(4); }
      free(h);
    } else if (!strcmp(w[1], "poll")) {
      uv_poll_t* h = malloc(sizeof *h);
      int fd = -1;
      if (en == -2) { int sv[2]; if (socketpair(AF_UNIX, SOCK_STREAM, 0, sv)) exit(4); close(sv[0]); close(sv[1]); fd = sv[0]; }   /* closed descriptor: UV_EBADF */
      else {   /* a descriptor the loop already watches: UV_EEXIST */
        for (int j = 0; j < nh; j++) if (H[j].state == H_LIVE && H[j].kind == K_POLL && uv_is_active(H[j].ptr)) fd = H[j].fd_a;
        if (fd < 0) { free(h); BAD; }
      }
      r = uv_poll_init(LP, h, fd);
      if (r == 0) { fprintf(stderr, "init_fail: poll init succeeded\n"); exit(4); }
      free(h);
    } else BAD;
    RET(r);
  }
  if (!strcmp(o, "raise") && nw == 2) {
    /* environment: SIGUSR2 arrives N times (the handler runs synchronously here and writes to the loop's signal pipe) */
    int ok = 0, persistent = 0;
    for (int j = 0; j < nh; j++) if (H[j].state == H_LIVE && H[j].kind == K_SIGNAL && uv_is_active(H[j].ptr)) { ok = 1; if (!H[j].oneshot) persistent = 1; }
    if (!ok) BAD;   /* no handler installed: the default action would kill the process */
    long n = atol(w[1]); if (n < 0 || n > 100000) BAD;
    if (!persistent) {   /* only one-shot watchers: SA_RESETHAND restores the default action at the first delivery */
      if (oneshot_raise_used || n < 1) BAD;
      oneshot_raise_used = 1; n = 1;
    }
    sig_traffic = 1;
    for (long j = 0; j < n; j++) raise(SIGUSR2);
    RET(0);
  }
  if (!strcmp(o, "connect") && (nw == 2 || nw == 3) && nr < MAXR && live(i) && H[i].kind == K_TCP && !uv_is_closing(H[i].ptr)
      && !H[i].bound && !H[i].conn_pending) {
    /* a real connect: to the harness's listener (which never accepts), or `refused`: to a port nobody listens on */
    int refused = nw == 3 && !strcmp(w[2], "refused");
    /* the kernel answers connect(2) at once: an outright failure (uv_tcp_connect returns it), or ECONNREFUSED (libuv defers it) */
    int en = nw < 3 ? 0 : !strcmp(w[2], "unreach") ? ENETUNREACH : !strcmp(w[2], "addrnotavail") ? EADDRNOTAVAIL : !strcmp(w[2], "acces") ? EACCES :
             !strcmp(w[2], "hostunreach") ? EHOSTUNREACH : !strcmp(w[2], "sync_refused") ? ECONNREFUSED : 0;
    if (nw == 3 && !refused && !en) BAD;
    if (en && nrejected >= 256) BAD;
    uv_connect_t* req = malloc(sizeof *req);
    fail_connect_errno = en;
    int r = uv_tcp_connect(req, (uv_tcp_t*) H[i].ptr, (struct sockaddr*) (refused ? &dead_addr : &lsn_addr), connect_cb);
    fail_connect_errno = 0;
    if (r != 0) {
      if (en) { rejected[nrejected++] = req; H[i].bound = 1; keep_dup(i); }   /* the socket exists; the request must be forgotten by libuv */
      else free(req);
      RET(r);
    }
    R[nr].kind = 2; R[nr].state = H_LIVE; R[nr].ptr = req; R[nr].handle = i; nr++;
    H[i].conn_pending = 1; H[i].bound = 2; keep_dup(i);
    RET(0);
  }
  if (!strcmp(o, "cancel") && nw == 2) {
    int r = rnum(w[1]);
    if (r < 0 || r >= nr || R[r].state != H_LIVE || !POOLKIND(R[r].kind)) BAD;
    int rc = uv_cancel((uv_req_t*) R[r].ptr);
    if (rc == 0) for (int j = 0; j < pool_qn; j++) if (pool_q[j] == r) { memmove(pool_q + j, pool_q + j + 1, (pool_qn - j - 1) * sizeof(int)); pool_qn--; break; }
    RET(rc);
  }
  if (!strcmp(o, "stop_loop") && nw == 1) { uv_stop(LP); RET(0); }
  if (!strcmp(o, "update_time") && nw == 1) { uv_update_time(LP); RET(0); }
  if (!strcmp(o, "advance") && nw == 2) { vclock_ms += strtoull(w[1], 0, 10); RET(0); }
  if (!strcmp(o, "alive") && nw == 1) RET(uv_loop_alive(LP) != 0);
  if (!strcmp(o, "backend_timeout") && nw == 1) {
    /* for the monitors: are descriptor registrations still waiting to be applied? (public struct field) */
    printf("res wq=%d\n", LP->watcher_queue.next != &LP->watcher_queue);
    RET(uv_backend_timeout(LP));
  }
  if (!strcmp(o, "now") && nw == 1) RETU(uv_now(LP));
  if (!strcmp(o, "is_active") && nw == 2 && live(i)) RET(uv_is_active(H[i].ptr) != 0);
  if (!strcmp(o, "has_ref") && nw == 2 && live(i)) RET(uv_has_ref(H[i].ptr) != 0);
  if (!strcmp(o, "is_closing") && nw == 2 && live(i)) RET(uv_is_closing(H[i].ptr) != 0);
  if (!strcmp(o, "due_in") && nw == 2 && live(i) && H[i].kind == K_TIMER) RETU(uv_timer_get_due_in((uv_timer_t*) H[i].ptr));
  if (!strcmp(o, "make_readable") && nw == 2 && live(i) && H[i].kind == K_POLL) { if (H[i].fd_b >= 0 && write(H[i].fd_b, "x", 1) < 0) {} RET(0); }
  if (!strcmp(o, "peer_reset") && nw == 2 && live(i) && H[i].kind == K_POLL) {
    /* environment: the peer goes away with unread data -> the watched socket has a pending ECONNRESET: EPOLLERR (with EPOLLHUP / EPOLLIN) */
    if (H[i].fd_b >= 0) { if (syscall(SYS_write, H[i].fd_a, "x", 1) < 0) {} close(H[i].fd_b); H[i].fd_b = -1; }
    RET(0);
  }
  if (!strcmp(o, "drain") && nw == 2 && live(i) && H[i].kind == K_POLL) { char b[256]; while (read(H[i].fd_a, b, sizeof b) > 0) {} RET(0); }
  if (!strcmp(o, "run") && nw == 2 && !in_cb) {
    int m = !strcmp(w[1], "DEFAULT") ? UV_RUN_DEFAULT : !strcmp(w[1], "ONCE") ? UV_RUN_ONCE : !strcmp(w[1], "NOWAIT") ? UV_RUN_NOWAIT : -1;
    if (m < 0) BAD;
    printf("run %s\n", w[1]);
    in_run = 1; int r = uv_run(LP, (uv_run_mode) m); in_run = 0;
    RET(r != 0);
  }
  if (!strcmp(o, "loop_close") && nw == 1 && !in_cb) {
    int r = uv_loop_close(LP);
    if (r == 0) {
      loop_closed = 1;
      printf("op %s -> ret 0\n", text);
      printf("obs closed fds=%s\n", count_fds() == fds_before ? "restored" : "LEAKED");
      return;
    }
    RET(r);
  }
  BAD;
}

int main(int argc, char** argv) {
  static char line[16384];
  main_thr = pthread_self(); sem_init(&parked_sem, 0, 0);
  uv_replace_allocator(h_malloc, h_realloc, h_calloc, free);
  setenv("UV_THREADPOOL_SIZE", "1", 1);
  setenv("UV_USE_IO_URING", "1", 1);   /* lets a loop configured with UV_LOOP_USE_IO_URING_SQPOLL create its ring (linux.c uv__use_io_uring) */
  setvbuf(stdout, NULL, _IOLBF, 1 << 16);   /* line buffered: a sanitizer abort must not lose the log */
  if (argc > 1) snprintf(scratch, sizeof scratch, "%s", argv[1]);
  { char p[200]; snprintf(p, sizeof p, "%s/watch", scratch); mkdir(p, 0700); snprintf(p, sizeof p, "%s/sock", scratch); mkdir(p, 0700); }
  { static char fill[2048]; memset(fill, 'f', sizeof fill); snprintf(fs_path, sizeof fs_path, "%s/data", scratch);
    fs_fd = open(fs_path, O_RDWR | O_CREAT | O_CLOEXEC, 0600); if (fs_fd < 0 || write(fs_fd, fill, sizeof fill) < 0) { perror("scratch file"); return 4; } }
  /* process-wide one-time state (signal lock pipe, clock probing) is created by a throw-away loop */
  { uv_loop_t l0; uv_loop_init(&l0); uv_run(&l0, UV_RUN_NOWAIT); uv_loop_close(&l0); }
  sink_fd = socket(AF_INET, SOCK_DGRAM | SOCK_CLOEXEC, 0);
  memset(&sink_addr, 0, sizeof sink_addr); sink_addr.sin_family = AF_INET; sink_addr.sin_addr.s_addr = htonl(INADDR_LOOPBACK);
  bind(sink_fd, (struct sockaddr*) &sink_addr, sizeof sink_addr);
  { socklen_t sl = sizeof sink_addr; getsockname(sink_fd, (struct sockaddr*) &sink_addr, &sl); }
  lsn_fd = socket(AF_INET, SOCK_STREAM | SOCK_CLOEXEC, 0);
  memset(&lsn_addr, 0, sizeof lsn_addr); lsn_addr.sin_family = AF_INET; lsn_addr.sin_addr.s_addr = htonl(INADDR_LOOPBACK);
  bind(lsn_fd, (struct sockaddr*) &lsn_addr, sizeof lsn_addr); listen(lsn_fd, 128);
  { socklen_t sl = sizeof lsn_addr; getsockname(lsn_fd, (struct sockaddr*) &lsn_addr, &sl); }
  { int t = socket(AF_INET, SOCK_STREAM | SOCK_CLOEXEC, 0); dead_addr = lsn_addr; dead_addr.sin_port = 0;
    bind(t, (struct sockaddr*) &dead_addr, sizeof dead_addr); socklen_t sl = sizeof dead_addr; getsockname(t, (struct sockaddr*) &dead_addr, &sl); close(t); }
  int inited = 0;
  while (fgets(line, sizeof line, stdin)) {
    size_t l = strlen(line); while (l && (line[l - 1] == '\n' || line[l - 1] == ' ')) line[--l] = 0;
    if (l == 0 || line[0] == '#') continue;
    if (!strncmp(line, "config ", 7)) {
      long v; char* p;
      if (sscanf(line, "config metrics %ld", &v) == 1) cfg_metrics = (int) v;
      else if (sscanf(line, "config clock0 %ld", &v) == 1) vclock_ms = (uint64_t) v;
      else if (sscanf(line, "config cblimit %ld", &v) == 1) cblimit = v;
      else if (sscanf(line, "config polllimit %ld", &v) == 1) polllimit = v;
      else if (sscanf(line, "config eagain %ld", &v) == 1) eagain_budget = v;
      else if (sscanf(line, "config soerror %ld", &v) == 1) soerror_budget = v;
      else if (sscanf(line, "config default_loop %ld", &v) == 1) use_default = (int) v;
      else if (sscanf(line, "config sigpipe %ld", &v) == 1) sigpipe_sz = v;
      else if (!strncmp(line, "config full", 11)) {
        p = line + 11; char* save; for (char* t = strtok_r(p, " ", &save); t && nfull < 128; t = strtok_r(NULL, " ", &save)) fullat[nfull++] = atol(t);
      }
      else if ((p = strstr(line, "eintr")) != NULL) {
        p += 5; char* save; for (char* t = strtok_r(p, " ", &save); t && neintr < 64; t = strtok_r(NULL, " ", &save))
          if (sscanf(t, "%ld:%ld", &eintr[neintr].k, &eintr[neintr].d) == 2) neintr++;
      }
      continue;
    }
    if (!strncmp(line, "on ", 3)) {
      char key; int id, occ, off;
      if (sscanf(line, "on %c%d %d %n", &key, &id, &occ, &off) >= 3 && ns < MAXS) {
        S[ns].key = key; S[ns].id = id; S[ns].occ = occ; S[ns].ops = strdup(line + off); ns++;
      }
      continue;
    }
    if (!strncmp(line, "op ", 3)) {
      if (!inited) {
        inited = 1;
        fds_before = count_fds();
        if (use_default ? uv_default_loop() == NULL : uv_loop_init(&loop_storage)) { fprintf(stderr, "loop init failed\n"); return 4; }
        if (sigpipe_sz > 0) fcntl(LP->signal_pipefd[1], F_SETPIPE_SZ, (int) sigpipe_sz);   /* small signal pipe: overflow is cheap */
        if (cfg_metrics) uv_loop_configure(LP, UV_METRICS_IDLE_TIME);
        obs();
      }
      exec_op(line + 3);
      if (loop_closed) break;
      continue;
    }
    printf("bad-line %s\n", line);
  }
  fflush(stdout);
  join_helpers();     /* a parked sender finishes its uv_async_send before the process ends (ASan sees a late touch) */
  for (int i = 0; i < ns; i++) free(S[i].ops);
  for (int i = 0; i < nr; i++) if ((R[i].kind == 3 || R[i].kind == 4) && R[i].ptr) { free(R[i].ptr); R[i].ptr = NULL; }
  close(sink_fd); close(lsn_fd); close(fs_fd);
  for (int i = 0; i < nrejected; i++) free(rejected[i]);
  if (!loop_closed) { gate_forever = 1; pthread_cond_broadcast(&gc); _exit(0); }   /* handles are still allocated by design */
  return 0;
}
