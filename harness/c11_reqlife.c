/* C11 (c): life cycle of a uv_fs_t request against the model `UvModel.FsReq` (driver mode `fsreq`).
 *   c11_reqlife <scratchdir>      (UV_THREADPOOL_SIZE=1, UV_USE_IO_URING=1 expected)
 * stdin, one case per line:
 *   case <variant> cb=<0|1> ring=<0|1> cancel=<0|1> fallback=<0|1> oom=<0|1> nexts=<k> cleanups=<c>
 * For every case the request is issued on a fixture (file f, dir d with 3 entries, empty dir e, symlink l,
 * missing nope), optionally with the first allocation of the front end failing (uv_replace_allocator shim),
 * optionally cancelled while the only worker is held by a blocker, optionally with its io_uring completion
 * rewritten to -EOPNOTSUPP (epoll_pwait interposed, as in c11_fallback.c), then iterated (`nexts`
 * uv_fs_scandir_next calls) and cleaned up `cleanups` times.  After each life-cycle event that the real code
 * lets us observe (front end returned, uv_cancel returned, inside the callback, after each next / cleanup) one
 * line is printed:
 *   <event> ret=<v|-> [route=<sync|pool|uring|rejected>] live=<roles> result=<r> path=<null|user|heap>
 *           newpath=<0|1> bufs=<null|sml|user|heap> ptr=<null|statbuf|statx|res|dents|dir> active=<n> cbs=<n>
 * `live` is the allocation ledger: every heap block of the whole process (ASan malloc/free hooks, so libc's
 * scandir/opendir blocks are included) that was allocated since the case began and is still live, named by the
 * role it plays for the request (which request field or entry points at it), with its size where the arguments
 * determine it; a block nothing points at is `other[size]`.  Descriptor results are printed as 1000. */
#include "uv.h"
#include "uv-common.h"
#include <dirent.h>
#include <errno.h>
#include <fcntl.h>
#include <sanitizer/allocator_interface.h>
#include <signal.h>
#include <stdatomic.h>
#include <stdio.h>
#include <stdlib.h>
#include <string.h>
#include <sys/epoll.h>
#include <sys/stat.h>
#include <sys/syscall.h>
#include <unistd.h>

/* ---------------------------------------------------------------- live-block table (malloc/free hooks) */
#define MAXLIVE 8192
static struct { const void* p; size_t n; } live[MAXLIVE];
static int nlive, tracking, overflow;
static atomic_flag lk = ATOMIC_FLAG_INIT;
static void lock(void) { while (atomic_flag_test_and_set_explicit(&lk, memory_order_acquire)) ; }
static void unlock(void) { atomic_flag_clear_explicit(&lk, memory_order_release); }
static void on_malloc(const volatile void* p, size_t n) {
  if (!tracking || p == NULL) return;
  lock();
  if (nlive < MAXLIVE) { live[nlive].p = (const void*) p; live[nlive].n = n; nlive++; } else overflow = 1;
  unlock();
}
static void on_free(const volatile void* p) {
  int i;
  if (p == NULL) return;
  lock();
  for (i = 0; i < nlive; i++) if (live[i].p == (const void*) p) { live[i] = live[--nlive]; break; }
  unlock();
}
static int is_live(const void* p, size_t* n) {
  int i, r = 0;
  lock();
  for (i = 0; i < nlive; i++) if (live[i].p == p) { r = 1; if (n) *n = live[i].n; break; }
  unlock();
  return r;
}

/* ---------------------------------------------------------------- failing allocator */
static int fail_next;
static void* c_malloc(size_t n) { if (fail_next) { fail_next = 0; errno = ENOMEM; return NULL; } return malloc(n); }
static void* c_calloc(size_t a, size_t b) { if (fail_next) { fail_next = 0; errno = ENOMEM; return NULL; } return calloc(a, b); }
static void* c_realloc(void* q, size_t n) { if (fail_next) { fail_next = 0; errno = ENOMEM; return NULL; } return realloc(q, n); }
static void c_free(void* p) { free(p); }

/* ---------------------------------------------------------------- forced -EOPNOTSUPP completions */
struct cqe { uint64_t user_data; int32_t res; uint32_t flags; };
static uv_loop_t loops[2];              /* 0: plain, 1: UV_LOOP_USE_IO_URING_SQPOLL */
static int force;
static uint32_t rewritten_upto; static int have_upto;
int epoll_pwait(int epfd, struct epoll_event* ev, int max, int timeout, const sigset_t* ss) {
  int r = (int) syscall(SYS_epoll_pwait, epfd, ev, max, timeout, ss, 8);
  struct uv__iou* iou = &uv__get_internal_fields((&loops[1]))->iou;
  if (force && epfd == loops[1].backend_fd && iou->ringfd >= 0 && iou->cqe != NULL) {
    uint32_t head = *iou->cqhead;
    uint32_t tail = __atomic_load_n(iou->cqtail, __ATOMIC_ACQUIRE);
    uint32_t i = have_upto && (int32_t) (rewritten_upto - head) > 0 ? rewritten_upto : head;
    for (; i != tail; i++) ((struct cqe*) iou->cqe)[i & iou->cqmask].res = -EOPNOTSUPP;
    rewritten_upto = tail; have_upto = 1;
  }
  return r;
}

/* ---------------------------------------------------------------- roles */
enum { R_PATH, R_PATH2, R_BUFS, R_STATX, R_RES, R_DENTS, R_DENT, R_NAME, R_DIR, R_DIRSTREAM, R_OTHER };
static const char* rname[] = { "path", "path2", "bufs", "statx", "res", "dents", "dent", "name", "dir", "dirstream", "other" };
#define MAXKNOWN 256
static struct { const void* p; int role; } known[MAXKNOWN];
static int nknown;
static void know(const void* p, int role) {
  int i;
  if (p == NULL) return;
  for (i = 0; i < nknown; i++) if (known[i].p == p) { known[i].role = role; return; }
  if (nknown < MAXKNOWN) { known[nknown].p = p; known[nknown].role = role; nknown++; }
}
static int role_of(const void* p) {
  int i;
  for (i = 0; i < nknown; i++) if (known[i].p == p) return known[i].role;
  return R_OTHER;
}

/* ---------------------------------------------------------------- the case under test */
enum { PK_NONE, PK_ONE, PK_TWO, PK_TMPL };
static uv_loop_t* L;
static uv_fs_t req;
static int cbs, v_id, is_async, do_cancel, fd_result, pk, optype;
static const char* upath; static const uv_buf_t* ubufs;
static uv_dir_t* udir; static uv_dirent_t des[4];
static long base_active; static int rejected, gate_owed;
static uv_sem_t gate; static uv_work_t blocker; static int blocker_live;
static void block_work(uv_work_t* w) { uv_sem_wait(&gate); }
static void block_done(uv_work_t* w, int st) { blocker_live = 0; }
static void post_gate(void) { if (gate_owed) { gate_owed = 0; uv_sem_post(&gate); } }

static char outbuf[1 << 16]; static size_t outlen;
#define OUT(...) do { outlen += (size_t) snprintf(outbuf + outlen, sizeof outbuf - outlen, __VA_ARGS__); } while (0)

static void harvest(void) {
  const void* p = req.ptr;
  size_t n;
  if (req.path != NULL && req.path != upath) know(req.path, pk == PK_TWO ? R_PATH2 : R_PATH);
  if (req.bufs != NULL && req.bufs != req.bufsml && req.bufs != ubufs) know(req.bufs, R_BUFS);
  if (p != NULL && p != &req.statbuf) {
    switch (optype) {
      case UV_FS_STAT: case UV_FS_LSTAT: case UV_FS_FSTAT: know(p, R_STATX); break;
      case UV_FS_STATFS: case UV_FS_READLINK: case UV_FS_REALPATH: know(p, R_RES); break;
      case UV_FS_SCANDIR:
        know(p, R_DENTS);
        if (is_live(p, &n) && req.result > 0) {
          long i; void** dents = (void**) p;
          for (i = 0; i < req.result && (size_t) i < n / sizeof(void*); i++) know(dents[i], R_DENT);
        }
        break;
      case UV_FS_OPENDIR:
        know(p, R_DIR);
        if (is_live(p, NULL)) know(((uv_dir_t*) p)->dir, R_DIRSTREAM);
        break;
      case UV_FS_READDIR: case UV_FS_CLOSEDIR: know(p, R_DIR); break;
      default: break;
    }
  }
  if (optype == UV_FS_READDIR && udir != NULL && req.result > 0) {
    long i;
    for (i = 0; i < req.result && i < 4; i++) know(des[i].name, R_NAME);
  }
}

static int cmp_items(const void* a, const void* b) {
  const long* x = a; const long* y = b;
  return x[0] != y[0] ? (x[0] < y[0] ? -1 : 1) : x[1] != y[1] ? (x[1] < y[1] ? -1 : 1) : 0;
}

static void obs(const char* ev, int has_ret, long ret) {
  static long items[MAXLIVE][2];
  int i, k = 0; long res;
  const char* ps; const char* bs; const char* qs;
  harvest();
  lock();
  for (i = 0; i < nlive; i++) { items[k][0] = role_of(live[i].p); items[k][1] = (long) live[i].n; k++; }
  unlock();
  qsort(items, (size_t) k, sizeof items[0], cmp_items);
  OUT("%s ret=", ev);
  if (has_ret) OUT("%ld", ret); else OUT("-");
  if (!strcmp(ev, "submit"))
    OUT(" route=%s", rejected ? "rejected" : !is_async ? "sync" : req.work_req.work == NULL ? "uring" : "pool");
  OUT(" live=");
  if (k == 0) OUT("-");
  for (i = 0; i < k; i++) {
    OUT("%s%s", i ? "," : "", rname[items[i][0]]);
    if (items[i][0] == R_PATH || items[i][0] == R_PATH2 || items[i][0] == R_BUFS || items[i][0] == R_OTHER) OUT("[%ld]", items[i][1]);
  }
  ps = req.path == NULL ? "null" : req.path == upath ? "user" : is_live(req.path, NULL) ? "heap" : "dangling";
  bs = req.bufs == NULL ? "null" : req.bufs == req.bufsml ? "sml" : req.bufs == ubufs ? "user" : is_live(req.bufs, NULL) ? "heap" : "dangling";
  if (req.ptr == NULL) qs = "null";
  else if (req.ptr == &req.statbuf) qs = "statbuf";
  else if (!is_live(req.ptr, NULL)) qs = "dangling";
  else qs = rname[role_of(req.ptr)];
  res = (long) req.result;
  if (fd_result && res >= 0 && !rejected && !(is_async && (!strcmp(ev, "submit") || !strcmp(ev, "cancel")))) res = 1000;
  OUT(" result=%ld path=%s newpath=%d bufs=%s ptr=%s active=%ld cbs=%d\n", res,
      ps, req.new_path != NULL, bs, qs, (long) L->active_reqs.count - base_active - blocker_live, cbs);
}

static void undo(void);
static void on_fs(uv_fs_t* r) {
  cbs++;
  obs("done", 0, 0);
  post_gate();
}

static int fdf, fdd, fdo;
static uv_buf_t bufs6[6]; static char mem[64];

struct variant { const char* name; int type; int pk; int fdres; const char* path; };
/* issue variant `id`; the table in checks/c11.py (REQ_VARIANTS) lists the same names with the expected kernel answer */
static int issue(int id, uv_fs_cb cb, const char** name) {
  uv_fs_t* r = &req;
  upath = NULL; ubufs = NULL; fd_result = 0; pk = PK_NONE;
  switch (id) {
#define P1(p) (pk = PK_ONE, upath = (p))
#define P2(p) (pk = PK_TWO, upath = (p))
#define K(n, nm, ty, pre, call) case n: *name = nm; optype = ty; pre; return call;
    K(0, "open-ok", UV_FS_OPEN, (P1("f"), fd_result = 1), uv_fs_open(L, r, upath, O_RDONLY, 0, cb))
    K(1, "open-enoent", UV_FS_OPEN, (P1("nope"), fd_result = 1), uv_fs_open(L, r, upath, O_RDONLY, 0, cb))
    K(2, "close-ebadf", UV_FS_CLOSE, (void) 0, uv_fs_close(L, r, -1, cb))
    K(3, "read-1", UV_FS_READ, ubufs = bufs6, uv_fs_read(L, r, fdf, bufs6, 1, 0, cb))
    K(4, "read-6", UV_FS_READ, ubufs = bufs6, uv_fs_read(L, r, fdf, bufs6, 6, 0, cb))
    K(5, "read-6-ebadf", UV_FS_READ, ubufs = bufs6, uv_fs_read(L, r, -1, bufs6, 6, 0, cb))
    K(6, "read-nbufs0", UV_FS_READ, ubufs = bufs6, uv_fs_read(L, r, fdf, bufs6, 0, 0, cb))
    K(7, "write-1", UV_FS_WRITE, ubufs = bufs6, uv_fs_write(L, r, fdf, bufs6, 1, 0, cb))
    K(8, "write-6", UV_FS_WRITE, ubufs = bufs6, uv_fs_write(L, r, fdf, bufs6, 6, 0, cb))
    K(9, "write-6-ebadf", UV_FS_WRITE, ubufs = bufs6, uv_fs_write(L, r, -1, bufs6, 6, 0, cb))
    K(10, "write-null", UV_FS_WRITE, (void) 0, uv_fs_write(L, r, fdf, NULL, 3, 0, cb))
    K(11, "stat-ok", UV_FS_STAT, P1("f"), uv_fs_stat(L, r, upath, cb))
    K(12, "stat-enoent", UV_FS_STAT, P1("nope"), uv_fs_stat(L, r, upath, cb))
    K(13, "lstat-ok", UV_FS_LSTAT, P1("l"), uv_fs_lstat(L, r, upath, cb))
    K(14, "fstat-ok", UV_FS_FSTAT, (void) 0, uv_fs_fstat(L, r, fdf, cb))
    K(15, "fstat-ebadf", UV_FS_FSTAT, (void) 0, uv_fs_fstat(L, r, -1, cb))
    K(16, "statfs-ok", UV_FS_STATFS, P1("."), uv_fs_statfs(L, r, upath, cb))
    K(17, "statfs-enoent", UV_FS_STATFS, P1("nope"), uv_fs_statfs(L, r, upath, cb))
    K(18, "mkdir-ok", UV_FS_MKDIR, P1("m"), uv_fs_mkdir(L, r, upath, 0755, cb))
    K(19, "mkdir-eexist", UV_FS_MKDIR, P1("d"), uv_fs_mkdir(L, r, upath, 0755, cb))
    K(20, "rmdir-enoent", UV_FS_RMDIR, P1("nope"), uv_fs_rmdir(L, r, upath, cb))
    K(21, "unlink-enoent", UV_FS_UNLINK, P1("nope"), uv_fs_unlink(L, r, upath, cb))
    K(22, "rename-ok", UV_FS_RENAME, P2("f"), uv_fs_rename(L, r, upath, "f.ren", cb))
    K(23, "rename-enoent", UV_FS_RENAME, P2("nope"), uv_fs_rename(L, r, upath, "x", cb))
    K(24, "link-ok", UV_FS_LINK, P2("f"), uv_fs_link(L, r, upath, "hl", cb))
    K(25, "link-eexist", UV_FS_LINK, P2("f"), uv_fs_link(L, r, upath, "d", cb))
    K(26, "symlink-ok", UV_FS_SYMLINK, P2("f"), uv_fs_symlink(L, r, upath, "sl", 0, cb))
    K(27, "symlink-eexist", UV_FS_SYMLINK, P2("f"), uv_fs_symlink(L, r, upath, "l", 0, cb))
    K(28, "readlink-ok", UV_FS_READLINK, P1("l"), uv_fs_readlink(L, r, upath, cb))
    K(29, "readlink-einval", UV_FS_READLINK, P1("f"), uv_fs_readlink(L, r, upath, cb))
    K(30, "realpath-ok", UV_FS_REALPATH, P1("l"), uv_fs_realpath(L, r, upath, cb))
    K(31, "realpath-enoent", UV_FS_REALPATH, P1("nope"), uv_fs_realpath(L, r, upath, cb))
    K(32, "access-ok", UV_FS_ACCESS, P1("f"), uv_fs_access(L, r, upath, R_OK, cb))
    K(33, "access-enoent", UV_FS_ACCESS, P1("nope"), uv_fs_access(L, r, upath, R_OK, cb))
    K(34, "chmod-enoent", UV_FS_CHMOD, P1("nope"), uv_fs_chmod(L, r, upath, 0600, cb))
    K(35, "fchmod-ok", UV_FS_FCHMOD, (void) 0, uv_fs_fchmod(L, r, fdf, 0644, cb))
    K(36, "utime-ok", UV_FS_UTIME, P1("f"), uv_fs_utime(L, r, upath, 1000, 2000, cb))
    K(37, "futime-ebadf", UV_FS_FUTIME, (void) 0, uv_fs_futime(L, r, -1, 1000, 2000, cb))
    K(38, "lutime-ok", UV_FS_LUTIME, P1("l"), uv_fs_lutime(L, r, upath, 1000, 2000, cb))
    K(39, "mkdtemp-ok", UV_FS_MKDTEMP, pk = PK_TMPL, uv_fs_mkdtemp(L, r, "tXXXXXX", cb))
    K(40, "mkdtemp-enoent", UV_FS_MKDTEMP, pk = PK_TMPL, uv_fs_mkdtemp(L, r, "nope/tXXXXXX", cb))
    K(41, "mkstemp-ok", UV_FS_MKSTEMP, (pk = PK_TMPL, fd_result = 1), uv_fs_mkstemp(L, r, "sXXXXXX", cb))
    K(42, "mkstemp-einval", UV_FS_MKSTEMP, (pk = PK_TMPL, fd_result = 1), uv_fs_mkstemp(L, r, "sXX", cb))
    K(43, "copyfile-ok", UV_FS_COPYFILE, P2("f"), uv_fs_copyfile(L, r, upath, "cp", 0, cb))
    K(44, "copyfile-enoent", UV_FS_COPYFILE, P2("nope"), uv_fs_copyfile(L, r, upath, "cp", 0, cb))
    K(45, "copyfile-badflags", UV_FS_COPYFILE, P2("f"), uv_fs_copyfile(L, r, upath, "cp", 0x100, cb))
    K(46, "sendfile-ebadf", UV_FS_SENDFILE, (void) 0, uv_fs_sendfile(L, r, -1, fdf, 0, 4, cb))
    K(47, "ftruncate-ok", UV_FS_FTRUNCATE, (void) 0, uv_fs_ftruncate(L, r, fdf, 7, cb))
    K(48, "fsync-ok", UV_FS_FSYNC, (void) 0, uv_fs_fsync(L, r, fdf, cb))
    K(49, "fdatasync-ebadf", UV_FS_FDATASYNC, (void) 0, uv_fs_fdatasync(L, r, -1, cb))
    K(50, "scandir-d", UV_FS_SCANDIR, P1("d"), uv_fs_scandir(L, r, upath, 0, cb))
    K(51, "scandir-e", UV_FS_SCANDIR, P1("e"), uv_fs_scandir(L, r, upath, 0, cb))
    K(52, "scandir-nope", UV_FS_SCANDIR, P1("nope"), uv_fs_scandir(L, r, upath, 0, cb))
    K(53, "scandir-f", UV_FS_SCANDIR, P1("f"), uv_fs_scandir(L, r, upath, 0, cb))
    K(54, "opendir-d", UV_FS_OPENDIR, P1("d"), uv_fs_opendir(L, r, upath, cb))
    K(55, "opendir-nope", UV_FS_OPENDIR, P1("nope"), uv_fs_opendir(L, r, upath, cb))
    K(56, "readdir-1", UV_FS_READDIR, udir->nentries = 1, uv_fs_readdir(L, r, udir, cb))
    K(57, "readdir-4", UV_FS_READDIR, udir->nentries = 4, uv_fs_readdir(L, r, udir, cb))
    K(58, "readdir-null", UV_FS_READDIR, (void) 0, uv_fs_readdir(L, r, NULL, cb))
    K(59, "readdir-ebadf", UV_FS_READDIR, (udir->nentries = 4, close(dirfd(udir->dir))), uv_fs_readdir(L, r, udir, cb))
    K(60, "closedir-ok", UV_FS_CLOSEDIR, (void) 0, uv_fs_closedir(L, r, udir, cb))
    K(61, "closedir-null", UV_FS_CLOSEDIR, (void) 0, uv_fs_closedir(L, r, NULL, cb))
    K(62, "chown-enoent", UV_FS_CHOWN, P1("nope"), uv_fs_chown(L, r, upath, 0, 0, cb))
    K(63, "fchown-ebadf", UV_FS_FCHOWN, (void) 0, uv_fs_fchown(L, r, -1, 0, 0, cb))
    K(64, "lchown-enoent", UV_FS_LCHOWN, P1("nope"), uv_fs_lchown(L, r, upath, 0, 0, cb))
    K(65, "unlink-eisdir", UV_FS_UNLINK, P1("d"), uv_fs_unlink(L, r, upath, cb))
    K(66, "fdatasync-ok", UV_FS_FDATASYNC, (void) 0, uv_fs_fdatasync(L, r, fdf, cb))
    K(67, "lstat-enoent", UV_FS_LSTAT, P1("nope"), uv_fs_lstat(L, r, upath, cb))
#undef K
  }
  return -99999;
}
#define NVARIANTS 68
static int find_variant(const char* nm) {
  /* names are resolved by a dry scan of the table: issue() is not called; keep this list in table order */
  static const char* names[NVARIANTS] = {
    "open-ok", "open-enoent", "close-ebadf", "read-1", "read-6", "read-6-ebadf", "read-nbufs0", "write-1", "write-6",
    "write-6-ebadf", "write-null", "stat-ok", "stat-enoent", "lstat-ok", "fstat-ok", "fstat-ebadf", "statfs-ok", "statfs-enoent",
    "mkdir-ok", "mkdir-eexist", "rmdir-enoent", "unlink-enoent", "rename-ok", "rename-enoent", "link-ok", "link-eexist",
    "symlink-ok", "symlink-eexist", "readlink-ok", "readlink-einval", "realpath-ok", "realpath-enoent", "access-ok",
    "access-enoent", "chmod-enoent", "fchmod-ok", "utime-ok", "futime-ebadf", "lutime-ok", "mkdtemp-ok", "mkdtemp-enoent",
    "mkstemp-ok", "mkstemp-einval", "copyfile-ok", "copyfile-enoent", "copyfile-badflags", "sendfile-ebadf", "ftruncate-ok",
    "fsync-ok", "fdatasync-ebadf", "scandir-d", "scandir-e", "scandir-nope", "scandir-f", "opendir-d", "opendir-nope",
    "readdir-1", "readdir-4", "readdir-null", "readdir-ebadf", "closedir-ok", "closedir-null", "chown-enoent", "fchown-ebadf",
    "lchown-enoent", "unlink-eisdir", "fdatasync-ok", "lstat-enoent" };
  int i;
  for (i = 0; i < NVARIANTS; i++) if (!strcmp(names[i], nm)) return i;
  return -1;
}

/* undo the op's own effect with raw calls (none allocates); called after the completion was observed */
static void undo(void) {
  if (req.result < 0) return;
  if (fd_result && req.result <= 2) return;     /* not a descriptor this request can have opened: leave stdio alone */
  switch (v_id) {
    case 0: close((int) req.result); break;
    case 18: rmdir("m"); break;
    case 22: rename("f.ren", "f"); break;
    case 24: unlink("hl"); break;
    case 26: unlink("sl"); break;
    case 39: if (req.path) rmdir(req.path); break;
    case 41: close((int) req.result); if (req.path) unlink(req.path); break;
    case 43: unlink("cp"); break;
  }
}

static int kvint(const char* line, const char* key) {
  const char* p = strstr(line, key);
  return p ? atoi(p + strlen(key)) : 0;
}

static void run_case(const char* line, int print) {
  char vname[64]; const char* nm = "?"; int ring, oom, nexts, cleanups, fallback, rc, i;
  int needs_dir;
  uv_dir_t* dir_to_close = NULL;
  if (sscanf(line, "case %63s", vname) != 1 || (v_id = find_variant(vname)) < 0) { if (print) puts("bad-op"); return; }
  is_async = kvint(line, " cb="); ring = kvint(line, " ring="); do_cancel = kvint(line, " cancel=");
  fallback = kvint(line, " fallback="); oom = kvint(line, " oom="); nexts = kvint(line, " nexts="); cleanups = kvint(line, " cleanups=");
  L = &loops[ring ? 1 : 0];
  outlen = 0; nknown = 0; cbs = 0; udir = NULL;
  memset(&req, 0, sizeof req);
  needs_dir = v_id == 56 || v_id == 57 || v_id == 59 || v_id == 60;
  rejected = 0;
  if (is_async) { blocker_live = 1; gate_owed = 1; uv_queue_work(L, &blocker, block_work, block_done); }
  base_active = (long) L->active_reqs.count - blocker_live;
  lock(); nlive = 0; unlock();
  tracking = 1;
  if (needs_dir) {
    /* the caller's open directory (model: the initial ledger of a readdir / closedir request) */
    uv_fs_t r2;
    uv_fs_opendir(L, &r2, "d", NULL); udir = r2.ptr; uv_fs_req_cleanup(&r2);
    for (i = 0; i < 4; i++) { des[i].name = NULL; des[i].type = UV_DIRENT_UNKNOWN; }
    udir->dirents = des; udir->nentries = 4;
    know(udir, R_DIR); know(udir->dir, R_DIRSTREAM);
    dir_to_close = udir;
  }
  fail_next = oom;
  force = fallback;
  rc = issue(v_id, is_async ? on_fs : NULL, &nm);
  fail_next = 0;
  rejected = is_async ? rc != 0 : (rc < 0 && req.result == 0);
  obs("submit", 1, fd_result && rc >= 0 && !is_async ? 1000 : rc);
  if (is_async && rc == 0) {
    int crc = -1;
    if (do_cancel) { crc = uv_cancel((uv_req_t*) &req); obs("cancel", 1, crc); }
    if (crc != 0) post_gate();          /* a cancelled request releases the blocker from its callback */
    uv_run(L, UV_RUN_DEFAULT);
  } else if (is_async) {
    post_gate();
    uv_run(L, UV_RUN_DEFAULT);
  }
  force = 0;
  if (!rejected) {
    undo();
    if (optype == UV_FS_OPENDIR && req.result == 0 && req.ptr != NULL) dir_to_close = req.ptr;
    if (optype == UV_FS_CLOSEDIR && req.result == 0) dir_to_close = NULL;
    for (i = 0; i < nexts; i++) { uv_dirent_t de; obs("next", 1, uv_fs_scandir_next(&req, &de)); }
  }
  for (i = 0; i < cleanups; i++) { uv_fs_req_cleanup(&req); obs("cleanup", 0, 0); }
  /* leftovers of an abandoned request (cleanups == 0) are released here, outside the log */
  uv_fs_req_cleanup(&req);
  if (dir_to_close) { uv_fs_t r2; uv_fs_closedir(L, &r2, dir_to_close, NULL); uv_fs_req_cleanup(&r2); }
  tracking = 0;
  if (print) { printf("%s", line); fputs(outbuf, stdout); printf("end%s\n", overflow ? " !live-table-overflow" : ""); }
}

int main(int argc, char** argv) {
  char line[512]; int i, have_ring = 1;
  if (argc != 2) return 2;
  if (uv_replace_allocator(c_malloc, c_realloc, c_calloc, c_free)) return 2;
  if (chdir(argv[1])) return 2;
  __sanitizer_install_malloc_and_free_hooks(on_malloc, on_free);
  uv_loop_init(&loops[0]); uv_loop_init(&loops[1]);
  if (uv_loop_configure(&loops[1], UV_LOOP_USE_IO_URING_SQPOLL)) have_ring = 0;
  mkdir("d", 0755); mkdir("e", 0755); mkdir("d/sub", 0755);
  close(open("d/a", O_CREAT | O_WRONLY, 0644)); close(open("d/b", O_CREAT | O_WRONLY, 0644));
  fdf = open("f", O_CREAT | O_RDWR, 0644);
  if (write(fdf, "abcdefg", 7) != 7 || symlink("f", "l")) return 2;
  fdd = open("d", O_RDONLY | O_DIRECTORY); fdo = open("out", O_CREAT | O_RDWR, 0644);
  for (i = 0; i < 6; i++) bufs6[i] = uv_buf_init(mem + i, 1);
  uv_sem_init(&gate, 0);
  /* warm-up: thread pool, ring, libc one-time allocations */
  run_case("case stat-ok cb=1 ring=0 cancel=0 fallback=0 oom=0 nexts=0 cleanups=1\n", 0);
  run_case("case scandir-d cb=1 ring=0 cancel=0 fallback=0 oom=0 nexts=1 cleanups=1\n", 0);
  run_case("case realpath-ok cb=0 ring=0 cancel=0 fallback=0 oom=0 nexts=0 cleanups=1\n", 0);
  run_case("case mkstemp-ok cb=0 ring=0 cancel=0 fallback=0 oom=0 nexts=0 cleanups=1\n", 0);
  if (have_ring) {
    run_case("case stat-ok cb=1 ring=1 cancel=0 fallback=0 oom=0 nexts=0 cleanups=1\n", 0);
    if (uv__get_internal_fields((&loops[1]))->iou.ringfd < 0) have_ring = 0;
  }
  printf("start ring=%d\n", have_ring);
  while (fgets(line, sizeof line, stdin)) {
    if (strncmp(line, "case ", 5)) { puts("bad-op"); continue; }
    if (kvint(line, " ring=") && !have_ring) { printf("%sskipped-no-ring\nend\n", line); continue; }
    run_case(line, 1);
    fflush(stdout);
  }
  close(fdf); close(fdd); close(fdo);
  uv_run(&loops[0], UV_RUN_DEFAULT); uv_run(&loops[1], UV_RUN_DEFAULT);
  if (uv_loop_close(&loops[0]) || uv_loop_close(&loops[1])) puts("!loop-close-busy");
  puts("bye");
  return 0;
}
