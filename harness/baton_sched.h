/* Baton-passing serialising scheduler (DESIGN.md §2.3 item 3).
 *
 * Every "thread" is a real pthread that owns a private semaphore and runs only while it holds the
 * baton; exactly one of {controller, thread 0..n-1} runs at any time, so executions are
 * deterministic and transparent to ASan.  A thread gives the baton back by *parking* in front of
 * its next interesting operation (`sched_park(kind, addr, val)`); the controller inspects the park
 * records (kind/addr/val) to decide who is runnable and resumes one thread with `sched_step`.
 *
 * Outside a run (controller doing set-up / tear-down on its own stack) `sched_park` returns at once.
 * `sched_unwind_all` lets every thread run to its end with `sched_unwinding` set: instrumented
 * operations must then return harmless fake values and touch no shared memory.
 */
#ifndef VERIF_SCHED_H
#define VERIF_SCHED_H
#include <pthread.h>
#include <semaphore.h>
#include <stdio.h>
#include <stdlib.h>

#define SCHED_MAXT 8
#define SCHED_K_DONE (-1)
#define SCHED_CMD_QUIT (-1)

typedef struct {
  pthread_t th;
  sem_t sem;
  int kind;        /* park kind (harness-defined, >= 0) or SCHED_K_DONE */
  void* addr;      /* object the next operation touches */
  long val;        /* operand of the next operation */
  int cmd;         /* command handed over by the controller on resume */
  void (*fn)(int);
  int live;
} sched_thread;

static sched_thread sched_t[SCHED_MAXT];
static int sched_n;
static sem_t sched_ctl;                 /* the controller's semaphore */
static __thread int sched_self = -1;    /* -1 = controller / not a scheduled thread */
static volatile int sched_unwinding;

/* called by a scheduled thread: park before an operation; returns the controller's command */
static int sched_park(int kind, void* addr, long val) {
  sched_thread* me;
  if (sched_self < 0) return 0;
  if (sched_unwinding) return SCHED_CMD_QUIT;
  me = &sched_t[sched_self];
  me->kind = kind; me->addr = addr; me->val = val;
  sem_post(&sched_ctl);
  sem_wait(&me->sem);
  return sched_unwinding ? SCHED_CMD_QUIT : me->cmd;
}

static void* sched_tramp(void* arg) {
  int id = (int) (long) arg;
  sched_self = id;
  for (;;) {                            /* pthreads are reused from run to run (thread creation is slow under ASan) */
    sem_wait(&sched_t[id].sem);         /* wait for the baton before touching anything */
    sched_t[id].fn(id);
    sched_t[id].kind = SCHED_K_DONE;
    sem_post(&sched_ctl);
  }
  return NULL;
}

/* controller: start thread `id` on `fn` and let it run up to its first park */
static void sched_spawn(int id, void (*fn)(int)) {
  sched_thread* t = &sched_t[id];
  if (id >= SCHED_MAXT) abort();
  if (id >= sched_n) sched_n = id + 1;
  t->fn = fn; t->kind = 0; t->addr = NULL; t->val = 0; t->cmd = 0;
  if (!t->live) {
    pthread_attr_t at;
    sem_init(&t->sem, 0, 0);
    pthread_attr_init(&at);
    pthread_attr_setstacksize(&at, 256 * 1024);
    if (pthread_create(&t->th, &at, sched_tramp, (void*) (long) id)) { perror("pthread_create"); exit(3); }
    pthread_attr_destroy(&at);
    pthread_detach(t->th);
    t->live = 1;
  }
  sem_post(&t->sem);
  sem_wait(&sched_ctl);
}

/* controller: hand the baton to thread `id`; returns when it parked again or finished */
static void sched_step(int id, int cmd) {
  sched_thread* t = &sched_t[id];
  if (t->kind == SCHED_K_DONE) { fprintf(stderr, "sched_step: thread %d is done\n", id); abort(); }
  t->cmd = cmd;
  sem_post(&t->sem);
  sem_wait(&sched_ctl);
}

static int sched_done(int id) { return sched_t[id].kind == SCHED_K_DONE; }

/* controller: end of a run — every thread runs to the end of its function (one at a time) */
static void sched_unwind_all(void) {
  int i;
  sched_unwinding = 1;
  for (i = 0; i < sched_n; i++)
    if (sched_t[i].live && sched_t[i].kind != SCHED_K_DONE) { sem_post(&sched_t[i].sem); sem_wait(&sched_ctl); }
  sched_n = 0;
  sched_unwinding = 0;
}

static void sched_init(void) { sem_init(&sched_ctl, 0, 0); }
#endif
