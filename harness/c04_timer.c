/* C04 timer harness: the real library on a virtual clock.  Line protocol of
 * `uvdriver timer`.  clock_gettime is interposed (static link) so that
 * uv_update_time reads the scripted time; uv__run_timers is called directly. */
#include <stdio.h>
#include <stdlib.h>
#include <string.h>
#include <time.h>
#include "uv.h"
#include "uv-common.h"
#include "heap-inl.h"

/* Virtual clocks.  CLOCK_MONOTONIC_COARSE reads vclock_ms + 0.9 ms (so that it is not on a
 * millisecond boundary) and advertises a 1 ms resolution, which makes libuv select it as its
 * "fast" clock; every other clock id is the precise clock = coarse + lag_ns, lag in [0, 1 ms):
 * the coarse clock lags the precise one by up to a tick, as on a real kernel.  A loop clock that
 * mixes the two sources can therefore be seen to go backwards. */
static uint64_t vclock_ms;
static uint64_t lag_ns;
int clock_gettime(clockid_t id, struct timespec* ts) {
  uint64_t ns = vclock_ms * 1000000ull + 900000ull;
  if (id != CLOCK_MONOTONIC_COARSE) ns += lag_ns;
  ts->tv_sec = ns / 1000000000ull; ts->tv_nsec = ns % 1000000000ull;
  return 0;
}
int clock_getres(clockid_t id, struct timespec* ts) {
  ts->tv_sec = 0; ts->tv_nsec = (id == CLOCK_MONOTONIC_COARSE) ? 1000000 : 1;
  return 0;
}

#define MAXT 64
#define MAXK 4096
static uv_loop_t loop;
static uv_timer_t* tm[MAXT];
static int ntm;
static char* script[MAXK];
static unsigned ncb;

static int idof(uv_timer_t* h) { for (int i = 0; i < ntm; i++) if (tm[i] == h) return i; return -1; }
static void timer_cb(uv_timer_t* h);
static void close_cb(uv_handle_t* h) { (void) h; }

static void do_op(const char* w) {
  unsigned id; unsigned long long t, r;
  if (sscanf(w, "start:%u:%llu:%llu", &id, &t, &r) == 3) uv_timer_start(tm[id], timer_cb, t, r);
  else if (sscanf(w, "stop:%u", &id) == 1) uv_timer_stop(tm[id]);
  else if (sscanf(w, "again:%u", &id) == 1) uv_timer_again(tm[id]);
  else if (sscanf(w, "setrep:%u:%llu", &id, &r) == 2) uv_timer_set_repeat(tm[id], r);
  else if (sscanf(w, "close:%u", &id) == 1) { if (!uv_is_closing((uv_handle_t*) tm[id])) uv_close((uv_handle_t*) tm[id], close_cb); }
}

static void timer_cb(uv_timer_t* h) {
  unsigned k = ncb++;
  printf("cb %d %llu\n", idof(h), (unsigned long long) uv_now(&loop));
  if (k < MAXK && script[k]) {
    char* copy = strdup(script[k]); char* save; char* w;
    for (w = strtok_r(copy, " \n", &save); w; w = strtok_r(NULL, " \n", &save)) do_op(w);
    free(copy);
  }
}

static void obs(void) {
  static struct heap_node* q[MAXT + 2];
  struct heap* hp = (struct heap*) &loop.timer_heap;
  unsigned head = 0, tail = 0;
  printf("obs time=%llu act", (unsigned long long) uv_now(&loop));
  for (int i = 0; i < ntm; i++)
    printf(" %d:%d%s", i, uv_is_active((uv_handle_t*) tm[i]), uv_is_closing((uv_handle_t*) tm[i]) ? "c" : "");
  printf(" heap");
  if (hp->min) q[tail++] = hp->min;
  while (head < tail) {
    struct heap_node* x = q[head++];
    uv_timer_t* t = container_of(x, uv_timer_t, node.heap);
    printf(" %llu:%llu:%d", (unsigned long long) t->timeout, (unsigned long long) t->start_id, idof(t));
    if (x->left) q[tail++] = x->left;
    if (x->right) q[tail++] = x->right;
  }
  printf("\n");
}

int main(void) {
  char line[8192];
  int inited = 0;
  while (fgets(line, sizeof line, stdin)) {
    unsigned id, n, k; unsigned long long t, r; int off;
    if (sscanf(line, "init %u", &n) == 1 && n <= MAXT) {
      if (inited) { /* leave the old loop; the harness is restarted per case instead */ }
      vclock_ms = 0;
      uv_loop_init(&loop); inited = 1; ntm = n; ncb = 0;
      printf("loopinit time=%llu\n", (unsigned long long) uv_now(&loop));
      memset(script, 0, sizeof script);
      for (unsigned i = 0; i < n; i++) { tm[i] = calloc(1, sizeof(uv_timer_t)); uv_timer_init(&loop, tm[i]); }
      uv_update_time(&loop);
      obs();
    } else if (sscanf(line, "lag %llu", &t) == 1) { lag_ns = (t % 1000) * 1000ull; }
    else if (sscanf(line, "time %llu", &t) == 1) { vclock_ms = t; uv_update_time(&loop); obs(); }
    else if (sscanf(line, "start %u %llu %llu", &id, &t, &r) == 3) { printf("ret %d\n", uv_timer_start(tm[id], timer_cb, t, r)); obs(); }
    else if (sscanf(line, "stop %u", &id) == 1) { printf("ret %d\n", uv_timer_stop(tm[id])); obs(); }
    else if (sscanf(line, "again %u", &id) == 1) { printf("ret %d\n", uv_timer_again(tm[id])); obs(); }
    else if (sscanf(line, "setrep %u %llu", &id, &r) == 2) { uv_timer_set_repeat(tm[id], r); obs(); }
    else if (sscanf(line, "close %u", &id) == 1) { if (!uv_is_closing((uv_handle_t*) tm[id])) uv_close((uv_handle_t*) tm[id], close_cb); obs(); }
    else if (sscanf(line, "duein %u", &id) == 1) printf("duein %llu\n", (unsigned long long) uv_timer_get_due_in(tm[id]));
    else if (!strncmp(line, "next", 4)) printf("next %d\n", uv__next_timeout(&loop));
    else if (sscanf(line, "script %u %n", &k, &off) == 1 && k < MAXK) { free(script[k]); script[k] = strdup(line + off); }
    else if (!strncmp(line, "run", 3)) { uv__run_timers(&loop); printf("ran\n"); obs(); }
    else if (line[0] != '\n') printf("bad-op\n");
  }
  return 0;
}
