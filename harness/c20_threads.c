/* C20 harness — two builds of this file, both linked against libuv.a of the working tree:
 *
 *  (default)    scripted unit part.  pthread/sem/clock/rlimit entry points used by
 *               src/unix/thread.c and src/thread-common.c are defined here (static link: these
 *               definitions win) and answer with scripted codes; what libuv passes down
 *               (stack size, absolute deadline, clock ids) is recorded.  Same line protocol as
 *               `uvdriver threads` (lean/Drivers/C20.lean).  No thread is ever created here.
 *  -DC20_REAL   real-thread monitors, nothing interposed: contention tests with invariant
 *               counters; every line printed carries raw counters that checks/c20.py judges.
 */
#include <uv.h>
#include <errno.h>
#include <inttypes.h>
#include <pthread.h>
#include <semaphore.h>
#include <setjmp.h>
#include <signal.h>
#include <stdatomic.h>
#include <stdio.h>
#include <stdlib.h>
#include <string.h>
#include <sys/resource.h>
#include <sys/syscall.h>
#include <time.h>
#include <unistd.h>

static int words(char* line, char** w, int max) {
  int n = 0;
  for (char* p = strtok(line, " \t\r\n"); p && n < max; p = strtok(NULL, " \t\r\n")) w[n++] = p;
  return n;
}
static int is_nat(const char* s) { if (!*s) return 0; for (; *s; s++) if (*s < '0' || *s > '9') return 0; return 1; }
static int is_int(const char* s) { return is_nat(*s == '-' ? s + 1 : s); }

#ifndef C20_REAL
/* ======================================================================== scripted part */
#include <dlfcn.h>

static volatile int scripted;           /* interposers answer from S only while set */
static struct {
  int pagesize; long stackmin; int rlim_ok; uint64_t rlim_cur; int create_rc;
  int setstack_called; size_t setstack_val; int create_called;
  int code;                              /* answer of the scripted pthread call */
  int sem_eintr, sem_r, sem_errno, sem_calls;
  uint64_t now_sec, now_nsec; int clk_asked;
  struct timespec abstime; int timedwait_called;
} S;
static int cond_clock = -1;
/* fault injection state (see the init interposers below) */
static const char* inj_name; static int inj_rc, inj_hits, live_objs, cfg_applied;
#define INJECT(nm) if (inj_name && !strcmp(inj_name, nm)) { inj_hits++; return inj_rc; }

static sigjmp_buf abort_jb;
static volatile int abort_armed;
static void on_abort(int sig) { (void) sig; if (abort_armed) { abort_armed = 0; siglongjmp(abort_jb, 1); } }

#define REAL(ret, name, ...) \
  static ret (*real)(__VA_ARGS__); \
  if (!real) real = (ret (*)(__VA_ARGS__)) dlsym(RTLD_NEXT, #name); \
  if (!real) { fprintf(stderr, "no real " #name "\n"); _exit(3); }

#define EARLY __attribute__((no_sanitize("address", "undefined")))  /* may run before ASan is initialised */
EARLY int getpagesize(void) { return scripted ? S.pagesize : (int) sysconf(_SC_PAGESIZE); }
EARLY long __sysconf(int name) {               /* glibc >= 2.34: PTHREAD_STACK_MIN expands to __sysconf(75) */
  if (scripted && name == _SC_THREAD_STACK_MIN) return S.stackmin;
  return sysconf(name);
}
EARLY static int fake_getrlimit(int res, uint64_t* cur, uint64_t* max) {
  if (scripted && res == RLIMIT_STACK) {
    if (!S.rlim_ok) { errno = EINVAL; return -1; }
    *cur = S.rlim_cur; *max = RLIM64_INFINITY; return 0;
  }
  struct rlimit64 l;
  if (syscall(SYS_prlimit64, 0, res, NULL, &l)) return -1;
  *cur = l.rlim_cur; *max = l.rlim_max; return 0;
}
/* libuv is built with _FILE_OFFSET_BITS=64: its getrlimit() is getrlimit64 (plain getrlimit is left alone: ASan's start-up uses it) */
EARLY int getrlimit64(__rlimit_resource_t res, struct rlimit64* lim) {
  uint64_t c, m; if (fake_getrlimit((int) res, &c, &m)) return -1;
  lim->rlim_cur = c; lim->rlim_max = m; return 0;
}
int pthread_attr_setstacksize(pthread_attr_t* a, size_t n) {
  INJECT("attr_setstacksize")
  if (!scripted) { fprintf(stderr, "unexpected pthread_attr_setstacksize\n"); _exit(3); }
  S.setstack_called++; S.setstack_val = n; return 0;
}
int pthread_create(pthread_t* t, const pthread_attr_t* a, void* (*f)(void*), void* arg) {
  if (!scripted) { fprintf(stderr, "unexpected pthread_create\n"); _exit(3); }
  S.create_called++; if (S.create_rc == 0) *t = pthread_self(); return S.create_rc;
}
int pthread_mutex_trylock(pthread_mutex_t* m) {
  if (scripted) return S.code;
  REAL(int, pthread_mutex_trylock, pthread_mutex_t*) return real(m);
}
int pthread_rwlock_tryrdlock(pthread_rwlock_t* l) {
  if (scripted) return S.code;
  REAL(int, pthread_rwlock_tryrdlock, pthread_rwlock_t*) return real(l);
}
int pthread_rwlock_trywrlock(pthread_rwlock_t* l) {
  if (scripted) return S.code;
  REAL(int, pthread_rwlock_trywrlock, pthread_rwlock_t*) return real(l);
}
int sem_trywait(sem_t* s) {
  if (scripted) {
    S.sem_calls++;
    if (S.sem_calls <= S.sem_eintr) { errno = EINTR; return -1; }
    errno = S.sem_errno; return S.sem_r;
  }
  REAL(int, sem_trywait, sem_t*) return real(s);
}
int sem_wait(sem_t* s) {
  if (scripted) {
    S.sem_calls++;
    if (S.sem_calls <= S.sem_eintr) { errno = EINTR; return -1; }
    errno = S.sem_errno; return S.sem_r;
  }
  REAL(int, sem_wait, sem_t*) return real(s);
}
int nanosleep(const struct timespec* req, struct timespec* rem) {
  if (scripted) {
    S.sem_calls++;
    if (S.sem_calls <= S.sem_eintr) { errno = EINTR; return -1; }
    errno = S.sem_errno; return S.sem_r;
  }
  return (int) syscall(SYS_nanosleep, req, rem);
}
/* fault injection into the setup calls of the init wrappers: the named call answers inj_rc
 * (and does nothing) while inj_name is set */
int pthread_condattr_init(pthread_condattr_t* a) { INJECT("condattr_init") REAL(int, pthread_condattr_init, pthread_condattr_t*) return real(a); }
int pthread_condattr_destroy(pthread_condattr_t* a) { INJECT("condattr_destroy") REAL(int, pthread_condattr_destroy, pthread_condattr_t*) return real(a); }
int pthread_cond_init(pthread_cond_t* c, const pthread_condattr_t* a) {
  INJECT("cond_init") REAL(int, pthread_cond_init, pthread_cond_t*, const pthread_condattr_t*)
  int r = real(c, a); if (r == 0) live_objs++; return r;
}
int pthread_mutexattr_init(pthread_mutexattr_t* a) { INJECT("mutexattr_init") REAL(int, pthread_mutexattr_init, pthread_mutexattr_t*) return real(a); }
int pthread_mutexattr_destroy(pthread_mutexattr_t* a) { INJECT("mutexattr_destroy") REAL(int, pthread_mutexattr_destroy, pthread_mutexattr_t*) return real(a); }
int pthread_mutexattr_settype(pthread_mutexattr_t* a, int t) {
  INJECT("mutexattr_settype") REAL(int, pthread_mutexattr_settype, pthread_mutexattr_t*, int)
  int r = real(a, t); if (r == 0 && t == PTHREAD_MUTEX_RECURSIVE) cfg_applied = 1; return r;
}
int sem_init(sem_t* s, int sh, unsigned v) {
  if (inj_name && !strcmp(inj_name, "sem_init")) { inj_hits++; errno = inj_rc; return -1; }
  REAL(int, sem_init, sem_t*, int, unsigned) int r = real(s, sh, v); if (r == 0) live_objs++; return r;
}
int pthread_barrier_init(pthread_barrier_t* b, const pthread_barrierattr_t* a, unsigned n) {
  INJECT("barrier_init") REAL(int, pthread_barrier_init, pthread_barrier_t*, const pthread_barrierattr_t*, unsigned)
  int r = real(b, a, n); if (r == 0) live_objs++; return r;
}
EARLY int pthread_attr_init(pthread_attr_t* a) { INJECT("attr_init") REAL(int, pthread_attr_init, pthread_attr_t*) return real(a); }
/* attributes libuv hands to the *_init calls */
static int last_rwlock_kind = -2, last_mutex_type = -2;
EARLY int pthread_rwlock_init(pthread_rwlock_t* l, const pthread_rwlockattr_t* a) {
  int k = -1; if (a) pthread_rwlockattr_getkind_np(a, &k);
  last_rwlock_kind = k;
  INJECT("rwlock_init")
  REAL(int, pthread_rwlock_init, pthread_rwlock_t*, const pthread_rwlockattr_t*) int r = real(l, a); if (r == 0) live_objs++; return r;
}
EARLY int pthread_mutex_init(pthread_mutex_t* m, const pthread_mutexattr_t* a) {
  int t = -1; if (a) pthread_mutexattr_gettype(a, &t);
  last_mutex_type = t;
  INJECT("mutex_init")
  REAL(int, pthread_mutex_init, pthread_mutex_t*, const pthread_mutexattr_t*) int r = real(m, a); if (r == 0) live_objs++; return r;
}
int pthread_condattr_setclock(pthread_condattr_t* a, clockid_t c) {
  INJECT("condattr_setclock")
  cond_clock = (int) c;
  REAL(int, pthread_condattr_setclock, pthread_condattr_t*, clockid_t) int r = real(a, c); if (r == 0 && c == CLOCK_MONOTONIC) cfg_applied = 1; return r;
}
int pthread_cond_timedwait(pthread_cond_t* c, pthread_mutex_t* m, const struct timespec* ts) {
  if (scripted) { S.timedwait_called++; S.abstime = *ts; return S.code; }
  REAL(int, pthread_cond_timedwait, pthread_cond_t*, pthread_mutex_t*, const struct timespec*) return real(c, m, ts);
}
int pthread_barrier_wait(pthread_barrier_t* b) {
  if (scripted) return S.code;
  REAL(int, pthread_barrier_wait, pthread_barrier_t*) return real(b);
}
/* CLOCK_MONOTONIC_COARSE: resolution coarse_res_ns (-1 = clock_getres fails), reads the precise clock
 * minus coarse_lag_ns (a coarse clock lags the precise one by up to a tick) */
static long coarse_res_ns = 4000000; static uint64_t coarse_lag_ns;
EARLY int clock_getres(clockid_t id, struct timespec* ts) {
  if (id == CLOCK_MONOTONIC_COARSE) {
    if (coarse_res_ns < 0) { errno = EINVAL; return -1; }
    ts->tv_sec = coarse_res_ns / 1000000000; ts->tv_nsec = coarse_res_ns % 1000000000; return 0;
  }
  return (int) syscall(SYS_clock_getres, id, ts);
}
EARLY int clock_gettime(clockid_t id, struct timespec* ts) {
  if (scripted) {
    S.clk_asked = (int) id; ts->tv_sec = (time_t) S.now_sec; ts->tv_nsec = (long) S.now_nsec;
    if (id == CLOCK_MONOTONIC_COARSE) {
      uint64_t t = S.now_sec * 1000000000ull + S.now_nsec; t = t > coarse_lag_ns ? t - coarse_lag_ns : 0;
      ts->tv_sec = (time_t)(t / 1000000000ull); ts->tv_nsec = (long)(t % 1000000000ull);
    }
    return 0;
  }
  if (id == CLOCK_MONOTONIC_COARSE) {
    int r = (int) syscall(SYS_clock_gettime, CLOCK_MONOTONIC, ts);
    uint64_t t = (uint64_t) ts->tv_sec * 1000000000ull + ts->tv_nsec; t = t > coarse_lag_ns ? t - coarse_lag_ns : 0;
    ts->tv_sec = (time_t)(t / 1000000000ull); ts->tv_nsec = (long)(t % 1000000000ull);
    return r;
  }
  return (int) syscall(SYS_clock_gettime, id, ts);
}
/* abort-unless-zero family */
#define MUST1(name, T) int name(T* x) { if (scripted) return S.code; REAL(int, name, T*) return real(x); }
MUST1(pthread_cond_signal, pthread_cond_t)
MUST1(pthread_cond_broadcast, pthread_cond_t)
int pthread_cond_destroy(pthread_cond_t* x) { if (scripted) return S.code; REAL(int, pthread_cond_destroy, pthread_cond_t*) int r = real(x); if (r == 0) live_objs--; return r; }
MUST1(pthread_rwlock_rdlock, pthread_rwlock_t)
MUST1(pthread_rwlock_wrlock, pthread_rwlock_t)
MUST1(pthread_rwlock_unlock, pthread_rwlock_t)
MUST1(pthread_rwlock_destroy, pthread_rwlock_t)
MUST1(pthread_barrier_destroy, pthread_barrier_t)
MUST1(pthread_mutex_destroy, pthread_mutex_t)
int sem_post(sem_t* s) { if (scripted) { if (S.code) { errno = S.code; return -1; } return 0; } REAL(int, sem_post, sem_t*) return real(s); }
int sem_destroy(sem_t* s) { if (scripted) { if (S.code) { errno = S.code; return -1; } return 0; } REAL(int, sem_destroy, sem_t*) return real(s); }
int pthread_cond_wait(pthread_cond_t* c, pthread_mutex_t* m) {
  if (scripted) return S.code;
  REAL(int, pthread_cond_wait, pthread_cond_t*, pthread_mutex_t*) return real(c, m);
}
int pthread_key_delete(pthread_key_t k) { if (scripted) return S.code; REAL(int, pthread_key_delete, pthread_key_t) return real(k); }
int pthread_setspecific(pthread_key_t k, const void* v) {
  if (scripted) return S.code;
  REAL(int, pthread_setspecific, pthread_key_t, const void*) return real(k, v);
}

static uv_mutex_t mtx; static uv_rwlock_t rwl; static uv_sem_t sem; static uv_cond_t cnd;
static uv_barrier_t bar; static uv_key_t key;
static void dummy_entry(void* a) { (void) a; }
static uv_loop_t* the_loop;

/* run `call` with interposers scripted; 1 if it called abort() */
#define GUARDED(call) ({ int aborted_ = 0; abort_armed = 1; \
  if (sigsetjmp(abort_jb, 1) == 0) { scripted = 1; call; scripted = 0; } else { scripted = 0; aborted_ = 1; } \
  abort_armed = 0; aborted_; })

static void print_out(int aborted, int rc) { if (aborted) printf("abort"); else printf("ret %d", rc); }

int main(void) {
  char line[512]; char* w[16];
  struct sigaction sa; memset(&sa, 0, sizeof sa); sa.sa_handler = on_abort; sa.sa_flags = SA_NODEFER;
  sigaction(SIGABRT, &sa, NULL);
  if (uv_mutex_init(&mtx) || uv_rwlock_init(&rwl) || uv_sem_init(&sem, 1) || uv_cond_init(&cnd) ||
      uv_barrier_init(&bar, 1) || uv_key_create(&key)) { fprintf(stderr, "init failed\n"); return 3; }
  while (fgets(line, sizeof line, stdin)) {
    int n = words(line, w, 16);
    volatile int rc = 0; int ab;
    if (n == 0) continue;
    if (!strcmp(w[0], "stack") && n == 8 && is_nat(w[1]) && is_nat(w[2]) && is_nat(w[3]) && is_nat(w[4]) &&
        is_nat(w[5]) && is_nat(w[6]) && is_int(w[7])) {
      uv_thread_options_t opt; uv_thread_t tid;
      opt.flags = (unsigned) strtoull(w[1], 0, 10); opt.stack_size = (size_t) strtoull(w[2], 0, 10);
      S.pagesize = atoi(w[3]); S.stackmin = atol(w[4]); S.rlim_ok = atoi(w[5]);
      S.rlim_cur = strtoull(w[6], 0, 10); S.create_rc = atoi(w[7]);
      S.setstack_called = S.create_called = 0;
      ab = GUARDED(rc = uv_thread_create_ex(&tid, &opt, dummy_entry, NULL));
      if (ab) { printf("abort\n"); continue; }
      if (S.setstack_called > 1 || S.create_called > 1) { printf("multiple-calls\n"); continue; }
      if (S.setstack_called) printf("setstack %zu", S.setstack_val); else printf("setstack none");
      printf(" create %d ret %d\n", S.create_called, rc);
    } else if (!strcmp(w[0], "trylock") && n == 3 && is_int(w[2])) {
      S.code = atoi(w[2]);
      if (!strcmp(w[1], "mutex")) ab = GUARDED(rc = uv_mutex_trylock(&mtx));
      else if (!strcmp(w[1], "rd")) ab = GUARDED(rc = uv_rwlock_tryrdlock(&rwl));
      else if (!strcmp(w[1], "wr")) ab = GUARDED(rc = uv_rwlock_trywrlock(&rwl));
      else { printf("bad-op\n"); continue; }
      print_out(ab, rc); printf("\n");
    } else if (!strcmp(w[0], "semtry") && n == 4 && is_nat(w[1]) && is_int(w[2]) && is_int(w[3])) {
      S.sem_eintr = atoi(w[1]); S.sem_r = atoi(w[2]); S.sem_errno = atoi(w[3]); S.sem_calls = 0;
      if (S.sem_r == -1 && S.sem_errno == EINTR) { printf("bad-op\n"); continue; }
      ab = GUARDED(rc = uv_sem_trywait(&sem));
      print_out(ab, rc); printf(" calls %d\n", S.sem_calls);
    } else if ((!strcmp(w[0], "semwait") || !strcmp(w[0], "sleep")) && n == 4 && is_nat(w[1]) && is_int(w[2]) && is_int(w[3])) {
      S.sem_eintr = atoi(w[1]); S.sem_r = atoi(w[2]); S.sem_errno = atoi(w[3]); S.sem_calls = 0;
      if (S.sem_r == -1 && S.sem_errno == EINTR) { printf("bad-op\n"); continue; }
      if (w[0][1] == 'e') ab = GUARDED(uv_sem_wait(&sem)); else ab = GUARDED(uv_sleep(7));
      print_out(ab, 0); printf(" calls %d\n", S.sem_calls);
    } else if (!strcmp(w[0], "timedwait") && n == 5 && is_nat(w[1]) && is_nat(w[2]) && is_nat(w[3]) && is_int(w[4])) {
      S.now_sec = strtoull(w[1], 0, 10); S.now_nsec = strtoull(w[2], 0, 10);
      uint64_t tmo = strtoull(w[3], 0, 10); S.code = atoi(w[4]); S.timedwait_called = 0; S.clk_asked = -1;
      ab = GUARDED(rc = uv_cond_timedwait(&cnd, &mtx, tmo));
      if (S.timedwait_called != 1) { printf("timedwait-calls %d\n", S.timedwait_called); continue; }
      printf("deadline %" PRIu64 " %" PRIu64 " clk %d condclk %d ", (uint64_t) S.abstime.tv_sec,
             (uint64_t) S.abstime.tv_nsec, S.clk_asked, cond_clock);
      print_out(ab, rc); printf("\n");
    } else if (!strcmp(w[0], "init") && n == 4 && is_int(w[3])) {
      static const char* calls[] = {"none", "condattr_init", "condattr_setclock", "cond_init", "condattr_destroy", "mutexattr_init",
        "mutexattr_settype", "mutex_init", "mutexattr_destroy", "rwlock_init", "barrier_init", "sem_init", "attr_init", "attr_setstacksize", 0};
      const char* cn = 0; for (int i = 0; calls[i]; i++) if (!strcmp(calls[i], w[2])) cn = calls[i];
      if (!cn) { printf("bad-op\n"); continue; }
      uv_cond_t ic; uv_mutex_t im; uv_rwlock_t ir; uv_barrier_t ib; uv_sem_t is; uv_thread_t it; uv_thread_options_t opt;
      int kind = !strcmp(w[1], "cond") ? 1 : !strcmp(w[1], "rmutex") ? 2 : !strcmp(w[1], "mutex") ? 3 : !strcmp(w[1], "rwlock") ? 4 :
                 !strcmp(w[1], "barrier") ? 5 : !strcmp(w[1], "sem") ? 6 : !strcmp(w[1], "thread") ? 7 : 0;
      if (!kind) { printf("bad-op\n"); continue; }
      if (kind == 6) { uv_sem_t warm; if (uv_sem_init(&warm, 0) == 0) uv_sem_destroy(&warm); }   /* uv_once(glibc version) out of the way */
      inj_rc = atoi(w[3]); inj_hits = 0; live_objs = 0; cfg_applied = 0;
      inj_name = strcmp(cn, "none") ? cn : 0;
      ab = 0; abort_armed = 1;
      if (sigsetjmp(abort_jb, 1) == 0) {
        switch (kind) {
          case 1: rc = uv_cond_init(&ic); break;
          case 2: rc = uv_mutex_init_recursive(&im); break;
          case 3: rc = uv_mutex_init(&im); break;
          case 4: rc = uv_rwlock_init(&ir); break;
          case 5: rc = uv_barrier_init(&ib, 2); break;
          case 6: rc = uv_sem_init(&is, 1); break;
          case 7: opt.flags = UV_THREAD_HAS_STACK_SIZE; opt.stack_size = 65536; S.pagesize = 4096; S.stackmin = 16384; S.rlim_ok = 1;
                  S.rlim_cur = 8 << 20; S.create_rc = 0; S.create_called = 0; scripted = 1; rc = uv_thread_create_ex(&it, &opt, dummy_entry, NULL); scripted = 0; break;
        }
      } else { scripted = 0; ab = 1; }
      abort_armed = 0; inj_name = 0;
      print_out(ab, rc);
      if (kind == 7) printf(" created %d\n", ab ? 0 : S.create_called);
      else if (kind <= 2) printf(" live %d cfg %d\n", live_objs, cfg_applied);
      else printf(" live %d\n", live_objs);
      if (!ab && rc == 0) switch (kind) {
        case 1: uv_cond_destroy(&ic); break; case 2: case 3: uv_mutex_destroy(&im); break; case 4: uv_rwlock_destroy(&ir); break;
        case 5: uv_barrier_destroy(&ib); break; case 6: uv_sem_destroy(&is); break; }
    } else if (!strcmp(w[0], "condfault") && n == 3 && is_int(w[1]) && is_nat(w[2])) {
      /* behavioural: a condvar uv_cond_init returned 0 for times out no earlier than the timeout on the real monotonic clock */
      uv_cond_t ic; uv_mutex_t im; uint64_t tmo = strtoull(w[2], 0, 10); struct timespec a, b;
      inj_rc = atoi(w[1]); inj_name = inj_rc ? "condattr_setclock" : 0;
      rc = uv_cond_init(&ic); inj_name = 0;
      if (rc) { printf("condfault ret %d\n", rc); continue; }
      uv_mutex_init(&im); uv_mutex_lock(&im);
      int r = 0; uint64_t el = 0;
      for (int k = 0; k < 5 && r == 0; k++) {      /* r == 0: spurious wake-up, try again */
        syscall(SYS_clock_gettime, CLOCK_MONOTONIC, &a); r = uv_cond_timedwait(&ic, &im, tmo); syscall(SYS_clock_gettime, CLOCK_MONOTONIC, &b);
        el = (uint64_t)(b.tv_sec - a.tv_sec) * 1000000000ull + b.tv_nsec - a.tv_nsec;
      }
      uv_mutex_unlock(&im); uv_mutex_destroy(&im); uv_cond_destroy(&ic);
      printf("condfault ret 0 timedwait %d not_early %d\n", r, el >= tmo);
    } else if (!strcmp(w[0], "coarse") && n == 3 && (is_nat(w[1]) || !strcmp(w[1], "fail")) && is_nat(w[2])) {
      coarse_res_ns = !strcmp(w[1], "fail") ? -1 : atol(w[1]); coarse_lag_ns = strtoull(w[2], 0, 10); printf("ok\n");
    } else if (!strcmp(w[0], "fastclock") && n == 3 && is_nat(w[1]) && is_nat(w[2])) {
      if (!the_loop) { the_loop = malloc(sizeof *the_loop); if (uv_loop_init(the_loop)) { printf("loop-init-failed\n"); return 3; } }
      S.now_sec = strtoull(w[1], 0, 10); S.now_nsec = strtoull(w[2], 0, 10); S.clk_asked = -1;
      scripted = 1; uv_update_time(the_loop); scripted = 0;
      printf("fastclock clk %d ms %" PRIu64 "\n", S.clk_asked, uv_now(the_loop));
    } else if (!strcmp(w[0], "hrtime") && n == 3 && is_nat(w[1]) && is_nat(w[2])) {
      S.now_sec = strtoull(w[1], 0, 10); S.now_nsec = strtoull(w[2], 0, 10); S.clk_asked = -1;
      scripted = 1; uint64_t v = uv_hrtime(); scripted = 0;
      printf("hrtime %" PRIu64 " clk %d\n", v, S.clk_asked);
    } else if (!strcmp(w[0], "initattr") && n == 2) {
      if (!strcmp(w[1], "rwlock")) { uv_rwlock_t x; last_rwlock_kind = -2; if (uv_rwlock_init(&x)) { printf("init-failed\n"); continue; } uv_rwlock_destroy(&x); printf("rwlock-kind %d\n", last_rwlock_kind); }
      else if (!strcmp(w[1], "mutex")) { uv_mutex_t x; last_mutex_type = -2; if (uv_mutex_init(&x)) { printf("init-failed\n"); continue; } uv_mutex_destroy(&x); printf("mutex-type %d\n", last_mutex_type); }
      else if (!strcmp(w[1], "rmutex")) { uv_mutex_t x; last_mutex_type = -2; if (uv_mutex_init_recursive(&x)) { printf("init-failed\n"); continue; } uv_mutex_destroy(&x); printf("mutex-type %d\n", last_mutex_type); }
      else printf("bad-op\n");
    } else if (!strcmp(w[0], "barrier") && n == 2 && is_int(w[1])) {
      S.code = atoi(w[1]);
      ab = GUARDED(rc = uv_barrier_wait(&bar));
      print_out(ab, rc); printf("\n");
    } else if (!strcmp(w[0], "must") && n == 3 && is_int(w[2])) {
      static uv_mutex_t m2; static uv_cond_t c2; static uv_rwlock_t r2; static uv_sem_t s2; static uv_barrier_t b2;
      S.code = atoi(w[2]);
      const char* f = w[1];
      if (!strcmp(f, "cond_signal")) ab = GUARDED(uv_cond_signal(&cnd));
      else if (!strcmp(f, "cond_broadcast")) ab = GUARDED(uv_cond_broadcast(&cnd));
      else if (!strcmp(f, "cond_wait")) ab = GUARDED(uv_cond_wait(&cnd, &mtx));
      else if (!strcmp(f, "cond_destroy")) ab = GUARDED(uv_cond_destroy(&c2));
      else if (!strcmp(f, "rwlock_rdlock")) ab = GUARDED(uv_rwlock_rdlock(&rwl));
      else if (!strcmp(f, "rwlock_wrlock")) ab = GUARDED(uv_rwlock_wrlock(&rwl));
      else if (!strcmp(f, "rwlock_rdunlock")) ab = GUARDED(uv_rwlock_rdunlock(&rwl));
      else if (!strcmp(f, "rwlock_wrunlock")) ab = GUARDED(uv_rwlock_wrunlock(&rwl));
      else if (!strcmp(f, "rwlock_destroy")) ab = GUARDED(uv_rwlock_destroy(&r2));
      else if (!strcmp(f, "barrier_destroy")) ab = GUARDED(uv_barrier_destroy(&b2));
      else if (!strcmp(f, "key_delete")) ab = GUARDED(uv_key_delete(&key));
      else if (!strcmp(f, "key_set")) ab = GUARDED(uv_key_set(&key, NULL));
      else if (!strcmp(f, "sem_post")) ab = GUARDED(uv_sem_post(&sem));
      else if (!strcmp(f, "sem_destroy")) ab = GUARDED(uv_sem_destroy(&s2));
      else if (!strcmp(f, "mutex_destroy")) ab = GUARDED(uv_mutex_destroy(&m2));
      else { printf("bad-op\n"); continue; }
      print_out(ab, 0); printf("\n");
    } else {
      printf("bad-op\n");
    }
    fflush(stdout);
  }
  if (the_loop) { uv_loop_close(the_loop); free(the_loop); }
  return 0;
}

#else
/* ======================================================================== real-thread monitors */
#define MAXT 64
static int NT, ROUNDS;
static atomic_int inside, max_inside, bad;
static long plain_counter;               /* protected by the lock under test only */
static void note_max(atomic_int* mx, int v) { int o = atomic_load(mx); while (v > o && !atomic_compare_exchange_weak(mx, &o, v)) {} }
static void spin(unsigned* s) { *s = *s * 1103515245u + 12345u; if ((*s >> 16) % 7 == 0) sched_yield(); }

/* ---- mutex (normal + recursive), lock and trylock paths */
static uv_mutex_t M; static int use_try; static atomic_long try_busy;
static void mutex_worker(void* a) {
  unsigned s = (unsigned)(uintptr_t) a + 1;
  for (int i = 0; i < ROUNDS; i++) {
    if (use_try && (i & 1)) { int r; while ((r = uv_mutex_trylock(&M)) != 0) { if (r != UV_EBUSY) atomic_fetch_add(&bad, 1); atomic_fetch_add(&try_busy, 1); sched_yield(); } }
    else uv_mutex_lock(&M);
    int v = atomic_fetch_add(&inside, 1) + 1; note_max(&max_inside, v);
    long c = plain_counter; spin(&s); plain_counter = c + 1;
    atomic_fetch_sub(&inside, 1);
    uv_mutex_unlock(&M);
  }
}
/* handshake helper: holder thread takes the lock in a given way, tells main, waits to release */
static uv_sem_t held_sem, release_sem;
static int hold_mode; static uv_rwlock_t RW;
static void holder(void* a) {
  (void) a;
  if (hold_mode == 0) uv_mutex_lock(&M);
  else if (hold_mode == 1) { uv_mutex_lock(&M); uv_mutex_lock(&M); uv_mutex_lock(&M); }
  else if (hold_mode == 2) uv_rwlock_rdlock(&RW);
  else uv_rwlock_wrlock(&RW);
  uv_sem_post(&held_sem);
  if (hold_mode == 1) {       /* release one level at a time on request */
    for (int i = 0; i < 3; i++) { uv_sem_wait(&release_sem); uv_mutex_unlock(&M); uv_sem_post(&held_sem); }
    return;
  }
  uv_sem_wait(&release_sem);
  if (hold_mode == 0) uv_mutex_unlock(&M);
  else if (hold_mode == 2) uv_rwlock_rdunlock(&RW);
  else uv_rwlock_wrunlock(&RW);
}
static void run_threads(void (*f)(void*), int n) {
  uv_thread_t t[MAXT];
  for (int i = 0; i < n; i++) if (uv_thread_create(&t[i], f, (void*)(uintptr_t) i)) { printf("thread-create-failed\n"); exit(4); }
  for (int i = 0; i < n; i++) if (uv_thread_join(&t[i])) { printf("thread-join-failed\n"); exit(4); }
}
static void reset(void) { atomic_store(&inside, 0); atomic_store(&max_inside, 0); atomic_store(&bad, 0); plain_counter = 0; }

static void t_mutex(int recursive) {
  reset(); atomic_store(&try_busy, 0); use_try = 1;
  if (recursive ? uv_mutex_init_recursive(&M) : uv_mutex_init(&M)) { printf("init-failed\n"); return; }
  run_threads(mutex_worker, NT);
  printf("%s max_inside %d total %ld expected %ld badcodes %d\n", recursive ? "rmutex" : "mutex",
         atomic_load(&max_inside), plain_counter, (long) NT * ROUNDS, atomic_load(&bad));
  /* trylock exactness: free -> 0, held by another thread -> UV_EBUSY, released -> 0 */
  uv_thread_t h; uv_sem_init(&held_sem, 0); uv_sem_init(&release_sem, 0);
  int free0 = uv_mutex_trylock(&M); if (free0 == 0) uv_mutex_unlock(&M);
  hold_mode = recursive ? 1 : 0;
  uv_thread_create(&h, holder, NULL); uv_sem_wait(&held_sem);
  int held = uv_mutex_trylock(&M);
  if (recursive) {
    int after1, after2, after3, own_nest;
    uv_sem_post(&release_sem); uv_sem_wait(&held_sem); after1 = uv_mutex_trylock(&M);
    uv_sem_post(&release_sem); uv_sem_wait(&held_sem); after2 = uv_mutex_trylock(&M);
    uv_sem_post(&release_sem); uv_sem_wait(&held_sem); after3 = uv_mutex_trylock(&M);
    own_nest = after3 == 0 ? uv_mutex_trylock(&M) : -1;   /* owner may nest */
    if (own_nest == 0) uv_mutex_unlock(&M);
    if (after3 == 0) uv_mutex_unlock(&M);
    uv_thread_join(&h);
    printf("rmutex-trylock free %d held3 %d held2 %d held1 %d released %d nest %d\n", free0, held, after1, after2, after3, own_nest);
  } else {
    uv_sem_post(&release_sem); uv_thread_join(&h);
    int after = uv_mutex_trylock(&M); if (after == 0) uv_mutex_unlock(&M);
    printf("mutex-trylock free %d held %d released %d\n", free0, held, after);
  }
  uv_sem_destroy(&held_sem); uv_sem_destroy(&release_sem); uv_mutex_destroy(&M);
}

/* ---- rwlock */
static atomic_int readers, writers, max_readers; static uv_barrier_t RB;
static void rw_worker(void* a) {
  unsigned id = (unsigned)(uintptr_t) a, s = id + 7;
  for (int i = 0; i < ROUNDS; i++) {
    if ((i + id) % 4 == 0) {
      if (i & 8) { int r; while ((r = uv_rwlock_trywrlock(&RW)) != 0) { if (r != UV_EBUSY) atomic_fetch_add(&bad, 1); sched_yield(); } }
      else uv_rwlock_wrlock(&RW);
      int w = atomic_fetch_add(&writers, 1) + 1;
      if (w != 1 || atomic_load(&readers) != 0) atomic_fetch_add(&bad, 1);
      long c = plain_counter; spin(&s); plain_counter = c + 1;
      if (atomic_load(&readers) != 0) atomic_fetch_add(&bad, 1);
      atomic_fetch_sub(&writers, 1);
      uv_rwlock_wrunlock(&RW);
    } else {
      if (i & 8) { int r; while ((r = uv_rwlock_tryrdlock(&RW)) != 0) { if (r != UV_EBUSY) atomic_fetch_add(&bad, 1); sched_yield(); } }
      else uv_rwlock_rdlock(&RW);
      int r = atomic_fetch_add(&readers, 1) + 1; note_max(&max_readers, r);
      if (atomic_load(&writers) != 0) atomic_fetch_add(&bad, 1);
      spin(&s);
      if (atomic_load(&writers) != 0) atomic_fetch_add(&bad, 1);
      atomic_fetch_sub(&readers, 1);
      uv_rwlock_rdunlock(&RW);
    }
  }
}
static atomic_int corr_in;
static void rd_together(void* a) {       /* all NT readers must be able to hold the lock at once */
  (void) a; uv_rwlock_rdlock(&RW); atomic_fetch_add(&corr_in, 1); uv_barrier_wait(&RB); uv_rwlock_rdunlock(&RW);
}
static void t_rwlock(void) {
  reset(); atomic_store(&readers, 0); atomic_store(&writers, 0); atomic_store(&max_readers, 0);
  if (uv_rwlock_init(&RW)) { printf("init-failed\n"); return; }
  run_threads(rw_worker, NT);
  long expw = 0; for (int id = 0; id < NT; id++) for (int i = 0; i < ROUNDS; i++) if ((i + id) % 4 == 0) expw++;
  printf("rwlock violations %d writes %ld expected %ld\n", atomic_load(&bad), plain_counter, expw);
  atomic_store(&corr_in, 0); uv_barrier_init(&RB, NT);
  run_threads(rd_together, NT);          /* deadlocks (harness timeout) if readers exclude each other */
  uv_barrier_destroy(&RB);
  printf("rwlock-shared readers_together %d of %d\n", atomic_load(&corr_in), NT);
  uv_thread_t h; uv_sem_init(&held_sem, 0); uv_sem_init(&release_sem, 0);
  hold_mode = 2; uv_thread_create(&h, holder, NULL); uv_sem_wait(&held_sem);
  int rd_rd = uv_rwlock_tryrdlock(&RW); if (rd_rd == 0) uv_rwlock_rdunlock(&RW);
  int rd_wr = uv_rwlock_trywrlock(&RW); if (rd_wr == 0) uv_rwlock_wrunlock(&RW);
  uv_sem_post(&release_sem); uv_thread_join(&h);
  hold_mode = 3; uv_thread_create(&h, holder, NULL); uv_sem_wait(&held_sem);
  int wr_rd = uv_rwlock_tryrdlock(&RW); if (wr_rd == 0) uv_rwlock_rdunlock(&RW);
  int wr_wr = uv_rwlock_trywrlock(&RW); if (wr_wr == 0) uv_rwlock_wrunlock(&RW);
  uv_sem_post(&release_sem); uv_thread_join(&h);
  int fr_wr = uv_rwlock_trywrlock(&RW); if (fr_wr == 0) uv_rwlock_wrunlock(&RW);
  printf("rwlock-try rdheld_tryrd %d rdheld_trywr %d wrheld_tryrd %d wrheld_trywr %d free_trywr %d\n", rd_rd, rd_wr, wr_rd, wr_wr, fr_wr);
  uv_sem_destroy(&held_sem); uv_sem_destroy(&release_sem); uv_rwlock_destroy(&RW);
}

/* ---- a waiting writer must not keep further readers out (only a writer HOLDING the lock excludes) */
static atomic_int ww_started, ww_in, wb_in, wb_try; static uv_sem_t wb_release;
static void ww_writer(void* a) { (void) a; atomic_store(&ww_started, 1); uv_rwlock_wrlock(&RW); atomic_store(&ww_in, 1); uv_rwlock_wrunlock(&RW); }
static void ww_reader(void* a) {
  (void) a; int r = uv_rwlock_tryrdlock(&RW); atomic_store(&wb_try, r); if (r == 0) uv_rwlock_rdunlock(&RW);
  uv_rwlock_rdlock(&RW); atomic_store(&wb_in, 1); uv_sem_wait(&wb_release); uv_rwlock_rdunlock(&RW);
}
static void t_rwlock_wwait(void) {
  int same_refused = 0, other_refused = 0, other_blocked = 0, writer_in = 0;
  for (int r = 0; r < ROUNDS; r++) {
    uv_thread_t w, b; uv_rwlock_init(&RW); uv_sem_init(&wb_release, 0);
    atomic_store(&ww_started, 0); atomic_store(&ww_in, 0); atomic_store(&wb_in, 0); atomic_store(&wb_try, 12345);
    uv_rwlock_rdlock(&RW);                                   /* reader A = this thread */
    uv_thread_create(&w, ww_writer, NULL);
    while (!atomic_load(&ww_started)) sched_yield();
    uv_sleep(15);                                            /* writer parked in uv_rwlock_wrlock */
    int again = uv_rwlock_tryrdlock(&RW);                    /* A nests its read lock */
    if (again != 0) same_refused++;
    uv_thread_create(&b, ww_reader, NULL);                   /* reader B arrives */
    for (int i = 0; i < 150 && !atomic_load(&wb_in); i++) uv_sleep(2);
    if (!atomic_load(&wb_in)) other_blocked++;
    if (atomic_load(&wb_try) != 0) other_refused++;
    if (atomic_load(&ww_in)) writer_in++;                    /* writer inside while A still reads */
    if (again == 0) uv_rwlock_rdunlock(&RW);
    uv_rwlock_rdunlock(&RW);
    uv_sem_post(&wb_release);
    uv_thread_join(&b); uv_thread_join(&w);
    uv_sem_destroy(&wb_release); uv_rwlock_destroy(&RW);
  }
  printf("rwlock-wwait rounds %d same_thread_tryrd_refused %d other_tryrd_refused %d other_rdlock_blocked %d writer_in_while_read_held %d\n",
         ROUNDS, same_refused, other_refused, other_blocked, writer_in);
}

/* ---- semaphore */
static uv_sem_t SEM; static int SEMK; static atomic_long sem_got;
static void sem_worker(void* a) {
  unsigned s = (unsigned)(uintptr_t) a + 3;
  for (int i = 0; i < ROUNDS; i++) {
    if (i & 1) { int r; while ((r = uv_sem_trywait(&SEM)) != 0) { if (r != UV_EAGAIN) atomic_fetch_add(&bad, 1); sched_yield(); } }
    else uv_sem_wait(&SEM);
    int v = atomic_fetch_add(&inside, 1) + 1; note_max(&max_inside, v);
    spin(&s);
    atomic_fetch_sub(&inside, 1);
    uv_sem_post(&SEM);
  }
}
static void sem_taker(void* a) {         /* grabs permits without giving back; counts them */
  (void) a;
  for (int i = 0; i < ROUNDS * 4; i++) { int r = uv_sem_trywait(&SEM); if (r == 0) atomic_fetch_add(&sem_got, 1); else if (r != UV_EAGAIN) atomic_fetch_add(&bad, 1); if ((i & 3) == 0) sched_yield(); }
}
static void t_sem(int k) {
  reset(); SEMK = k;
  if (uv_sem_init(&SEM, k)) { printf("init-failed\n"); return; }
  run_threads(sem_worker, NT);
  printf("sem permits %d max_inside %d badcodes %d\n", k, atomic_load(&max_inside), atomic_load(&bad));
  /* exact count: k permits left now; drain single-threaded: k successes then UV_EAGAIN */
  int ok = 0, r; while ((r = uv_sem_trywait(&SEM)) == 0 && ok < k + 5) ok++;
  printf("sem-drain permits %d got %d then %d\n", k, ok, r);
  /* posts: P posts against NT takers -> exactly P successes in total */
  atomic_store(&sem_got, 0); atomic_store(&bad, 0);
  uv_thread_t t[MAXT]; int posts = ROUNDS;
  for (int i = 0; i < NT; i++) uv_thread_create(&t[i], sem_taker, NULL);
  for (int i = 0; i < posts; i++) { uv_sem_post(&SEM); if ((i & 7) == 0) sched_yield(); }
  for (int i = 0; i < NT; i++) uv_thread_join(&t[i]);
  long got = atomic_load(&sem_got); int rest = 0; while (uv_sem_trywait(&SEM) == 0 && rest < posts + 5) rest++;
  printf("sem-posts posts %d taken %ld left %d badcodes %d\n", posts, got, rest, atomic_load(&bad));
  uv_sem_destroy(&SEM);
}

/* ---- blocking waits interrupted by a signal whose handler has no SA_RESTART */
static atomic_int sig_handled, through; static uv_sem_t ISEM; static int intr_pred; static uv_cond_t CV;
static void on_usr1(int sig) { (void) sig; atomic_fetch_add(&sig_handled, 1); }
static void sem_intr_waiter(void* a) { (void) a; uv_sem_wait(&ISEM); atomic_fetch_add(&through, 1); }
static void mutex_intr_waiter(void* a) {
  (void) a; uv_mutex_lock(&M); atomic_fetch_add(&through, 1);
  int v = atomic_fetch_add(&inside, 1) + 1; note_max(&max_inside, v); sched_yield(); atomic_fetch_sub(&inside, 1);
  uv_mutex_unlock(&M);
}
static void cond_intr_waiter(void* a) {
  (void) a; uv_mutex_lock(&M);
  while (!intr_pred) {
    uv_cond_wait(&CV, &M);
    int v = atomic_fetch_add(&inside, 1) + 1; note_max(&max_inside, v); sched_yield(); atomic_fetch_sub(&inside, 1);
  }
  atomic_fetch_add(&through, 1);
  uv_mutex_unlock(&M);
}
static void bombard(uv_thread_t* t, int n, int volleys) {
  for (int k = 0; k < volleys; k++) { for (int i = 0; i < n; i++) pthread_kill(t[i], SIGUSR1); uv_sleep(2); }
}
static void t_intr(const char* what) {
  struct sigaction sa, old; memset(&sa, 0, sizeof sa); sa.sa_handler = on_usr1; sa.sa_flags = 0;  /* no SA_RESTART */
  sigemptyset(&sa.sa_mask); sigaction(SIGUSR1, &sa, &old);
  reset(); atomic_store(&sig_handled, 0); atomic_store(&through, 0); intr_pred = 0;
  uv_thread_t t[MAXT]; int before, after, extra = 0;
  if (!strcmp(what, "sem-intr")) {
    uv_sem_init(&ISEM, 0);
    for (int i = 0; i < NT; i++) uv_thread_create(&t[i], sem_intr_waiter, NULL);
    uv_sleep(20); bombard(t, NT, ROUNDS); uv_sleep(10);
    before = atomic_load(&through);
    for (int i = 0; i < NT; i++) uv_sem_post(&ISEM);
    for (int i = 0; i < NT; i++) uv_thread_join(&t[i]);
    after = atomic_load(&through); extra = uv_sem_trywait(&ISEM);   /* surplus token left? */
    uv_sem_destroy(&ISEM);
  } else if (!strcmp(what, "mutex-intr")) {
    uv_mutex_init(&M); uv_mutex_lock(&M);
    for (int i = 0; i < NT; i++) uv_thread_create(&t[i], mutex_intr_waiter, NULL);
    uv_sleep(20); bombard(t, NT, ROUNDS); uv_sleep(10);
    before = atomic_load(&through);
    uv_mutex_unlock(&M);
    for (int i = 0; i < NT; i++) uv_thread_join(&t[i]);
    after = atomic_load(&through); extra = atomic_load(&max_inside);
    uv_mutex_destroy(&M);
  } else {
    uv_mutex_init(&M); uv_cond_init(&CV);
    for (int i = 0; i < NT; i++) uv_thread_create(&t[i], cond_intr_waiter, NULL);
    uv_sleep(20); bombard(t, NT, ROUNDS); uv_sleep(10);
    before = atomic_load(&through);
    uv_mutex_lock(&M); intr_pred = 1; uv_cond_broadcast(&CV); uv_mutex_unlock(&M);
    for (int i = 0; i < NT; i++) uv_thread_join(&t[i]);
    after = atomic_load(&through); extra = atomic_load(&max_inside);
    uv_cond_destroy(&CV); uv_mutex_destroy(&M);
  }
  sigaction(SIGUSR1, &old, NULL);
  printf("%s waiters %d handled %d through_before %d through_after %d extra %d\n", what, NT, atomic_load(&sig_handled), before, after, extra);
}

/* ---- barrier */
static uv_barrier_t BAR; static atomic_int* arrived; static atomic_int* serials; static atomic_int early; static int BARN;
static void barrier_worker(void* a) {
  unsigned s = (unsigned)(uintptr_t) a + 11;
  for (int r = 0; r < ROUNDS; r++) {
    spin(&s);
    atomic_fetch_add(&arrived[r], 1);
    int rc = uv_barrier_wait(&BAR);
    if (atomic_load(&arrived[r]) != BARN) atomic_fetch_add(&early, 1);   /* released before all arrived */
    if (rc) atomic_fetch_add(&serials[r], 1);
  }
}
static void t_barrier(int count) {
  BARN = count; atomic_store(&early, 0);
  arrived = calloc(ROUNDS, sizeof *arrived); serials = calloc(ROUNDS, sizeof *serials);
  if (uv_barrier_init(&BAR, count)) { printf("init-failed\n"); return; }
  run_threads(barrier_worker, count);
  int not_one = 0; for (int r = 0; r < ROUNDS; r++) if (atomic_load(&serials[r]) != 1) not_one++;
  printf("barrier count %d rounds %d early %d rounds_serial_not_1 %d\n", count, ROUNDS, atomic_load(&early), not_one);
  uv_barrier_destroy(&BAR); free(arrived); free(serials);
}

/* ---- once */
static uv_once_t* guards; static atomic_int* once_runs; static _Thread_local int once_idx;
static uv_barrier_t OB;
static void once_fn(void) { atomic_fetch_add(&once_runs[once_idx], 1); sched_yield(); }
static atomic_int once_unfinished;
static void once_worker(void* a) {
  (void) a;
  for (int r = 0; r < ROUNDS; r++) {
    uv_barrier_wait(&OB);
    once_idx = r; uv_once(&guards[r], once_fn);
    if (atomic_load(&once_runs[r]) != 1) atomic_fetch_add(&once_unfinished, 1);  /* returned before fn ran */
  }
}
static void t_once(void) {
  guards = malloc(ROUNDS * sizeof *guards); once_runs = calloc(ROUNDS, sizeof *once_runs);
  uv_once_t init = UV_ONCE_INIT; for (int r = 0; r < ROUNDS; r++) guards[r] = init;
  atomic_store(&once_unfinished, 0); uv_barrier_init(&OB, NT);
  run_threads(once_worker, NT);
  int not_one = 0; for (int r = 0; r < ROUNDS; r++) if (atomic_load(&once_runs[r]) != 1) not_one++;
  printf("once guards %d threads %d not_exactly_once %d returned_before_done %d\n", ROUNDS, NT, not_one, atomic_load(&once_unfinished));
  uv_barrier_destroy(&OB); free(guards); free(once_runs);
}

/* ---- TLS keys */
static uv_key_t KEY; static atomic_int key_bad, key_initial_nonnull;
static void key_worker(void* a) {
  unsigned s = (unsigned)(uintptr_t) a + 5; char local;
  if (uv_key_get(&KEY) != NULL) atomic_fetch_add(&key_initial_nonnull, 1);
  for (int i = 0; i < ROUNDS; i++) {
    void* mine = (i & 1) ? (void*) &local : (void*) ((uintptr_t) a * 4096 + i + 1);
    uv_key_set(&KEY, mine); spin(&s);
    if (uv_key_get(&KEY) != mine) atomic_fetch_add(&key_bad, 1);
  }
}
static void t_key(void) {
  atomic_store(&key_bad, 0); atomic_store(&key_initial_nonnull, 0);
  if (uv_key_create(&KEY)) { printf("init-failed\n"); return; }
  static int mainv; uv_key_set(&KEY, &mainv);
  run_threads(key_worker, NT);
  printf("key foreign_value_seen %d initial_nonnull %d main_kept %d\n", atomic_load(&key_bad), atomic_load(&key_initial_nonnull), uv_key_get(&KEY) == (void*) &mainv);
  uv_key_delete(&KEY);
}

/* ---- condvar: signal / broadcast release; mutex held on return */
static uv_cond_t CV; static int cv_tokens, cv_go; static atomic_int cv_released;
static void cv_waiter(void* a) {
  unsigned s = (unsigned)(uintptr_t) a + 9;
  uv_mutex_lock(&M);
  while (cv_tokens == 0 && !cv_go) {
    uv_cond_wait(&CV, &M);
    int v = atomic_fetch_add(&inside, 1) + 1; note_max(&max_inside, v);   /* must own M here */
    long c = plain_counter; spin(&s); plain_counter = c + 1;
    atomic_fetch_sub(&inside, 1);
  }
  if (!cv_go) cv_tokens--;
  atomic_fetch_add(&cv_released, 1);
  uv_mutex_unlock(&M);
}
static void t_cond(int broadcast) {
  reset(); cv_tokens = 0; cv_go = 0; atomic_store(&cv_released, 0);
  uv_mutex_init(&M); uv_cond_init(&CV);
  uv_thread_t t[MAXT]; for (int i = 0; i < NT; i++) uv_thread_create(&t[i], cv_waiter, (void*)(uintptr_t) i);
  if (broadcast) {
    uv_sleep(20); uv_mutex_lock(&M); cv_go = 1; uv_cond_broadcast(&CV); uv_mutex_unlock(&M);
  } else {
    for (int i = 0; i < NT; i++) {        /* one token + one signal per waiter; re-signal until it is consumed */
      uv_mutex_lock(&M); cv_tokens++; uv_cond_signal(&CV); uv_mutex_unlock(&M);
      for (;;) { uv_mutex_lock(&M); int left = cv_tokens; if (left) uv_cond_signal(&CV); uv_mutex_unlock(&M); if (!left) break; sched_yield(); }
    }
  }
  for (int i = 0; i < NT; i++) uv_thread_join(&t[i]);   /* hangs (timeout) if a waiter is never released */
  printf("cond-%s waiters %d released %d max_inside %d\n", broadcast ? "broadcast" : "signal", NT, atomic_load(&cv_released), atomic_load(&max_inside));
  uv_cond_destroy(&CV); uv_mutex_destroy(&M);
}

/* ---- timedwait: never early */
static void t_timedwait(uint64_t tmo) {
  uv_mutex_init(&M); uv_cond_init(&CV); uv_mutex_lock(&M);
  uint64_t t0 = uv_hrtime(); int r = uv_cond_timedwait(&CV, &M, tmo); uint64_t t1 = uv_hrtime();
  /* after return the mutex must be held again: another thread's trylock is refused */
  uv_mutex_unlock(&M);
  printf("timedwait timeout %" PRIu64 " ret %d elapsed %" PRIu64 "\n", tmo, r, t1 - t0);
  uv_cond_destroy(&CV); uv_mutex_destroy(&M);
}
static atomic_int lw_state; static int lw_ret; static uint64_t lw_tmo; static int lw_pred; static int lw_held;
static void trylock_probe(void* a) { int r = uv_mutex_trylock(&M); if (r == 0) uv_mutex_unlock(&M); *(int*) a = r; }
static void long_waiter(void* a) {
  (void) a; uv_mutex_lock(&M); atomic_store(&lw_state, 1);
  int r = 0; while (!lw_pred && r == 0) r = uv_cond_timedwait(&CV, &M, lw_tmo);
  lw_ret = r; atomic_store(&lw_state, 2);
  /* mutex re-acquired on return: a probe thread must find it busy */
  uv_thread_t p; int pr = 12345; uv_thread_create(&p, trylock_probe, &pr); uv_thread_join(&p); lw_held = pr;
  uv_mutex_unlock(&M);
}
static void t_longwait(uint64_t tmo, int ms) {   /* timeout far in the future: must still block after `ms`, then a signal releases it */
  uv_mutex_init(&M); uv_cond_init(&CV); lw_tmo = tmo; lw_pred = 0; atomic_store(&lw_state, 0);
  uv_thread_t t; uv_thread_create(&t, long_waiter, NULL);
  while (atomic_load(&lw_state) == 0) sched_yield();
  uv_sleep(ms);
  int still = atomic_load(&lw_state) == 1;
  uv_mutex_lock(&M); lw_pred = 1; uv_cond_signal(&CV); uv_mutex_unlock(&M);
  uv_thread_join(&t);
  printf("longwait timeout %" PRIu64 " after_ms %d still_blocked %d ret %d mutex_on_return %d\n", tmo, ms, still, lw_ret, lw_held);
  uv_cond_destroy(&CV); uv_mutex_destroy(&M);
}

/* ---- thread creation: entry once, with the argument, on a stack >= request; join after finish */
static atomic_int ran; static void* seen_arg; static size_t seen_stack; static atomic_int finished;
static void create_entry(void* a) {
  pthread_attr_t at; size_t sz = 0; void* addr;
  atomic_fetch_add(&ran, 1); seen_arg = a;
  if (pthread_getattr_np(pthread_self(), &at) == 0) { pthread_attr_getstack(&at, &addr, &sz); pthread_attr_destroy(&at); }
  seen_stack = sz;
  uv_sleep(2);
  atomic_store(&finished, 1);
}
static void t_create(int has_flag, size_t req) {
  uv_thread_options_t opt; uv_thread_t t; static int cookie;
  atomic_store(&ran, 0); atomic_store(&finished, 0); seen_arg = NULL; seen_stack = 0;
  opt.flags = has_flag ? UV_THREAD_HAS_STACK_SIZE : UV_THREAD_NO_FLAGS; opt.stack_size = req;
  int rc = uv_thread_create_ex(&t, &opt, create_entry, &cookie), jr = -1, fin = -1;
  if (rc == 0) { jr = uv_thread_join(&t); fin = atomic_load(&finished); }
  else uv_sleep(3);
  printf("create flag %d req %zu ret %d ran %d arg_ok %d stack %zu join %d finished_at_join %d\n", has_flag, req, rc,
         atomic_load(&ran), seen_arg == (void*) &cookie, seen_stack, jr, fin);
}

/* default rule against the real RLIMIT_STACK: lower the soft limit, create without a request */
static void t_create_rlim(const char* v) {
  struct rlimit old, l;
  if (getrlimit(RLIMIT_STACK, &old)) { printf("getrlimit-failed\n"); return; }
  l = old; l.rlim_cur = !strcmp(v, "inf") ? RLIM_INFINITY : (rlim_t) strtoull(v, 0, 10);
  if (l.rlim_cur != RLIM_INFINITY && old.rlim_max != RLIM_INFINITY && l.rlim_cur > old.rlim_max) { printf("rlim-skip\n"); return; }
  if (l.rlim_cur == RLIM_INFINITY && old.rlim_max != RLIM_INFINITY) { printf("rlim-skip\n"); return; }
  if (setrlimit(RLIMIT_STACK, &l)) { printf("rlim-skip\n"); return; }
  printf("rlim %s ", v);
  t_create(0, 0);
  setrlimit(RLIMIT_STACK, &old);
}

int main(void) {
  char line[256]; char* w[8];
  setvbuf(stdout, NULL, _IOLBF, 0);
  while (fgets(line, sizeof line, stdin)) {
    int n = words(line, w, 8);
    if (n == 0) continue;
    if (!strcmp(w[0], "contend") && n == 4 && is_nat(w[2]) && is_nat(w[3])) {
      NT = atoi(w[2]); ROUNDS = atoi(w[3]);
      if (NT < 2 || NT > MAXT || ROUNDS < 1) { printf("bad-op\n"); continue; }
      if (!strcmp(w[1], "mutex")) t_mutex(0);
      else if (!strcmp(w[1], "rmutex")) t_mutex(1);
      else if (!strcmp(w[1], "rwlock")) t_rwlock();
      else if (!strcmp(w[1], "rwlock-wwait")) t_rwlock_wwait();
      else if (!strcmp(w[1], "sem")) t_sem(1 + NT / 3);
      else if (!strcmp(w[1], "barrier")) t_barrier(NT);
      else if (!strcmp(w[1], "once")) t_once();
      else if (!strcmp(w[1], "key")) t_key();
      else if (!strcmp(w[1], "sem-intr") || !strcmp(w[1], "mutex-intr") || !strcmp(w[1], "cond-intr")) t_intr(w[1]);
      else if (!strcmp(w[1], "cond-signal")) t_cond(0);
      else if (!strcmp(w[1], "cond-broadcast")) t_cond(1);
      else printf("bad-op\n");
    } else if (!strcmp(w[0], "timedwait") && n == 2 && is_nat(w[1])) t_timedwait(strtoull(w[1], 0, 10));
    else if (!strcmp(w[0], "longwait") && n == 3 && is_nat(w[1]) && is_nat(w[2])) t_longwait(strtoull(w[1], 0, 10), atoi(w[2]));
    else if (!strcmp(w[0], "create") && n == 3 && is_nat(w[1]) && is_nat(w[2])) t_create(atoi(w[1]), (size_t) strtoull(w[2], 0, 10));
    else if (!strcmp(w[0], "create-rlim") && n == 2 && (is_nat(w[1]) || !strcmp(w[1], "inf"))) t_create_rlim(w[1]);
    else if (!strcmp(w[0], "loopinit") && n == 1) { static uv_loop_t rl; static int done; int r = 0; if (!done) { r = uv_loop_init(&rl); done = 1; } uv_update_time(&rl); printf("loopinit %d\n", r); }
    else if (!strcmp(w[0], "env") && n == 1) printf("env pagesize %d stackmin %ld\n", getpagesize(), (long) PTHREAD_STACK_MIN);
    else printf("bad-op\n");
  }
  return 0;
}
#endif
