"""C09 — uv_async_send: no lost wake-ups, callbacks only after sends, close protocol (src/unix/async.c).
Proof: UvModel.Props.C09 over the interleaving model UvModel.Async.
Tie A: the sequence of atomic operations / eventfd accesses of uv_async_send, uv__async_send,
uv__async_io, uv__async_spin, uv__async_close is extracted from the working tree into
lean/UvModel/Generated/AsyncSeq.lean and proved equal to the order the model executes.
Tie B: harness/c09_sched.c runs the unmodified async.c under the baton-passing serialising scheduler
(every atomic / eventfd access is a schedule point, the eventfd is a counter); every step's
abstract state is compared with `uvdriver async`; monitors in the harness are independent of the model.
Input classes beyond the small exhaustive scopes: handles initialised with async_cb == NULL (cfg nocb=, delivery = the woken
loop consuming the flag), bursts of sends to every one of 15..150 handles in one wake-up pass (scheduler + model), and
real-loop runs (`realmany`, `realnull`: real eventfd/epoll, up to 20000 handles, > 1024 other ready descriptors)."""
import re, subprocess
from vlib import *

MANIFEST = {
 "text": "Lean 4 theorems over a sequentially-consistent interleaving model of uv_async_send / uv__async_io / "
         "uv__async_close (any number of senders and handles, every interleaving): the loop can never block while an open "
         "handle has a send owed (no_lost_wakeup, never_blocks_owing), every returned send is seen by a later callback or "
         "still pending (send_then_callback), callbacks <= effective sends, no callback after uv__async_close, no eventfd "
         "write on behalf of a closed handle.  The model is tied to the working tree by (A) the instruction order extracted "
         "from async.c being proved equal to the model's and (B) running the real async.c under a serialising scheduler, "
         "exhaustively for small configurations and on random schedules, comparing every state with the model and "
         "evaluating deadlock / callback-count / use-after-close monitors on the implementation itself; size classes (every "
         "one of up to 150 handles under the scheduler, up to 20000 on the real loop, pending in the same wake-up pass) and "
         "handles without a callback are part of the generated inputs.",
 "note": "Trusted: Lean kernel, clang/ASan, the scheduler harness (atomics re-defined as schedule points, eventfd simulated "
         "as a counter, epoll readiness = counter > 0).  Sequential consistency is assumed: the relaxed first load and C11 "
         "acquire/release subtleties are not modelled; the pipe fallback (non-Linux) and eventfd counter overflow are not "
         "modelled.  async_cb == NULL handles are exercised as handles whose (empty) callback returns at once; the delivery of a send "
         "to such a handle is observed as the woken loop thread consuming the flag (scheduler) / a loop iteration (real loop).  uv_close from inside an async callback and between polls "
         "is modelled; uv_async_init while the loop is scanning is not.",
 "design": "DESIGN.md §3 C09",
 "technique": "Lean 4 proof over executable interleaving model + instruction-order extraction (Tie A) + serialising-scheduler "
              "correspondence with exhaustive small scopes (Tie B) + monitors",
}

GEN = LEAN / "UvModel/Generated/AsyncSeq.lean"
FUNCS = [("uv_async_send", "asyncSendSeq"), ("uv__async_send", "asyncWakeupSeq"), ("uv__async_io", "asyncIoSeq"),
         ("uv__async_spin", "asyncSpinSeq"), ("uv__async_close", "asyncCloseSeq"), ("uv__async_fork", "asyncForkSeq")]


# ----------------------------------------------------------------------------- Tie A: instruction order
def preprocess_async(ctx):
    """async.c with its #if blocks resolved by clang but no macro expanded (all #includes resolve to empty stubs)"""
    src = (REPO / "src/unix/async.c").read_text()
    stub = ctx.tmp / "stubinc"
    for inc in re.findall(r'#\s*include\s*[<"]([^>"]+)[>"]', src):
        f = stub / inc
        f.parent.mkdir(parents=True, exist_ok=True)
        f.write_text("")
    r = subprocess.run(["clang", "-E", "-P", "-nostdinc", f"-I{stub}", "-iquote", str(stub), "-x", "c", "-"],
                       input=src, stdout=subprocess.PIPE, stderr=subprocess.PIPE, text=True)
    return r.stdout if r.returncode == 0 else None


def func_body(txt, name):
    for m in re.finditer(r"\b" + re.escape(name) + r"\s*\(", txt):
        i, depth = m.end(), 1
        while i < len(txt) and depth:
            depth += {"(": 1, ")": -1}.get(txt[i], 0); i += 1
        j = i
        while j < len(txt) and txt[j].isspace():
            j += 1
        if j < len(txt) and txt[j] == "{":
            k, depth = j + 1, 1
            while k < len(txt) and depth:
                depth += {"{": 1, "}": -1}.get(txt[k], 0); k += 1
            return txt[j:k]
    return None


TOK_RE = re.compile(
    r"(?P<atomic>\batomic_(?P<op>\w+?)(?:_explicit)?\s*\((?P<args>[^()]*)\)(?:\s*(?P<cmp>==|!=)\s*0\b)?)"
    r"|(?P<ret>\breturn\b)|(?P<cont>\bcontinue\b)"
    r"|(?P<wakeup>\buv__async_send\s*\()|(?P<write>\bwrite\s*\()|(?P<read>\bread\s*\()"
    r"|(?P<cbnull>->\s*async_cb\s*==\s*NULL)|(?P<cb>->\s*async_cb\s*\()"
    r"|(?P<qmove>\buv__queue_move\s*\()|(?P<qpop>\buv__queue_insert_tail\s*\()|(?P<unlink>\buv__queue_remove\s*\(\s*&)"
    r"|(?P<spin>\buv__async_spin\s*\()|(?P<hstop>\buv__handle_stop\s*\()"
    r"|(?P<kevent>\bkevent\s*\()"
    r"|(?P<pstore>->\s*(?P<pvar>pending|u\.fd)\s*=\s*(?P<pval>-?\d+)\s*;)|(?P<restart>\buv__async_start\s*\()"
    r"|(?P<doloop>\bdo\b)|(?P<whilecond>\bwhile\s*\()|(?P<eintr>\berrno\s*==\s*EINTR\b)|(?P<eagain>\berrno\s*==\s*EAGAIN\b)")


def lean_int(s):
    s = s.strip()
    return f"({s})" if re.fullmatch(r"-\d+", s) else s if re.fullmatch(r"\d+", s) else None


def extract_tokens(body):
    out = []
    for m in TOK_RE.finditer(body):
        if m.group("atomic"):
            op = m.group("op")
            args = [a.strip() for a in m.group("args").split(",")]
            var = {"pending": ".pending", "busy": ".busy"}.get(args[0])
            val = lean_int(args[1]) if len(args) > 1 else None
            if var is None:
                out.append(f'.other "{m.group("atomic")[:60]}"')
            elif op == "load":
                out.append(f".load {var}")
            elif op == "store" and val:
                out.append(f".store {var} {val}")
            elif op == "exchange" and val:
                out.append(f".xchg {var} {val}")
            elif op == "fetch_add" and val:
                out.append(f".fetchAdd {var} {val}")
            else:
                out.append(f'.other "{re.sub(r"[^A-Za-z0-9_(), -]", "", m.group("atomic"))[:60]}"')
            if m.group("cmp"):
                out.append(".ifEq0" if m.group("cmp") == "==" else ".ifNe0")
        elif m.group("pstore"):
            out.append(".plainStore %s %s" % (".pending" if m.group("pvar") == "pending" else ".busy", lean_int(m.group("pval"))))
        else:
            kind = m.lastgroup
            out.append({"ret": ".ret", "cont": ".cont", "wakeup": ".wakeup", "write": ".writeEfd", "read": ".readEfd",
                        "cbnull": ".cbNullCheck", "cb": ".callback", "qmove": ".queueMove", "qpop": ".queuePop",
                        "unlink": ".unlink", "spin": ".spin", "hstop": ".handleStop",
                        "kevent": '.other "kevent"', "doloop": ".doLoop", "whilecond": ".whileCond",
                        "eintr": ".ifEintr", "eagain": ".ifEagain", "restart": ".restart"}[kind])
    return out


def gen_async_seq(ctx):
    txt = preprocess_async(ctx)
    if txt is None:
        ctx.broken.append(("tie-A", "async.c does not preprocess", ""))
        return None
    seqs = {}
    lines = ["import UvModel.Async",
             "/-! GENERATED by checks/c09.py from src/unix/async.c (order of atomic operations, eventfd accesses, queue",
             "    operations and callbacks in each function body, `#if`s resolved for Linux) — do not edit. -/",
             "namespace UvModel.Generated.AsyncSeq", "open UvModel.Async", ""]
    for fn, lean_name in FUNCS:
        body = func_body(txt, fn)
        toks = extract_tokens(body) if body is not None else ['.other "function not found"']
        seqs[fn] = toks
        lines.append(f"/-- `{fn}` -/")
        lines.append(f"def {lean_name} : List Tok := [" + ", ".join(toks) + "]")
        lines.append("")
    lines.append("end UvModel.Generated.AsyncSeq")
    new = "\n".join(lines) + "\n"
    if not GEN.exists() or GEN.read_text() != new:
        GEN.write_text(new)
    return seqs


# ----------------------------------------------------------------------------- configurations
def cfg_line(nh, close, senders, sig=(), free="safe", eintr=0, cap=None, fork=0, stop=0, spin=0, nocb=()):
    """nocb: handles initialised with async_cb == NULL (the documented "just wake the loop" use)"""
    return ("cfg nh=%d close=%s senders=%s sig=%s free=%s eintr=%d cap=%s fork=%d stop=%d spin=%d nocb=%s" % (
        nh, ",".join(map(str, close)) or "-", ";".join(",".join(map(str, p)) for p in senders) or "-",
        ",".join(f"{t}:{v}" for t, v in sig) or "-", free, eintr, "-" if cap is None else cap, fork, stop, spin,
        ",".join(map(str, nocb)) or "-"))


DFS_QUICK = [
    cfg_line(1, [], [[0], [0]]),
    cfg_line(1, [0], [[0], [0]]),
    cfg_line(2, [], [[0], [1]]),
    cfg_line(2, [1], [[0], [1]]),
    cfg_line(1, [], [[0, 0], [0]]),
    cfg_line(1, [], [[0], [0]], sig=[(1, "l")]),      # sender 1 is a signal handler interrupting the loop thread
    cfg_line(1, [0], [[0], [0]], sig=[(1, 0)]),       # ... interrupting sender 0
    cfg_line(2, [0], [[0, 1]]),
    cfg_line(2, [0, 1], [[0], [1]]),                  # callbacks closing themselves and the other handle, in any order, during the scan
    cfg_line(2, [0, 1], [[0]]),                       # ... while the other handle never got a send
    cfg_line(1, [], [[0], [0]], eintr=2),             # wake-up write / drain read interrupted (EINTR), any call, up to twice
    cfg_line(2, [], [[0], [1]], eintr=1, cap=1),      # counter saturated: the second effective send's write answers EAGAIN
    cfg_line(1, [0], [[0, 0]], eintr=1, cap=1),
    cfg_line(1, [], [[0, 0]], fork=1),                # fork + uv_loop_fork at any quiescent point of the loop: sends before / across / after
    cfg_line(2, [1], [[0], [1]], fork=1),             # ... with a second sender thread (lost in the child when mid-send) and a close
    cfg_line(2, [], [[0], [1]], stop=1),              # uv_stop() from an async callback with both handles signalled; the loop is run again
    cfg_line(2, [1], [[0, 1, 0]], stop=2),
    cfg_line(1, [0], [[0], [0]], spin=3),             # the closer spins while a sender is frozen inside the busy section (any point)
    cfg_line(1, [], [[0, 0], [0]], nocb=[0]),         # a handle without a callback: repeated sends, each must wake the loop again
    cfg_line(2, [0], [[0, 1], [1]], nocb=[0]),        # ... next to a handle with a callback (which may close it from its callback)
    cfg_line(2, [1], [[0, 0, 1]], nocb=[0, 1], fork=1, eintr=1),
]
DFS_THOROUGH = [
    cfg_line(1, [0], [[0, 0], [0]]),
    cfg_line(2, [1], [[0, 1], [1, 0]]),
    cfg_line(3, [0, 1, 2], [[1]]),
    cfg_line(1, [0], [[0], [0], [0]]),
    cfg_line(2, [], [[0, 1], [1, 0]]),
    cfg_line(2, [0], [[0], [1]], sig=[(1, "l")]),
    cfg_line(2, [0], [[0], [1], [0]]),
    cfg_line(3, [1], [[0, 1], [2, 1]]),
    cfg_line(1, [0], [[0, 0], [0, 0]]),
    cfg_line(2, [1], [[0], [1], [1]], sig=[(2, "l")]),
    cfg_line(2, [], [[0, 1], [1]], sig=[(1, "l")], eintr=2, cap=2),
    cfg_line(2, [1], [[0, 1], [1]], eintr=1, cap=1),
    cfg_line(1, [0], [[0], [0]], spin=998),
    cfg_line(2, [0], [[0, 1], [1]], fork=2),
    cfg_line(1, [0], [[0, 0], [0]], fork=1, eintr=1, cap=1),
    cfg_line(2, [1], [[0, 1], [1, 0]], stop=1),
    cfg_line(2, [0], [[0, 1], [1]], stop=1, fork=1, eintr=1),
    cfg_line(1, [0], [[0, 0], [0, 0]], nocb=[0]),
    cfg_line(2, [0], [[0, 1], [1, 0]], nocb=[0]),
    cfg_line(3, [2], [[0, 1], [2, 1]], nocb=[1, 2]),
    cfg_line(2, [], [[0, 1, 0], [1]], nocb=[1], sig=[(1, "l")], stop=1),
    cfg_line(2, [0], [[0, 1, 0]], nocb=[0], spin=998, cap=1, eintr=1),
]
PROBE_FREE_IN_CB = cfg_line(1, [0], [[0]], free="cb")


def gen_rand_cfg(rng):
    nh = rng.range(1, 3)
    ns = rng.range(1, 4)
    senders = [[rng.below(nh) for _ in range(rng.range(1, 4))] for _ in range(ns)]
    close = [h for h in range(nh) if rng.chance(1, 3)]
    sig = []
    if ns >= 2 and rng.chance(1, 4):
        t = rng.below(ns)
        v = rng.choice(["l"] + [x for x in range(ns) if x != t])
        sig = [(t, v)]
    nocb = [h for h in range(nh) if rng.chance(1, 3)] if rng.chance(1, 2) else []
    return cfg_line(nh, close, senders, sig, eintr=rng.choice([0, 0, 1, 2, 3]), cap=rng.choice([None, None, 1, 2]),
                    fork=rng.choice([0, 0, 1, 2]), stop=rng.choice([0, 0, 1, 2]),
                    spin=rng.choice([0, 0, 0, 0, 0, 0, 1, 1100]), nocb=nocb)


# ----------------------------------------------------------------------------- size class: many handles pending in one pass
def burst_case(rng, n, rounds=2, split=None):
    """n handles, one sender sending once to each of them `rounds` times; every send of a round is issued before the loop
    scans (all n pending in the same wake-up pass).  split=k: the loop wakes up and drains the eventfd after the k-th send
    of the round, the remaining sends land while uv__async_io is about to scan.  A few handles have no callback."""
    nocb = sorted({rng.below(n) for _ in range(max(1, n // 8))})
    order = list(range(n))
    prog = []
    for r in range(rounds):
        prog += order if r % 2 == 0 else order[::-1]
    cfg = cfg_line(n, [], [prog], nocb=nocb)
    toks = []
    for r in range(rounds):
        if split is None:
            toks += ["s0"] * (6 * n)
            toks += ["l"] * (2 + 2 * n - len(nocb))
        else:
            k = max(1, min(n - 1, split))
            toks += ["s0"] * (6 * k) + ["l", "l"] + ["s0"] * (6 * (n - k))
            toks += ["l"] * (2 * n - len(nocb))              # first pass: every handle is scanned (the late sends are seen already)
            toks += ["l"] * (2 + n)                           # the late sends wrote the eventfd again: a second, empty pass
    return cfg, " ".join(toks)


def burst_rand_cfg(rng, n):
    """n handles, two senders with long programs over all of them, a few handles closable / without a callback"""
    nocb = sorted({rng.below(n) for _ in range(n // 6)})
    close = sorted({rng.below(n) for _ in range(3)})
    a = list(range(n)); b = [rng.below(n) for _ in range(n)]
    return cfg_line(n, close, [a + a[::-1], b], nocb=nocb, stop=rng.choice([0, 1]), fork=rng.choice([0, 0, 1]),
                    eintr=rng.choice([0, 2]), cap=rng.choice([None, None, 1, 40]))


# ----------------------------------------------------------------------------- running and comparing
SIG_MAP = {"handle-access-after-close-cb": "close-cb-free-vs-send-in-flight"}


def driver_input(lines):
    out = []
    for l in lines:
        if l.startswith("a "):
            out.append(l.split(" ::")[0])
        elif l.startswith("run ::"):
            out.append("run")
        else:
            out.append(l)
    return "\n".join(out) + "\n"


def in_window_switches(path_states):
    """number of context switches that preempt a thread in the middle of a send / of uv__async_io / of uv_close"""
    n = 0
    for i in range(1, len(path_states)):
        (t0, st0), (t1, _) = path_states[i - 1], path_states[i]
        th0 = "l" if t0[0] in "lcfikxp" else "s" + t0[1:]
        th1 = "l" if t1[0] in "lcfikxp" else "s" + t1[1:]
        if th0 == th1:
            continue
        if th0 == "l":
            if "lpc=idle" not in st0:
                n += 1
        else:
            m = re.search(r"\bt%s:(\w+)," % th0[1:], st0)
            if m and m.group(1) != "idle":
                n += 1
    return n


def run_batch(ctx, exe, text, label, compare=True):
    """feed `text` (cfg + dfs/rand/sched commands) to the harness; compare with the model; collect monitor failures.
    returns (ok, violations[(sig, what, replay)], stats)"""
    # a batch takes seconds (quick) to a few minutes (thorough DFS); the cap only bounds a hang of the real code
    rc, out, err = ctx.run(exe, text=text, timeout=ctx.scale(240, 1500))
    lines = out.splitlines()
    viols, stats = [], []
    for l in lines:
        if l.startswith("!! "):
            body, cfg, sched = (l[3:].split(" :: ") + ["", ""])[:3]
            sig, _, what = body.partition(" ")
            viols.append((SIG_MAP.get(sig, sig), what, {"cfg": cfg, "sched": sched.replace("sched ", "", 1)}))
        elif l.startswith("# "):
            stats.append(l[2:])
    if rc != 0:
        # crash / sanitizer abort / hang: locate the step with the tracing run
        rc2, out2, err2 = ctx.run(exe, text=text, timeout=ctx.scale(120, 600), env={"C09_TRACE": "1"})
        cfg, path = "", []
        for l in out2.splitlines():
            if l.startswith("cfg "):
                cfg = l
            elif l.startswith("run ::") or l.startswith("at "):
                path = []
            elif l.startswith("> "):
                path.append(l[2:])
        kind = "hang" if rc == -999 else "crash"
        m = re.search(r"ERROR: AddressSanitizer: (\S+)", err + err2)
        if m:
            kind = "asan-" + m.group(1)
        elif "runtime error" in err + err2:
            kind = "ubsan"
        where = re.search(r"#\d+ \S+ in (\w+) \S*async\.c:(\d+)", err + err2)
        viols.append((f"harness-{kind}" + (f"-{where.group(1)}" if where else ""),
                      f"{label}: harness exited rc={rc}: " + _short(err + err2),
                      {"cfg": cfg, "sched": " ".join(path), "noguard": True}))
        return False, viols, stats
    keep = [l for l in lines if not l.startswith(("!! ", "# ", "> ")) and "TOUCH-FREED" not in l]
    if any(l == "bad-op" for l in keep):
        ctx.broken_correspondence("c09 harness protocol", f"{label}: harness answered bad-op")
        return False, viols, stats
    ok = True
    if compare:
        mout = ctx.driver(["async"], driver_input(keep)).splitlines()
        if mout != keep:
            k = next((i for i in range(min(len(mout), len(keep))) if mout[i] != keep[i]), min(len(mout), len(keep)))
            cfg = next((keep[j] for j in range(k, -1, -1) if keep[j].startswith("cfg ")), "")
            ctx.broken_correspondence(
                "async model vs src/unix/async.c under the scheduler",
                f"{label}: first difference at output line {k} ({cfg}):\n  impl : {keep[k] if k < len(keep) else None}\n"
                f"  model: {mout[k] if k < len(mout) else None}")
            ok = False
    # coverage accounting
    path = []
    for l in keep:
        if l.startswith("run ::"):
            path = []
        elif l.startswith("at "):
            path = path[:int(l.split()[1])]
        elif l.startswith("a "):
            parts = l.split(" :: ")
            if len(parts) == 3:
                path.append((parts[0][2:], parts[2]))
                ctx.count()
                if ok and compare:
                    ctx.validated()
                if len(path) >= 4 and in_window_switches(path[-12:]) >= 2:
                    ctx.nontrivial(hashlib.sha1(" ".join(p[0] for p in path).encode()).hexdigest()[:14])
    return ok, viols, stats


def real_size_case(ctx, exe, kind, args):
    """realmany / realnull monitors of the harness (real loop, no scheduler); returns ((signature, text) | None, output)"""
    rc, out, err = ctx.run(exe, text=f"{kind} {args}\n", timeout=120)
    if kind == "realmany":
        rows = [dict(kv.split("=") for kv in l.split()[1:]) for l in out.splitlines() if l.startswith("realmany ")]
        if rc != 0 or not rows:
            return ("many-handles-harness-crash", f"harness rc={rc}: {_short(err)} {out[-300:]}"), out
        for r in rows:
            if r["ok"] != r["nh"]:
                missing = int(r["nh"]) - int(r["ok"])
                return ("many-handles-send-without-callback",
                        f"round {r['round']}: every handle got one send per round while its previous send had been delivered, so "
                        f"{r['expect']} callbacks per handle are owed; {missing} of {r['nh']} handles differ (callbacks per handle "
                        f"min={r['min']} max={r['max']}, first differing handle #{r['firstbad']})"
                        + (f"; the loop made no progress in the last of {r['passes']} UV_RUN_NOWAIT passes (it would block)" if r["mode"] == "0" else
                           "; the loop stayed blocked until the guard timer")), out
        return None, out
    m = re.search(r"realnull nh=(\d+) sends=(\d+) woken=(\d+) failed_at=(\d+)", out)
    if rc != 0 or not m:
        return ("null-cb-harness-crash", f"harness rc={rc}: {_short(err)} {out[-300:]}"), out
    if m.group(3) != m.group(2):
        return ("null-cb-send-did-not-wake-loop",
                f"send #{m.group(4)} did not wake the loop blocked in uv_run() within 1.2 s (no loop iteration observed by a uv_check_t)"), out
    return None, out


def _short(s):
    ls = [l for l in s.splitlines() if l.strip()]
    head = [l for l in ls if "ERROR" in l or "runtime error" in l or "SUMMARY" in l][:3]
    fr = [l.strip() for l in ls if re.match(r"\s*#\d+ ", l)][:5]
    return " | ".join(head + fr)[:900]


def shrink(ctx, exe, sig, rep):
    """greedy one-token removal keeping the same monitor failure"""
    toks = rep["sched"].split()
    def fails(ts):
        g = "noguard " if rep.get("noguard") else ""
        _, v, _ = run_batch(ctx, exe, f"{rep['cfg']}\nsched {g}{' '.join(ts)}\n", "shrink", compare=False)
        return any(s == sig for s, _, _ in v)
    if not toks or len(toks) > 1500 or not fails(toks):
        return rep
    i = 0
    while i < len(toks) and len(toks) > 1:
        cand = toks[:i] + toks[i + 1:]
        if fails(cand):
            toks = cand
        else:
            i += 1
    return dict(rep, sched=" ".join(toks))


def report(ctx, exe, viols, label):
    seen = set()
    for sig, what, rep in viols:
        if sig in seen:
            continue
        seen.add(sig)
        rep = shrink(ctx, exe, sig, rep)
        ctx.violation(sig, f"C09 ({label}) {sig}: {what}; configuration `{rep['cfg']}`, schedule `{rep['sched']}` "
                           f"(s<t> = next step of sender t, l = loop thread step, c<h> = uv_close(h), f = run close callbacks, e<t> = sender t's eventfd write answers EINTR, i = the loop's eventfd read answers EINTR, k = fork + uv_loop_fork, continue in the child, x = uv_stop() inside the current callback, p = the closing loop thread takes spin=<N> uv__async_spin iterations in a row)", rep)


def run(ctx):
    ctx.trusted += ["clang 14 + ASan/UBSan", "harness/baton_sched.h + harness/c09_sched.c: atomics and eventfd read/write of "
                    "async.c re-defined as schedule points; eventfd simulated as a counter; epoll readiness = counter > 0",
                    "checks/c09.py token extractor (regex over the #if-resolved function bodies)"]
    ctx.assumptions += ["sequential consistency (C11 memory-order subtleties of the relaxed first load not modelled)",
                        "Linux eventfd configuration (loop->async_wfd == -1); eventfd counter never reaches 2^64-2",
                        "the user does not start uv_async_send on a handle after calling uv_close on it, and keeps the handle "
                        "memory alive until uv_async_send calls already in flight have returned (see finding "
                        "close-cb-free-vs-send-in-flight for what happens otherwise)",
                        "uv_close is called on the loop thread only"]
    # Generated/AsyncSeq.lean is shared by every C09 run (possibly of different working trees, concurrently):
    # regenerate + build + audit under one lock
    with Locked(CACHE / "lock-c09-asyncseq"):
        for attempt in range(4):
            nb, no = len(ctx.broken), len(ctx.obligations)
            seqs = gen_async_seq(ctx)
            want = GEN.read_text() if GEN.exists() else None
            proofs_ok = ctx.require_lean(["UvModel.Props.C09"])
            if proofs_ok or (GEN.exists() and GEN.read_text() == want):
                break
            # the generated file was replaced behind our back while lake was running (tools/seedtest.py of any property
            # ends with `git checkout -- lean/UvModel/Generated`): the failure says nothing about this tree — redo
            ctx.log("Generated/AsyncSeq.lean was modified externally during the build; regenerating")
            del ctx.broken[nb:], ctx.obligations[no:]
        if seqs:
            ctx.notes["extracted_sequences"] = {k: " ".join(v) for k, v in seqs.items()}
    exe = ctx.harness("c09_sched", ["harness/c09_sched.c"], link_lib=True)
    if exe is None:
        return
    if ctx.replay:
        rep = json.loads(Path(ctx.replay).read_text())["replay"]
        if "realstop" in rep:
            rc, out, err = ctx.run(exe, text=f"realstop {rep['realstop']}\n", timeout=60)
            print(out + err[-500:])
            if "run3 cbA=1 cbB=1" not in out or "resend cbA=2 cbB=2" not in out:
                ctx.violation("send-lost-after-uv-stop", "replay: " + out[-300:], rep)
            return
        if "realmany" in rep or "realnull" in rep:
            kind = "realmany" if "realmany" in rep else "realnull"
            bad, out = real_size_case(ctx, exe, kind, rep[kind])
            print(out)
            if bad:
                ctx.violation(bad[0], "replay: " + bad[1], rep)
            return
        if "realfork" in rep:
            rc, out, err = ctx.run(exe, text=f"realfork {rep['realfork']}\n", timeout=60)
            print(out + err[-500:])
            if "child cbA=1 cbB=1" not in out or "parent cbA=1 cbB=1" not in out:
                ctx.violation("fork-child-send-not-delivered", "replay: " + out[-300:], rep)
            return
        g = "noguard " if rep.get("noguard") else ""
        ok, viols, _ = run_batch(ctx, exe, f"{rep['cfg']}\nsched {g}{rep['sched']}\n", "replay")
        report(ctx, exe, viols, "replay")
        return

    all_ok, stats_all = True, []

    def batch(text, label, compare=True):
        nonlocal all_ok
        ok, viols, stats = run_batch(ctx, exe, text, label, compare)
        stats_all.extend(f"{label}: {s}" for s in stats)
        report(ctx, exe, viols, label)
        all_ok = all_ok and ok
        return ok, viols

    # corpus: fixed schedules through the windows named in the property record
    corpus = [
        (cfg_line(1, [], [[0], [0]]), "s0 s0 s0 s0 l s0 l s1 s1 l s0 l l"),            # send racing with processing
        (cfg_line(1, [], [[0, 0]]), "s0 s0 s0 s0 s0 l l s0 s0 s0 l s0 s0 s0 s0 l l l l l l"),  # preempted between drain and scan
        (cfg_line(1, [0], [[0]]), "s0 s0 s0 c0 l s0 s0 l f"),                         # close spins for a sender in the critical section
        (cfg_line(2, [0], [[0, 1]]), "s0 s0 s0 s0 s0 s0 l l l c0 l l l s0 s0 s0 s0 s0 s0 l l l l f"),  # close inside a callback
        (cfg_line(1, [], [[0, 0]], eintr=3), "s0 s0 s0 s0 e0 e0 s0 s0 l i l l l s0 s0"),     # EINTR twice on the wake-up write, once on the drain
        (cfg_line(2, [], [[0], [1]], cap=1), "s0 s0 s0 s0 s0 s1 s1 s1 s1 s1 s1 s0 l l l l l l"),  # second write answers EAGAIN
        (cfg_line(2, [], [[0], [1, 1]], stop=1), "s0 s0 s0 s0 s0 s0 s1 s1 s1 s1 s1 s1 l l l x l l l l s1 s1 s1 s1 s1 s1 l l l l l"),  # stop in the first of two signalled callbacks, run again, send again
        (cfg_line(1, [], [[0, 0]], fork=1), "s0 s0 s0 s0 s0 s0 k s0 s0 s0 s0 s0 s0 l l l l"),   # send undelivered at fork time, send again in the child
        (cfg_line(2, [], [[0], [1, 1]], fork=1), "s0 s0 s0 s0 s1 s1 s1 s1 s1 s1 k s1 s1 s1 s1 s1 s1 l l l l l l"),  # a sender mid-send does not exist in the child
    ]
    corpus.append((cfg_line(2, [0, 1], [[0]]), "s0 s0 s0 s0 s0 s0 l l l c0 l l c1 l l l l f"))   # h0's callback closes itself, then its neighbour
    corpus.append((cfg_line(1, [0], [[0], [0]]), "s0 s0 s0 s0 s1 s1 l l l l s1 s1 s1 s1 s1 c0 l s0 s0 l"))  # two overlapping senders, close while one is parked at the eventfd write
    # bounded unfairness: a sender parked inside the busy section (before the exchange / before the eventfd write) for N
    # consecutive uv__async_spin iterations of the closing loop thread (997 spins, then sched_yield, then again)
    for n in (1, 996, 997, 998, 2000, 5000):
        corpus.append((cfg_line(1, [0], [[0]], spin=n), "s0 s0 s0 s0 c0 l p s0 s0 l f"))
        corpus.append((cfg_line(2, [0], [[0], [0, 1]], spin=n), "s0 s0 s0 s1 s1 s1 s1 c0 l p s1 s0 p s0 s0 s1 l f"))
    # handles without a callback: the second and third send must wake the loop again (flag consumed although nothing is called)
    corpus.append((cfg_line(1, [], [[0, 0, 0]], nocb=[0]), "s0 s0 s0 s0 s0 s0 l l l s0 s0 s0 s0 s0 s0 l l l s0 s0 s0 s0 s0 s0 l l l"))
    corpus.append((cfg_line(2, [1], [[0, 1, 0, 1]], nocb=[0]), "s0 s0 s0 s0 s0 s0 s0 s0 s0 s0 s0 s0 l l l l l s0 s0 s0 s0 s0 s0 s0 s0 s0 s0 s0 s0 l l l l c1 l l l f"))
    for c, sc in corpus:
        batch(f"{c}\nsched {sc}\n", "corpus")

    # size class: many handles with a send owed in the same wake-up pass (around every power of two up to the harness limit)
    sizes = [33, 40] if ctx.quick else [15, 16, 17, 31, 32, 33, 34, 63, 64, 65, 100, 127, 128, 129, 150]
    for n in sizes:
        batch("%s\nsched %s\n" % burst_case(ctx.rng, n), f"burst-{n}")
        batch("%s\nsched %s\n" % burst_case(ctx.rng, n, split=ctx.rng.range(1, n - 1)), f"burst-split-{n}")
    for n in ([ctx.rng.range(33, 48)] if ctx.quick else [ctx.rng.range(33, 48), ctx.rng.range(65, 90), ctx.rng.range(129, 150)]):
        batch(f"{burst_rand_cfg(ctx.rng, n)}\nrand {ctx.rng.next() % (2**62)} {ctx.scale(3, 8)}\n", f"burst-rand-{n}")
    ctx.notes["burst_sizes"] = sizes

    # the same size class on the real loop (real eventfd, real epoll, no scheduler): nh handles [+ nfds other ready descriptors]
    many = [(33, 0, 0), (40, 0, 1), (1100, 0, 0), (70, 1100, 0)]
    if not ctx.quick:
        many += [(n, 0, m) for n in (31, 32, 34, 64, 65, 1023, 1024, 1025, 2049) for m in (0, 1)]
        many += [(20000, 0, 0), (40, 1023, 0), (40, 1024, 1), (1030, 1030, 1), (5, 2100, 0)]
    for nh_, nfds, mode in many:
        ctx.count()
        bad, _ = real_size_case(ctx, exe, "realmany", f"{nh_} {nfds} {mode}")
        if bad:
            ctx.violation(bad[0], f"C09 (real loop, {nh_} async handles, {nfds} other ready descriptors, sends issued "
                          f"{'by the loop thread between polls' if mode == 0 else 'by a second thread while the loop is blocked in uv_run'}) {bad[1]}",
                          {"realmany": f"{nh_} {nfds} {mode}"})
        else:
            ctx.validated()
    for nh_, sends in ([(1, 3), (3, 7)] if ctx.quick else [(1, 3), (1, 12), (3, 7), (40, 90)]):
        ctx.count()
        bad, _ = real_size_case(ctx, exe, "realnull", f"{nh_} {sends}")
        if bad:
            ctx.violation(bad[0], f"C09 (real loop, {nh_} async handles initialised with async_cb == NULL, {sends} consecutive sends from "
                          f"another thread, each while the loop is blocked in uv_run) {bad[1]}", {"realnull": f"{nh_} {sends}"})
        else:
            ctx.validated()
    ctx.notes["real_loop_sizes"] = [f"{a}/{b}/{c}" for a, b, c in many]

    # real processes: fork() + uv_loop_fork() in the child with the real eventfd/epoll (no scheduler)
    for variant in (0, 1, 2):
        rc, out, err = ctx.run(exe, text=f"realfork {variant}\n", timeout=60)
        ctx.count()
        vals = dict(re.findall(r"realfork (child|parent|parent-pending) (cbA=\d+ cbB=\d+|cbA=\d+)", out))
        bad = None
        if rc != 0 or "childstatus=0" not in out:
            bad = ("fork-harness-crash", f"harness rc={rc}: {_short(err)} {out[-300:]}")
        elif vals.get("child") != "cbA=1 cbB=1":
            bad = ("fork-child-send-not-delivered", f"after fork() + uv_loop_fork() a thread of the child called uv_async_send on two open handles "
                   f"while the loop was blocked in uv_run: callbacks {vals.get('child')} (expected one each)")
        elif vals.get("parent") != "cbA=1 cbB=1":
            bad = ("fork-parent-send-not-delivered", f"after fork() the parent's sends: callbacks {vals.get('parent')}")
        elif variant == 0 and vals.get("parent-pending") != "cbA=1":
            bad = ("fork-parent-pending-send-lost", f"send undelivered at fork time not delivered in the parent: {vals.get('parent-pending')}")
        if bad:
            ctx.violation(bad[0], f"C09 (real fork, variant {variant}: {['send undelivered at fork time', 'idle at fork time', 'send delivered before fork'][variant]}) {bad[1]}",
                          {"realfork": variant})
        else:
            ctx.validated()
    # real loop: uv_stop() from the callback of the first / second of two handles signalled in the same wake-up, then run again
    for stopper in (0, 1):
        rc, out, err = ctx.run(exe, text=f"realstop {stopper}\n", timeout=60)
        ctx.count()
        m3 = re.search(r"run3 cbA=(\d+) cbB=(\d+)", out)
        m4 = re.search(r"resend cbA=(\d+) cbB=(\d+)", out)
        bad = None
        if rc != 0 or not m3 or not m4:
            bad = ("stop-harness-crash", f"harness rc={rc}: {_short(err)} {out[-300:]}")
        elif m3.group(1) != "1" or m3.group(2) != "1":
            bad = ("send-lost-after-uv-stop", f"two handles signalled before uv_run; callback of handle {'AB'[stopper]} called uv_stop(); after running the loop "
                   f"again (twice, NOWAIT) callbacks A={m3.group(1)} B={m3.group(2)} (each send must get its callback)")
        elif m4.group(1) != "2" or m4.group(2) != "2":
            bad = ("send-lost-after-uv-stop", f"sends issued after the stopped run were not delivered: A={m4.group(1)} B={m4.group(2)} (expected 2 each)")
        if bad:
            ctx.violation(bad[0], f"C09 (real loop, uv_stop from callback {stopper}) {bad[1]}", {"realstop": stopper})
        else:
            ctx.validated()
    ctx.notes["realfork"] = "3 variants, child and parent each receive sends from a second thread while blocked in uv_run"

    # the inherent window: memory released in close_cb while a uv_async_send call is in flight
    batch(f"{PROBE_FREE_IN_CB}\ndfs\n", "probe free-in-close_cb")

    # exhaustive small scopes
    dfs_cfgs = DFS_QUICK + ([] if ctx.quick else DFS_THOROUGH)
    for c in dfs_cfgs:
        batch(f"{c}\ndfs\n", "dfs")
        ctx.log("dfs", c, stats_all[-1] if stats_all else "")
        stats_all[-1:] = [f"{c} :: {stats_all[-1]}"] if stats_all else []

    # random schedules over random configurations
    ncfg = ctx.scale(60, 200)
    runs = ctx.scale(40, 100)
    text = "".join(f"{gen_rand_cfg(ctx.rng)}\nrand {ctx.rng.next() % (2**62)} {runs}\n" for _ in range(ncfg))
    batch(text, "random")

    ctx.notes["exploration"] = stats_all[:60]
    ctx.notes["dfs_states_total"] = sum(int(m.group(1)) for l in stats_all for m in [re.search(r"dfs states=(\d+)", l)] if m)
    ctx.notes["dfs_configurations"] = sum(1 for l in stats_all if "dfs states=" in l)
    ctx.notes["random_schedules"] = sum(int(m.group(1)) for l in stats_all for m in [re.search(r"rand runs=(\d+)", l)] if m)
    if (not proofs_ok or not all_ok or any(k in ("tie-A", "correspondence") for k, _, _ in ctx.broken)) and not ctx.violations:
        # something no longer checks: look for a failing schedule with the monitors alone, enlarged scopes
        ctx.log("searching for a failing schedule with the monitors alone")
        found = len(ctx.violations)
        deadline = time.time() + ctx.scale(90, 240)        # the search is bounded in wall-clock time
        tried = [0, 0]
        for c in DFS_QUICK + DFS_THOROUGH[:6]:
            if time.time() > deadline or len(ctx.violations) > found:
                break
            batch(f"{c}\ndfs\n", "search-dfs", compare=False); tried[0] += 1
        while time.time() < deadline and len(ctx.violations) == found:
            text = "".join(f"{gen_rand_cfg(ctx.rng)}\nrand {ctx.rng.next() % (2**62)} {runs}\n" for _ in range(40))
            batch(text, "search-random", compare=False); tried[1] += 40
        ctx.notes["search"] = (f"monitors alone over {tried[0]} exhaustive configurations and {tried[1]} random configurations x {runs} "
                               f"schedules (time-bounded): " + ("failing schedule found" if len(ctx.violations) > found else "no failing schedule"))
    ctx.cov["rule"] = ("case = one scheduler step of the real async.c compared with the model (exhaustive DFS with visited-state "
                       "pruning over the listed small configurations; random schedules over random configurations of 1-3 handles, "
                       "1-4 senders, optional uv_close, signal-handler senders and handles without a callback; bursts of sends to "
                       "every one of 15..150 handles before / while the loop scans; real-loop runs with up to 20000 handles and up to "
                       "2100 other ready descriptors); non-trivial = execution path with >= 2 context "
                       "switches that preempt a thread inside uv_async_send / uv__async_io / uv_close, distinct by action string")
    ctx.sample({"cfg": corpus[1][0], "sched": corpus[1][1]})
