"""C12 — child processes (src/unix/process.c).
Proof: UvModel.Props.C12 (stdio_mapping, error_pipe_intact, decode_status, exit_once family).
Tie B: (1) unit harness harness/c12_childinit.c = process.c with its syscalls redirected to an in-memory
descriptor table (childinit) / scripted waitpid + fake fork (wait), diffed line by line with
`uvdriver childinit|wait`; (2) harness/c12_spawn.c = real fork/exec of a helper that reports its descriptor
table, cwd, env, session; many children with scripted exits.  Monitors evaluate the property text on what
the real code did, independent of the model."""
import itertools
import os
from vlib import *

MANIFEST = {
 "text": "Lean 4 theorems over an executable model of uv__process_child_init's descriptor shuffling on a kernel fd table "
         "with lowest-free-fd semantics (for every table whose fds are all close-on-exec, every stdio layout, every "
         "stdio_count and error-pipe number: after exec the child's table is exactly the requested one and the error pipe "
         "stays reportable), of the wait-status decode and of uv__wait_children over arbitrary histories (exit_cb exactly "
         "once, only after the reap, decoded status, coalesced exits, none for a failed spawn). The model is tied to the "
         "working tree by running process.c itself on a fake fd table / scripted waitpid and diffing every line with the "
         "model, and by real fork/exec runs whose helper child reports its descriptor table, cwd, env and session.",
 "note": "Trusted: Lean kernel (propext, Classical.choice, Quot.sound); the fake fd table in the harness implements "
         "POSIX lowest-free allocation like the model (cross-checked by the real-kernel runs); clang/ASan. Assumed: every "
         "parent descriptor is close-on-exec at fork (C15), stdio sources are open, nobody else waits on libuv's children, "
         "fcntl/open do not fail with EMFILE in the child. Flag bits outside the accepted set are an assert() in uv_spawn (a caller "
         "contract, not an error return), so they are not exercised. Not modelled (monitors only): exec, setsid, cwd, env, uid/gid, "
         "kill delivery, SIGCHLD delivery itself (C13).",
 "design": "DESIGN.md §3 C12",
 "technique": "Lean 4 proof over executable model + correspondence (unit include with redirected syscalls; real fork/exec monitors)",
}


# ----------------------------------------------------------------------------- child_init unit
def ci_line(efd, srcs, table):
    return f"ci {efd} {len(srcs)} " + " ".join(map(str, srcs)) + (" " if srcs else "") + "T " + " ".join(table)


def ci_table(efd, srcs, extra=(), drop=(), inherit=()):
    fds = ({0, 1, 2, efd} | {s for s in srcs if s >= 0} | set(extra)) - set(drop)
    fds.add(efd)
    return [f"{fd}n" if fd in inherit and fd != efd else str(fd) for fd in sorted(fds)]


def ci_exhaustive(maxcnt, srcmax, efds):
    for cnt in range(0, maxcnt + 1):
        for srcs in itertools.product(range(-1, srcmax + 1), repeat=cnt):
            for efd in efds:
                yield efd, list(srcs), ci_table(efd, srcs)


def ci_random(rng, maxcnt):
    cnt = rng.below(maxcnt + 1)
    r = rng.below(10)
    if r < 3 and cnt:                      # a permutation of the slots (swaps, cycles)
        srcs = list(range(cnt))
        for i in range(cnt - 1, 0, -1):
            j = rng.below(i + 1); srcs[i], srcs[j] = srcs[j], srcs[i]
        for i in range(cnt):
            if rng.chance(1, 6): srcs[i] = -1
    elif r < 5:                            # heavy aliasing of few sources
        pool = [rng.below(cnt + 4) for _ in range(2)] + [-1]
        srcs = [rng.choice(pool) for _ in range(cnt)]
    else:
        srcs = [rng.range(-1, cnt + 6) for _ in range(cnt)]
    efd = rng.range(3, cnt + 8)
    extra = [rng.below(cnt + 12) for _ in range(rng.below(6))]
    drop, inherit = [], []
    if rng.chance(1, 12) and any(s >= 0 for s in srcs):
        drop = [rng.choice([s for s in srcs if s >= 0])]          # a source that is not open: failure path
    if rng.chance(1, 10):
        drop += [rng.below(3)]                                    # parent started with a std fd closed
    if rng.chance(1, 10):
        inherit = [rng.below(cnt + 12) for _ in range(2)]         # not close-on-exec: outside the theorem, inside the model
    return efd, srcs, ci_table(efd, srcs, extra, drop, inherit)


def parse_tab(line):
    d = {}
    for w in line.split()[1:]:
        fd, f, c = w.split(":")
        d[int(fd)] = (f, c)
    return d


def ci_monitor(efd, srcs, table, out):
    """the property text on the implementation's output (no model): error pipe reportable; the exec'd table is
    exactly the requested one"""
    init = {int(w.rstrip("n")): ("-" if w.endswith("n") else "c") for w in table}
    missing = [s for s in srcs if s >= 0 and s not in init]
    if not out or out[0].split()[0] not in ("ok", "fail"):
        return "crash", f"no result line: {out[:2]}"
    w = int(out[0].split()[1])
    pre = parse_tab(out[1])
    if pre.get(w, (None,))[0] != f"f{efd}":
        return "error-pipe-clobbered", (f"errno would be written to fd {w} which refers to {pre.get(w)} and not to the "
                                        f"error pipe f{efd} (stdio_count={len(srcs)}, error_fd={efd})")
    if missing:
        return None, None                      # EBADF source: only reportability is claimed
    if out[0].startswith("fail"):
        return "child-init-spurious-failure", f"all sources open but child_init bailed out: {out[:2]}"
    if pre[w][1] != "c":
        return "error-pipe-not-cloexec", f"error pipe fd {w} is inheritable: exec success would never be seen"
    post = parse_tab(out[2])
    exp = {}
    for i, s in enumerate(srcs):
        if s >= 0: exp[i] = (f"f{s}", "-")
        elif i < 3: exp[i] = ("nullr" if i == 0 else "nullw", "-")
        elif init.get(i) == "-": exp[i] = (f"f{i}", "-")
    for fd, c in init.items():
        if c == "-" and fd >= len(srcs): exp[fd] = (f"f{fd}", "-")
    if post != exp:
        bad = sorted(set(post.items()) ^ set(exp.items()))[:4]
        return "child-stdio-mapping", f"child's table after exec {post} != requested {exp} (diff {bad})"
    return None, None


def run_ci(ctx, exe, cases, label, diff=True):
    text = "".join(ci_line(*c) + "\n" for c in cases)
    rc, iout, ierr = ctx.run(exe, ["childinit"], text=text)
    il = iout.splitlines()
    ml = ctx.driver(["childinit"], text).splitlines() if diff else None
    pi = pm = 0
    for (efd, srcs, table) in cases:
        ctx.count()
        n = 3 if pi < len(il) and il[pi].startswith("ok") else 2
        ci = il[pi:pi + n]; pi += n
        if len(ci) < 2:
            ctx.violation("child-init-crash", f"C12 child_init harness died ({label}) rc={rc}: {ierr[-600:]}",
                          {"mode": "ci", "case": [efd, srcs, table]})
            return False
        sig, what = ci_monitor(efd, srcs, table, ci)
        if sig:
            if ctx.violation("child-init-" + sig if not sig.startswith("child") else sig,
                             f"C12 uv__process_child_init ({label}): {what}; input `{ci_line(efd, srcs, table)}`",
                             {"mode": "ci", "case": [efd, srcs, table]}):
                return False
        if diff:
            m = 3 if pm < len(ml) and ml[pm].startswith("ok") else 2
            cm = ml[pm:pm + m]; pm += m
            if ci != cm:
                ctx.broken_correspondence("ProcFd.childInit vs uv__process_child_init",
                                          f"`{ci_line(efd, srcs, table)}`: impl {ci} model {cm}")
                return False
            ctx.validated()
        # non-trivial: at least one source below its slot (first pass used) or an overlap among slots
        low = any(0 <= s < i for i, s in enumerate(srcs))
        inrange = any(0 <= s < len(srcs) and s != i for i, s in enumerate(srcs))
        if low and inrange:
            ctx.nontrivial("ci" + hashlib.sha1(("|".join(ci)).encode()).hexdigest()[:12])
    if rc != 0:
        ctx.violation("child-init-sanitizer", f"child_init harness exited {rc}: {ierr[-800:]}", {"mode": "ci", "case": list(cases[-1])})
        return False
    return True


# ----------------------------------------------------------------------------- wait unit
def gen_wait_case(rng, nsteps):
    """spawns (some failing), rounds with scripted waitpid results, closes"""
    lines = ["reset"]
    tracked, n = [], 0
    for _ in range(nsteps):
        r = rng.below(10)
        if r < 3 or not tracked:
            k = rng.below(10)
            if k < 2:
                lines.append(f"spawnfail {rng.choice([2, 13, 8, 20])}")
            elif k < 4:
                lines.append(f"forkfail {rng.choice([11, 12])}")          # EAGAIN / ENOMEM at fork
            elif k < 7:
                # a stdio table, often above the 8-slot inline array, on a dirty heap
                lines.append(f"fill {rng.choice([0, 0x5A, 0xFF, 1, 0x80])}")
                cnt = rng.choice([0, 1, 3, 8, 9, 10, 12, 16, 33])
                sl = [rng.choice(["i", "i", "p", f"f{rng.below(12)}"]) for _ in range(cnt)]
                lines.append("spawnl" + "".join(" " + x for x in sl)); tracked.append(n)
            else:
                lines.append("spawn"); tracked.append(n)
            n += 1
        elif r < 4:
            v = rng.choice(tracked); tracked.remove(v); lines.append(f"close {v}")
        else:
            res, keep = [], []
            mode = rng.below(4)   # 0: nobody, 1: exactly one, 2: several, 3: all at once
            one = rng.choice(tracked)
            for c in tracked:
                hit = (mode == 1 and c == one) or (mode == 2 and rng.chance(1, 3)) or mode == 3
                if hit:
                    st = rng.choice([rng.below(256) << 8, rng.range(1, 31), rng.range(1, 31) | 0x80, 9, 15, 0, 0xff00, 127 << 8])
                    res.append(str(st))
                elif rng.chance(1, 25):
                    res.append("E"); keep.append(c)
                else:
                    res.append("-"); keep.append(c)
            tracked = keep
            lines.append("round " + " ".join(res))
    return lines


def wait_monitor(lines, out):
    """exit_cb exactly once per reaped child, in-round, decoded as the kernel encodes; failed spawn: error returned,
    reaped synchronously, never tracked, never a callback; no double wait"""
    it = iter(out)
    tracked, n, cbs, failed = [], 0, {}, set()
    for cmd in lines:
        w = cmd.split()
        if w[0] == "fill":
            continue
        blk = []
        for o in it:
            blk.append(o)
            if o.startswith("tracked") or o == "bad-op":
                break
        if any("DOUBLE-WAIT" in o for o in blk):
            return f"a child already reaped was waited for again at `{cmd}`"
        if any("NOT-REAPED" in o for o in blk):
            return f"exit_cb before the child was reaped at `{cmd}`"
        for o in blk:
            if "MASK-CHANGED" in o:
                return f"`{cmd}`: uv_spawn returned with a different signal mask of the calling thread: {o}"
            if "FD-LEAK" in o:
                return f"`{cmd}`: uv_spawn changed the number of open descriptors: {o}"
        if w[0] == "reset":
            tracked, n, cbs, failed = [], 0, {}, set()
        elif w[0] == "spawnl":
            sl = w[1:] + ["i"] * (3 - len(w[1:]))
            exp = "pipes " + " ".join("-1" if x == "i" else ("p" if x == "p" else x[1:]) for x in sl)
            if blk[0] != exp:
                return f"`{cmd}`: table handed to the child `{blk[0]}`, containers say `{exp}`"
            if blk[1] != "ret 0 active 1":
                return f"successful spawn: {blk[1]}"
            tracked.append(n); n += 1
        elif w[0] == "forkfail":
            if blk[0] != f"ret -{w[1]} active 0 reaped 0":
                return f"fork failure (errno {w[1]}) must return the error and leave the handle inactive: {blk[0]}"
            failed.add(n); n += 1
        elif w[0] == "spawn":
            if blk[0] != "ret 0 active 1":
                return f"successful spawn: {blk[0]}"
            tracked.append(n); n += 1
        elif w[0] == "spawnfail":
            if blk[0] != f"ret -{w[1]} active 0 reaped 1":
                return f"failed spawn (errno {w[1]}) must return the error, reap the child, stay inactive: {blk[0]}"
            failed.add(n); n += 1
        elif w[0] == "close":
            tracked.remove(int(w[1]))
        elif w[0] == "round":
            exp = []
            for c, r in zip(list(tracked), w[1:]):
                if r not in "-E":
                    st = int(r)
                    if st & 0x7f == 0: exp.append((c, (st >> 8) & 0xff, 0))
                    elif 1 <= (st & 0x7f) < 0x7f: exp.append((c, 0, st & 0x7f))
                    else: exp.append((c, 0, 0))
                    tracked.remove(c)
            got = [tuple(map(int, o.split()[1:4])) for o in blk if o.startswith("cb ")]
            if sorted(got) != sorted(exp):
                return f"`{cmd}`: exit callbacks {got}, children reported by waitpid {exp}"
            for g in got:
                cbs[g[0]] = cbs.get(g[0], 0) + 1
                if cbs[g[0]] > 1: return f"exit_cb twice for child {g[0]}"
                if g[0] in failed: return f"exit_cb for failed spawn {g[0]}"
        if blk and blk[-1].startswith("tracked") and [int(x) for x in blk[-1].split()[1:]] != tracked:
            return f"`{cmd}`: process_handles {blk[-1]} but expected {tracked}"
    return None


def run_wait(ctx, exe, cases, diff=True):
    text = "".join("\n".join(c) + "\n" for c in cases)
    rc, iout, ierr = ctx.run(exe, ["wait"], text=text, env={"ASAN_OPTIONS": "detect_leaks=0:exitcode=99"})
    il = iout.splitlines()
    if rc != 0:
        ctx.violation("wait-children-crash", f"wait harness exited {rc}: {ierr[-800:]}", {"mode": "wait", "ops": cases[0]})
        return False
    # split impl output per case at the `tracked` line answering `reset`
    ml = ctx.driver(["wait"], text).splitlines() if diff else None
    def split(ls):
        res, cur = [], None
        k = 0
        for c in cases:
            # consume lines until the number of terminators (tracked/bad-op) equals len(c)
            need, blk = sum(1 for x in c if not x.startswith("fill")), []
            while need and k < len(ls):
                blk.append(ls[k])
                if ls[k].startswith("tracked") or ls[k] == "bad-op": need -= 1
                k += 1
            res.append(blk)
        return res
    ib = split(il); mb = split(ml) if diff else None
    for idx, c in enumerate(cases):
        ctx.count()
        bad = wait_monitor(c, ib[idx])
        if bad:
            if ctx.violation("wait-children-monitor", f"C12 uv__wait_children/uv_spawn: {bad}", {"mode": "wait", "ops": c}):
                return False
        if diff:
            if ib[idx] != mb[idx]:
                k = next((i for i in range(min(len(ib[idx]), len(mb[idx]))) if ib[idx][i] != mb[idx][i]), -1)
                ctx.broken_correspondence("ProcFd.waitChildren/spawnParent vs uv__wait_children/uv_spawn",
                                          f"line {k}: impl {ib[idx][k:k+2]} model {mb[idx][k:k+2]}; case {c}")
                return False
            ctx.validated()
        if any(sum(1 for x in l.split()[1:] if x not in "-E") >= 2 for l in c if l.startswith("round")):
            ctx.nontrivial("w" + hashlib.sha1("\n".join(ib[idx]).encode()).hexdigest()[:12])
    return True


def run_decode(ctx, exe):
    text = "".join(f"dec {w}\n" for w in range(65536))
    rc, iout, _ = ctx.run(exe, ["wait"], text=text, env={"ASAN_OPTIONS": "detect_leaks=0"})
    mout = ctx.driver(["wait"], text)
    ctx.count(65536)
    if iout != mout:
        il, ml = iout.splitlines(), mout.splitlines()
        k = next((i for i in range(min(len(il), len(ml))) if il[i] != ml[i]), -1)
        ctx.broken_correspondence("ProcFd.decode vs WIFEXITED/WEXITSTATUS/WIFSIGNALED/WTERMSIG",
                                  f"status word {k}: macros `{il[k] if 0 <= k < len(il) else None}` model `{ml[k] if 0 <= k < len(ml) else None}`")
        return False
    ctx.validated(65536)
    ctx.notes["decode"] = "all 65536 status words: model decode == libc macros"
    return True


# ----------------------------------------------------------------------------- real fork/exec monitors
DEVNULL_RDEV = "1.3"


def gen_layout(rng, cnt, fail, placed):
    """slots: ignore / inherit (sources among the parent's fds 0..8 and placed high fds: overlaps, swaps, aliasing) / pipes"""
    srcpool = list(range(0, 9)) + placed
    slots = []
    mode = rng.below(4)
    perm = list(range(min(cnt, 9)))
    for i in range(len(perm) - 1, 0, -1):
        j = rng.below(i + 1); perm[i], perm[j] = perm[j], perm[i]
    for i in range(cnt):
        r = rng.below(10)
        if mode == 0 and i < len(perm):
            slots.append(f"f{perm[i]}")                     # permutation of the low descriptors
        elif r < 2: slots.append("i")
        elif r < 4: slots.append(rng.choice(["pr", "pw", "prw"]))
        else: slots.append(f"f{rng.choice(srcpool)}")
    return slots


def layout_cmd(slots, fail=False, det=0, cwd="-", env="-", uid=-1, forkfail=False):
    return f"layout {'forkfail' if forkfail else ('fail' if fail else 'ok')} {det} {cwd} {env} {uid} {len(slots)} " + " ".join(slots)


def layout_monitor(cmd, blk):
    w = cmd.split()
    fail, det, cwd, env, uid, cnt = w[1] == "fail", int(w[2]), w[3], w[4], int(w[5]), int(w[6])
    slots = w[7:]
    P = {int(l.split()[2]): l.split()[3:] for l in blk if l.startswith("P fd")}
    R = {int(l.split()[2]): l.split()[3:] for l in blk if l.startswith("R fd")}
    other = {l.split()[1]: l.split()[2:] for l in blk if l.startswith("R ") and not l.startswith("R fd")}
    sp = next((l for l in blk if l.startswith("spawn ")), None)
    cbs = [l for l in blk if l.startswith("cb ")]
    zl = next((l for l in blk if l.startswith("zombie")), "")
    if sp is None or "end" not in blk:
        return "spawn-crash", f"harness died: {blk[-3:]}"
    if "timeout" in blk:
        return "spawn-exit-cb-missing", "child spawned but exit_cb never ran within 10 s"
    fdl = next((l.split()[1:] for l in blk if l.startswith("fds ")), None)
    if w[1] == "forkfail":
        if sp != "spawn EAGAIN active=0":
            return "spawn-fork-failure-not-reported", f"fork() failing with EAGAIN: `{sp}` (expected EAGAIN, handle inactive)"
        fail = True
    elif fail:
        if sp != "spawn ENOENT active=0":
            return "spawn-exec-failure-not-reported", f"exec of a non-existent program with stdio_count={cnt}: `{sp}` (expected ENOENT, handle inactive)"
    if fail:
        if fdl is None or fdl[0] != fdl[1]:
            return "spawn-failure-descriptor-leak", f"failed spawn ({w[1]}) left the parent with {fdl} open descriptors (before, after); slots {slots}"
        if cbs:
            return "spawn-exit-cb-after-failed-spawn", f"exit_cb ran for a failed spawn: {cbs}"
        if zl != "zombie ECHILD":
            return "spawn-failed-child-not-reaped", f"after a failed spawn: {zl}"
        return None, None
    if sp != "spawn 0 active=1":
        return "spawn-failed", f"`{sp}`"
    if cbs != ["cb 0 5 0 wp=ECHILD active=0"]:
        return "spawn-exit-cb", f"child exits with code 5: callbacks {cbs} (expected exactly one, status 5, signal 0, child already reaped)"
    if zl != "zombie ECHILD":
        return "spawn-zombie", zl
    if uid >= 0:
        return None, None          # /bin/sh compared id -u/-g/-G with the request and answered through the exit code
    exp = {}
    for i in range(max(cnt, 3)):
        s = slots[i] if i < cnt else "i"
        if s == "i":
            if i < 3: exp[i] = ("chr", DEVNULL_RDEV, "r" if i == 0 else "rw")
        elif s[0] == "f":
            src = P.get(int(s[1:]))
            if src is None: return "generator", f"source fd {s} not open in parent"
            exp[i] = (src[0], src[1], src[3])
        else:
            exp[i] = ("sock", None, "rw")
    got = {}
    for fd, v in R.items():
        k, ident, cx, acc = v
        if cx != "-": return "generator", "cloexec fd survived exec?"
        got[fd] = (k, ident.split(":")[2] if k == "chr" and exp.get(fd, ("",))[0] == "chr" and exp[fd][1] == DEVNULL_RDEV else ident, acc)
    for fd in sorted(set(exp) | set(got)):
        e, g = exp.get(fd), got.get(fd)
        if e is None:
            return "spawn-descriptor-leak", f"child has fd {fd} = {g} open, not described by the stdio containers (stdio_count={cnt}, slots {slots})"
        if g is None:
            return "spawn-stdio-mapping", f"child's fd {fd} is closed, expected {e} (slots {slots})"
        if e[0] == "sock":
            if g[0] != "sock": return "spawn-stdio-mapping", f"slot {fd} should be a pipe end, is {g}"
        elif (g[0], g[1], g[2]) != e:
            return "spawn-stdio-mapping", f"child's fd {fd} is {g}, expected {e} (slots {slots}; parent table {P})"
    socks = [g[1] for fd, g in got.items() if exp[fd][0] == "sock"]
    if len(set(socks)) != len(socks):
        return "spawn-stdio-mapping", "two CREATE_PIPE slots share one socket"
    if cwd != "-" and other.get("cwd") != [cwd]: return "spawn-cwd", f"cwd {other.get('cwd')} != {cwd}"
    if env != "-" and (other.get("env") != [env] or other.get("nenv") != ["0"]): return "spawn-env", f"env {other.get('env')} {other.get('nenv')}"
    if env == "-" and other.get("nenv") != ["1"]: return "spawn-env", "environment not inherited"
    if other.get("sid") != [str(det)]: return "spawn-detached", f"session leader={other.get('sid')} detached={det}"
    if uid >= 0 and other.get("uid") != [str(uid), str(uid)]: return "spawn-uid", f"uid/gid {other.get('uid')} != {uid}"
    return None, None


def hx(b):
    if isinstance(b, str): b = b.encode()
    return "x" + b.hex()


F_SETUID, F_SETGID, F_VERBATIM, F_DETACHED, F_HIDE, F_HIDE_CONSOLE, F_HIDE_GUI, F_EXACT_NAME = (1 << k for k in range(8))
F_IGNORED_ON_UNIX = [F_VERBATIM, F_HIDE, F_HIDE_CONSOLE, F_HIDE_GUI, F_EXACT_NAME]


def ids_monitor(cmd, blk):
    """credentials (Uid/Gid: real, effective, saved, fs; supplementary groups), session / process group and cwd seen from
    inside the child, for any combination of the accepted flag bits"""
    _, fl, uid, gid, cwd = cmd.split()
    fl = int(fl)
    su, sg, det = bool(fl & F_SETUID), bool(fl & F_SETGID), bool(fl & F_DETACHED)
    P = {l.split()[1]: l.split()[2:] for l in blk if l.startswith("P ")}
    I = {l.split()[1]: l.split()[2:] for l in blk if l.startswith("I ")}
    if "end" not in blk: return "spawn-crash", f"harness died: {blk[-3:]}"
    sp = next((l for l in blk if l.startswith("spawn ")), "")
    if not sp.startswith("spawn 0 active=1"): return "spawn-uid-gid", f"spawn with flags {fl:#x} uid={uid} gid={gid} as root: `{sp}`"
    if [l for l in blk if l.startswith("cb ")] != ["cb 0 0 0 wp=ECHILD active=0"]:
        return "spawn-uid-gid", f"child did not run to completion: {blk}"
    exp = {"Uid:": [uid] * 4 if su else P.get("Uid:"), "Gid:": [gid] * 4 if sg else P.get("Gid:"),
           "Groups:": [] if (su or sg) else P.get("Groups:")}
    for k, v in exp.items():
        if I.get(k) != v:
            return "spawn-uid-gid", (f"child's {k} {I.get(k)} expected {v} (flags {fl:#x}: SETUID={su} uid={uid}, SETGID={sg} "
                                     f"gid={gid}; parent {P})")
    ecwd = [cwd] if cwd != "-" else P.get("cwd")
    if I.get("Cwd:") != ecwd: return "spawn-cwd", f"child's cwd {I.get('Cwd:')} expected {ecwd} (flags {fl:#x})"
    st = " ".join(I.get("Stat:", []))
    after = st[st.rfind(")") + 1:].split()          # state ppid pgrp session ...
    pid = sp.split("pid=")[1]
    if len(after) < 4: return "spawn-crash", f"no /proc/self/stat from the child: {st}"
    pgrp, sess = after[2], after[3]
    if det and (pgrp != pid or sess != pid):
        return "spawn-detached", f"UV_PROCESS_DETACHED among flags {fl:#x}: child {pid} is in session {sess}, group {pgrp} (parent's: {P.get('proc')})"
    if not det and [sess, pgrp] != P.get("proc")[1:]:
        return "spawn-detached", f"flags {fl:#x} without DETACHED: child session/group {sess}/{pgrp}, parent's {P.get('proc')[1:]}"
    return None, None


def opts_cmd(det, cwd, env, filemode, xargs):
    """det: 0/1 or a full flags bitmask (bits 2..7)"""
    if det == 1: det = F_DETACHED
    e = "inherit" if env is None else ("none" if not env else ",".join(hx(x) for x in env))
    return f"opts {det} {cwd} {e} {filemode}" + "".join(" " + hx(a) for a in xargs)


def opts_monitor(cmd, blk):
    """cwd / exact environ / session+group / argv / program lookup, all observed by the helper child itself"""
    w = cmd.split()
    det, cwd, envs, fm, xargs = int(w[1]) & F_DETACHED, w[2], w[3], w[4], w[5:]
    if "end" not in blk: return "spawn-crash", f"harness died: {blk[-3:]}"
    def val(pfx, key): return next((l.split(None, 2)[2] for l in blk if l.startswith(f"{pfx} {key} ")), None)
    pdir, pexe = val("P", "dir"), val("P", "exe")
    penv = [l.split()[2] for l in blk if l.startswith("P environ ")]
    if envs == "inherit": eenv = penv
    elif envs == "none": eenv = []
    else:
        eenv = []
        for t in envs.split(","):
            b = bytes.fromhex(t[1:])
            if b.startswith(b"PATH=@"): b = b"PATH=" + pdir.encode() + b[6:]
            eenv.append("x" + b.hex())
    def path_of(envl):
        for t in envl:
            b = bytes.fromhex(t[1:])
            if b.startswith(b"PATH="): return b[5:].decode(errors="replace").split(":")
        return None
    sp = next((l for l in blk if l.startswith("spawn ")), "")
    found = True
    if fm == "bare":
        pl = path_of(eenv)
        found = pl is not None and pdir in pl
    if not found:
        if not sp.startswith("spawn ENOENT active=0"):
            return "spawn-file-search", f"bare program name with a search path {path_of(eenv)} that does not contain it: `{sp}` (expected ENOENT)"
        if any(l.startswith("cb ") for l in blk): return "spawn-exit-cb-after-failed-spawn", str(blk[-4:])
        return None, None
    if not sp.startswith("spawn 0 active=1"):
        return "spawn-file-search" if fm == "bare" else "spawn-failed", f"`{sp}` for `{cmd}` (file mode {fm}, search path {path_of(eenv)})"
    if [l for l in blk if l.startswith("cb ")] != ["cb 0 5 0 wp=ECHILD active=0"]:
        return "spawn-exit-cb", f"callbacks {[l for l in blk if l.startswith('cb ')]}"
    if val("R", "exe") != pexe: return "spawn-file-search", f"child runs {val('R', 'exe')} instead of {pexe}"
    ecwd = cwd if cwd != "-" else val("P", "cwd")
    if val("R", "cwd") != ecwd: return "spawn-cwd", f"child's cwd {val('R', 'cwd')} expected {ecwd}"
    renv = [l.split()[2] for l in blk if l.startswith("R environ ")]
    if renv != eenv:
        d = [bytes.fromhex(x[1:]) for x in (set(renv) ^ set(eenv))][:4]
        return "spawn-env", f"child's environ differs from the requested one ({'inherited' if envs == 'inherit' else 'options.env'}): {len(renv)} vs {len(eenv)} entries, diff {d}"
    pid = sp.split("pid=")[1]
    rp, pp = val("R", "proc").split(), val("P", "proc").split()
    if rp[0] != pid: return "spawn-pid", f"uv_process_get_pid {pid} but the child is {rp[0]}"
    if det and (rp[1] != pid or rp[2] != pid): return "spawn-detached", f"UV_PROCESS_DETACHED: child pid {pid} has sid {rp[1]} pgid {rp[2]}"
    if not det and (rp[1] != pp[1] or rp[2] != pp[2]): return "spawn-detached", f"not detached: child sid/pgid {rp[1:]} parent's {pp[1:]}"
    eargv = {0: {"abs": pexe, "argv0": "custom argv0", "bare": os.path.basename(pexe)}[fm].encode().hex()}
    for i, a in enumerate(xargs): eargv[5 + i] = a[1:]
    rargv = {int(l.split()[2]): l.split()[3][1:] for l in blk if l.startswith("R argv ")}
    if rargv != eargv:
        return "spawn-argv", f"child's argv {({k: bytes.fromhex(v) for k, v in rargv.items()})} expected {({k: bytes.fromhex(v) for k, v in eargv.items()})}"
    return None, None


ENVPOOL = ["C12VAR=hello", "A=", "B=x=y", "WITH SPACE=a b  c", "UTF=é€", "LANG=C", "HOME=/nonexistent", "E1=1", "E1=2", "Z=" + "z" * 200]
ARGPOOL = ["", "a b", "--x=y", "-", "*", "$HOME", "\\", "'q\"", "é", "y" * 300, "\t", "last"]


def gen_flags(rng, allowed):
    """random combination of the given accepted bits"""
    f = 0
    for b in allowed:
        if rng.chance(1, 3): f |= b
    return f


def gen_opts(rng):
    det = gen_flags(rng, [F_DETACHED, F_DETACHED] + F_IGNORED_ON_UNIX)
    cwd = rng.choice(["-", "-", "/", "/proc", "/usr/bin", "/var/tmp"])
    fm = rng.choice(["abs", "argv0", "bare", "bare"])
    k = rng.below(4)
    if k == 0: env = None
    elif k == 1: env = []
    else:
        env = [rng.choice(ENVPOOL) for _ in range(rng.range(1, 5))]
        if rng.chance(1, 2): env.insert(rng.below(len(env) + 1), rng.choice(["PATH=@", "PATH=/bin:@", "PATH=/bin:/usr/bin", "PATH=@:/bin"]))
    xargs = [rng.choice(ARGPOOL) for _ in range(rng.below(5))]
    return opts_cmd(det, cwd, env, fm, xargs)


def gen_ids(rng):
    uid, gid = rng.range(1000, 60000), rng.range(1000, 60000)
    while gid == uid: gid = rng.range(1000, 60000)
    fl = gen_flags(rng, [F_SETUID, F_SETUID, F_SETGID, F_SETGID, F_DETACHED, F_DETACHED] + F_IGNORED_ON_UNIX)
    return f"ids {fl} {uid} {gid} {rng.choice(['-', '-', '/', '/proc', '/usr'])}"


SIGS = [1, 2, 3, 6, 9, 10, 12, 13, 14, 15]


def gen_many(rng, n):
    pat = rng.below(4)   # 0 all before the loop runs, 1 simultaneous after a delay, 2 staggered, 3 mixed
    specs = []
    for i in range(n):
        what = f"e{rng.below(256)}" if rng.chance(3, 5) else f"s{rng.choice(SIGS)}"
        d = [0, 150, 20 * i, rng.choice([0, 0, 60, 200])][pat]
        specs.append(what + (f":{d}" if d else ""))
    pre = [300, 0, 0, rng.choice([0, 100])][pat]
    return f"many {pre} " + " ".join(specs)


def many_monitor(cmd, blk):
    specs = cmd.split()[4:] if cmd.startswith("chld") else cmd.split()[2:]
    if "end" not in blk: return "spawn-crash", f"harness died: {blk[-3:]}"
    if any(l.startswith("spawn-error") for l in blk): return "spawn-failed", str(blk[:3])
    seen = {}
    for l in blk:
        if l.startswith("cb "):
            w = l.split(); i = int(w[1])
            if i in seen: return "exit-cb-twice", f"child {i}: second callback `{l}`"
            seen[i] = (int(w[2]), int(w[3]), w[4], w[5])
    for i, s in enumerate(specs):
        e = (int(s[1:].split(":")[0]), 0) if s[0] == "e" else (0, int(s[1:].split(":")[0]))
        if i not in seen:
            return "exit-cb-missing", f"child {i} ({s}) of {len(specs)} never got its exit_cb ({len(seen)} reported); `{cmd}`"
        if seen[i][:2] != e: return "exit-cb-status", f"child {i} ({s}): exit_cb({seen[i][0]}, {seen[i][1]})"
        if seen[i][2] != "wp=ECHILD": return "exit-cb-not-reaped", f"child {i}: waitpid after exit_cb says {seen[i][2]}"
    z = next((l for l in blk if l.startswith("zombie")), "")
    if z != "zombie ECHILD": return "spawn-zombie", z
    return None, None


def kill_monitor(cmd, blk):
    sig = int(cmd.split()[2])
    exp = ["probe 0", "kill 0", f"cb 0 0 {sig} wp=ECHILD active=0", "after ESRCH", "zombie ECHILD", "end"]
    if blk != exp: return "kill-delivery", f"`{cmd}`: {blk} expected {exp}"
    return None, None


KSIG_VALID = list(range(0, 65))                                                   # 0 (probe), 1..31, SIGRTMIN-2 .. SIGRTMAX
KSIG_INVALID = [-1, -2, -15, -64, 65, 66, 127, 128, 255, 256, 4096, 65536, 2 ** 31 - 1, -2 ** 31]   # 65 = NSIG/_NSIG on Linux
KSIG_FATAL_BY_POSIX = [1, 2, 3, 6, 9, 13, 14, 15, 10, 12]                         # sanity of the reference child only


def ksig_monitor(cmd, blk):
    """uv_process_kill / uv_kill(pid) / uv_kill(-pid) with any number: the return value is kill(2)'s own answer for that
    number, and the child meets the fate a child signalled by kill(2) itself met (exit_cb names that very signal /
    stopped / still running); exactly one exit_cb, child reaped."""
    _, how, sig = cmd.split(); sig = int(sig)
    if "end" not in blk: return "spawn-crash", f"harness died: {blk[-3:]}"
    if not blk or not blk[0].startswith("ref ") or any(l.startswith("spawn-error") for l in blk):
        return "generator", f"`{cmd}`: no reference / spawn of /bin/sleep failed: {blk[:3]}"
    ref = blk[0].split()
    rrc, rfate = ref[1], ref[2:]
    if (0 <= sig <= 64) != (rrc == "0") or (sig in KSIG_FATAL_BY_POSIX and rfate != ["term", "0", str(sig)]):
        return "generator", f"`{cmd}`: this kernel's own answer is unexpected, not judging: {blk[0]}"
    exp = [blk[0], "probe 0", f"kill {rrc}"]
    if rrc == "0" and rfate[0] == "term":
        exp += [f"cb 0 {rfate[1]} {rfate[2]} wp=ECHILD active=0", "settled dead"]
    else:
        exp += [f"settled alive {rfate[1] if rrc == '0' else 'run'}", "cleanup", "cb 0 0 9 wp=ECHILD active=0"]
    exp += ["after ESRCH"]
    if rrc != "0":                       # on a pid that is gone the kernel may look for the process first (ESRCH): any answer, the same one
        dl = next((l.split() for l in blk if l.startswith("dead ")), ["dead", "?", "??"])
        exp += [f"dead {dl[2]} {dl[2]}"]
    exp += ["zombie ECHILD", "end"]
    if blk != exp:
        k = next((i for i in range(min(len(blk), len(exp))) if blk[i] != exp[i]), min(len(blk), len(exp)))
        fn = {"process": "uv_process_kill(handle, %d)", "pid": "uv_kill(pid, %d)", "grp": "uv_kill(-pid, %d) on a detached child"}[how] % sig
        return "kill-delivery", (f"{fn}: kill(2) itself answers {rrc} and a child signalled that way "
                                 f"{'is terminated (status %s, signal %s)' % (rfate[1], rfate[2]) if rfate[0] == 'term' else 'stays alive (' + rfate[1] + ')'}; "
                                 f"through libuv: `{blk[k] if k < len(blk) else None}` where `{exp[k] if k < len(exp) else None}` was expected "
                                 f"(trace {blk[1:]})")
    return None, None


def kpid_monitor(cmd, blk):
    w = blk[0].split() if blk else []
    if len(w) != 3 or w[0] != "kpid" or blk[-1] != "end": return "spawn-crash", f"harness died: {blk[-3:]}"
    if w[1] != w[2]: return "kill-delivery", f"`{cmd}`: uv_kill returned {w[1]}, kill(2) answers {w[2]}"
    return None, None


def ksig_cases(ctx, rng):
    """every number kill(2) accepts and a set it refuses, through each of the three ways to name the victim"""
    cmds = []
    for sg in KSIG_VALID + KSIG_INVALID + [rng.range(66, 100000), -rng.range(2, 100000)]:
        for how in ("process", "pid", "grp"):          # every number through every way, in both tiers (~15 ms per call)
            cmds.append(f"ksig {how} {sg}")
    for sg in [0] + KSIG_INVALID:
        cmds += [f"kpid self {sg}", f"kpid none {sg}"]
    return cmds


def run_spawn(ctx, exe, cmds):
    """one harness process for the whole list; returns False after a violation"""
    td = ctx.tmp / "c12spawn"; td.mkdir(exist_ok=True)
    text = "".join(c + "\n" for c in cmds)
    rc, out, err = ctx.run(exe, [str(td)], text=text, timeout=900, env={"ASAN_OPTIONS": "detect_leaks=0:exitcode=99"})
    lines = out.splitlines()
    k = 0
    for c in cmds:
        w = c.split()[0]
        if w in ("place", "unplace", "fill"):
            if k >= len(lines) or lines[k] not in ("placed", "unplaced", "filled"):
                ctx.broken_correspondence("c12_spawn harness", f"`{c}` -> {lines[k:k+1]}"); return False
            k += 1; continue
        blk = []
        while k < len(lines):
            blk.append(lines[k]); k += 1
            if blk[-1] == "end": break
        ctx.count()
        mc = next((l for l in blk if l.startswith("MASK-CHANGED")), None)
        if mc:
            if ctx.violation("spawn-sigmask-changed", f"C12 uv_spawn (real fork/exec): the calling thread's signal mask differs after uv_spawn: {mc}; `{c}`",
                             {"mode": "spawn", "cmds": [c]}):
                return False
            continue
        sig, what = {"layout": layout_monitor, "many": many_monitor, "chld": many_monitor, "ids": ids_monitor, "opts": opts_monitor, "kill": kill_monitor, "ksig": ksig_monitor, "kpid": kpid_monitor,
                     "echo": lambda c, b: (None, None) if b == ["cb 0 7 0 wp=ECHILD active=0", "echo ok", "zombie ECHILD", "end"]
                     else ("spawn-pipe-direction", f"echo through stdin/stdout pipes: {b}")}[w](c, blk)
        if sig == "generator":
            ctx.log("generator problem:", what); continue
        if sig:
            if sig in ("spawn-crash",): what += f" rc={rc} stderr={err[-400:]}"
            if ctx.violation(sig, f"C12 uv_spawn (real fork/exec): {what}; `{c}`", {"mode": "spawn", "cmds": [x for x in cmds[:cmds.index(c)] if x.split()[0] in ('place', 'fill')] + [c]}):
                return False
        else:
            if w == "layout":
                sl = c.split()[7:]
                srcs = [int(x[1:]) for x in sl if x[0] == "f"]
                if any(0 <= s2 < i for i, s2 in ((i, int(x[1:])) for i, x in enumerate(sl) if x[0] == "f")) and any(s2 < len(sl) for s2 in srcs):
                    ctx.nontrivial("L" + hashlib.sha1(c.encode()).hexdigest()[:12])
            elif w in ("many", "chld") and len(c.split()) > 4:
                ctx.nontrivial("M" + hashlib.sha1(c.encode()).hexdigest()[:12])
            elif w == "ksig" and blk[0].split()[1] == "0" and int(c.split()[2]) != 0:
                ctx.nontrivial("K" + c.split()[1] + c.split()[2] + blk[0].split()[2])      # a number the kernel really delivered
    return True


def spawn_cases(ctx, rng):
    placed = [40, 41, 57]
    cmds = ["place 40 3", "place 41 4", "place 57 8"]
    # fixed corpus: the layouts the property text names
    fixed = [["f0", "f2", "f1"],                                  # stdout/stderr swap
             ["f0", "f5", "f2", "i", "i", "f1"],                  # 5 -> 1 and 1 -> 5
             ["i", "i", "i"], [], ["f2"], ["i", "f1"],
             ["pr", "pw", "prw"], ["f1", "f1", "f1", "f1"],
             ["f3", "f4", "f5", "f0", "f1", "f2"],                # rotation across the 0-2 boundary
             ["f8", "f7", "f6", "f5", "f4", "f3", "f2", "f1", "f0"],   # full reversal, above the 8-slot inline array
             ["f40", "f41", "f57", "f40"]]
    for sl in fixed:
        cmds.append(layout_cmd(sl)); cmds.append(layout_cmd(sl, fail=True))
    for cnt in [9, 12, 20, 40]:                                   # 20/40: above the error pipe's own number
        sl = gen_layout(rng, cnt, False, placed)
        cmds.append(layout_cmd(sl)); cmds.append(layout_cmd(sl, fail=True))
    for _ in range(ctx.scale(10, 150)):
        cnt = rng.choice([0, 1, 2, 3, 4, 5, 6, 8, 9, 10, 16, 24, 40])
        sl = gen_layout(rng, cnt, False, placed)
        cmds.append(layout_cmd(sl))
        if rng.chance(1, 2): cmds.append(layout_cmd(sl, fail=True))
        if rng.chance(1, 6): cmds.append(layout_cmd(sl, forkfail=True)); cmds.append("many 0 e3")
    # failures at fork (EAGAIN): error returned, nothing left behind, and later children are still noticed
    for sl in [[], ["f0", "f2", "f1"], ["pr", "pw", "prw", "i", "f5"], gen_layout(rng, 12, False, placed)]:
        cmds.append(layout_cmd(sl, forkfail=True)); cmds.append(layout_cmd(sl))
    cmds.append(layout_cmd(["i", "i", "i"], forkfail=True)); cmds.append("many 0 e7 s15 e0")
    # dirty heap x stdio_count above the 8-slot inline array: ignore / inherit / pipe at indices >= 8 in all combinations
    kinds = ["i", "f4", "pw"]
    for fb in (0x00, 0x5A):
        cmds.append(f"fill {fb}")
        for a in kinds:
            for b in kinds:
                cmds.append(layout_cmd(["f0", "f1", "f2", "i", "i", "f3", "i", "pr", a, b]))
        for cnt in (9, 13, 40):
            sl = gen_layout(rng, cnt, False, placed)
            cmds.append(layout_cmd(sl)); cmds.append(layout_cmd(sl, fail=True))
        cmds.append(layout_cmd(["i"] * rng.choice([9, 17, 33])))
    cmds.append(f"fill {rng.choice([0xFF, 0x01, 0x80])}")
    # options
    cmds.append(layout_cmd(["f0", "f1", "f2"], det=1, cwd="/proc", env="hello"))
    cmds.append(layout_cmd(["i", "f1", "f2"], det=0, cwd="/", env="x=y"))
    if os.geteuid() == 0:
        cmds.append(layout_cmd(["i", "f1", "f2"], uid=65534))
        # uid != gid numerically; SETUID alone, SETGID alone, both, neither: credentials read inside the child
        # SETUID / SETGID / DETACHED in all 8 combinations, each also with one Windows-only bit and with all of them
        allw = sum(F_IGNORED_ON_UNIX)
        for base in range(8):
            fl = (F_SETUID if base & 1 else 0) | (F_SETGID if base & 2 else 0) | (F_DETACHED if base & 4 else 0)
            extra = [0, rng.choice(F_IGNORED_ON_UNIX), allw] if not ctx.quick else [rng.choice([0, rng.choice(F_IGNORED_ON_UNIX), allw])]
            for x in extra:
                cmds.append(f"ids {fl | x} {1234 + base} {4321 + base} {rng.choice(['-', '/proc'])}")
        cmds += [gen_ids(rng) for _ in range(ctx.scale(3, 60))]
    else:
        ctx.notes["uid_gid"] = "not running as root: the UV_PROCESS_SETUID/SETGID class was skipped"
    # cwd / exact environ / detached / argv / program lookup through PATH (inherited or options.env) vs absolute file
    cmds += [opts_cmd(0, "-", None, "abs", []), opts_cmd(1, "/proc", ["C12VAR=hello", "B=x=y"], "argv0", ["", "a b", "last"]),
             opts_cmd(0, "/", [], "abs", ["x"]), opts_cmd(0, "-", None, "bare", ["via inherited PATH"]),
             opts_cmd(1, "/var/tmp", ["A=1", "PATH=/bin:@"], "bare", []), opts_cmd(0, "-", ["A=1"], "bare", []),
             opts_cmd(0, "-", ["PATH=/bin:/usr/bin"], "bare", []), opts_cmd(0, "-", [], "bare", [])]
    # every accepted flag bit that Unix must ignore, alone and together, crossed with DETACHED: sid/pgid, env, cwd, argv checked each time
    for b in F_IGNORED_ON_UNIX + [sum(F_IGNORED_ON_UNIX)]:
        for d in (0, F_DETACHED):
            cmds.append(opts_cmd(b | d, rng.choice(["-", "/proc", "/"]), rng.choice([None, ["C12VAR=v", "A="], []]), "abs", ["a b"]))
    cmds += [gen_opts(rng) for _ in range(ctx.scale(10, 150))]
    cmds.append("echo")
    for how in ("process", "pid"):
        for sg in (15, 9, rng.choice([1, 2, 10, 12])):
            cmds.append(f"kill {how} {sg}")
    cmds += ksig_cases(ctx, rng)
    for n in [1, 2, 12] + [rng.range(2, 16) for _ in range(ctx.scale(4, 60))]:
        cmds.append(gen_many(rng, n))
    # the application's own SIGCHLD watchers (one-shot / normal; started before the first spawn, stopped or started
    # from inside the first exit_cb) share the signum with libuv's child watcher: later exits must still be noticed
    pres, mids = ["-", "o", "n", "on", "no", "oO", "nN"], ["-", "O", "N", "o", "n", "ON"]
    combos = [(a, b) for a in pres for b in mids]
    pick = combos if not ctx.quick else [(a, "-") for a in pres] + [rng.choice(combos) for _ in range(8)]
    for a, b in pick:
        specs = [f"e{rng.range(1, 200)}:20", f"s{rng.choice(SIGS)}:{rng.choice([110, 140])}", f"e{rng.range(1, 200)}:{rng.choice([230, 260])}"]
        if rng.chance(1, 3): specs.append(f"e{rng.below(256)}:20")      # two exits in the first round
        cmds.append(f"chld {a} {b} 0 " + " ".join(specs))
    cmds.append("many 300 " + " ".join(f"e{i}" for i in range(12)))          # 12 exits before the loop runs once
    cmds.append("many 0 " + " ".join(f"s{SIGS[i % len(SIGS)]}:100" for i in range(12)))   # 12 simultaneous signals
    return cmds


def run(ctx):
    ctx.trusted += ["the in-memory descriptor table of harness/c12_childinit.c (lowest-free allocation as POSIX specifies; "
                    "cross-checked against the real kernel by harness/c12_spawn.c)", "clang/ASan/UBSan"]
    ctx.assumptions += ["every descriptor of the parent is close-on-exec at fork time (C15)",
                        "stdio sources are open descriptors; fcntl/open/dup2 in the child do not fail with EMFILE",
                        "no other code waits on libuv's children (else process.c:139-145 keeps the handle forever)"]
    ctx.trusted += ["tools/gen_lean.py (clang AST -> Lean for the loop-free kernels wait_decode (WIFEXITED/WEXITSTATUS/WIFSIGNALED/WTERMSIG in uv__wait_children)) and UvModel/CSem.lean"]
    ctx.gen_lean(need=["C12"])   # Tie A: wait-status decode regenerated from /repo, GenEq/C12 re-proves it = ProcFd.decode
    ctx.require_lean(["UvModel.GenEq.C12", "UvModel.Props.C12"])
    uexe = ctx.harness("c12_childinit", ["harness/c12_childinit.c"], link_lib=True)
    sexe = ctx.harness("c12_spawn", ["harness/c12_spawn.c"], link_lib=True)
    if ctx.replay:
        rp = json.loads(Path(ctx.replay).read_text())["replay"]
        if rp["mode"] == "ci" and uexe:
            run_ci(ctx, uexe, [tuple(rp["case"])], "replay")
        elif rp["mode"] == "wait" and uexe:
            run_wait(ctx, uexe, [rp["ops"]])
        elif rp["mode"] == "spawn" and sexe:
            run_spawn(ctx, sexe, rp["cmds"])
        return
    rng = ctx.rng
    parts = os.environ.get("C12_PARTS", "unit,spawn").split(",")   # self-test aid: run one detector family only
    if "unit" not in parts: uexe = None
    if "spawn" not in parts: sexe = None
    if uexe:
        ex = list(ci_exhaustive(ctx.scale(3, 4), 6, range(0, 9)))
        ok = run_ci(ctx, uexe, ex, "exhaustive")
        ctx.notes["childinit_exhaustive"] = f"stdio_count<={ctx.scale(3, 4)} x sources in -1..6 x error_fd in 0..8: {len(ex)} layouts"
        rnd = [ci_random(rng, rng.choice([4, 8, 12, 14])) for _ in range(ctx.scale(3000, 60000))]
        ok = run_ci(ctx, uexe, rnd, "random") and ok
        ctx.notes["childinit_random"] = f"{len(rnd)} layouts, stdio_count up to 14, error_fd below and above stdio_count in " \
                                        f"{sum(1 for e, s, _ in rnd if e < len(s))}/{sum(1 for e, s, _ in rnd if e >= len(s))} cases"
        ctx.sample({"child_init": ci_line(*rnd[0])})
        wcases = [gen_wait_case(rng, rng.range(4, 30)) for _ in range(ctx.scale(400, 8000))]
        run_wait(ctx, uexe, wcases)
        ctx.sample({"wait": wcases[0][:10]})
        run_decode(ctx, uexe)
    if sexe:
        cmds = spawn_cases(ctx, rng)
        run_spawn(ctx, sexe, cmds)
        ctx.notes["real_spawns"] = f"{sum(1 for c in cmds if c.startswith('layout'))} stdio layouts (half of the fixed ones also with a " \
                                   f"non-existent program), {sum(1 for c in cmds if c.startswith('many'))} multi-child runs " \
                                   f"({sum(len(c.split()) - 2 for c in cmds if c.startswith('many'))} children), kill/echo/options"
        ctx.sample({"spawn": cmds[5]})
        ks = [c for c in cmds if c.startswith("ksig")]
        ctx.notes["kill_range"] = (f"{len(ks)} uv_process_kill/uv_kill(pid)/uv_kill(-pid) calls over the numbers 0..64 and "
                                   f"{len(KSIG_INVALID) + 2} refused ones ({len(set(c.split()[2] for c in ks))} distinct numbers), each judged by "
                                   f"kill(2)'s own return value and the fate of a reference child signalled without libuv")
    if ctx.broken and not ctx.violations:
        ctx.log("obligation broken; searching for a failing input with the monitors")
        srng = SplitMix(ctx.seed + 4242)
        n = 0
        if uexe:
            for _ in range(20):
                rnd = [ci_random(srng, srng.choice([4, 8, 12, 20])) for _ in range(ctx.scale(3000, 10000))]
                n += len(rnd)
                if not run_ci(ctx, uexe, rnd, "search", diff=False) or ctx.violations: break
            if not ctx.violations:
                for _ in range(20):
                    wc = [gen_wait_case(srng, srng.range(4, 40)) for _ in range(400)]
                    n += len(wc)
                    if not run_wait(ctx, uexe, wc, diff=False) or ctx.violations: break
        if sexe and not ctx.violations:
            cm = ["place 40 3", "place 41 4", "place 57 8"]
            for _ in range(ctx.scale(150, 1500)):
                sl = gen_layout(srng, srng.choice([3, 5, 9, 16, 24, 40, 60]), False, [40, 41, 57])
                cm += [f"fill {srng.choice([0, 0x5A, 0xFF, 1])}", layout_cmd(sl), layout_cmd(sl, fail=True)]
                if srng.chance(1, 4): cm += [layout_cmd(sl, forkfail=True), "many 0 e3 e4"]
            cm += [gen_many(srng, srng.range(2, 20)) for _ in range(ctx.scale(20, 200))]
            cm += [f"chld {a} {b} 0 e1:20 s15:120 e9:240" for a in ["-", "o", "n", "on", "no", "oO", "nN"] for b in ["-", "O", "N", "o", "n", "ON"]]
            n += len(cm)
            run_spawn(ctx, sexe, cm)
        ctx.notes["search"] = f"{n} extra cases run against the monitors after an obligation broke"
    ctx.cov["rule"] = ("child_init: every layout for small stdio_count x sources x error fd, then random layouts "
                       "(permutations, aliasing, sources above stdio_count, holes in the parent's table, error fd below "
                       "stdio_count, missing sources); non-trivial = a source below its slot together with a source that is "
                       "itself a slot number (overlap), distinct by final table. wait: random spawn/fail/close/round "
                       "histories with scripted waitpid results; non-trivial = a round reaping >= 2 children. real spawns: fixed corpus of "
                       "the layouts the property names + random layouts with stdio_count 0..40 (sources among the parent's "
                       "fds 0..8 and three high fds), each also with a non-existent program; multi-child runs exiting before "
                       "the loop runs / simultaneously / staggered; non-trivial = overlapping layout or >= 3 children. kill: "
                       "every number 0..64 and a set kill(2) refuses (negative, 65 = NSIG, 128, 4096, INT_MAX/INT_MIN, two random), each "
                       "through uv_process_kill, uv_kill(pid) and uv_kill(-pid) on a detached child, judged by kill(2)'s own errno "
                       "and by the fate of a reference child signalled without libuv; non-trivial = a number the kernel delivered")
