"""C20 — threads and synchronisation primitives.
Proof: UvModel.Props.C20 over UvModel.ThreadArith (return-code tables, stack-size computation,
timed-wait deadline); UvModel.Props.C20Sem over UvModel.CustomSem (the mutex/condvar semaphore used when
glibc < 2.21; harness/c20_csem.c runs the real one under a serialising scheduler, diffed with `uvdriver csem`).  Tie B: harness/c20_threads.c built twice —
  scripted: pthread/sem/clock/rlimit entry points interposed, real uv_* functions driven with
            scripted answers, every line diffed with `uvdriver threads` and judged by monitors;
  real:     nothing interposed, N threads x M rounds with invariant counters (exclusion, rwlock,
            semaphore counting, barrier, once, TLS, condvar release, timedwait never early,
            stack >= request measured with pthread_getattr_np inside the thread).
The pthread contracts themselves are glibc's: trusted, exercised by the real part only."""
from vlib import *

MANIFEST = {
 "text": "Lean 4 theorems over an executable model of the logic libuv adds to pthread/sem in src/unix/thread.c and "
         "src/thread-common.c: total return-code tables of uv_mutex_trylock/uv_rwlock_try*lock/uv_sem_trywait (EINTR retry "
         "loop)/uv_cond_timedwait/uv_barrier_wait, the stack-size computation of uv_thread_create_ex (stack_size_ok: UV_EINVAL "
         "exactly when page rounding would exceed SIZE_MAX, otherwise a size that is >= request, >= minimum, page multiple and "
         "the least such; default_stack_rule) and the uv_cond_timedwait deadline (deadline_split: well-formed timespec equal to "
         "min(now+timeout, 2^64-1) ns, hence never early). The model is tied to the working tree by running the real functions "
         "with interposed pthread/sem/clock/rlimit entry points on the same scripted inputs and diffing every line, plus "
         "real-thread contention monitors that evaluate the property text directly.",
 "note": "PARTIAL by design: mutual exclusion, rwlock exclusion, semaphore counting, barrier release, pthread_once, TLS and "
         "'pthread_cond_timedwait answers ETIMEDOUT only at/after abstime on the condvar clock' are glibc/kernel contracts; "
         "they are hypotheses of the theorems (trylock_ebusy_exact, sem_trywait_eagain_exact, timedwait_not_early) and are "
         "only exercised by the contention monitors on the schedules the OS happened to produce (quick: ASan build; thorough: "
         "additionally a TSan build). Real scheduling and weak memory are not modelled. The mutex/condvar barrier fallback in "
         "thread-common.c is not compiled on glibc (PTHREAD_BARRIER_SERIAL_THREAD defined): not modelled. The custom "
         "mutex/condvar semaphore (uv__custom_sem_*, chosen when glibc < 2.21) IS modelled (UvModel.CustomSem, theorem "
         "never_more_than_initial_plus_posts over every interleaving of its pthread calls) and exercised: "
         "harness/c20_csem.c answers gnu_get_libc_version() = 2.17 and runs the real uv_sem_* under a serialising "
         "scheduler whose schedule points are the pthread_mutex_lock/trylock/unlock and pthread_cond_wait/signal calls "
         "and the operation starts (mutex and condvar simulated with their POSIX meaning; races between two plain "
         "memory accesses inside one segment are not explored). abort() is observed by catching SIGABRT.",
 "design": "DESIGN.md §3 C20",
 "technique": "Lean 4 proof over executable model + correspondence (symbol interposition unit harness, line diff) + real-thread monitors",
}

U64 = 2 ** 64
EINTR, EAGAIN, EBUSY, EINVAL, ETIMEDOUT = 4, 11, 16, 22, 110
NS = 10 ** 9
MUST = ["cond_signal", "cond_broadcast", "cond_wait", "cond_destroy", "rwlock_rdlock", "rwlock_wrlock",
        "rwlock_rdunlock", "rwlock_wrunlock", "rwlock_destroy", "barrier_destroy", "key_delete",
        "key_set", "sem_post", "sem_destroy", "mutex_destroy"]
PAGES = [4096, 16384, 65536]


def drv(ctx, text):
    """ctx.driver with a retry: another lake job may be relinking uvdriver at this moment"""
    for i in range(30):
        try:
            return ctx.driver(["threads"], text)
        except (FileNotFoundError, PermissionError, OSError):
            time.sleep(2)
    return ctx.driver(["threads"], text)


# ------------------------------------------------------------------ scripted part: generation
def stack_corners(ps, smin):
    m = max(8192, smin)
    c = [0, 1, 2, ps - 1, ps, ps + 1, m - 1, m, m + 1, 2 * ps + 1, (1 << 20) + 1, 1 << 20, 64 << 20, (64 << 20) + 7,
         2 ** 31, 2 ** 32 + 5, 2 ** 63, 2 ** 63 + 1, U64 - 2 * ps, U64 - ps - 1, U64 - ps, U64 - ps + 1, U64 - ps + 2,
         U64 - 2, U64 - 1]
    return [x for x in c if 0 <= x < U64]


def gen_stack(rng, n):
    out = []
    smins = [0, 2048, 8192, 16384, 20480, 65536, 131072, 70000]
    rlims = [0, 5, 8191, 8192, 16383, 16384, 16385, 70000, 1000000, 8 << 20, (8 << 20) + 4095, 2 ** 40 + 1, U64 - 2, U64 - 1]
    for ps in PAGES:
        for smin in smins[:4] if n < 5000 else smins:
            for req in stack_corners(ps, smin):
                out.append(f"stack 1 {req} {ps} {smin} 1 {8 << 20} 0")
        for rl in rlims:
            for smin in (0, 16384, 131072):
                out.append(f"stack 0 0 {ps} {smin} 1 {rl} 0")
        out.append(f"stack 0 77 {ps} 16384 0 12345678 0")
        out.append(f"stack 1 0 {ps} 16384 0 12345678 11")
    for _ in range(n):
        ps = rng.choice(PAGES + [rng.choice([1024, 2048, 8192, 32768, 1 << 21])])
        smin = rng.choice(smins)
        k = rng.below(10)
        if k < 3:
            req = rng.choice(stack_corners(ps, smin))
        elif k < 6:
            req = rng.below(1 << rng.range(1, 28))
        elif k < 8:
            req = rng.below(U64)
        else:
            req = U64 - 1 - rng.below(2 * ps)
        flags = rng.choice([1, 1, 1, 1, 0, 2, 3, 5])
        rok = 0 if rng.chance(1, 8) else 1
        rl = rng.choice(rlims) if rng.chance(1, 2) else rng.below(1 << rng.range(1, 40))
        crc = rng.choice([0, 0, 0, 0, EAGAIN, EINVAL, 1, 12])
        out.append(f"stack {flags} {req} {ps} {smin} {rok} {rl} {crc}")
    return out


def gen_codes(rng, thorough):
    out = []
    codes = list(range(-3, 135)) + [255, 512, 1 << 20, -EBUSY, -EAGAIN, 2 ** 31 - 1, -(2 ** 31)]
    for which in ("mutex", "rd", "wr"):
        out += [f"trylock {which} {c}" for c in codes]
    for n in (0, 1, 2, 5, 40):
        for r in (0, -1, 1, -2):
            for e in list(range(0, 135)) if (thorough or n < 2) else (0, EINTR, EAGAIN, EINVAL, EBUSY):
                if not (r == -1 and e == EINTR):
                    out.append(f"semtry {n} {r} {e}")
    for op in ("semwait", "sleep"):
        for n in (0, 1, 2, 3, 7, 40):
            for r in (0, -1, 1):
                for e in list(range(0, 135)) if (thorough or n < 2) else (0, EINTR, EAGAIN, EINVAL, ETIMEDOUT):
                    if not (r == -1 and e == EINTR):
                        out.append(f"{op} {n} {r} {e}")
    out += ["initattr rwlock", "initattr mutex", "initattr rmutex"]
    out += [f"barrier {c}" for c in codes]
    for c in codes:
        out.append(f"timedwait {rng.below(1000)} {rng.below(NS)} {rng.below(1 << 40)} {c}")
    for name in MUST:
        out += [f"must {name} {c}" for c in (0, 1, EINTR, EAGAIN, EBUSY, EINVAL, ETIMEDOUT, -1, 35)]
    return out


INIT_CALLS = {"cond": ["condattr_init", "condattr_setclock", "cond_init", "condattr_destroy"],
              "rmutex": ["mutexattr_init", "mutexattr_settype", "mutex_init", "mutexattr_destroy"],
              "mutex": ["mutex_init"], "rwlock": ["rwlock_init"], "barrier": ["barrier_init"], "sem": ["sem_init"],
              "thread": ["attr_init", "attr_setstacksize"]}


def gen_init(rng, thorough):
    """a failure injected at every setup call of every init wrapper, every errno"""
    out = []
    for wname, calls in INIT_CALLS.items():
        out.append(f"init {wname} none 0")
        for c in calls:
            for rc in (list(range(1, 135)) if thorough else [1, EINTR, EAGAIN, 12, EBUSY, EINVAL, 38, 95, ETIMEDOUT, rng.range(1, 134)]):
                out.append(f"init {wname} {c} {rc}")
    for rc in (0, EINVAL, 12, 95):
        out.append(f"condfault {rc} {rng.range(1, 4) * 10 ** 6}")
    return out


def gen_clock_session(rng, res, lag, n):
    """one process: the coarse clock answers resolution `res` and lags the precise clock by `lag` ns;
    precise readers before and after a UV_CLOCK_FAST reader (loop init / uv_update_time) cached its choice"""
    L = [f"coarse {res} {lag}"]
    def now():
        t = lag + rng.below(1 << rng.range(20, 50))
        return t // NS, t % NS
    def some(k):
        for _ in range(k):
            s_, ns = now()
            r = rng.below(3)
            if r == 0:
                L.append(f"hrtime {s_} {ns}")
            elif r == 1:
                L.append(f"timedwait {s_} {ns} {rng.below(1 << rng.range(1, 40))} {rng.choice([0, ETIMEDOUT])}")
            else:
                L.append(f"fastclock {s_} {ns}")
    if rng.chance(1, 2):
        s_, ns = now(); L.append(f"hrtime {s_} {ns}"); L.append(f"timedwait {s_} {ns} 5000000 {ETIMEDOUT}")
    s_, ns = now(); L.append(f"fastclock {s_} {ns}")
    s_, ns = now(); L.append(f"hrtime {s_} {ns}"); L.append(f"timedwait {s_} {ns} 5000000 {ETIMEDOUT}")
    some(n)
    if lag and lag <= 4 * 10 ** 6:
        L.append(f"condfault 0 {lag + 2 * 10 ** 6}")     # real wait: early by `lag` if the deadline came from the coarse clock
    return L


def gen_timedwait(rng, n):
    out = []
    nows = [0, 1, NS - 1, NS, NS + 1, 12345678901234, 2 ** 62, U64 - NS, U64 - 2, U64 - 1]
    for now in nows:
        for tot in (U64 - 2, U64 - 1, U64, U64 + 1, U64 + NS):
            t = tot - now
            if 0 <= t < U64:
                out.append(f"timedwait {now // NS} {now % NS} {t} {ETIMEDOUT}")
        for t in (0, 1, NS - 1, NS, 2 * NS + 3, U64 - 1, U64 - 1 - now if now else 7):
            out.append(f"timedwait {now // NS} {now % NS} {t % U64} {rng.choice([0, ETIMEDOUT])}")
    for _ in range(n):
        k = rng.below(10)
        now = rng.below(1 << rng.range(1, 64)) if k < 8 else U64 - 1 - rng.below(1 << 34)
        sec, nsec = now // NS, now % NS
        if rng.chance(1, 20):
            sec = rng.below(2 ** 63)          # hrtime itself wraps: correspondence only
        k = rng.below(10)
        if k < 5:
            t = rng.below(1 << rng.range(1, 64))
        elif k < 7:
            t = (U64 - now + rng.range(-3, 3)) % U64
        elif k < 8:
            t = U64 - 1 - rng.below(1000)
        else:
            t = rng.below(3 * NS)
        out.append(f"timedwait {sec} {nsec} {t} {rng.choice([0, ETIMEDOUT, ETIMEDOUT])}")
    return out


# ------------------------------------------------------------------ scripted part: monitors (property text, no model)
def scripted_monitor(cmd, o):
    """returns (sig, message) or None"""
    w = cmd.split()
    ow = o.split()
    if o in ("bad-op", "multiple-calls") or o.startswith("timedwait-calls"):
        return ("harness-protocol", f"`{cmd}` -> `{o}`")
    if w[0] == "stack":
        flags, req, ps, smin, rok, rl, crc = map(int, w[1:])
        if o == "abort":
            return ("create-ex-abort", f"uv_thread_create_ex aborted for `{cmd}`")
        ss = None if ow[1] == "none" else int(ow[1]); reached = int(ow[3]); ret = int(ow[5])
        if ret == 0 and not (reached == 1 and crc == 0):
            return ("create-ex-false-success", f"uv_thread_create_ex returned 0 without a successful pthread_create: `{cmd}` -> `{o}`")
        if reached == 1 and crc == 0 and ret != 0:
            return ("create-ex-false-failure", f"thread created but {ret} returned: `{cmd}` -> `{o}`")
        if ss is not None and ss < smin:
            return ("create-ex-stack-below-pthread-min",
                    f"uv_thread_create_ex passes {ss} to pthread_attr_setstacksize with PTHREAD_STACK_MIN={smin}: glibc refuses it "
                    f"(EINVAL) and libuv aborts: `{cmd}`")
        if reached == 1 and not ((flags & 1) and req > 0) and ss is not None:
            lim = max(rl if (rok and rl != U64 - 1) else 0, 8 << 20)
            if ss > lim:
                return ("create-default-stack-unusable",
                        f"uv_thread_create (no stack size requested) asks pthread for a {ss}-byte stack "
                        f"(RLIMIT_STACK {'unlimited' if rl == U64 - 1 else rl if rok else 'unreadable'}): larger than both the soft "
                        f"limit and any platform default, pthread_create cannot satisfy it: `{cmd}`")
        if ret == 0 and (flags & 1) and req > 0 and (ss is None or ss < req):
            return ("create-ex-stack-smaller-than-request",
                    f"uv_thread_create_ex(stack_size={req}, pagesize={ps}) returned 0 with stack size {ss} < request")
        return None
    if w[0] == "trylock":
        c = int(w[2])
        if c == 0 and o != "ret 0":
            return ("trylock-free-not-0", f"{w[1]} trylock: pthread said 0 (acquired), uv returned `{o}`")
        if c == EBUSY and o != f"ret {-EBUSY}":
            return ("trylock-held-not-ebusy", f"{w[1]} trylock: pthread said EBUSY (held), uv returned `{o}`")
        if c in (EBUSY, EAGAIN) and o != f"ret {-EBUSY}":
            return ("trylock-refusal-not-ebusy",
                    f"{w[1]} trylock: pthread answered {'EBUSY' if c == EBUSY else 'EAGAIN (lock count exhausted)'}: the lock was not "
                    f"acquired, documented result is UV_EBUSY, uv returned `{o}`")
        if ow[0] == "ret" and int(ow[1]) not in (0, -EBUSY):
            return ("trylock-undocumented-code", f"{w[1]} trylock (pthread answered {c}) returned {ow[1]}; documented results are 0 and UV_EBUSY")
        if c != 0 and o == "ret 0":
            return ("try-success-without-lock",
                    f"{w[1]} trylock: pthread_*_try*lock answered {c} (lock NOT granted) but the uv wrapper returned 0 (no exclusion)")
        return None
    if w[0] == "semtry":
        n, r, e = int(w[1]), int(w[2]), int(w[3])
        if r == 0 and ow[:2] != ["ret", "0"]:
            return ("sem-trywait-success-not-0", f"sem_trywait succeeded after {n} EINTR, uv_sem_trywait gave `{o}`")
        if ow[0] == "ret" and int(ow[1]) not in (0, -EAGAIN):
            return ("sem-trywait-undocumented-code", f"uv_sem_trywait (sem_trywait: r={r} errno={e} after {n} EINTR) returned {ow[1]}; documented results are 0 and UV_EAGAIN")
        if r != 0 and ow[:2] == ["ret", "0"]:
            return ("try-success-without-lock",
                    f"sem_trywait failed (r={r}, errno={e}: no permit taken) after {n} EINTR but uv_sem_trywait returned 0")
        if r == -1 and e == EAGAIN and ow[:2] != ["ret", str(-EAGAIN)]:
            return ("sem-trywait-zero-not-eagain", f"sem_trywait said EAGAIN (count zero) after {n} EINTR, uv_sem_trywait gave `{o}`")
        return None
    if w[0] in ("semwait", "sleep"):
        n, r, e = int(w[1]), int(w[2]), int(w[3])
        name = "uv_sem_wait" if w[0] == "semwait" else "uv_sleep"
        call = "sem_wait" if w[0] == "semwait" else "nanosleep"
        if ow[0] == "ret" and (r != 0 or int(ow[3]) != n + 1):
            # the wrapper returned although no platform call had succeeded yet
            return ("wait-returned-without-token" if w[0] == "semwait" else "sleep-returned-early",
                    f"{name} returned after {ow[3]} {call} call(s) although {call} answered EINTR {n} time(s) and then r={r} errno={e}: "
                    f"it came back without a successful {call}")
        if r == 0 and ow[0] != "ret":
            return ("wait-abort-on-success", f"{call} succeeded after {n} EINTR, {name} did `{o}`")
        return None
    if w[0] == "timedwait":
        sec, nsec, t, rc = map(int, w[1:])
        if ow[0] != "deadline":
            return ("timedwait-protocol", f"`{cmd}` -> `{o}`")
        ds, dn, clk, cclk = int(ow[1]), int(ow[2]), int(ow[4]), int(ow[6])
        res = " ".join(ow[7:])
        if rc == ETIMEDOUT and res != f"ret {-ETIMEDOUT}":
            return ("timedwait-etimedout-map", f"pthread_cond_timedwait said ETIMEDOUT, uv returned `{res}`")
        if rc == 0 and res != "ret 0":
            return ("timedwait-0-map", f"pthread_cond_timedwait said 0, uv returned `{res}`")
        if res.startswith("ret") and int(res.split()[1]) not in (0, -ETIMEDOUT):
            return ("timedwait-undocumented-code", f"uv_cond_timedwait (pthread answered {rc}) returned {res.split()[1]}; documented results are 0 and UV_ETIMEDOUT")
        if rc != 0 and res == "ret 0":
            return ("timedwait-success-without-wakeup", f"pthread_cond_timedwait answered {rc} (not woken) but uv_cond_timedwait returned 0")
        if rc != ETIMEDOUT and res == f"ret {-ETIMEDOUT}":
            return ("timedwait-timeout-without-etimedout", f"pthread_cond_timedwait answered {rc}, uv_cond_timedwait returned UV_ETIMEDOUT")
        if clk != cclk:
            return ("timedwait-clock-mismatch", f"deadline computed on clock {clk}, condvar waits on clock {cclk}")
        now = sec * NS + nsec
        if now < U64 and nsec < NS:
            if dn >= NS or ds >= 2 ** 63:
                return ("timedwait-deadline-malformed", f"`{cmd}` -> timespec {ds}s {dn}ns")
            if ds * NS + dn < min(now + t, U64 - 1):
                return ("timedwait-deadline-early",
                        f"uv_cond_timedwait(timeout={t}) at hrtime {now}: absolute deadline {ds * NS + dn} ns is earlier than now+timeout")
        return None
    if w[0] == "init":
        rc = int(w[3])
        if w[2] != "none" and rc != 0 and ow[:2] == ["ret", "0"]:
            return ("init-success-despite-setup-failure",
                    f"uv_{w[1]}_init: {w[2]} failed with {rc} but the wrapper returned 0 (hands out a half-configured object): `{o}`")
        if ow[:2] == ["ret", "0"] and w[1] != "thread":
            d = kv(o, 2)
            if d.get("live") != "1" or d.get("cfg", "1") != "1":
                return ("init-half-configured-object", f"uv_{w[1]}_init returned 0 but no fully configured primitive exists: `{cmd}` -> `{o}`")
        if w[1] == "thread" and ow[0] == "ret" and (w[2] != "none" and rc != 0) and "created 1" in o:
            return ("init-success-despite-setup-failure", f"thread created although {w[2]} failed with {rc}: `{o}`")
        return None
    if w[0] == "condfault":
        if ow[:3] == ["condfault", "ret", "0"]:
            d = kv(o, 3)
            if d["timedwait"] == str(-ETIMEDOUT) and d["not_early"] != "1":
                return ("timedwait-early-real",
                        f"a condvar uv_cond_init returned 0 for (pthread_condattr_setclock answered {w[1]}) timed out before "
                        f"{w[2]} ns had elapsed on CLOCK_MONOTONIC: `{o}`")
        elif int(w[1]) == 0:
            return ("cond-init-failed", f"`{cmd}` -> `{o}`")
        return None
    if w[0] == "coarse":
        return None if o == "ok" else ("harness-protocol", f"`{cmd}` -> `{o}`")
    if w[0] == "hrtime":
        now = int(w[1]) * NS + int(w[2])
        if ow[0] != "hrtime" or int(ow[3]) != 1 or (now < U64 and int(ow[1]) != now):
            return ("hrtime-not-precise-clock",
                    f"uv_hrtime() with CLOCK_MONOTONIC at {now} ns: `{o}` (must read the precise clock, id 1)")
        return None
    if w[0] == "fastclock":
        if ow[0] != "fastclock" or int(ow[4]) > (int(w[1]) * NS + int(w[2])) // 10 ** 6:
            return ("loop-time-ahead-of-clock", f"`{cmd}` -> `{o}`")
        return None
    if w[0] == "initattr":
        if w[1] == "rmutex" and o != "mutex-type 1":
            return ("rmutex-not-recursive", f"uv_mutex_init_recursive creates the mutex with `{o}` (PTHREAD_MUTEX_RECURSIVE is 1)")
        return None
    if w[0] == "barrier":
        c = int(w[1])
        if c == -1 and (ow[0] != "ret" or int(ow[1]) == 0):
            return ("barrier-serial-not-nonzero", f"SERIAL_THREAD -> `{o}`")
        if c == 0 and o != "ret 0":
            return ("barrier-0-not-0", f"barrier rc 0 -> `{o}`")
        if c not in (0, -1) and ow[0] == "ret":
            return ("barrier-release-without-barrier", f"pthread_barrier_wait failed with {c} but uv_barrier_wait returned `{o}` (claims the round completed)")
        return None
    if w[0] == "must":
        if int(w[2]) == 0 and o != "ret 0":
            return ("wrapper-abort-on-success", f"uv_{w[1]}: pthread said 0, wrapper did `{o}`")
        if int(w[2]) != 0 and o == "ret 0":
            return ("wrapper-success-on-failure", f"uv_{w[1]}: the platform call failed with {w[2]} but the void wrapper returned normally")
        return None
    return ("harness-protocol", f"unknown `{cmd}`")


def nontrivial_key(cmd, o):
    w = cmd.split()
    if w[0] == "stack":
        req, ps = int(w[2]), int(w[3])
        if int(w[1]) & 1 and req and req % ps:
            return f"stack/{req}/{ps}"
        if not (int(w[1]) & 1 and req) and int(w[6]) % ps:
            return f"dflt/{w[6]}/{ps}/{w[4]}"
        return None
    if w[0] == "timedwait":
        return f"tw/{w[1]}/{w[2]}/{w[3]}" if int(w[3]) % NS else None
    return "code/" + cmd.replace(" ", "/")


def run_scripted(ctx, sexe, lines, label, diff=True):
    """True if everything agreed; registers violations / broken correspondence"""
    text = "\n".join(lines) + "\n"
    rc, iout, ierr = ctx.run(sexe, text=text)
    il = iout.splitlines()
    ok = True
    for cmd, o in zip(lines, il):
        ctx.count()
        bad = scripted_monitor(cmd, o)
        if bad:
            ctx.violation(bad[0], f"C20 ({label}): {bad[1]}", {"mode": "scripted", "line": cmd})
            ok = False
    if len(il) < len(lines) or rc != 0:
        cmd = lines[min(len(il), len(lines) - 1)]
        ctx.violation("scripted-harness-crash", f"C20 ({label}): harness died rc={rc} at `{cmd}`: {ierr[-600:]}",
                      {"mode": "scripted", "line": cmd})
        return False
    if not diff:
        return ok
    ml = drv(ctx, text).splitlines()
    for cmd, o, m in zip(lines, il, ml):
        if o != m:
            if cmd.split()[0] in ctx.diff_ops:
                ok = False
                break
            ctx.broken_correspondence(f"ThreadArith model vs src/unix/thread.c ({cmd.split()[0]})",
                                      f"`{cmd}`: impl `{o}` model `{m}`")
            ctx.diff_ops.add(cmd.split()[0])
            ok = False
            break
    else:
        ctx.validated(len(lines))
        for cmd, o in zip(lines, il):
            k = nontrivial_key(cmd, o)
            if k:
                ctx.nontrivial(k)
    return ok


# ------------------------------------------------------------------ real part
def kv(line, start):
    w = line.split()[start:]
    return {w[i]: w[i + 1] for i in range(0, len(w) - 1, 2)}


def real_monitor(cmd, outs):
    """cmd: input line; outs: the output lines it produced.  Returns list of (sig, msg)."""
    bad = []
    w = cmd.split()
    def need(n):
        if len(outs) != n:
            bad.append(("real-harness-protocol", f"`{cmd}` produced {outs}"))
            return False
        return True
    if w[0] == "contend":
        nt, rounds = int(w[2]), int(w[3])
        what = w[1]
        if what in ("mutex", "rmutex"):
            if not need(2): return bad
            d = kv(outs[0], 1)
            if int(d["max_inside"]) > 1 or d["total"] != d["expected"]:
                bad.append(("mutex-exclusion", f"{what}: {nt} threads x {rounds}: {outs[0]}"))
            if int(d["badcodes"]):
                bad.append(("mutex-trylock-code", f"{what}: trylock returned a code other than 0/UV_EBUSY: {outs[0]}"))
            d = kv(outs[1], 1)
            if what == "mutex" and (d["free"], d["held"], d["released"]) != ("0", "-16", "0"):
                bad.append(("mutex-trylock-exact", f"uv_mutex_trylock: {outs[1]}"))
            if what == "rmutex" and [d[k] for k in ("free", "held3", "held2", "held1", "released", "nest")] != ["0", "-16", "-16", "-16", "0", "0"]:
                bad.append(("rmutex-nesting", f"recursive mutex: {outs[1]}"))
        elif what == "rwlock":
            if not need(3): return bad
            d = kv(outs[0], 1)
            if int(d["violations"]) or d["writes"] != d["expected"]:
                bad.append(("rwlock-exclusion", f"{nt} threads x {rounds}: {outs[0]}"))
            d = kv(outs[1], 1)
            if int(d["readers_together"]) != nt:
                bad.append(("rwlock-readers-not-concurrent", outs[1]))
            d = kv(outs[2], 1)
            if [d[k] for k in ("rdheld_tryrd", "rdheld_trywr", "wrheld_tryrd", "wrheld_trywr", "free_trywr")] != ["0", "-16", "-16", "-16", "0"]:
                bad.append(("rwlock-try-exact", outs[2]))
        elif what == "rwlock-wwait":
            if not need(1): return bad
            d = kv(outs[0], 1)
            if int(d["same_thread_tryrd_refused"]) or int(d["other_tryrd_refused"]) or int(d["other_rdlock_blocked"]):
                bad.append(("rwlock-reader-refused-while-writer-waits",
                            f"a reader holds the lock and a writer is only WAITING, yet further readers are not admitted: {outs[0]}"))
            if int(d["writer_in_while_read_held"]):
                bad.append(("rwlock-exclusion", outs[0]))
        elif what == "sem":
            if not need(3): return bad
            d = kv(outs[0], 1)
            if int(d["max_inside"]) > int(d["permits"]) or int(d["badcodes"]):
                bad.append(("sem-too-many-through", outs[0]))
            d = kv(outs[1], 1)
            if d["got"] != d["permits"] or d["then"] != "-11":
                bad.append(("sem-count", outs[1]))
            d = kv(outs[2], 1)
            if int(d["taken"]) + int(d["left"]) != int(d["posts"]) or int(d["badcodes"]):
                bad.append(("sem-count", outs[2]))
        elif what == "barrier":
            if not need(1): return bad
            d = kv(outs[0], 1)
            if int(d["early"]):
                bad.append(("barrier-early-release", outs[0]))
            if int(d["rounds_serial_not_1"]):
                bad.append(("barrier-serial-count", outs[0]))
        elif what == "once":
            if not need(1): return bad
            d = kv(outs[0], 1)
            if int(d["not_exactly_once"]) or int(d["returned_before_done"]):
                bad.append(("once-count", outs[0]))
        elif what == "key":
            if not need(1): return bad
            d = kv(outs[0], 1)
            if int(d["foreign_value_seen"]) or int(d["initial_nonnull"]) or d["main_kept"] != "1":
                bad.append(("key-not-private", outs[0]))
        elif what.endswith("-intr"):
            if not need(1): return bad
            d = kv(outs[0], 1)
            if int(d["through_before"]) != 0:
                bad.append(("wait-returned-without-token",
                            f"{what}: {d['through_before']} of {d['waiters']} threads blocked in uv_{what[:-5]}_wait/lock got through after "
                            f"{d['handled']} non-SA_RESTART signals, before any post/unlock/broadcast: {outs[0]}"))
            if d["through_after"] != d["waiters"]:
                bad.append(("intr-waiter-lost", outs[0]))
            if what == "sem-intr" and d["extra"] != str(-EAGAIN):
                bad.append(("sem-count", f"surplus token after interrupted waits: {outs[0]}"))
            if what != "sem-intr" and int(d["extra"]) > 1:
                bad.append(("mutex-exclusion", outs[0]))
        elif what.startswith("cond-"):
            if not need(1): return bad
            d = kv(outs[0], 1)
            if d["released"] != d["waiters"]:
                bad.append(("cond-not-released", outs[0]))
            if int(d["max_inside"]) > 1:
                bad.append(("cond-wait-returns-without-mutex", outs[0]))
    elif w[0] == "loopinit":
        if not need(1) or outs[0] != "loopinit 0":
            bad.append(("real-harness-protocol", f"`{cmd}` produced {outs}"))
    elif w[0] == "timedwait":
        if not need(1): return bad
        d = kv(outs[0], 1)
        if d["ret"] == str(-ETIMEDOUT) and int(d["elapsed"]) < int(w[1]):
            bad.append(("timedwait-early-real", f"uv_cond_timedwait({w[1]} ns) returned UV_ETIMEDOUT after {d['elapsed']} ns"))
        if d["ret"] not in ("0", str(-ETIMEDOUT)):
            bad.append(("timedwait-ret", outs[0]))
    elif w[0] == "longwait":
        if not need(1): return bad
        d = kv(outs[0], 1)
        if d["still_blocked"] != "1" or d["ret"] != "0":
            bad.append(("timedwait-early-real", f"uv_cond_timedwait({w[1]} ns) did not keep blocking / timed out within {w[2]} ms: {outs[0]}"))
        if d["mutex_on_return"] != str(-EBUSY):
            bad.append(("cond-wait-returns-without-mutex", outs[0]))
    elif w[0] in ("create", "create-rlim"):
        if not need(1): return bad
        o = outs[0]
        if o == "rlim-skip":
            return bad
        d = kv(o, 3 if w[0] == "create-rlim" else 1)
        flag, req, ret = int(d["flag"]), int(d["req"]), int(d["ret"])
        if ret == 0:
            if d["ran"] != "1" or d["arg_ok"] != "1":
                bad.append(("thread-entry-not-once", o))
            if d["join"] != "0" or d["finished_at_join"] != "1":
                bad.append(("thread-join-early", o))
            if flag and req and int(d["stack"]) < req:
                bad.append(("create-ex-stack-smaller-than-request",
                            f"uv_thread_create_ex(stack_size={req}) returned 0, thread runs on a {d['stack']}-byte stack"))
        else:
            if d["ran"] != "0":
                bad.append(("thread-ran-despite-error", o))
            if not (flag and req > (64 << 20)):
                lim = f" under RLIMIT_STACK={w[1]}" if w[0] == "create-rlim" else ""
                bad.append(("thread-create-refused-reasonable-request",
                            f"uv_thread_create_ex({'stack_size=' + str(req) if flag and req else 'default stack size'}){lim} failed with {ret}; "
                            f"the entry function never ran"))
    return bad


def split_real(lines, outs):
    """group output lines per input line (contend ops print 1-3 lines)"""
    per = {"mutex": 2, "rmutex": 2, "rwlock": 3, "sem": 3}
    res, pos = [], 0
    for cmd in lines:
        w = cmd.split()
        n = per.get(w[1], 1) if w[0] == "contend" else 1
        res.append((cmd, outs[pos:pos + n])); pos += n
    return res


def run_real(ctx, rexe, lines, label, env=None, timeout=None):
    timeout = timeout or ctx.scale(60, 600)
    rc, out, err = ctx.run(rexe, text="\n".join(lines) + "\n", env=env, timeout=timeout)
    outs = out.splitlines()
    ok = True
    for cmd, os_ in split_real(lines, outs):
        ctx.count()
        if not os_:
            why = "hang (timeout)" if rc == -999 else f"rc={rc}"
            ctx.violation("real-harness-" + ("hang" if rc == -999 else "crash") + "-" + cmd.split()[1 if cmd.startswith("contend") else 0],
                          f"C20 ({label}): harness {why} at `{cmd}`: {err[-700:]}", {"mode": "real", "line": cmd})
            return False
        for sig, msg in real_monitor(cmd, os_):
            ctx.violation(sig, f"C20 ({label}): {msg}", {"mode": "real", "line": cmd})
            ok = False
        if ok and not ("-intr" in cmd and " handled 0 " in os_[0]):   # no signal delivered = vacuous
            ctx.nontrivial("real/" + cmd)
    if rc != 0:
        ctx.violation("real-harness-sanitizer", f"C20 ({label}): harness exited {rc}: {err[-900:]}", {"mode": "real", "line": lines[-1]})
        return False
    return ok


def real_program(rng, nt, rounds, reps):
    L = []
    for _ in range(reps):
        for what, div in (("mutex", 1), ("rmutex", 2), ("rwlock", 1), ("sem", 2), ("barrier", 4), ("once", 8), ("key", 2),
                          ("cond-signal", 1), ("cond-broadcast", 1)):
            L.append(f"contend {what} {rng.range(2, nt)} {max(1, rounds // div)}")
        L.append(f"contend rwlock-wwait 2 {rng.range(3, 5)}")
        for what in ("sem-intr", "mutex-intr", "cond-intr"):
            L.append(f"contend {what} {rng.range(2, min(nt, 8))} {rng.range(3, 6)}")
    L.append("loopinit")          # a UV_CLOCK_FAST reader runs before the timed waits
    for t in (0, 1, 999, 10 ** 6, 3 * 10 ** 6 + rng.below(10 ** 6), 2 * 10 ** 7):
        L.append(f"timedwait {t}")
    return L


def create_sweep(rng, n):
    ps = 4096
    reqs = [(0, 0), (1, 0), (0, 999999), (1, 1), (1, 4095), (1, 8191), (1, 8192), (1, 16383), (1, 16384), (1, 16385),
            (1, 100000), (1, (1 << 20) + 1), (1, 64 << 20), (1, U64 - 1), (1, U64 - ps + 1), (1, U64 - ps), (1, U64 - ps - 1),
            (1, 2 ** 63), (1, 2 ** 63 + 1)]
    for _ in range(n):
        k = rng.below(4)
        r = rng.below(1 << rng.range(1, 26)) if k < 3 else U64 - 1 - rng.below(3 * ps)
        reqs.append((1, r))
    return [f"create {f} {r}" for f, r in reqs]


def default_rule_real(ctx, rexe, vals):
    """uv_thread_create with the real RLIMIT_STACK lowered: real stack size == model's default rule
    (one process per value: glibc reuses cached larger stacks otherwise)"""
    for v in vals:
        rc, out, err = ctx.run(rexe, text=f"env\ncreate-rlim {v}\n")
        outs = out.splitlines()
        ctx.count()
        if rc != 0 or len(outs) != 2:
            ctx.violation("real-harness-crash-create-rlim", f"C20: harness rc={rc} at create-rlim {v}: {err[-500:]}",
                          {"mode": "real", "line": f"create-rlim {v}"})
            return
        if outs[1] == "rlim-skip":
            continue
        for sig, msg in real_monitor(f"create-rlim {v}", outs[1:]):
            ctx.violation(sig, f"C20 (default rule): {msg}", {"mode": "real", "line": f"create-rlim {v}"})
        e = kv(outs[0], 1)
        rl = U64 - 1 if v == "inf" else int(v)
        m = drv(ctx, f"stack 0 0 {e['pagesize']} {e['stackmin']} 1 {rl} 0\n").split()
        got = kv(outs[1], 3)["stack"]
        if m[1] != got:
            if "dflt-real" in ctx.diff_ops:
                continue
            ctx.diff_ops.add("dflt-real")
            ctx.broken_correspondence("default_stack_rule vs real thread stack (pthread_getattr_np)",
                                      f"RLIMIT_STACK={v}: thread stack {got}, model {m[1]}")
            ctx.diff_ops.add("stack")
        else:
            ctx.validated()
            ctx.nontrivial(f"real-dflt/{v}")


# ------------------------------------------------------------------ custom semaphore (glibc < 2.21) under a serialising scheduler
def csem_monitor(cmd, o):
    """property text evaluated on the event trace of the real uv__custom_sem_* (no model).  Returns (sig, msg) or None.
    posts count from the moment uv_sem_post was *entered* (never demands more than the text)."""
    w = cmd.split()
    init, progs = int(w[1]), [("" if p == "-" else p) for p in w[2].split("/")]
    if "|" not in o:
        return ("harness-protocol", f"`{cmd}` -> `{o}`")
    evs, tail = o.split("|")
    tl = tail.split()
    if len(tl) < 6 or tl[0] != "left" or tl[2] != "then" or tl[4] != "stuck" or "runaway" in evs or "foreign-mutex" in tail:
        return ("harness-protocol", f"`{cmd}` -> `{o}`")
    left, then, stuck = int(tl[1]), int(tl[3]), int(tl[5])
    n = len(progs)
    opi = [0] * n; mid = [False] * n; alone = [True] * n; avail_at_begin = [0] * n
    posts_begun = posts_done = acq = 0
    for ev in evs.split():
        body, _, ret = ev.partition("=")
        t = int(body[0]); kind = body[1:]
        if kind.endswith("!"):
            return ("csem-mutex-misuse", f"thread {t} released / waited on the semaphore's mutex without owning it (`{ev}`): `{cmd}` -> `{o}`")
        if kind == "W":
            continue
        if kind == "B":
            mid[t] = True
            alone[t] = not any(m for j, m in enumerate(mid) if j != t)
            for j in range(n):
                if j != t and mid[j]:
                    alone[j] = False
            avail_at_begin[t] = init + posts_done - acq
            if progs[t][opi[t]] == "p":
                posts_begun += 1
        if ret != "":
            op = progs[t][opi[t]]; r = int(ret)
            if op == "p":
                posts_done += 1
                if r != 0:
                    return ("harness-protocol", f"`{cmd}` -> `{o}`")
            elif op == "w" or r == 0:
                acq += 1
                if acq > init + posts_begun:
                    why = "uv_sem_trywait returned 0" if op == "t" else "uv_sem_wait returned"
                    rule = "trywait must give UV_EAGAIN at zero" if op == "t" else "wait must block at zero"
                    return ("csem-too-many-through",
                            f"custom (glibc < 2.21) semaphore, initial value {init}: {why} in thread {t} as acquisition #{acq} when only "
                            f"{posts_begun} uv_sem_post had been entered ({rule}): `{cmd}` -> `{o}`")
            if op == "t" and r not in (0, -EAGAIN):
                return ("sem-trywait-undocumented-code", f"custom semaphore: uv_sem_trywait returned {r}: `{cmd}` -> `{o}`")
            if op == "t" and alone[t]:
                # nobody else was inside an operation from its start to its end: the answer is determined
                if avail_at_begin[t] == 0 and r != -EAGAIN:
                    return ("csem-trywait-zero-not-eagain", f"uncontended uv_sem_trywait at zero returned {r}: `{cmd}` -> `{o}`")
                if avail_at_begin[t] > 0 and r != 0:
                    return ("csem-trywait-refused-with-tokens",
                            f"uncontended uv_sem_trywait with {avail_at_begin[t]} token(s) available returned {r}: `{cmd}` -> `{o}`")
            mid[t] = False; opi[t] += 1
    total = init + posts_begun
    if acq + left > total:
        return ("csem-too-many-through",
                f"custom (glibc < 2.21) semaphore, initial value {init}, {posts_begun} posts: {acq} acquisitions got through and {left}"
                f"{'+' if then == 0 else ''} more tokens could still be taken afterwards (counter wrapped?): `{cmd}` -> `{o}`")
    if then != -EAGAIN:
        return ("sem-trywait-undocumented-code", f"custom semaphore: the drain by uv_sem_trywait ended with {then}: `{cmd}` -> `{o}`")
    if not stuck and acq + left != init + posts_done:
        return ("sem-count", f"custom semaphore: all threads finished, initial {init} + {posts_done} posts != {acq} acquisitions + {left} left: `{cmd}` -> `{o}`")
    return None


def gen_csem_exhaustive(thorough):
    """every schedule string of a fixed length over the thread ids, for every small program set"""
    import itertools
    ops = ["w", "t", "p"]
    one = ops + ([a + b for a in ops for b in ops] if thorough else ["tp", "pt", "tt", "wp", "pw"])
    out = []
    L = 9 if thorough else 7
    for init in ((0, 1, 2) if thorough else (0, 1)):
        for p0 in one:
            for p1 in one:
                if len(p0) + len(p1) > 3 and not thorough:
                    continue
                for sch in itertools.product("01", repeat=L):
                    out.append(f"csem {init} {p0}/{p1} {''.join(sch)}")
    return out


def gen_csem_random(rng, n):
    out = []
    for _ in range(n):
        nt = rng.range(2, 5)
        init = rng.choice([0, 0, 1, 1, 1, 2, 3])
        progs = []
        for t in range(nt):
            k = rng.below(5)
            bias = rng.choice(["wtp", "wtp", "ttp", "wwp", "ppt", "tw"])
            progs.append("".join(rng.choice(bias) for _ in range(k)) or "-")
        L = rng.below(40)
        sch = ""
        for _ in range(L):
            if rng.chance(1, 12):
                sch += chr(ord("a") + rng.below(nt))
            elif sch and rng.chance(1, 2) and sch[-1].isdigit():
                sch += sch[-1]                           # runs of the same thread: whole lock..unlock sections
            else:
                sch += str(rng.below(nt))
        out.append(f"csem {init} {'/'.join(progs)} {sch or '-'}")
    return out


def drv_csem(ctx, text):
    for i in range(30):
        try:
            return ctx.driver(["csem"], text)
        except (FileNotFoundError, PermissionError, OSError):
            time.sleep(2)
    return ctx.driver(["csem"], text)


def csem_shrink(ctx, cexe, cmd, sig):
    """greedy: drop schedule characters and operations while the same monitor still fires"""
    def fails(c):
        rc, out, _ = ctx.run(cexe, text=c + "\n", timeout=20)
        ol = out.splitlines()
        if rc != 0 or len(ol) != 1:
            return False
        b = csem_monitor(c, ol[0])
        return bool(b) and b[0] == sig
    w = cmd.split()
    init, progs, sch = w[1], w[2].split("/"), ("" if w[3] == "-" else w[3])
    mk = lambda i, p, s_: f"csem {i} {'/'.join(p)} {s_ or '-'}"
    budget = 200
    changed = True
    while changed and budget > 0:
        changed = False
        for k in range(len(sch)):
            budget -= 1
            if fails(mk(init, progs, sch[:k] + sch[k + 1:])):
                sch = sch[:k] + sch[k + 1:]; changed = True
                break
        if changed:
            continue
        for t in range(len(progs)):
            for k in range(len(progs[t]) if progs[t] != "-" else 0):
                budget -= 1
                q = (progs[t][:k] + progs[t][k + 1:]) or "-"
                if fails(mk(init, progs[:t] + [q] + progs[t + 1:], sch)):
                    progs = progs[:t] + [q] + progs[t + 1:]; changed = True
                    break
            if changed:
                break
    return mk(init, progs, sch)


def run_csem(ctx, cexe, lines, label, diff=True, shrink=True):
    ok = True
    for k in range(0, len(lines), 25000):            # one harness process per batch
        ok = run_csem_batch(ctx, cexe, lines[k:k + 25000], label, diff, shrink) and ok
        if ctx.violations or "csem" in ctx.diff_ops:
            break
    return ok


def run_csem_batch(ctx, cexe, lines, label, diff=True, shrink=True):
    text = "\n".join(lines) + "\n"
    rc, iout, ierr = ctx.run(cexe, text=text, timeout=ctx.scale(120, 900))
    il = iout.splitlines()
    ok = True
    seen = set()
    blocked_with_token = 0
    for cmd, o in zip(lines, il):
        ctx.count()
        bad = csem_monitor(cmd, o)
        if bad:
            ok = False
            if bad[0] in seen:
                continue
            seen.add(bad[0])
            if shrink and bad[0] != "harness-protocol":
                small = csem_shrink(ctx, cexe, cmd, bad[0])
                if small != cmd:
                    so = ctx.run(cexe, text=small + "\n", timeout=20)[1].splitlines()
                    b2 = csem_monitor(small, so[0]) if so else None
                    if b2 and b2[0] == bad[0]:
                        cmd, bad = small, b2
            ctx.violation(bad[0], f"C20 ({label}): {bad[1]}", {"mode": "csem", "line": cmd})
        elif " stuck 1" in o and " left 0 " not in o:
            blocked_with_token += 1
    # liveness observation, outside the property text (see Props/C20Sem.lean, last example): not judged
    ctx.notes["csem_blocked_waiter_with_token_left"] = ctx.notes.get("csem_blocked_waiter_with_token_left", 0) + blocked_with_token
    if len(il) < len(lines) or rc != 0:
        cmd = lines[min(len(il), len(lines) - 1)]
        why = "hang (timeout)" if rc == -999 else f"rc={rc}"
        ctx.violation("csem-harness-" + ("hang" if rc == -999 else "crash"),
                      f"C20 ({label}): custom-semaphore harness {why} at `{cmd}`: {ierr[-600:]}", {"mode": "csem", "line": cmd})
        return False
    if not diff:
        return ok
    ml = drv_csem(ctx, text).splitlines()
    for cmd, o, m in zip(lines, il, ml):
        if o != m:
            if "csem" not in ctx.diff_ops:
                ctx.broken_correspondence("CustomSem model vs uv__custom_sem_* in src/unix/thread.c",
                                          f"`{cmd}`: impl `{o}` model `{m}`")
                ctx.diff_ops.add("csem")
            return False
    if len(ml) != len(lines):
        ctx.broken_correspondence("CustomSem model vs uv__custom_sem_* in src/unix/thread.c",
                                  f"driver printed {len(ml)} lines for {len(lines)}")
        return False
    ctx.validated(len(lines))
    for cmd, o in zip(lines, il):
        ev = o.split("|")[0]
        if "T0" in ev or "K" in ev or "W" in ev:        # a busy trylock, a cond_wait wake-up, a spurious wake-up
            ctx.nontrivial("csem/" + cmd[5:])
    return ok


# ------------------------------------------------------------------ main
def run(ctx):
    ctx.diff_ops = set()
    ctx.trusted += ["glibc pthread/sem contracts: mutual exclusion, rwlock exclusion, semaphore counting, barrier release and "
                    "SERIAL_THREAD to exactly one waiter, pthread_once, TLS (exercised by contention monitors only)",
                    "pthread_cond_timedwait returns ETIMEDOUT only when the condvar clock (CLOCK_MONOTONIC) has reached abstime",
                    "symbol interposition in the scripted harness (static libuv.a: harness definitions of pthread_*/sem_*/"
                    "clock_gettime/getrlimit64/getpagesize/__sysconf win); SIGABRT caught with siglongjmp to observe abort()",
                    "errno numbering of Linux (EINTR 4, EAGAIN 11, EBUSY 16, EINVAL 22, ETIMEDOUT 110), PTHREAD_BARRIER_SERIAL_THREAD = -1",
                    "clang/ASan/UBSan (TSan in the thorough tier)"]
    ctx.assumptions += ["getpagesize() is a power of two <= 2^63 (stack_size_ok)", "PTHREAD_STACK_MIN < 2^64",
                        "uv_hrtime() < 2^64 ns, i.e. < 584 years of uptime (hrtime_exact)"]
    ctx.trusted += ["tools/gen_lean.py (clang AST -> Lean for the loop-free kernels thread_stack_size, cond_deadline, the try*/timedwait/barrier return-code tables) and UvModel/CSem.lean"]
    # Tie A: regenerate the kernels from /repo; GenEq/C20 re-proves them equal to ThreadArith
    gen_ok = ctx.gen_lean(need=["C20"])
    lean_ok = ctx.require_lean(["UvModel.GenEq.C20", "UvModel.Props.C20", "UvModel.Props.C20Sem"]) and gen_ok
    sexe = ctx.harness("c20_scripted", ["harness/c20_threads.c"])
    rexe = ctx.harness("c20_real", ["harness/c20_threads.c"], extra=["-DC20_REAL"])
    cexe = ctx.harness("c20_csem", ["harness/c20_csem.c"])      # gnu_get_libc_version() = "2.17": the custom semaphore
    if ctx.replay:
        rp = json.loads(Path(ctx.replay).read_text())["replay"]
        if rp.get("mode") == "scripted" and sexe:
            run_scripted(ctx, sexe, [rp["line"]], "replay")
        elif rp.get("mode") == "csem" and cexe:
            run_csem(ctx, cexe, [rp["line"]], "replay", shrink=False)
        elif rp.get("mode") == "real" and rexe:
            if rp["line"].startswith("create-rlim"):
                default_rule_real(ctx, rexe, [rp["line"].split()[1]])
            else:
                run_real(ctx, rexe, [rp["line"]], "replay")
        return
    rng = ctx.rng
    thorough = not ctx.quick
    if sexe:
        corpus = VERIF / "corpus" / "C20" / "scripted.txt"
        if corpus.exists():
            run_scripted(ctx, sexe, [l for l in corpus.read_text().splitlines() if l.strip() and not l.startswith("#")], "corpus")
        codes = gen_codes(rng, thorough)
        run_scripted(ctx, sexe, codes, "code tables (exhaustive 0..134 + outliers)")
        st = gen_stack(rng, ctx.scale(4000, 1000000))
        run_scripted(ctx, sexe, st, "stack size")
        tw = gen_timedwait(rng, ctx.scale(3000, 600000))
        run_scripted(ctx, sexe, tw, "timedwait deadline")
        run_scripted(ctx, sexe, gen_init(rng, thorough), "setup-call failures in init wrappers")
        nsess = 0
        for res in (1, 999999, 1000000, 1000001, 4000000, "fail"):
            for lag in [0, 999999, 3000000] + ([rng.below(4000000)] if thorough else []):
                run_scripted(ctx, sexe, gen_clock_session(rng, res, lag, ctx.scale(12, 400)), f"clock session res={res} lag={lag}")
                nsess += 1
        ctx.notes["clock_sessions"] = nsess
        ctx.sample({"scripted": [codes[20], st[5], st[-1], tw[3], tw[-1]]})
        ctx.notes["scripted_lines"] = {"codes": len(codes), "stack": len(st), "timedwait": len(tw)}
    if cexe:
        corpus = VERIF / "corpus" / "C20" / "csem.txt"
        if corpus.exists():
            run_csem(ctx, cexe, [l for l in corpus.read_text().splitlines() if l.strip() and not l.startswith("#")], "custom semaphore corpus")
        ex = gen_csem_exhaustive(thorough)
        run_csem(ctx, cexe, ex, "custom semaphore, every schedule of 2 threads")
        rnd = gen_csem_random(rng, ctx.scale(4000, 80000))
        run_csem(ctx, cexe, rnd, "custom semaphore, random programs and schedules")
        ctx.notes["csem_cases"] = {"exhaustive": len(ex), "random": len(rnd)}
        ctx.sample({"csem": [ex[len(ex) // 2], rnd[0], rnd[-1]]})
    if rexe:
        prog = real_program(rng, ctx.scale(8, 24), ctx.scale(6000, 20000), ctx.scale(1, 6))
        run_real(ctx, rexe, prog, "contention")
        for tmo, ms in ((U64 - 1, 50), (U64 - 1 - rng.below(10 ** 9), 30), (2 ** 63, 20), (3600 * NS, 20)):
            run_real(ctx, rexe, [f"longwait {tmo} {ms}"], "far deadline")
        sweep = create_sweep(rng, ctx.scale(20, 300))
        run_real(ctx, rexe, sweep, "create sweep")
        default_rule_real(ctx, rexe, ["inf", 5, 8191, 16383, 16384, 20000, 1000000, 1048576, (4 << 20) + 4095, (16 << 20) + 1]
                          + [rng.below(1 << rng.range(10, 26)) for _ in range(ctx.scale(4, 30))])
        ctx.sample({"real": prog[:3] + sweep[:3]})
        ctx.notes["real_threads_x_rounds"] = [ctx.scale(8, 24), ctx.scale(6000, 20000)]
        if thorough:
            texe = ctx.harness("c20_real_tsan", ["harness/c20_threads.c"], variant="tsan", extra=["-DC20_REAL"])
            if texe:
                run_real(ctx, texe, real_program(rng, 12, 4000, 1), "contention under TSan",
                         env={"TSAN_OPTIONS": "halt_on_error=1:exitcode=66"}, timeout=600)
    if (ctx.broken or not lean_ok) and not ctx.violations and sexe:
        # an obligation broke while monitors were green: look for a failing input with the monitors alone
        ctx.log("obligation broken; searching for a failing input with the monitors")
        srng = SplitMix(ctx.seed + 2020)
        ops = ctx.diff_ops or {"stack", "timedwait", "trylock"}
        n = 0
        for _ in range(20):
            L = []
            if "stack" in ops or not ops & {"timedwait"}:
                L += gen_stack(srng, 4000)
            if "timedwait" in ops:
                L += gen_timedwait(srng, 4000)
            if ops - {"stack", "timedwait", "dflt-real"}:
                L += gen_codes(srng, True)
            n += len(L)
            run_scripted(ctx, sexe, L, "search", diff=False)
            if ctx.violations:
                break
        if cexe and not ctx.violations and ("csem" in ctx.diff_ops or not lean_ok):
            for _ in range(10):
                if ctx.violations: break
                run_csem(ctx, cexe, gen_csem_random(srng, 8000), "search: custom semaphore", diff=False)
        if rexe and not ctx.violations:
            run_real(ctx, rexe, create_sweep(srng, 400), "search: create sweep")
            for _ in range(5):
                if ctx.violations: break
                run_real(ctx, rexe, real_program(srng, 16, 3000, 1), "search: contention")
        ctx.notes["search"] = f"{n} extra scripted lines + real sweeps run against the monitors after an obligation broke"
    ctx.cov["rule"] = ("scripted: every errno 0..134 plus outliers for each mapped wrapper (exhaustive code tables); stack size: "
                       "corner requests (0, 1, page±1, minimum±1, 1 MiB+1, 64 MiB, 2^63, SIZE_MAX-page±1, SIZE_MAX) x page size "
                       "4096/16384/65536 x PTHREAD_STACK_MIN x RLIMIT_STACK, then random; deadline: now/timeout pairs around "
                       "10^9 boundaries and around now+timeout = 2^64, then random. non-trivial = request (or rlimit) not a "
                       "multiple of the page size, timeout not a whole second, every mapped code; distinct by (request, pagesize) / "
                       "(wrapper, code). real: N threads x M rounds per primitive with invariant counters; distinct by op line. custom semaphore: "
                       "every schedule string of length 7 (thorough 9) over 2 threads x small programs over wait/trywait/post x initial "
                       "value 0..1 (0..2), then random 2-5 threads x 0-4 operations x schedules of up to 40 choices with spurious "
                       "wake-ups; non-trivial = the trace contains a busy trylock, a cond_wait wake-up or a spurious wake-up")
