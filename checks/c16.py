"""C16 - resource exhaustion and interrupted system calls are survived cleanly.

Proof part: lean/UvModel/Fault.lean (retry combinators, per-op fault atomicity, accounting under
arbitrary fault sequences).  Tie A: retry-shape census of every EINTR retry loop in /repo/src.
Tie B: whole-library fault enumeration (harness/c16_sim.c): every allocation index and every wrapped
system call occurrence of every scenario of the catalogue fails once, with every meaningful errno;
EINTR storms; pairs.  Monitors run inside the harness (return codes, callbacks owed, accounting,
allocator ledger, fd table, LSan/ASan) and here (transcript equality for transparent faults, abort sites).
"""
from vlib import *
import itertools

MANIFEST = {
    "text": "Machine-checked (Lean 4) model of libuv's fault handling: EINTR retry loops are transparent for every "
            "finite interruption prefix, would-block results are deferred to readiness without changing the final trace, "
            "and each accounting-relevant operation (uv_write2, uv_udp_send, uv_fs_* INIT/PATH, uv_queue_work, "
            "uv_getaddrinfo, uv_spawn, bind/connect exits, uv_fs_poll_start, uv_fs_event_start, uv_os_environ) is "
            "fault-atomic: under any single allocation or system call failure it either has its fault-free effect "
            "or returns the mapped UV_E* code leaving request/handle counters and the resource ledger exactly as "
            "before; hence accounting survives arbitrary operation and fault sequences.  Descriptor ownership across a "
            "failed adoption (a TCP handle with remembered TCP_NODELAY / keep-alive options is given a socket by uv_accept, "
            "uv_tcp_open or lazy creation while a setsockopt is refused) is modelled separately: the handle never claims a "
            "number that is not open, so descriptors opened afterwards survive its close.  The model is tied to the "
            "working tree by a census of every EINTR retry loop in the sources and by exhaustive single-fault "
            "enumeration (plus storms and pairs) of the real library over a 33-scenario catalogue (15 subsystem scenarios, "
            "18 remembered-option x adoption-path scenarios) with property "
            "monitors.",
    "note": "Trusted: the interposition layer of harness/c16_sim.c (faults are injected at the libc boundary; "
            "calls libc makes internally, e.g. inside getaddrinfo/scandir/fopen, are not failed), Linux/epoll build "
            "with io_uring disabled in the harness, thread pool of one thread so that occurrence indices are "
            "deterministic.  Not modelled: faults inside the forked child before exec; errno values outside the "
            "property's list.",
    "design": "DESIGN.md §3 C16",
    "technique": "Lean 4 proof over executable model + retry-shape census (Tie A) + fault enumeration with monitors (Tie B)",
}

# adopt:<options>:<path>: a TCP handle with options remembered while it had no socket (uv_tcp_nodelay / uv_tcp_keepalive
# before any socket exists) is given a descriptor through every adoption path; the system calls that apply the remembered
# options during the adoption are fault points like any other (harness: sc_adopt)
ADOPT = [f"adopt:{o}:{p}" for p in ("accept", "ipc", "open", "bind", "listen", "connect") for o in ("nodelay", "keepalive", "both")]
SCENARIOS = ["timers", "tcp", "pipe", "ipc", "udp", "fs_sync", "fs_async", "gai", "work", "spawn", "signal",
             "fs_event", "fs_poll", "poll", "os"] + ADOPT

# errno values that are meaningful for a call (keyed by call, optionally call@kind; kinds: s socket, p pipe,
# e eventfd, i inotify, f file, - none).  write@p / write@e never get EAGAIN: those writes only block when the
# signal pipe / eventfd counter is full, i.e. when a wakeup is already pending, which failing a write on an empty
# pipe cannot imitate.
SOCK_W = ["EINTR", "EAGAIN", "ENOBUFS", "ENOMEM"]
SOCK_R = ["EINTR", "EAGAIN", "ENOMEM"]
NEWFD = ["EMFILE", "ENFILE", "ENOMEM"]
ERRNOS = {
    "read@s": SOCK_R, "read@p": ["EINTR", "EAGAIN"], "read@e": ["EINTR", "EAGAIN"], "read@i": ["EINTR", "EAGAIN"],
    "read@f": ["EINTR"], "read@-": ["EINTR"],
    "write@s": SOCK_W, "write@p": ["EINTR"], "write@e": ["EINTR"], "write@f": ["EINTR"], "write@-": ["EINTR"],
    "readv": ["EINTR"], "readv@s": SOCK_R, "writev": ["EINTR"], "writev@s": SOCK_W,
    "pread": ["EINTR"], "pwrite": ["EINTR"], "preadv": ["EINTR"], "pwritev": ["EINTR"],
    "sendmsg": SOCK_W, "sendmmsg": SOCK_W, "recvmsg": SOCK_R, "recvmmsg": SOCK_R,
    "accept4": ["EINTR", "EAGAIN", "ENOBUFS", "EMFILE", "ENFILE", "ENOMEM"],
    "connect": ["EINTR", "EAGAIN"],
    "socket": ["EMFILE", "ENFILE", "ENOBUFS", "ENOMEM"], "socketpair": ["EMFILE", "ENFILE", "ENOBUFS", "ENOMEM"],
    "open": ["EINTR", "EMFILE", "ENFILE", "ENOMEM"],
    "pipe2": NEWFD, "eventfd": NEWFD, "epoll_create1": NEWFD, "inotify_init1": NEWFD,
    "epoll_ctl": ["EEXIST", "ENOMEM"], "epoll_pwait": ["EINTR"],
    "inotify_add_watch": ["ENOMEM", "ENOSPC"],
    "fcntl": ["EINTR", "EMFILE"], "ioctl": ["EINTR"], "dup2": ["EINTR", "EMFILE"], "dup3": ["EINTR", "EMFILE"],
    "waitpid": ["EINTR"], "poll": ["EINTR"], "nanosleep": ["EINTR"], "fsync": ["EINTR"], "fdatasync": ["EINTR"],
    "ftruncate": ["EINTR"], "close": ["EINTR"], "fork": ["EAGAIN", "ENOMEM"], "statx": ["ENOMEM"],
    "sendfile": ["EINTR", "EAGAIN"], "bind": ["ENOMEM"], "listen": [],
    "setsockopt": ["ENOBUFS", "ENOMEM"],
    # libc-level entry points of the file API (failed as a whole; uv__fs_work retries all of them on EINTR)
    "opendir": ["EINTR", "EMFILE", "ENFILE", "ENOMEM"], "scandir": ["EINTR", "EMFILE", "ENFILE", "ENOMEM"],
    "mkstemp": ["EINTR", "EMFILE", "ENFILE", "ENOMEM"], "readlink": ["EINTR", "ENOMEM"], "realpath": ["EINTR", "ENOMEM"],
    "mkdtemp": ["EINTR", "ENOMEM"], "rename": ["EINTR", "ENOMEM"], "unlink": ["EINTR", "ENOMEM"], "mkdir": ["EINTR", "ENOMEM"],
    "rmdir": ["EINTR", "ENOMEM"], "symlink": ["EINTR", "ENOMEM"], "access": ["EINTR", "ENOMEM"],
}

# abort() is permitted only in these functions (DESIGN §3 C16 / property text: growing the watcher table,
# registering a descriptor with the poller, fs-poll re-arm, inotify re-creation after fork, thread-pool start-up)
# calls whose every occurrence sits in a plain retry loop (one extra call per interruption) or, for close, in none
STORM_EXACT = {"close@s", "close@f", "close@p", "close@e", "close@i", "close@E", "accept4@s", "connect@s", "sendmsg@s",
               "recvmsg@s", "writev@s", "ioctl@s", "fcntl@s", "waitpid@-", "read@s", "write@s"}

ALLOWED_ABORT = {"maybe_resize", "uv__io_poll", "uv__epoll_ctl_flush", "uv__epoll_ctl_prep", "timer_cb", "poll_cb",
                 "uv__inotify_fork", "init_threads", "init_once", "post", "uv__threadpool_cleanup"}


def errnos_for(callkind):
    call = callkind.split("@")[0]
    return ERRNOS.get(callkind, ERRNOS.get(call, []))


def strip_c_comments(t):
    return re.sub(r"/\*.*?\*/", lambda m: re.sub(r"[^\n]", " ", m.group(0)), t, flags=re.S)

CALL = re.compile(r"\b([A-Za-z_]\w*)\s*\(")
NOTCALL = {"if", "while", "for", "switch", "return", "sizeof", "assert", "defined", "do", "UV__ERR", "memset", "memcpy", "abort"}

def census():
    out = []
    files = [REPO / "src" / f for f in SRC_COMMON] + [REPO / "src/unix" / f for f in SRC_UNIX]
    for path in files:
        if not path.exists():
            continue
        txt = strip_c_comments(path.read_text(errors="replace"))
        lines = txt.splitlines()
        # function starts (definitions begin in column 0)
        func_at = []
        cur = None
        for i, l in enumerate(lines):
            m = re.match(r"^[A-Za-z_][\w\s\*]*?\b(\w+)\s*\([^;]*$", l)
            if m and m.group(1) not in NOTCALL:
                cur = m.group(1)
            func_at.append(cur)
        for i, l in enumerate(lines):
            if "EINTR" not in l:
                continue
            shape = None
            if re.search(r"\bwhile\s*\(.*EINTR", l) or (re.search(r"EINTR", l) and i > 0 and re.search(r"\bwhile\s*\($", lines[i-1].strip())):
                shape = "loop"
            elif re.search(r"EINTR\)?\s*\)?\s*$", l) and i + 1 < len(lines) and lines[i + 1].strip().startswith("continue"):
                shape = "continue"
            elif re.search(r"EINTR.*continue", l):
                shape = "continue"
            if shape is None:
                shape = "cond"        # EINTR tolerated without a retry (close, epoll_pwait, partial sendfile)
            # the call being retried: nearest preceding call expression within 12 lines
            call = "?"
            for j in range(i, max(-1, i - 14), -1):
                seg = lines[j] if j < i else l.split("while")[0]
                cands = [c for c in CALL.findall(seg) if c not in NOTCALL]
                if cands:
                    call = cands[0]; break
            out.append((str(path.relative_to(REPO / "src")), func_at[i] or "?", call, shape))
    return out



def check_census(ctx):
    """Tie A: every EINTR retry loop of the sources, as (file, function, call, shape).  Generated into
    lean/UvModel/Generated/RetryCensus.lean (written only when it changes) and compared with the committed
    expectation corpus/C16/retry_census.txt: a site that lost its retry loop is a broken obligation."""
    cur = census()
    lines = [" ".join(e) for e in cur]
    gen = LEAN / "UvModel/Generated/RetryCensus.lean"
    body = ("/-! generated by checks/c16.py from the working tree: every EINTR retry / tolerance site (file, function, call, shape) -/\n"
            "namespace UvModel.Generated\n\ndef retryCensus : List (String × String × String × String) := [\n" +
            ",\n".join(f'  ("{a}", "{b}", "{c}", "{d}")' for a, b, c, d in cur) + "\n]\n\nend UvModel.Generated\n")
    if not gen.exists() or gen.read_text() != body:
        if REPO == Path("/repo"):
            gen.write_text(body)
    exp_file = VERIF / "corpus" / "C16" / "retry_census.txt"
    expected = [l.strip() for l in exp_file.read_text().splitlines() if l.strip() and not l.startswith("#")] if exp_file.exists() else []
    from collections import Counter
    lost = Counter(expected) - Counter(lines)
    new = Counter(lines) - Counter(expected)
    ctx.notes["retry_census"] = {"sites": len(lines), "loops": sum(1 for e in cur if e[3] == "loop"),
                                 "continue": sum(1 for e in cur if e[3] == "continue"),
                                 "tolerated": sum(1 for e in cur if e[3] == "cond"),
                                 "lost": sorted(lost.elements()), "new_unreviewed": sorted(new.elements())}
    for site in sorted(lost.elements()):
        ctx.broken.append(("tie-A", f"retry census: site lost: {site}",
                           "an EINTR retry/tolerance site of corpus/C16/retry_census.txt is no longer in the sources"))
    return sorted(lost.elements())


ENUM = {"EMFILE": 24, "ENFILE": 23, "ENOMEM": 12, "ENOSPC": 28}
ATOMS = ([("write2", [n], f"write2:{n}") for n in (1, 4, 5, 8)] +
         [("udp_send", [n, a], f"udp_send:{n}:{a}") for n in (2, 6) for a in (0, 1)] +
         [("fs", [1, k], f"fs:1:{i}") for i, k in enumerate(("none", "path", "bufs"))] + [("fs", [0, "none"], "fs:0:0")] +
         [("queue_work", [], "queue_work"), ("getaddrinfo", [], "getaddrinfo"), ("pipe_bind", [], "pipe_bind"),
          ("fs_poll_start", [], "fs_poll_start")] +
         [("spawn", [n, h], f"spawn:{n}:{h}") for n in (0, 1, 2, 3) for h in (0, 1)] +
         [("fs_event_start", [w], f"fs_event_start:{w}") for w in (0, 1)] +
         [("environ", [n], f"environ:{n}") for n in (0, 1, 3, 7)])
LABEL_ERRNOS = {"alloc": ["ENOMEM"], "sys:socket": ["EMFILE", "ENOMEM"], "sys:bind": ["ENOMEM"],
                "sys:socketpair": ["EMFILE", "ENFILE"], "sys:fork": ["ENOMEM"], "sys:inotify_add_watch": ["ENOMEM", "ENOSPC"]}


def atom_correspondence(ctx, exe, sym, stats):
    """per-operation fault atomicity: the Lean model (uvdriver c16ops) and the real call, fault point by fault point"""
    cases = []      # (driver line, harness spec, description)
    req = "".join(f"points {op} {' '.join(map(str, ps))}\n" for op, ps, _ in ATOMS)
    pts = ctx.driver(["c16ops"], req).splitlines()
    for (op, ps, hs), pl in zip(ATOMS, pts):
        labels = pl.split()[1:] if pl.startswith("points") else None
        if labels is None:
            ctx.broken_correspondence("c16ops points", f"{op}: {pl}"); continue
        d = f"run {op} {' '.join(map(str, ps))}".rstrip()
        cases.append((d + " fault none", f"atom:{hs}", f"{op}{ps} no fault"))
        seen = {}
        for k, lab in enumerate(labels):
            seen[lab] = seen.get(lab, 0) + 1
            for e in LABEL_ERRNOS.get(lab, []):
                if lab == "alloc":
                    specs = [f"alloc:{seen[lab]}"]
                elif lab == "sys:fork":
                    specs = [f"sys:pipe2:1:{e}", f"sys:fork:1:{e}"]
                else:
                    specs = [f"sys:{lab[4:]}:{seen[lab]}:{e}"]
                for sp in specs:
                    cases.append((f"{d} fault {k} {ENUM[e]}", f"atom:{hs} {sp}", f"{op}{ps} {lab}#{seen[lab]} {e}"))
    model = ctx.driver(["c16ops"], "".join(c[0] + "\n" for c in cases)).splitlines()
    runs = run_batch(ctx, exe, [c[1] for c in cases])
    agree = 0
    for (dline, spec, desc), m, r in zip(cases, model, runs):
        ctx.count(); stats["runs"] += 1
        v = judge(ctx, r, None, sym, stats)
        obs = next((l[2:] for l in r.lines if l.startswith("O ")), None)
        rp = {"scenario": spec.split()[0], "faults": spec.split()[1:]}
        if obs is not None and "rc=-" in obs and " watches=1" in obs and "fs_event_start" in spec:
            v.append(("fs-event-start-enomem-leaks-watch", "uv_fs_event_start returned UV_ENOMEM but the kernel watch added by "
                      "inotify_add_watch is still there (no inotify_rm_watch on the error path, linux.c:2684-2686)"))
        for sig, what in v:
            ctx.violation(sig, f"{desc}: {what}", rp)
        if obs is None:
            if not v:
                ctx.broken_correspondence("c16ops " + desc, "harness printed no observation: " + " | ".join(r.lines[-3:]))
            continue
        if obs == m:
            agree += 1; ctx.validated(); ctx.nontrivial(("atom", desc))
        elif not v:
            ctx.broken_correspondence("c16ops " + desc, f"model `{m}` vs implementation `{obs}`")
            # search: the ordinary monitors already ran on this very run (v is empty), and the enumeration below
            # exercises the same call inside the scenarios
    ctx.notes["per_op_correspondence"] = {"cases": len(cases), "agree": agree}
    ctx.sample({"atom": cases[1][2], "model": model[1] if len(model) > 1 else None})


ERRNO_NUM = {"ENOBUFS": 105, "ENOMEM": 12}

def adopt_correspondence(ctx, bases, by_spec, sym, stats):
    """adoption model (lean/UvModel/Adopt.lean, `uvdriver c16adopt`) against the library: for every adopt scenario the
    setsockopt calls the model lists are the ones the library issues (count), and for the fault-free run and for every
    one of them failing with ENOBUFS / ENOMEM the model's (return code, handle owns a descriptor, open-descriptor delta)
    equals what the harness observed right after the adopting call (`OA` line).  The runs themselves belong to the
    single-fault enumeration; their monitors are evaluated there."""
    req, meta = [], []
    for s in ADOPT:
        _, o, path = s.split(":")
        nd, ka = int(o in ("nodelay", "both")), int(o in ("keepalive", "both"))
        req.append(f"points {path} {nd} {ka}"); meta.append((s, path, nd, ka))
    pts = ctx.driver(["c16adopt"], "\n".join(req) + "\n").splitlines()
    cases = []
    for (s, path, nd, ka), pl in zip(meta, pts):
        if not pl.startswith("points"):
            ctx.broken_correspondence("c16adopt points", f"{s}: {pl}"); continue
        labels = pl.split()[1:]
        pre = 1 if path == "accept" else 0          # SO_REUSEADDR of the listening handle's bind precedes the adoption
        seen = bases[s].counts.get("setsockopt@s", 0)
        if seen != pre + len(labels):
            ctx.broken_correspondence(f"c16adopt {s}", f"the model lists {len(labels)} setsockopt calls ({' '.join(labels)}) "
                                      f"after {pre} earlier ones; the library made {seen}")
            continue
        cases.append((f"run {path} {nd} {ka} fault none", bases[s], f"{s} no fault"))
        for k, lab in enumerate(labels):
            for e, num in ERRNO_NUM.items():
                r = by_spec.get(f"{s} sys:setsockopt@s:{pre + k + 1}:{e}")
                if r is not None:
                    cases.append((f"run {path} {nd} {ka} fault {k} {num}", r, f"{s} {lab} {e}"))
    model = ctx.driver(["c16adopt"], "".join(c[0] + "\n" for c in cases)).splitlines()
    agree = 0
    for (dline, r, desc), m in zip(cases, model):
        ctx.count()
        obs = next((l[3:] for l in r.lines if l.startswith("OA ")), None)
        if obs == m:
            agree += 1; ctx.validated(); ctx.nontrivial(("adopt", desc))
        elif not r.viol and r.abort is None and not r.hang and (r.status or "") in ("code 0", "code 1"):
            # monitors green on this run: the model and the code disagree (the enumeration around it is the search)
            ctx.broken_correspondence("c16adopt " + desc, f"model `{m}` vs implementation `{obs}`")
    ctx.notes["adopt_correspondence"] = {"cases": len(cases), "agree": agree}
    if cases:
        ctx.sample({"adopt": cases[-1][2], "model": model[-1] if model else None})


class Run:
    __slots__ = ("spec", "lines", "status", "viol", "T", "A", "fired", "final", "counts", "init", "abort", "hang")

    def __init__(self, spec):
        self.spec, self.lines, self.status = spec, [], None
        self.viol, self.T, self.A, self.fired, self.final = [], [], [], {}, {}
        self.counts, self.init, self.abort, self.hang = {}, {}, None, False

    def parse(self):
        for l in self.lines:
            if l.startswith("T "): self.T.append(l)
            elif l.startswith("A "): self.A.append(l)
            elif l.startswith("VIOL "): self.viol.append(l[5:])
            elif l.startswith("fired "):
                p = l.split(); self.fired[p[1]] = int(p[2])
            elif l.startswith("count-init "):
                p = l.split(); self.init[p[-2] if p[1] == "sys" else "alloc"] = int(p[-1])
            elif l.startswith("count "):
                p = l.split(); self.counts[p[-2] if p[1] == "sys" else "alloc"] = int(p[-1])
            elif l.startswith("abort-site "): self.abort = l.split()[1]
            elif l.startswith("final stalled"):
                self.final = dict(kv.split("=") for kv in l.split()[1:])
            elif l == "== hang": self.hang = True
        return self


def run_batch(ctx, exe, specs, timeout_s=20):
    """specs: list of 'scenario fault...' strings -> list of Run, executed in NCPU parallel batch processes"""
    if not specs:
        return []
    nproc = min(NCPU, max(1, len(specs) // 4))
    chunks = [specs[i::nproc] for i in range(nproc)]
    env = {"C16_TMP": str(ctx.tmp), "ASAN_OPTIONS": "detect_leaks=1:abort_on_error=0:exitcode=99:symbolize=1",
           "UBSAN_OPTIONS": "print_stacktrace=1:halt_on_error=1:exitcode=98"}

    def one(chunk):
        rc, out, err = ctx.run(exe, ["batch", str(timeout_s)], text="\n".join(chunk) + "\n", env=env,
                               timeout=60 + len(chunk) * 2)
        runs, cur = [], None
        for l in out.splitlines():
            if l.startswith("== run "):
                cur = Run(l[7:]); runs.append(cur)
            elif cur is not None:
                if l.startswith("== exit "):
                    cur.status = l[8:]
                else:
                    cur.lines.append(l)
        return [r.parse() for r in runs]
    with ThreadPoolExecutor(nproc) as ex:
        res = list(ex.map(one, chunks))
    by = {}
    for rs in res:
        for r in rs:
            by.setdefault(r.spec, []).append(r)
    out = []
    for s in specs:
        if by.get(s):
            out.append(by[s].pop(0))
        else:
            r = Run(s); r.status = "missing"; out.append(r)
    return out


def enclosing_function(where):
    """file:line -> name of the C function whose body contains the line (definitions start in column 0)"""
    m = re.match(r"(.+):(\d+)", where)
    if not m:
        return None
    path = m.group(1)
    if not os.path.exists(path) and "/src/" in path:
        # the cached library may have been compiled from another checkout of the same tree content
        path = str(REPO / "src" / path.split("/src/", 1)[1])
    if not os.path.exists(path):
        return None
    lines = open(path, errors="replace").read().splitlines()
    for i in range(min(int(m.group(2)), len(lines)) - 1, -1, -1):
        mm = re.match(r"^[A-Za-z_][\w\s\*]*?\b(\w+)\s*\([^;]*$", lines[i])
        if mm and mm.group(1) not in ("if", "while", "for", "switch", "return"):
            return mm.group(1)
    return None


class Sym:
    """abort-site offsets -> function names (addr2line on the harness binary)"""
    def __init__(self, exe):
        self.exe, self.cache = exe, {}
        self.base = 0
        r = sh(["nm", str(exe)])
        for l in r.stdout.splitlines():
            p = l.split()
            if len(p) == 3 and p[2] == "__executable_start":
                self.base = int(p[0], 16)

    def fn(self, off):
        if off not in self.cache:
            r = sh(["addr2line", "-f", "-i", "-e", str(self.exe), hex(self.base + int(off, 16))])
            ls = [l.strip() for l in r.stdout.splitlines()]
            fns = ls[0::2] or ["?"]
            where = ls[1] if len(ls) > 1 else "?"
            src = enclosing_function(where)          # maybe_resize is inlined: trust the source position
            if src:
                fns = [src] + fns
            ok = [f for f in fns if f in ALLOWED_ABORT]
            self.cache[off] = (ok[0] if ok else fns[0], where)
        return self.cache[off]


def first_failure(run):
    for l in run.A:
        p = l.split()
        if not re.match(r"-?\d+$", p[-1]):
            return re.sub(r"_cb$|\(sync\)$", "", p[1])
    return "none"


def judge(ctx, run, base, sym, stats):
    """monitors evaluated on one run; returns list of (sig, what)"""
    out = []
    scen = run.spec.split()[0]
    faults = run.spec.split()[1:]
    for f, n in run.fired.items():
        stats["fired"][f.split(":")[0] + ":" + (f.split(":")[-1] if f.startswith("sys") else "ENOMEM")] += n
    if run.hang:
        out.append(("hang", "run did not finish (loop blocked with nothing to wake it)"))
    st = run.status or "missing"
    if run.abort is not None:
        fn, where = sym.fn(run.abort)
        stats["aborts"][fn] = stats["aborts"].get(fn, 0) + 1
        if fn not in ALLOWED_ABORT:
            out.append((f"abort:{fn}", f"abort() at {fn} ({where}), not one of the documented unrecoverable sites"))
    elif st == "signal 6" and any("uv__io_poll(" in l and ("errno == EEXIST" in l or "op == EPOLL_CTL_ADD" in l)
                                  for l in run.lines):
        # the debug-build spelling of the documented abort in uv__io_poll (registration with the poller failed)
        stats["aborts"]["uv__io_poll(assert)"] = stats["aborts"].get("uv__io_poll(assert)", 0) + 1
        run.abort = "assert"
    elif run.hang:
        pass
    elif st.startswith("signal"):
        txt = " | ".join(l for l in run.lines if "Assertion" in l or "SUMMARY" in l)[:300]
        key = re.sub(r"[^A-Za-z0-9_]+", "_", (re.findall(r"Assertion `([^']*)'", txt) or [st])[0])[:40]
        out.append((f"crash:{key}", f"terminated by {st} {txt}"))
    elif st in ("code 99", "code 98"):
        summ = [l for l in run.lines if l.startswith("SUMMARY")]
        key = re.sub(r".*Sanitizer: (\S+).* in (\S+).*", r"\1:\2", summ[0]) if summ else "report"
        out.append((f"sanitizer:{safe(key)}", (summ[0] if summ else "sanitizer report")[:300]))
    elif st not in ("code 0", "code 1"):
        if not run.hang:
            out.append((f"harness-status:{safe(st)}", f"unexpected harness status {st}"))
    for v in run.viol:
        kind, _, detail = v.partition(" ")
        key = kind
        if kind == "bad-errcode":
            key = "bad-errcode:" + re.sub(r"_cb$|\(sync\)$", "", detail.split()[0]).replace("fs_pread", "fs_read") + ":" + detail.split()[-1].replace("UV_", "")
            if key in ("bad-errcode:fs_read:EINTR",):
                key = "fs-read-eintr-surfaces"       # listed finding: UV_FS_READ is excluded from the EINTR retry (fs.c uv__fs_work)
        elif kind == "callbacks-owed":
            key = "callbacks-owed:" + detail.split()[0] + ":" + first_failure(run)
        elif kind == "fd-table":
            def objs(part):
                ts = [x.split("=", 1)[1] for x in part.split() if "=" in x]
                return sorted("file" if t.startswith("/") else re.sub(r"^anon_inode:|[\[\]0-9:]+", "", t) for t in ts)
            mb = re.search(r"before\[(.*)\] after\[(.*)\]\s*$", detail)
            b, a = objs(mb.group(1)), objs(mb.group(2))
            for x in b:
                if x in a: a.remove(x)
            from collections import Counter as _C
            key = "fd-leak:" + ("+".join(f"{t}x{n}" if n > 1 else t for t, n in sorted(_C(a).items())) or "lost") + ":" + first_failure(run)
        elif kind == "eintr-timeout-not-reduced":
            key = kind + ":" + detail.split("(")[0]
        elif kind in ("failed-adoption-fd-claimed", "handle-fd-not-open", "adopted-fd-missing"):
            key = kind + ":" + detail.split()[0]              # the adopting call
        elif kind in ("foreign-fd-closed", "foreign-fd-replaced"):
            key = kind + ":" + detail.split(":")[0]           # the adoption path
        elif kind == "close-not-open":
            key = kind + ":" + first_failure(run)
        elif kind in ("alloc-leak", "lsan-leak", "active-reqs", "loop-alive", "loop-close", "stall", "invalid-free"):
            key = kind + ":" + first_failure(run)
        out.append((key, v[:400]))
    # an EINTR storm on one call: each interruption costs exactly one more call (retry_eintr_transparent: n + 1 attempts);
    # close is never retried (the descriptor is gone after the first attempt)
    if base is not None and len(faults) == 1 and faults[0].endswith(":EINTR") and not out and run.abort is None and run.counts:
        ck = faults[0].split(":")[1]
        fired = sum(run.fired.values())
        want = base.counts.get(ck, 0) + (0 if ck.startswith("close") else fired)
        if ck in STORM_EXACT and fired > 0 and run.counts.get(ck, 0) != want and scen in ("tcp", "pipe", "ipc", "udp"):
            out.append((f"retry-count:{ck}", f"{fired} EINTR on {ck}: {run.counts.get(ck, 0)} calls made, expected {want} "
                        f"(fault-free {base.counts.get(ck, 0)})"))
    # transparent faults (EINTR, would-block on data transfer calls): same observable outcome
    fin = run.final
    if fin and run.abort is None and not out:
        transparent = fin.get("hard") == "0" and fin.get("alloc") == "0"
        if transparent and base is not None and sorted(run.T) != sorted(base.T):
            d = next((f"{a!r} vs {b!r}" for a, b in itertools.zip_longest(sorted(base.T), sorted(run.T)) if a != b), "")
            out.append(("transcript-differs", f"transparent faults changed the observable outcome: fault-free {d}"))
        if transparent:
            stats["transparent_runs"] += 1
    return out


def enumerate_singles(base, first):
    """every single fault point of a scenario (the uv_loop_init prefix only for the first scenario)"""
    pts = []
    a0 = 0 if first else base.init.get("alloc", 0)
    for k in range(a0 + 1, base.counts.get("alloc", 0) + 1):
        pts.append(f"alloc:{k}")
    for ck, n in sorted(base.counts.items()):
        if ck == "alloc":
            continue
        n0 = 0 if first else base.init.get(ck, 0)
        for e in errnos_for(ck):
            for i in range(n0 + 1, n + 1):
                pts.append(f"sys:{ck}:{i}:{e}")
    return pts


def storms(base):
    """EINTR storms: the first m occurrences of every interruptible call, and of each call alone"""
    out = []
    calls = [ck for ck in sorted(base.counts) if ck != "alloc" and "EINTR" in errnos_for(ck)]
    for m in (1, 2, 5):
        out.append(" ".join(f"sys:{ck}:1-{m}:EINTR" for ck in calls))
    for ck in calls:
        out.append(f"sys:{ck}:1-3:EINTR")
        out.append(f"sys:{ck}:1-{base.counts[ck]}:EINTR") if False else None
    return [s for s in out if s]


def run(ctx):
    ctx.trusted += ["interposition layer and monitors of harness/c16_sim.c (faults injected at the libc boundary)",
                    "clang ASan/UBSan/LSan", "addr2line (abort-site symbolisation)",
                    "regex retry-shape extractor in checks/c16.py"]
    ctx.assumptions += ["Linux/epoll build, io_uring disabled by the harness (io_uring_setup -> ENOSYS)",
                        "UV_THREADPOOL_SIZE=1 so occurrence indices are deterministic",
                        "libc-level file calls (opendir, scandir, readlink, realpath, mkdtemp, mkstemp, rename, unlink, mkdir, rmdir, symlink, access) are failed as a whole; faults inside getaddrinfo, fopen, getpwuid_r, getifaddrs remain out of reach",
                        "the forked child before exec runs without fault injection"]
    lost = check_census(ctx)          # regenerates Generated/RetryCensus.lean first: Props.C16 proves a theorem about it
    lean_ok = ctx.require_lean(["UvModel.Props.C16", "UvModel.Props.C16Adopt"])
    if lost or not lean_ok:
        ctx.notes["search"] = ("a proof / census obligation no longer checks: the complete single-fault enumeration, EINTR storms on "
                               "every interruptible call and the pair sample below are the search for a failing input")
    exe = ctx.harness("c16_sim", ["harness/c16_sim.c"], link_lib=True, extra=["-rdynamic"])
    if exe is None:
        return
    sym = Sym(exe)
    stats = {"fired": __import__("collections").Counter(), "aborts": {}, "transparent_runs": 0, "runs": 0,
             "not_fired": 0, "stalls": 0}

    if ctx.replay:
        rp = json.load(open(ctx.replay))["replay"]
        spec = rp["scenario"] + " " + " ".join(rp["faults"])
        b = run_batch(ctx, exe, [rp["scenario"]])[0]
        r = run_batch(ctx, exe, [spec.strip()])[0]
        print("\n".join(r.lines)); print("status:", r.status)
        for sig, what in judge(ctx, r, b, sym, stats):
            ctx.violation(sig, what, rp)
        return

    atom_correspondence(ctx, exe, sym, stats)

    # ---- fault-free baselines: determinism, counts
    bases = {}
    rs = run_batch(ctx, exe, [s for s in SCENARIOS for _ in range(3)])
    for i, s in enumerate(SCENARIOS):
        trio = rs[3 * i:3 * i + 3]
        for r in trio:
            ctx.count()
            for sig, what in judge(ctx, r, trio[0], sym, stats):
                ctx.violation(f"fault-free:{s}:{sig}", f"{s} without faults: {what}", {"scenario": s, "faults": []})
        if any(r.counts != trio[0].counts for r in trio):
            ctx.notes.setdefault("nondeterministic_counts", []).append(s)
        bases[s] = trio[0]
    ctx.notes["fault_points_per_scenario"] = {}

    # ---- corpus (past failures / hand-picked) first, then singles, storms, pairs
    specs = []
    corpus = VERIF / "corpus" / "C16" / "cases.txt"
    if corpus.exists():
        specs += [l.strip() for l in corpus.read_text().splitlines() if l.strip() and not l.startswith("#")]
    singles = {}
    for i, s in enumerate(SCENARIOS):
        pts = enumerate_singles(bases[s], first=(i == 0))
        singles[s] = pts
        ctx.notes["fault_points_per_scenario"][s] = len(pts)
        specs += [f"{s} {p}" for p in pts]
        specs += [f"{s} {st}" for st in storms(bases[s])]
    # EINTR that arrives after real time has elapsed (a periodic signal): every epoll_pwait / nanosleep occurrence once,
    # with and without UV_METRICS_IDLE_TIME, plus periodic storms; the harness checks that the call is re-issued with the
    # remaining time only and that the far timer / uv_sleep are not late
    for s in SCENARIOS:
        for ck in ("epoll_pwait@-", "nanosleep@-"):
            for i in range(1, bases[s].counts.get(ck, 0) + 1):
                specs.append(f"{s} sys:{ck}:{i}:EINTR eintr-after:50")
                specs.append(f"{s} sys:{ck}:{i}:EINTR eintr-after:50 idle-metrics")
        specs.append(f"{s} idle-metrics")
    for pct in (10, 30, 50):
        for extra in ("", " idle-metrics"):
            specs.append(f"timers sys:epoll_pwait@-:1-400:EINTR eintr-after:{pct}{extra}")
            specs.append(f"fs_poll sys:epoll_pwait@-:1-400:EINTR eintr-after:{pct}{extra}")
        specs.append(f"os sys:nanosleep@-:1-50:EINTR eintr-after:{pct}")
    if ctx.quick:
        for _ in range(600):
            s = ctx.rng.choice(SCENARIOS)
            if len(singles[s]) >= 2:
                a, b = ctx.rng.choice(singles[s]), ctx.rng.choice(singles[s])
                if a != b:
                    specs.append(f"{s} {min(a, b)} {max(a, b)}")
    else:                                   # thorough: every unordered pair of single faults of every scenario
        for s in SCENARIOS:
            specs += [f"{s} {a} {b}" for a, b in itertools.combinations(singles[s], 2)]
    specs = list(dict.fromkeys(specs))
    ctx.notes["adoption_classes"] = {
        "scenarios": len(ADOPT),
        "setsockopt_fault_points": sum(1 for s in ADOPT for p in singles[s] if p.startswith("sys:setsockopt")),
        "what": "remembered option (nodelay | keepalive | both) x adoption path (uv_accept from a TCP listener, uv_accept over an "
                "IPC pipe, uv_tcp_open, lazy socket creation in uv_tcp_bind / uv_listen / uv_tcp_connect) x every setsockopt "
                "occurrence x {ENOBUFS, ENOMEM}; monitors: a failed adoption leaves the handle without a descriptor, a claimed "
                "descriptor is open, descriptors the application opens afterwards survive the close of every handle, no close() "
                "of a number that is not open"}
    ctx.log(f"{len(specs)} fault runs over {len(SCENARIOS)} scenarios")
    results = run_batch(ctx, exe, specs)
    suspects = []
    adopt_correspondence(ctx, bases, {r.spec: r for r in results}, sym, stats)
    for r in results:
        ctx.count(); stats["runs"] += 1
        scen = r.spec.split()[0]
        v = judge(ctx, r, bases.get(scen), sym, stats)
        nf = sum(r.fired.values())
        if nf == 0 and not v:
            stats["not_fired"] += 1
        else:
            ctx.validated()
            ctx.nontrivial((scen, tuple(sorted(k for k, n in r.fired.items() if n)), tuple(r.A[-3:])))
        if r.final.get("stalled") == "1":
            stats["stalls"] += 1
        if v:
            suspects.append((r, v))
        elif len(r.spec.split()) > 1:
            ctx.sample({"run": r.spec, "fired": r.fired, "outcome": r.T[-1:] or r.A[-1:]})
    # ---- second wave, derived from what the first wave did:
    #  (a) faults inside recovery code: a single fault makes libuv execute calls the fault-free run never makes
    #      (load shedding, undo paths, fallbacks); each such extra occurrence is failed as well, so that the recovery
    #      action itself fails and the scenario then runs on to a further episode / the loop close;
    #  (b) every hard single fault once more under an allocator whose entry points clobber errno (`clobber`): the
    #      reported code must still be the mapping of the injected errno;  plus the fault-free run under `clobber`.
    wave2 = []
    for r in results:
        parts = r.spec.split()
        scen, faults = parts[0], parts[1:]
        if len(faults) != 1 or scen not in bases or not r.counts or r.abort is not None or sum(r.fired.values()) == 0:
            continue
        if faults[0].endswith(":EINTR"):
            continue
        b = bases[scen]
        for ck, n in sorted(r.counts.items()):
            n0 = b.counts.get(ck, 0)
            if ck == "alloc":
                wave2 += [f"{scen} {faults[0]} alloc:{i}" for i in range(n0 + 1, n + 1)]
            else:
                for i in range(n0 + 1, min(n, n0 + 6) + 1):
                    wave2 += [f"{scen} {faults[0]} sys:{ck}:{i}:{e}" for e in errnos_for(ck) if e != "EINTR" or ck.startswith("close")]
        wave2.append(f"{scen} {faults[0]} clobber")
    wave2 += [f"{s} clobber" for s in SCENARIOS]
    wave2 = [w for w in dict.fromkeys(wave2)]
    ctx.notes["second_order"] = {"recovery_fault_runs": sum(1 for w in wave2 if "clobber" not in w),
                                 "clobber_runs": sum(1 for w in wave2 if "clobber" in w)}
    cap = ctx.scale(6000, 10 ** 9)
    if len(wave2) > cap:
        keep = [w for w in wave2 if "clobber" in w]
        rest = [w for w in wave2 if "clobber" not in w]
        while len(keep) < cap and rest:
            keep.append(rest.pop(ctx.rng.below(len(rest))))
        wave2 = keep
    ctx.log(f"{len(wave2)} second-wave runs (faults inside recovery paths, errno-clobbering allocator)")
    for r in run_batch(ctx, exe, wave2):
        ctx.count(); stats["runs"] += 1
        scen = r.spec.split()[0]
        v = judge(ctx, r, bases.get(scen), sym, stats)
        if sum(r.fired.values()) or v:
            ctx.validated()
            ctx.nontrivial((scen, tuple(sorted(k for k, n in r.fired.items() if n)), "clobber" in r.spec, tuple(r.A[-3:])))
        if v:
            suspects.append((r, v))
    # ---- shrink: a multi-fault failure is re-run with each single fault; report the smallest reproducer
    reported = set()
    for r, v in suspects:
        scen, faults = r.spec.split()[0], r.spec.split()[1:]
        for sig, what in v:
            if sig in reported:
                continue
            if sig.split(":")[0] in ("stall", "hang", "timer-late", "sleep-late"):
                # timing-based monitors (watchdog / batch timeout): confirm in isolation, the machine may just be overloaded
                again = [run_batch(ctx, exe, [r.spec])[0] for _ in range(2)]
                if not any(s2 == sig for rr in again for s2, _ in judge(ctx, rr, bases.get(scen), sym, stats)):
                    ctx.notes.setdefault("unconfirmed_timing", []).append(r.spec)
                    continue
            rep = faults
            if len(faults) > 1:
                for f in faults:
                    if f == "clobber":
                        continue
                    if "clobber" in faults:
                        f = f + " clobber"
                    rr = run_batch(ctx, exe, [f"{scen} {f}"])[0]
                    if any(s2 == sig for s2, _ in judge(ctx, rr, bases.get(scen), sym, stats)):
                        rep = f.split(); break
            reported.add(sig)
            ctx.violation(sig, f"scenario {scen} faults {' '.join(rep)}: {what}  "
                               f"[reproduce: python3 tools/check.py C16 --replay <this file>]",
                          {"scenario": scen, "faults": rep})
    ctx.notes["excluded_from_fault_space"] = {
        "EAGAIN on a blocking descriptor": "cannot happen (signal lock pipe, spawn error pipe)",
        "EAGAIN/ENOBUFS on write to the signal pipe or the async eventfd": "only when full, i.e. a wakeup is already pending",
        "EINTR on open() of /proc, /sys, /dev, /etc entries and of directories": "such opens never sleep interruptibly; "
            "uv__open_cloexec does not retry, so uv_cpu_info/uv_resident_set_memory would return UV_EINTR",
        "ENOMEM on EPOLL_CTL_DEL": "removal does not allocate (uv__io_check_fd aborts on it, linux.c:750)",
        "EEXIST on EPOLL_CTL_MOD/DEL": "the kernel only reports it for ADD",
    }
    ctx.notes["modelled_not_flagged"] = [
        "uv_spawn: when fork() itself fails the stdio streams are opened all the same (process.c:1046-1052), the parent pipe "
        "ends stay open inside the caller's uv_pipe_t handles until uv_close (theorem uv_spawn_fork_failure; harness agrees)",
        "uv_pipe_connect2 never returns socket()/connect() failures: delayed_error + callback (theorem pipe_connect2_always_owes_callback)"]
    ctx.notes["faults_fired"] = dict(stats["fired"])
    ctx.notes["abort_sites_hit"] = stats["aborts"]
    ctx.notes["runs"] = {k: stats[k] for k in ("runs", "not_fired", "stalls", "transparent_runs")}
    ctx.cov["rule"] = ("one evaluation = one scenario run under a fault schedule (all single alloc/syscall faults of every "
                       "scenario, EINTR storms, pairs: 600 sampled in the quick tier, all unordered pairs in the thorough tier); distinct = (scenario, faults that fired, last return codes); "
                       "non-trivial = at least one fault fired")
