"""C15 — descriptor hygiene (close-on-exec everywhere, no leaks, never close foreign fds).
Proof: UvModel.Props.C15 over the ledger model UvModel.FdLedger (catalogue of API operations, each
described by the descriptor primitives the code performs on success and on every error exit).
Tie B: harness/c15_sim.c links the working tree's libuv with every fd-creating/closing entry point
(and `syscall`, for SYS_close / io_uring_setup) interposed; programs over the catalogue with scripted
syscall failures run on both sides and every line (creations with their FD_CLOEXEC, closes, return
class, callbacks, owner map read from the real struct fields) is diffed against `uvdriver fdledger`.
Monitors (model-independent, after EVERY API call): /proc/self/fd vs ledger, FD_CLOEXEC of every
libuv-created fd, no close of fds libuv does not own / of 0-2 / of already closed fds, no fd held by
two fields, no unreferenced libuv fd, fd table of a spawned helper, final table = initial + lock pipe."""
import re
from concurrent.futures import ThreadPoolExecutor
from vlib import *

MANIFEST = {
 "text": "Lean 4 theorems over an executable descriptor-ledger model of libuv's unix backend (loop init/close, "
         "tcp/pipe/udp/tty/poll init-open-bind-listen-connect-accept-close, uv_pipe, uv_socketpair, fs open/close/mkstemp/"
         "copyfile, async, signal, fs_event, spawn stdio, IPC descriptor passing, the EMFILE trick; every error exit): every "
         "descriptor libuv leaves open is close-on-exec, libuv closes only descriptors it owns and never 0-2, no descriptor "
         "is held by two fields, every operation on every error exit leaves no orphan / forgotten local (`clean_always`), and "
         "after closing all handles and uv_loop_close only the process-wide signal lock pipe remains (`no_leak`, proved at "
         "full strength by induction over operation sequences). The model is tied to the working tree by running the real library with all descriptor syscalls "
         "interposed (and failures injected at scripted occurrences) and diffing every line; independent monitors inspect "
         "/proc/self/fd and FD_CLOEXEC after every call and the fd table of spawned helpers.",
 "note": "Trusted: Lean kernel; the interposition harness (static link: socket/socketpair/accept4/pipe2/open/openat/dup*/"
         "fcntl/eventfd/epoll_create1/inotify_init1/close/recvmsg/syscall defined in the harness); /proc/self/fd; clang/ASan. "
         "Descriptors created behind libc (mkostemp) are seen through /proc diffs only. Not modelled: uv_loop_fork, kqueue/"
         "macOS paths, SQPOLL io_uring ring (UV_USE_IO_URING), thread-pool (async) fs requests, ENOMEM in "
         "uv__stream_queue_fd (C16), real ttys (no /dev/pts in the sandbox: uv_tty_init covered for pipe/socket fds only). "
         "Readiness order between several simultaneously ready servers is avoided by the generator. The harness is built "
         "twice, against the assert-enabled and the -DNDEBUG library (an assertion that stops a wrong close in one build "
         "lets it through in the other); fork() refusals (EAGAIN/ENOMEM) are injected like the descriptor syscalls.",
 "design": "DESIGN.md §3 C15",
 "technique": "Lean 4 proof over executable model + correspondence (whole-library syscall interposition, fault injection) + monitors",
}

KNOWN_SIGS = {  # monitor line -> stable signatures of defects found with this check (all repaired in /repo)
    "spawn": "spawn-open-stream-ebusy-double-close",
    "udp-stdio": "udp-handle-on-stdio-fd-closed",
    "loop-init": "loop-init-failure-leaks-backend-fd",
}


# ----------------------------------------------------------------------------- oracle-driven generation
class Gen:
    """Builds a program op by op; after each op asks the model (uvdriver fdledger-gen) for the state so
    that descriptor ids / handle states used by later ops exist."""
    def __init__(self, ctx, rng, nops, bias=None):
        self.ctx, self.rng, self.nops, self.bias = ctx, rng, nops, bias
        self.lines = []
        self.ukind = {}      # user fd id -> harness kind
        self.peer = {}       # sockpair ends
        self.polled = set()
        self.stdio_placed = set()   # user descriptors sitting on kernel numbers 0/1
        self.forked = 0          # number of fork ops so far (the child carries the program on)
        self.used_async = False  # the thread pool does not survive fork(): no async request before or after one
        self.inherited = set()   # handles handed to a child with UV_INHERIT_STREAM (their socket became blocking)
        self.query()

    def query(self):
        out = self.ctx.driver(["fdledger-gen"], "\n".join(self.lines) + "\n") if self.lines else ""
        own, hs, loop = {}, [], 0
        for ln in out.splitlines():
            if ln.startswith("own"):
                own = dict(x.split(":") for x in ln.split()[1:])
            elif ln.startswith("hs"):
                body, lp = ln[2:].split("|")
                loop = int(lp.strip().split("=")[1])
                hs = []
                for t in body.split():
                    k, st, lis, bnd, ipc, rd, con, pend, dly, rding, infl, opt = t.split(",")
                    hs.append(dict(kind=k, st=st, listening=lis == "1", bound=bnd == "1", ipc=ipc == "1", readable=rd == "1",
                                   connected=con == "1", pending=int(pend), delayed=dly == "1", reading=rding == "1", inflight=int(infl),
                                   opts=opt == "1"))
        self.own, self.hs, self.loop = own, hs, loop

    def emit(self, *ls):
        before = set(self.own)
        self.lines += list(ls)
        self.query()
        return [int(f[1:]) for f in sorted(set(self.own) - before, key=lambda f: int(f[1:]))]

    # helpers over the oracle state
    def live(self, kind=None):
        return [i for i, h in enumerate(self.hs) if h["st"] == "live" and (kind is None or h["kind"] == kind)]
    def has_io(self, i):
        return any(o == f"h{i}.io" for o in self.own.values())
    def has_acc(self, i):
        return any(o == f"h{i}.acc" for o in self.own.values())
    def users(self, kinds=None):
        return [int(f[1:]) for f, o in self.own.items() if o == "U" and int(f[1:]) in self.ukind
                and (kinds is None or self.ukind[int(f[1:])] in kinds)]
    def quiet_loop(self):
        """nothing would happen in an extra uv_run: async fs requests turn the loop until their callback ran"""
        return not self.forked and not self.busy() and not any(h["st"] == "closing" or (h["kind"] == "proc" and h["st"] == "live") or
                                           (h["st"] == "live" and h["connected"]) for h in self.hs)
    def busy(self):
        return any(h["st"] == "live" and (h["pending"] > 0 or h["inflight"] > 0) for h in self.hs)

    def maybe_fail(self, choices, p=4):
        """choices: list of (syscall, occurrence, [errnos])"""
        if choices and self.rng.below(p) == 0:
            s, k, es = self.rng.choice(choices)
            return [f"fail {s} {k} {self.rng.choice(es)}"]
        return []

    def loop_init(self):
        f = self.maybe_fail([("epoll_create1", 1, [24, 23, 12]), ("io_uring_setup", 1, [38, 1, 12]),
                             ("pipe2", 2 if not getattr(self, "lock", False) else 1, [24, 23]), ("eventfd", 1, [24, 23, 12])], 3)
        self.emit(*f, "loop_init")
        if any(o == "G" for o in self.own.values()):
            self.lock = True

    def one(self):
        r, rng = self.rng.below(100), self.rng
        b = self.bias
        if b and rng.below(3) == 0:
            r = {"spawn": 95, "accept": 40, "ipc": 60, "stdio": 20, "fs": 88, "bind": 30, "misc": 92}.get(b, r)
        # fork(): the child calls uv_loop_fork and runs the rest of the program (no spawned child still alive, no thread pool)
        if (self.forked < 2 and not self.used_async and rng.below(8 if b == "fork" else 45) == 0 and not self.busy()
                and not any(h["kind"] == "proc" and h["st"] in ("live", "closing") for h in self.hs)):
            self.forked += 1
            return self.emit("fork")
        if not self.loop:
            if rng.below(4) == 0:
                return self.emit(rng.choice(["uv_pipe 1 0", "uv_socketpair 0 0", "ufd pipe"]))
            return self.loop_init()
        em = [("open", 1, [24, 23]), ("open", 2, [24])]
        if r < 8:
            self.emit(*self.maybe_fail(em + [("socket", 1, [24, 23, 97])]), "tcp_init " + rng.choice(["unspec", "unspec", "inet"]))
        elif r < 14:
            self.emit(*self.maybe_fail(em), "pipe_init " + rng.choice(["0", "0", "1"]))
        elif r < 18:
            self.emit(*self.maybe_fail([("socket", 1, [24, 105])]), "udp_init " + rng.choice(["unspec", "inet"]))
        elif r < 24:                                                   # user descriptors, sometimes placed on stdio numbers
            kind = rng.choice(["tcpsock", "udpsock", "unixsock", "pipe", "sockpair", "sockpair", "file"])
            at = ""
            if (b == "stdio" or rng.below(4) == 0) and not any(self.own.get(f"f{i}") for i in ()):
                at = " at=" + str(rng.below(3))
            new = self.emit(f"ufd {kind}{at}")
            if at and new:
                self.stdio_placed.add(new[0])
            for n in new:
                self.ukind[n] = kind
            if kind == "sockpair" and len(new) == 2:
                self.peer[new[0]], self.peer[new[1]] = new[1], new[0]
        elif r < 32:                                                   # uv_*_open
            hk = rng.choice(["tcp", "pipe", "udp", "pipe", "tcp"])
            hs = self.live(hk)
            if hs:
                h = rng.choice(hs)
                fk = {"tcp": ["tcpsock"], "pipe": ["unixsock", "sockpair", "pipe"], "udp": ["udpsock"]}[hk]
                if hk == "tcp" and self.hs[h]["opts"]:
                    # deferred TCP_NODELAY / keep-alive: also descriptors on which the option cannot be set
                    fk = ["tcpsock", "unixsock", "udpsock", "sockpair", "tcpsock"]
                fs = [f for f in self.users(fk) if f not in self.polled]     # a polled fd is refused with UV_EEXIST
                if not fs and hk == "tcp" and self.hs[h]["opts"]:
                    new = self.emit("ufd " + rng.choice(["unixsock", "tcpsock", "udpsock"]))
                    for n_ in new:
                        self.ukind[n_] = self.lines[-1].split()[1]
                    fs = new
                if fs:
                    inj = self.maybe_fail([("nodelay", 1, [1, 22])], 3) if hk == "tcp" and self.hs[h]["opts"] else []
                    self.emit(*inj, f"open h{h} f{rng.choice(fs)}")
                    if rng.below(3) == 0 and self.hs[h]["st"] == "live":
                        self.emit(f"close h{h}")        # a failed open must leave the descriptor to the caller
        elif r < 42:                                                   # bind
            # only handles whose socket (if any) libuv created itself and has not bound/connected yet: the return
            # code of bind(2) on adopted / accepted / connected sockets depends on kernel state the model does not track
            hs = [i for i in self.live("tcp") + self.live("pipe") + self.live("udp")
                  if not self.hs[i]["readable"] and not self.hs[i]["connected"] and not self.hs[i]["bound"]
                  and i not in self.inherited]
            if hs:
                h = rng.choice(hs); k = self.hs[h]["kind"]
                var = rng.choice(["ok", "ok", "bad", "same"])
                if var == "same":
                    if k == "tcp":
                        cands = [i for i in self.live("tcp") if self.hs[i]["listening"] and i != h]
                    else:
                        cands = [i for i in self.live(k) if self.hs[i]["bound"] and self.has_io(i) and i != h]
                    if not cands:
                        var = "ok"
                    else:
                        var = f"same h{rng.choice(cands)}"
                if k == "udp" and var.startswith("same") and self.hs[h]["bound"]:
                    var = "bad"
                inj = self.maybe_fail([("socket", 1, [24, 23])])
                if k == "tcp" and self.hs[h]["opts"] and not inj:
                    inj = self.maybe_fail([("nodelay", 1, [1, 22])], 2)
                self.emit(*inj, f"bind h{h} {var}")
        elif r < 48:
            hs = [i for i in self.live("tcp") + self.live("pipe") if not self.hs[i]["connected"] and not self.hs[i]["readable"]
                  # uv_listen on a server that still holds an un-accepted connection re-arms POLLIN and trips
                  # assert(stream->accepted_fd == -1) in uv__server_io (reported separately): not generated
                  and not self.hs[i]["listening"] and i not in self.inherited]
            if hs:
                h = rng.choice(hs)
                self.emit(*self.maybe_fail([("socket", 1, [24])]), f"listen h{h}")
                if self.hs[h]["listening"]:
                    self.emit(f"policy h{h} " + rng.choice(["accept", "accept", "hold"]))
        elif r < 60:                                                   # connect (+ run: one readiness source at a time)
            k = rng.choice(["tcp", "pipe"])
            cl = [i for i in self.live(k) if not self.hs[i]["connected"] and not self.hs[i]["listening"] and not self.hs[i]["readable"]]
            sv = [i for i in self.live(k) if self.hs[i]["listening"]]
            if not cl:
                self.emit(f"{k}_init " + ("unspec" if k == "tcp" else "0"))
                cl = [len(self.hs) - 1]
            if self.busy():
                return self.emit("run")
            tgt = f"h{rng.choice(sv)}" if sv and rng.below(5) else "nowhere"
            n = 1 if tgt == "nowhere" else rng.range(1, 3)
            for _ in range(n):
                if not cl:
                    break
                c = cl.pop()
                self.emit(*self.maybe_fail([("socket", 1, [24, 23])]), f"connect h{c} {tgt}")
            inj = self.maybe_fail([("accept4", 1, [24, 23, 24, 103, 4]), ("accept4", 2, [24, 11]), ("open", 1, [24])], 2) if tgt != "nowhere" else []
            if inj and inj[0].startswith("fail accept4 1 2") and rng.below(2):
                inj += self.maybe_fail([("open", 1, [24]), ("accept4", 3, [24])], 2)
            self.emit(*inj, "run")
        elif r < 64:                                                   # explicit uv_accept of a held connection / descriptor
            sv = [i for i in self.live() if self.has_acc(i)]
            if sv:
                s = rng.choice(sv); k = self.hs[s]["kind"]
                cands = self.live(k) if rng.below(4) else self.live()
                cands = [c for c in cands if c != s and self.hs[c]["kind"] in ("tcp", "pipe", "udp")]
                if not cands or rng.below(2):
                    self.emit(f"{k}_init " + ("unspec" if k == "tcp" else "0") if k in ("tcp", "pipe") else "pipe_init 0")
                    cands = [len(self.hs) - 1]
                self.emit(f"accept h{s} h{rng.choice(cands)}")
        elif r < 72:                                                   # IPC descriptor passing
            ipcs = [i for i in self.live("pipe") if self.hs[i]["ipc"] and self.has_io(i)]
            good = []
            for i in ipcs:
                io = [int(f[1:]) for f, o in self.own.items() if o == f"h{i}.io"]
                if io and io[0] in self.peer and self.own.get(f"f{self.peer[io[0]]}") == "U":
                    good.append((i, self.peer[io[0]]))
            if not good:
                new = self.emit("ufd sockpair")
                if len(new) == 2:
                    for n in new:
                        self.ukind[n] = "sockpair"
                    self.peer[new[0]], self.peer[new[1]] = new[1], new[0]
                    self.emit("pipe_init 1")
                    h = len(self.hs) - 1
                    self.emit(f"open h{h} f{new[0]}")
                    self.emit(f"read_start h{h}")
                    self.emit(f"policy h{h} " + rng.choice(["accept", "hold", "accept"]))
            elif not self.busy():
                h, pf = rng.choice(good)
                if not self.hs[h]["reading"]:
                    self.emit(f"read_start h{h}")
                kinds = " ".join(rng.choice(["tcp", "udp", "unix"]) for _ in range(rng.range(1, 4)))
                self.emit(f"ipc_send f{pf} h{h} {kinds}")
                self.emit(*self.maybe_fail(em), "run")
        elif r < 78:
            hs = self.live()
            if hs:
                self.emit(f"close h{rng.choice(hs)}")
        elif r < 81:
            self.emit("run")
        elif r < 84:
            self.emit(*self.maybe_fail([("pipe2", 1, [24, 23])]), f"uv_pipe {rng.below(2)} {rng.below(2)}")
        elif r < 86:
            self.emit(*self.maybe_fail([("socketpair", 1, [24, 23])]), f"uv_socketpair {rng.below(2)} {rng.below(2)}")
        elif r < 90:
            v = rng.below(6)
            if v < 3:
                asy = " async" if self.quiet_loop() and rng.below(2) == 0 else ""
                self.used_async = self.used_async or bool(asy)
                self.emit(*self.maybe_fail([("open", 1, [24, 13])]), "fs_open " + rng.choice(["ok", "creat", "missing"]) + asy)
            elif v == 3:
                self.emit("fs_mkstemp")
            elif v == 4:
                asy = " async" if self.quiet_loop() and rng.below(2) == 0 else ""
                self.used_async = self.used_async or bool(asy)
                self.emit(*self.maybe_fail([("open", 1, [24]), ("open", 2, [24, 13])], 3), "fs_copyfile " +
                          rng.choice(["ok", "missing", "same", "link", "exists", "excl", "ficlone"]) + asy)
            else:
                fs = [int(f[1:]) for f, o in self.own.items() if o == "U" and int(f[1:]) not in self.ukind]
                if fs:
                    self.emit(f"fs_close f{rng.choice(fs)}")
        elif r < 93:
            v = rng.below(9)
            if v == 8 and not self.busy():                              # a full descriptor queue on an IPC pipe, allocation failures
                ipcs = []
                for i in self.live("pipe"):
                    if self.hs[i]["ipc"] and self.hs[i]["reading"]:
                        io = [int(f[1:]) for f, o in self.own.items() if o == f"h{i}.io"]
                        if io and io[0] in self.peer and self.own.get(f"f{self.peer[io[0]]}") == "U":
                            ipcs.append((i, self.peer[io[0]]))
                if ipcs:
                    h, pf = rng.choice(ipcs)
                    self.emit(f"policy h{h} " + rng.choice(["hold", "hold", "accept"]))
                    kinds = " ".join(rng.choice(["tcp", "udp", "unix"]) for _ in range(rng.choice([2, 3, 9, 10, 12])))
                    self.emit(f"ipc_send f{pf} h{h} {kinds}")
                    self.emit(*self.maybe_fail([("malloc", 1, [12]), ("realloc", 1, [12]), ("malloc", 1, [12])], 2), "run")
            elif v == 7:                                                  # socket options, deferred when there is no socket yet
                ts = self.live("tcp")
                if not ts or rng.below(3) == 0:
                    self.emit("tcp_init " + rng.choice(["unspec", "unspec", "inet"])); ts = [len(self.hs) - 1]
                if self.hs[ts[-1]]["st"] == "live":
                    self.emit(*self.maybe_fail([("nodelay", 1, [1])], 5), rng.choice(["nodelay", "nodelay", "keepalive"]) + f" h{rng.choice(ts)}")
            elif v == 6:                                                # calls outside the catalogue: monitors only
                self.emit("util " + rng.choice(["cpu_info", "exepath", "memory", "uptime", "ifaddrs", "random", "passwd",
                                                "scandir", "readdir", "stat", "realpath", "mkdtemp"]))
            elif v == 5:                                                # a full backlog (more than any per-wakeup batch)
                sv = [i for i in self.live("tcp") + self.live("pipe") if self.hs[i]["listening"]]
                if sv and not self.busy() and sum(h["pending"] for h in self.hs) < 80:
                    s_ = rng.choice(sv)
                    self.emit(f"policy h{s_} " + rng.choice(["hold", "hold", "accept"]))
                    self.emit(f"flood h{s_} {rng.choice([2, 5, 31, 32, 33, 40, 70])}")
                    inj = self.maybe_fail([("accept4", 1, [24, 23]), ("accept4", 2, [24]), ("accept4", 33, [24, 11])], 2)
                    if inj and inj[0].startswith("fail accept4 1") and rng.below(2):
                        inj += self.maybe_fail([("open", 1, [24])], 2)
                    self.emit(*inj, "run")
            elif v == 0:
                self.emit("async_init")
            elif v == 1:
                self.emit("signal_start 10")
            elif v == 2:
                self.emit(*self.maybe_fail([("inotify_init1", 1, [24, 23])]), "fs_event_start " + rng.choice(["ok", "bad"]))
            elif v == 3:
                fs = [f for f in self.users() if f not in self.polled]
                if fs:
                    f = rng.choice(fs); self.polled.add(f)
                    self.emit(*self.maybe_fail(em), f"tty_init f{f}")
            else:
                fs = [f for f in self.users() if f not in self.polled]
                if fs:
                    f = rng.choice(fs); self.polled.add(f)
                    self.emit(f"poll_init f{f}")
        elif r < 94:
            fs = [f for f in self.users() if f not in self.polled]
            if fs:
                self.emit(f"uclose f{rng.choice(fs)}")
        else:                                                          # spawn a helper that reports its fd table
            pipes = self.live("pipe")
            def cont():
                v = rng.below(5)
                if v == 0 or (v < 3 and not pipes):
                    return "i"
                if v < 3:
                    if rng.below(3) == 0 or not any(not self.has_io(p) for p in pipes):
                        self.emit("pipe_init 0"); pipes.append(len(self.hs) - 1)
                        return f"h{len(self.hs) - 1}"
                    free = [p for p in pipes if not self.has_io(p)]
                    return f"h{rng.choice(free if rng.below(6) else pipes)}"
                if rng.below(2):          # UV_INHERIT_STREAM: a stream handle, with or without a descriptor (-> UV_EINVAL)
                    # not a (future) listener: the child's uv__nonblock_fcntl(fd, 0) clears O_NONBLOCK on the shared open
                    # file description, and uv__emfile_trick's accept loop then blocks for ever (noted lead, not C15)
                    st = [h for h in self.live("tcp") + self.live("pipe") + self.live("tty")
                          if not self.hs[h]["listening"] and not self.hs[h]["bound"]]
                    if st:
                        withfd = [h for h in st if self.has_io(h)]
                        pick = rng.choice(withfd if withfd and rng.below(4) else st)
                        self.inherited.add(pick)
                        return f"s{pick}"
                us = [f for f in self.users() if f not in self.polled and self.ukind.get(f) != "file"]
                low = [f for f in us if f in self.stdio_placed]      # source number below the slot index (2>&1 and the like)
                if low and rng.below(2):
                    return f"f{rng.choice(low)}"
                return f"f{rng.choice(us)}" if us else "i"
            c0, c2 = cont(), cont()
            c3 = cont() if rng.below(3) == 0 else "-"
            if c3 == "i":
                c3 = "-"
            inj = self.maybe_fail([("socketpair", 1, [24]), ("socketpair", 2, [24, 23]), ("socketpair", 3, [24]), ("pipe2", 1, [24, 23]),
                                   ("fork", 1, [11, 12]), ("fork", 1, [11])], 3)
            self.emit(*inj, f"spawn {rng.choice(['ok', 'ok', 'ok', 'missing'])} {c0} {c2} {c3}")
            if rng.below(2):
                self.emit("run")

    def finish(self):
        if self.loop:
            for _ in range(3):
                if not self.busy():
                    break
                self.emit("run")
            # close every live handle, including those the accept policies created during `run`; repeat because the
            # `run` that completes the closes may itself accept more
            for _ in range(4):
                live = self.live()
                if not live:
                    break
                for i in live:
                    self.emit(f"close h{i}")
                self.emit("run")
            self.emit("run")
            self.emit("loop_close")
        if not self.loop and self.rng.below(4) == 0:   # a second loop in the same process (only after a successful close):
            self.loop_init()                            # the lock pipe is not recreated
            if self.loop:
                self.emit("tcp_init inet"); self.emit(f"close h{len(self.hs) - 1}"); self.emit("run"); self.emit("loop_close")
        self.emit("end")

    def build(self):
        while len(self.lines) < self.nops:
            self.one()
        self.finish()
        return "\n".join(self.lines) + "\n"


# ----------------------------------------------------------------------------- exhaustive small scopes
def stdio_matrix():
    """every handle type that can wrap a caller's descriptor x every kind of descriptor it accepts x the descriptor sitting
    on number 0, 1, 2 or an ordinary number: wrap, uv_close, run, loop_close; judged by the monitors (the descriptor is
    still open, still the same open file, nobody called close on 0-2) and diffed against the model"""
    pairs = [("tcp", "tcpsock"), ("pipe", "unixsock"), ("pipe", "pipe"), ("pipe", "sockpair"), ("udp", "udpsock"),
             ("tty", "tcpsock"), ("tty", "pipe"), ("tty", "unixsock"), ("poll", "tcpsock"), ("poll", "udpsock"), ("poll", "pipe")]
    progs = []
    for hk, fk in pairs:
        for at in ("", " at=0", " at=1", " at=2"):
            ls = [f"ufd {fk}{at}", "loop_init"]
            if hk in ("tcp", "pipe", "udp"):
                ls += [{"tcp": "tcp_init unspec", "pipe": "pipe_init 0", "udp": "udp_init unspec"}[hk], "open h0 f0"]
            else:
                ls += [f"{hk}_init f0"]
            ls += ["close h0", "run", "loop_close", "end"]
            progs.append("\n".join(ls) + "\n")
    return progs


def spawn_fault_matrix():
    """uv_spawn over stdio shapes x {no fault, each socketpair of the stdio set-up, the exec-synchronisation pipe, fork()
    refused with EAGAIN / ENOMEM} x {program exists, exec fails}: ledger after the call, after closing everything, at the end"""
    shapes = [("h0", "i", "-", 1), ("h0", "h1", "-", 2), ("i", "h0", "h1", 2), ("h0", "h1", "h2", 3), ("f0", "h0", "-", 1), ("i", "i", "-", 0)]
    progs = []
    for c0, c2, c3, np in shapes:
        faults = [None, ("pipe2", 1, 24), ("fork", 1, 11), ("fork", 1, 12)] + [("socketpair", k, 24) for k in range(1, np + 1)]
        for f in faults:
            for exe in ("ok", "missing"):
                if exe == "missing" and f and f[0] != "fork":
                    continue
                ls = ["ufd pipe"] if c0 == "f0" else []
                ls += ["loop_init"] + ["pipe_init 0"] * np
                if f:
                    ls.append(f"fail {f[0]} {f[1]} {f[2]}")
                ls += [f"spawn {exe} {c0} {c2} {c3}", "run"] + [f"close h{i}" for i in range(np)] + ["run", "loop_close", "end"]
                progs.append("\n".join(ls) + "\n")
    return progs


# ----------------------------------------------------------------------------- running and judging one program
def strip(out):
    return [l for l in out.splitlines() if not l.startswith("#") and not l.startswith("done ")]


def classify(mon_line, prog):
    """stable signature for a monitor line: monitor kind + op that was running"""
    kind = mon_line.split()[1]
    return kind


def run_case(ctx, exe, prog, idx):
    d = ctx.tmp / f"case{idx}"
    shutil.rmtree(d, ignore_errors=True); d.mkdir()
    rc, out, err = ctx.run(exe, [str(d)], text=prog, timeout=30, env={"ASAN_OPTIONS": "detect_leaks=0:abort_on_error=0:exitcode=99"})
    if rc == -999:        # a time-out on a loaded machine is not a verdict: once more, alone, with a generous limit
        shutil.rmtree(d, ignore_errors=True); d.mkdir()
        rc, out, err = ctx.run(exe, [str(d)], text=prog, timeout=240, env={"ASAN_OPTIONS": "detect_leaks=0:abort_on_error=0:exitcode=99"})
    shutil.rmtree(d, ignore_errors=True)
    return rc, out, err


def judge(ctx, prog, rc, out, err):
    """returns (monitor_violations [(sig, what)], impl_lines)"""
    lines = strip(out)
    viols = []
    cur = ckind = cstdio = ""
    for l in out.splitlines():
        if l.startswith("op "):
            cur = l[3:]; ckind = cstdio = ""
        elif l.startswith("# close kind="):
            ckind = l.split("=")[1]
        elif l.startswith("# close stdio="):
            cstdio = l.split("=")[1]
        elif l.startswith("MONITOR "):
            kind = l.split()[1]
            opname = cur.split()[0] if cur else "?"
            sig = f"{kind.lower()}-in-{opname}"
            if kind == "FOREIGN-CLOSE" and opname == "spawn" and "double close" in l:
                sig = KNOWN_SIGS["spawn"]
            if kind in ("STDIO-CLOSE", "FD-VANISHED", "FD-REPLACED") and opname == "close":
                sig = KNOWN_SIGS["udp-stdio"] if ckind == "udp" else "stdio-fd-closed-by-uv_close"
            if kind == "LEAK" and opname == "loop_init":
                sig = KNOWN_SIGS["loop-init"]
            viols.append((sig, f"{l[8:]}  (during `{cur}`)"))
    if rc not in (0, 3) or not any(l.startswith("done ") for l in out.splitlines()):
        opname = cur.split()[0] if cur else "start"
        sig = f"crash-in-{opname}"
        if opname == "close" and ("STDERR_FILENO" in err or cstdio):   # (with a caller descriptor on number 2 the message is lost)
            sig = KNOWN_SIGS["udp-stdio"] if ckind == "udp" else "stdio-fd-closed-by-uv_close"
        tail = " | ".join(err.strip().splitlines()[:6])[:500]
        viols.append((sig, f"harness died (rc={rc}) during `{cur}`: {tail}"))
    return viols, lines


def shrink(ctx, exe, prog, sig):
    """delta-debug over program lines, keeping the monitor signature"""
    lines = prog.strip().splitlines()
    def bad(ls):
        p = "\n".join(ls) + "\n"
        import threading
        rc, out, err = run_case(ctx, exe, p, f"s{threading.get_ident()}")
        v, _ = judge(ctx, p, rc, out, err)
        ol = out.splitlines()
        if any(a.startswith("op loop_init") and b == "bad-op" for a, b in zip(ol, ol[1:])):
            return False          # loop_init over a live loop is not a program of the catalogue
        return any(s == sig for s, _ in v)
    n = 2
    while len(lines) >= 2 and n <= len(lines) * 2:
        chunk = max(1, len(lines) // n)
        removed = False
        for i in range(0, len(lines), chunk):
            cand = lines[:i] + lines[i + chunk:]
            if cand and bad(cand):
                lines, removed = cand, True
                break
        if not removed:
            if chunk == 1:
                break
            n *= 2
    return "\n".join(lines) + "\n"


def check_program(ctx, exe, prog, idx, stats, do_diff=True, variant="asan"):
    rc, out, err = run_case(ctx, exe, prog, idx)
    viols, impl = judge(ctx, prog, rc, out, err)
    ctx.count()
    for sig, what in viols:
        if sig in ctx.known or any(v["sig"] == sig for v in ctx.violations):
            ctx.violation(sig, what, {"program": prog, "variant": variant})
            continue
        # shrinking is expensive: do it for the first few signatures only
        small = shrink(ctx, exe, prog, sig) if len(ctx.violations) < 3 else prog
        ctx.violation(sig, what, {"program": small, "full_program": prog, "variant": variant})
    fired = sum(1 for l in impl if l.startswith("env fail "))
    stats["faults_fired"] += fired
    stats["api_calls"] += sum(1 for l in impl if l.startswith("op "))
    stats["fd_created"] += sum(1 for l in impl if l.startswith("env fd+") and "cx=u" not in l)
    stats["fd_closed"] += sum(1 for l in impl if l.startswith("env fd-"))
    for l in impl:
        if l.startswith("op "):
            stats["ops"][l.split()[1]] = stats["ops"].get(l.split()[1], 0) + 1
        if l.startswith("env fail "):
            stats["faults"][l.split()[2]] = stats["faults"].get(l.split()[2], 0) + 1
    if "# childfds" in out:
        stats["children_checked"] += out.count("# childfds")
    diff = None
    if do_diff:
        model = strip(ctx.driver(["fdledger"], prog))
        if model != impl:
            for i in range(max(len(model), len(impl))):
                a = impl[i] if i < len(impl) else "<eof>"
                b = model[i] if i < len(model) else "<eof>"
                if a != b:
                    opl = [l for l in impl[:i + 1] if l.startswith("op ")]
                    diff = (opl[-1] if opl else "?", f"line {i}: impl `{a}` / model `{b}`")
                    break
        else:
            ctx.validated()
    # distinct non-trivial: op-shape with at least one fired fault or error return
    errs = sum(1 for l in impl if l == "ret E")
    if fired or errs:
        shape = tuple(l.split()[1] for l in impl if l.startswith("op ")) + tuple(l for l in impl if l.startswith("env fail"))
        ctx.nontrivial(hash(shape))
    return viols, diff


def run(ctx):
    ctx.trusted += ["interposition harness harness/c15_sim.c (static-link symbol override of the fd syscalls and of syscall(2))",
                    "/proc/self/fd and fcntl(F_GETFD) as ground truth for the descriptor table", "clang + ASan/UBSan"]
    ctx.assumptions += ["kernel supports io_uring_setup with IORING_FEAT_RSRC_TAGS (>= 5.13) or refuses it outright",
                        "at most one readiness source (server with backlog / IPC pipe with descriptors) is pending per uv_run",
                        "the application does not hand a descriptor to two handles (uv_*_open precondition)"]
    proofs_ok = ctx.require_lean(["UvModel.Props.C15"])
    exe = ctx.harness("c15_sim", ["harness/c15_sim.c"], link_lib=True)
    # the same harness against the -DNDEBUG library: assert(fd > STDERR_FILENO) in uv__close and friends is compiled out there
    exe_nd = ctx.harness("c15_sim_nd", ["harness/c15_sim.c"], variant="asan-ndebug", link_lib=True) if exe else None
    stats = {"faults_fired": 0, "api_calls": 0, "fd_created": 0, "fd_closed": 0, "children_checked": 0, "ops": {}, "faults": {}}
    ctx.notes["stats"] = stats
    if exe is None:
        return
    if ctx.replay:
        rp = json.loads(Path(ctx.replay).read_text())["replay"]
        nd = rp.get("variant") == "asan-ndebug" and exe_nd is not None
        v, d = check_program(ctx, exe_nd if nd else exe, rp["program"], 0, stats, variant="asan-ndebug" if nd else "asan")
        if d:
            ctx.broken_correspondence("fdledger", f"{d[0]}: {d[1]}")
        return
    progs = []
    cdir = VERIF / "corpus" / "C15"
    if cdir.exists():
        for p in sorted(cdir.glob("*.txt")):
            progs.append(p.read_text())
    ncorpus = len(progs)
    n = ctx.scale(150, 1500)
    maxops = ctx.scale(28, 45)
    seeds = [ctx.rng.fork() for _ in range(n)]
    biases = [None, None, "spawn", "accept", "ipc", "stdio", "fs", "bind", "misc", "fork"]
    def mk(i):
        return Gen(ctx, seeds[i], seeds[i].range(8, maxops), biases[i % len(biases)]).build()
    def go(ip):
        r = check_program(ctx, exe, ip[1], ip[0], stats)
        if exe_nd is not None and ip[0] % 3 == 2 and ip[0] < 100000:      # every third program also on the NDEBUG build
            check_program(ctx, exe_nd, ip[1], 400000 + ip[0], stats, do_diff=False, variant="asan-ndebug")
        return r
    diffs = []
    def run_batch(batch, base):
        with ThreadPoolExecutor(min(NCPU, 12)) as ex:
            for (i, prog), (v, d) in zip(enumerate(batch), ex.map(go, [(base + k, p) for k, p in enumerate(batch)])):
                if d:
                    diffs.append((prog, d))
                if base + i < 3:
                    ctx.sample({"program": prog.split("\n")[:40]})
    run_batch(progs, 0)
    # exhaustive small scopes, on both library variants
    small = stdio_matrix() + spawn_fault_matrix()
    run_batch(small, 200000)
    if exe_nd is not None:
        def go_nd(ip):
            return check_program(ctx, exe_nd, ip[1], ip[0], stats, variant="asan-ndebug")
        with ThreadPoolExecutor(min(NCPU, 12)) as ex:
            for prog, (v, d) in zip(small, ex.map(go_nd, [(300000 + k, p) for k, p in enumerate(small)])):
                if d:
                    diffs.append((prog, d))
    ctx.notes["small_scopes"] = {"stdio_matrix": len(stdio_matrix()), "spawn_fault_matrix": len(spawn_fault_matrix()),
                                 "variants": ["asan", "asan-ndebug"] if exe_nd is not None else ["asan"]}
    # generated programs in chunks, under a wall-clock budget (the machine may be shared): the number actually
    # evaluated is recorded
    budget = ctx.scale(35, 480)
    done, chunk = 0, ctx.scale(50, 100)
    tgen = time.time()        # the budget covers program generation + runs, not the Lean build / lock waits before
    while done < n and (done == 0 or time.time() - tgen < budget):
        k = min(chunk, n - done)
        with ThreadPoolExecutor(min(NCPU, 12)) as ex:
            batch = list(ex.map(mk, range(done, done + k)))
        run_batch(batch, ncorpus + done)
        done += k
    ctx.notes["generated_programs"] = {"planned": n, "evaluated": done, "budget_s": budget}
    if diffs:
        prog, d = diffs[0]
        ctx.broken_correspondence("fdledger", f"{len(diffs)} programs differ; first at `{d[0]}`: {d[1]}")
        ctx.notes["first_diff_program"] = prog
    if (diffs or not proofs_ok) and not ctx.violations:
        # search with the monitors alone, enlarged and biased to the op where the model and the code disagree
        op = diffs[0][1][0].split()[1] if diffs else None
        bias = {"spawn": "spawn", "run": "accept", "accept": "accept", "bind": "bind", "close": "stdio", "open": "stdio",
                "ufd": "stdio", "fs_open": "fs", "fs_copyfile": "fs"}.get(op)
        m = min(n * 6, ctx.scale(900, 1500))          # bounded: keeps the thorough tier within its time budget
        sseeds = [ctx.rng.fork() for _ in range(m)]
        def mk2(i):
            return Gen(ctx, sseeds[i], sseeds[i].range(10, maxops + 10), bias if i % 3 else biases[i % len(biases)]).build()
        def go2(ip):
            return check_program(ctx, exe, ip[1], 100000 + ip[0], stats, do_diff=False)
        sbudget = ctx.scale(50, 300)
        t1, sd = time.time(), 0
        while sd < m and time.time() - t1 < sbudget and not ctx.violations:
            k = min(100, m - sd)
            with ThreadPoolExecutor(min(NCPU, 12)) as ex:
                sp = list(ex.map(mk2, range(sd, sd + k)))
            with ThreadPoolExecutor(min(NCPU, 12)) as ex:
                list(ex.map(go2, [(sd + q, p) for q, p in enumerate(sp)]))
            sd += k
        m = sd
        ctx.notes["search"] = f"monitors alone over {m} more programs (bias {bias}): " + \
            ("found a failing input" if ctx.violations else "no failing input")
    ctx.notes["noted_leads"] = [
        "UV_INHERIT_STREAM of a listening handle: uv__process_child_init calls uv__nonblock_fcntl(fd, 0) on the child's copy, "
        "which clears O_NONBLOCK on the open file description shared with the parent's handle; a later accept() EMFILE makes "
        "uv__emfile_trick's `do uv__accept() while (err >= 0)` loop block for ever on the empty backlog (parent loop hangs). "
        "Program: loop_init; pipe_init 0; bind h0 ok; listen h0; spawn ok s0 i -; run; pipe_init 0; connect h2 h0; "
        "fail accept4 1 24; run. Not a descriptor-hygiene issue; not generated.",
        "uv_listen called again on a server that still holds an un-accepted connection (connection_cb did not uv_accept): "
        "POLLIN is re-armed (tcp.c:447 / pipe.c:171), next uv__server_io asserts accepted_fd == -1 (stream.c:515) in assert "
        "builds and overwrites accepted_fd in NDEBUG builds, leaking the held descriptor. Program: loop_init; tcp_init unspec; "
        "listen h0; tcp_init unspec; connect h1 h0; tcp_init unspec; connect h2 h0; run; listen h0; run. Not generated."]
    ctx.cov["rule"] = ("programs over the op catalogue generated op by op against the model's state (valid descriptor ids / handle "
                       "states), ~25% of fd-creating calls get an injected errno at a scripted occurrence; corpus first "
                       f"({ncorpus} programs); non-trivial = at least one injected fault fired or one API call failed; distinct = "
                       "op sequence + fired faults")
