"""C08 — thread pool (src/threadpool.c): run once, complete once on the loop, cancel is exact, slow cap.
Proof: UvModel.Props.C08 over the interleaving model UvModel.Tpool.
Tie B: the real threadpool.c under a baton-passing serialising scheduler (harness/c08_sched.c) and
`uvdriver tpool` are driven by the same schedule; events, lock trace and abstract state must be equal
after every action.  Schedules: exhaustive edge cover of the model's reachable graph for small scopes
(from `uvdriver tpoolgraph`) + random schedules (actions picked among the enabled ones by
`uvdriver tpoolgen` from ctx.rng).  Monitors evaluate the property text on the implementation's log; a
secondary unscheduled run with real threads and real loops (harness/c08_real.c) feeds only monitors."""
import hashlib
from concurrent.futures import ThreadPoolExecutor
from vlib import *

MANIFEST = {
 "text": "Lean 4 theorems over an interleaving model of src/threadpool.c at critical-section granularity (every locked "
         "region one atomic action; any number of workers, loops, items; all interleavings by induction over action lists): "
         "work function at most once, done at most once and only after work returned or cancel succeeded, on the owning loop, "
         "status ECANCELED iff cancelled; uv_cancel returns 0 iff the item is queued and not started, EBUSY changes nothing; "
         "slow_io_work_running <= (n+1)/2 and equals the number of workers on slow work; marker queued at most once; no lost "
         "wake-up.  The model is tied to the working tree by running the unmodified threadpool.c under a serialising scheduler "
         "on the same schedules (exhaustive small scopes + random) and diffing events, lock traces and abstract state after "
         "every action; independent monitors re-check the property text on the implementation, also under real threads.  "
         "The callers' choice of work kind is tied in as well: the kind argument of every uv__work_submit( call site is "
         "re-extracted from the tree into a Lean list (theorems caller_kinds, name_resolution_is_slow) and compared with "
         "corpus/C08/work_kinds.txt; and with the libc resolver interposed and hanging, lookups of every flags value must "
         "stay within (n+1)/2 pool threads while uv_queue_work / uv_fs_stat still complete.",
 "note": "Trusted: Lean kernel; pthread mutual exclusion / condvar semantics (one locked region = one atomic action; signal wakes "
         "one waiter if any; spurious wake-ups allowed); the scheduler harness's mapping of C state to the abstract dump; "
         "clang/ASan/TSan. Not modelled: weak memory, uv__threadpool_cleanup/exit message, pthread_atfork reset, io_uring fs path, "
         "uv_cancel after the request's callback (API misuse).  The wake-up of the loop by uv_async_send is C09's guarantee "
         "(here: the pending flag is set whenever loop->wq is non-empty).",
 "design": "DESIGN.md §3 C08",
 "technique": "Lean 4 proof over executable interleaving model + lockstep correspondence under a serialising scheduler + monitors",
}

ECANCELED, EBUSY = -125, -16


# ----------------------------------------------------------------------------- parsing / monitors
def parse_state(line):
    """`ev=.. lk=.. | wq=.. sq=.. sr=.. idle=.. W=.. L0=.. I=..` -> dict"""
    head, _, st = line.partition(" | ")
    d = {"raw": line}
    for w in head.split():
        k, _, v = w.partition("=")
        d[k] = [] if v == "-" else v.split(",")
    loops = []
    for w in st.split():
        k, _, v = w.partition("=")
        if k[0] == "L" and k[1:].isdigit():
            ph, q, a, r = v.split(":")
            qq = q[2:]
            loops.append({"phase": ph, "q": [] if qq == "-" else qq.split(","), "async": a == "a1", "reqs": int(r[1:])})
        elif k in ("wq", "sq", "W", "I"):
            d[k] = [] if v == "-" else v.split(",")
        else:
            d[k] = int(v)
    d["L"] = loops
    items = []
    for e in d["I"]:
        f = e.split("/")
        items.append({"id": int(f[0]), "loop": int(f[1][1:]), "kind": f[2], "linked": f[3] == "1", "work": f[4],
                      "starts": int(f[5]), "returned": f[6] == "1", "dones": int(f[7]), "status": int(f[8])})
    d["items"] = items
    return d


def monitor(n, acts, outs, fin):
    """The property text evaluated on the implementation's log (independent of the model).
    acts: action lines; outs: harness lines (outs[0] = dump after cfg); fin: the `fin` line or None.
    Returns (signature, message) or None."""
    cap = (n + 1) // 2
    ws, we, dn, c0, cbusy = set(), set(), {}, set(), set()
    pend = {}           # loop -> item of the uv_cancel in flight
    queued_at_cancel = {}
    prev = None
    lines = [("cfg", outs[0])] + list(zip(acts, outs[1:]))
    if fin is not None:
        lines.append(("fin", fin.split(" | ", 1)[1] if " | " in fin else fin))
    for cmd, o in lines:
        if o == "skip":
            continue
        if o == "bad-op" or " | " not in o:
            return ("harness-output", f"unexpected harness line after `{cmd}`: {o}")
        try:
            d = parse_state(o)
        except Exception as ex:
            return ("harness-output", f"unparsable state after `{cmd}`: {o} ({ex})")
        raw = d["raw"]
        if "CORRUPT" in raw or "/?/" in raw:
            return ("queue-corrupt", f"a queue is corrupt / unknown work pointer after `{cmd}`: {o}")
        if "blocked" in raw or "dead" in raw:
            return ("thread-blocked", f"a thread blocks on a held mutex / died after `{cmd}`: {o}")
        c = cmd.split()
        kinds = {it["id"]: it["kind"] for it in d["items"]}
        if d["wq"].count("M") > 1:
            return ("marker-twice", f"slow marker queued twice after `{cmd}`: {o}")
        if not (0 <= d["sr"] <= cap):
            return ("slow-cap", f"slow_io_work_running={d['sr']} outside 0..{cap} (n={n}) after `{cmd}`: {o}")
        inslow = sum(1 for w in d["W"] if w.startswith("inwork:") and kinds.get(int(w[7:])) == "s")
        if inslow > d["sr"]:
            return ("slow-count", f"{inslow} workers inside slow work functions but slow_io_work_running={d['sr']}: {o}")
        busy = sum(1 for w in d["W"] if w in ("got", "posted") or w.startswith("inwork:"))
        if d["sr"] > busy:
            return ("slow-leak", f"slow_io_work_running={d['sr']} but only {busy} workers hold a request (a slow slot leaked; "
                                 f"queued lookups will not be started although capacity is free) after `{cmd}`: {o}")
        if not (0 <= d["idle"] <= n):
            return ("idle-count", f"idle_threads={d['idle']} outside 0..{n}: {o}")
        if c[0] == "can":
            pend[int(c[1])] = int(c[2])
            queued_at_cancel[int(c[2])] = prev is not None and (c[2] in prev["wq"] or c[2] in prev["sq"])
        for e in d["ev"]:
            f = e.split(":")
            i = int(f[1]) if f[0] != "ret" else None
            if f[0] == "ws":
                if i in ws:
                    return ("work-twice", f"work function of item {i} started twice (`{cmd}`)")
                if i in c0:
                    return ("work-after-cancel", f"work function of item {i} started after uv_cancel returned 0 (`{cmd}`)")
                if c[0] not in ("wk", "fin"):
                    return ("work-not-on-worker", f"work function of item {i} ran in `{cmd}`")
                ws.add(i)
            elif f[0] == "we":
                if i not in ws or i in we:
                    return ("work-end", f"work end of item {i} without start / twice (`{cmd}`)")
                we.add(i)
            elif f[0] == "dn":
                st = int(f[2])
                if i in dn:
                    return ("done-twice", f"done callback of item {i} twice (`{cmd}`)")
                if c[0] not in ("go", "fin") or (c[0] == "go" and int(c[1]) != next(it["loop"] for it in d["items"] if it["id"] == i)):
                    return ("done-wrong-thread", f"done callback of item {i} in `{cmd}`")
                if i in c0:
                    if st != ECANCELED or i in ws:
                        return ("cancel-status", f"item {i}: uv_cancel returned 0 but status {st} / work ran={i in ws}")
                else:
                    if i not in we:
                        return ("done-before-work", f"done callback of item {i} before its work function returned (`{cmd}`)")
                    if st != 0:
                        return ("done-status", f"item {i} status {st} without a successful cancel")
                dn[i] = st
            elif f[0] == "ret":
                l = int(c[1]) if c[0] == "go" else None
                i = pend.pop(l, None) if l is not None else None
                v = int(f[1])
                if i is None and c[0] == "fin" and pend:
                    i = pend.pop(min(pend))
                if i is None:
                    return ("harness-output", f"cancel result without a cancel in flight (`{cmd}`)")
                if v == 0:
                    if i in ws:
                        return ("cancel-0-started", f"uv_cancel(item {i}) returned 0 after its work function started")
                    c0.add(i)
                elif v == EBUSY:
                    if queued_at_cancel.get(i):
                        return ("cancel-busy-queued", f"uv_cancel(item {i}) returned UV_EBUSY although it was still queued and not started")
                    cbusy.add(i)
                else:
                    return ("cancel-ret", f"uv_cancel(item {i}) returned {v}")
        for it in d["items"]:
            if it["starts"] > 1 or it["dones"] > 1:
                return ("counts", f"item {it['id']} starts={it['starts']} dones={it['dones']}: {o}")
        for l, ls in enumerate(d["L"]):
            live = sum(1 for it in d["items"] if it["loop"] == l and it["dones"] == 0)
            if ls["reqs"] != live:
                return ("active-reqs", f"loop {l} active_reqs={ls['reqs']} but {live} requests have not had their callback: {o}")
            if ls["q"] and not ls["async"]:
                return ("lost-wakeup-loop", f"loop {l} wq non-empty but its async is not pending: {o}")
        prev = d
    if fin is not None:
        if not fin.startswith("fin ok"):
            return ("deadlock", f"work outstanding but no thread can make progress (lost wake-up / deadlock): {fin}")
        d = parse_state(fin.split(" | ", 1)[1])
        for it in d["items"]:
            i = it["id"]
            if it["dones"] != 1:
                return ("done-missing", f"item {i} never completed")
            if i not in c0 and (it["starts"] != 1 or it["status"] != 0):
                return ("final", f"item {i} not cancelled but starts={it['starts']} status={it['status']}")
            if i in c0 and (it["starts"] != 0 or it["status"] != ECANCELED):
                return ("final", f"item {i} cancelled but starts={it['starts']} status={it['status']}")
        if d["sr"] != 0 or d["wq"] not in ([], ["M"]) or d["sq"]:
            return ("final-state", f"pool not quiescent at the end: {fin}")
    return None


def interesting(n, acts, outs):
    """non-trivial = a cancel hit a window other than 'plainly queued' (EBUSY, or slow item behind the marker, or an
    already-cancelled item), or the slow cap was binding with slow work pending; and >= 2 context switches"""
    switches = sum(1 for a, b in zip(acts, acts[1:]) if a.split()[:2] != b.split()[:2])
    if switches < 2:
        return False
    hit = False
    for a, o in zip(acts, outs[1:]):
        if "ret:-16" in o:
            hit = True
        if a.startswith("can") and " sq=- " not in o:
            hit = True
        if o != "skip" and " | " in o:
            st = o.split(" | ")[1]
            if f"sr={(n + 1) // 2} " in st and " sq=- " not in st:
                hit = True
    return hit


# ----------------------------------------------------------------------------- running cases
def split_cases(lines):
    cases, cur = [], None
    for l in lines:
        if l.startswith("cfg "):
            cur = [l]
            cases.append(cur)
        elif cur is not None:
            cur.append(l)
    return cases


def run_batch(ctx, exe, cases):
    """cases: list of [cfg-line, action...]; returns list of (case, impl_lines|None, model_lines, fin_line, stderr)"""
    text = "".join("\n".join(c) + "\nfin\n" for c in cases)
    rc, iout, ierr = ctx.run(exe, text=text, timeout=300)
    mout = ctx.driver(["tpool"], text)
    il = iout.splitlines()
    mons = [l for l in il if l.startswith("MON")]
    il = [l for l in il if not l.startswith("MON")]
    ml = mout.splitlines()
    res, pi, pm = [], 0, 0
    for c in cases:
        ni = len(c) + 1
        ci, cm = il[pi:pi + ni], ml[pm:pm + len(c)]
        pi += ni; pm += len(c)
        res.append((c, ci, cm))
    return rc, res, mons, ierr


def judge(ctx, exe, c, ci, cm, label, shrink=True):
    """returns True if the case is fine"""
    n = int(c[0].split()[1])
    acts = c[1:]
    ctx.count()
    if len(ci) != len(c) + 1:
        bad = ("harness-died", f"harness produced {len(ci)} of {len(c) + 1} lines (crash / sanitizer / hang)")
    else:
        bad = monitor(n, acts, ci[:-1], ci[-1])
    if bad:
        small = shrink_case(ctx, exe, c, bad[0]) if shrink else c
        ctx.violation("tpool-" + bad[0], f"C08 ({label}) monitor: {bad[1]}", {"mode": "sched", "case": small})
        return False
    if ci[:-1] != cm:
        k = next((i for i in range(min(len(ci) - 1, len(cm))) if ci[i] != cm[i]), min(len(ci) - 1, len(cm)))
        ctx.broken_correspondence("Tpool model vs src/threadpool.c under the scheduler",
                                  f"({label}) after `{c[k]}` (step {k}): impl `{ci[k] if k < len(ci) else None}` "
                                  f"model `{cm[k] if k < len(cm) else None}`; case {c[:k + 1]}")
        return None
    ctx.validated()
    if interesting(n, acts, ci[:-1]):
        ctx.nontrivial(hashlib.sha1("\n".join(c).encode()).hexdigest()[:16])
    return True


def mon_sig(line):
    """`MON <signature-word> text...` -> signature (older MON lines without a signature word: harness-mon)"""
    w = line.split()
    return w[1] if len(w) > 1 and "-" in w[1] else "harness-mon"


def run_one(ctx, exe, c):
    rc, res, mons, ierr = run_batch(ctx, exe, [c])
    _, ci, cm = res[0]
    return rc, ci, cm, mons, ierr


def fails(ctx, exe, c, sig):
    rc, ci, cm, mons, _ = run_one(ctx, exe, c)
    if mons:
        return sig in ("harness-mon", mon_sig(mons[0]))
    if len(ci) != len(c) + 1:
        return sig == "harness-died"
    b = monitor(int(c[0].split()[1]), c[1:], ci[:-1], ci[-1])
    return b is not None and b[0] == sig


def shrink_case(ctx, exe, c, sig):
    """delta debugging over action lines (cfg line kept); removed actions may turn later ones into `skip`s"""
    acts = c[1:]
    if not fails(ctx, exe, c, sig):
        return c            # only fails inside a batch: keep as is
    chunk = max(1, len(acts) // 2)
    budget = 200
    while chunk >= 1 and budget > 0:
        i, changed = 0, False
        while i < len(acts) and budget > 0:
            cand = acts[:i] + acts[i + chunk:]
            budget -= 1
            if fails(ctx, exe, [c[0]] + cand, sig):
                acts, changed = cand, True
            else:
                i += chunk
        if not changed or chunk == 1:
            chunk //= 2
    return [c[0]] + acts


def run_cases(ctx, exe, cases, label, bs=40):
    """run in batches (one harness process per batch, cases separated by cfg = reset), in parallel"""
    batches = [cases[i:i + bs] for i in range(0, len(cases), bs)]
    ok_all = True
    diffs = 0
    with ThreadPoolExecutor(max(2, NCPU // 2)) as ex:
        for batch, (rc, res, mons, ierr) in zip(batches, ex.map(lambda b: run_batch(ctx, exe, b), batches)):
            if mons:
                # attribute by re-running case by case
                for c in batch:
                    _, ci, cm, m1, _ = run_one(ctx, exe, c)
                    if m1:
                        ctx.violation("tpool-" + mon_sig(m1[0]), f"C08 ({label}) monitor inside the harness: {m1[0]}",
                                      {"mode": "sched", "case": shrink_case(ctx, exe, c, "harness-mon")})
                        return False
            for c, ci, cm in res:
                if len(ci) != len(c) + 1 and rc != 0:
                    # the batch died here; re-run the case alone to attribute it
                    rc1, ci, cm, _, ierr1 = run_one(ctx, exe, c)
                    if len(ci) == len(c) + 1:
                        # fine alone: the death belongs to an earlier case of the batch, already reported
                        pass
                r = judge(ctx, exe, c, ci, cm, label)
                if r is False:
                    return False
                if r is None:
                    diffs += 1
                    ok_all = None
                    if diffs >= 3:
                        return None
            if rc != 0 and ok_all:
                ctx.violation("tpool-harness-exit", f"C08 ({label}) scheduler harness exited {rc}: {ierr[-600:]}",
                              {"mode": "sched", "case": batch[-1]})
                return False
    return ok_all



# ----------------------------------------------------------------------------- contended first use (monitors only)
def gen_lazy(rng, ncases):
    """the pool is not set up in advance: the first submit initialises it under the schedule (stop points inside
    init_threads), other loops submit / run meanwhile.  No model counterpart: only the monitors judge these."""
    cases = []
    for _ in range(ncases):
        n = rng.choice([1, 2, 2, 3, 4])
        L = rng.choice([2, 2, 3])
        c = [f"cfg {n} {L} lazy"]
        first = rng.below(L)
        c.append(f"sub {first} {rng.choice('cfs')} 0")
        for _ in range(rng.below(4)):                 # how far the initialiser gets before the others arrive
            c.append(f"go {first}")
        others = [l for l in range(L) if l != first]
        for l in others:
            if rng.chance(3, 4):
                c.append(f"sub {l} {rng.choice('cfs')} {rng.below(4)}")
            if rng.chance(1, 3):
                c.append(f"go {first}")
        for _ in range(rng.range(4, 30)):
            r = rng.below(10)
            if r < 3:
                c.append(f"go {rng.below(L)}")
            elif r < 7:
                c.append(f"wk {rng.below(n)} {rng.below(4)}")
            elif r < 8:
                c.append(f"sub {rng.below(L)} {rng.choice('cfs')} {rng.below(4)}")
            elif r < 9:
                c.append(f"drn {rng.below(L)}")
            else:
                c.append(f"can {rng.below(L)} {rng.below(3)}")
        cases.append(c)
    return cases


def run_lazy(ctx, exe, cases, label):
    for i in range(0, len(cases), 40):
        batch = cases[i:i + 40]
        text = "".join("\n".join(c) + "\nfin\n" for c in batch)
        rc, iout, ierr = ctx.run(exe, text=text, timeout=300)
        il = iout.splitlines()
        mons = [l for l in il if l.startswith("MON")]
        il = [l for l in il if not l.startswith("MON")]
        pos = 0
        for c in batch:
            ci = il[pos:pos + len(c) + 1]
            pos += len(c) + 1
            ctx.count()
            bad = None
            if len(ci) != len(c) + 1:
                # this is where the process stopped: attribute by running the case alone
                rc1, out1, err1 = ctx.run(exe, text="\n".join(c) + "\nfin\n", timeout=120)
                l1 = out1.splitlines()
                m1 = [l for l in l1 if l.startswith("MON")]
                if m1:
                    bad = (mon_sig(m1[0]), m1[0])
                elif rc1 != 0 or len(l1) != len(c) + 1:
                    bad = ("harness-died", f"harness exit {rc1}: {(err1 or out1)[-500:]}")
                else:
                    ci = l1
            if bad is None:
                bad = monitor(int(c[0].split()[1]), c[1:], ci[:-1], ci[-1])
            if bad:
                ctx.violation("tpool-" + bad[0], f"C08 ({label}: first submissions contend for the pool's initialisation) monitor: {bad[1]}",
                              {"mode": "lazy", "case": c})
                return False
            ctx.validated()
            if any("oncewait" in o for o in ci):
                ctx.nontrivial("lazy-" + hashlib.sha1("\n".join(c).encode()).hexdigest()[:12])
    return True

# ----------------------------------------------------------------------------- schedule generation
CATS = ["wk"] * 9 + ["loop"] * 4 + ["sub"] * 3 + ["can"] * 2 + ["wake"] + ["any"]


def gen_random(ctx, rng, ncases, bias=None):
    """r-lines -> `uvdriver tpoolgen` picks among the model's enabled actions"""
    text = []
    for _ in range(ncases):
        n = rng.choice([1, 1, 2, 2, 2, 3, 3, 4, 5, 8])
        L = rng.choice([1, 1, 2, 3])
        m = rng.range(2, 10)
        text.append(f"cfg {n} {L} {m}")
        cats = CATS + ([bias] * 6 if bias else [])
        for _ in range(rng.range(10, ctx.scale(60, 140))):
            text.append(f"r {rng.choice(cats)} {rng.below(1000)} {rng.below(8)}")
    out = ctx.driver(["tpoolgen"], "\n".join(text) + "\n")
    return split_cases(out.splitlines())


def path_cover(edges, maxlen=80):
    """edges: (src, dst, action).  Paths from state 0 that together traverse every edge."""
    from collections import defaultdict, deque
    out = defaultdict(list)
    for k, (s, d, a) in enumerate(edges):
        out[s].append(k)
    par = {0: None}
    dq = deque([0])
    while dq:
        s = dq.popleft()
        for k in out[s]:
            d = edges[k][1]
            if d not in par:
                par[d] = k
                dq.append(d)
    covered = [False] * len(edges)
    nxt = {s: 0 for s in out}          # per-node cursor over out-edges
    paths = []
    for k0 in range(len(edges)):
        if covered[k0]:
            continue
        pre, s = [], edges[k0][0]
        while par[s] is not None:
            pre.append(par[s]); s = edges[par[s]][0]
        path = pre[::-1] + [k0]
        for k in path:
            covered[k] = True
        s = edges[k0][1]
        while len(path) < maxlen:
            ks = out.get(s, [])
            i = nxt.get(s, 0)
            while i < len(ks) and covered[ks[i]]:
                i += 1
            nxt[s] = i
            if i >= len(ks):
                break
            covered[ks[i]] = True
            path.append(ks[i])
            s = edges[ks[i]][1]
        paths.append([edges[k][2] for k in path])
    return paths


def gen_exhaustive(ctx, n, L, items, cancels, kinds, spur):
    out = ctx.driver(["tpoolgraph"], f"cfg {n} {L} {items} {cancels} {kinds} {spur}\n", timeout=900)
    edges = []
    states = 0
    for l in out.splitlines():
        w = l.split(" ", 3)
        if w[0] == "e":
            edges.append((int(w[1]), int(w[2]), w[3]))
        elif w[0] == "states":
            states = int(w[1])
    return states, edges, [[f"cfg {n} {L}"] + p for p in path_cover(edges)]



# ----------------------------------------------------------------------------- Tie A: callers' work kinds
KIND_FILES = ["src/unix/fs.c", "src/unix/getaddrinfo.c", "src/unix/getnameinfo.c", "src/random.c", "src/threadpool.c"]
KIND_CONST = {"UV__WORK_CPU": "cpu", "UV__WORK_FAST_IO": "fast", "UV__WORK_SLOW_IO": "slow"}
GEN_KINDS = LEAN / "UvModel/Generated/C08Kinds.lean"


def extract_work_kinds():
    """every `uv__work_submit(` call site in /repo/src: (file, work function, kind argument expression)"""
    out = []
    for f in KIND_FILES:
        p = REPO / f
        if not p.exists():
            out.append((f, "<file missing>", "?"))
            continue
        txt = re.sub(r"/\*.*?\*/", " ", p.read_text(), flags=re.S).replace("\\\n", " ")
        for m in re.finditer(r"\buv__work_submit\s*\(", txt):
            i, depth, args, cur = m.end(), 1, [], ""
            while i < len(txt) and depth > 0:
                ch = txt[i]
                if ch == "(":
                    depth += 1
                elif ch == ")":
                    depth -= 1
                    if depth == 0:
                        break
                if ch == "," and depth == 1:
                    args.append(cur); cur = ""
                else:
                    cur += ch
                i += 1
            args.append(cur)
            args = [" ".join(a.split()) for a in args]
            if len(args) != 5 or args[0].startswith("uv_loop_t"):
                continue                      # the definition itself
            out.append((f, args[3], args[2]))
    return out


def gen_kinds_lean(sites):
    def kexpr(e):
        return f".const .{KIND_CONST[e]}" if e in KIND_CONST else ".other " + json.dumps(e)
    body = ",\n   ".join(f"({json.dumps(f)}, {json.dumps(w)}, {kexpr(e)})" for f, w, e in sites)
    return ("import UvModel.Tpool\n"
            "/-! GENERATED by checks/c08.py from the `uv__work_submit(` call sites of the working tree — do not edit.\n"
            "    (file, work function, kind argument); a kind that is not a plain constant becomes `.other <expr>`. -/\n"
            "namespace UvModel.Tpool.Generated\n\n"
            "inductive KindExpr | const (k : Kind) | other (src : String)\n  deriving DecidableEq, Repr\n\n"
            "def callerKinds : List (String × String × KindExpr) :=\n  [" + body + "]\n\n"
            "end UvModel.Tpool.Generated\n")


def tie_a_kinds(ctx):
    """regenerate the Lean list (only when it changed) and compare with the committed table; returns (ok, restore)"""
    sites = extract_work_kinds()
    new = gen_kinds_lean(sites)
    old = GEN_KINDS.read_text() if GEN_KINDS.exists() else None
    if new != old:
        GEN_KINDS.write_text(new)
    table = [tuple(l.split(None, 2)) for l in (VERIF / "corpus/C08/work_kinds.txt").read_text().splitlines()
             if l.strip() and not l.startswith("#")]
    ok = True
    if sorted(table) != sorted(sites):
        ok = False
        diff = sorted(set(sites) ^ set(table))
        ctx.broken.append(("tie-A", "callers' work kinds (uv__work_submit call sites) differ from corpus/C08/work_kinds.txt",
                           "; ".join(" ".join(d) for d in diff)))
    ctx.notes["work_kind_sites"] = [" ".join(x) for x in sites]
    return ok, (old if new != old else None)

# ----------------------------------------------------------------------------- secondary: real threads
def run_real(ctx, exe, rng, runs, label, search=False):
    for _ in range(runs):
        n = rng.choice([1, 2, 3, 4, 5, 8])
        loops = rng.choice([1, 2, 3])
        per = rng.choice([40, 120, 300]) if not search else 300
        seed = rng.below(10 ** 6)
        rc, out, err = ctx.run(exe, [loops, per, seed], env={"UV_THREADPOOL_SIZE": str(n)}, timeout=150)
        ctx.count()
        last = out.strip().splitlines()[-1] if out.strip() else ""
        viol = [l for l in out.splitlines() if l.startswith("VIOLATION")]
        replay = {"mode": "real", "threads": n, "loops": loops, "per": per, "seed": seed}
        if viol:
            ctx.violation("tpool-real-" + viol[0].split()[1], f"C08 ({label}, real threads, n={n}): {viol[0]}", replay)
            return False
        if rc != 0 or not last.startswith("ok"):
            what = "hang/deadlock (SIGALRM or timeout)" if rc in (-14, -999) else f"exit {rc}"
            ctx.violation("tpool-real-crash", f"C08 ({label}, real threads, n={n}): {what}: {(err or out)[-700:]}", replay)
            return False
        f = dict(x.split("=") for x in last.split()[1:])
        for k in ("done", "cancel0", "ebusy"):
            ctx.notes[f"{label}_{k}"] = ctx.notes.get(f"{label}_{k}", 0) + int(f[k])
        ctx.notes[f"{label}_maxslow_seen"] = max(ctx.notes.get(f"{label}_maxslow_seen", 0), int(f["maxslow"]))
    return True



NI_FLAGS = [0, 1, 2, 8, 16, 4, 1 | 2, 2 | 16, 2 | 8, 1 | 16]                 # NUMERICHOST=1 NUMERICSERV=2 NOFQDN=4 NAMEREQD=8 DGRAM=16
AI_FLAGS = [0, 1, 2, 4, 0x400, 4 | 0x400, 1 | 4, 0x20]                        # PASSIVE CANONNAME NUMERICHOST NUMERICSERV ADDRCONFIG


def run_hang(ctx, exe, rng, label, every_n=False):
    """resolver calls hang (interposed in the harness): lookups of every flags value must stay within the slow cap and
    must not starve uv_queue_work / uv_fs_stat"""
    jobs = []
    for which, flagset in ((0, NI_FLAGS), (1, AI_FLAGS)):
        for fl in flagset:
            for n in ([1, 2, 3, 4, 8] if every_n else [rng.choice([2, 2, 3, 4, 8])]):
                jobs.append((which, fl, n))
    jobs.append((0, 0, 1))
    def one(j):
        return j, ctx.run(exe, ["hang", j[0], j[1]], env={"UV_THREADPOOL_SIZE": str(j[2])}, timeout=90)
    with ThreadPoolExecutor(8) as ex:
        res = list(ex.map(one, jobs))
    for (which, fl, n), (rc, out, err) in res:
        ctx.count()
        replay = {"mode": "hang", "which": which, "flags": fl, "threads": n}
        viol = [l for l in out.splitlines() if l.startswith("VIOLATION")]
        if viol:
            ctx.violation("tpool-hang-" + viol[0].split()[1], f"C08 ({label}, hanging resolver, n={n}): {viol[0]}", replay)
            return False
        last = out.strip().splitlines()[-1] if out.strip() else ""
        if rc != 0 or not last.startswith("ok"):
            ctx.violation("tpool-hang-crash", f"C08 ({label}, hanging resolver, n={n}, {'getnameinfo' if which == 0 else 'getaddrinfo'} "
                          f"flags={fl}): exit {rc}: {(err or out)[-600:]}", replay)
            return False
        ctx.validated()
        ctx.nontrivial(f"hang-{which}-{fl}-{n}")
    ctx.notes[f"{label}_runs"] = len(jobs)
    return True

# ----------------------------------------------------------------------------- main
def run(ctx):
    ctx.trusted += ["pthread mutual exclusion and condition-variable semantics (locked region = atomic action)",
                    "serialising scheduler harness (harness/c08_sched.[ch]): mapping of C state to the abstract dump",
                    "clang, ASan/UBSan, TSan"]
    ctx.assumptions += ["sequentially consistent view of mutex-protected data (weak memory not modelled)",
                        "uv_cancel is called on the loop's thread and not after the request's callback",
                        "uv_async_send wakes the loop (C09)"]
    kinds_ok, restore = tie_a_kinds(ctx)
    try:
        lean_ok = ctx.require_lean(["UvModel.Props.C08"]) and kinds_ok
    finally:
        if restore is not None and os.environ.get("VERIF_REPO"):
            GEN_KINDS.write_text(restore)     # a scratch tree must not leave its generated list in the shared library
    exe = ctx.harness("c08_sched", ["harness/c08_sched.c"], link_lib=True)
    real = ctx.harness("c08_real", ["harness/c08_real.c"], link_lib=True)
    real_tsan = ctx.harness("c08_real_tsan", ["harness/c08_real.c"], variant="tsan", link_lib=True)
    rng = ctx.rng

    if ctx.replay:
        obj = json.loads(Path(ctx.replay).read_text())["replay"]
        if obj.get("mode") == "hang":
            if real:
                rc, out, err = ctx.run(real, ["hang", obj["which"], obj["flags"]], env={"UV_THREADPOOL_SIZE": str(obj["threads"])}, timeout=90)
                print(out[-2000:], err[-2000:])
                viol = [l for l in out.splitlines() if l.startswith("VIOLATION")]
                if viol or rc != 0:
                    ctx.violation("tpool-hang-replay", f"C08 replay (hanging resolver): {viol[:1] or rc}", obj)
        elif obj.get("mode") == "real":
            for x in (real, real_tsan):
                if x:
                    rc, out, err = ctx.run(x, [obj["loops"], obj["per"], obj["seed"]],
                                           env={"UV_THREADPOOL_SIZE": str(obj["threads"])}, timeout=150)
                    print(out[-2000:], err[-2000:])
                    viol = [l for l in out.splitlines() if l.startswith("VIOLATION")]
                    if viol or rc != 0:
                        ctx.violation("tpool-real-replay", f"C08 replay (real threads): {viol[:1] or rc}", obj)
        elif obj.get("mode") == "lazy":
            if exe:
                rc, out, err = ctx.run(exe, text="\n".join(obj["case"]) + "\nfin\n", timeout=120)
                print(out[-3000:], err[-1500:])
                run_lazy(ctx, exe, [obj["case"]], "replay")
        elif exe:
            c = obj["case"]
            rc, ci, cm, mons, ierr = run_one(ctx, exe, c)
            for a, b in zip(c + ["fin"], ci):
                print(f"{a:14s} {b}")
            print(ierr[-2000:])
            if mons:
                ctx.violation("tpool-" + mon_sig(mons[0]), f"C08 replay: {mons[0]}", obj)
            else:
                judge(ctx, exe, c, ci, cm, "replay", shrink=False)
        return

    ok = True
    if exe is None:
        ok = None
    # 1. corpus
    cdir = VERIF / "corpus" / "C08"
    if ok and cdir.exists():
        cases = []
        for p in sorted(cdir.glob("*.txt")):
            cases += split_cases([l.strip() for l in p.read_text().splitlines() if l.strip() and not l.startswith("#")])
        if cases:
            ok = run_cases(ctx, exe, cases, "corpus")
    # 2. exhaustive small scopes: every transition of the model's reachable graph is executed on the real code
    scopes = [(1, 1, 2, 1, "cs", 1), (1, 1, 3, 1, "cs", 0), (2, 1, 2, 1, "cs", 1)]
    if not ctx.quick:
        scopes += [(2, 2, 2, 1, "cs", 0), (2, 1, 3, 1, "cs", 0), (3, 1, 2, 1, "fs", 1)]
    ex_stats = []
    for sc in scopes:
        if ok is not True:
            break
        states, edges, cases = gen_exhaustive(ctx, *sc)
        ctx.log(f"exhaustive scope n={sc[0]} loops={sc[1]} items<={sc[2]} cancels<={sc[3]} kinds={sc[4]} spurious={sc[5]}: "
                f"{states} states, {len(edges)} transitions, {len(cases)} schedules")
        ex_stats.append({"scope": sc, "states": states, "transitions": len(edges), "schedules": len(cases)})
        ok = run_cases(ctx, exe, cases, f"exhaustive{sc}", bs=200)
    ctx.notes["exhaustive_scopes"] = ex_stats
    # 3. random schedules
    if ok is True:
        cases = gen_random(ctx, rng.fork(), ctx.scale(600, 8000))
        ctx.notes["random_schedules"] = len(cases)
        ctx.notes["random_actions"] = sum(len(c) - 1 for c in cases)
        for c in cases[:3]:
            ctx.sample(" ; ".join(c[:25]))
        ok = run_cases(ctx, exe, cases, "random")
    # 3b. contended first use of the pool (monitors only; the model starts from an initialised pool)
    if exe is not None and not ctx.violations:
        run_lazy(ctx, exe, gen_lazy(rng.fork(), ctx.scale(200, 2000)), "lazy-init")
    # 4. search when a proof or the correspondence no longer checks (monitors only, enlarged budget, scheduled first)
    need_search = (ok is None or not lean_ok) and not ctx.violations
    found = False
    if need_search:
        ctx.log("model/proof no longer matches: searching for a failing input with the monitors alone")
        srng = rng.fork()
        if exe is not None:
            for rnd in range(ctx.scale(8, 30)):
                cases = gen_random(ctx, srng.fork(), 1500, bias=srng.choice(["can", "wk", "sub", "loop"]))
                rcs = []
                for i in range(0, len(cases), 40):
                    batch = cases[i:i + 40]
                    rc, res, mons, ierr = run_batch(ctx, exe, batch)
                    if mons:      # the harness's own monitor fired somewhere in the batch: find the case
                        for c in batch:
                            if run_one(ctx, exe, c)[3]:
                                res = [(c, [], [])]
                                break
                    for c, ci, cm in res:
                        ctx.count()
                        bad = (mon_sig(mons[0]), mons[0]) if mons else None
                        if bad is None and len(ci) != len(c) + 1:
                            bad = ("harness-died", "harness died: " + ierr[-300:]) if rc != 0 else None
                        elif bad is None:
                            bad = monitor(int(c[0].split()[1]), c[1:], ci[:-1], ci[-1])
                        if bad:
                            ctx.violation("tpool-" + bad[0], f"C08 (search) monitor: {bad[1]}",
                                          {"mode": "sched", "case": shrink_case(ctx, exe, c, bad[0])})
                            found = True
                            break
                    if found:
                        break
                if found:
                    break
    # 5. secondary: real threads (monitors only)
    real_ok = True
    if real is not None and not ctx.violations:
        real_ok = run_real(ctx, real, rng.fork(), ctx.scale(6, 40), "real_asan")
    if real_ok and real_tsan is not None and not ctx.violations:
        real_ok = run_real(ctx, real_tsan, rng.fork(), ctx.scale(3, 20), "real_tsan")
    if real_ok and real is not None and not ctx.violations:
        real_ok = run_hang(ctx, real, rng.fork(), "hang", every_n=need_search or not ctx.quick)
    if need_search:
        if not found and not ctx.violations:
            for x, lab in ((real_tsan, "search_tsan"), (real, "search_asan")):
                if x is not None and not run_real(ctx, x, srng.fork(), ctx.scale(10, 40), lab, search=True):
                    found = True
                    break
        found = found or bool(ctx.violations)
        ctx.notes["search"] = "monitors found a failing input" if found else \
            "enlarged monitor-only search (scheduled + real threads) found no failing input"
    ctx.cov["rule"] = ("schedules = action lists picked among the model's enabled actions (exhaustive: edge cover of the reachable "
                       "graph per scope; random: categories weighted wk/loop/sub/can/wake); non-trivial = >=2 context switches and a "
                       "cancel that hit a non-plain window (EBUSY / slow item behind the marker / already cancelled) or the slow cap "
                       "binding with slow work pending; distinct by action string")
