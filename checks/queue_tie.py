"""Tie between /repo/src/queue.h and the `List` abstraction every loop model uses
(lean/UvModel/Queue.lean, Props/QueueRefine.lean).  Called from checks/c14.py (the watcher_queue /
pending_queue of C14 are such queues); it adds obligations and cases to that check's evidence.

Two generated streams, both run on the real inline functions (harness/queue_ops.c, ASan/UBSan) and on the
model (`uvdriver queue`), every output line diffed — the complete next/prev memory after each operation:
  * valid: programs that respect the preconditions of Props/QueueRefine (fresh nodes for insert / move /
    split targets, members for remove / split points); a reference in plain Python lists gives the expected
    forward and backward walk of every ring after every operation, the `empty` answers and the visit order
    of the drain idiom -> an independent monitor on the implementation's output alone;
  * wild: arbitrary operands (aliasing, stale nodes, heads used as members).  All pointers stay inside the
    node array, so this is memory-safe; only model = implementation is checked (the theorems say nothing
    here, the transliteration must still agree).
"""
import json
from pathlib import Path

N = 10


def gen_valid(rng, steps):
    heads, free = {}, set(range(N))
    lines, expect = [f"reset {N}"], [None]

    def probe():
        for h in sorted(heads):
            lines.append(f"ring {h}")
            l = heads[h]
            expect.append(f"ring {h} fwd" + "".join(f" {x}" for x in l) + " | bwd" + "".join(f" {x}" for x in reversed(l)))

    h0 = rng.below(N)
    free.discard(h0); heads[h0] = []
    lines.append(f"init {h0}"); expect.append(None)
    for _ in range(steps):
        members = [(h, q) for h, l in heads.items() for q in l]
        ops = ["ins_tail"] * 4 + ["ins_head"] * 2 + ["remove"] * 3 + ["move"] * 2 + ["split", "init", "add", "drain", "empty"]
        op = rng.choice(ops)
        if op in ("ins_tail", "ins_head") and free and heads:
            h = rng.choice(sorted(heads)); q = rng.choice(sorted(free)); free.discard(q)
            heads[h] = heads[h] + [q] if op == "ins_tail" else [q] + heads[h]
            lines.append(f"{op} {h} {q}"); expect.append(None)
        elif op == "remove" and members:
            h, q = rng.choice(members)
            heads[h] = [x for x in heads[h] if x != q]; free.add(q)
            lines.append(f"remove {q}"); expect.append(None)
        elif op == "move" and free and heads:
            h = rng.choice(sorted(heads)); n = rng.choice(sorted(free)); free.discard(n)
            heads[n] = heads[h]; heads[h] = []
            lines.append(f"move {h} {n}"); expect.append(None)
        elif op == "split" and free and members:
            h, q = rng.choice(members); n = rng.choice(sorted(free)); free.discard(n)
            i = heads[h].index(q)
            heads[n] = heads[h][i:]; heads[h] = heads[h][:i]
            lines.append(f"split {h} {q} {n}"); expect.append(None)
        elif op == "init" and free:
            q = rng.choice(sorted(free)); free.discard(q); heads[q] = []
            lines.append(f"init {q}"); expect.append(None)
        elif op == "add" and len(heads) >= 2:
            hs = sorted(heads); h = rng.choice(hs); n = rng.choice([x for x in hs if x != h])
            heads[h] = heads[h] + heads[n]; del heads[n]; free.add(n)
            lines.append(f"add {h} {n}"); expect.append(None)
        elif op == "drain" and heads:
            h = rng.choice(sorted(heads))
            lines.append(f"drain {h}")
            expect.append("drain" + "".join(f" {x}" for x in heads[h])); expect.append(None)   # + mem line
            free.update(heads[h]); heads[h] = []
            probe(); continue
        elif op == "empty" and heads:
            h = rng.choice(sorted(heads))
            lines.append(f"empty {h}"); expect.append(f"empty {0 if heads[h] else 1}")
            continue
        else:
            continue
        probe()
    return lines, expect


def gen_wild(rng, steps):
    lines = [f"reset {N}"]
    for _ in range(steps):
        op = rng.choice(["init", "remove", "ins_tail", "ins_head", "move", "add", "split", "ring", "empty"])
        k = {"init": 1, "remove": 1, "ring": 1, "empty": 1, "split": 3}.get(op, 2)
        lines.append(op + "".join(f" {rng.below(N)}" for _ in range(k)))
    return lines


def monitor(out, expect):
    """property-level judgement on the implementation output alone; returns None or (line index, text)"""
    if len(out) != len(expect):
        return (min(len(out), len(expect)), f"{len(out)} output lines for {len(expect)} expected")
    for i, (o, e) in enumerate(zip(out, expect)):
        if e is not None and o != e:
            return (i, f"queue.h gives `{o}`, list semantics give `{e}`")
    return None


def run_one(ctx, exe, lines):
    rc, out, err = ctx.run(exe, text="\n".join(lines) + "\n", timeout=20)
    return rc, out.splitlines(), err


def run(ctx, lean_ok=True):
    """returns True when it consumed ctx.replay"""
    exe = ctx.harness("queue_ops", ["harness/queue_ops.c"], link_lib=False)
    if exe is None:
        return False
    if ctx.replay:
        rp = json.loads(Path(ctx.replay).read_text()).get("replay", {})
        if "queue_ops" not in rp:
            return False
        rc, out, err = run_one(ctx, exe, rp["queue_ops"])
        bad = monitor(out, rp.get("expect", [None] * len(out)))
        if rc != 0 or bad:
            ctx.violation(rp.get("sig", "queue-list-semantics"), f"replay: {bad or err[-300:]}", rp)
        return True
    from vlib import SplitMix
    rng = SplitMix(ctx.seed * 7919 + 0x51E)      # own stream: the owning check's generation is not perturbed
    nvalid, nwild = ctx.scale(150, 4000), ctx.scale(60, 1500)
    hist, diffs, mon_fail = {}, 0, False

    def do_valid(k, with_model=True):
        nonlocal diffs, mon_fail
        lines, expect = gen_valid(rng, rng.choice([8, 20, 45]))
        rc, out, err = run_one(ctx, exe, lines)
        ctx.count()
        for l in lines:
            hist[l.split()[0]] = hist.get(l.split()[0], 0) + 1
        bad = (0, f"harness exit {rc}: {err[-300:]}") if rc != 0 else monitor(out, expect)
        if bad:
            mon_fail = True
            # shrink: shortest prefix of the program that still fails
            lo = lines
            for cut in range(2, len(lines) + 1):
                l2 = lines[:cut]
                rc2, o2, _ = run_one(ctx, exe, l2)
                # expectations are aligned with outputs, so a prefix of the program has a prefix of them
                if rc2 != 0 or any(e is not None and o != e for o, e in zip(o2, expect)):
                    lo = l2
                    break
            op = lo[-1].split()[0] if lo else "?"
            if op == "ring" and len(lo) > 1:
                op = next((x.split()[0] for x in reversed(lo) if x.split()[0] not in ("ring", "empty")), op)
            ctx.violation(f"queue-{op}-list-semantics",
                          f"C14 (src/queue.h, the list every watcher/pending queue is): after `{' ; '.join(lo[-4:])}` {bad[1]}",
                          {"queue_ops": lo, "expect": expect[:len(run_one(ctx, exe, lo)[1])], "sig": f"queue-{op}-list-semantics"})
            return
        ctx.nontrivial(("queue", tuple(sorted(set(l.split()[0] for l in lines))), len(lines) // 10))
        if with_model:
            mout = ctx.driver(["queue"], "\n".join(lines) + "\n").splitlines()
            ctx.validated()
            if mout != out:
                diffs += 1
                k = next((i for i in range(min(len(out), len(mout))) if out[i] != mout[i]), min(len(out), len(mout)))
                ctx.broken_correspondence("queue model (UvModel.Queue) vs src/queue.h",
                                          f"valid program, output line {k}: impl `{out[k] if k < len(out) else None}` model `{mout[k] if k < len(mout) else None}`")

    for k in range(nvalid):
        do_valid(k)
        if mon_fail:
            break
    if not mon_fail:
        for k in range(nwild):
            lines = gen_wild(rng, rng.choice([6, 15, 40]))
            rc, out, err = run_one(ctx, exe, lines)
            mout = ctx.driver(["queue"], "\n".join(lines) + "\n").splitlines()
            ctx.count(); ctx.validated()
            if rc != 0 or out != mout:
                diffs += 1
                k2 = next((i for i in range(min(len(out), len(mout))) if out[i] != mout[i]), min(len(out), len(mout)))
                ctx.broken_correspondence("queue model (UvModel.Queue) vs src/queue.h",
                                          f"wild program `{' ; '.join(lines[:k2 + 1][-3:])}`: impl `{out[k2] if k2 < len(out) else None}` model `{mout[k2] if k2 < len(mout) else None}` rc={rc}")
                break
    if (diffs or not lean_ok) and not mon_fail:
        # the model no longer matches the code (or a proof no longer checks): search for a property-level
        # failure with the monitors alone over a much larger generation
        for k in range(20 * nvalid):
            do_valid(k, with_model=False)
            if mon_fail:
                break
    ctx.notes["queue_tie"] = {"valid_programs": nvalid, "wild_programs": nwild, "op_histogram": hist,
                              "model_impl_diffs": diffs}
    return False
